#!/bin/sh
# Compile RefServer.java into the directory given as $1 (default /verif/java/out).
set -eu
here=$(cd "$(dirname "$0")" && pwd)
out=${1:-/verif/java/out}
mkdir -p "$out"
exec javac -nowarn -encoding UTF-8 \
  --add-exports java.xml.crypto/com.sun.org.apache.xml.internal.security=ALL-UNNAMED \
  --add-exports java.xml.crypto/com.sun.org.apache.xml.internal.security.c14n=ALL-UNNAMED \
  -d "$out" "$here/RefServer.java"
