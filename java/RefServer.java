// RefServer: line-oriented reference oracle exposing the JDK's own XML canonicalisers
// (Apache Santuario, bundled in module java.xml.crypto) and javax.xml.crypto.dsig core
// validation.
//
// Protocol (one request per line on stdin, one response per line on stdout):
//   PING                                        -> OK pong
//   C14N  <alg> <selector> <b64 doc>            -> OK <b64 canonical bytes>
//   C14NX <alg> <selector> <b64 doc> <b64 sels> -> same, after removing the element(s)
//                                                  named by the space-separated selectors
//   VERIFY <b64 doc> <b64 DER cert | ->         -> OK true | OK false <reason> | ERR ...
//   anything else / failure                     -> ERR <message on one line>
// alg: exc | excc | inc | incc
// selector: "-" (document element subtree) | "doc" (whole document node, includes
//   comments/PIs outside the document element; refused with ERR when the document element
//   has no child node, because the JDK canonicaliser then drops what follows it) | "id=<v>" (element whose no-namespace
//   attribute Id/ID/id equals v, first in document order) | "path=/i/j/k" (child-ELEMENT
//   indexes from the document element; "path=/" or "path=" is the document element).
//
// Needs (javac and java):
//   --add-exports java.xml.crypto/com.sun.org.apache.xml.internal.security=ALL-UNNAMED
//   --add-exports java.xml.crypto/com.sun.org.apache.xml.internal.security.c14n=ALL-UNNAMED

import java.io.BufferedOutputStream;
import java.io.BufferedReader;
import java.io.ByteArrayInputStream;
import java.io.ByteArrayOutputStream;
import java.io.InputStreamReader;
import java.io.PrintStream;
import java.nio.charset.StandardCharsets;
import java.security.Key;
import java.security.PublicKey;
import java.security.cert.CertificateFactory;
import java.security.cert.X509Certificate;
import java.util.ArrayList;
import java.util.Base64;
import java.util.List;

import javax.xml.XMLConstants;
import javax.xml.crypto.AlgorithmMethod;
import javax.xml.crypto.KeySelector;
import javax.xml.crypto.KeySelectorException;
import javax.xml.crypto.KeySelectorResult;
import javax.xml.crypto.XMLCryptoContext;
import javax.xml.crypto.XMLStructure;
import javax.xml.crypto.dsig.Reference;
import javax.xml.crypto.dsig.XMLSignature;
import javax.xml.crypto.dsig.XMLSignatureFactory;
import javax.xml.crypto.dsig.dom.DOMValidateContext;
import javax.xml.crypto.dsig.keyinfo.KeyInfo;
import javax.xml.crypto.dsig.keyinfo.KeyValue;
import javax.xml.crypto.dsig.keyinfo.X509Data;
import javax.xml.parsers.DocumentBuilder;
import javax.xml.parsers.DocumentBuilderFactory;

import org.w3c.dom.Attr;
import org.w3c.dom.Document;
import org.w3c.dom.Element;
import org.w3c.dom.NamedNodeMap;
import org.w3c.dom.Node;
import org.xml.sax.ErrorHandler;
import org.xml.sax.InputSource;
import org.xml.sax.SAXParseException;

import com.sun.org.apache.xml.internal.security.c14n.Canonicalizer;

public class RefServer {
    static final String DSIG_NS = "http://www.w3.org/2000/09/xmldsig#";

    static DocumentBuilderFactory dbf;
    // VERIFY parses with CDATA sections converted to text and merged with their neighbours:
    // the JDK's XML-DSig unmarshaller reads only the first Text node of SignatureValue,
    // DigestValue, Modulus ..., and the XPath data model has no CDATA anyway.
    static DocumentBuilderFactory dbfCoalescing;

    static String algURI(String alg) throws Exception {
        switch (alg) {
            case "exc":  return "http://www.w3.org/2001/10/xml-exc-c14n#";
            case "excc": return "http://www.w3.org/2001/10/xml-exc-c14n#WithComments";
            case "inc":  return "http://www.w3.org/TR/2001/REC-xml-c14n-20010315";
            case "incc": return "http://www.w3.org/TR/2001/REC-xml-c14n-20010315#WithComments";
            default: throw new Exception("unknown algorithm " + alg);
        }
    }

    static void setFeature(DocumentBuilderFactory f, String name, boolean v) {
        try {
            f.setFeature(name, v);
        } catch (Exception e) {
            // feature not supported by this parser: ignore
        }
    }

    static DocumentBuilderFactory newFactory(boolean coalescing) throws Exception {
        DocumentBuilderFactory dbf = DocumentBuilderFactory.newInstance();
        dbf.setNamespaceAware(true);
        dbf.setValidating(false);
        dbf.setIgnoringComments(false);
        dbf.setCoalescing(coalescing);
        dbf.setExpandEntityReferences(true);
        dbf.setXIncludeAware(false);
        dbf.setFeature(XMLConstants.FEATURE_SECURE_PROCESSING, true);
        setFeature(dbf, "http://xml.org/sax/features/external-general-entities", false);
        setFeature(dbf, "http://xml.org/sax/features/external-parameter-entities", false);
        setFeature(dbf, "http://apache.org/xml/features/nonvalidating/load-external-dtd", false);
        setFeature(dbf, "http://apache.org/xml/features/nonvalidating/load-dtd-grammar", false);
        try {
            dbf.setAttribute(XMLConstants.ACCESS_EXTERNAL_DTD, "");
            dbf.setAttribute(XMLConstants.ACCESS_EXTERNAL_SCHEMA, "");
        } catch (Exception e) {
            // ignore
        }
        return dbf;
    }

    static void initParser() throws Exception {
        dbf = newFactory(false);
        dbfCoalescing = newFactory(true);
    }

    static Document parse(byte[] xml) throws Exception {
        return parse(xml, dbf);
    }

    static Document parse(byte[] xml, DocumentBuilderFactory f) throws Exception {
        DocumentBuilder db = f.newDocumentBuilder();
        db.setErrorHandler(new ErrorHandler() {
            public void warning(SAXParseException e) { }
            public void error(SAXParseException e) throws SAXParseException { throw e; }
            public void fatalError(SAXParseException e) throws SAXParseException { throw e; }
        });
        db.setEntityResolver((pub, sys) -> new InputSource(new ByteArrayInputStream(new byte[0])));
        return db.parse(new ByteArrayInputStream(xml));
    }

    static List<Element> childElements(Node n) {
        List<Element> out = new ArrayList<>();
        for (Node c = n.getFirstChild(); c != null; c = c.getNextSibling()) {
            if (c.getNodeType() == Node.ELEMENT_NODE) {
                out.add((Element) c);
            }
        }
        return out;
    }

    static Element findById(Element e, String v) {
        NamedNodeMap as = e.getAttributes();
        for (int i = 0; i < as.getLength(); i++) {
            Attr a = (Attr) as.item(i);
            if (a.getNamespaceURI() == null && a.getName().equalsIgnoreCase("id")
                    && !a.getName().equals("iD") && a.getValue().equals(v)) {
                return e;
            }
        }
        for (Element c : childElements(e)) {
            Element r = findById(c, v);
            if (r != null) {
                return r;
            }
        }
        return null;
    }

    static Node select(Document doc, String sel) throws Exception {
        Element root = doc.getDocumentElement();
        if (root == null) {
            throw new Exception("no document element");
        }
        if (sel.equals("-")) {
            return root;
        } else if (sel.equals("doc")) {
            if (root.getFirstChild() == null) {
                // JDK quirk: CanonicalizerBase.canonicalizeSubTree stops after a childless
                // document element and silently drops the comments/PIs that follow it
                throw new Exception("doc selector unsupported: empty document element");
            }
            return doc;
        } else if (sel.startsWith("id=")) {
            Element e = findById(root, sel.substring(3));
            if (e == null) {
                throw new Exception("selector matched nothing: " + sel);
            }
            return e;
        } else if (sel.startsWith("path=")) {
            Element cur = root;
            for (String part : sel.substring(5).split("/")) {
                if (part.isEmpty()) {
                    continue;
                }
                int idx = Integer.parseInt(part);
                List<Element> kids = childElements(cur);
                if (idx < 0 || idx >= kids.size()) {
                    throw new Exception("selector matched nothing: " + sel);
                }
                cur = kids.get(idx);
            }
            return cur;
        }
        throw new Exception("bad selector " + sel);
    }

    static byte[] b64d(String s) {
        return Base64.getDecoder().decode(s);
    }

    static String b64e(byte[] b) {
        return Base64.getEncoder().encodeToString(b);
    }

    static String c14n(String alg, String sel, byte[] xml, String removeSels) throws Exception {
        String uri = algURI(alg);
        Document doc = parse(xml);
        if (removeSels != null) {
            // resolve everything first so indexes refer to the unmodified document
            List<Node> victims = new ArrayList<>();
            for (String rs : removeSels.trim().split("\\s+")) {
                if (rs.isEmpty()) {
                    continue;
                }
                Node v = select(doc, rs);
                if (v.getNodeType() != Node.ELEMENT_NODE) {
                    throw new Exception("remove selector must name an element: " + rs);
                }
                victims.add(v);
            }
            Node target = select(doc, sel);
            for (Node v : victims) {
                for (Node p = target; p != null; p = p.getParentNode()) {
                    if (p == v) {
                        throw new Exception("removed element contains the canonicalised node");
                    }
                }
            }
            for (Node v : victims) {
                if (v.getParentNode() != null) {
                    v.getParentNode().removeChild(v);
                }
            }
            return canon(uri, target);
        }
        return canon(uri, select(doc, sel));
    }

    static String canon(String uri, Node n) throws Exception {
        Canonicalizer c = Canonicalizer.getInstance(uri);
        ByteArrayOutputStream bos = new ByteArrayOutputStream();
        c.canonicalizeSubtree(n, bos);
        return "OK " + b64e(bos.toByteArray());
    }

    static void registerIds(Element e) {
        NamedNodeMap as = e.getAttributes();
        for (int i = 0; i < as.getLength(); i++) {
            Attr a = (Attr) as.item(i);
            String n = a.getName();
            if (a.getNamespaceURI() == null && (n.equals("Id") || n.equals("ID") || n.equals("id"))) {
                e.setIdAttributeNode(a, true);
            }
        }
        for (Element c : childElements(e)) {
            registerIds(c);
        }
    }

    static Element firstSignature(Element e) {
        if (DSIG_NS.equals(e.getNamespaceURI()) && "Signature".equals(e.getLocalName())) {
            return e;
        }
        for (Element c : childElements(e)) {
            Element r = firstSignature(c);
            if (r != null) {
                return r;
            }
        }
        return null;
    }

    static class FixedKeySelector extends KeySelector {
        final PublicKey fixed;

        FixedKeySelector(PublicKey k) {
            fixed = k;
        }

        public KeySelectorResult select(KeyInfo ki, KeySelector.Purpose purpose, AlgorithmMethod m,
                XMLCryptoContext ctx) throws KeySelectorException {
            PublicKey k = fixed;
            if (k == null) {
                if (ki == null) {
                    throw new KeySelectorException("no KeyInfo and no certificate given");
                }
                try {
                    outer:
                    for (Object o : ki.getContent()) {
                        XMLStructure s = (XMLStructure) o;
                        if (s instanceof X509Data) {
                            for (Object x : ((X509Data) s).getContent()) {
                                if (x instanceof X509Certificate) {
                                    k = ((X509Certificate) x).getPublicKey();
                                    break outer;
                                }
                            }
                        } else if (s instanceof KeyValue) {
                            k = ((KeyValue) s).getPublicKey();
                            break;
                        }
                    }
                } catch (java.security.KeyException e) {
                    throw new KeySelectorException(e);
                }
                if (k == null) {
                    throw new KeySelectorException("no usable key in KeyInfo");
                }
            }
            final PublicKey res = k;
            return new KeySelectorResult() {
                public Key getKey() {
                    return res;
                }
            };
        }
    }

    static String verify(byte[] xml, byte[] certDER) throws Exception {
        PublicKey pk = null;
        if (certDER != null) {
            CertificateFactory cf = CertificateFactory.getInstance("X.509");
            pk = cf.generateCertificate(new ByteArrayInputStream(certDER)).getPublicKey();
        }
        Document doc = parse(xml, dbfCoalescing);
        Element root = doc.getDocumentElement();
        registerIds(root);
        Element sigEl = firstSignature(root);
        if (sigEl == null) {
            throw new Exception("no ds:Signature element");
        }
        XMLSignatureFactory fac = XMLSignatureFactory.getInstance("DOM");
        DOMValidateContext vc = new DOMValidateContext(new FixedKeySelector(pk), sigEl);
        vc.setProperty("org.jcp.xml.dsig.secureValidation", Boolean.FALSE);
        XMLSignature sig = fac.unmarshalXMLSignature(vc);
        boolean ok = sig.validate(vc);
        if (ok) {
            return "OK true";
        }
        StringBuilder why = new StringBuilder();
        if (!sig.getSignatureValue().validate(vc)) {
            why.append(" signature value");
        }
        int i = 0;
        for (Object o : sig.getSignedInfo().getReferences()) {
            if (!((Reference) o).validate(vc)) {
                why.append(" reference ").append(i);
            }
            i++;
        }
        if (why.length() == 0) {
            why.append(" unknown");
        }
        return "OK false" + why;
    }

    static String oneLine(Throwable e) {
        String m = e.getClass().getSimpleName() + ": " + e.getMessage();
        Throwable c = e.getCause();
        if (c != null && c != e && c.getMessage() != null) {
            m += " / " + c.getClass().getSimpleName() + ": " + c.getMessage();
        }
        return m.replace('\r', ' ').replace('\n', ' ');
    }

    static String handle(String line) {
        try {
            String[] f = line.trim().split(" +");
            if (f.length == 0 || f[0].isEmpty()) {
                return "ERR empty request";
            }
            switch (f[0]) {
                case "PING":
                    return "OK pong";
                case "C14N":
                    if (f.length != 4) {
                        return "ERR C14N needs 3 arguments";
                    }
                    return c14n(f[1], f[2], b64d(f[3]), null);
                case "C14NX":
                    if (f.length != 5) {
                        return "ERR C14NX needs 4 arguments";
                    }
                    return c14n(f[1], f[2], b64d(f[3]), new String(b64d(f[4]), StandardCharsets.UTF_8));
                case "VERIFY":
                    if (f.length != 3) {
                        return "ERR VERIFY needs 2 arguments";
                    }
                    return verify(b64d(f[1]), f[2].equals("-") ? null : b64d(f[2]));
                default:
                    return "ERR unknown request " + f[0];
            }
        } catch (Throwable e) {
            return "ERR " + oneLine(e);
        }
    }

    public static void main(String[] args) throws Exception {
        com.sun.org.apache.xml.internal.security.Init.init();
        initParser();
        BufferedReader in = new BufferedReader(new InputStreamReader(System.in, StandardCharsets.US_ASCII), 1 << 16);
        PrintStream out = new PrintStream(new BufferedOutputStream(System.out, 1 << 16), false, "US-ASCII");
        String line;
        while ((line = in.readLine()) != null) {
            out.print(handle(line));
            out.print('\n');
            out.flush();
        }
    }
}
