// Package cmsgen builds CMS / PKCS#7 SignedData values the way third-party
// signers do: legal, but full of encoding choices that a decode/re-encode
// round trip could silently "normalise" (attribute order, certificate order,
// AlgorithmIdentifier parameters, time types, sid choice, unknown
// attributes, nested countersignatures and timestamp tokens, BER outer
// framing). It is the input generator for preservation properties and
// imports nothing from relic.
package cmsgen

import (
	"bytes"
	"crypto"
	"crypto/ecdsa"
	"crypto/elliptic"
	"crypto/rand"
	"crypto/rsa"
	"crypto/sha1"
	"crypto/sha256"
	"crypto/x509"
	"crypto/x509/pkix"
	"encoding/base64"
	"encoding/binary"
	"fmt"
	"io"
	"math/big"
	"sort"
	"sync"
	"time"

	"pgregory.net/rapid"

	"github.com/sassoftware/relic/v8/xverif/der"
	"github.com/sassoftware/relic/v8/xverif/tsa"
)

// KeyPair is one ready-made signer.
type KeyPair struct {
	Name string
	Key  crypto.Signer // *rsa.PrivateKey or *ecdsa.PrivateKey (or equivalent crypto.Signer)
	Cert *x509.Certificate
}

// Keys is the caller-supplied key material; nothing is generated per case.
type Keys struct {
	CA    *x509.Certificate
	CAKey crypto.Signer
	// Signers are the leafs to draw from (certificates should carry a
	// subjectKeyIdentifier, otherwise version 3 SignerInfos are not drawn).
	Signers []KeyPair
	// Unrelated certificates may be mixed into the certificates field.
	Unrelated []*x509.Certificate
	// CRLs are complete DER CertificateLists that may be embedded.
	CRLs [][]byte
	// TSA issues nested timestamp tokens and countersignatures; nil
	// disables those quirks.
	TSA *tsa.Authority
	// Now is used for signing-time attributes.
	Now time.Time
}

// Options restricts the generator; the zero value allows everything.
type Options struct {
	NoBER                  bool // never use indefinite-length outer framing
	NoDetached             bool
	NoNonData              bool // only id-data content
	NoSKI                  bool // only issuerAndSerialNumber sids
	NoPSS                  bool
	NoBareECDSAOID         bool // never use id-ecPublicKey as signatureAlgorithm
	NoNoAttrs              bool // always emit signed attributes
	NoEarlyGeneralizedTime bool // no GeneralizedTime signing-time before 2050 (RFC 5652 §11.3 MUST)
	NoUnsigned             bool // no unsigned attributes at all
	NoCRLs                 bool
	MaxSigners             int // 0 means 3
}

// Built is one generated SignedData.
type Built struct {
	// DER is the encoded ContentInfo. Despite the name it uses BER
	// indefinite-length outer framing when BER is set; everything else is
	// definite-length with minimal (possibly long-form) lengths.
	DER []byte
	// Content is the detached content, nil when encapsulated.
	Content []byte
	// Digested are the octets every message-digest attribute covers.
	Digested []byte
	// Classes names every quirk drawn, e.g. "attrs:unsorted", "sid:ski".
	Classes []string
	// Leafs are the signer certificates, in SignerInfo order.
	Leafs []*x509.Certificate
	BER   bool
	// ContentType is the eContentType (dotted OID).
	ContentType string
}

// Has reports whether class c was drawn.
func (b *Built) Has(c string) bool {
	for _, x := range b.Classes {
		if x == c {
			return true
		}
	}
	return false
}

// Content type OIDs for the non-data kinds.
const (
	OIDOpaqueContent = "1.3.6.1.4.1.99999.1.1" // CMS style: OCTET STRING wrapped
	oidSpcPEImage    = "1.3.6.1.4.1.311.2.1.15"
	oidSpcOpusInfo   = "1.3.6.1.4.1.311.2.1.12"
	oidSpcStatement  = "1.3.6.1.4.1.311.2.1.11"
	oidSpcIndividual = "1.3.6.1.4.1.311.2.1.21"
	oidUnknownAttr   = "1.3.6.1.4.1.99999.7."
	oidAES256CBC     = "2.16.840.1.101.3.4.1.42"
	oidRC2CBC        = "1.2.840.113549.3.2"
)

// Build draws one SignedData with every quirk allowed.
func Build(t *rapid.T, keys Keys) *Built { return BuildWith(t, keys, Options{}) }

type builder struct {
	t       *rapid.T
	keys    Keys
	opt     Options
	rnd     io.Reader
	classes map[string]bool
}

func (b *builder) class(format string, a ...any) { b.classes[fmt.Sprintf(format, a...)] = true }

func (b *builder) bytes(label string, min, max int) []byte {
	v := rapid.SliceOfN(rapid.Byte(), min, max).Draw(b.t, label)
	if v == nil {
		v = []byte{}
	}
	return v
}

// detRand is a deterministic byte stream (SHA-256 in counter mode) so that
// PSS salts derive from rapid's choices.
type detRand struct {
	seed [32]byte
	ctr  uint64
	buf  []byte
}

func (d *detRand) Read(p []byte) (int, error) {
	for i := range p {
		if len(d.buf) == 0 {
			var c [8]byte
			binary.BigEndian.PutUint64(c[:], d.ctr)
			d.ctr++
			h := sha256.Sum256(append(d.seed[:], c[:]...))
			d.buf = h[:]
		}
		p[i] = d.buf[0]
		d.buf = d.buf[1:]
	}
	return len(p), nil
}

var hashes = []crypto.Hash{crypto.SHA1, crypto.SHA256, crypto.SHA384, crypto.SHA512}

func hsum(h crypto.Hash, b []byte) []byte {
	w := h.New()
	w.Write(b)
	return w.Sum(nil)
}

func hoid(h crypto.Hash) string {
	o, ok := der.OIDByHash(h)
	if !ok {
		panic("cmsgen: hash without OID")
	}
	return o
}

// BuildWith draws one SignedData under the given restrictions.
func BuildWith(t *rapid.T, keys Keys, opt Options) *Built {
	if len(keys.Signers) == 0 {
		t.Fatalf("cmsgen: Keys.Signers is empty")
	}
	b := &builder{t: t, keys: keys, opt: opt, classes: map[string]bool{}}
	seed := rapid.Uint64().Draw(t, "randSeed")
	dr := &detRand{}
	binary.BigEndian.PutUint64(dr.seed[:], seed)
	b.rnd = dr

	out := &Built{}

	// ---- content ---------------------------------------------------------
	kinds := []string{"data-attached"}
	if !opt.NoDetached {
		kinds = append(kinds, "data-detached")
	}
	if !opt.NoNonData {
		kinds = append(kinds, "spc", "ctl", "cms-nondata")
	}
	kind := rapid.SampledFrom(kinds).Draw(t, "contentKind")
	b.class("content:%s", kind)
	var encapInner []byte // the element inside eContent [0]; nil when detached
	octetContent := false
	switch kind {
	case "data-attached", "data-detached", "cms-nondata":
		// sizes straddle the 127/128 and 255/256 length-encoding boundaries
		n := rapid.SampledFrom([]int{0, 1, 5, 127, 128, 255, 256, 300, 1000}).Draw(t, "contentLen")
		payload := b.bytes("content", n, n)
		out.Digested = payload
		out.ContentType = der.OIDData
		if kind == "cms-nondata" {
			out.ContentType = OIDOpaqueContent
		}
		if kind == "data-detached" {
			out.Content = payload
		} else {
			encapInner = der.EncOctets(payload)
			octetContent = true
		}
		if n >= 128 {
			b.class("len:long-form-content")
		}
	case "spc":
		out.ContentType = der.OIDSpcIndirectData
		fh := rapid.SampledFrom(hashes).Draw(t, "spcHash")
		spc := der.EncSeq(
			der.EncSeq(der.EncOID(oidSpcPEImage), der.EncSeq(der.EncBitString(nil, 0),
				der.EncExplicit(0, der.EncContext(2, true, der.EncContext(0, false, b.bytes("spcLink", 0, 40)))))),
			der.EncSeq(der.EncAlgID(hoid(fh), der.EncNull()), der.EncOctets(b.bytes("spcDigest", fh.Size(), fh.Size()))))
		encapInner = spc
		tl, _ := der.ParseAll(spc)
		out.Digested = tl.Content
	case "ctl":
		out.ContentType = der.OIDMSCTL
		var entries [][]byte
		for i, n := 0, rapid.IntRange(0, 4).Draw(t, "ctlEntries"); i < n; i++ {
			entries = append(entries, der.EncSeq(der.EncOctets(b.bytes("ctlTag", 1, 60)),
				der.EncSet(der.EncAttribute("1.3.6.1.4.1.311.12.2.1", der.EncOctets(b.bytes("ctlAttr", 0, 80))))))
		}
		ctl := der.EncSeq(
			der.EncSeq(der.EncOID("1.3.6.1.4.1.311.12.1.1")),
			der.EncOctets(b.bytes("ctlID", 16, 16)),
			der.EncUTCTime(keys.now()),
			der.EncSeq(der.EncOID("1.3.6.1.4.1.311.12.1.2"), der.EncNull()),
			der.EncSeq(entries...))
		encapInner = ctl
		tl, _ := der.ParseAll(ctl)
		out.Digested = tl.Content
	}
	isData := out.ContentType == der.OIDData

	// ---- signers ---------------------------------------------------------
	maxSigners := opt.MaxSigners
	if maxSigners <= 0 {
		maxSigners = 3
	}
	nSigners := rapid.IntRange(1, maxSigners).Draw(t, "nSigners")
	b.class("signers:%d", nSigners)
	certSet := map[string]*x509.Certificate{} // by raw
	addCert := func(c *x509.Certificate) { certSet[string(c.Raw)] = c }
	digestAlgs := map[string]bool{}
	var signerInfos [][]byte
	anyV3 := false
	for i := 0; i < nSigners; i++ {
		kp := rapid.SampledFrom(keys.Signers).Draw(t, fmt.Sprintf("signer[%d]", i))
		si, h, v3 := b.signerInfo(i, kp, out, isData, addCert)
		signerInfos = append(signerInfos, si)
		digestAlgs[hoid(h)] = true
		anyV3 = anyV3 || v3
		addCert(kp.Cert)
		out.Leafs = append(out.Leafs, kp.Cert)
	}

	// ---- digestAlgorithms ---------------------------------------------------
	if rapid.IntRange(0, 4).Draw(t, "extraDigestAlg") == 0 {
		extra := hoid(rapid.SampledFrom(hashes).Draw(t, "extraDigestAlgHash"))
		if !digestAlgs[extra] {
			digestAlgs[extra] = true
			b.class("digestalgs:unused-extra")
		}
	}
	var oids []string
	for o := range digestAlgs {
		oids = append(oids, o)
	}
	sort.Strings(oids)
	var dAlgs [][]byte
	for _, o := range oids {
		dAlgs = append(dAlgs, der.EncAlgID(o, b.digestParams("sd."+o)))
	}
	dAlgSet := der.EncSetOf(dAlgs...)

	// ---- certificates / crls -------------------------------------------------
	if keys.CA != nil && rapid.Bool().Draw(t, "includeCA") {
		addCert(keys.CA)
		b.class("certs:ca")
	}
	for i, c := range keys.Unrelated {
		if rapid.IntRange(0, 2).Draw(t, fmt.Sprintf("unrelated[%d]", i)) == 0 {
			addCert(c)
			b.class("certs:unrelated")
		}
	}
	var certs [][]byte
	for raw := range certSet {
		certs = append(certs, []byte(raw))
	}
	certs = der.SortDER(certs) // canonical starting point, independent of map order
	if len(certs) > 1 {
		certs = rapid.Permutation(certs).Draw(t, "certOrder")
		if !der.IsSortedDER(certs) {
			b.class("certs:unsorted")
		}
	}
	b.class("certs:%d", len(certs))
	certField := der.EncContext(0, true, der.Cat(certs...))

	var crlField []byte
	if !opt.NoCRLs && len(keys.CRLs) > 0 {
		var crls [][]byte
		for i, c := range keys.CRLs {
			if rapid.IntRange(0, 2).Draw(t, fmt.Sprintf("crl[%d]", i)) == 0 {
				crls = append(crls, c)
			}
		}
		if len(crls) > 0 {
			b.class("crls:%d", len(crls))
			crlField = der.EncContext(1, true, der.Cat(crls...))
		}
	}

	// ---- SignedData version -------------------------------------------------
	version := int64(1)
	switch {
	case anyV3:
		version = 3
	case kind == "cms-nondata":
		version = 3
	case kind == "spc" || kind == "ctl":
		// Microsoft emits PKCS#7 v1.5 (version 1); a CMS-minded signer says 3.
		version = rapid.SampledFrom([]int64{1, 3}).Draw(t, "sdVersion")
	}
	b.class("sd-version:%d", version)

	if nSigners > 1 {
		signerInfos = rapid.Permutation(signerInfos).Draw(t, "signerOrder")
	}
	siSet := der.EncSet(signerInfos...)
	if !der.IsSortedDER(signerInfos) {
		b.class("signerinfos:unsorted")
	}

	// ---- framing -------------------------------------------------------------
	useBER := !opt.NoBER && rapid.IntRange(0, 3).Draw(t, "ber") == 0
	chunked := useBER && octetContent && rapid.Bool().Draw(t, "berChunkedContent")
	var encap []byte
	ctOID := der.EncOID(out.ContentType)
	switch {
	case encapInner == nil:
		encap = der.EncSeq(ctOID)
	case chunked:
		// openssl -stream style: constructed indefinite OCTET STRING
		payload := out.Digested
		var segs []byte
		for len(payload) > 0 {
			n := rapid.IntRange(1, len(payload)).Draw(t, "chunk")
			segs = append(segs, der.EncOctets(payload[:n])...)
			payload = payload[n:]
		}
		inner := der.EncIndefinite(der.ClassUniversal, der.TagOctetString, segs)
		encap = der.EncIndefinite(der.ClassUniversal, der.TagSequence, der.Cat(ctOID, der.EncIndefinite(der.ClassContext, 0, inner)))
		b.class("ber:chunked-econtent")
	default:
		encap = der.EncSeq(ctOID, der.EncExplicit(0, encapInner))
	}
	body := der.Cat(der.EncInt64(version), dAlgSet, encap, certField, crlField, siSet)
	if useBER {
		b.class("ber:indefinite-outer")
		out.BER = true
		sd := der.EncIndefinite(der.ClassUniversal, der.TagSequence, body)
		out.DER = der.EncIndefinite(der.ClassUniversal, der.TagSequence,
			der.Cat(der.EncOID(der.OIDSignedData), der.EncIndefinite(der.ClassContext, 0, sd)))
	} else {
		out.DER = der.EncSeq(der.EncOID(der.OIDSignedData), der.EncExplicit(0, der.EncTLV(der.ClassUniversal, true, der.TagSequence, body)))
	}

	// Leafs in encoded SignerInfo order (sid lookup through the inspector).
	{
		out.Leafs = out.Leafs[:0]
		for _, raw := range signerInfos {
			si, err := der.ParseSignerInfo(raw)
			if err != nil {
				t.Fatalf("cmsgen: self-check: %v", err)
			}
			var pool []der.TLV
			for _, c := range certs {
				tl, _ := der.ParseAll(c)
				pool = append(pool, tl)
			}
			tl, ok := der.FindCertTLV(si, pool)
			if !ok {
				t.Fatalf("cmsgen: self-check: leaf not found")
			}
			out.Leafs = append(out.Leafs, certSet[string(tl.Raw)])
		}
	}

	for c := range b.classes {
		out.Classes = append(out.Classes, c)
	}
	sort.Strings(out.Classes)
	return out
}

func (k Keys) now() time.Time {
	if k.Now.IsZero() {
		return time.Date(2026, 10, 3, 12, 0, 0, 0, time.UTC)
	}
	return k.Now.UTC().Truncate(time.Second)
}

// digestParams draws NULL vs absent parameters for a digest AlgorithmIdentifier.
func (b *builder) digestParams(label string) []byte {
	if rapid.Bool().Draw(b.t, "digestParamsNull:"+label) {
		b.class("digest-params:null")
		return der.EncNull()
	}
	b.class("digest-params:absent")
	return nil
}

// unknownValue draws an arbitrary well-formed DER value.
func (b *builder) unknownValue(label string) []byte {
	switch rapid.IntRange(0, 6).Draw(b.t, label+".type") {
	case 0:
		n := rapid.SampledFrom([]int{0, 3, 127, 128, 260}).Draw(b.t, label+".len")
		return der.EncOctets(b.bytes(label+".octets", n, n))
	case 1:
		return der.EncUTF8(rapid.StringN(0, 40, 120).Draw(b.t, label+".utf8"))
	case 2:
		return der.EncInt64(rapid.Int64().Draw(b.t, label+".int"))
	case 3:
		return der.EncSeq(der.EncInt64(int64(rapid.IntRange(-300, 300).Draw(b.t, label+".seqint"))), der.EncOctets(b.bytes(label+".seqoct", 0, 20)))
	case 4:
		return der.EncBool(rapid.Bool().Draw(b.t, label+".bool"))
	case 5:
		return der.EncNull()
	default:
		return der.EncSeq()
	}
}

func (b *builder) unknownAttr(label string) []byte {
	oid := oidUnknownAttr + fmt.Sprint(rapid.IntRange(1, 70000).Draw(b.t, label+".arc"))
	vals := [][]byte{b.unknownValue(label + ".v0")}
	if rapid.IntRange(0, 3).Draw(b.t, label+".two") == 0 {
		v := b.unknownValue(label + ".v1")
		if !bytes.Equal(v, vals[0]) {
			vals = der.SortDER(append(vals, v)) // SET OF values kept in DER order
		}
	}
	return der.EncAttribute(oid, vals...)
}

// signerInfo draws, signs and assembles one SignerInfo.
func (b *builder) signerInfo(idx int, kp KeyPair, out *Built, isData bool, addCert func(*x509.Certificate)) (raw []byte, h crypto.Hash, v3 bool) {
	t := b.t
	L := func(s string) string { return fmt.Sprintf("si[%d].%s", idx, s) }
	h = rapid.SampledFrom(hashes).Draw(t, L("hash"))

	// signature scheme
	var schemes []string
	switch kp.Key.Public().(type) {
	case *rsa.PublicKey:
		schemes = []string{"rsa-pkcs1", "rsa-pkcs1-shaoid"}
		if !b.opt.NoPSS {
			schemes = append(schemes, "rsa-pss")
		}
	case *ecdsa.PublicKey:
		schemes = []string{"ecdsa"}
		if !b.opt.NoBareECDSAOID {
			schemes = append(schemes, "ecdsa-bare-oid")
		}
	default:
		t.Fatalf("cmsgen: unsupported key type %T", kp.Key.Public())
	}
	scheme := rapid.SampledFrom(schemes).Draw(t, L("scheme"))
	if scheme == "rsa-pss" && h == crypto.SHA1 {
		// all-default PSS parameters would have to be omitted in DER; keep
		// the explicit-parameter variant meaningful.
		h = crypto.SHA256
	}
	b.class("sig:%s", scheme)
	b.class("hash:%s", hoid(h))

	var sigAlg []byte
	var signOpts crypto.SignerOpts = h
	switch scheme {
	case "rsa-pkcs1":
		sigAlg = der.EncAlgID(der.OIDRSAEncryption, der.EncNull())
	case "rsa-pkcs1-shaoid":
		oid := map[crypto.Hash]string{crypto.SHA1: der.OIDSHA1WithRSA, crypto.SHA256: der.OIDSHA256WithRSA,
			crypto.SHA384: der.OIDSHA384WithRSA, crypto.SHA512: der.OIDSHA512WithRSA}[h]
		sigAlg = der.EncAlgID(oid, der.EncNull())
	case "rsa-pss":
		// (an explicit zero-length salt is not drawn: Go's signer treats 0 as "auto")
		salt := rapid.SampledFrom([]int{h.Size(), 20, 32, 17}).Draw(t, L("pssSalt"))
		hashAlg := der.EncAlgID(hoid(h), b.digestParams(L("pssHash")))
		parts := [][]byte{
			der.EncExplicit(0, hashAlg),
			der.EncExplicit(1, der.EncAlgID(der.OIDMGF1, hashAlg)),
		}
		if salt != 20 { // DEFAULT 20 must be omitted in DER
			parts = append(parts, der.EncExplicit(2, der.EncInt64(int64(salt))))
		}
		sigAlg = der.EncAlgID(der.OIDRSAPSS, der.EncSeq(parts...))
		signOpts = &rsa.PSSOptions{SaltLength: salt, Hash: h}
	case "ecdsa":
		oid := map[crypto.Hash]string{crypto.SHA1: der.OIDECDSAWithSHA1, crypto.SHA256: der.OIDECDSAWithSHA256,
			crypto.SHA384: der.OIDECDSAWithSHA384, crypto.SHA512: der.OIDECDSAWithSHA512}[h]
		sigAlg = der.EncAlgID(oid, nil)
	case "ecdsa-bare-oid":
		sigAlg = der.EncAlgID(der.OIDECPublicKey, nil)
	}

	// sid
	version := int64(1)
	sid := der.EncSeq(kp.Cert.RawIssuer, der.EncInt(kp.Cert.SerialNumber))
	if !b.opt.NoSKI && len(kp.Cert.SubjectKeyId) > 0 && rapid.IntRange(0, 2).Draw(t, L("ski")) == 0 {
		version, v3 = 3, true
		sid = der.EncContext(0, false, kp.Cert.SubjectKeyId)
		b.class("sid:ski")
	} else {
		b.class("sid:issuer-serial")
	}

	digestAlg := der.EncAlgID(hoid(h), b.digestParams(L("digestAlg")))

	// signed attributes
	noAttrs := isData && !b.opt.NoNoAttrs && rapid.IntRange(0, 5).Draw(t, L("noattr")) == 0
	var signedAttrs []byte
	tbs := out.Digested
	if noAttrs {
		b.class("attrs:none")
	} else {
		attrs := [][]byte{
			der.EncAttribute(der.OIDAttrContentType, der.EncOID(out.ContentType)),
			der.EncAttribute(der.OIDAttrMessageDigest, der.EncOctets(hsum(h, out.Digested))),
		}
		now := b.keys.now()
		stKinds := []string{"none", "utc", "gen2050"}
		if !b.opt.NoEarlyGeneralizedTime {
			stKinds = append(stKinds, "gen-early")
		}
		switch st := rapid.SampledFrom(stKinds).Draw(t, L("signingTime")); st {
		case "utc":
			attrs = append(attrs, der.EncAttribute(der.OIDAttrSigningTime, der.EncUTCTime(now)))
			b.class("attr:signing-time-utc")
		case "gen2050":
			// GeneralizedTime is mandatory from 2050 on (RFC 5652 §11.3)
			attrs = append(attrs, der.EncAttribute(der.OIDAttrSigningTime, der.EncGeneralizedTime(now.AddDate(2050-now.Year(), 0, 0))))
			b.class("attr:signing-time-gen2050")
		case "gen-early":
			attrs = append(attrs, der.EncAttribute(der.OIDAttrSigningTime, der.EncGeneralizedTime(now)))
			b.class("attr:signing-time-gen-early")
		}
		if rapid.IntRange(0, 2).Draw(t, L("smimeCaps")) == 0 {
			attrs = append(attrs, der.EncAttribute(der.OIDAttrSMIMECaps, der.EncSeq(
				der.EncSeq(der.EncOID(oidAES256CBC)),
				der.EncSeq(der.EncOID(oidRC2CBC), der.EncInt64(128)))))
			b.class("attr:smime-caps")
		}
		if out.ContentType == der.OIDSpcIndirectData && rapid.Bool().Draw(t, L("opus")) {
			attrs = append(attrs,
				der.EncAttribute(oidSpcOpusInfo, der.EncSeq()),
				der.EncAttribute(oidSpcStatement, der.EncSeq(der.EncOID(oidSpcIndividual))))
			b.class("attr:spc-opus")
		}
		for i, n := 0, rapid.IntRange(0, 2).Draw(t, L("nUnknown")); i < n; i++ {
			a := b.unknownAttr(L(fmt.Sprintf("unknown[%d]", i)))
			dup := false
			for _, x := range attrs {
				dup = dup || bytes.Equal(x, a)
			}
			if !dup {
				attrs = append(attrs, a)
				b.class("attr:unknown")
			}
		}
		attrs = der.SortDER(attrs)
		if rapid.IntRange(0, 2).Draw(t, L("shuffleAttrs")) != 0 {
			attrs = rapid.Permutation(attrs).Draw(t, L("attrOrder"))
		}
		if der.IsSortedDER(attrs) {
			b.class("attrs:sorted")
		} else {
			b.class("attrs:unsorted")
		}
		signedAttrs = der.EncContext(0, true, der.Cat(attrs...))
		if len(signedAttrs) > 0x82 {
			b.class("len:long-form-attrs")
		}
		tbs = append([]byte{0x31}, signedAttrs[1:]...)
	}

	sig, err := kp.Key.Sign(b.rnd, hsum(h, tbs), signOpts)
	if err != nil {
		t.Fatalf("cmsgen: signing with %s: %v", kp.Name, err)
	}

	// unsigned attributes
	var unsigned []byte
	if !b.opt.NoUnsigned {
		var uattrs [][]byte
		if b.keys.TSA != nil {
			switch cs := rapid.SampledFrom([]string{"none", "none", "rfc", "ms"}).Draw(t, L("countersig")); cs {
			case "rfc":
				uattrs = append(uattrs, der.EncAttribute(der.OIDAttrCounterSignature, b.counterSignature(L("cs"), sig, false)))
				addCert(b.keys.TSA.Cert)
				b.class("unsigned:countersig-rfc")
			case "ms":
				si, certs := b.legacyCounterSignature(sig)
				uattrs = append(uattrs, der.EncAttribute(der.OIDAttrCounterSignature, si))
				for _, c := range certs {
					addCert(c)
				}
				b.class("unsigned:countersig-ms")
			}
			switch ts := rapid.SampledFrom([]string{"none", "none", "rfc3161", "ms-oid"}).Draw(t, L("tst")); ts {
			case "rfc3161", "ms-oid":
				a := b.keys.TSA.Clone()
				a.Rand = b.rnd
				a.SerialBase = int64(rapid.IntRange(1, 1<<30).Draw(t, L("tstSerial")))
				ih := rapid.SampledFrom(hashes).Draw(t, L("tstImprintHash"))
				certReq := rapid.Bool().Draw(t, L("tstCertReq"))
				var nonce *big.Int
				if rapid.Bool().Draw(t, L("tstHasNonce")) {
					nonce = new(big.Int).SetUint64(rapid.Uint64().Draw(t, L("tstNonce")))
				}
				tok, err := a.Token(ih, hsum(ih, sig), nonce, certReq)
				if err != nil {
					t.Fatalf("cmsgen: TSA: %v", err)
				}
				if !certReq {
					addCert(a.Cert)
					b.class("unsigned:tst-without-certs")
				}
				oid := der.OIDAttrTimeStampToken
				if ts == "ms-oid" {
					oid = der.OIDAttrMSTimeStampToken
				}
				uattrs = append(uattrs, der.EncAttribute(oid, tok))
				b.class("unsigned:tst-%s", ts)
			}
		}
		if rapid.IntRange(0, 3).Draw(t, L("unsignedUnknown")) == 0 {
			uattrs = append(uattrs, b.unknownAttr(L("uunknown")))
			b.class("unsigned:unknown")
		}
		if len(uattrs) > 0 {
			uattrs = der.SortDER(uattrs)
			if len(uattrs) > 1 && rapid.Bool().Draw(t, L("shuffleUnsigned")) {
				uattrs = rapid.Permutation(uattrs).Draw(t, L("unsignedOrder"))
			}
			if !der.IsSortedDER(uattrs) {
				b.class("unsigned:unsorted")
			}
			unsigned = der.EncContext(1, true, der.Cat(uattrs...))
		}
	}

	raw = der.EncSeq(der.EncInt64(version), sid, digestAlg, signedAttrs, sigAlg, der.EncOctets(sig), unsigned)
	return raw, h, v3
}

// counterSignature builds an RFC 5652 §11.4 countersignature SignerInfo by
// the TSA key over sig: message-digest (and signing-time) but no
// content-type attribute.
func (b *builder) counterSignature(label string, sig []byte, withContentType bool) []byte {
	a := b.keys.TSA
	h := rapid.SampledFrom(hashes).Draw(b.t, label+".hash")
	attrs := [][]byte{
		der.EncAttribute(der.OIDAttrMessageDigest, der.EncOctets(hsum(h, sig))),
		der.EncAttribute(der.OIDAttrSigningTime, der.EncUTCTime(b.keys.now())),
	}
	if withContentType {
		attrs = append(attrs, der.EncAttribute(der.OIDAttrContentType, der.EncOID(der.OIDData)))
	}
	attrs = der.SortDER(attrs)
	if rapid.Bool().Draw(b.t, label+".shuffle") {
		attrs = rapid.Permutation(attrs).Draw(b.t, label+".order")
	}
	sa := der.EncContext(0, true, der.Cat(attrs...))
	tbs := append([]byte{0x31}, sa[1:]...)
	var sigAlg []byte
	switch a.Key.Public().(type) {
	case *rsa.PublicKey:
		sigAlg = der.EncAlgID(der.OIDRSAEncryption, der.EncNull())
	case *ecdsa.PublicKey:
		sigAlg = der.EncAlgID(map[crypto.Hash]string{crypto.SHA1: der.OIDECDSAWithSHA1, crypto.SHA256: der.OIDECDSAWithSHA256,
			crypto.SHA384: der.OIDECDSAWithSHA384, crypto.SHA512: der.OIDECDSAWithSHA512}[h], nil)
	default:
		b.t.Fatalf("cmsgen: unsupported TSA key %T", a.Key.Public())
	}
	csig, err := a.Key.Sign(b.rnd, hsum(h, tbs), h)
	if err != nil {
		b.t.Fatalf("cmsgen: countersigning: %v", err)
	}
	return der.EncSeq(der.EncInt64(1), der.EncSeq(a.Cert.RawIssuer, der.EncInt(a.Cert.SerialNumber)),
		der.EncAlgID(hoid(h), b.digestParams(label+".digestAlg")), sa, sigAlg, der.EncOctets(csig))
}

// legacyCounterSignature obtains a countersignature the Authenticode way:
// ask the legacy responder, take its SignerInfo and certificates.
func (b *builder) legacyCounterSignature(sig []byte) ([]byte, []*x509.Certificate) {
	a := b.keys.TSA.Clone()
	a.Rand = b.rnd
	a.HashForSigning = crypto.SHA1
	status, _, body := a.RespondMS(tsa.MarshalMSRequest(sig), tsa.MSValid)
	if status != 200 {
		b.t.Fatalf("cmsgen: legacy TSA: HTTP %d: %s", status, body)
	}
	p7, err := base64.StdEncoding.DecodeString(string(body))
	if err != nil {
		b.t.Fatalf("cmsgen: legacy TSA: %v", err)
	}
	sd, err := der.ParseSignedData(p7)
	if err != nil || len(sd.SignerInfos) != 1 {
		b.t.Fatalf("cmsgen: legacy TSA response: %v", err)
	}
	return sd.SignerInfos[0].Raw, sd.ParsedCertificates()
}

// --- test key material --------------------------------------------------------

var (
	testKeysOnce sync.Once
	testKeys     Keys
	testKeysErr  error
)

// TestKeys generates one P-256 CA, an RSA-2048 and a P-256 code-signing
// leaf, an unrelated self-signed certificate, a CRL and a P-256 TSA, once per
// process.
func TestKeys() Keys {
	testKeysOnce.Do(func() { testKeys, testKeysErr = makeTestKeys() })
	if testKeysErr != nil {
		panic("cmsgen.TestKeys: " + testKeysErr.Error())
	}
	return testKeys
}

func skid(pub crypto.PublicKey) []byte {
	d, _ := x509.MarshalPKIXPublicKey(pub)
	h := sha1.Sum(d)
	return h[:]
}

// NewLeaf issues a code-signing leaf for key under ca.
func NewLeaf(key crypto.Signer, caKey crypto.Signer, ca *x509.Certificate, now time.Time, name string, serial int64) (*x509.Certificate, error) {
	tpl := &x509.Certificate{
		SerialNumber:          big.NewInt(serial),
		Subject:               pkix.Name{Organization: []string{"xverif"}, CommonName: name},
		NotBefore:             now.Add(-time.Hour),
		NotAfter:              now.AddDate(5, 0, 0),
		KeyUsage:              x509.KeyUsageDigitalSignature,
		ExtKeyUsage:           []x509.ExtKeyUsage{x509.ExtKeyUsageCodeSigning},
		BasicConstraintsValid: true,
		SubjectKeyId:          skid(key.Public()),
	}
	d, err := x509.CreateCertificate(rand.Reader, tpl, ca, key.Public(), caKey)
	if err != nil {
		return nil, err
	}
	return x509.ParseCertificate(d)
}

func makeTestKeys() (Keys, error) {
	now := time.Date(2026, 10, 3, 12, 0, 0, 0, time.UTC)
	k := Keys{Now: now}
	caKey, err := ecdsa.GenerateKey(elliptic.P256(), rand.Reader)
	if err != nil {
		return k, err
	}
	k.CAKey = caKey
	if k.CA, err = tsa.NewCA(caKey, now, "xverif cmsgen CA"); err != nil {
		return k, err
	}
	rsaKey, err := rsa.GenerateKey(rand.Reader, 2048)
	if err != nil {
		return k, err
	}
	ecKey, err := ecdsa.GenerateKey(elliptic.P256(), rand.Reader)
	if err != nil {
		return k, err
	}
	rsaCert, err := NewLeaf(rsaKey, caKey, k.CA, now, "rsa leaf", 0x0101)
	if err != nil {
		return k, err
	}
	// a serial with the top bit set exercises the INTEGER leading-zero rule
	ecCert, err := NewLeaf(ecKey, caKey, k.CA, now, "ec leaf", 0x00f0e1d2c3)
	if err != nil {
		return k, err
	}
	k.Signers = []KeyPair{{"rsa", rsaKey, rsaCert}, {"ec", ecKey, ecCert}}

	otherKey, err := ecdsa.GenerateKey(elliptic.P256(), rand.Reader)
	if err != nil {
		return k, err
	}
	other, err := tsa.NewCA(otherKey, now, "unrelated root")
	if err != nil {
		return k, err
	}
	k.Unrelated = []*x509.Certificate{other}

	crl, err := x509.CreateRevocationList(rand.Reader, &x509.RevocationList{
		Number:     big.NewInt(7),
		ThisUpdate: now.Add(-time.Hour),
		NextUpdate: now.AddDate(0, 1, 0),
		RevokedCertificateEntries: []x509.RevocationListEntry{
			{SerialNumber: big.NewInt(0xdead), RevocationTime: now.Add(-2 * time.Hour)},
		},
	}, k.CA, caKey)
	if err != nil {
		return k, err
	}
	k.CRLs = [][]byte{crl}
	if foreign, err := ForeignCRL(caKey, now); err == nil {
		k.CRLs = append(k.CRLs, foreign)
	} else {
		return k, err
	}

	tsaKey, err := ecdsa.GenerateKey(elliptic.P256(), rand.Reader)
	if err != nil {
		return k, err
	}
	if k.TSA, err = tsa.NewAuthority(tsaKey, caKey, k.CA, now, "xverif cmsgen TSA"); err != nil {
		return k, err
	}
	return k, nil
}

// ForeignCRL is a valid v2 CRL encoded the way a non-Go issuer might: attribute values
// as UTF8String / IA5String where PrintableString would do, an explicit empty
// extensions-free body and a revoked entry with a reason extension. A re-encoding by
// Go's encoder would not reproduce these bytes.
func ForeignCRL(caKey crypto.Signer, now time.Time) ([]byte, error) {
	name := der.EncSeq(
		der.EncSet(der.EncSeq(der.EncOID("2.5.4.10"), der.EncUTF8("xverif"))),
		der.EncSet(der.EncSeq(der.EncOID("2.5.4.11"), der.EncTLV(der.ClassUniversal, false, 22, []byte("crl unit")))), // IA5String
		der.EncSet(der.EncSeq(der.EncOID("2.5.4.3"), der.EncUTF8("xverif cmsgen CA"))),
	)
	sigAlg := der.EncSeq(der.EncOID("1.2.840.10045.4.3.2")) // ecdsa-with-SHA256, parameters absent
	if _, ok := caKey.Public().(*rsa.PublicKey); ok {
		sigAlg = der.EncSeq(der.EncOID("1.2.840.113549.1.1.11"), der.EncNull()) // sha256WithRSAEncryption
	}
	reason := der.EncSeq(der.EncSeq(der.EncOID("2.5.29.21"), der.EncOctets([]byte{0x0a, 0x01, 0x01})))
	revoked := der.EncSeq(
		der.EncSeq(der.EncInt64(0x0badcafe), der.EncUTCTime(now.Add(-3*time.Hour)), reason),
		der.EncSeq(der.EncInt64(0x0101), der.EncUTCTime(now.Add(-2*time.Hour))),
	)
	tbs := der.EncSeq(der.EncInt64(1), sigAlg, name, der.EncUTCTime(now.Add(-time.Hour)), der.EncUTCTime(now.AddDate(0, 2, 0)), revoked)
	digest := sha256.Sum256(tbs)
	sig, err := caKey.Sign(rand.Reader, digest[:], crypto.SHA256)
	if err != nil {
		return nil, err
	}
	return der.EncSeq(tbs, sigAlg, der.EncBitString(sig, 0)), nil
}
