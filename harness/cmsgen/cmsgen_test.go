package cmsgen

import (
	"bytes"
	"errors"
	"os"
	"os/exec"
	"path/filepath"
	"strings"
	"sync"
	"testing"

	"pgregory.net/rapid"

	"github.com/sassoftware/relic/v8/xverif/der"
)

// maxOpenSSLRuns caps the openssl sample; XVERIF_OPENSSL_ALL=1 lifts the cap.
var maxOpenSSLRuns = func() int {
	if os.Getenv("XVERIF_OPENSSL_ALL") != "" {
		return 1 << 30
	}
	return 60
}()

type stats struct {
	mu       sync.Mutex
	classes  map[string]int
	openssl  int
	osslSeen map[string]int
}

func (s *stats) add(b *Built) {
	s.mu.Lock()
	defer s.mu.Unlock()
	for _, c := range b.Classes {
		s.classes[c]++
	}
}

// opensslVerify runs `openssl cms -verify -noverify` (signature and digest
// checks, no chain building) and returns the recovered content.
func opensslVerify(dir string, b *Built) ([]byte, string, error) {
	in := filepath.Join(dir, "in.der")
	outp := filepath.Join(dir, "out.bin")
	if err := os.WriteFile(in, b.DER, 0o644); err != nil {
		return nil, "", err
	}
	os.Remove(outp)
	args := []string{"cms", "-verify", "-noverify", "-binary", "-inform", "DER", "-in", in, "-out", outp}
	if b.Content != nil {
		c := filepath.Join(dir, "content.bin")
		if err := os.WriteFile(c, b.Content, 0o644); err != nil {
			return nil, "", err
		}
		args = append(args, "-content", c)
	}
	msg, err := exec.Command("openssl", args...).CombinedOutput()
	if err != nil {
		return nil, string(msg), err
	}
	got, err := os.ReadFile(outp)
	return got, string(msg), err
}

func TestBuiltVerifies(t *testing.T) {
	keys := TestKeys()
	_, osslErr := exec.LookPath("openssl")
	dir := t.TempDir()
	st := &stats{classes: map[string]int{}, osslSeen: map[string]int{}}

	rapid.Check(t, func(rt *rapid.T) {
		b := Build(rt, keys)
		st.add(b)
		sd, err := der.ParseSignedData(b.DER)
		if err != nil {
			rt.Fatalf("parse: %v\nclasses %v", err, b.Classes)
		}
		if sd.BER != b.BER {
			rt.Fatalf("BER flag %v, inspector says %v", b.BER, sd.BER)
		}
		top, _ := der.ParseAll(b.DER)
		if !b.BER && !top.DeepDER() {
			rt.Fatalf("non-BER variant contains indefinite or non-minimal lengths")
		}
		if sd.EContentType != b.ContentType || sd.Detached != (b.Content != nil) {
			rt.Fatalf("content type %s detached %v", sd.EContentType, sd.Detached)
		}
		if !sd.Detached && !bytes.Equal(sd.EContentValueBytes, b.Digested) {
			rt.Fatalf("EContentValueBytes differ from what was digested")
		}
		if len(sd.SignerInfos) != len(b.Leafs) {
			rt.Fatalf("%d SignerInfos, %d leafs", len(sd.SignerInfos), len(b.Leafs))
		}
		for i := range sd.SignerInfos {
			si := &sd.SignerInfos[i]
			if err := sd.VerifySigner(si, b.Content); err != nil {
				rt.Fatalf("signer %d: %v\nclasses %v", i, err, b.Classes)
			}
			cert, err := sd.FindCert(si)
			if err != nil || !cert.Equal(b.Leafs[i]) {
				rt.Fatalf("signer %d: leaf mismatch: %v", i, err)
			}
			if sd.Detached {
				if err := sd.VerifySigner(si, append([]byte{0}, b.Content...)); !errors.Is(err, der.ErrDigestMismatch) && !errors.Is(err, der.ErrSignature) {
					rt.Fatalf("signer %d: wrong detached content accepted: %v", i, err)
				}
			}
		}
		// nested countersignatures and timestamp tokens
		if err := sd.VerifyAll(b.Content); err != nil {
			rt.Fatalf("VerifyAll: %v\nclasses %v", err, b.Classes)
		}
		// version rule of RFC 5652 §5.1 (or PKCS#7 v1 for the Microsoft kinds)
		wantV3 := b.Has("sid:ski") || b.Has("content:cms-nondata")
		if wantV3 && sd.Version != 3 || sd.Version != 1 && sd.Version != 3 {
			rt.Fatalf("SignedData version %d, classes %v", sd.Version, b.Classes)
		}
		// every digest algorithm used by a signer is announced
		announced := map[string]bool{}
		for _, a := range sd.DigestAlgorithms {
			k, _ := a.Children()
			oid, _ := k[0].OID()
			announced[oid] = true
		}
		for _, si := range sd.SignerInfos {
			if !announced[si.DigestAlgOID] {
				rt.Fatalf("digest %s not in digestAlgorithms", si.DigestAlgOID)
			}
		}
		// class bookkeeping is truthful
		unsorted := false
		for _, si := range sd.SignerInfos {
			var raws [][]byte
			for _, a := range si.SignedAttrs {
				raws = append(raws, a.Raw)
			}
			unsorted = unsorted || !der.IsSortedDER(raws)
		}
		if unsorted != b.Has("attrs:unsorted") {
			rt.Fatalf("attrs:unsorted=%v but inspector sees unsorted=%v", b.Has("attrs:unsorted"), unsorted)
		}
		nTok, nCS := 0, 0
		for _, si := range sd.SignerInfos {
			nTok += len(si.TimestampTokens())
			nCS += len(si.Countersignatures())
		}
		if (nTok > 0) != (b.Has("unsigned:tst-rfc3161") || b.Has("unsigned:tst-ms-oid")) ||
			(nCS > 0) != (b.Has("unsigned:countersig-rfc") || b.Has("unsigned:countersig-ms")) {
			rt.Fatalf("nested: %d tokens %d countersigs vs classes %v", nTok, nCS, b.Classes)
		}

		// Normalising the attribute order must break the signature, i.e. the
		// quirk is load-bearing.
		if b.Has("attrs:unsorted") {
			mut := append([]byte(nil), b.DER...)
			for _, si := range sd.SignerInfos {
				var raws [][]byte
				for _, a := range si.SignedAttrs {
					raws = append(raws, a.Raw)
				}
				if der.IsSortedDER(raws) {
					continue
				}
				sorted := der.EncContext(0, true, der.Cat(der.SortDER(raws)...))
				off := si.SignedAttrsTLV.Offset
				copy(mut[off:off+len(sorted)], sorted)
			}
			msd, err := der.ParseSignedData(mut)
			if err != nil {
				rt.Fatalf("sorted variant does not parse: %v", err)
			}
			if err := msd.VerifyAll(b.Content); !errors.Is(err, der.ErrSignature) {
				rt.Fatalf("sorting signed attributes went unnoticed: %v", err)
			}
		}

		// openssl cross-check on a sample: it only understands OCTET STRING
		// eContent, so the PKCS#7 ANY kinds are skipped.
		if osslErr != nil || b.Has("content:spc") || b.Has("content:ctl") {
			return
		}
		st.mu.Lock()
		run := st.openssl < maxOpenSSLRuns
		if run {
			st.openssl++
		}
		st.mu.Unlock()
		if !run {
			return
		}
		got, msg, err := opensslVerify(dir, b)
		if err != nil {
			rt.Fatalf("openssl cms -verify: %v\n%s\nclasses %v", err, msg, b.Classes)
		}
		if !bytes.Equal(got, b.Digested) {
			rt.Fatalf("openssl recovered different content")
		}
		st.mu.Lock()
		for _, c := range b.Classes {
			st.osslSeen[c]++
		}
		st.mu.Unlock()
	})

	t.Logf("openssl cross-checked %d cases", st.openssl)
	must := []string{
		"content:data-attached", "content:data-detached", "content:spc", "content:ctl", "content:cms-nondata",
		"attrs:unsorted", "attrs:sorted", "attrs:none", "sid:ski", "sid:issuer-serial",
		"sig:rsa-pkcs1", "sig:rsa-pkcs1-shaoid", "sig:rsa-pss", "sig:ecdsa", "sig:ecdsa-bare-oid",
		"digest-params:null", "digest-params:absent", "signers:1", "signers:2", "signers:3",
		"unsigned:countersig-rfc", "unsigned:countersig-ms", "unsigned:tst-rfc3161", "unsigned:tst-ms-oid",
		"attr:signing-time-utc", "attr:signing-time-gen2050", "attr:smime-caps", "attr:unknown",
		"certs:unrelated", "certs:unsorted", "crls:1", "ber:indefinite-outer", "ber:chunked-econtent",
		"sd-version:1", "sd-version:3", "len:long-form-content",
	}
	var missing []string
	for _, c := range must {
		if st.classes[c] == 0 {
			missing = append(missing, c)
		}
	}
	if len(missing) > 0 && !t.Failed() {
		t.Errorf("generator never produced: %s\nseen: %v", strings.Join(missing, ", "), st.classes)
	}
	if osslErr == nil && !t.Failed() {
		for _, c := range []string{"sig:rsa-pss", "sig:ecdsa-bare-oid", "sid:ski", "attrs:unsorted", "content:data-detached"} {
			if st.osslSeen[c] == 0 {
				t.Errorf("openssl sample never covered %s (%v)", c, st.osslSeen)
			}
		}
	}
}

func TestOptionsRestrict(t *testing.T) {
	keys := TestKeys()
	opt := Options{NoBER: true, NoDetached: true, NoNonData: true, NoSKI: true, NoPSS: true, NoBareECDSAOID: true,
		NoNoAttrs: true, NoEarlyGeneralizedTime: true, NoUnsigned: true, NoCRLs: true, MaxSigners: 1}
	rapid.Check(t, func(rt *rapid.T) {
		b := BuildWith(rt, keys, opt)
		for _, c := range b.Classes {
			switch {
			case strings.HasPrefix(c, "ber:"), c == "content:data-detached", c == "content:spc", c == "content:ctl",
				c == "content:cms-nondata", c == "sid:ski", c == "sig:rsa-pss", c == "sig:ecdsa-bare-oid", c == "attrs:none",
				c == "attr:signing-time-gen-early", strings.HasPrefix(c, "unsigned:"), strings.HasPrefix(c, "crls:"),
				c == "signers:2", c == "signers:3":
				rt.Fatalf("class %s drawn despite restriction", c)
			}
		}
		if b.BER || b.Content != nil || len(b.Leafs) != 1 {
			rt.Fatalf("restriction violated: %+v", b.Classes)
		}
		sd, err := der.ParseSignedData(b.DER)
		if err != nil {
			rt.Fatal(err)
		}
		if err := sd.VerifyAll(nil); err != nil {
			rt.Fatal(err)
		}
	})
}
