// Package amqpfake is a minimal AMQP 0-9-1 broker for audit-sink fault injection: it
// speaks just enough of the protocol (connection/channel negotiation, exchange.declare,
// confirm.select, basic.publish with content frames) for a publisher using publisher
// confirms, and answers each published message according to its mode.
package amqpfake

import (
	"bytes"
	"encoding/binary"
	"io"
	"net"
	"sync"
	"time"
)

// Modes: how a fully received message is answered.
const (
	Ack    = "ack"    // basic.ack: the broker took the message
	Nack   = "nack"   // basic.nack
	Refuse = "refuse" // channel.close 403 ACCESS_REFUSED instead of a confirmation
	Drop   = "drop"   // the connection is closed without any confirmation
)

type Broker struct {
	lis net.Listener

	mu        sync.Mutex
	mode      string
	bodies    [][]byte // every message body received
	confirmed int
}

func Start() (*Broker, error) {
	lis, err := net.Listen("tcp", "127.0.0.1:0")
	if err != nil {
		return nil, err
	}
	b := &Broker{lis: lis, mode: Ack}
	go func() {
		for {
			c, err := lis.Accept()
			if err != nil {
				return
			}
			go b.serve(c)
		}
	}()
	return b, nil
}

func (b *Broker) URL() string { return "amqp://guest:guest@" + b.lis.Addr().String() + "/" }
func (b *Broker) Close()      { b.lis.Close() }

func (b *Broker) SetMode(m string) {
	b.mu.Lock()
	b.mode = m
	b.bodies, b.confirmed = nil, 0
	b.mu.Unlock()
}

// Bodies returns the message bodies received since SetMode and how many were confirmed.
func (b *Broker) Bodies() ([][]byte, int) {
	b.mu.Lock()
	defer b.mu.Unlock()
	return append([][]byte(nil), b.bodies...), b.confirmed
}

func writeFrame(c net.Conn, typ byte, ch uint16, payload []byte) error {
	buf := make([]byte, 7, 8+len(payload))
	buf[0] = typ
	binary.BigEndian.PutUint16(buf[1:], ch)
	binary.BigEndian.PutUint32(buf[3:], uint32(len(payload)))
	buf = append(append(buf, payload...), 0xCE)
	_, err := c.Write(buf)
	return err
}

func method(class, meth uint16, args ...byte) []byte {
	p := make([]byte, 4, 4+len(args))
	binary.BigEndian.PutUint16(p[0:], class)
	binary.BigEndian.PutUint16(p[2:], meth)
	return append(p, args...)
}

func longstr(s string) []byte {
	p := make([]byte, 4, 4+len(s))
	binary.BigEndian.PutUint32(p, uint32(len(s)))
	return append(p, s...)
}

func shortstr(s string) []byte { return append([]byte{byte(len(s))}, s...) }

func readFrame(c net.Conn) (typ byte, ch uint16, payload []byte, err error) {
	hdr := make([]byte, 7)
	if _, err = io.ReadFull(c, hdr); err != nil {
		return
	}
	typ, ch = hdr[0], binary.BigEndian.Uint16(hdr[1:])
	size := binary.BigEndian.Uint32(hdr[3:])
	if size > 1<<24 {
		err = io.ErrUnexpectedEOF
		return
	}
	payload = make([]byte, size+1)
	if _, err = io.ReadFull(c, payload); err != nil {
		return
	}
	return typ, ch, payload[:size], nil
}

func (b *Broker) serve(c net.Conn) {
	defer c.Close()
	_ = c.SetDeadline(time.Now().Add(30 * time.Second))
	proto := make([]byte, 8)
	if _, err := io.ReadFull(c, proto); err != nil {
		return
	}
	// connection.start: version 0.9, empty server-properties, mechanisms PLAIN, locales en_US
	start := bytes.Join([][]byte{{0, 9}, {0, 0, 0, 0}, longstr("PLAIN"), longstr("en_US")}, nil)
	if writeFrame(c, 1, 0, method(10, 10, start...)) != nil {
		return
	}
	var deliveryTag, pending uint64
	var body []byte
	for {
		typ, ch, payload, err := readFrame(c)
		if err != nil {
			return
		}
		switch typ {
		case 8: // heartbeat
			continue
		case 2: // content header: class(2) weight(2) body-size(8) flags...
			if len(payload) < 12 {
				return
			}
			pending, body = binary.BigEndian.Uint64(payload[4:12]), nil
			if pending != 0 {
				continue
			}
		case 3: // content body
			body = append(body, payload...)
			if uint64(len(body)) < pending {
				continue
			}
		case 1:
		default:
			continue
		}
		if typ == 2 || typ == 3 {
			b.mu.Lock()
			b.bodies = append(b.bodies, body)
			mode := b.mode
			b.mu.Unlock()
			deliveryTag++
			tag := make([]byte, 8)
			binary.BigEndian.PutUint64(tag, deliveryTag)
			switch mode {
			case Ack:
				b.mu.Lock()
				b.confirmed++
				b.mu.Unlock()
				_ = writeFrame(c, 1, ch, method(60, 80, append(tag, 0)...))
			case Nack:
				_ = writeFrame(c, 1, ch, method(60, 120, append(tag, 0)...))
			case Refuse:
				args := bytes.Join([][]byte{{0x01, 0x93}, shortstr("ACCESS_REFUSED - access to the exchange refused"), {0, 60, 0, 40}}, nil)
				_ = writeFrame(c, 1, ch, method(20, 40, args...))
			case Drop:
				return
			}
			continue
		}
		if len(payload) < 4 {
			return
		}
		class, meth := binary.BigEndian.Uint16(payload[0:]), binary.BigEndian.Uint16(payload[2:])
		switch {
		case class == 10 && meth == 11: // start-ok -> tune (channel-max 0, frame-max 128 KiB, heartbeat 0)
			_ = writeFrame(c, 1, 0, method(10, 30, 0, 0, 0, 2, 0, 0, 0, 0))
		case class == 10 && meth == 40: // connection.open -> open-ok
			_ = writeFrame(c, 1, 0, method(10, 41, 0))
		case class == 10 && meth == 50: // connection.close -> close-ok
			_ = writeFrame(c, 1, 0, method(10, 51))
			return
		case class == 10 && meth == 51:
			return
		case class == 20 && meth == 10: // channel.open -> open-ok
			_ = writeFrame(c, 1, ch, method(20, 11, 0, 0, 0, 0))
		case class == 20 && meth == 40: // channel.close -> close-ok
			_ = writeFrame(c, 1, ch, method(20, 41))
		case class == 40 && meth == 10: // exchange.declare -> declare-ok
			_ = writeFrame(c, 1, ch, method(40, 11))
		case class == 85 && meth == 10: // confirm.select -> select-ok
			_ = writeFrame(c, 1, ch, method(85, 11))
		}
	}
}
