// Package keys serves a committed pool of private keys and issues certificate
// chains (and PGP certificates) for them with the Go standard library /
// ProtonMail go-crypto; none of relic's own code is used here.
package keys

import (
	"bytes"
	"crypto"
	"crypto/ecdsa"
	"crypto/rand"
	"crypto/rsa"
	"crypto/sha1"
	"crypto/sha256"
	"crypto/x509"
	"crypto/x509/pkix"
	"embed"
	"encoding/hex"
	"encoding/pem"
	"fmt"
	"math/big"
	"net"
	"sort"
	"strings"
	"sync"
	"sync/atomic"
	"time"

	"github.com/ProtonMail/go-crypto/openpgp"
	"github.com/ProtonMail/go-crypto/openpgp/packet"
)

//go:embed pool/*.pem
var pool embed.FS

var (
	once   sync.Once
	loaded map[string]crypto.Signer
	pems   map[string][]byte
)

func load() {
	once.Do(func() {
		loaded = map[string]crypto.Signer{}
		pems = map[string][]byte{}
		ents, err := pool.ReadDir("pool")
		if err != nil {
			panic(err)
		}
		for _, e := range ents {
			blob, _ := pool.ReadFile("pool/" + e.Name())
			b, _ := pem.Decode(blob)
			k, err := x509.ParsePKCS8PrivateKey(b.Bytes)
			if err != nil {
				panic(err)
			}
			name := strings.TrimSuffix(e.Name(), ".pem")
			loaded[name] = k.(crypto.Signer)
			pems[name] = blob
		}
	})
}

// Key returns a pool key: rsa2048a/b/c, rsa3072, p256a/b, p384a/b, p521a/b.
func Key(name string) crypto.Signer {
	load()
	k, ok := loaded[name]
	if !ok {
		panic("no such pool key " + name)
	}
	return k
}

// KeyPEM returns the PKCS#8 PEM of a pool key.
func KeyPEM(name string) []byte {
	load()
	return pems[name]
}

func Names() []string {
	load()
	var out []string
	for n := range loaded {
		out = append(out, n)
	}
	sort.Strings(out)
	return out
}

// Kind returns "rsa" or "ecdsa".
func Kind(name string) string {
	if strings.HasPrefix(name, "rsa") {
		return "rsa"
	}
	return "ecdsa"
}

// TraditionalPEM renders the key as "RSA PRIVATE KEY" / "EC PRIVATE KEY".
func TraditionalPEM(name string) []byte {
	switch k := Key(name).(type) {
	case *rsa.PrivateKey:
		return pem.EncodeToMemory(&pem.Block{Type: "RSA PRIVATE KEY", Bytes: x509.MarshalPKCS1PrivateKey(k)})
	case *ecdsa.PrivateKey:
		der, _ := x509.MarshalECPrivateKey(k)
		return pem.EncodeToMemory(&pem.Block{Type: "EC PRIVATE KEY", Bytes: der})
	}
	panic("unknown key type")
}

var serial int64 = 1000

type CA struct {
	Cert *x509.Certificate
	Key  crypto.Signer
}

var Epoch = time.Date(2020, 1, 1, 0, 0, 0, 0, time.UTC)
var Far = time.Date(2045, 1, 1, 0, 0, 0, 0, time.UTC)

func skid(pub crypto.PublicKey) []byte {
	der, _ := x509.MarshalPKIXPublicKey(pub)
	h := sha1.Sum(der)
	return h[:]
}

// NewCA creates a CA certificate for key, self-signed when parent is nil.
func NewCA(cn string, key crypto.Signer, parent *CA, notBefore, notAfter time.Time) *CA {
	tmpl := &x509.Certificate{
		SerialNumber:          big.NewInt(atomic.AddInt64(&serial, 1)),
		Subject:               pkix.Name{CommonName: cn, Organization: []string{"verif"}},
		NotBefore:             notBefore,
		NotAfter:              notAfter,
		IsCA:                  true,
		BasicConstraintsValid: true,
		KeyUsage:              x509.KeyUsageCertSign | x509.KeyUsageCRLSign | x509.KeyUsageDigitalSignature,
		SubjectKeyId:          skid(key.Public()),
	}
	signer, pcert := key, tmpl
	if parent != nil {
		signer, pcert = parent.Key, parent.Cert
	}
	der, err := x509.CreateCertificate(rand.Reader, tmpl, pcert, key.Public(), signer)
	if err != nil {
		panic(err)
	}
	cert, err := x509.ParseCertificate(der)
	if err != nil {
		panic(err)
	}
	return &CA{Cert: cert, Key: key}
}

type LeafOpts struct {
	CN        string
	NotBefore time.Time
	NotAfter  time.Time
	EKU       []x509.ExtKeyUsage
	Org       string
}

// Issue creates a leaf certificate for pub.
func (ca *CA) Issue(pub crypto.PublicKey, o LeafOpts) *x509.Certificate {
	if o.NotBefore.IsZero() {
		o.NotBefore = Epoch
	}
	if o.NotAfter.IsZero() {
		o.NotAfter = Far
	}
	if o.EKU == nil {
		o.EKU = []x509.ExtKeyUsage{x509.ExtKeyUsageCodeSigning}
	}
	if o.Org == "" {
		o.Org = "verif"
	}
	tmpl := &x509.Certificate{
		SerialNumber: big.NewInt(atomic.AddInt64(&serial, 1)),
		Subject:      pkix.Name{CommonName: o.CN, Organization: []string{o.Org}, Country: []string{"US"}},
		NotBefore:    o.NotBefore,
		NotAfter:     o.NotAfter,
		KeyUsage:     x509.KeyUsageDigitalSignature,
		ExtKeyUsage:  o.EKU,
		SubjectKeyId: skid(pub),
	}
	der, err := x509.CreateCertificate(rand.Reader, tmpl, ca.Cert, pub, ca.Key)
	if err != nil {
		panic(err)
	}
	cert, err := x509.ParseCertificate(der)
	if err != nil {
		panic(err)
	}
	return cert
}

// SelfSigned creates a self-signed leaf (not a CA).
func SelfSigned(cn string, key crypto.Signer, eku []x509.ExtKeyUsage) *x509.Certificate {
	tmpl := &x509.Certificate{
		SerialNumber: big.NewInt(atomic.AddInt64(&serial, 1)),
		Subject:      pkix.Name{CommonName: cn},
		NotBefore:    Epoch,
		NotAfter:     Far,
		KeyUsage:     x509.KeyUsageDigitalSignature,
		ExtKeyUsage:  eku,
	}
	der, err := x509.CreateCertificate(rand.Reader, tmpl, tmpl, key.Public(), key)
	if err != nil {
		panic(err)
	}
	cert, _ := x509.ParseCertificate(der)
	return cert
}

func CertPEM(certs ...*x509.Certificate) []byte {
	var buf bytes.Buffer
	for _, c := range certs {
		pem.Encode(&buf, &pem.Block{Type: "CERTIFICATE", Bytes: c.Raw})
	}
	return buf.Bytes()
}

// PGPEntity builds an OpenPGP certificate (public key + user id + self
// signature) around an RSA pool key.
func PGPEntity(name, uidName, email string) *openpgp.Entity {
	k, ok := Key(name).(*rsa.PrivateKey)
	if !ok {
		panic("PGP entities are RSA only")
	}
	created := Epoch
	priv := packet.NewRSAPrivateKey(created, k)
	cfg := &packet.Config{DefaultHash: crypto.SHA256, Time: func() time.Time { return created.Add(time.Hour) }}
	e := &openpgp.Entity{
		PrimaryKey: &priv.PublicKey,
		PrivateKey: priv,
		Identities: map[string]*openpgp.Identity{},
	}
	u := packet.NewUserId(uidName, "", email)
	if u == nil {
		panic("bad uid")
	}
	isPrimary := true
	sig := &packet.Signature{
		Version:      4,
		SigType:      packet.SigTypePositiveCert,
		PubKeyAlgo:   packet.PubKeyAlgoRSA,
		Hash:         crypto.SHA256,
		CreationTime: created.Add(time.Hour),
		IssuerKeyId:  &priv.KeyId,
		IsPrimaryId:  &isPrimary,
		FlagsValid:   true,
		FlagSign:     true,
		FlagCertify:  true,
	}
	if err := sig.SignUserId(u.Id, &priv.PublicKey, priv, cfg); err != nil {
		panic(err)
	}
	e.Identities[u.Id] = &openpgp.Identity{Name: u.Id, UserId: u, SelfSignature: sig, Signatures: []*packet.Signature{sig}}
	return e
}

// PGPPublic serialises the public certificate (binary).
func PGPPublic(e *openpgp.Entity) []byte {
	var buf bytes.Buffer
	if err := e.Serialize(&buf); err != nil {
		panic(fmt.Sprint("serialising pgp entity: ", err))
	}
	return buf.Bytes()
}

// SelfSignedServer creates a TLS server certificate for localhost / 127.0.0.1.
func SelfSignedServer(cn string, key crypto.Signer) *x509.Certificate {
	tmpl := &x509.Certificate{
		SerialNumber:          big.NewInt(atomic.AddInt64(&serial, 1)),
		Subject:               pkix.Name{CommonName: cn},
		NotBefore:             Epoch,
		NotAfter:              Far,
		KeyUsage:              x509.KeyUsageDigitalSignature | x509.KeyUsageCertSign,
		ExtKeyUsage:           []x509.ExtKeyUsage{x509.ExtKeyUsageServerAuth},
		DNSNames:              []string{"localhost"},
		IPAddresses:           []net.IP{net.ParseIP("127.0.0.1")},
		IsCA:                  true,
		BasicConstraintsValid: true,
	}
	der, err := x509.CreateCertificate(rand.Reader, tmpl, tmpl, key.Public(), key)
	if err != nil {
		panic(err)
	}
	cert, _ := x509.ParseCertificate(der)
	return cert
}

// SPKIFingerprint is the hex SHA-256 of the certificate's SubjectPublicKeyInfo.
func SPKIFingerprint(c *x509.Certificate) string {
	d := sha256.Sum256(c.RawSubjectPublicKeyInfo)
	return hex.EncodeToString(d[:])
}
