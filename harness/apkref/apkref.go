// Package apkref is a reference implementation of the APK Signature Scheme v2
// integrity computation, written from the published scheme description
// (source.android.com/docs/security/features/apksigning/v2); it shares no code with relic.
package apkref

import (
	"bytes"
	"crypto"
	"encoding/binary"
	"errors"
	"fmt"
)

const (
	magic       = "APK Sig Block 42"
	v2BlockID   = 0x7109871a
	chunkSize   = 1 << 20
	eocdSig     = 0x06054b50
	eocdMinSize = 22
)

type Digest struct {
	AlgID uint32
	Value []byte
}

type Info struct {
	SigningBlockOffset int64
	CDOffset           int64
	EOCDOffset         int64
	Digests            []Digest // from the first signer's signed data
	Certificates       [][]byte // DER, first signer
}

func findEOCD(data []byte) (int, error) {
	for i := len(data) - eocdMinSize; i >= 0 && i >= len(data)-eocdMinSize-65535; i-- {
		if binary.LittleEndian.Uint32(data[i:]) == eocdSig && int(binary.LittleEndian.Uint16(data[i+20:])) == len(data)-i-eocdMinSize {
			return i, nil
		}
	}
	return 0, errors.New("apkref: end of central directory not found")
}

func lenPrefixed(b []byte) (item, rest []byte, err error) {
	if len(b) < 4 {
		return nil, nil, errors.New("apkref: truncated length prefix")
	}
	n := int(binary.LittleEndian.Uint32(b))
	if n > len(b)-4 {
		return nil, nil, errors.New("apkref: length prefix exceeds data")
	}
	return b[4 : 4+n], b[4+n:], nil
}

// Parse locates the signing block and extracts the first signer's digests.
func Parse(data []byte) (*Info, error) {
	eocd, err := findEOCD(data)
	if err != nil {
		return nil, err
	}
	cdOff := int64(binary.LittleEndian.Uint32(data[eocd+16:]))
	if cdOff < 32 || cdOff > int64(eocd) {
		return nil, errors.New("apkref: bad central directory offset")
	}
	if string(data[cdOff-16:cdOff]) != magic {
		return nil, errors.New("apkref: no APK Signing Block before the central directory")
	}
	size := int64(binary.LittleEndian.Uint64(data[cdOff-24:]))
	blockStart := cdOff - size - 8
	if blockStart < 0 || int64(binary.LittleEndian.Uint64(data[blockStart:])) != size {
		return nil, errors.New("apkref: signing block size fields disagree")
	}
	info := &Info{SigningBlockOffset: blockStart, CDOffset: cdOff, EOCDOffset: int64(eocd)}
	pairs := data[blockStart+8 : cdOff-24]
	for len(pairs) >= 12 {
		n := int64(binary.LittleEndian.Uint64(pairs))
		if n < 4 || n > int64(len(pairs)-8) {
			return nil, errors.New("apkref: bad pair length")
		}
		id := binary.LittleEndian.Uint32(pairs[8:])
		value := pairs[12 : 8+n]
		pairs = pairs[8+n:]
		if id != v2BlockID {
			continue
		}
		signers, _, err := lenPrefixed(value)
		if err != nil {
			return nil, err
		}
		signer, _, err := lenPrefixed(signers)
		if err != nil {
			return nil, err
		}
		signedData, _, err := lenPrefixed(signer)
		if err != nil {
			return nil, err
		}
		digests, rest, err := lenPrefixed(signedData)
		if err != nil {
			return nil, err
		}
		for len(digests) > 0 {
			var d []byte
			d, digests, err = lenPrefixed(digests)
			if err != nil {
				return nil, err
			}
			if len(d) < 8 {
				return nil, errors.New("apkref: short digest record")
			}
			v, _, err := lenPrefixed(d[4:])
			if err != nil {
				return nil, err
			}
			info.Digests = append(info.Digests, Digest{binary.LittleEndian.Uint32(d), v})
		}
		certs, _, err := lenPrefixed(rest)
		if err != nil {
			return nil, err
		}
		for len(certs) > 0 {
			var c []byte
			c, certs, err = lenPrefixed(certs)
			if err != nil {
				return nil, err
			}
			info.Certificates = append(info.Certificates, c)
		}
		return info, nil
	}
	return nil, errors.New("apkref: no v2 block")
}

// HashFor maps a signature algorithm id to its content digest algorithm.
func HashFor(algID uint32) (crypto.Hash, error) {
	switch algID {
	case 0x0101, 0x0103, 0x0201, 0x0301:
		return crypto.SHA256, nil
	case 0x0102, 0x0104, 0x0202:
		return crypto.SHA512, nil
	}
	return 0, fmt.Errorf("apkref: unknown algorithm id %#x", algID)
}

// ContentDigest computes the v2 integrity digest of the file with the given hash.
func ContentDigest(data []byte, info *Info, h crypto.Hash) []byte {
	eocd := append([]byte{}, data[info.EOCDOffset:]...)
	// the central directory offset is taken to be the signing block's offset
	binary.LittleEndian.PutUint32(eocd[16:], uint32(info.SigningBlockOffset))
	sections := [][]byte{data[:info.SigningBlockOffset], data[info.CDOffset:info.EOCDOffset], eocd}
	var chunkDigests bytes.Buffer
	count := uint32(0)
	for _, s := range sections {
		for off := 0; off < len(s); off += chunkSize {
			end := off + chunkSize
			if end > len(s) {
				end = len(s)
			}
			d := h.New()
			var pre [5]byte
			pre[0] = 0xa5
			binary.LittleEndian.PutUint32(pre[1:], uint32(end-off))
			d.Write(pre[:])
			d.Write(s[off:end])
			chunkDigests.Write(d.Sum(nil))
			count++
		}
	}
	top := h.New()
	var pre [5]byte
	pre[0] = 0x5a
	binary.LittleEndian.PutUint32(pre[1:], count)
	top.Write(pre[:])
	top.Write(chunkDigests.Bytes())
	return top.Sum(nil)
}

func lp(b []byte) []byte {
	out := make([]byte, 4, 4+len(b))
	binary.LittleEndian.PutUint32(out, uint32(len(b)))
	return append(out, b...)
}

func u32(v uint32) []byte {
	var b [4]byte
	binary.LittleEndian.PutUint32(b[:], v)
	return b[:]
}

// Rebuild replaces the APK Signing Block of a v2-signed APK by a new one that lists the
// given certificates, is signed through the sign callback (RSA PKCS#1 v1.5 id 0x0103 or ECDSA id 0x0201, SHA-256) and names
// spki as the signer's public key. With the certificate's own key and SubjectPublicKeyInfo
// this is an ordinary re-signing; with another key it is a forgery that keeps the
// original certificate list.
func Rebuild(data []byte, certs [][]byte, spki []byte, sign func(digest []byte) ([]byte, uint32, error)) ([]byte, error) {
	return RebuildWithDigestCopies(data, certs, spki, sign, 1)
}

// RebuildWithDigestCopies is Rebuild with the (one) digest record repeated: a signer may
// list as many digest records as it likes, and a verifier's work must not multiply with them.
func RebuildWithDigestCopies(data []byte, certs [][]byte, spki []byte, sign func(digest []byte) ([]byte, uint32, error), copies int) ([]byte, error) {
	info, err := Parse(data)
	if err != nil {
		return nil, err
	}
	digest := ContentDigest(data, info, crypto.SHA256)
	h := crypto.SHA256.New()
	var certSeq []byte
	for _, c := range certs {
		certSeq = append(certSeq, lp(c)...)
	}
	// the digest record names the signature algorithm it belongs to
	mkSigned := func(alg uint32) []byte {
		dig := bytes.Repeat(lp(append(u32(alg), lp(digest)...)), copies)
		return append(append(lp(dig), lp(certSeq)...), lp(nil)...)
	}
	// the algorithm id depends on the key type, which sign reports; compute twice if needed
	signed := mkSigned(0x0103)
	h.Write(signed)
	sig, alg, err := sign(h.Sum(nil))
	if err != nil {
		return nil, err
	}
	if alg != 0x0103 {
		signed = mkSigned(alg)
		h.Reset()
		h.Write(signed)
		if sig, alg, err = sign(h.Sum(nil)); err != nil {
			return nil, err
		}
	}
	sigs := lp(append(u32(alg), lp(sig)...))
	signer := append(append(lp(signed), lp(sigs)...), lp(spki)...)
	value := lp(lp(signer))
	pair := make([]byte, 8, 12+len(value))
	binary.LittleEndian.PutUint64(pair, uint64(4+len(value)))
	pair = append(append(pair, u32(v2BlockID)...), value...)
	size := uint64(len(pair) + 8 + 16)
	var block []byte
	var sz [8]byte
	binary.LittleEndian.PutUint64(sz[:], size)
	block = append(block, sz[:]...)
	block = append(block, pair...)
	block = append(block, sz[:]...)
	block = append(block, magic...)
	out := append([]byte{}, data[:info.SigningBlockOffset]...)
	out = append(out, block...)
	cdStart := len(out)
	out = append(out, data[info.CDOffset:info.EOCDOffset]...)
	eocd := append([]byte{}, data[info.EOCDOffset:]...)
	binary.LittleEndian.PutUint32(eocd[16:], uint32(cdStart))
	out = append(out, eocd...)
	return out, nil
}
