package rectoken

import "crypto/rand"

var randReader = rand.Reader
