// Package rectoken is a scripted, call-recording token registered through relic's
// exported token.Openers map (type "verif-rec"). Keys are backed by the harness key
// pool: the key label in the relic configuration names the pool key.
package rectoken

import (
	"context"
	"crypto"
	"crypto/x509"
	"errors"
	"io"
	"sync"

	"github.com/sassoftware/relic/v8/config"
	"github.com/sassoftware/relic/v8/lib/passprompt"
	"github.com/sassoftware/relic/v8/token"
	"github.com/sassoftware/relic/v8/xverif/keys"
)

const Type = "verif-rec"

type Call struct {
	Op    string // "GetKey", "Sign", "Ping"
	Token string
	Key   string
}

var (
	mu    sync.Mutex
	calls []Call
	// Hook, if set, runs at the start of every GetKey/Sign (e.g. to add latency or faults).
	Hook func(c Call) error
	// CertFor, if set, returns the DER chain a key reports as token-stored certificate.
	CertFor func(keyName string) []byte
)

func init() { token.Openers[Type] = open }

func Reset() {
	mu.Lock()
	calls = nil
	mu.Unlock()
}

func Calls() []Call {
	mu.Lock()
	defer mu.Unlock()
	return append([]Call(nil), calls...)
}

func record(c Call) error {
	mu.Lock()
	calls = append(calls, c)
	h := Hook
	mu.Unlock()
	if h != nil {
		return h(c)
	}
	return nil
}

type tok struct {
	cfg  *config.Config
	conf *config.TokenConfig
	name string
}

func open(cfg *config.Config, tokenName string, _ passprompt.PasswordGetter) (token.Token, error) {
	tc, err := cfg.GetToken(tokenName)
	if err != nil {
		return nil, err
	}
	return &tok{cfg: cfg, conf: tc, name: tokenName}, nil
}

func (t *tok) Ping(context.Context) error {
	return record(Call{Op: "Ping", Token: t.name})
}
func (t *tok) Close() error                { return nil }
func (t *tok) Config() *config.TokenConfig { return t.conf }
func (t *tok) GetKey(ctx context.Context, keyName string) (token.Key, error) {
	if err := record(Call{Op: "GetKey", Token: t.name, Key: keyName}); err != nil {
		return nil, err
	}
	kc, err := t.cfg.GetKey(keyName)
	if err != nil {
		return nil, err
	}
	if kc.Label == "" {
		return nil, errors.New("rectoken: key has no label")
	}
	return &key{t: t, conf: kc, name: keyName, signer: keys.Key(kc.Label)}, nil
}
func (t *tok) Import(string, crypto.PrivateKey) (token.Key, error) {
	return nil, token.NotImplementedError{Op: "import", Type: Type}
}
func (t *tok) ImportCertificate(*x509.Certificate, string) error {
	return token.NotImplementedError{Op: "import-certificate", Type: Type}
}
func (t *tok) Generate(string, token.KeyType, uint) (token.Key, error) {
	return nil, token.NotImplementedError{Op: "generate", Type: Type}
}
func (t *tok) ListKeys(token.ListOptions) error {
	return token.NotImplementedError{Op: "list-keys", Type: Type}
}

type key struct {
	t      *tok
	conf   *config.KeyConfig
	name   string
	signer crypto.Signer
}

func (k *key) Public() crypto.PublicKey { return k.signer.Public() }
func (k *key) Sign(r io.Reader, digest []byte, opts crypto.SignerOpts) ([]byte, error) {
	return k.SignContext(context.Background(), digest, opts)
}
func (k *key) SignContext(ctx context.Context, digest []byte, opts crypto.SignerOpts) ([]byte, error) {
	if err := record(Call{Op: "Sign", Token: k.t.name, Key: k.name}); err != nil {
		return nil, err
	}
	return k.signer.Sign(randReader, digest, opts)
}
func (k *key) Config() *config.KeyConfig { return k.conf }
func (k *key) Certificate() []byte {
	if CertFor != nil {
		return CertFor(k.name)
	}
	return nil
}
func (k *key) GetID() []byte                             { return []byte(k.conf.Label) }
func (k *key) ImportCertificate(*x509.Certificate) error { return nil }
