package der

import (
	"bytes"
	"crypto"
	"crypto/ecdsa"
	"crypto/elliptic"
	"crypto/rand"
	"crypto/sha256"
	"crypto/x509"
	"crypto/x509/pkix"
	"errors"
	"math/big"
	"os"
	"os/exec"
	"path/filepath"
	"strings"
	"testing"
	"time"
)

func TestParseForms(t *testing.T) {
	// short form
	v, rest, err := Parse([]byte{0x04, 0x02, 0xaa, 0xbb, 0xff})
	if err != nil || len(rest) != 1 || v.Tag != TagOctetString || v.Constructed || !bytes.Equal(v.Content, []byte{0xaa, 0xbb}) {
		t.Fatalf("short form: %+v %v %v", v, rest, err)
	}
	// long form, minimal
	body := bytes.Repeat([]byte{7}, 200)
	enc := EncOctets(body)
	if !bytes.Equal(enc[:3], []byte{0x04, 0x81, 200}) {
		t.Fatalf("EncOctets header %x", enc[:3])
	}
	v, _, err = Parse(enc)
	if err != nil || v.NonMinimalLength || len(v.Header) != 3 || !bytes.Equal(v.Content, body) {
		t.Fatalf("long form: %v %+v", err, v.Header)
	}
	// long form, non-minimal
	v, _, err = Parse([]byte{0x04, 0x81, 0x01, 0x55})
	if err != nil || !v.NonMinimalLength {
		t.Fatalf("non-minimal not flagged: %v %+v", err, v)
	}
	v, _, err = Parse([]byte{0x04, 0x82, 0x00, 0x81, 0x55})
	if err == nil {
		t.Fatalf("expected truncation error")
	}
	v, _, err = Parse(append([]byte{0x04, 0x82, 0x00, 0x81}, make([]byte, 0x81)...))
	if err != nil || !v.NonMinimalLength {
		t.Fatalf("leading zero not flagged: %v", err)
	}
	// indefinite, nested, with offsets
	in := []byte{0x30, 0x80, 0x24, 0x80, 0x04, 0x01, 'a', 0x04, 0x02, 'b', 'c', 0x00, 0x00, 0x02, 0x01, 0x05, 0x00, 0x00, 0xee}
	v, rest, err = Parse(in)
	if err != nil || !v.Indefinite || len(rest) != 1 || len(v.Raw) != len(in)-1 {
		t.Fatalf("indefinite: %v %+v", err, v)
	}
	kids, err := v.Children()
	if err != nil || len(kids) != 2 {
		t.Fatalf("children: %v %d", err, len(kids))
	}
	if kids[0].Offset != 2 || kids[1].Offset != 13 || !kids[0].Indefinite {
		t.Fatalf("offsets %d %d", kids[0].Offset, kids[1].Offset)
	}
	os_, err := kids[0].OctetString()
	if err != nil || string(os_) != "abc" {
		t.Fatalf("constructed octet string: %q %v", os_, err)
	}
	segs, _ := kids[0].octetSegments(0)
	if len(segs) != 2 || segs[1].Offset != 7 || in[segs[1].Offset+len(segs[1].Header)] != 'b' {
		t.Fatalf("segment offsets wrong: %+v", segs)
	}
	if v.DeepDER() {
		t.Fatal("DeepDER true for BER")
	}
	// indefinite on primitive is illegal
	if _, _, err := Parse([]byte{0x04, 0x80, 0x00, 0x00}); err == nil {
		t.Fatal("indefinite primitive accepted")
	}
	// high tag number
	enc = EncTLV(ClassContext, true, 1000, []byte{0x05, 0x00})
	v, _, err = Parse(enc)
	if err != nil || v.Tag != 1000 || v.Class != ClassContext || !v.Constructed || v.NonMinimalTag {
		t.Fatalf("high tag: %v %+v", err, v)
	}
	// OID / INTEGER round trips
	for _, o := range []string{"1.2.840.113549.1.9.16.2.14", "2.5.29.14", "0.9.2342.19200300.100.1.25", "2.999.3", "1.3.6.1.4.1.311.2.1.4"} {
		tl, _, _ := Parse(EncOID(o))
		if got, err := tl.OID(); err != nil || got != o {
			t.Fatalf("OID %s -> %s %v", o, got, err)
		}
	}
	for _, n := range []int64{0, 1, 127, 128, 255, 256, -1, -128, -129, 65535, -32768, -32769, 1 << 40} {
		tl, _, _ := Parse(EncInt64(n))
		got, err := tl.Int()
		if err != nil || got.Int64() != n {
			t.Fatalf("INTEGER %d -> %v %v (%x)", n, got, err, tl.Raw)
		}
		want, _ := asn1MarshalInt(n)
		if !bytes.Equal(tl.Raw, want) {
			t.Fatalf("INTEGER %d enc %x want %x", n, tl.Raw, want)
		}
	}
	// times
	for s, want := range map[string]string{
		"20261003184100Z":     "2026-10-03T18:41:00Z",
		"20261003184100.25Z":  "2026-10-03T18:41:00.25Z",
		"20261003184100+0100": "2026-10-03T17:41:00Z",
	} {
		tl, _, _ := Parse(EncTLV(ClassUniversal, false, TagGeneralizedTime, []byte(s)))
		got, err := tl.Time()
		if err != nil || got.Format(time.RFC3339Nano) != want {
			t.Fatalf("time %s -> %v %v", s, got, err)
		}
	}
	tl, _, _ := Parse(EncUTCTime(time.Date(1999, 12, 31, 23, 59, 58, 0, time.UTC)))
	if got, err := tl.Time(); err != nil || got.Year() != 1999 || got.Second() != 58 {
		t.Fatalf("utctime: %v %v", got, err)
	}
}

func asn1MarshalInt(n int64) ([]byte, error) {
	// tiny reference using math/big two's complement rules, independent of EncInt
	v := big.NewInt(n)
	var c []byte
	if n >= 0 {
		c = v.Bytes()
		if len(c) == 0 || c[0]&0x80 != 0 {
			c = append([]byte{0}, c...)
		}
	} else {
		for l := 1; ; l++ {
			min := new(big.Int).Neg(new(big.Int).Lsh(big.NewInt(1), uint(8*l-1)))
			if v.Cmp(min) >= 0 {
				c = new(big.Int).Add(new(big.Int).Lsh(big.NewInt(1), uint(8*l)), v).Bytes()
				for len(c) < l {
					c = append([]byte{0}, c...)
				}
				break
			}
		}
	}
	return append([]byte{0x02, byte(len(c))}, c...), nil
}

// --- openssl driven tests -------------------------------------------------

func needOpenSSL(t *testing.T) {
	t.Helper()
	if _, err := exec.LookPath("openssl"); err != nil {
		t.Skip("openssl not on PATH")
	}
}

func run(t *testing.T, dir string, args ...string) {
	t.Helper()
	cmd := exec.Command("openssl", args...)
	cmd.Dir = dir
	if out, err := cmd.CombinedOutput(); err != nil {
		t.Fatalf("openssl %s: %v\n%s", strings.Join(args, " "), err, out)
	}
}

type osslKey struct{ key, cert string }

func genKeys(t *testing.T, dir string) map[string]osslKey {
	t.Helper()
	out := map[string]osslKey{}
	gen := func(name string, algArgs ...string) {
		k, c := name+".key", name+".crt"
		args := append([]string{"req", "-x509", "-nodes", "-subj", "/O=xverif/CN=" + name, "-days", "30",
			"-addext", "subjectKeyIdentifier=hash", "-keyout", k, "-out", c}, algArgs...)
		run(t, dir, args...)
		out[name] = osslKey{k, c}
	}
	gen("rsa", "-newkey", "rsa:2048")
	gen("ec", "-newkey", "ec", "-pkeyopt", "ec_paramgen_curve:P-256")
	gen("ec384", "-newkey", "ec", "-pkeyopt", "ec_paramgen_curve:secp384r1")
	gen("extra", "-newkey", "ec", "-pkeyopt", "ec_paramgen_curve:P-256")
	return out
}

func TestOpenSSLCMS(t *testing.T) {
	needOpenSSL(t)
	dir := t.TempDir()
	keys := genKeys(t, dir)
	text := []byte("line one\r\nline two\r\n") // invariant under S/MIME canonicalisation
	bin := append([]byte("bare\nnewlines\n\x00\x01\x02"), bytes.Repeat([]byte{0xfe}, 300)...)
	os.WriteFile(filepath.Join(dir, "text"), text, 0o644)
	os.WriteFile(filepath.Join(dir, "bin"), bin, 0o644)

	type tc struct {
		name     string
		signers  []string
		args     []string
		binary   bool
		detached bool
		noattr   bool
		wantSig  string // expected signature algorithm OID of signer 0 ("" = don't care)
		wantSKI  bool
		nCerts   int
		wantBER  bool
	}
	cases := []tc{
		{name: "rsa-detached", signers: []string{"rsa"}, detached: true, wantSig: OIDRSAEncryption, nCerts: 1},
		{name: "rsa-nodetach", signers: []string{"rsa"}, args: []string{"-nodetach"}, nCerts: 1},
		{name: "rsa-nodetach-binary", signers: []string{"rsa"}, args: []string{"-nodetach", "-binary"}, binary: true, nCerts: 1},
		{name: "rsa-detached-binary-sha512", signers: []string{"rsa"}, args: []string{"-binary", "-md", "sha512"}, binary: true, detached: true, nCerts: 1},
		{name: "rsa-sha1", signers: []string{"rsa"}, args: []string{"-nodetach", "-md", "sha1"}, nCerts: 1},
		{name: "rsa-noattr", signers: []string{"rsa"}, args: []string{"-nodetach", "-noattr", "-binary"}, binary: true, noattr: true, nCerts: 1},
		{name: "rsa-noattr-detached", signers: []string{"rsa"}, args: []string{"-noattr", "-binary"}, binary: true, detached: true, noattr: true, nCerts: 1},
		{name: "rsa-pss", signers: []string{"rsa"}, args: []string{"-nodetach", "-keyopt", "rsa_padding_mode:pss"}, wantSig: OIDRSAPSS, nCerts: 1},
		{name: "rsa-pss-sha384-salt", signers: []string{"rsa"}, args: []string{"-binary", "-md", "sha384", "-keyopt", "rsa_padding_mode:pss", "-keyopt", "rsa_pss_saltlen:17"}, binary: true, detached: true, wantSig: OIDRSAPSS, nCerts: 1},
		{name: "rsa-pss-noattr", signers: []string{"rsa"}, args: []string{"-nodetach", "-noattr", "-keyopt", "rsa_padding_mode:pss"}, noattr: true, wantSig: OIDRSAPSS, nCerts: 1},
		{name: "ec-detached", signers: []string{"ec"}, detached: true, wantSig: OIDECDSAWithSHA256, nCerts: 1},
		{name: "ec-nodetach-sha384", signers: []string{"ec384"}, args: []string{"-nodetach", "-md", "sha384"}, wantSig: OIDECDSAWithSHA384, nCerts: 1},
		{name: "ec-noattr", signers: []string{"ec"}, args: []string{"-nodetach", "-noattr"}, noattr: true, nCerts: 1},
		{name: "ec-keyid", signers: []string{"ec"}, args: []string{"-nodetach", "-keyid"}, wantSKI: true, nCerts: 1},
		{name: "rsa-keyid-certfile", signers: []string{"rsa"}, args: []string{"-keyid", "-certfile", "extra.crt"}, detached: true, wantSKI: true, nCerts: 2},
		{name: "multi", signers: []string{"rsa", "ec", "ec384"}, args: []string{"-nodetach", "-certfile", "extra.crt"}, nCerts: 4},
		{name: "multi-detached-binary", signers: []string{"ec", "rsa"}, args: []string{"-binary"}, binary: true, detached: true, nCerts: 2},
		{name: "nocerts", signers: []string{"rsa"}, args: []string{"-nodetach", "-nocerts"}, nCerts: 0},
		{name: "stream-indef", signers: []string{"rsa"}, args: []string{"-nodetach", "-binary", "-stream"}, binary: true, nCerts: 1, wantBER: true},
	}
	for _, c := range cases {
		c := c
		t.Run(c.name, func(t *testing.T) {
			in, content := "text", text
			if c.binary {
				in, content = "bin", bin
			}
			out := c.name + ".der"
			args := []string{"cms", "-sign", "-in", in, "-outform", "DER", "-out", out}
			for _, s := range c.signers {
				args = append(args, "-signer", keys[s].cert, "-inkey", keys[s].key)
			}
			args = append(args, c.args...)
			run(t, dir, args...)
			raw, err := os.ReadFile(filepath.Join(dir, out))
			if err != nil {
				t.Fatal(err)
			}
			sd, err := ParseSignedData(raw)
			if err != nil {
				t.Fatalf("parse: %v", err)
			}
			if sd.ContentInfoOID != OIDSignedData || sd.EContentType != OIDData {
				t.Fatalf("oids %q %q", sd.ContentInfoOID, sd.EContentType)
			}
			if sd.Detached != c.detached {
				t.Fatalf("Detached=%v want %v", sd.Detached, c.detached)
			}
			if sd.BER != c.wantBER {
				t.Fatalf("BER=%v want %v", sd.BER, c.wantBER)
			}
			if !c.detached && !bytes.Equal(sd.EContentValueBytes, content) {
				t.Fatalf("EContentValueBytes %q", sd.EContentValueBytes)
			}
			if len(sd.SignerInfos) != len(c.signers) || len(sd.Certificates) != c.nCerts {
				t.Fatalf("%d signers %d certs", len(sd.SignerInfos), len(sd.Certificates))
			}
			if len(sd.DigestAlgorithms) == 0 {
				t.Fatal("no digest algorithms")
			}
			if c.name == "nocerts" {
				err := sd.VerifySigner(&sd.SignerInfos[0], nil)
				if !errors.Is(err, ErrNoCert) {
					t.Fatalf("want ErrNoCert, got %v", err)
				}
				return
			}
			var detached []byte
			if c.detached {
				detached = content
				if err := sd.VerifySigner(&sd.SignerInfos[0], nil); !errors.Is(err, ErrNoContent) {
					t.Fatalf("want ErrNoContent, got %v", err)
				}
			}
			for i := range sd.SignerInfos {
				si := &sd.SignerInfos[i]
				if (si.SignedAttrsRaw == nil) != c.noattr {
					t.Fatalf("signer %d: noattr mismatch", i)
				}
				if c.wantSKI != (si.SKI != nil) || c.wantSKI != (si.Version == 3) || c.wantSKI == (si.Serial != nil) {
					t.Fatalf("signer %d: sid kind: version %d ski %x serial %v", i, si.Version, si.SKI, si.Serial)
				}
				if err := sd.VerifySigner(si, detached); err != nil {
					t.Fatalf("signer %d (%s): %v", i, si.SigAlgOID, err)
				}
				cert, err := sd.FindCert(si)
				if err != nil || !strings.HasPrefix(cert.Subject.CommonName, strings.TrimRight(c.signers[0][:2], "0123456789")) && len(c.signers) == 1 {
					t.Fatalf("FindCert: %v %v", cert.Subject, err)
				}
				// wrong content must yield a digest mismatch (attrs) or bad signature (noattr)
				wrong := append([]byte("x"), content...)
				if c.detached {
					err = sd.VerifySigner(si, wrong)
					want := ErrDigestMismatch
					if c.noattr {
						want = ErrSignature
					}
					if !errors.Is(err, want) {
						t.Fatalf("signer %d wrong content: got %v want %v", i, err, want)
					}
				}
			}
			if c.wantSig != "" && sd.SignerInfos[0].SigAlgOID != c.wantSig {
				t.Fatalf("sig alg %s want %s", sd.SignerInfos[0].SigAlgOID, c.wantSig)
			}
			if err := sd.VerifyAll(detached); err != nil {
				t.Fatalf("VerifyAll: %v", err)
			}

			// Every signed region is really covered: flipping one bit in an
			// eContent / signedAttrs region must break verification, and the
			// regions must lie inside Raw and not overlap.
			regs := sd.SignedRegions()
			end := 0
			nAttrs, nContent := 0, 0
			for _, r := range regs {
				if r.Offset < end || r.Offset+r.Len > len(raw) {
					t.Fatalf("region %+v overlaps/out of range (prev end %d)", r, end)
				}
				end = r.Offset + r.Len
				switch {
				case strings.HasSuffix(r.Label, "signedAttrs"):
					nAttrs++
					if raw[r.Offset] != 0xA0 {
						t.Fatalf("signedAttrs region starts with %#x", raw[r.Offset])
					}
				case strings.HasPrefix(r.Label, "eContent"):
					nContent++
				case strings.HasPrefix(r.Label, "certificates["):
					if _, err := x509.ParseCertificate(r.Bytes(raw)); err != nil {
						t.Fatalf("certificate region does not parse: %v", err)
					}
					continue
				default:
					continue
				}
				if r.Len == 0 {
					continue
				}
				for _, pos := range []int{r.Offset + 1, r.Offset + r.Len/2, r.Offset + r.Len - 1} {
					mut := append([]byte(nil), raw...)
					mut[pos] ^= 0x01
					msd, err := ParseSignedData(mut)
					if err != nil {
						continue // structure destroyed, also a detection
					}
					if err := msd.VerifyAll(detached); err == nil {
						t.Fatalf("bit flip at %d inside region %q went unnoticed", pos, r.Label)
					}
				}
			}
			if wantAttrs := len(c.signers); c.noattr && nAttrs != 0 || !c.noattr && nAttrs != wantAttrs {
				t.Fatalf("%d signedAttrs regions", nAttrs)
			}
			if c.detached && nContent != 0 || !c.detached && nContent == 0 {
				t.Fatalf("%d eContent regions", nContent)
			}
			if c.wantBER && nContent < 1 {
				t.Fatalf("stream: no content segments")
			}
			// concatenated eContent regions == digested bytes
			if !c.detached {
				var cat []byte
				for _, r := range regs {
					if strings.HasPrefix(r.Label, "eContent") {
						cat = append(cat, r.Bytes(raw)...)
					}
				}
				if !bytes.Equal(cat, sd.EContentValueBytes) {
					t.Fatal("eContent regions do not add up to EContentValueBytes")
				}
			}
		})
	}
}

func TestHyperVCat(t *testing.T) {
	raw, err := os.ReadFile("/repo/functest/packages/hyperv.cat")
	if err != nil {
		t.Skip(err)
	}
	sd, err := ParseSignedData(raw)
	if err != nil {
		t.Fatal(err)
	}
	if sd.EContentType != OIDMSCTL || sd.Detached || sd.Version != 1 || sd.BER {
		t.Fatalf("unexpected shape: type %s detached %v version %d BER %v", sd.EContentType, sd.Detached, sd.Version, sd.BER)
	}
	if !sd.EContentInner.IsUniversal(TagSequence) {
		t.Fatalf("CTL content is %s", sd.EContentInner.Describe())
	}
	if len(sd.EContentValueBytes) != len(sd.EContentInner.Raw)-len(sd.EContentInner.Header) {
		t.Fatal("EContentValueBytes must exclude the SEQUENCE header")
	}
	if len(sd.SignerInfos) != 1 {
		t.Fatalf("%d signers", len(sd.SignerInfos))
	}
	si := &sd.SignerInfos[0]
	if err := sd.VerifySigner(si, nil); err != nil {
		t.Fatalf("VerifySigner: %v", err)
	}
	cert, err := sd.FindCert(si)
	if err != nil {
		t.Fatal(err)
	}
	t.Logf("signer: %s; sigalg %s digest %s; %d certs; %d signed attrs; unsigned: %d",
		cert.Subject.CommonName, si.SigAlgOID, si.DigestAlgOID, len(sd.Certificates), len(si.SignedAttrs), len(si.UnsignedAttrs))
	css := si.Countersignatures()
	if len(css) != 1 || len(si.TimestampTokens()) != 0 {
		t.Fatalf("%d countersignatures, %d tokens", len(css), len(si.TimestampTokens()))
	}
	if err := sd.VerifyCountersignature(si, &css[0]); err != nil {
		t.Fatalf("countersignature: %v", err)
	}
	if st, ok := css[0].SigningTime(); !ok {
		t.Fatal("countersignature lacks signing-time")
	} else if tm, err := st.Time(); err != nil || tm.Year() != 2010 {
		t.Fatalf("signing time %v %v", tm, err)
	}
	if err := sd.VerifyAll(nil); err != nil {
		t.Fatal(err)
	}
	// digest over the full SEQUENCE (header included) must NOT verify: this
	// pins the PKCS#7 "content octets only" rule.
	alt := *sd
	alt.EContentValueBytes = sd.EContentInner.Raw
	if err := alt.VerifySigner(si, nil); !errors.Is(err, ErrDigestMismatch) {
		t.Fatalf("digest incl. header: %v", err)
	}
	labels := map[string]bool{}
	for _, r := range sd.SignedRegions() {
		labels[r.Label] = true
	}
	for _, want := range []string{"eContent", "certificates[0]", "signerInfos[0].signedAttrs", "signerInfos[0].signature", "signerInfos[0].counterSignature[0].signedAttrs"} {
		if !labels[want] {
			t.Fatalf("region %q missing; have %v", want, labels)
		}
	}
	// mutate countersigned signature → countersignature must fail
	for _, r := range sd.SignedRegions() {
		if r.Label != "signerInfos[0].counterSignature[0].signedAttrs" {
			continue
		}
		mut := append([]byte(nil), raw...)
		mut[r.Offset+r.Len-1] ^= 1
		msd, err := ParseSignedData(mut)
		if err != nil {
			t.Fatal(err)
		}
		if err := msd.VerifySigner(&msd.SignerInfos[0], nil); err != nil {
			t.Fatalf("primary signature should be unaffected: %v", err)
		}
		if err := msd.VerifyAll(nil); err == nil {
			t.Fatal("countersignature mutation unnoticed")
		}
	}
}

// --- hand-built structures ------------------------------------------------

type miniSigner struct {
	key  *ecdsa.PrivateKey
	cert *x509.Certificate
}

func newMiniSigner(t *testing.T) miniSigner {
	t.Helper()
	k, err := ecdsa.GenerateKey(elliptic.P256(), rand.Reader)
	if err != nil {
		t.Fatal(err)
	}
	tpl := &x509.Certificate{SerialNumber: big.NewInt(0x1234), Subject: pkix.Name{CommonName: "mini"},
		NotBefore: time.Unix(1e9, 0), NotAfter: time.Unix(2e9, 0), SubjectKeyId: []byte{1, 2, 3, 4}}
	d, err := x509.CreateCertificate(rand.Reader, tpl, tpl, k.Public(), k)
	if err != nil {
		t.Fatal(err)
	}
	c, _ := x509.ParseCertificate(d)
	return miniSigner{k, c}
}

// build assembles a v1 SignedData with the given eContentType, [0] inner
// value, digested bytes and signed attributes (as given, unsorted).
func (m miniSigner) build(t *testing.T, ctype string, inner []byte, attrs [][]byte, unsigned []byte) []byte {
	t.Helper()
	sa := EncContext(0, true, Cat(attrs...))
	tbs := append([]byte{0x31}, sa[1:]...)
	h := sha256.Sum256(tbs)
	sig, err := m.key.Sign(rand.Reader, h[:], crypto.SHA256)
	if err != nil {
		t.Fatal(err)
	}
	si := EncSeq(EncInt64(1),
		EncSeq(m.cert.RawIssuer, EncInt(m.cert.SerialNumber)),
		EncAlgID(OIDSHA256, nil), sa, EncAlgID(OIDECDSAWithSHA256, nil), EncOctets(sig), unsigned)
	sd := EncSeq(EncInt64(1), EncSet(EncAlgID(OIDSHA256, nil)),
		EncSeq(EncOID(ctype), EncExplicit(0, inner)),
		EncContext(0, true, m.cert.Raw), EncSet(si))
	return EncSeq(EncOID(OIDSignedData), EncExplicit(0, sd))
}

func TestAttrErrors(t *testing.T) {
	m := newMiniSigner(t)
	content := []byte("payload")
	h := sha256.Sum256(content)
	ct := EncAttribute(OIDAttrContentType, EncOID(OIDData))
	md := EncAttribute(OIDAttrMessageDigest, EncOctets(h[:]))
	st := EncAttribute(OIDAttrSigningTime, EncUTCTime(time.Unix(1.5e9, 0)))
	badmd := EncAttribute(OIDAttrMessageDigest, EncOctets(make([]byte, 32)))

	cases := []struct {
		name   string
		attrs  [][]byte
		kind   error
		reason AttrReason
	}{
		{"ok-sorted", [][]byte{ct, st, md}, nil, ""},
		{"ok-unsorted", [][]byte{md, st, ct}, nil, ""},
		{"missing-ct", [][]byte{md, st}, ErrAttr, AttrMissingContentType},
		{"dup-ct", [][]byte{ct, ct, md}, ErrAttr, AttrDuplicateContentType},
		{"multi-ct", [][]byte{EncAttribute(OIDAttrContentType, EncOID(OIDData), EncOID(OIDData)), md}, ErrAttr, AttrMultiValuedContentType},
		{"wrong-ct", [][]byte{EncAttribute(OIDAttrContentType, EncOID(OIDTSTInfo)), md}, ErrAttr, AttrContentTypeMismatch},
		{"missing-md", [][]byte{ct, st}, ErrAttr, AttrMissingMessageDigest},
		{"dup-md", [][]byte{ct, md, md}, ErrAttr, AttrDuplicateMessageDigest},
		{"multi-md", [][]byte{ct, EncAttribute(OIDAttrMessageDigest, EncOctets(h[:]), EncOctets(h[:]))}, ErrAttr, AttrMultiValuedMessageDiges},
		{"bad-md", [][]byte{ct, badmd}, ErrDigestMismatch, ""},
	}
	for _, c := range cases {
		raw := m.build(t, OIDData, EncOctets(content), c.attrs, nil)
		sd, err := ParseSignedData(raw)
		if err != nil {
			t.Fatalf("%s: %v", c.name, err)
		}
		err = sd.VerifySigner(&sd.SignerInfos[0], nil)
		if c.kind == nil {
			if err != nil {
				t.Fatalf("%s: %v", c.name, err)
			}
			// order is preserved in the parsed view
			if c.name == "ok-unsorted" && sd.SignerInfos[0].SignedAttrs[0].OID != OIDAttrMessageDigest {
				t.Fatal("attribute order not preserved")
			}
			// bare SignedData (no ContentInfo) parses and verifies too
			bare, err := ParseSignedData(sd.Body.Raw)
			if err != nil || bare.ContentInfoOID != "" {
				t.Fatalf("bare: %v", err)
			}
			if err := bare.VerifySigner(&bare.SignerInfos[0], nil); err != nil {
				t.Fatalf("bare verify: %v", err)
			}
			continue
		}
		var ve *VerifyError
		if !errors.Is(err, c.kind) || !errors.As(err, &ve) || ve.Reason != c.reason {
			t.Fatalf("%s: got %v, want %v/%s", c.name, err, c.kind, c.reason)
		}
	}

	// re-sorting the attributes of the unsorted variant must break the
	// signature: the verifier may not normalise.
	raw := m.build(t, OIDData, EncOctets(content), [][]byte{md, st, ct}, nil)
	sd, _ := ParseSignedData(raw)
	si := sd.SignerInfos[0]
	sorted := EncContext(0, true, Cat(SortDER([][]byte{md, st, ct})...))
	if len(sorted) != len(si.SignedAttrsRaw) || bytes.Equal(sorted, si.SignedAttrsRaw) {
		t.Fatal("test setup: sorting had no effect")
	}
	mut := bytes.Replace(raw, si.SignedAttrsRaw, sorted, 1)
	msd, err := ParseSignedData(mut)
	if err != nil {
		t.Fatal(err)
	}
	if err := msd.VerifySigner(&msd.SignerInfos[0], nil); !errors.Is(err, ErrSignature) {
		t.Fatalf("sorted attrs: %v", err)
	}
	// trailing garbage is rejected
	if _, err := ParseSignedData(append(append([]byte(nil), raw...), 0)); err == nil {
		t.Fatal("trailing byte accepted")
	}
}

func TestSpcAndTSTInfo(t *testing.T) {
	m := newMiniSigner(t)
	fileDigest := bytes.Repeat([]byte{0xab}, 32)
	spc := EncSeq(
		EncSeq(EncOID("1.3.6.1.4.1.311.2.1.15"), EncSeq(EncBitString(nil, 0), EncExplicit(0, EncContext(2, true, EncContext(0, false, nil))))),
		EncSeq(EncAlgID(OIDSHA256, EncNull()), EncOctets(fileDigest)))
	tl, _ := ParseAll(spc)
	h := sha256.Sum256(tl.Content) // without the SEQUENCE header
	attrs := [][]byte{
		EncAttribute(OIDAttrContentType, EncOID(OIDSpcIndirectData)),
		EncAttribute(OIDAttrMessageDigest, EncOctets(h[:])),
	}
	raw := m.build(t, OIDSpcIndirectData, spc, attrs, nil)
	sd, err := ParseSignedData(raw)
	if err != nil {
		t.Fatal(err)
	}
	if err := sd.VerifySigner(&sd.SignerInfos[0], nil); err != nil {
		t.Fatal(err)
	}
	for _, in := range [][]byte{sd.EContentValueBytes, sd.EContentInner.Raw} {
		alg, d, err := SpcIndirectDigest(in)
		if err != nil || alg != OIDSHA256 || !bytes.Equal(d, fileDigest) {
			t.Fatalf("SpcIndirectDigest: %s %x %v", alg, d, err)
		}
	}
	if _, _, err := SpcIndirectDigest([]byte{0x30, 0x00}); err == nil {
		t.Fatal("empty SpcIndirectDataContent accepted")
	}

	// TSTInfo token (hand-made, CMS style OCTET STRING content) attached as
	// unsigned attribute under both OIDs, plus region recursion.
	parentSig := []byte("pretend-signature")
	imprint := sha256.Sum256(parentSig)
	gen := time.Date(2026, 10, 3, 18, 0, 0, 0, time.UTC)
	tst := EncSeq(EncInt64(1), EncOID("1.2.3.4"), EncSeq(EncAlgID(OIDSHA256, EncNull()), EncOctets(imprint[:])),
		EncInt64(77), EncGeneralizedTime(gen), EncSeq(EncInt64(1)), EncBool(true), EncInt(big.NewInt(-5)))
	th := sha256.Sum256(tst)
	token := m.build(t, OIDTSTInfo, EncOctets(tst), [][]byte{
		EncAttribute(OIDAttrContentType, EncOID(OIDTSTInfo)),
		EncAttribute(OIDAttrMessageDigest, EncOctets(th[:])),
	}, nil)
	info, err := ParseTSTInfo(token)
	if err != nil {
		t.Fatal(err)
	}
	if info.Policy != "1.2.3.4" || info.HashOID != OIDSHA256 || !bytes.Equal(info.HashedMessage, imprint[:]) ||
		info.Serial.Int64() != 77 || !info.GenTime.Equal(gen) || info.Nonce == nil || info.Nonce.Int64() != -5 || !info.Ordering {
		t.Fatalf("TSTInfo %+v", info)
	}
	if _, err := VerifyToken(token, parentSig, nil); err != nil {
		t.Fatal(err)
	}
	if _, err := VerifyToken(token, []byte("other"), nil); !errors.Is(err, ErrTimestamp) {
		t.Fatalf("wrong message: %v", err)
	}
	for _, oid := range []string{OIDAttrTimeStampToken, OIDAttrMSTimeStampToken} {
		un := EncContext(1, true, EncAttribute(oid, token))
		outer := m.build(t, OIDData, EncOctets([]byte("c")), [][]byte{
			EncAttribute(OIDAttrContentType, EncOID(OIDData)),
			EncAttribute(OIDAttrMessageDigest, EncOctets(sum256([]byte("c")))),
		}, un)
		osd, err := ParseSignedData(outer)
		if err != nil {
			t.Fatal(err)
		}
		toks := osd.SignerInfos[0].TimestampTokens()
		if len(toks) != 1 || !bytes.Equal(toks[0], token) {
			t.Fatalf("tokens: %d", len(toks))
		}
		// the token timestamps "pretend-signature", not the real signature
		if err := osd.VerifyAll(nil); !errors.Is(err, ErrTimestamp) {
			t.Fatalf("expected imprint mismatch, got %v", err)
		}
		found := 0
		for _, r := range osd.SignedRegions() {
			switch r.Label {
			case "signerInfos[0].timestampToken[0].eContent":
				found++
				if !bytes.Equal(r.Bytes(outer), tst) {
					t.Fatal("nested eContent region has wrong bytes/offset")
				}
			case "signerInfos[0].timestampToken[0].signerInfos[0].signedAttrs", "signerInfos[0].timestampToken[0].certificates[0]", "signerInfos[0].signature":
				found++
			}
		}
		if found != 4 {
			t.Fatalf("nested regions: found %d of 4: %+v", found, osd.SignedRegions())
		}
	}
}

func sum256(b []byte) []byte { h := sha256.Sum256(b); return h[:] }
