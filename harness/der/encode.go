package der

import (
	"bytes"
	"fmt"
	"math/big"
	"sort"
	"strconv"
	"strings"
	"time"
)

// The Enc* helpers emit strict DER (definite, minimal lengths). They are used
// by the sibling packages tsa and cmsgen so that every byte of what they emit
// is under their control (nothing is re-ordered or normalised behind their
// back, which encoding/asn1 would do for SET OF).

// EncLen encodes a definite length in minimal form.
func EncLen(n int) []byte {
	if n < 0x80 {
		return []byte{byte(n)}
	}
	var tmp [8]byte
	i := len(tmp)
	for v := n; v > 0; v >>= 8 {
		i--
		tmp[i] = byte(v)
	}
	return append([]byte{0x80 | byte(len(tmp)-i)}, tmp[i:]...)
}

func encIdent(class int, constructed bool, tag int) []byte {
	b := byte(class << 6)
	if constructed {
		b |= 0x20
	}
	if tag < 0x1f {
		return []byte{b | byte(tag)}
	}
	out := []byte{b | 0x1f}
	var tmp []byte
	for v := tag; ; v >>= 7 {
		tmp = append([]byte{byte(v & 0x7f)}, tmp...)
		if v < 0x80 {
			break
		}
	}
	for i := 0; i < len(tmp)-1; i++ {
		tmp[i] |= 0x80
	}
	return append(out, tmp...)
}

// EncTLV encodes one element with a definite minimal length.
func EncTLV(class int, constructed bool, tag int, content []byte) []byte {
	out := encIdent(class, constructed, tag)
	out = append(out, EncLen(len(content))...)
	return append(out, content...)
}

// EncIndefinite encodes a constructed element using the BER indefinite form.
func EncIndefinite(class int, tag int, content []byte) []byte {
	out := encIdent(class, true, tag)
	out = append(out, 0x80)
	out = append(out, content...)
	return append(out, 0, 0)
}

// Cat concatenates byte slices.
func Cat(parts ...[]byte) []byte { return bytes.Join(parts, nil) }

// EncSeq encodes a SEQUENCE of the already-encoded parts.
func EncSeq(parts ...[]byte) []byte { return EncTLV(ClassUniversal, true, TagSequence, Cat(parts...)) }

// EncSet encodes a SET with the parts in exactly the given order.
func EncSet(parts ...[]byte) []byte { return EncTLV(ClassUniversal, true, TagSet, Cat(parts...)) }

// SortDER returns the parts sorted as DER requires for SET OF.
func SortDER(parts [][]byte) [][]byte {
	out := append([][]byte(nil), parts...)
	sort.SliceStable(out, func(i, j int) bool { return bytes.Compare(out[i], out[j]) < 0 })
	return out
}

// IsSortedDER reports whether parts are in DER SET OF order.
func IsSortedDER(parts [][]byte) bool {
	for i := 1; i < len(parts); i++ {
		if bytes.Compare(parts[i-1], parts[i]) > 0 {
			return false
		}
	}
	return true
}

// EncSetOf encodes a SET OF with DER ordering.
func EncSetOf(parts ...[]byte) []byte { return EncSet(SortDER(parts)...) }

// EncContext encodes a context-specific element.
func EncContext(tag int, constructed bool, content []byte) []byte {
	return EncTLV(ClassContext, constructed, tag, content)
}

// EncExplicit wraps inner in [tag] EXPLICIT.
func EncExplicit(tag int, inner []byte) []byte { return EncContext(tag, true, inner) }

// Retag replaces the identifier of an encoded element by a context-specific
// tag, keeping the constructed bit (IMPLICIT tagging).
func Retag(raw []byte, tag int) []byte {
	t, rest, err := Parse(raw)
	if err != nil || len(rest) != 0 {
		panic(fmt.Sprintf("der.Retag: bad input: %v", err))
	}
	return EncTLV(ClassContext, t.Constructed, tag, t.Content)
}

// EncOID encodes a dotted OBJECT IDENTIFIER; it panics on malformed input.
func EncOID(dotted string) []byte {
	parts := strings.Split(dotted, ".")
	if len(parts) < 2 {
		panic("der.EncOID: " + dotted)
	}
	arcs := make([]*big.Int, len(parts))
	for i, p := range parts {
		v, ok := new(big.Int).SetString(p, 10)
		if !ok || v.Sign() < 0 {
			panic("der.EncOID: " + dotted)
		}
		arcs[i] = v
	}
	first := new(big.Int).Mul(arcs[0], big.NewInt(40))
	first.Add(first, arcs[1])
	var content []byte
	for _, a := range append([]*big.Int{first}, arcs[2:]...) {
		content = append(content, base128(a)...)
	}
	return EncTLV(ClassUniversal, false, TagOID, content)
}

func base128(v *big.Int) []byte {
	if v.Sign() == 0 {
		return []byte{0}
	}
	var out []byte
	x := new(big.Int).Set(v)
	m := big.NewInt(0x7f)
	for x.Sign() > 0 {
		out = append([]byte{byte(new(big.Int).And(x, m).Int64())}, out...)
		x.Rsh(x, 7)
	}
	for i := 0; i < len(out)-1; i++ {
		out[i] |= 0x80
	}
	return out
}

// EncInt encodes an INTEGER.
func EncInt(v *big.Int) []byte {
	var c []byte
	switch v.Sign() {
	case 0:
		c = []byte{0}
	case 1:
		c = v.Bytes()
		if c[0]&0x80 != 0 {
			c = append([]byte{0}, c...)
		}
	default:
		n := (v.BitLen() + 8) / 8
		mod := new(big.Int).Lsh(big.NewInt(1), uint(8*n))
		c = new(big.Int).Add(mod, v).Bytes()
		for len(c) < n {
			c = append([]byte{0}, c...)
		}
		for len(c) > 1 && c[0] == 0xff && c[1]&0x80 != 0 {
			c = c[1:]
		}
	}
	return EncTLV(ClassUniversal, false, TagInteger, c)
}

// EncInt64 encodes a small INTEGER.
func EncInt64(v int64) []byte { return EncInt(big.NewInt(v)) }

// EncOctets encodes a primitive OCTET STRING.
func EncOctets(b []byte) []byte { return EncTLV(ClassUniversal, false, TagOctetString, b) }

// EncNull encodes NULL.
func EncNull() []byte { return []byte{0x05, 0x00} }

// EncBool encodes a BOOLEAN (DER: 0xff for TRUE).
func EncBool(v bool) []byte {
	if v {
		return []byte{0x01, 0x01, 0xff}
	}
	return []byte{0x01, 0x01, 0x00}
}

// EncBitString encodes a BIT STRING with the given number of unused bits.
func EncBitString(b []byte, unused int) []byte {
	return EncTLV(ClassUniversal, false, TagBitString, append([]byte{byte(unused)}, b...))
}

// EncUTF8 encodes a UTF8String.
func EncUTF8(s string) []byte { return EncTLV(ClassUniversal, false, TagUTF8String, []byte(s)) }

// EncUTCTime encodes t as UTCTime (YYMMDDhhmmssZ). The year must be within
// 1950..2049.
func EncUTCTime(t time.Time) []byte {
	t = t.UTC()
	if t.Year() < 1950 || t.Year() > 2049 {
		panic("der.EncUTCTime: year out of range: " + strconv.Itoa(t.Year()))
	}
	return EncTLV(ClassUniversal, false, TagUTCTime, []byte(t.Format("060102150405Z")))
}

// EncGeneralizedTime encodes t as GeneralizedTime (YYYYMMDDhhmmssZ, no
// fraction).
func EncGeneralizedTime(t time.Time) []byte {
	return EncTLV(ClassUniversal, false, TagGeneralizedTime, []byte(t.UTC().Format("20060102150405Z")))
}

// EncAlgID encodes an AlgorithmIdentifier. params may be nil (absent).
func EncAlgID(oid string, params []byte) []byte { return EncSeq(EncOID(oid), params) }

// EncAttribute encodes Attribute ::= SEQUENCE { type, SET OF values } with
// the values in the given order.
func EncAttribute(oid string, values ...[]byte) []byte {
	return EncSeq(EncOID(oid), EncSet(values...))
}
