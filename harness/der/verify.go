package der

import (
	"bytes"
	"crypto"
	"crypto/ecdsa"
	"crypto/ed25519"
	_ "crypto/md5" // register hashes named by CMS digest OIDs
	"crypto/rsa"
	_ "crypto/sha1"
	_ "crypto/sha256"
	_ "crypto/sha512"
	"crypto/x509"
	"errors"
	"fmt"
	"math/big"
	"time"
)

// Sentinel error kinds; every error returned by the Verify* functions is a
// *VerifyError that unwraps to exactly one of these.
var (
	ErrDigestMismatch = errors.New("cms: message digest does not match content")
	ErrSignature      = errors.New("cms: signature verification failed")
	ErrAttr           = errors.New("cms: signed attribute constraint violated")
	ErrNoCert         = errors.New("cms: signer certificate not found")
	ErrNoContent      = errors.New("cms: detached signature and no content supplied")
	ErrUnsupported    = errors.New("cms: unsupported algorithm or structure")
	ErrTimestamp      = errors.New("cms: timestamp token does not match")
)

// AttrReason refines ErrAttr.
type AttrReason string

// Reasons reported with ErrAttr.
const (
	AttrMissingContentType      AttrReason = "content-type attribute missing"
	AttrDuplicateContentType    AttrReason = "content-type attribute present more than once"
	AttrMultiValuedContentType  AttrReason = "content-type attribute does not have exactly one value"
	AttrContentTypeMismatch     AttrReason = "content-type attribute differs from eContentType"
	AttrMissingMessageDigest    AttrReason = "message-digest attribute missing"
	AttrDuplicateMessageDigest  AttrReason = "message-digest attribute present more than once"
	AttrMultiValuedMessageDiges AttrReason = "message-digest attribute does not have exactly one value"
	AttrMalformed               AttrReason = "attribute value malformed"
	AttrEmptySet                AttrReason = "signedAttrs present but empty"
)

// VerifyError carries the error kind, an optional attribute reason and
// free-form detail.
type VerifyError struct {
	Kind   error
	Reason AttrReason
	Detail string
}

func (e *VerifyError) Error() string {
	s := e.Kind.Error()
	if e.Reason != "" {
		s += ": " + string(e.Reason)
	}
	if e.Detail != "" {
		s += ": " + e.Detail
	}
	return s
}

// Unwrap lets errors.Is(err, ErrSignature) etc. work.
func (e *VerifyError) Unwrap() error { return e.Kind }

func verr(kind error, format string, a ...any) error {
	return &VerifyError{Kind: kind, Detail: fmt.Sprintf(format, a...)}
}

func aerr(r AttrReason, format string, a ...any) error {
	return &VerifyError{Kind: ErrAttr, Reason: r, Detail: fmt.Sprintf(format, a...)}
}

// HashByOID maps a digest algorithm OID to a Go hash.
func HashByOID(oid string) (crypto.Hash, bool) {
	switch oid {
	case OIDMD5:
		return crypto.MD5, true
	case OIDSHA1:
		return crypto.SHA1, true
	case OIDSHA224:
		return crypto.SHA224, true
	case OIDSHA256:
		return crypto.SHA256, true
	case OIDSHA384:
		return crypto.SHA384, true
	case OIDSHA512:
		return crypto.SHA512, true
	}
	return 0, false
}

// OIDByHash is the inverse of HashByOID.
func OIDByHash(h crypto.Hash) (string, bool) {
	switch h {
	case crypto.MD5:
		return OIDMD5, true
	case crypto.SHA1:
		return OIDSHA1, true
	case crypto.SHA224:
		return OIDSHA224, true
	case crypto.SHA256:
		return OIDSHA256, true
	case crypto.SHA384:
		return OIDSHA384, true
	case crypto.SHA512:
		return OIDSHA512, true
	}
	return "", false
}

func digest(h crypto.Hash, b []byte) []byte {
	w := h.New()
	w.Write(b)
	return w.Sum(nil)
}

// certFields extracts what is needed for sid matching straight from the TLV
// so that matching does not depend on crypto/x509 accepting the certificate.
func certFields(c TLV) (issuerRaw []byte, serial *big.Int, ski []byte, ok bool) {
	if !c.IsUniversal(TagSequence) {
		return nil, nil, nil, false
	}
	top, err := c.Children()
	if err != nil || len(top) < 1 || !top[0].IsUniversal(TagSequence) {
		return nil, nil, nil, false
	}
	f, err := top[0].Children()
	if err != nil {
		return nil, nil, nil, false
	}
	i := 0
	if len(f) > 0 && f[0].IsContext(0) {
		i++
	}
	if len(f) < i+6 {
		return nil, nil, nil, false
	}
	serial, err = f[i].Int()
	if err != nil || !f[i+2].IsUniversal(TagSequence) {
		return nil, nil, nil, false
	}
	issuerRaw = f[i+2].Raw
	for _, e := range f[i+6:] {
		if !e.IsContext(3) || !e.Constructed {
			continue
		}
		w, err := e.Children()
		if err != nil || len(w) != 1 {
			break
		}
		exts, err := w[0].Children()
		if err != nil {
			break
		}
		for _, x := range exts {
			xf, err := x.Children()
			if err != nil || len(xf) < 2 {
				continue
			}
			if oid, _ := xf[0].OID(); oid != OIDExtSubjectKeyID {
				continue
			}
			val, err := xf[len(xf)-1].OctetString()
			if err != nil {
				continue
			}
			if in, err := ParseAll(val); err == nil {
				if v, err := in.OctetString(); err == nil {
					ski = v
				}
			}
		}
	}
	return issuerRaw, serial, ski, true
}

// FindCertTLV locates the raw certificate designated by si.SID among certs.
func FindCertTLV(si *SignerInfo, certs []TLV) (TLV, bool) {
	for _, c := range certs {
		issuer, serial, ski, ok := certFields(c)
		if !ok {
			continue
		}
		if si.Serial != nil {
			if bytes.Equal(issuer, si.IssuerRaw) && serial.Cmp(si.Serial) == 0 {
				return c, true
			}
		} else if ski != nil && bytes.Equal(ski, si.SKI) {
			return c, true
		}
	}
	return TLV{}, false
}

// FindCert returns the certificate designated by si.SID from
// sd.Certificates (matching issuer+serial byte-exactly, or the
// subjectKeyIdentifier extension).
func (sd *SignedData) FindCert(si *SignerInfo) (*x509.Certificate, error) {
	return findCert(si, sd.Certificates)
}

func findCert(si *SignerInfo, pools ...[]TLV) (*x509.Certificate, error) {
	for _, p := range pools {
		c, ok := FindCertTLV(si, p)
		if !ok {
			continue
		}
		cert, err := x509.ParseCertificate(c.Raw)
		if err != nil {
			return nil, verr(ErrNoCert, "matching certificate at offset %d does not parse: %v", c.Offset, err)
		}
		return cert, nil
	}
	if si.Serial != nil {
		return nil, verr(ErrNoCert, "no certificate with serial %x and the SID issuer", si.Serial)
	}
	return nil, verr(ErrNoCert, "no certificate with subjectKeyIdentifier %x", si.SKI)
}

// ParsedCertificates parses every plain X.509 certificate in the
// certificates field, skipping other CertificateChoices and parse failures.
func (sd *SignedData) ParsedCertificates() []*x509.Certificate {
	var out []*x509.Certificate
	for _, c := range sd.Certificates {
		if !c.IsUniversal(TagSequence) {
			continue
		}
		if cert, err := x509.ParseCertificate(c.Raw); err == nil {
			out = append(out, cert)
		}
	}
	return out
}

// ContentFor returns the octets that are digested: the encapsulated content
// when present (detachedContent is then ignored), else detachedContent.
func (sd *SignedData) ContentFor(detachedContent []byte) ([]byte, error) {
	if !sd.Detached {
		return sd.EContentValueBytes, nil
	}
	if detachedContent == nil {
		return nil, &VerifyError{Kind: ErrNoContent}
	}
	return detachedContent, nil
}

// VerifySigner checks one SignerInfo of sd per RFC 5652 §5.4/§5.6:
//
// With signed attributes: exactly one content-type attribute with one value
// equal to eContentType, exactly one message-digest attribute with one value
// equal to H(content) under si.DigestAlgOID, then the signature over the
// signedAttrs bytes exactly as encoded with the leading 0xA0 replaced by
// 0x31 (no re-sorting). Without signed attributes: the signature over the
// content.
//
// The signer certificate is looked up in sd.Certificates; no chain building
// or validity checking takes place.
func (sd *SignedData) VerifySigner(si *SignerInfo, detachedContent []byte) error {
	content, err := sd.ContentFor(detachedContent)
	if err != nil {
		return err
	}
	cert, err := sd.FindCert(si)
	if err != nil {
		return err
	}
	return verifySignerInfo(si, content, sd.EContentType, true, cert)
}

// VerifyCountersignature checks a PKCS#9 countersignature cs over parent's
// signature value (RFC 5652 §11.4). A content-type attribute is tolerated
// (legacy Authenticode timestamps carry one) but must be single if present.
func (sd *SignedData) VerifyCountersignature(parent, cs *SignerInfo) error {
	cert, err := sd.FindCert(cs)
	if err != nil {
		return err
	}
	if cs.SignedAttrsRaw == nil {
		return aerr(AttrMissingMessageDigest, "countersignature without signed attributes")
	}
	return verifySignerInfo(cs, parent.Signature, "", false, cert)
}

// VerifyTimestampToken checks an RFC 3161 token attached to parent: the
// token's own CMS signature (signer certificate taken from the token, falling
// back to sd.Certificates; sd may be nil) and that its messageImprint equals
// H(parent.Signature).
func (sd *SignedData) VerifyTimestampToken(token []byte, parent *SignerInfo) (*TSTInfo, error) {
	var extra []TLV
	if sd != nil {
		extra = sd.Certificates
	}
	return VerifyToken(token, parent.Signature, extra)
}

// VerifyToken checks an RFC 3161 TimeStampToken over message.
func VerifyToken(token, message []byte, extraCerts []TLV) (*TSTInfo, error) {
	nested, err := ParseSignedData(token)
	if err != nil {
		return nil, verr(ErrTimestamp, "token does not parse: %v", err)
	}
	info, err := tstInfoOf(nested)
	if err != nil {
		return nil, err
	}
	if len(nested.SignerInfos) != 1 {
		return nil, verr(ErrTimestamp, "token has %d SignerInfos, RFC 3161 requires exactly 1", len(nested.SignerInfos))
	}
	tsi := &nested.SignerInfos[0]
	cert, err := findCert(tsi, nested.Certificates, extraCerts)
	if err != nil {
		return nil, err
	}
	if err := verifySignerInfo(tsi, nested.EContentValueBytes, nested.EContentType, true, cert); err != nil {
		return nil, err
	}
	h, ok := HashByOID(info.HashOID)
	if !ok {
		return nil, verr(ErrUnsupported, "messageImprint hash %s", info.HashOID)
	}
	if !bytes.Equal(digest(h, message), info.HashedMessage) {
		return nil, verr(ErrTimestamp, "messageImprint %x is not %s of the timestamped message", info.HashedMessage, info.HashOID)
	}
	return info, nil
}

// VerifyAll verifies every SignerInfo plus every countersignature and
// timestamp token attached to it (one level deep).
func (sd *SignedData) VerifyAll(detachedContent []byte) error {
	if len(sd.SignerInfos) == 0 {
		return verr(ErrSignature, "no SignerInfos")
	}
	for i := range sd.SignerInfos {
		si := &sd.SignerInfos[i]
		if err := sd.VerifySigner(si, detachedContent); err != nil {
			return fmt.Errorf("signerInfos[%d]: %w", i, err)
		}
		for j, tok := range si.TimestampTokens() {
			if _, err := sd.VerifyTimestampToken(tok, si); err != nil {
				return fmt.Errorf("signerInfos[%d].timestampToken[%d]: %w", i, j, err)
			}
		}
		css, err := si.CountersignaturesErr()
		if err != nil {
			return fmt.Errorf("signerInfos[%d]: %w", i, err)
		}
		for j := range css {
			if err := sd.VerifyCountersignature(si, &css[j]); err != nil {
				return fmt.Errorf("signerInfos[%d].counterSignature[%d]: %w", i, j, err)
			}
		}
	}
	return nil
}

func verifySignerInfo(si *SignerInfo, content []byte, wantContentType string, requireContentType bool, cert *x509.Certificate) error {
	h, ok := HashByOID(si.DigestAlgOID)
	if !ok {
		return verr(ErrUnsupported, "digest algorithm %s", si.DigestAlgOID)
	}
	message := content
	if si.SignedAttrsRaw != nil {
		if len(si.SignedAttrs) == 0 {
			return aerr(AttrEmptySet, "")
		}
		ct := si.SignedAttr(OIDAttrContentType)
		switch {
		case len(ct) == 0 && requireContentType:
			return aerr(AttrMissingContentType, "")
		case len(ct) > 1:
			return aerr(AttrDuplicateContentType, "%d occurrences", len(ct))
		case len(ct) == 1:
			if len(ct[0].Values) != 1 {
				return aerr(AttrMultiValuedContentType, "%d values", len(ct[0].Values))
			}
			got, err := ct[0].Values[0].OID()
			if err != nil {
				return aerr(AttrMalformed, "content-type: %v", err)
			}
			if requireContentType && got != wantContentType {
				return aerr(AttrContentTypeMismatch, "attribute %s, eContentType %s", got, wantContentType)
			}
		}
		md := si.SignedAttr(OIDAttrMessageDigest)
		switch {
		case len(md) == 0:
			return aerr(AttrMissingMessageDigest, "")
		case len(md) > 1:
			return aerr(AttrDuplicateMessageDigest, "%d occurrences", len(md))
		case len(md[0].Values) != 1:
			return aerr(AttrMultiValuedMessageDiges, "%d values", len(md[0].Values))
		}
		mdv := md[0].Values[0]
		if !mdv.IsUniversal(TagOctetString) || mdv.Constructed {
			return aerr(AttrMalformed, "message-digest value is %s", mdv.Describe())
		}
		if want := digest(h, content); !bytes.Equal(want, mdv.Content) {
			return &VerifyError{Kind: ErrDigestMismatch,
				Detail: fmt.Sprintf("attribute %x, computed %s %x over %d content octets", mdv.Content, si.DigestAlgOID, want, len(content))}
		}
		if si.SignedAttrsRaw[0] != 0xA0 {
			return aerr(AttrMalformed, "signedAttrs identifier octet %#x", si.SignedAttrsRaw[0])
		}
		message = append([]byte{0x31}, si.SignedAttrsRaw[1:]...)
	}
	return verifyRaw(cert, si, h, message)
}

func certPublicKey(cert *x509.Certificate) (crypto.PublicKey, error) {
	if cert.PublicKey != nil {
		return cert.PublicKey, nil
	}
	// crypto/x509 leaves PublicKey nil for id-RSASSA-PSS keys; decode the
	// RSAPublicKey by hand.
	spki, err := ParseAll(cert.RawSubjectPublicKeyInfo)
	if err != nil {
		return nil, err
	}
	f, err := spki.Children()
	if err != nil || len(f) != 2 {
		return nil, errors.New("malformed SubjectPublicKeyInfo")
	}
	oid, _, err := parseAlgID(f[0])
	if err != nil {
		return nil, err
	}
	if oid != OIDRSAPSS && oid != OIDRSAEncryption {
		return nil, fmt.Errorf("public key algorithm %s", oid)
	}
	if !f[1].IsUniversal(TagBitString) || len(f[1].Content) < 1 {
		return nil, errors.New("malformed subjectPublicKey")
	}
	rk, err := ParseAll(f[1].Content[1:])
	if err != nil {
		return nil, err
	}
	kf, err := rk.Children()
	if err != nil || len(kf) != 2 {
		return nil, errors.New("malformed RSAPublicKey")
	}
	n, err1 := kf[0].Int()
	e, err2 := kf[1].SmallInt()
	if err1 != nil || err2 != nil {
		return nil, errors.New("malformed RSAPublicKey")
	}
	return &rsa.PublicKey{N: n, E: e}, nil
}

type pssParams struct {
	hash, mgfHash crypto.Hash
	salt          int
}

func parsePSSParams(p TLV) (pssParams, error) {
	out := pssParams{hash: crypto.SHA1, mgfHash: crypto.SHA1, salt: 20}
	if p.IsZero() {
		return out, nil
	}
	if !p.IsUniversal(TagSequence) {
		return out, fmt.Errorf("RSASSA-PSS-params is %s", p.Describe())
	}
	kids, err := p.Children()
	if err != nil {
		return out, err
	}
	last := -1
	for _, k := range kids {
		if k.Class != ClassContext || !k.Constructed || k.Tag <= last || k.Tag > 3 {
			return out, fmt.Errorf("RSASSA-PSS-params: unexpected %s", k.Describe())
		}
		last = k.Tag
		in, err := k.Children()
		if err != nil || len(in) != 1 {
			return out, fmt.Errorf("RSASSA-PSS-params [%d]: malformed EXPLICIT wrapper", k.Tag)
		}
		switch k.Tag {
		case 0:
			oid, _, err := parseAlgID(in[0])
			if err != nil {
				return out, err
			}
			h, ok := HashByOID(oid)
			if !ok {
				return out, fmt.Errorf("RSASSA-PSS hash %s", oid)
			}
			out.hash = h
		case 1:
			oid, mp, err := parseAlgID(in[0])
			if err != nil {
				return out, err
			}
			if oid != OIDMGF1 {
				return out, fmt.Errorf("RSASSA-PSS mask generation function %s", oid)
			}
			hoid, _, err := parseAlgID(mp)
			if err != nil {
				return out, err
			}
			h, ok := HashByOID(hoid)
			if !ok {
				return out, fmt.Errorf("MGF1 hash %s", hoid)
			}
			out.mgfHash = h
		case 2:
			if out.salt, err = in[0].SmallInt(); err != nil {
				return out, err
			}
		case 3:
			v, err := in[0].SmallInt()
			if err != nil || v != 1 {
				return out, errors.New("RSASSA-PSS trailerField is not 1")
			}
		}
	}
	return out, nil
}

// verifyRaw verifies si.Signature over message with cert's key according to
// si.SigAlgOID. dh is the hash named by si.DigestAlgOID.
func verifyRaw(cert *x509.Certificate, si *SignerInfo, dh crypto.Hash, message []byte) error {
	pub, err := certPublicKey(cert)
	if err != nil {
		return verr(ErrUnsupported, "signer public key: %v", err)
	}
	sig := si.Signature
	sigHash := dh
	kind := ""
	switch si.SigAlgOID {
	case OIDRSAEncryption:
		kind = "rsa"
	case OIDMD5WithRSA:
		kind, sigHash = "rsa", crypto.MD5
	case OIDSHA1WithRSA, OIDSHA1WithRSAOI:
		kind, sigHash = "rsa", crypto.SHA1
	case OIDSHA224WithRSA:
		kind, sigHash = "rsa", crypto.SHA224
	case OIDSHA256WithRSA:
		kind, sigHash = "rsa", crypto.SHA256
	case OIDSHA384WithRSA:
		kind, sigHash = "rsa", crypto.SHA384
	case OIDSHA512WithRSA:
		kind, sigHash = "rsa", crypto.SHA512
	case OIDRSAPSS:
		kind = "pss"
	case OIDECPublicKey:
		kind = "ecdsa"
	case OIDECDSAWithSHA1:
		kind, sigHash = "ecdsa", crypto.SHA1
	case OIDECDSAWithSHA224:
		kind, sigHash = "ecdsa", crypto.SHA224
	case OIDECDSAWithSHA256:
		kind, sigHash = "ecdsa", crypto.SHA256
	case OIDECDSAWithSHA384:
		kind, sigHash = "ecdsa", crypto.SHA384
	case OIDECDSAWithSHA512:
		kind, sigHash = "ecdsa", crypto.SHA512
	case OIDEd25519:
		kind = "ed25519"
	default:
		return verr(ErrUnsupported, "signature algorithm %s", si.SigAlgOID)
	}
	if sigHash != dh {
		return verr(ErrSignature, "signatureAlgorithm %s implies %v but digestAlgorithm is %v", si.SigAlgOID, sigHash, dh)
	}
	switch kind {
	case "rsa":
		rk, ok := pub.(*rsa.PublicKey)
		if !ok {
			return verr(ErrSignature, "signatureAlgorithm %s with %T key", si.SigAlgOID, pub)
		}
		if err := rsa.VerifyPKCS1v15(rk, sigHash, digest(sigHash, message), sig); err != nil {
			return verr(ErrSignature, "RSA PKCS#1 v1.5 (%v): %v", sigHash, err)
		}
	case "pss":
		rk, ok := pub.(*rsa.PublicKey)
		if !ok {
			return verr(ErrSignature, "RSASSA-PSS with %T key", pub)
		}
		p, err := parsePSSParams(si.SigAlgParams)
		if err != nil {
			return verr(ErrUnsupported, "%v", err)
		}
		if p.hash != dh {
			return verr(ErrSignature, "RSASSA-PSS hash %v differs from digestAlgorithm %v (RFC 4056 §3)", p.hash, dh)
		}
		if p.mgfHash != p.hash {
			return verr(ErrUnsupported, "RSASSA-PSS with MGF1 hash %v != message hash %v", p.mgfHash, p.hash)
		}
		// Note: Go treats SaltLength 0 as "detect from the signature".
		opts := &rsa.PSSOptions{SaltLength: p.salt, Hash: p.hash}
		if err := rsa.VerifyPSS(rk, p.hash, digest(p.hash, message), sig, opts); err != nil {
			return verr(ErrSignature, "RSASSA-PSS (%v, salt %d): %v", p.hash, p.salt, err)
		}
	case "ecdsa":
		ek, ok := pub.(*ecdsa.PublicKey)
		if !ok {
			return verr(ErrSignature, "ECDSA signatureAlgorithm %s with %T key", si.SigAlgOID, pub)
		}
		t, err := ParseAll(sig)
		if err != nil || !t.IsUniversal(TagSequence) {
			return verr(ErrSignature, "ECDSA signature is not a DER SEQUENCE: %v", err)
		}
		rs, err := t.Children()
		if err != nil || len(rs) != 2 {
			return verr(ErrSignature, "ECDSA signature is not SEQUENCE { r, s }")
		}
		r, err1 := rs[0].Int()
		s, err2 := rs[1].Int()
		if err1 != nil || err2 != nil || r.Sign() <= 0 || s.Sign() <= 0 {
			return verr(ErrSignature, "ECDSA signature has malformed r/s")
		}
		if !ecdsa.Verify(ek, digest(sigHash, message), r, s) {
			return verr(ErrSignature, "ECDSA (%v) verification failed", sigHash)
		}
	case "ed25519":
		ek, ok := pub.(ed25519.PublicKey)
		if !ok {
			return verr(ErrSignature, "Ed25519 signatureAlgorithm with %T key", pub)
		}
		if !ed25519.Verify(ek, message, sig) {
			return verr(ErrSignature, "Ed25519 verification failed")
		}
	}
	return nil
}

// TSTInfo is the subset of RFC 3161 TSTInfo the harness inspects.
type TSTInfo struct {
	Raw           []byte
	Version       int
	Policy        string
	HashOID       string
	HashedMessage []byte
	Serial        *big.Int
	GenTime       time.Time
	GenTimeRaw    string
	Ordering      bool
	Nonce         *big.Int // nil when absent
}

// ParseTSTInfo extracts the TSTInfo from a TimeStampToken (ContentInfo or
// bare SignedData with eContentType id-ct-TSTInfo). No signature is checked.
func ParseTSTInfo(token []byte) (*TSTInfo, error) {
	sd, err := ParseSignedData(token)
	if err != nil {
		return nil, err
	}
	return tstInfoOf(sd)
}

func tstInfoOf(sd *SignedData) (*TSTInfo, error) {
	if sd.EContentType != OIDTSTInfo {
		return nil, verr(ErrTimestamp, "eContentType %s is not id-ct-TSTInfo", sd.EContentType)
	}
	if sd.Detached {
		return nil, verr(ErrTimestamp, "token has no eContent")
	}
	if !sd.EContentInner.IsUniversal(TagOctetString) {
		return nil, verr(ErrTimestamp, "token eContent is %s, not OCTET STRING", sd.EContentInner.Describe())
	}
	return ParseTSTInfoDER(sd.EContentValueBytes)
}

// ParseTSTInfoDER parses a bare TSTInfo SEQUENCE.
func ParseTSTInfoDER(b []byte) (*TSTInfo, error) {
	t, err := ParseAll(b)
	if err != nil {
		return nil, verr(ErrTimestamp, "TSTInfo: %v", err)
	}
	k, err := t.Children()
	if err != nil || !t.IsUniversal(TagSequence) || len(k) < 5 {
		return nil, verr(ErrTimestamp, "TSTInfo is not a SEQUENCE of at least 5 fields")
	}
	info := &TSTInfo{Raw: t.Raw}
	bad := func(what string, err error) error { return verr(ErrTimestamp, "TSTInfo.%s: %v", what, err) }
	if info.Version, err = k[0].SmallInt(); err != nil {
		return nil, bad("version", err)
	}
	if info.Policy, err = k[1].OID(); err != nil {
		return nil, bad("policy", err)
	}
	mi, err := k[2].Children()
	if err != nil || len(mi) != 2 {
		return nil, bad("messageImprint", errors.New("not SEQUENCE { alg, OCTET STRING }"))
	}
	if info.HashOID, _, err = parseAlgID(mi[0]); err != nil {
		return nil, bad("messageImprint.hashAlgorithm", err)
	}
	if info.HashedMessage, err = mi[1].OctetString(); err != nil {
		return nil, bad("messageImprint.hashedMessage", err)
	}
	if info.Serial, err = k[3].Int(); err != nil {
		return nil, bad("serialNumber", err)
	}
	if !k[4].IsUniversal(TagGeneralizedTime) {
		return nil, bad("genTime", fmt.Errorf("is %s", k[4].Describe()))
	}
	info.GenTimeRaw = string(k[4].Content)
	if info.GenTime, err = k[4].Time(); err != nil {
		return nil, bad("genTime", err)
	}
	for _, f := range k[5:] {
		switch {
		case f.IsUniversal(TagSequence): // accuracy
		case f.IsUniversal(TagBoolean):
			if info.Ordering, err = f.Bool(); err != nil {
				return nil, bad("ordering", err)
			}
		case f.IsUniversal(TagInteger):
			if info.Nonce, err = f.Int(); err != nil {
				return nil, bad("nonce", err)
			}
		case f.IsContext(0), f.IsContext(1): // tsa, extensions
		default:
			return nil, bad("trailing field", fmt.Errorf("unexpected %s", f.Describe()))
		}
	}
	return info, nil
}

// SpcIndirectDigest extracts the DigestInfo from an Authenticode
// SpcIndirectDataContent. econtent may be either the digested form (the
// content octets without the outer SEQUENCE header, i.e.
// SignedData.EContentValueBytes) or the complete SEQUENCE.
func SpcIndirectDigest(econtent []byte) (algOID string, dig []byte, err error) {
	fields, err := parseSeries(econtent, 0)
	if err != nil {
		return "", nil, fmt.Errorf("SpcIndirectDataContent: %w", err)
	}
	if len(fields) == 1 && fields[0].IsUniversal(TagSequence) {
		if fields, err = fields[0].Children(); err != nil {
			return "", nil, fmt.Errorf("SpcIndirectDataContent: %w", err)
		}
	}
	if len(fields) != 2 || !fields[0].IsUniversal(TagSequence) || !fields[1].IsUniversal(TagSequence) {
		return "", nil, errors.New("SpcIndirectDataContent: expected { data SEQUENCE, messageDigest SEQUENCE }")
	}
	di, err := fields[1].Children()
	if err != nil || len(di) != 2 {
		return "", nil, errors.New("SpcIndirectDataContent: malformed DigestInfo")
	}
	if algOID, _, err = parseAlgID(di[0]); err != nil {
		return "", nil, fmt.Errorf("SpcIndirectDataContent DigestInfo: %w", err)
	}
	if dig, err = di[1].OctetString(); err != nil {
		return "", nil, fmt.Errorf("SpcIndirectDataContent DigestInfo: %w", err)
	}
	return algOID, dig, nil
}
