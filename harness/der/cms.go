package der

import (
	"errors"
	"fmt"
	"math/big"
)

// Object identifiers (dotted) used by the inspector.
const (
	OIDData                 = "1.2.840.113549.1.7.1"
	OIDSignedData           = "1.2.840.113549.1.7.2"
	OIDAttrContentType      = "1.2.840.113549.1.9.3"
	OIDAttrMessageDigest    = "1.2.840.113549.1.9.4"
	OIDAttrSigningTime      = "1.2.840.113549.1.9.5"
	OIDAttrCounterSignature = "1.2.840.113549.1.9.6"
	OIDAttrSMIMECaps        = "1.2.840.113549.1.9.15"
	OIDAttrTimeStampToken   = "1.2.840.113549.1.9.16.2.14"
	OIDAttrSigningCert      = "1.2.840.113549.1.9.16.2.12"
	OIDAttrSigningCertV2    = "1.2.840.113549.1.9.16.2.47"
	OIDAttrMSTimeStampToken = "1.3.6.1.4.1.311.3.3.1"
	OIDTSTInfo              = "1.2.840.113549.1.9.16.1.4"
	OIDSpcIndirectData      = "1.3.6.1.4.1.311.2.1.4"
	OIDMSCTL                = "1.3.6.1.4.1.311.10.1"
	OIDSpcTimeStampRequest  = "1.3.6.1.4.1.311.3.2.1"

	OIDMD5    = "1.2.840.113549.2.5"
	OIDSHA1   = "1.3.14.3.2.26"
	OIDSHA224 = "2.16.840.1.101.3.4.2.4"
	OIDSHA256 = "2.16.840.1.101.3.4.2.1"
	OIDSHA384 = "2.16.840.1.101.3.4.2.2"
	OIDSHA512 = "2.16.840.1.101.3.4.2.3"

	OIDRSAEncryption = "1.2.840.113549.1.1.1"
	OIDMD5WithRSA    = "1.2.840.113549.1.1.4"
	OIDSHA1WithRSA   = "1.2.840.113549.1.1.5"
	OIDSHA1WithRSAOI = "1.3.14.3.2.29"
	OIDMGF1          = "1.2.840.113549.1.1.8"
	OIDRSAPSS        = "1.2.840.113549.1.1.10"
	OIDSHA256WithRSA = "1.2.840.113549.1.1.11"
	OIDSHA384WithRSA = "1.2.840.113549.1.1.12"
	OIDSHA512WithRSA = "1.2.840.113549.1.1.13"
	OIDSHA224WithRSA = "1.2.840.113549.1.1.14"

	OIDECPublicKey     = "1.2.840.10045.2.1"
	OIDECDSAWithSHA1   = "1.2.840.10045.4.1"
	OIDECDSAWithSHA224 = "1.2.840.10045.4.3.1"
	OIDECDSAWithSHA256 = "1.2.840.10045.4.3.2"
	OIDECDSAWithSHA384 = "1.2.840.10045.4.3.3"
	OIDECDSAWithSHA512 = "1.2.840.10045.4.3.4"
	OIDEd25519         = "1.3.101.112"

	OIDExtSubjectKeyID = "2.5.29.14"
)

// Attribute is one CMS Attribute: SEQUENCE { type OID, values SET OF ANY }.
type Attribute struct {
	OID    string
	Values []TLV
	Raw    []byte
	// Offset of Raw[0] within the top-level input.
	Offset int
}

// SignerInfo is the parsed form of RFC 5652 §5.3 SignerInfo.
type SignerInfo struct {
	Raw     []byte
	Offset  int
	Version int
	// SID is either the IssuerAndSerialNumber SEQUENCE or [0] IMPLICIT
	// SubjectKeyIdentifier.
	SID       TLV
	IssuerRaw []byte   // full Name TLV for issuerAndSerialNumber, else nil
	Serial    *big.Int // nil for subjectKeyIdentifier
	SKI       []byte   // nil for issuerAndSerialNumber

	DigestAlgOID    string
	DigestAlgParams TLV // zero when absent

	// SignedAttrsRaw is the [0] IMPLICIT element exactly as encoded
	// (starting with 0xA0), nil when absent.
	SignedAttrsRaw []byte
	SignedAttrsTLV TLV
	SignedAttrs    []Attribute // in encoded order

	SigAlgOID    string
	SigAlgParams TLV // zero when absent
	Signature    []byte
	SignatureTLV TLV

	UnsignedAttrsRaw []byte
	UnsignedAttrsTLV TLV
	UnsignedAttrs    []Attribute
}

// SignedData is the parsed form of RFC 5652 §5.1 SignedData (or the PKCS#7
// v1.5 equivalent, whose content is ANY rather than OCTET STRING).
type SignedData struct {
	// Raw is the complete input element (ContentInfo when one was present,
	// otherwise the bare SignedData). All offsets are relative to Raw[0].
	Raw []byte
	// ContentInfoOID is the outer contentType, "" for a bare SignedData.
	ContentInfoOID string
	// Body is the SignedData SEQUENCE itself.
	Body TLV

	Version          int
	DigestAlgorithms []TLV
	EContentType     string
	// EContent is the [0] EXPLICIT wrapper, EContentInner the value inside
	// it (an OCTET STRING for CMS, anything for PKCS#7). Both are zero when
	// Detached.
	EContent      TLV
	EContentInner TLV
	// EContentValueBytes are the octets that enter the message digest:
	// the value octets of the OCTET STRING (segments concatenated for the
	// BER constructed form), or for PKCS#7-style ANY content the content
	// octets of that value without its identifier and length octets
	// (PKCS#7 §9.3, Authenticode SpcIndirectDataContent, Microsoft CTL).
	EContentValueBytes []byte
	Detached           bool

	Certificates []TLV // raw CertificateChoices, in encoded order
	CRLs         []TLV // raw RevocationInfoChoices, in encoded order
	SignerInfos  []SignerInfo

	// BER is set when any element on the path from the top of Raw down to
	// the SignedData fields uses an indefinite or non-minimal length.
	BER bool
}

// ParseSignedData accepts a ContentInfo{signedData} or a bare SignedData.
// Trailing bytes after the top-level element are rejected.
func ParseSignedData(b []byte) (*SignedData, error) {
	top, err := ParseAll(b)
	if err != nil {
		return nil, err
	}
	return ParseSignedDataTLV(top)
}

// ParseSignedDataTLV is ParseSignedData for an element that is part of a
// bigger structure; offsets stay relative to that structure's top.
func ParseSignedDataTLV(top TLV) (*SignedData, error) {
	if !top.IsUniversal(TagSequence) {
		return nil, fmt.Errorf("cms: top-level element is %s, not SEQUENCE", top.Describe())
	}
	kids, err := top.Children()
	if err != nil {
		return nil, err
	}
	if len(kids) == 0 {
		return nil, errors.New("cms: empty top-level SEQUENCE")
	}
	sd := &SignedData{Raw: top.Raw}
	sd.BER = top.Indefinite || top.NonMinimalLength
	body := top
	if kids[0].IsUniversal(TagOID) {
		oid, err := kids[0].OID()
		if err != nil {
			return nil, err
		}
		sd.ContentInfoOID = oid
		if oid != OIDSignedData {
			return nil, fmt.Errorf("cms: ContentInfo contentType %s is not signedData", oid)
		}
		if len(kids) != 2 || !kids[1].IsContext(0) || !kids[1].Constructed {
			return nil, errors.New("cms: ContentInfo lacks [0] EXPLICIT content")
		}
		inner, err := kids[1].Children()
		if err != nil {
			return nil, err
		}
		if len(inner) != 1 || !inner[0].IsUniversal(TagSequence) {
			return nil, errors.New("cms: ContentInfo content is not a single SEQUENCE")
		}
		sd.BER = sd.BER || kids[1].Indefinite || kids[1].NonMinimalLength
		body = inner[0]
		if kids, err = body.Children(); err != nil {
			return nil, err
		}
	}
	sd.Body = body
	sd.BER = sd.BER || body.Indefinite || body.NonMinimalLength

	// version, digestAlgorithms, encapContentInfo, [0] certs, [1] crls, signerInfos
	if len(kids) < 4 {
		return nil, fmt.Errorf("cms: SignedData has %d fields, need at least 4", len(kids))
	}
	if sd.Version, err = kids[0].SmallInt(); err != nil {
		return nil, fmt.Errorf("cms: SignedData.version: %w", err)
	}
	if !kids[1].IsUniversal(TagSet) {
		return nil, fmt.Errorf("cms: digestAlgorithms is %s", kids[1].Describe())
	}
	if sd.DigestAlgorithms, err = kids[1].Children(); err != nil {
		return nil, err
	}
	for _, a := range sd.DigestAlgorithms {
		if _, _, err := parseAlgID(a); err != nil {
			return nil, fmt.Errorf("cms: digestAlgorithms: %w", err)
		}
	}
	if err := sd.parseEncap(kids[2]); err != nil {
		return nil, err
	}
	i := 3
	if i < len(kids) && kids[i].IsContext(0) {
		if !kids[i].Constructed {
			return nil, errors.New("cms: certificates [0] is primitive")
		}
		if sd.Certificates, err = kids[i].Children(); err != nil {
			return nil, err
		}
		sd.BER = sd.BER || kids[i].Indefinite || kids[i].NonMinimalLength
		i++
	}
	if i < len(kids) && kids[i].IsContext(1) {
		if !kids[i].Constructed {
			return nil, errors.New("cms: crls [1] is primitive")
		}
		if sd.CRLs, err = kids[i].Children(); err != nil {
			return nil, err
		}
		sd.BER = sd.BER || kids[i].Indefinite || kids[i].NonMinimalLength
		i++
	}
	if i != len(kids)-1 || !kids[i].IsUniversal(TagSet) {
		return nil, errors.New("cms: signerInfos SET missing or followed by extra fields")
	}
	sd.BER = sd.BER || kids[i].Indefinite || kids[i].NonMinimalLength
	sis, err := kids[i].Children()
	if err != nil {
		return nil, err
	}
	for n, s := range sis {
		si, err := ParseSignerInfoTLV(s)
		if err != nil {
			return nil, fmt.Errorf("cms: signerInfos[%d]: %w", n, err)
		}
		sd.SignerInfos = append(sd.SignerInfos, *si)
	}
	return sd, nil
}

func (sd *SignedData) parseEncap(e TLV) error {
	if !e.IsUniversal(TagSequence) {
		return fmt.Errorf("cms: encapContentInfo is %s", e.Describe())
	}
	sd.BER = sd.BER || e.Indefinite || e.NonMinimalLength
	kids, err := e.Children()
	if err != nil {
		return err
	}
	if len(kids) < 1 || len(kids) > 2 {
		return fmt.Errorf("cms: encapContentInfo has %d fields", len(kids))
	}
	if sd.EContentType, err = kids[0].OID(); err != nil {
		return fmt.Errorf("cms: eContentType: %w", err)
	}
	if len(kids) == 1 {
		sd.Detached = true
		return nil
	}
	w := kids[1]
	if !w.IsContext(0) || !w.Constructed {
		return fmt.Errorf("cms: eContent wrapper is %s, not [0] EXPLICIT", w.Describe())
	}
	inner, err := w.Children()
	if err != nil {
		return err
	}
	if len(inner) != 1 {
		return fmt.Errorf("cms: eContent [0] holds %d elements", len(inner))
	}
	sd.EContent, sd.EContentInner = w, inner[0]
	sd.BER = sd.BER || w.Indefinite || w.NonMinimalLength
	if inner[0].IsUniversal(TagOctetString) {
		sd.EContentValueBytes, err = inner[0].OctetString()
		if err != nil {
			return fmt.Errorf("cms: eContent: %w", err)
		}
	} else {
		sd.EContentValueBytes = inner[0].Content
	}
	if sd.EContentValueBytes == nil {
		sd.EContentValueBytes = []byte{}
	}
	return nil
}

// parseAlgID splits AlgorithmIdentifier ::= SEQUENCE { OID, ANY OPTIONAL }.
func parseAlgID(t TLV) (oid string, params TLV, err error) {
	if !t.IsUniversal(TagSequence) {
		return "", TLV{}, fmt.Errorf("AlgorithmIdentifier is %s at offset %d", t.Describe(), t.Offset)
	}
	kids, err := t.Children()
	if err != nil {
		return "", TLV{}, err
	}
	if len(kids) < 1 || len(kids) > 2 {
		return "", TLV{}, fmt.Errorf("AlgorithmIdentifier has %d fields at offset %d", len(kids), t.Offset)
	}
	if oid, err = kids[0].OID(); err != nil {
		return "", TLV{}, err
	}
	if len(kids) == 2 {
		params = kids[1]
	}
	return oid, params, nil
}

func parseAttributes(set TLV) ([]Attribute, error) {
	kids, err := set.Children()
	if err != nil {
		return nil, err
	}
	out := make([]Attribute, 0, len(kids))
	for _, k := range kids {
		if !k.IsUniversal(TagSequence) {
			return nil, fmt.Errorf("attribute at offset %d is %s", k.Offset, k.Describe())
		}
		f, err := k.Children()
		if err != nil {
			return nil, err
		}
		if len(f) != 2 || !f[1].IsUniversal(TagSet) {
			return nil, fmt.Errorf("attribute at offset %d is not {OID, SET}", k.Offset)
		}
		oid, err := f[0].OID()
		if err != nil {
			return nil, err
		}
		vals, err := f[1].Children()
		if err != nil {
			return nil, err
		}
		out = append(out, Attribute{OID: oid, Values: vals, Raw: k.Raw, Offset: k.Offset})
	}
	return out, nil
}

// ParseSignerInfo parses a stand-alone SignerInfo (e.g. the value of a
// PKCS#9 countersignature attribute).
func ParseSignerInfo(b []byte) (*SignerInfo, error) {
	t, err := ParseAll(b)
	if err != nil {
		return nil, err
	}
	return ParseSignerInfoTLV(t)
}

// ParseSignerInfoTLV parses a SignerInfo element keeping its offsets.
func ParseSignerInfoTLV(t TLV) (*SignerInfo, error) {
	if !t.IsUniversal(TagSequence) {
		return nil, fmt.Errorf("SignerInfo is %s", t.Describe())
	}
	k, err := t.Children()
	if err != nil {
		return nil, err
	}
	if len(k) < 5 {
		return nil, fmt.Errorf("SignerInfo has %d fields, need at least 5", len(k))
	}
	si := &SignerInfo{Raw: t.Raw, Offset: t.Offset}
	if si.Version, err = k[0].SmallInt(); err != nil {
		return nil, fmt.Errorf("SignerInfo.version: %w", err)
	}
	si.SID = k[1]
	switch {
	case k[1].IsUniversal(TagSequence):
		f, err := k[1].Children()
		if err != nil {
			return nil, err
		}
		if len(f) != 2 || !f[0].IsUniversal(TagSequence) {
			return nil, errors.New("SignerInfo.sid: malformed IssuerAndSerialNumber")
		}
		si.IssuerRaw = f[0].Raw
		if si.Serial, err = f[1].Int(); err != nil {
			return nil, fmt.Errorf("SignerInfo.sid serial: %w", err)
		}
	case k[1].IsContext(0):
		// [0] IMPLICIT OCTET STRING
		ski := k[1]
		ski.Class, ski.Tag = ClassUniversal, TagOctetString
		if si.SKI, err = ski.OctetString(); err != nil {
			return nil, fmt.Errorf("SignerInfo.sid SKI: %w", err)
		}
		if si.SKI == nil {
			si.SKI = []byte{}
		}
	default:
		return nil, fmt.Errorf("SignerInfo.sid is %s", k[1].Describe())
	}
	if si.DigestAlgOID, si.DigestAlgParams, err = parseAlgID(k[2]); err != nil {
		return nil, fmt.Errorf("SignerInfo.digestAlgorithm: %w", err)
	}
	i := 3
	if k[i].IsContext(0) {
		if !k[i].Constructed {
			return nil, errors.New("SignerInfo.signedAttrs is primitive")
		}
		si.SignedAttrsTLV, si.SignedAttrsRaw = k[i], k[i].Raw
		if si.SignedAttrs, err = parseAttributes(k[i]); err != nil {
			return nil, fmt.Errorf("SignerInfo.signedAttrs: %w", err)
		}
		i++
	}
	if i+1 >= len(k) {
		return nil, errors.New("SignerInfo: missing signatureAlgorithm/signature")
	}
	if si.SigAlgOID, si.SigAlgParams, err = parseAlgID(k[i]); err != nil {
		return nil, fmt.Errorf("SignerInfo.signatureAlgorithm: %w", err)
	}
	i++
	if si.Signature, err = k[i].OctetString(); err != nil {
		return nil, fmt.Errorf("SignerInfo.signature: %w", err)
	}
	si.SignatureTLV = k[i]
	i++
	if i < len(k) && k[i].IsContext(1) {
		if !k[i].Constructed {
			return nil, errors.New("SignerInfo.unsignedAttrs is primitive")
		}
		si.UnsignedAttrsTLV, si.UnsignedAttrsRaw = k[i], k[i].Raw
		if si.UnsignedAttrs, err = parseAttributes(k[i]); err != nil {
			return nil, fmt.Errorf("SignerInfo.unsignedAttrs: %w", err)
		}
		i++
	}
	if i != len(k) {
		return nil, fmt.Errorf("SignerInfo: %d unexpected trailing fields", len(k)-i)
	}
	return si, nil
}

// SignedAttr returns all signed attributes with the given OID.
func (si *SignerInfo) SignedAttr(oid string) []Attribute { return filterAttrs(si.SignedAttrs, oid) }

// UnsignedAttr returns all unsigned attributes with the given OID.
func (si *SignerInfo) UnsignedAttr(oid string) []Attribute {
	return filterAttrs(si.UnsignedAttrs, oid)
}

func filterAttrs(attrs []Attribute, oid string) []Attribute {
	var out []Attribute
	for _, a := range attrs {
		if a.OID == oid {
			out = append(out, a)
		}
	}
	return out
}

// SigningTime returns the signing-time signed attribute if exactly one
// well-formed one is present.
func (si *SignerInfo) SigningTime() (t TLV, ok bool) {
	a := si.SignedAttr(OIDAttrSigningTime)
	if len(a) != 1 || len(a[0].Values) != 1 {
		return TLV{}, false
	}
	return a[0].Values[0], true
}

func (si *SignerInfo) timestampValueTLVs() []TLV {
	var out []TLV
	for _, a := range si.UnsignedAttrs {
		if a.OID == OIDAttrTimeStampToken || a.OID == OIDAttrMSTimeStampToken {
			out = append(out, a.Values...)
		}
	}
	return out
}

// TimestampTokens returns the raw RFC 3161 TimeStampToken values (each a
// ContentInfo) found in the unsigned attributes under either the RFC 3161
// or the Microsoft OID, in encoded order.
func (si *SignerInfo) TimestampTokens() [][]byte {
	var out [][]byte
	for _, v := range si.timestampValueTLVs() {
		out = append(out, v.Raw)
	}
	return out
}

func (si *SignerInfo) countersignatureTLVs() []TLV {
	var out []TLV
	for _, a := range si.UnsignedAttr(OIDAttrCounterSignature) {
		out = append(out, a.Values...)
	}
	return out
}

// Countersignatures returns the parsed PKCS#9 countersignature values found
// in the unsigned attributes; unparsable values are skipped (use
// CountersignaturesErr to see why).
func (si *SignerInfo) Countersignatures() []SignerInfo {
	out, _ := si.CountersignaturesErr()
	return out
}

// CountersignaturesErr is Countersignatures that also reports the first parse
// failure.
func (si *SignerInfo) CountersignaturesErr() ([]SignerInfo, error) {
	var out []SignerInfo
	var first error
	for _, v := range si.countersignatureTLVs() {
		cs, err := ParseSignerInfoTLV(v)
		if err != nil {
			if first == nil {
				first = fmt.Errorf("countersignature at offset %d: %w", v.Offset, err)
			}
			continue
		}
		out = append(out, *cs)
	}
	return out, first
}

// Region is a byte range of SignedData.Raw.
type Region struct {
	Offset, Len int
	Label       string
}

// Bytes returns the region's bytes out of the top-level input.
func (r Region) Bytes(top []byte) []byte { return top[r.Offset : r.Offset+r.Len] }

func regionOf(b []byte, off int, label string) Region {
	return Region{Offset: off, Len: len(b), Label: label}
}

// SignedRegions lists every byte range that is covered by some signature or
// digest and therefore has to survive any re-encoding bit-exactly:
//
//   - the digested eContent octets (one region per segment for a BER
//     constructed OCTET STRING),
//   - each signedAttrs element (the whole [0] element; byte 0 is 0xA0 in the
//     file and 0x31 under the signature),
//   - each certificate and CRL,
//   - the signature value of every SignerInfo that carries a countersignature
//     or timestamp (it is the countersigned / imprinted message),
//   - recursively the same for every timestamp token and countersignature
//     nested in unsigned attributes.
//
// Offsets are relative to sd.Raw[0] (for a nested SignedData parsed through
// ParseSignedDataTLV: relative to the outermost input).
func (sd *SignedData) SignedRegions() []Region { return sd.regions("") }

func (sd *SignedData) regions(prefix string) []Region {
	var out []Region
	if !sd.Detached {
		if sd.EContentInner.IsUniversal(TagOctetString) {
			segs, _ := sd.EContentInner.octetSegments(0)
			for i, s := range segs {
				label := prefix + "eContent"
				if len(segs) > 1 {
					label = fmt.Sprintf("%seContent.segment[%d]", prefix, i)
				}
				out = append(out, regionOf(s.Content, s.Offset+len(s.Header), label))
			}
		} else {
			in := sd.EContentInner
			out = append(out, regionOf(in.Content, in.Offset+len(in.Header), prefix+"eContent"))
		}
	}
	for i, c := range sd.Certificates {
		out = append(out, regionOf(c.Raw, c.Offset, fmt.Sprintf("%scertificates[%d]", prefix, i)))
	}
	for i, c := range sd.CRLs {
		out = append(out, regionOf(c.Raw, c.Offset, fmt.Sprintf("%scrls[%d]", prefix, i)))
	}
	for i := range sd.SignerInfos {
		out = append(out, sd.SignerInfos[i].regions(fmt.Sprintf("%ssignerInfos[%d].", prefix, i))...)
	}
	return out
}

func (si *SignerInfo) regions(prefix string) []Region {
	var out []Region
	if si.SignedAttrsRaw != nil {
		out = append(out, regionOf(si.SignedAttrsRaw, si.SignedAttrsTLV.Offset, prefix+"signedAttrs"))
	}
	tokens := si.timestampValueTLVs()
	cs := si.countersignatureTLVs()
	if len(tokens)+len(cs) > 0 {
		for i, s := range mustSegments(si.SignatureTLV) {
			_ = i
			out = append(out, regionOf(s.Content, s.Offset+len(s.Header), prefix+"signature"))
		}
	}
	for i, v := range tokens {
		p := fmt.Sprintf("%stimestampToken[%d].", prefix, i)
		nested, err := ParseSignedDataTLV(v)
		if err != nil {
			// Unparsable: the safest statement is "the whole value".
			out = append(out, regionOf(v.Raw, v.Offset, p+"opaque"))
			continue
		}
		out = append(out, nested.regions(p)...)
	}
	for i, v := range cs {
		p := fmt.Sprintf("%scounterSignature[%d].", prefix, i)
		nested, err := ParseSignerInfoTLV(v)
		if err != nil {
			out = append(out, regionOf(v.Raw, v.Offset, p+"opaque"))
			continue
		}
		out = append(out, nested.regions(p)...)
	}
	return out
}

func mustSegments(t TLV) []TLV {
	segs, err := t.octetSegments(0)
	if err != nil {
		return []TLV{t}
	}
	return segs
}
