// Package der is the independent oracle side of the relic verification
// harness: a raw BER/DER TLV walker plus a CMS SignedData inspector and
// verifier written directly from RFC 5652 / RFC 2315 / RFC 3161.
//
// It deliberately imports nothing from github.com/sassoftware/relic.
package der

import (
	"errors"
	"fmt"
	"math/big"
	"strconv"
	"strings"
	"time"
)

// ASN.1 tag classes.
const (
	ClassUniversal   = 0
	ClassApplication = 1
	ClassContext     = 2
	ClassPrivate     = 3
)

// Universal tag numbers used by this package.
const (
	TagBoolean         = 1
	TagInteger         = 2
	TagBitString       = 3
	TagOctetString     = 4
	TagNull            = 5
	TagOID             = 6
	TagUTF8String      = 12
	TagSequence        = 16
	TagSet             = 17
	TagPrintableString = 19
	TagIA5String       = 22
	TagUTCTime         = 23
	TagGeneralizedTime = 24
	TagBMPString       = 30
)

const maxDepth = 96

// TLV is one BER/DER element.
type TLV struct {
	Class       int
	Constructed bool
	Tag         int
	// Header is identifier+length octets, Content the content octets (for the
	// indefinite form: without the end-of-contents marker), Raw everything
	// (for the indefinite form: including the end-of-contents marker).
	Header, Content, Raw []byte
	// Offset of Raw[0] within the top-level input handed to Parse.
	Offset int
	// Indefinite is set for the BER indefinite length form (0x80).
	Indefinite bool
	// NonMinimalLength is set when a long-form length was used where a
	// shorter encoding exists (leading zero octet, or long form for < 128).
	NonMinimalLength bool
	// NonMinimalTag is set for a high-tag-number form that was not needed or
	// has a leading 0x80 octet.
	NonMinimalTag bool
}

// Parse reads one element from the start of b and returns the remainder.
func Parse(b []byte) (TLV, []byte, error) {
	t, n, err := parseAt(b, 0, 0)
	if err != nil {
		return TLV{}, nil, err
	}
	return t, b[n:], nil
}

// ParseAll parses exactly one element and fails on trailing bytes.
func ParseAll(b []byte) (TLV, error) {
	t, rest, err := Parse(b)
	if err != nil {
		return TLV{}, err
	}
	if len(rest) != 0 {
		return TLV{}, fmt.Errorf("der: %d trailing bytes after element", len(rest))
	}
	return t, nil
}

func parseAt(b []byte, base, depth int) (TLV, int, error) {
	if depth > maxDepth {
		return TLV{}, 0, errors.New("der: nesting too deep")
	}
	if len(b) < 2 {
		return TLV{}, 0, fmt.Errorf("der: truncated header at offset %d", base)
	}
	var t TLV
	t.Offset = base
	t.Class = int(b[0] >> 6)
	t.Constructed = b[0]&0x20 != 0
	t.Tag = int(b[0] & 0x1f)
	i := 1
	if t.Tag == 0x1f {
		tag := 0
		n := 0
		for {
			if i >= len(b) {
				return TLV{}, 0, fmt.Errorf("der: truncated high tag at offset %d", base)
			}
			c := b[i]
			i++
			if n == 0 && c == 0x80 {
				t.NonMinimalTag = true
			}
			n++
			if n > 4 {
				return TLV{}, 0, fmt.Errorf("der: tag number too large at offset %d", base)
			}
			tag = tag<<7 | int(c&0x7f)
			if c&0x80 == 0 {
				break
			}
		}
		if tag < 0x1f {
			t.NonMinimalTag = true
		}
		t.Tag = tag
	}
	if i >= len(b) {
		return TLV{}, 0, fmt.Errorf("der: truncated length at offset %d", base)
	}
	l := b[i]
	i++
	switch {
	case l < 0x80:
		hl := i
		end := hl + int(l)
		if end > len(b) {
			return TLV{}, 0, fmt.Errorf("der: element at offset %d: length %d exceeds input (%d left)", base, l, len(b)-hl)
		}
		t.Header, t.Content, t.Raw = b[:hl:hl], b[hl:end:end], b[:end:end]
		return t, end, nil
	case l == 0x80:
		if !t.Constructed {
			return TLV{}, 0, fmt.Errorf("der: indefinite length on primitive element at offset %d", base)
		}
		t.Indefinite = true
		hl := i
		pos := hl
		for {
			if pos+2 <= len(b) && b[pos] == 0 && b[pos+1] == 0 {
				break
			}
			if pos >= len(b) {
				return TLV{}, 0, fmt.Errorf("der: missing end-of-contents for element at offset %d", base)
			}
			_, n, err := parseAt(b[pos:], base+pos, depth+1)
			if err != nil {
				return TLV{}, 0, err
			}
			pos += n
		}
		t.Header, t.Content, t.Raw = b[:hl:hl], b[hl:pos:pos], b[:pos+2:pos+2]
		return t, pos + 2, nil
	default:
		n := int(l & 0x7f)
		if l == 0xff {
			return TLV{}, 0, fmt.Errorf("der: reserved length octet 0xff at offset %d", base)
		}
		if i+n > len(b) {
			return TLV{}, 0, fmt.Errorf("der: truncated long-form length at offset %d", base)
		}
		if n > 8 {
			return TLV{}, 0, fmt.Errorf("der: length of length %d unsupported at offset %d", n, base)
		}
		var v uint64
		for _, c := range b[i : i+n] {
			v = v<<8 | uint64(c)
		}
		if b[i] == 0 || v < 0x80 {
			t.NonMinimalLength = true
		}
		hl := i + n
		if v > uint64(len(b)-hl) {
			return TLV{}, 0, fmt.Errorf("der: element at offset %d: length %d exceeds input (%d left)", base, v, len(b)-hl)
		}
		end := hl + int(v)
		t.Header, t.Content, t.Raw = b[:hl:hl], b[hl:end:end], b[:end:end]
		return t, end, nil
	}
}

// Children parses the content octets of a constructed element.
func (t TLV) Children() ([]TLV, error) {
	if !t.Constructed {
		return nil, fmt.Errorf("der: element at offset %d (%s) is primitive", t.Offset, t.Describe())
	}
	return parseSeries(t.Content, t.Offset+len(t.Header))
}

// parseSeries parses back-to-back elements that fill b entirely.
func parseSeries(b []byte, base int) ([]TLV, error) {
	var out []TLV
	pos := 0
	for pos < len(b) {
		c, n, err := parseAt(b[pos:], base+pos, 1)
		if err != nil {
			return nil, err
		}
		out = append(out, c)
		pos += n
	}
	return out, nil
}

// IsZero reports whether t is the zero TLV (absent optional element).
func (t TLV) IsZero() bool { return t.Raw == nil }

// Is reports whether t has the given class and tag number.
func (t TLV) Is(class, tag int) bool { return !t.IsZero() && t.Class == class && t.Tag == tag }

// IsUniversal reports whether t is UNIVERSAL with the given tag number.
func (t TLV) IsUniversal(tag int) bool { return t.Is(ClassUniversal, tag) }

// IsContext reports whether t is context-specific with the given tag number.
func (t TLV) IsContext(tag int) bool { return t.Is(ClassContext, tag) }

// Describe returns a short human readable identifier such as "[0] cons".
func (t TLV) Describe() string {
	if t.IsZero() {
		return "<absent>"
	}
	cls := [...]string{"UNIVERSAL ", "APPLICATION ", "", "PRIVATE "}[t.Class]
	pc := "prim"
	if t.Constructed {
		pc = "cons"
	}
	if t.Class == ClassContext {
		return fmt.Sprintf("[%d] %s", t.Tag, pc)
	}
	return fmt.Sprintf("%s%d %s", cls, t.Tag, pc)
}

// DeepDER reports whether t and everything below it uses definite, minimal
// lengths and minimal tags. It does not check SET OF ordering or value
// canonicalisation.
func (t TLV) DeepDER() bool {
	if t.Indefinite || t.NonMinimalLength || t.NonMinimalTag {
		return false
	}
	if !t.Constructed {
		return true
	}
	kids, err := t.Children()
	if err != nil {
		return false
	}
	for _, k := range kids {
		if !k.DeepDER() {
			return false
		}
	}
	return true
}

// OID decodes an OBJECT IDENTIFIER into dotted form.
func (t TLV) OID() (string, error) {
	if !t.IsUniversal(TagOID) || t.Constructed {
		return "", fmt.Errorf("der: expected OBJECT IDENTIFIER at offset %d, got %s", t.Offset, t.Describe())
	}
	return DecodeOID(t.Content)
}

// DecodeOID decodes OBJECT IDENTIFIER content octets into dotted form.
func DecodeOID(c []byte) (string, error) {
	if len(c) == 0 {
		return "", errors.New("der: empty OBJECT IDENTIFIER")
	}
	if c[len(c)-1]&0x80 != 0 {
		return "", errors.New("der: truncated OBJECT IDENTIFIER")
	}
	var sb strings.Builder
	first := true
	v := new(big.Int)
	startArc := true
	for _, b := range c {
		if startArc && b == 0x80 {
			return "", errors.New("der: non-minimal OBJECT IDENTIFIER arc")
		}
		startArc = false
		v.Lsh(v, 7)
		v.Or(v, big.NewInt(int64(b&0x7f)))
		if b&0x80 != 0 {
			continue
		}
		if first {
			first = false
			switch {
			case v.Cmp(big.NewInt(40)) < 0:
				sb.WriteString("0." + v.String())
			case v.Cmp(big.NewInt(80)) < 0:
				sb.WriteString("1." + new(big.Int).Sub(v, big.NewInt(40)).String())
			default:
				sb.WriteString("2." + new(big.Int).Sub(v, big.NewInt(80)).String())
			}
		} else {
			sb.WriteByte('.')
			sb.WriteString(v.String())
		}
		v = new(big.Int)
		startArc = true
	}
	return sb.String(), nil
}

// Int decodes an INTEGER (two's complement, arbitrary size).
func (t TLV) Int() (*big.Int, error) {
	if !t.IsUniversal(TagInteger) || t.Constructed {
		return nil, fmt.Errorf("der: expected INTEGER at offset %d, got %s", t.Offset, t.Describe())
	}
	return decodeInt(t.Content)
}

func decodeInt(c []byte) (*big.Int, error) {
	if len(c) == 0 {
		return nil, errors.New("der: empty INTEGER")
	}
	v := new(big.Int).SetBytes(c)
	if c[0]&0x80 != 0 {
		v.Sub(v, new(big.Int).Lsh(big.NewInt(1), uint(8*len(c))))
	}
	return v, nil
}

// SmallInt decodes an INTEGER that must fit an int.
func (t TLV) SmallInt() (int, error) {
	v, err := t.Int()
	if err != nil {
		return 0, err
	}
	if !v.IsInt64() || v.Int64() != int64(int(v.Int64())) {
		return 0, fmt.Errorf("der: INTEGER at offset %d out of range", t.Offset)
	}
	return int(v.Int64()), nil
}

// OctetString returns the value octets of an OCTET STRING. The BER
// constructed form (segments, possibly nested, possibly indefinite) is
// flattened.
func (t TLV) OctetString() ([]byte, error) {
	if !t.IsUniversal(TagOctetString) {
		return nil, fmt.Errorf("der: expected OCTET STRING at offset %d, got %s", t.Offset, t.Describe())
	}
	segs, err := t.octetSegments(0)
	if err != nil {
		return nil, err
	}
	if len(segs) == 1 {
		return segs[0].Content, nil
	}
	var out []byte
	for _, s := range segs {
		out = append(out, s.Content...)
	}
	if out == nil {
		out = []byte{}
	}
	return out, nil
}

// octetSegments returns the primitive OCTET STRING leaves of t in order.
func (t TLV) octetSegments(depth int) ([]TLV, error) {
	if !t.Constructed {
		return []TLV{t}, nil
	}
	if depth > 8 {
		return nil, errors.New("der: constructed OCTET STRING nested too deep")
	}
	kids, err := t.Children()
	if err != nil {
		return nil, err
	}
	var out []TLV
	for _, k := range kids {
		if !k.IsUniversal(TagOctetString) {
			return nil, fmt.Errorf("der: constructed OCTET STRING contains %s at offset %d", k.Describe(), k.Offset)
		}
		s, err := k.octetSegments(depth + 1)
		if err != nil {
			return nil, err
		}
		out = append(out, s...)
	}
	return out, nil
}

// Bool decodes a BOOLEAN.
func (t TLV) Bool() (bool, error) {
	if !t.IsUniversal(TagBoolean) || len(t.Content) != 1 {
		return false, fmt.Errorf("der: expected BOOLEAN at offset %d, got %s", t.Offset, t.Describe())
	}
	return t.Content[0] != 0, nil
}

// Time decodes a UTCTime or GeneralizedTime.
func (t TLV) Time() (time.Time, error) {
	s := string(t.Content)
	switch {
	case t.IsUniversal(TagUTCTime):
		return parseUTCTime(s)
	case t.IsUniversal(TagGeneralizedTime):
		return parseGeneralizedTime(s)
	}
	return time.Time{}, fmt.Errorf("der: expected UTCTime/GeneralizedTime at offset %d, got %s", t.Offset, t.Describe())
}

func allDigits(s string) bool {
	for _, c := range s {
		if c < '0' || c > '9' {
			return false
		}
	}
	return len(s) > 0
}

func parseZone(s string) (*time.Location, error) {
	if s == "Z" {
		return time.UTC, nil
	}
	if len(s) == 5 && (s[0] == '+' || s[0] == '-') && allDigits(s[1:]) {
		h, _ := strconv.Atoi(s[1:3])
		m, _ := strconv.Atoi(s[3:5])
		off := h*3600 + m*60
		if s[0] == '-' {
			off = -off
		}
		return time.FixedZone("", off), nil
	}
	return nil, fmt.Errorf("der: bad time zone %q", s)
}

func parseUTCTime(s string) (time.Time, error) {
	// YYMMDDhhmm[ss](Z|+hhmm|-hhmm)
	n := 0
	for n < len(s) && s[n] >= '0' && s[n] <= '9' {
		n++
	}
	if n != 10 && n != 12 {
		return time.Time{}, fmt.Errorf("der: bad UTCTime %q", s)
	}
	loc, err := parseZone(s[n:])
	if err != nil {
		return time.Time{}, err
	}
	f := func(i int) int { v, _ := strconv.Atoi(s[i : i+2]); return v }
	yy := f(0)
	if yy >= 50 {
		yy += 1900
	} else {
		yy += 2000
	}
	sec := 0
	if n == 12 {
		sec = f(10)
	}
	return buildTime(yy, f(2), f(4), f(6), f(8), sec, 0, loc, s)
}

func parseGeneralizedTime(s string) (time.Time, error) {
	// YYYYMMDDhh[mm[ss[.f+]]](Z|+hhmm|-hhmm|"")
	n := 0
	for n < len(s) && s[n] >= '0' && s[n] <= '9' {
		n++
	}
	if n != 10 && n != 12 && n != 14 {
		return time.Time{}, fmt.Errorf("der: bad GeneralizedTime %q", s)
	}
	f := func(i, l int) int { v, _ := strconv.Atoi(s[i : i+l]); return v }
	mi, sec, nanos := 0, 0, 0
	if n >= 12 {
		mi = f(10, 2)
	}
	if n == 14 {
		sec = f(12, 2)
	}
	rest := s[n:]
	if len(rest) > 0 && (rest[0] == '.' || rest[0] == ',') {
		m := 1
		for m < len(rest) && rest[m] >= '0' && rest[m] <= '9' {
			m++
		}
		frac := rest[1:m]
		if frac == "" || n != 14 {
			return time.Time{}, fmt.Errorf("der: bad GeneralizedTime fraction %q", s)
		}
		for len(frac) < 9 {
			frac += "0"
		}
		nanos, _ = strconv.Atoi(frac[:9])
		rest = rest[m:]
	}
	loc := time.UTC
	if rest != "" {
		var err error
		if loc, err = parseZone(rest); err != nil {
			return time.Time{}, err
		}
	}
	return buildTime(f(0, 4), f(4, 2), f(6, 2), f(8, 2), mi, sec, nanos, loc, s)
}

func buildTime(y, mo, d, h, mi, sec, nanos int, loc *time.Location, src string) (time.Time, error) {
	if mo < 1 || mo > 12 || d < 1 || d > 31 || h > 23 || mi > 59 || sec > 60 {
		return time.Time{}, fmt.Errorf("der: time out of range %q", src)
	}
	t := time.Date(y, time.Month(mo), d, h, mi, sec, nanos, loc)
	if t.Day() != d && sec != 60 {
		return time.Time{}, fmt.Errorf("der: invalid calendar date %q", src)
	}
	return t.UTC(), nil
}
