// Package c11entry runs one relic entry point on one input the way the C11 checks do:
// shared by the isolation child of props/c11 and the native fuzz target of props/c11f.
package c11entry

import (
	"bytes"
	"context"
	"crypto"
	"crypto/x509"
	"fmt"
	"io"
	"os"
	"path/filepath"
	"regexp"
	"runtime"
	"runtime/debug"
	"strings"

	"github.com/ProtonMail/go-crypto/openpgp"

	"github.com/sassoftware/relic/v8/cmdline/shared"
	"github.com/sassoftware/relic/v8/config"
	"github.com/sassoftware/relic/v8/internal/signinit"
	"github.com/sassoftware/relic/v8/lib/certloader"
	"github.com/sassoftware/relic/v8/lib/magic"
	"github.com/sassoftware/relic/v8/signers"
	"github.com/sassoftware/relic/v8/token/open"
	"github.com/sassoftware/relic/v8/xverif/pipe"
)

// Entries lists the entry points.
var Entries = []string{"verify", "issigned", "transform", "sign", "transform-sign", "magic", "certs"}

type Req struct {
	Entry   string `json:"entry"`
	SigType string `json:"sigtype"`
	Path    string `json:"path"`
	Name    string `json:"name"`
}

type Res struct {
	Status string `json:"status"` // ok | error | panic
	Err    string `json:"err,omitempty"`
	Site   string `json:"site,omitempty"`
	Stack  string `json:"stack,omitempty"`
	Alloc  uint64 `json:"alloc"`
	ASite  string `json:"alloc_site,omitempty"`
	CPUMs  int64  `json:"cpu_ms"`
}

var (
	Roots []*x509.Certificate
	Pgp   openpgp.EntityList
)

// Setup loads the relic configuration written by pipe.Setup and the trust material next to it.
func Setup(cfgPath string) (*config.Config, error) {
	cfg, err := config.ReadFile(cfgPath)
	if err != nil {
		return nil, err
	}
	shared.CurrentConfig = cfg
	cdir := filepath.Dir(cfgPath)
	blob, err := os.ReadFile(filepath.Join(cdir, "root.crt"))
	if err != nil {
		return nil, err
	}
	Roots, _ = certloader.ParseX509Certificates(blob)
	Pgp = nil
	for _, k := range pipe.SigningKeys {
		if blob, err := os.ReadFile(filepath.Join(cdir, k+".pgp")); err == nil {
			if el, err := openpgp.ReadArmoredKeyRing(bytes.NewReader(blob)); err == nil {
				Pgp = append(Pgp, el...)
			} else if el, err := openpgp.ReadKeyRing(bytes.NewReader(blob)); err == nil {
				Pgp = append(Pgp, el...)
			}
		}
	}
	if len(Roots) == 0 || len(Pgp) == 0 {
		return nil, fmt.Errorf("trust material missing")
	}
	return cfg, nil
}

// Run executes the entry point, turning a panic of the calling goroutine into a result.
func Run(cfg *config.Config, req Req) (res Res) {
	defer func() {
		if p := recover(); p != nil {
			st := string(debug.Stack())
			res = Res{Status: "panic", Err: fmt.Sprint(p), Site: SiteOf(AfterPanic(st)) + ":" + PanicKind(fmt.Sprint(p)), Stack: Trunc(st, 5000)}
		}
	}()
	if err := Do(cfg, req); err != nil {
		return Res{Status: "error", Err: Trunc(err.Error(), 300)}
	}
	return Res{Status: "ok"}
}

func Trunc(s string, n int) string {
	if len(s) > n {
		return s[:n] + "..."
	}
	return s
}

// Resource bounds (DESIGN.md 7, C11): generous fixed multiples of what valid input needs.
const (
	AllocBase   = 96 << 20
	AllocFactor = 512
	CPUBaseMs   = 15000
	CPUPerKiB   = 20
)

var PanicHead = regexp.MustCompile(`(?m)^(panic: .*|fatal error: .*|runtime: .*out of memory.*)$`)
var frameRe = regexp.MustCompile(`(?m)^(github\.com/sassoftware/relic/v8/[^\s(]+(?:\([^)]*\))?[^\s(]*)\(`)

// siteOf names the innermost relic frame of a Go traceback (function, not line).
func SiteOf(trace string) string {
	for _, m := range frameRe.FindAllStringSubmatch(trace, -1) {
		fn := strings.TrimPrefix(m[1], "github.com/sassoftware/relic/v8/")
		if strings.HasPrefix(fn, "xverif/") {
			continue
		}
		return fn
	}
	return "unknown"
}

// snapshotProfile maps allocation stacks to bytes allocated so far (allocations of
// MemProfileRate bytes or more are always sampled).
func SnapshotProfile() map[[32]uintptr]int64 {
	runtime.GC()
	runtime.GC()
	n, _ := runtime.MemProfile(nil, true)
	recs := make([]runtime.MemProfileRecord, n+64)
	n, ok := runtime.MemProfile(recs, true)
	if !ok {
		return nil
	}
	out := map[[32]uintptr]int64{}
	for _, r := range recs[:n] {
		out[r.Stack0] += r.AllocBytes
	}
	return out
}

// allocSite names the innermost relic function of the stack whose allocated bytes grew most.
func AllocSite(before map[[32]uintptr]int64) string {
	after := SnapshotProfile()
	var best [32]uintptr
	var bestGrowth int64
	for st, b := range after {
		if g := b - before[st]; g > bestGrowth {
			best, bestGrowth = st, g
		}
	}
	if bestGrowth == 0 {
		return "unknown"
	}
	n := 0
	for n < len(best) && best[n] != 0 {
		n++
	}
	frames := runtime.CallersFrames(best[:n])
	first := ""
	for {
		fr, more := frames.Next()
		if first == "" {
			first = fr.Function
		}
		if strings.HasPrefix(fr.Function, "github.com/sassoftware/relic/v8/") && !strings.Contains(fr.Function, "/xverif/") {
			fn := strings.TrimPrefix(fr.Function, "github.com/sassoftware/relic/v8/")
			return fn
		}
		if !more {
			break
		}
	}
	return "outside-relic:" + first
}

// afterPanic drops the frames above the panic call so the innermost faulting frame is first.
func AfterPanic(st string) string {
	if i := strings.Index(st, "\npanic("); i >= 0 {
		return st[i:]
	}
	return st
}

func PanicKind(msg string) string {
	switch {
	case strings.Contains(msg, "index out of range"):
		return "index"
	case strings.Contains(msg, "slice bounds out of range"):
		return "slice"
	case strings.Contains(msg, "nil pointer"):
		return "nil"
	case strings.Contains(msg, "makeslice") || strings.Contains(msg, "len out of range"):
		return "makeslice"
	case strings.Contains(msg, "divide by zero"):
		return "div0"
	case strings.Contains(msg, "negative"):
		return "negative"
	}
	return "other"
}

func Do(cfg *config.Config, req Req) error {
	mod := signers.ByName(req.SigType)
	switch req.Entry {
	case "magic":
		f, err := os.Open(req.Path)
		if err != nil {
			return err
		}
		defer f.Close()
		ft, _ := magic.DetectCompressed(f)
		if m := signers.ByMagic(ft); m == nil {
			signers.ByFileName(req.Name)
		}
		return nil
	case "certs":
		blob, err := os.ReadFile(req.Path)
		if err != nil {
			return err
		}
		_, err = certloader.ParseX509Certificates(blob)
		_, err2 := certloader.LoadTokenCertificates(nil, req.Path, "", nil)
		_, err3 := certloader.LoadTokenCertificates(nil, "", req.Path, nil)
		if err == nil {
			err = err2
		}
		if err == nil {
			err = err3
		}
		return err
	}
	if mod == nil {
		return fmt.Errorf("no module %q", req.SigType)
	}
	switch req.Entry {
	case "verify":
		_, err := pipe.VerifyRaw(&pipe.VerifyReq{SigType: req.SigType, Path: req.Path, Roots: Roots, PGP: Pgp})
		return err
	case "issigned":
		f, err := os.Open(req.Path)
		if err != nil {
			return err
		}
		defer f.Close()
		_, err = mod.IsSigned(f)
		return err
	case "transform":
		f, err := os.Open(req.Path)
		if err != nil {
			return err
		}
		defer f.Close()
		flags, _ := mod.FlagsFromQuery(nil)
		tr, err := mod.GetTransform(f, signers.SignOpts{Path: req.Path, Hash: crypto.SHA256, Flags: flags})
		if err != nil {
			return err
		}
		r, err := tr.GetReader()
		if err != nil {
			return err
		}
		defer closeReader(r)
		_, err = io.Copy(io.Discard, r)
		return err
	case "sign", "transform-sign":
		if mod.Sign == nil {
			return nil
		}
		f, err := os.Open(req.Path)
		if err != nil {
			return err
		}
		defer f.Close()
		flags, _ := mod.FlagsFromQuery(nil)
		var body io.Reader = f
		if req.Entry == "transform-sign" {
			tr, err := mod.GetTransform(f, signers.SignOpts{Path: req.Path, Hash: crypto.SHA256, Flags: flags})
			if err != nil {
				return err
			}
			if body, err = tr.GetReader(); err != nil {
				return err
			}
			// as the HTTP client does with a request body: closing it releases the producer
			defer closeReader(body)
		}
		keyName := "rsa2048a"
		kc, _ := cfg.GetKey(keyName)
		tok, err := open.Token(cfg, kc.Token, nil)
		if err != nil {
			return err
		}
		defer tok.Close()
		cert, opts, err := signinit.Init(context.Background(), mod, tok, keyName, crypto.SHA256, flags)
		if err != nil {
			return err
		}
		_, err = mod.Sign(body, cert, *opts)
		return err
	}
	return fmt.Errorf("unknown entry %q", req.Entry)
}

func closeReader(r io.Reader) {
	if c, ok := r.(io.Closer); ok {
		c.Close()
	}
}
