// C12 — binary patches apply exactly, in place or by rewrite.
//
// Domain: files x sequences of PatchSet.Add(offset, oldSize, blob) with pairwise
// disjoint ranges in arbitrary call order x {Dump->Load->Apply (the path every relic
// caller takes, through signers.ApplyBinPatch), direct Apply} x {same path, other
// path absent, other path pre-existing, hard-linked path, outpath ""}.
// Oracle: a harness-owned reference splice over the original bytes.
package c12

import (
	"bytes"
	"encoding/binary"
	"fmt"
	"os"
	"path/filepath"
	"sort"
	"sync"
	"sync/atomic"
	"testing"

	"github.com/sassoftware/relic/v8/lib/binpatch"
	"github.com/sassoftware/relic/v8/signers"
	"github.com/sassoftware/relic/v8/xverif/evid"
	"pgregory.net/rapid"
)

var rec = evid.New("C12")

func TestMain(m *testing.M) {
	rec.Rule("cases = (file bytes, Add-call sequence, apply mode, path mode); exhaustive small scope (file length <= L, <= 3 disjoint ranges, blob length <= 2, every call order) plus rapid-drawn larger cases, sparse >4 GiB removals and truncated/corrupted patch blobs; non-trivial = >= 2 patches with a size-changing patch or an adjacent pair (or a truncated/corrupt blob applied to a real target); distinct = distinct (file length, ranges, blobs, order, modes) tuples")
	rec.Assume("same-offset patches that are not consecutive Add calls are excluded (their relative order is unspecified: Dump uses an unstable sort)")
	rec.Assume("ranges lie within the file (what relic's builders produce)")
	evid.Main(m, rec)
}

type patch struct {
	Off, Old int64
	Blob     []byte
}

// reference splice: patches sorted by offset (stable in call order)
func splice(orig []byte, ps []patch) []byte {
	sorted := append([]patch(nil), ps...)
	sort.SliceStable(sorted, func(i, j int) bool { return sorted[i].Off < sorted[j].Off })
	var out []byte
	pos := int64(0)
	for _, p := range sorted {
		out = append(out, orig[pos:p.Off]...)
		out = append(out, p.Blob...)
		pos = p.Off + p.Old
	}
	out = append(out, orig[pos:]...)
	return out
}

const (
	pathSame = iota
	pathEmpty
	pathOtherAbsent
	pathOtherPresent
	pathHardlink
	pathSymlinkToInput // the destination name is a symbolic link to the input file
	pathOtherSpelling  // the destination is the input file, spelled differently (dir/sub/../in.bin)
	numPathModes
)

var pathModeNames = []string{"same", "emptyname", "other-absent", "other-present", "hardlink", "symlink-to-input", "same-file-other-spelling"}

type scratch struct {
	dir string
	n   int
}

func newScratch(t testing.TB) *scratch {
	d, err := os.MkdirTemp("", "c12-")
	if err != nil {
		t.Fatal(err)
	}
	return &scratch{dir: d}
}

func (s *scratch) cleanup() { os.RemoveAll(s.dir) }

func (s *scratch) sub() string {
	s.n++
	d := filepath.Join(s.dir, fmt.Sprint(s.n))
	if err := os.Mkdir(d, 0o755); err != nil {
		panic(err)
	}
	return d
}

// runApply applies ps (in the given call order) to a fresh copy of orig and
// returns an error string describing a disagreement with the reference, or "".
// mayFail: an explicit error is acceptable provided nothing was touched.
func runApply(s *scratch, orig []byte, ps []patch, viaDump bool, pathMode int, mayFail bool) string {
	dir := s.sub()
	defer os.RemoveAll(dir)
	inpath := filepath.Join(dir, "in.bin")
	if err := os.WriteFile(inpath, orig, 0o644); err != nil {
		panic(err)
	}
	outpath := inpath
	linkpath := filepath.Join(dir, "link.bin")
	oldOut := []byte("previous destination content")
	switch pathMode {
	case pathEmpty:
		outpath = ""
	case pathOtherAbsent:
		outpath = filepath.Join(dir, "out.bin")
	case pathOtherPresent:
		outpath = filepath.Join(dir, "out.bin")
		if err := os.WriteFile(outpath, oldOut, 0o644); err != nil {
			panic(err)
		}
	case pathHardlink:
		if err := os.Link(inpath, linkpath); err != nil {
			panic(err)
		}
	case pathSymlinkToInput:
		outpath = filepath.Join(dir, "out.bin")
		if err := os.Symlink(inpath, outpath); err != nil {
			panic(err)
		}
	case pathOtherSpelling:
		os.Mkdir(filepath.Join(dir, "sub"), 0o755)
		outpath = dir + "/sub/../in.bin"
	}
	set := binpatch.New()
	for _, p := range ps {
		set.Add(p.Off, p.Old, p.Blob)
	}
	// as the command line opens it (shared.OpenForPatching): writable only when the output
	// path is, as a string, the input path
	flag := os.O_RDONLY
	if outpath == inpath || outpath == "" {
		flag = os.O_RDWR
	}
	f, err := os.OpenFile(inpath, flag, 0)
	if err != nil {
		panic(err)
	}
	defer f.Close()
	if viaDump {
		err = signers.ApplyBinPatch(f, outpath, bytes.NewReader(set.Dump()))
	} else {
		err = set.Apply(f, outpath)
	}
	want := splice(orig, ps)
	final := outpath
	if final == "" {
		final = inpath
	}
	if err != nil {
		if !mayFail {
			return fmt.Sprintf("apply failed: %v", err)
		}
		// refused: nothing may have been touched
		if got, _ := os.ReadFile(inpath); !bytes.Equal(got, orig) {
			return fmt.Sprintf("apply failed (%v) but input changed to %q", err, got)
		}
		switch pathMode {
		case pathOtherAbsent:
			if _, e := os.Stat(outpath); e == nil {
				return fmt.Sprintf("apply failed (%v) but output was created", err)
			}
		case pathOtherPresent:
			if got, _ := os.ReadFile(outpath); !bytes.Equal(got, oldOut) {
				return fmt.Sprintf("apply failed (%v) but output changed", err)
			}
		}
		return leftovers(dir, pathMode)
	}
	if st, serr := os.Stat(final); serr == nil && st.Size() != int64(len(want)) {
		// compare sizes first: a wrong size may be gigabytes of sparse file
		return fmt.Sprintf("output is %d bytes long, want %d (%q)", st.Size(), len(want), clip(want))
	}
	got, rerr := os.ReadFile(final)
	if rerr != nil {
		return fmt.Sprintf("output unreadable: %v", rerr)
	}
	if !bytes.Equal(got, want) {
		return fmt.Sprintf("output %q want %q", clip(got), clip(want))
	}
	switch pathMode {
	case pathOtherAbsent, pathOtherPresent, pathSymlinkToInput:
		if in, _ := os.ReadFile(inpath); !bytes.Equal(in, orig) {
			return fmt.Sprintf("input file modified while writing to another path (%s): %q", pathModeNames[pathMode], clip(in))
		}
	case pathHardlink:
		if in, _ := os.ReadFile(linkpath); !bytes.Equal(in, orig) {
			return fmt.Sprintf("other hard link modified: %q", clip(in))
		}
	}
	return leftovers(dir, pathMode)
}

func clip(b []byte) []byte {
	if len(b) > 80 {
		return append(append([]byte{}, b[:80]...), "..."...)
	}
	return b
}

func leftovers(dir string, pathMode int) string {
	ents, _ := os.ReadDir(dir)
	for _, e := range ents {
		switch e.Name() {
		case "in.bin", "out.bin", "link.bin", "sub":
		default:
			return "leftover file " + e.Name()
		}
	}
	return ""
}

func nontrivial(ps []patch) bool {
	if len(ps) < 2 {
		return false
	}
	sorted := append([]patch(nil), ps...)
	sort.SliceStable(sorted, func(i, j int) bool { return sorted[i].Off < sorted[j].Off })
	for i, p := range sorted {
		if p.Old != int64(len(p.Blob)) {
			return true
		}
		if i > 0 && sorted[i-1].Off+sorted[i-1].Old == p.Off {
			return true
		}
	}
	return false
}

func key(l int, ps []patch, viaDump bool, pm int) string {
	return fmt.Sprintf("%d|%v|%v|%d", l, ps, viaDump, pm)
}

func isIncreasing(ps []patch) bool {
	for i := 1; i < len(ps); i++ {
		if ps[i].Off < ps[i-1].Off+ps[i-1].Old {
			return false
		}
	}
	return true
}

// hasSameOffsetPair: two patches at one offset (only meaningful if they are
// consecutive calls in increasing order, where they coalesce).
func hasSameOffsetPair(sorted []patch) bool {
	for i := 1; i < len(sorted); i++ {
		if sorted[i].Off == sorted[i-1].Off {
			return true
		}
	}
	return false
}

func permutations(n int) [][]int {
	var out [][]int
	var rec func(cur []int, used int)
	rec = func(cur []int, used int) {
		if len(cur) == n {
			out = append(out, append([]int(nil), cur...))
			return
		}
		for i := 0; i < n; i++ {
			if used&(1<<i) == 0 {
				rec(append(cur, i), used|1<<i)
			}
		}
	}
	rec(nil, 0)
	return out
}

// TestC12_Exhaustive enumerates the complete small scope (16 workers).
func TestC12_Exhaustive(t *testing.T) {
	maxLen := evid.EnvInt("VERIF_C12_MAXLEN", 5)
	blobs := [][][]byte{
		{nil, []byte("A"), []byte("AB")},
		{nil, []byte("C"), []byte("CD")},
		{nil, []byte("E"), []byte("EF")},
	}
	type task struct {
		orig   []byte
		ranges [][2]int64
	}
	tasks := make(chan task, 256)
	var total, failed int64
	var wg sync.WaitGroup
	for w := 0; w < 16; w++ {
		wg.Add(1)
		go func() {
			defer wg.Done()
			s := newScratch(t)
			defer s.cleanup()
			for tk := range tasks {
				if atomic.LoadInt64(&failed) > 5 {
					continue
				}
				enumerateBlobs(t, s, tk.orig, tk.ranges, blobs, &total, &failed)
			}
		}()
	}
	for l := 0; l <= maxLen; l++ {
		orig := make([]byte, l)
		for i := range orig {
			orig[i] = byte('0' + i)
		}
		// enumerate sorted range lists of length 0..3 with next.off >= prev.end
		var ranges [][2]int64
		var walk func(start int64, depth int)
		walk = func(start int64, depth int) {
			tasks <- task{orig, append([][2]int64(nil), ranges...)}
			if depth == 3 {
				return
			}
			for off := start; off <= int64(l); off++ {
				for old := int64(0); off+old <= int64(l); old++ {
					ranges = append(ranges, [2]int64{off, old})
					walk(off+old, depth+1)
					ranges = ranges[:len(ranges)-1]
				}
			}
		}
		walk(0, 0)
	}
	close(tasks)
	wg.Wait()
	rec.Set("exhaustive_max_file_len", maxLen)
	rec.Set("exhaustive_cases", total)
	rec.Exhaustive(failed == 0)
}

func enumerateBlobs(t *testing.T, s *scratch, orig []byte, ranges [][2]int64, blobs [][][]byte, total, failed *int64) {
	n := len(ranges)
	idx := make([]int, n)
	for {
		sorted := make([]patch, n)
		for i := range ranges {
			sorted[i] = patch{ranges[i][0], ranges[i][1], blobs[i][idx[i]]}
		}
		perms := permutations(n)
		if hasSameOffsetPair(sorted) {
			perms = perms[:1] // only the increasing call order is specified
		}
		for _, perm := range perms {
			ps := make([]patch, n)
			for i, j := range perm {
				ps[i] = sorted[j]
			}
			inc := isIncreasing(ps)
			for pm := 0; pm < numPathModes; pm++ {
				for _, viaDump := range []bool{true, false} {
					atomic.AddInt64(total, 1)
					nt := nontrivial(ps)
					rec.Case(key(len(orig), ps, viaDump, pm), fmt.Sprintf("exh/n=%d/%s/dump=%v", n, pathModeNames[pm], viaDump), nt)
					if nt && n == 3 {
						rec.Sample(fmt.Sprintf("exh/%s/%v", pathModeNames[pm], viaDump), map[string]any{"file": string(orig), "adds": render(ps), "via_dump_load": viaDump, "path_mode": pathModeNames[pm]})
					}
					// direct Apply of a set built out of order may refuse ("patches out of order")
					mayFail := !viaDump && !inc
					if msg := runApply(s, orig, ps, viaDump, pm, mayFail); msg != "" {
						nf := atomic.AddInt64(failed, 1)
						c := map[string]any{"file": string(orig), "adds": render(ps), "via_dump_load": viaDump, "path_mode": pathModeNames[pm], "error": msg}
						evid.SaveCase("TestC12_Exhaustive", c)
						t.Errorf("file %q adds %v dump=%v path=%s: %s", orig, render(ps), viaDump, pathModeNames[pm], msg)
						if nf > 5 {
							return
						}
					}
				}
			}
		}
		// next blob combination
		i := 0
		for ; i < n; i++ {
			idx[i]++
			if idx[i] < len(blobs[i]) {
				break
			}
			idx[i] = 0
		}
		if i == n {
			return
		}
	}
}

func render(ps []patch) []string {
	out := make([]string, len(ps))
	for i, p := range ps {
		out[i] = fmt.Sprintf("Add(%d,%d,%q)", p.Off, p.Old, p.Blob)
	}
	return out
}

// genPatches draws a list of disjoint patches over a file of length l, in a
// drawn call order (same-offset pairs keep their increasing order and stay consecutive).
func genPatches(t *rapid.T, l int64, maxN int, maxBlob int) []patch {
	n := rapid.IntRange(0, maxN).Draw(t, "npatches")
	var sorted []patch
	pos := int64(0)
	for i := 0; i < n; i++ {
		if pos > l {
			break
		}
		// bias towards adjacency (gap 0) and towards hitting EOF
		gap := int64(0)
		if !rapid.Bool().Draw(t, "adjacent") {
			gap = rapid.Int64Range(0, l-pos).Draw(t, "gap")
		}
		off := pos + gap
		var old int64
		switch rapid.IntRange(0, 3).Draw(t, "oldkind") {
		case 0:
			old = 0
		case 1:
			old = l - off // to EOF
		default:
			old = rapid.Int64Range(0, l-off).Draw(t, "old")
		}
		var blob []byte
		switch rapid.IntRange(0, 3).Draw(t, "blobkind") {
		case 0:
		case 1:
			blob = rapid.SliceOfN(rapid.Byte(), int(old), int(old)).Draw(t, "blob") // size preserving
		default:
			blob = rapid.SliceOfN(rapid.Byte(), 0, maxBlob).Draw(t, "blob")
		}
		if len(blob) == 0 {
			blob = nil
		}
		sorted = append(sorted, patch{off, old, blob})
		pos = off + old
	}
	// group same-offset runs so they stay consecutive, then permute groups
	var groups [][]patch
	for i, p := range sorted {
		if i > 0 && p.Off == sorted[i-1].Off {
			groups[len(groups)-1] = append(groups[len(groups)-1], p)
		} else {
			groups = append(groups, []patch{p})
		}
	}
	if len(groups) > 1 && rapid.Bool().Draw(t, "shuffle") {
		perm := rapid.Permutation(groups).Draw(t, "order")
		groups = perm
	}
	var out []patch
	for _, g := range groups {
		out = append(out, g...)
	}
	return out
}

func TestC12_Random(t *testing.T) {
	s := newScratch(t)
	defer s.cleanup()
	rapid.Check(t, func(t *rapid.T) {
		l := rapid.OneOf(rapid.IntRange(0, 16), rapid.IntRange(0, 600), rapid.IntRange(4000, 9000)).Draw(t, "len")
		orig := rapid.SliceOfN(rapid.Byte(), l, l).Draw(t, "file")
		ps := genPatches(t, int64(l), 12, 40)
		viaDump := rapid.IntRange(0, 3).Draw(t, "via") != 0
		pm := rapid.IntRange(0, numPathModes-1).Draw(t, "pathmode")
		nt := nontrivial(ps)
		rec.Case(key(l, ps, viaDump, pm), fmt.Sprintf("rand/n=%d/%s/dump=%v", len(ps), pathModeNames[pm], viaDump), nt)
		if nt {
			rec.Sample("rand/"+pathModeNames[pm], map[string]any{"file_len": l, "adds": render(ps), "via_dump_load": viaDump, "path_mode": pathModeNames[pm]})
		}
		mayFail := !viaDump && !isIncreasing(ps)
		if msg := runApply(s, orig, ps, viaDump, pm, mayFail); msg != "" {
			evid.SaveCase("TestC12_Random", map[string]any{"file": orig, "adds": render(ps), "via_dump_load": viaDump, "path_mode": pathModeNames[pm], "error": msg})
			t.Fatalf("adds %v dump=%v path=%s: %s", render(ps), viaDump, pathModeNames[pm], msg)
		}
	})
}

// TestC12_DumpLoadRoundTrip: Load(Dump(p)) describes the same edit list.
func TestC12_DumpLoadRoundTrip(t *testing.T) {
	rapid.Check(t, func(t *rapid.T) {
		l := rapid.IntRange(0, 300).Draw(t, "len")
		ps := genPatches(t, int64(l), 10, 30)
		set := binpatch.New()
		for _, p := range ps {
			set.Add(p.Off, p.Old, p.Blob)
		}
		blob := set.Dump()
		rec.Case("rt|"+key(l, ps, true, 0), "roundtrip", nontrivial(ps))
		// independent decode of the wire format
		if len(blob) < 8 || binary.BigEndian.Uint32(blob) != 1 {
			t.Fatalf("bad header %x", blob)
		}
		n := int(binary.BigEndian.Uint32(blob[4:]))
		hdr := blob[8:]
		body := blob[8+16*n:]
		var dec []patch
		last := int64(-1)
		for i := 0; i < n; i++ {
			off := int64(binary.BigEndian.Uint64(hdr[16*i:]))
			old := int64(binary.BigEndian.Uint32(hdr[16*i+8:]))
			nw := int(binary.BigEndian.Uint32(hdr[16*i+12:]))
			if off < last {
				t.Fatalf("dump not sorted by offset: %d after %d", off, last)
			}
			last = off
			dec = append(dec, patch{off, old, body[:nw]})
			body = body[nw:]
		}
		if len(body) != 0 {
			t.Fatalf("%d trailing bytes in dump", len(body))
		}
		orig := make([]byte, l)
		for i := range orig {
			orig[i] = byte(i*7 + 1)
		}
		if !bytes.Equal(splice(orig, dec), splice(orig, ps)) {
			t.Fatalf("dumped patch list %v differs in meaning from adds %v", render(dec), render(ps))
		}
		loaded, err := binpatch.Load(blob)
		if err != nil {
			t.Fatalf("Load(Dump()) failed: %v", err)
		}
		if !bytes.Equal(loaded.Dump(), blob) {
			t.Fatalf("Dump(Load(Dump())) differs")
		}
	})
}

// TestC12_TruncatedRejected: every strict prefix of a dumped patch, and blobs with a
// bad version or an overstated patch count, are refused and nothing is touched.
func TestC12_TruncatedRejected(t *testing.T) {
	s := newScratch(t)
	defer s.cleanup()
	rapid.Check(t, func(t *rapid.T) {
		l := rapid.IntRange(0, 64).Draw(t, "len")
		orig := rapid.SliceOfN(rapid.Byte(), l, l).Draw(t, "file")
		ps := genPatches(t, int64(l), 5, 12)
		set := binpatch.New()
		for _, p := range ps {
			set.Add(p.Off, p.Old, p.Blob)
		}
		blob := set.Dump()
		pm := rapid.IntRange(0, numPathModes-1).Draw(t, "pathmode")
		kind := rapid.IntRange(0, 2).Draw(t, "corruption")
		var bad []byte
		var class string
		switch kind {
		case 0:
			cut := rapid.IntRange(0, len(blob)-1).Draw(t, "cut")
			bad = blob[:cut]
			class = "truncated"
		case 1:
			bad = append([]byte{}, blob...)
			v := rapid.Uint32().Filter(func(v uint32) bool { return v != 1 }).Draw(t, "version")
			binary.BigEndian.PutUint32(bad, v)
			class = "badversion"
		case 2:
			bad = append([]byte{}, blob...)
			n := binary.BigEndian.Uint32(bad[4:])
			binary.BigEndian.PutUint32(bad[4:], n+uint32(rapid.IntRange(1, 1000).Draw(t, "extra")))
			class = "overcount"
		}
		rec.Case(fmt.Sprintf("bad|%x|%d|%d", bad, pm, l), "reject/"+class+"/"+pathModeNames[pm], true)
		rec.Sample("reject/"+class, map[string]any{"corruption": class, "blob_hex": fmt.Sprintf("%x", clip(bad)), "path_mode": pathModeNames[pm]})
		if msg := applyBad(s, orig, bad, pm); msg != "" {
			evid.SaveCase("TestC12_TruncatedRejected", map[string]any{"file": orig, "blob": bad, "path_mode": pathModeNames[pm], "error": msg})
			t.Fatalf("%s blob %x path=%s: %s", class, bad, pathModeNames[pm], msg)
		}
	})
}

func applyBad(s *scratch, orig, blob []byte, pathMode int) string {
	dir := s.sub()
	defer os.RemoveAll(dir)
	inpath := filepath.Join(dir, "in.bin")
	os.WriteFile(inpath, orig, 0o644)
	outpath := inpath
	oldOut := []byte("previous destination content")
	switch pathMode {
	case pathEmpty:
		outpath = ""
	case pathOtherAbsent:
		outpath = filepath.Join(dir, "out.bin")
	case pathOtherPresent:
		outpath = filepath.Join(dir, "out.bin")
		os.WriteFile(outpath, oldOut, 0o644)
	case pathHardlink:
		os.Link(inpath, filepath.Join(dir, "link.bin"))
	}
	f, err := os.OpenFile(inpath, os.O_RDWR, 0)
	if err != nil {
		panic(err)
	}
	defer f.Close()
	err = signers.ApplyBinPatch(f, outpath, bytes.NewReader(blob))
	if err == nil {
		return "unparsable patch was applied without error"
	}
	if got, _ := os.ReadFile(inpath); !bytes.Equal(got, orig) {
		return fmt.Sprintf("rejected (%v) but target changed", err)
	}
	if pathMode == pathOtherAbsent {
		if _, e := os.Stat(outpath); e == nil {
			return "rejected but output created"
		}
	}
	if pathMode == pathOtherPresent {
		if got, _ := os.ReadFile(outpath); !bytes.Equal(got, oldOut) {
			return "rejected but output changed"
		}
	}
	return leftovers(dir, pathMode)
}

// TestC12_Over4GiB: removing (and replacing) ranges larger than 4 GiB from a sparse file.
func TestC12_Over4GiB(t *testing.T) {
	s := newScratch(t)
	defer s.cleanup()
	checks := 0
	rapid.Check(t, func(t *rapid.T) {
		checks++
		if checks > evid.EnvInt("VERIF_C12_SPARSE", 6) {
			return // sparse budget used
		}
		head := rapid.SliceOfN(rapid.Byte(), 0, 64).Draw(t, "head")
		tail := rapid.SliceOfN(rapid.Byte(), 0, 64).Draw(t, "tail")
		// hole sizes straddle k * 0xffffffff
		k := rapid.Int64Range(1, 2).Draw(t, "k")
		hole := k*0xffffffff + rapid.Int64Range(-2, 70000).Draw(t, "delta")
		keepHead := rapid.IntRange(0, len(head)).Draw(t, "keephead")
		keepTail := rapid.IntRange(0, len(tail)).Draw(t, "keeptail")
		blob := rapid.SliceOfN(rapid.Byte(), 0, 16).Draw(t, "blob")
		extra := rapid.Bool().Draw(t, "extra_patch_in_head")
		other := rapid.Bool().Draw(t, "other_path")
		dir := s.sub()
		defer os.RemoveAll(dir)
		inpath := filepath.Join(dir, "in.bin")
		f, err := os.OpenFile(inpath, os.O_RDWR|os.O_CREATE, 0o644)
		if err != nil {
			t.Fatal(err)
		}
		defer f.Close()
		f.WriteAt(head, 0)
		total := int64(len(head)) + hole + int64(len(tail))
		if err := f.Truncate(total); err != nil {
			t.Skipf("cannot create sparse file: %v", err)
		}
		f.WriteAt(tail, int64(len(head))+hole)
		set := binpatch.New()
		var want []byte
		if extra && keepHead > 0 {
			set.Add(0, 1, []byte("zz"))
			want = append(want, "zz"...)
			want = append(want, head[1:keepHead]...)
		} else {
			want = append(want, head[:keepHead]...)
		}
		off := int64(keepHead)
		old := int64(len(head)-keepHead) + hole + int64(len(tail)-keepTail)
		set.Add(off, old, blob)
		want = append(want, blob...)
		want = append(want, tail[len(tail)-keepTail:]...)
		outpath := inpath
		if other {
			outpath = filepath.Join(dir, "out.bin")
		}
		rec.Case(fmt.Sprintf("sparse|%d|%d|%d|%x|%v|%v", hole, keepHead, keepTail, blob, extra, other), "sparse>4GiB", true)
		rec.Sample("sparse", map[string]any{"file_len": total, "remove_off": off, "remove_len": old, "blob_len": len(blob), "other_path": other})
		if err := signers.ApplyBinPatch(f, outpath, bytes.NewReader(set.Dump())); err != nil {
			t.Fatalf("apply: %v", err)
		}
		if st, serr := os.Stat(outpath); serr == nil && st.Size() != int64(len(want)) {
			t.Fatalf("removing %d bytes at %d from %d-byte file: output is %d bytes long, want %d", old, off, total, st.Size(), len(want))
		}
		got, err := os.ReadFile(outpath)
		if err != nil {
			t.Fatal(err)
		}
		if !bytes.Equal(got, want) {
			t.Fatalf("removing %d bytes at %d from %d-byte file: got %d bytes %x want %d bytes %x", old, off, total, len(got), clip(got), len(want), clip(want))
		}
	})
}
