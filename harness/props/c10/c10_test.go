// C10 — only genuine, matching timestamps are attached and they govern validity time.
package c10

import (
	"bytes"
	"crypto"
	"crypto/x509"
	"encoding/base64"
	"encoding/json"
	"fmt"
	"github.com/sassoftware/relic/v8/xverif/der"
	"net/http/httptest"
	"os"
	"path/filepath"
	"strings"
	"sync"
	"testing"
	"time"

	"pgregory.net/rapid"

	"github.com/sassoftware/relic/v8/config"
	"github.com/sassoftware/relic/v8/lib/pkcs7"
	"github.com/sassoftware/relic/v8/lib/pkcs9"
	"github.com/sassoftware/relic/v8/xverif/arts"
	"github.com/sassoftware/relic/v8/xverif/evid"
	"github.com/sassoftware/relic/v8/xverif/keys"
	"github.com/sassoftware/relic/v8/xverif/known"
	"github.com/sassoftware/relic/v8/xverif/pipe"
	"github.com/sassoftware/relic/v8/xverif/tsa"
)

var (
	rec      = evid.New("C10")
	knownSet = known.Load("C10")
	env      *pipe.Env
	workDir  string
	auths    []*authority // RFC 3161
	msAuths  []*authority // legacy
	baseCfg  *config.Config
)

const (
	kNilNonce   = "C10:reply-without-nonce-panics"
	kWrongAlgo  = "C10:wrong-imprint-algorithm-aborts-instead-of-failover"
	tsaEpochStr = "2020-06-01T00:00:00Z"
)

type authority struct {
	a      *tsa.Authority
	srv    *httptest.Server
	mu     sync.Mutex
	script tsa.Behaviour
	now    time.Time
}

func (au *authority) set(b tsa.Behaviour, now time.Time) {
	au.mu.Lock()
	au.script, au.now = b, now
	au.mu.Unlock()
	au.a.ResetRequests()
}

func newAuthority(name, key string, legacy bool) *authority {
	epoch, _ := time.Parse(time.RFC3339, tsaEpochStr)
	a, err := tsa.NewAuthority(keys.Key(key), env.Inter.Key, env.Inter.Cert, epoch, name)
	if err != nil {
		panic(err)
	}
	au := &authority{a: a, now: epoch.Add(24 * time.Hour)}
	a.Now = func() time.Time { au.mu.Lock(); defer au.mu.Unlock(); return au.now }
	a.HangDuration = 3 * time.Second
	script := func(n int, path string) tsa.Behaviour { au.mu.Lock(); defer au.mu.Unlock(); return au.script }
	if legacy {
		au.script = tsa.MSValid
		au.srv = httptest.NewServer(a.MSHandler(script))
	} else {
		au.script = tsa.Valid
		au.srv = httptest.NewServer(a.Handler(script))
	}
	return au
}

func TestMain(m *testing.M) {
	rec.Rule("cases = (a) per configured authority URL (3 RFC 3161 URLs, 2 legacy Microsoft URLs) one drawn behaviour {valid, granted-with-mods, wrong nonce, nonce omitted, wrong imprint, wrong imprint algorithm, rejection, waiting, granted without token, bad token signature, HTTP 500, garbage, truncated, wrong content type, hang} x timestamp-capable signature type x key x digest: model = token of the first authority whose behaviour is acceptable is attached (identified by its certificate and attested time) and later authorities are not contacted; none acceptable => signing fails, input untouched; no-timestamp => no request at all; (b) library level: a token over another signature value, or with a bad signature, must fail verification while the matching token passes; (c) signer certificates with drawn validity windows and attested times: chain verification succeeds iff the attested time lies inside the window (without timestamp: iff the current time does); non-trivial = script with >= 1 unacceptable behaviour before an acceptable one, or an attested time within a day of a window edge; distinct = (format, key, digest, behaviours | window, time)")
	rec.Assume("authorities are the harness RFC 3161 / legacy encoder (cross-validated with openssl ts -verify in its own tests); cache hits (memcached) are not exercised")
	var err error
	workDir, err = os.MkdirTemp("", "c10-")
	if err != nil {
		panic(err)
	}
	arts.ExcludePEFewDirs, arts.ExcludeJAREdgeSpace = true, true
	env, err = pipe.Setup(workDir)
	if err != nil {
		panic(err)
	}
	auths = []*authority{newAuthority("tsa0", "p256b", false), newAuthority("tsa1", "rsa2048b", false), newAuthority("tsa2", "p384b", false)}
	msAuths = []*authority{newAuthority("mstsa0", "rsa2048b", true), newAuthority("mstsa1", "p256b", true)}
	cfg := env.Cfg
	cfg.Timestamp = &config.TimestampConfig{Timeout: 2}
	for _, a := range auths {
		cfg.Timestamp.URLs = append(cfg.Timestamp.URLs, a.srv.URL)
	}
	for _, a := range msAuths {
		cfg.Timestamp.MsURLs = append(cfg.Timestamp.MsURLs, a.srv.URL)
	}
	for _, k := range cfg.Keys {
		k.Timestamp = true
	}
	if err := env.Install(cfg); err != nil {
		panic(err)
	}
	baseCfg = env.Cfg
	code := m.Run()
	for _, a := range append(auths, msAuths...) {
		a.a.ReleaseHangs()
		a.srv.Close()
	}
	rec.Flush()
	os.RemoveAll(workDir)
	os.Exit(code)
}

var rfcBehaviours = []tsa.Behaviour{tsa.Valid, tsa.Valid, tsa.Valid, tsa.GrantedWithMods, tsa.WrongNonce, tsa.OmitNonce, tsa.WrongImprint, tsa.WrongImprintAlg,
	tsa.StatusRejection, tsa.RejectionWithToken, tsa.StatusWaiting, tsa.GrantedNoToken, tsa.BadTokenSignature, tsa.AttrsSignedSorted, tsa.ContentSwapped, tsa.HTTP500, tsa.Garbage, tsa.Truncated, tsa.WrongContentType}
var msBehaviours = []tsa.Behaviour{tsa.MSValid, tsa.MSValid, tsa.MSWrongContent, tsa.MSBadSignature, tsa.MSGarbage, tsa.MSHTTP500}

// acceptable per the property statement: granted, nonce echoed, imprint equal, token correctly signed
func acceptable(b tsa.Behaviour) bool {
	switch b {
	case tsa.Valid, tsa.GrantedWithMods, tsa.WrongContentType, tsa.MSValid:
		return true
	}
	return false
}

var tsFormats = []string{"pe", "msi", "ps", "cab", "cat", "xap", "jar", "appx", "macho", "dmg", "pkg", "appmanifest", "appmanifest-legacy", "vsix", "cosign", "cosign"}

var counter int

type caseDesc struct {
	Format     string   `json:"format"`
	Key        string   `json:"key"`
	Hash       string   `json:"digest"`
	Behaviours []string `json:"behaviour_per_url"`
	Expect     string   `json:"expect"`
	Error      string   `json:"error,omitempty"`
}

// cosignToken reads the RFC 3161 token annotation (nil if absent) and the raw signature
// value out of a cosign signature manifest.
func cosignToken(path string) (token, rawSig []byte, err error) {
	blob, err := os.ReadFile(path)
	if err != nil {
		return nil, nil, err
	}
	var m struct {
		Layers []struct {
			Annotations map[string]string `json:"annotations"`
		} `json:"layers"`
	}
	if err := json.Unmarshal(blob, &m); err != nil || len(m.Layers) != 1 {
		return nil, nil, fmt.Errorf("signature manifest: %v (%d layers)", err, len(m.Layers))
	}
	ann := m.Layers[0].Annotations
	rawSig, err = base64.StdEncoding.DecodeString(ann["dev.cosignproject.cosign/signature"])
	if err != nil || len(rawSig) == 0 {
		return nil, nil, fmt.Errorf("no signature annotation")
	}
	if t := ann["dev.sigstore.cosign/rfc3161timestamp"]; t != "" {
		token, err = base64.StdEncoding.DecodeString(t)
		if err != nil {
			return nil, nil, err
		}
	}
	return token, rawSig, nil
}

type c10fail struct {
	msg    string
	timing bool
}

func TestC10_Scripts(t *testing.T) {
	rapid.Check(t, func(t *rapid.T) {
		format := rapid.SampledFrom(tsFormats).Draw(t, "format")
		legacy := format == "appmanifest-legacy"
		base := strings.TrimSuffix(format, "-legacy")
		var a *arts.Artifact
		if base == "cosign" {
			// container image signatures: the input is an image manifest, the output a
			// signature manifest with the token in an annotation (no relic verifier for it)
			a = &arts.Artifact{Format: "cosign", SigType: "cosign", Name: "image-manifest.json", Data: []byte(`{"schemaVersion":2,"mediaType":"application/vnd.oci.image.manifest.v1+json","config":{"mediaType":"application/vnd.oci.image.config.v1+json","digest":"sha256:44136fa355b3678a1146ad16f7e8649e94fb4fc21fe77e8310c060f61caaff8a","size":2},"layers":[]}`)}
		} else {
			a = arts.Gen(t, base)
		}
		key := rapid.SampledFrom(pipe.SigningKeys).Draw(t, "key")
		h := crypto.SHA256
		if base != "appx" && base != "macho" && base != "dmg" && base != "pkg" && base != "cosign" {
			h = rapid.SampledFrom([]crypto.Hash{crypto.SHA256, crypto.SHA1, crypto.SHA384}).Draw(t, "hash")
		}
		pool, set := auths, rfcBehaviours
		if legacy {
			pool, set = msAuths, msBehaviours
		}
		attested := time.Date(2024, 3, 4, 5, 6, 7, 0, time.UTC)
		cd := &caseDesc{Format: format, Key: key, Hash: h.String()}
		var bs []tsa.Behaviour
		expectIdx := -1
		badBefore := 0
		hangAllowed := rapid.IntRange(0, 14).Draw(t, "hang_allowed") == 0
		for i, au := range pool {
			b := rapid.SampledFrom(set).Draw(t, "behaviour")
			if !legacy && hangAllowed && rapid.IntRange(0, 3).Draw(t, "hang") == 0 {
				b = tsa.Hang
			}
			if knownSet.Has(kNilNonce) && b == tsa.OmitNonce {
				b = tsa.WrongNonce
				rec.Excluded(kNilNonce)
			}
			if knownSet.Has(kWrongAlgo) && b == tsa.WrongImprintAlg {
				b = tsa.WrongImprint
				rec.Excluded(kWrongAlgo)
			}
			au.set(b, attested.Add(time.Duration(i)*time.Hour))
			bs = append(bs, b)
			cd.Behaviours = append(cd.Behaviours, b.String())
			if expectIdx < 0 {
				if acceptable(b) {
					expectIdx = i
				} else {
					badBefore++
				}
			}
		}
		// the other protocol's authorities must stay silent
		for _, au := range auths {
			if legacy {
				au.set(tsa.Valid, attested)
			}
		}
		for _, au := range msAuths {
			if !legacy {
				au.set(tsa.MSValid, attested)
			}
		}
		noTimestamp := rapid.IntRange(0, 9).Draw(t, "no_timestamp") == 0
		flags := map[string]string{}
		if legacy {
			flags["rfc3161-timestamp"] = "false"
		}
		if noTimestamp {
			flags["no-timestamp"] = "true"
		}
		counter++
		dir := filepath.Join(workDir, fmt.Sprintf("case%d", counter))
		os.Mkdir(dir, 0o755)
		defer os.RemoveAll(dir)
		p := filepath.Join(dir, a.Name)
		os.WriteFile(p, a.Data, 0o644)
		cd.Expect = fmt.Sprint("authority#", expectIdx)
		if noTimestamp {
			cd.Expect = "no-timestamp"
		}
		// Failures that a late reply can explain (the client gives an authority 2 s) are only
		// reported when they repeat on three consecutive runs of the same script.
		failf := func(f string, args ...any) { panic(c10fail{fmt.Sprintf(f, args...), false}) }
		failTiming := func(f string, args ...any) { panic(c10fail{fmt.Sprintf(f, args...), true}) }
		attemptNo := 0
		run := func() (res *c10fail) {
			defer func() {
				if r := recover(); r != nil {
					if f, ok := r.(c10fail); ok {
						res = &f
						return
					}
					panic(r)
				}
			}()
			if attemptNo > 0 {
				for i, au := range pool {
					au.set(bs[i], attested.Add(time.Duration(i)*time.Hour))
				}
				for _, au := range auths {
					if legacy {
						au.set(tsa.Valid, attested)
					}
				}
				for _, au := range msAuths {
					if !legacy {
						au.set(tsa.MSValid, attested)
					}
				}
				os.WriteFile(p, a.Data, 0o644)
			}
			attemptNo++
			req := &pipe.Req{SigType: a.SigType, In: p, Key: key, Hash: h, Flags: flags}
			if base == "cosign" {
				req.Out = p + ".sig.json"
				os.Remove(req.Out)
			}
			err := env.SignLib(req)
			nt := badBefore > 0 && expectIdx >= 0
			if attemptNo == 1 {
				rec.Case(fmt.Sprintf("%s|%s|%s|%v|%v", format, key, h, cd.Behaviours, noTimestamp), fmt.Sprintf("script/%s/bad-before=%d/expect=%d", map[bool]string{true: "legacy", false: "rfc3161"}[legacy], badBefore, expectIdx), nt)
				if nt {
					rec.Sample(fmt.Sprintf("script/bad-before=%d", badBefore), cd)
				}
			}
			contacted := func(au *authority) int { return len(au.a.Requests()) }
			if err != nil && strings.Contains(err.Error(), "PANIC") {
				failf("signing panicked: %v", err)
			}
			if noTimestamp {
				if err != nil {
					failf("signing with no-timestamp failed: %v", err)
				}
				for i, au := range append(append([]*authority{}, auths...), msAuths...) {
					if contacted(au) != 0 {
						// (a request of the previous script may still arrive late on a loaded machine:
						// judged only when it repeats)
						failTiming("authority %d was contacted although no-timestamp was given", i)
					}
				}
				if base == "cosign" {
					if tok, _, err := cosignToken(p + ".sig.json"); err != nil || tok != nil {
						failf("cosign output with no-timestamp: token present=%v err=%v", tok != nil, err)
					}
					return nil
				}
				sigs, verr := env.Verify(&pipe.VerifyReq{Path: p})
				if verr != nil {
					failf("output does not verify: %v", verr)
				}
				if sigs[0].Sig.X509Signature != nil && sigs[0].Sig.X509Signature.CounterSignature != nil {
					failf("a timestamp is attached although no-timestamp was given")
				}
				return nil
			}
			if expectIdx < 0 {
				if err == nil {
					failf("signing succeeded although no authority gave an acceptable reply")
				}
				now, _ := os.ReadFile(p)
				if !bytes.Equal(now, a.Data) {
					failf("signing failed (%v) but the input was modified", err)
				}
				return nil
			}
			if err != nil {
				failTiming("signing failed although authority #%d answers acceptably: %v", expectIdx, err)
			}
			var cs *pkcs9.CounterSignature
			if base == "cosign" {
				tok, rawSig, err := cosignToken(p + ".sig.json")
				if err != nil {
					failf("cosign output unreadable: %v", err)
				}
				if tok == nil {
					failf("no timestamp attached to the cosign signature although the key is configured for timestamping")
				}
				info, err := der.VerifyToken(tok, rawSig, nil)
				if err != nil {
					failf("the token attached to the cosign signature is not a good time-stamp over the signature value: %v", err)
				}
				sd, _ := der.ParseSignedData(tok)
				crt, err := sd.FindCert(&sd.SignerInfos[0])
				if err != nil {
					failf("token without its signer certificate: %v", err)
				}
				xc, err := x509.ParseCertificate(crt.Raw)
				if err != nil {
					failf("token signer certificate: %v", err)
				}
				cs = &pkcs9.CounterSignature{}
				cs.Certificate, cs.SigningTime = xc, info.GenTime
			} else {
				sigs, verr := env.Verify(&pipe.VerifyReq{Path: p})
				if verr != nil {
					failf("timestamped output does not verify: %v", verr)
				}
				x := sigs[0].Sig.X509Signature
				if x == nil || x.CounterSignature == nil {
					failf("no timestamp attached although the key is configured for timestamping")
				}
				cs = x.CounterSignature
			}
			want := pool[expectIdx]
			if !bytes.Equal(cs.Certificate.Raw, want.a.Cert.Raw) {
				who := "unknown"
				for i, au := range pool {
					if bytes.Equal(cs.Certificate.Raw, au.a.Cert.Raw) {
						who = fmt.Sprint("authority#", i)
					}
				}
				failTiming("attached timestamp is from %s, the first acceptable reply came from authority #%d", who, expectIdx)
			}
			if !cs.SigningTime.Equal(attested.Add(time.Duration(expectIdx) * time.Hour)) {
				failf("attested time %v, authority issued %v", cs.SigningTime, attested.Add(time.Duration(expectIdx)*time.Hour))
			}
			for i := expectIdx + 1; i < len(pool); i++ {
				if contacted(pool[i]) != 0 {
					failTiming("authority #%d was contacted after authority #%d had already answered acceptably", i, expectIdx)
				}
			}
			for i := 0; i < expectIdx; i++ {
				if contacted(pool[i]) == 0 {
					failf("authority #%d was skipped", i)
				}
			}
			return nil
		}
		for {
			f := run()
			if f == nil {
				break
			}
			if !f.timing || attemptNo >= 3 {
				cd.Error = f.msg
				evid.SaveCase("TestC10_Scripts", cd)
				t.Fatalf("%s\n case: %+v", cd.Error, *cd)
			}
			rec.Add("script_runs_repeated_after_a_timing_dependent_failure", 1)
		}
	})
}

// ---------- (b) token must cover this exact signature value ----------

func TestC10_TokenBinding(t *testing.T) {
	rapid.Check(t, func(t *rapid.T) {
		key := rapid.SampledFrom([]string{"rsa2048a", "p256a", "p384a"}).Draw(t, "key")
		h := rapid.SampledFrom([]crypto.Hash{crypto.SHA1, crypto.SHA256, crypto.SHA384}).Draw(t, "hash")
		content := rapid.SliceOfN(rapid.Byte(), 1, 200).Draw(t, "content")
		mk := func(body []byte) *pkcs7.ContentInfoSignedData {
			sb := pkcs7.NewBuilder(keys.Key(key), []*x509.Certificate{env.Leaf[key], env.Inter.Cert}, h)
			if err := sb.SetContentData(body); err != nil {
				t.Fatal(err)
			}
			psd, err := sb.Sign()
			if err != nil {
				t.Fatalf("builder: %v", err)
			}
			return psd
		}
		host := mk(content)
		other := mk(append([]byte("other"), content...))
		kind := rapid.SampledFrom([]string{"matching", "other-signature", "bad-token-signature", "altered-host-signature", "swapped-tstinfo", "legacy-matching", "legacy-lifted"}).Draw(t, "kind")
		au := auths[rapid.IntRange(0, 2).Draw(t, "authority")]
		au.set(tsa.Valid, time.Date(2025, 1, 1, 0, 0, 0, 0, time.UTC))
		over := host.Content.SignerInfos[0].EncryptedDigest
		if kind == "other-signature" {
			over = other.Content.SignerInfos[0].EncryptedDigest
		}
		ih := rapid.SampledFrom([]crypto.Hash{crypto.SHA256, crypto.SHA1, crypto.SHA512}).Draw(t, "imprinthash")
		d := ih.New()
		d.Write(over)
		token, err := au.a.Token(ih, d.Sum(nil), nil, true)
		if err != nil {
			t.Fatalf("harness TSA: %v", err)
		}
		if kind == "bad-token-signature" {
			token = append([]byte{}, token...)
			token[len(token)-5] ^= 0x40
		}
		if kind == "swapped-tstinfo" {
			// a token the authority issued for something else at another time, whose content
			// (TSTInfo) is replaced afterwards by one that names this signature: the imprint
			// matches and the authority's signature over its attributes is intact, but the
			// attributes no longer cover the content
			d2 := ih.New()
			d2.Write(other.Content.SignerInfos[0].EncryptedDigest)
			au.set(tsa.Valid, time.Date(2019, 6, 1, 0, 0, 0, 0, time.UTC))
			donor, err := au.a.Token(ih, d2.Sum(nil), nil, true)
			au.set(tsa.Valid, time.Date(2025, 1, 1, 0, 0, 0, 0, time.UTC))
			if err != nil {
				t.Fatalf("harness TSA: %v", err)
			}
			good, err1 := pkcs7.Unmarshal(token)
			bad, err2 := pkcs7.Unmarshal(donor)
			if err1 != nil || err2 != nil {
				t.Fatalf("relic cannot parse valid tokens: %v %v", err1, err2)
			}
			bad.Content.ContentInfo = good.Content.ContentInfo
			if token, err = bad.Marshal(); err != nil {
				t.Fatalf("re-encoding the forged token: %v", err)
			}
		}
		if kind == "legacy-matching" || kind == "legacy-lifted" {
			// legacy countersignature attribute (a bare SignerInfo over the signature value),
			// either made for this signature or lifted unchanged from another one
			target := over
			if kind == "legacy-lifted" {
				target = other.Content.SignerInfos[0].EncryptedDigest
			}
			status, _, body := au.a.RespondMS(tsa.MarshalMSRequest(target), tsa.Valid)
			if status != 200 {
				t.Fatalf("harness legacy TSA: status %d", status)
			}
			lt, err := pkcs9.ParseLegacyResponse(body)
			if err != nil {
				t.Fatalf("relic cannot parse a valid legacy reply: %v", err)
			}
			si := &host.Content.SignerInfos[0]
			if err := si.UnauthenticatedAttributes.Add(pkcs9.OidAttributeCounterSign, lt.Content.SignerInfos[0]); err != nil {
				t.Fatalf("embedding: %v", err)
			}
			host.Content.Certificates = append(host.Content.Certificates, lt.Content.Certificates...)
			token = nil
		}
		var tok *pkcs7.ContentInfoSignedData
		if token != nil {
			tok, err = pkcs7.Unmarshal(token)
		}
		if err != nil {
			if kind == "bad-token-signature" {
				return
			}
			t.Fatalf("relic cannot parse a valid token: %v", err)
		}
		useAuthenticode := rapid.Bool().Draw(t, "authenticode_oid")
		if tok == nil {
			err = nil
		} else if useAuthenticode {
			err = pkcs9.AddStampToSignedAuthenticode(&host.Content.SignerInfos[0], *tok)
		} else {
			err = pkcs9.AddStampToSignedData(&host.Content.SignerInfos[0], *tok)
		}
		if err != nil {
			t.Fatalf("embedding: %v", err)
		}
		blob, err := host.Marshal()
		if err != nil {
			t.Fatalf("marshal: %v", err)
		}
		if kind == "altered-host-signature" {
			// flip a bit of the host's signature value inside the encoded structure
			i := bytes.Index(blob, over)
			if i < 0 {
				t.Skip("signature bytes not found")
			}
			blob = append([]byte{}, blob...)
			blob[i+len(over)/2] ^= 0x01
		}
		rec.Case(fmt.Sprintf("bind|%s|%s|%s|%x", kind, key, h, content), "binding/"+kind, true)
		rec.Sample("binding/"+kind, map[string]any{"kind": kind, "key": key, "digest": h.String(), "imprint_hash": ih.String(), "authenticode_oid": useAuthenticode})
		parsed, err := pkcs7.Unmarshal(blob)
		var verr error
		if err != nil {
			verr = err
		} else {
			sig, err := parsed.Content.Verify(nil, false)
			if err != nil {
				verr = err
			} else if ts, err := pkcs9.VerifyOptionalTimestamp(sig); err != nil {
				verr = err
			} else if ts.CounterSignature == nil {
				verr = fmt.Errorf("no countersignature found")
			} else {
				pool := x509.NewCertPool()
				pool.AddCert(env.Root.Cert)
				verr = ts.VerifyChain(pool, nil, x509.ExtKeyUsageAny)
			}
		}
		if kind == "matching" || kind == "legacy-matching" {
			if verr != nil {
				evid.SaveCase("TestC10_TokenBinding", map[string]any{"kind": kind, "error": verr.Error()})
				t.Fatalf("a genuine, matching timestamp does not verify: %v", verr)
			}
		} else if verr == nil {
			evid.SaveCase("TestC10_TokenBinding", map[string]any{"kind": kind, "key": key})
			t.Fatalf("verification succeeded for kind %q", kind)
		}
	})
}

// ---------- (c) the attested time governs chain validity ----------

func TestC10_ValidityWindow(t *testing.T) {
	rapid.Check(t, func(t *rapid.T) {
		key := rapid.SampledFrom([]string{"rsa2048a", "p256a"}).Draw(t, "key")
		// leaf window inside the CA's and the TSA certificate's lifetime
		nbDays := rapid.IntRange(0, 2000).Draw(t, "notbefore_days")
		lenDays := rapid.IntRange(1, 700).Draw(t, "lifetime_days")
		base := time.Date(2021, 1, 1, 0, 0, 0, 0, time.UTC)
		nb := base.AddDate(0, 0, nbDays)
		na := nb.AddDate(0, 0, lenDays)
		var attested time.Time
		where := rapid.SampledFrom([]string{"inside", "before", "after", "edge-start-1s", "edge-start", "edge-end", "edge-end+1s"}).Draw(t, "attested")
		switch where {
		case "inside":
			attested = nb.Add(time.Duration(rapid.Int64Range(1, int64(na.Sub(nb)/time.Second)-1).Draw(t, "offset")) * time.Second)
		case "before":
			attested = nb.Add(-time.Duration(rapid.Int64Range(2, 86400*30).Draw(t, "offset")) * time.Second)
		case "after":
			attested = na.Add(time.Duration(rapid.Int64Range(2, 86400*30).Draw(t, "offset")) * time.Second)
		case "edge-start-1s":
			attested = nb.Add(-time.Second)
		case "edge-start":
			attested = nb
		case "edge-end":
			attested = na
		case "edge-end+1s":
			attested = na.Add(time.Second)
		}
		inside := !attested.Before(nb) && !attested.After(na)
		format := rapid.SampledFrom([]string{"pe", "ps", "jar", "cat", "msi"}).Draw(t, "format")
		noTS := rapid.IntRange(0, 5).Draw(t, "no_timestamp") == 0
		a := arts.Gen(t, format)
		// configuration with a leaf certificate of that window
		leaf := env.Inter.Issue(keys.Key(key).Public(), keys.LeafOpts{CN: "c10 window leaf", NotBefore: nb, NotAfter: na})
		counter++
		dir := filepath.Join(workDir, fmt.Sprintf("win%d", counter))
		os.Mkdir(dir, 0o755)
		defer os.RemoveAll(dir)
		crt := filepath.Join(dir, "k.crt")
		os.WriteFile(crt, keys.CertPEM(leaf, env.Inter.Cert), 0o644)
		cfg := *baseCfg
		cfg.Keys = map[string]*config.KeyConfig{}
		for k, v := range baseCfg.Keys {
			cfg.Keys[k] = v
		}
		orig := baseCfg.Keys[key]
		cfg.Keys["window"] = &config.KeyConfig{Token: orig.Token, KeyFile: orig.KeyFile, X509Certificate: crt, Timestamp: true, Roles: orig.Roles}
		if err := env.Install(&cfg); err != nil {
			t.Fatalf("harness config: %v", err)
		}
		defer env.Install(baseCfg)
		for _, au := range auths {
			au.set(tsa.Valid, attested)
		}
		// one run in six: the "authority" signs its tokens with a certificate that is not a
		// time-stamping certificate (same issuer, code-signing usage only); such a token
		// must never establish the signing time
		impostor := !noTS && rapid.IntRange(0, 5).Draw(t, "impostor_authority") == 0
		if impostor {
			for _, au := range auths {
				genuine := au.a.Cert
				au.a.Cert = env.Inter.Issue(au.a.Key.Public(), keys.LeafOpts{CN: "c10 not a time-stamping certificate", EKU: []x509.ExtKeyUsage{x509.ExtKeyUsageCodeSigning}})
				defer func(a *tsa.Authority, c *x509.Certificate) { a.Cert = c }(au.a, genuine)
			}
		}
		p := filepath.Join(dir, a.Name)
		os.WriteFile(p, a.Data, 0o644)
		flags := map[string]string{}
		if noTS {
			flags["no-timestamp"] = "true"
		}
		if err := env.SignLib(&pipe.Req{SigType: a.SigType, In: p, Key: "window", Hash: crypto.SHA256, Flags: flags}); err != nil {
			t.Skipf("signing failed: %v", err)
		}
		_, verr := env.Verify(&pipe.VerifyReq{Path: p})
		now := time.Now()
		want := inside
		if noTS {
			want = !now.Before(nb) && !now.After(na)
		}
		if impostor {
			want = false
			where += "/impostor-authority"
		}
		desc := map[string]any{"format": format, "key": key, "not_before": nb, "not_after": na, "attested": attested, "where": where, "timestamped": !noTS, "expect_valid": want}
		nt := strings.HasPrefix(where, "edge") || noTS || impostor
		rec.Case(fmt.Sprintf("win|%s|%s|%v|%v|%v|%v", format, key, nb, na, attested, noTS), fmt.Sprintf("window/%s/ts=%v", where, !noTS), nt)
		if nt {
			rec.Sample("window/"+where, desc)
		}
		if want && verr != nil {
			desc["error"] = verr.Error()
			evid.SaveCase("TestC10_ValidityWindow", desc)
			t.Fatalf("signature should be valid (attested time inside the certificate's lifetime) but verification fails: %v\n %v", verr, desc)
		}
		if want && !noTS && !impostor && rapid.IntRange(0, 2).Draw(t, "then_outside") == 0 {
			// history: the same certificate was just accepted at an attested time inside its
			// lifetime; a second signature timestamped after the certificate expired (or, with
			// an expired certificate, not timestamped at all) must be judged on its own
			late := na.Add(time.Duration(rapid.Int64Range(2, 86400*30).Draw(t, "late_offset")) * time.Second)
			flags2 := map[string]string{}
			expectFail := true
			if rapid.Bool().Draw(t, "second_without_timestamp") {
				flags2["no-timestamp"] = "true"
				expectFail = now.Before(nb) || now.After(na)
			} else {
				for _, au := range auths {
					au.set(tsa.Valid, late)
				}
			}
			p2 := filepath.Join(dir, "second-"+a.Name)
			os.WriteFile(p2, a.Data, 0o644)
			if err := env.SignLib(&pipe.Req{SigType: a.SigType, In: p2, Key: "window", Hash: crypto.SHA256, Flags: flags2}); err == nil {
				_, verr2 := env.Verify(&pipe.VerifyReq{Path: p2})
				rec.Case(fmt.Sprintf("win2|%s|%s|%v|%v|%v|%v", format, key, nb, na, late, flags2), "window/history-valid-then-outside", true)
				if expectFail && verr2 == nil {
					desc["second_signature"] = map[string]any{"attested": late, "flags": flags2}
					evid.SaveCase("TestC10_ValidityWindow", desc)
					t.Fatalf("after one signature by this certificate verified at an in-lifetime time, a second one outside the lifetime (attested %v, flags %v) verifies too\n %v", late, flags2, desc)
				}
			}
		}
		if !want && verr == nil {
			evid.SaveCase("TestC10_ValidityWindow", desc)
			if impostor {
				t.Fatalf("signature verifies on the strength of a token signed by a certificate without the time-stamping usage\n %v", desc)
			}
			t.Fatalf("signature verifies although the %s lies outside the signer certificate's lifetime\n %v", map[bool]string{true: "current time", false: "attested time"}[noTS], desc)
		}
	})
}
