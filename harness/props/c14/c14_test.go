// C14 — concurrent requests are isolated and race-free (built with -race).
package c14

import (
	"bufio"
	"bytes"
	"crypto"
	"crypto/tls"
	"crypto/x509"
	"encoding/json"
	"encoding/pem"
	"fmt"
	"github.com/sassoftware/relic/v8/xverif/tsa"
	"io"
	"net"
	"net/http/httptest"
	"os"
	"os/exec"
	"path/filepath"
	"runtime"
	"sort"
	"strconv"
	"strings"
	"sync"
	"sync/atomic"
	"syscall"
	"testing"
	"time"

	"pgregory.net/rapid"

	"github.com/sassoftware/relic/v8/cmdline/shared"
	"github.com/sassoftware/relic/v8/config"
	"github.com/sassoftware/relic/v8/server/daemon"
	"github.com/sassoftware/relic/v8/xverif/arts"
	"github.com/sassoftware/relic/v8/xverif/evid"
	"github.com/sassoftware/relic/v8/xverif/keys"
	"github.com/sassoftware/relic/v8/xverif/known"
	"github.com/sassoftware/relic/v8/xverif/pipe"
	"github.com/sassoftware/relic/v8/xverif/rectoken"
)

var (
	rec      = evid.New("C14")
	knownSet = known.Load("C14")
	env      *pipe.Env
	workDir  string
	inputs   = map[string][]*arts.Artifact{}
)

// keys served through the recording token (latency and jitter are injected there)
var recKeys = []string{"rec-rsa", "rec-p256"}

// keys whose signatures get a time-stamp: key -> name of the authority configured for it
var tsKeys = map[string]string{"ts-default": "default", "ts-alt": "alt", "ts-alt-rec": "alt"}
var tsaCert = map[string]*x509.Certificate{}

func TestMain(m *testing.M) {
	rec.Rule("cases = mixes of 4-64 requests (sign with drawn key incl. keys behind a latency-injecting token, signature type in {ps, pe-coff, jar, pgp, msi, apk}, digest, body; list-keys; key-info; health) issued by 2-32 concurrent clients over real TLS to the daemon (race detector on, GOMAXPROCS drawn from {2, 4, 16}, token cache expiry 1 s, optional token rate limit), optionally with daemon shutdown while one request is parked inside the token; oracle = every response equals the isolated verdict: the returned signature applied to that request's own body verifies, is made with that request's key and digest; listings and key-info equal the configuration; no data race report; audit record count = successful signs; audit file appended to by 2-32 goroutines at once (records below and above 4 KiB) holds every record exactly once, one JSON object per line; the parked request completes with a valid signature, new connections are refused after shutdown; non-trivial = mix with >= 2 overlapping signs that differ in key, type or body; distinct = rendering of the mix")
	rec.Assume("the Go scheduler is not owned by the harness: interleavings are explored by repetition under the race detector, not enumerated")
	if cfgPath := os.Getenv("VERIF_C14_DAEMON"); cfgPath != "" {
		daemonChild(cfgPath)
		return
	}
	var err error
	workDir, err = os.MkdirTemp("", "c14-")
	if err != nil {
		panic(err)
	}
	arts.ExcludePEFewDirs, arts.ExcludeJAREdgeSpace = true, true
	env, err = pipe.Setup(workDir)
	if err != nil {
		panic(err)
	}
	cfg := env.Cfg
	cfg.Tokens["rec"] = &config.TokenConfig{Type: rectoken.Type}
	cfg.Keys["rec-rsa"] = &config.KeyConfig{Token: "rec", Label: "rsa2048a", X509Certificate: cfg.Keys["rsa2048a"].X509Certificate, PgpCertificate: cfg.Keys["rsa2048a"].PgpCertificate, Roles: []string{"signer"}}
	cfg.Keys["rec-p256"] = &config.KeyConfig{Token: "rec", Label: "p256a", X509Certificate: cfg.Keys["p256a"].X509Certificate, Roles: []string{"signer"}}
	cfg.Keys["hidden"] = &config.KeyConfig{Token: "file", KeyFile: cfg.Keys["p384a"].KeyFile, X509Certificate: cfg.Keys["p384a"].X509Certificate, Roles: []string{"signer"}, Hide: true}
	cfg.Keys["other-role"] = &config.KeyConfig{Token: "file", KeyFile: cfg.Keys["p384a"].KeyFile, X509Certificate: cfg.Keys["p384a"].X509Certificate, Roles: []string{"nobody"}}
	cfg.Server.TokenCacheSeconds = 1
	// two time-stamping authorities: the default one and a named one that some keys select
	for i, name := range []string{"default", "alt"} {
		a, err := tsa.NewAuthority(keys.Key([]string{"p256b", "rsa2048b"}[i]), env.Inter.Key, env.Inter.Cert, time.Now().Add(-time.Hour), "c14 tsa "+name)
		if err != nil {
			panic(err)
		}
		srv := httptest.NewServer(a.Handler(func(int, string) tsa.Behaviour { return tsa.Valid }))
		defer srv.Close()
		tsaCert[name] = a.Cert
		if cfg.Timestamp == nil {
			cfg.Timestamp = &config.TimestampConfig{Timeout: 60, NamedURLs: map[string][]string{}}
		}
		if name == "default" {
			cfg.Timestamp.URLs = []string{srv.URL}
		} else {
			cfg.Timestamp.NamedURLs[name] = []string{srv.URL}
		}
	}
	cfg.Keys["ts-default"] = &config.KeyConfig{Token: "file", KeyFile: cfg.Keys["rsa2048a"].KeyFile, X509Certificate: cfg.Keys["rsa2048a"].X509Certificate, Roles: []string{"signer"}, Timestamp: true}
	cfg.Keys["ts-alt"] = &config.KeyConfig{Token: "file", KeyFile: cfg.Keys["p256a"].KeyFile, X509Certificate: cfg.Keys["p256a"].X509Certificate, Roles: []string{"signer"}, Timestamper: "alt"}
	cfg.Keys["ts-alt-rec"] = &config.KeyConfig{Token: "rec", Label: "rsa3072", X509Certificate: cfg.Keys["rsa3072"].X509Certificate, Roles: []string{"signer"}, Timestamper: "alt"}
	if err := env.Install(cfg); err != nil {
		panic(err)
	}
	env.ExternalServer = true
	env.Leaf["rec-rsa"], env.Leaf["rec-p256"] = env.Leaf["rsa2048a"], env.Leaf["p256a"]
	env.Leaf["ts-default"], env.Leaf["ts-alt"], env.Leaf["ts-alt-rec"] = env.Leaf["rsa2048a"], env.Leaf["p256a"], env.Leaf["rsa3072"]
	env.Pgp["rec-rsa"] = env.Pgp["rsa2048a"]
	code := m.Run()
	rec.Flush()
	if os.Getenv("VERIF_C14_KEEP") == "" {
		os.RemoveAll(workDir)
	}
	os.Exit(code)
}

type reqSpec struct {
	Kind    string `json:"kind"` // sign | list | keyinfo | health
	Key     string `json:"key,omitempty"`
	SigType string `json:"sigtype,omitempty"`
	Hash    string `json:"digest,omitempty"`
	Body    int    `json:"body,omitempty"`
}

var signTypes = []string{"ps", "pe", "jar", "pgp", "msi", "apk"}

func genBody(t *rapid.T, format string) *arts.Artifact {
	arts.APKBigMembers = false
	return arts.Gen(t, format)
}

var counter int64

func wantListing() []string {
	var out []string
	for name, k := range env.Cfg.Keys {
		if k.Hide {
			continue
		}
		ok := false
		for _, r := range k.Roles {
			if r == "signer" {
				ok = true
			}
		}
		if ok {
			out = append(out, name)
		}
	}
	sort.Strings(out)
	return out
}

func hashOf(name string) crypto.Hash {
	switch name {
	case "SHA-1":
		return crypto.SHA1
	case "SHA-384":
		return crypto.SHA384
	case "SHA-512":
		return crypto.SHA512
	}
	return crypto.SHA256
}

func TestC14_Mixes(t *testing.T) {
	rapid.Check(t, func(t *rapid.T) {
		procs := rapid.SampledFrom([]int{2, 4, 16}).Draw(t, "gomaxprocs")
		old := runtime.GOMAXPROCS(procs)
		defer runtime.GOMAXPROCS(old)
		nclients := rapid.IntRange(2, 32).Draw(t, "clients")
		nreq := rapid.IntRange(4, 64).Draw(t, "requests")
		latency := rapid.SampledFrom([]int{0, 0, 1, 5, 20}).Draw(t, "token_latency_ms")
		rateLimit := rapid.IntRange(0, 2).Draw(t, "ratelimit") == 0
		tightLimit := rapid.Bool().Draw(t, "ratelimit_tight")
		shutdown := rapid.IntRange(0, 5).Draw(t, "shutdown") == 0
		// a few distinct bodies per signature type
		bodies := map[string][]*arts.Artifact{}
		for _, st := range signTypes {
			n := rapid.IntRange(1, 3).Draw(t, "nbodies")
			for i := 0; i < n; i++ {
				bodies[st] = append(bodies[st], genBody(t, st))
			}
		}
		var specs []reqSpec
		allKeys := append(append([]string{}, pipe.SigningKeys...), recKeys...)
		allKeys = append(allKeys, "ts-default", "ts-alt", "ts-alt-rec", "ts-default", "ts-alt")
		for i := 0; i < nreq; i++ {
			kind := rapid.SampledFrom([]string{"sign", "sign", "sign", "sign", "list", "keyinfo", "health"}).Draw(t, "kind")
			s := reqSpec{Kind: kind}
			switch kind {
			case "sign":
				s.SigType = rapid.SampledFrom(signTypes).Draw(t, "sigtype")
				s.Key = rapid.SampledFrom(allKeys).Draw(t, "key")
				if s.SigType == "pgp" {
					// (the time-stamped keys have no PGP certificate)
					s.Key = rapid.SampledFrom([]string{"rsa2048a", "rsa3072", "rec-rsa"}).Draw(t, "pgpkey")
					s.Hash = rapid.SampledFrom([]string{"SHA-256", "SHA-512"}).Draw(t, "hash")
				} else if s.SigType == "apk" {
					// (APK signing blocks carry no time-stamp; the scheme knows two digests)
					s.Key = rapid.SampledFrom(append(append([]string{}, pipe.SigningKeys...), recKeys...)).Draw(t, "apkkey")
					s.Hash = rapid.SampledFrom([]string{"SHA-256", "SHA-512"}).Draw(t, "hash")
				} else {
					s.Hash = rapid.SampledFrom([]string{"SHA-256", "SHA-384", "SHA-512"}).Draw(t, "hash")
				}
				s.Body = rapid.IntRange(0, len(bodies[s.SigType])-1).Draw(t, "body")
			case "keyinfo":
				s.Key = rapid.SampledFrom(append(append([]string{}, allKeys...), "other-role", "nosuchkey")).Draw(t, "key")
			}
			specs = append(specs, s)
		}
		// one daemon process per mix (the same race-built binary in daemon mode)
		env.Cfg.Tokens["rec"].RateLimit, env.Cfg.Tokens["rec"].RateBurst = 0, 0
		if rateLimit {
			// 200/s hardly ever makes a request wait; 25/s with a burst of 1 queues
			// overlapping requests for the token behind each other
			env.Cfg.Tokens["rec"].RateLimit, env.Cfg.Tokens["rec"].RateBurst = 200, 5
			if tightLimit {
				env.Cfg.Tokens["rec"].RateLimit, env.Cfg.Tokens["rec"].RateBurst = 25, 1
			}
		}
		caseNo := atomic.AddInt64(&counter, 1)
		dir := filepath.Join(workDir, fmt.Sprintf("mix%d", caseNo))
		os.Mkdir(dir, 0o755)
		defer os.RemoveAll(dir)
		env.Cfg.AuditFile = filepath.Join(dir, "audit.log")
		d, err := startDaemon(procs, latency, shutdown)
		if err != nil {
			inconclusive("daemon child did not start: " + err.Error())
		}
		defer d.kill()
		client := env.HTTPClient()
		desc := map[string]any{"clients": nclients, "gomaxprocs": procs, "token_latency_ms": latency, "rate_limit": rateLimit, "rate_limit_tight": rateLimit && tightLimit, "shutdown": shutdown, "requests": specs}
		var failMu sync.Mutex
		var failure string
		failf := func(f string, args ...any) {
			failMu.Lock()
			if failure == "" {
				failure = fmt.Sprintf(f, args...)
			}
			failMu.Unlock()
		}
		var signsOK int64
		doOne := func(i int, s reqSpec) {
			switch s.Kind {
			case "health":
				resp, err := client.Get(d.url + "/health")
				if err != nil {
					failf("health: %v", err)
					return
				}
				io.Copy(io.Discard, resp.Body)
				resp.Body.Close()
				if resp.StatusCode != 200 {
					failf("health returned %d", resp.StatusCode)
				}
			case "list":
				resp, err := client.Get(d.url + "/list_keys")
				if err != nil {
					failf("list_keys: %v", err)
					return
				}
				var got []string
				json.NewDecoder(resp.Body).Decode(&got)
				resp.Body.Close()
				if fmt.Sprint(got) != fmt.Sprint(wantListing()) {
					failf("list_keys returned %v, configuration says %v", got, wantListing())
				}
			case "keyinfo":
				resp, err := client.Get(d.url + "/keys/" + s.Key)
				if err != nil {
					failf("keys/%s: %v", s.Key, err)
					return
				}
				blob, _ := io.ReadAll(resp.Body)
				resp.Body.Close()
				if s.Key == "other-role" || s.Key == "nosuchkey" {
					if resp.StatusCode != 403 {
						failf("keys/%s returned %d, want 403", s.Key, resp.StatusCode)
					}
					return
				}
				if resp.StatusCode != 200 {
					failf("keys/%s returned %d: %s", s.Key, resp.StatusCode, blob)
					return
				}
				var info struct{ X509Certificate string }
				json.Unmarshal(blob, &info)
				b, _ := pem.Decode([]byte(info.X509Certificate))
				if b == nil || !bytes.Equal(b.Bytes, env.Leaf[s.Key].Raw) {
					failf("keys/%s returned another key's certificate", s.Key)
				}
			case "sign":
				a := bodies[s.SigType][s.Body]
				p := filepath.Join(dir, fmt.Sprintf("r%d-%s", i, a.Name))
				os.WriteFile(p, a.Data, 0o644)
				h := hashOf(s.Hash)
				req := &pipe.Req{SigType: a.SigType, In: p, Key: s.Key, Hash: h}
				out := p
				if s.SigType == "pgp" {
					out = p + ".sig"
					req.Out = out
				}
				if err := env.SignServer(req); err != nil {
					if log := d.stderr.String(); starved(err) && (strings.Contains(log, "i/o timeout") || strings.Contains(log, "timeout waiting for SETTINGS")) {
						// no HTTP status at all, and the daemon's own log shows its TLS handshake or
						// HTTP/2 preface time-outs firing: the machine is starved.
						// Nothing can be concluded from such a run (a repeat would sign twice).
						inconclusive(fmt.Sprintf("request %d got no HTTP response (%v): the machine is too loaded for this run", i, err))
					}
					failf("request %d (sign %s with %s, %s): %v", i, s.SigType, s.Key, s.Hash, err)
					return
				}
				atomic.AddInt64(&signsOK, 1)
				vr := &pipe.VerifyReq{Path: out}
				if s.SigType == "pgp" {
					vr.Content = p
				}
				sigs, err := env.Verify(vr)
				if err != nil {
					failf("request %d: the signature returned for %s/%s/%s does not verify against that request's body: %v", i, s.SigType, s.Key, s.Hash, err)
					return
				}
				ok := false
				for _, sg := range sigs {
					if sg.Leaf != nil && bytes.Equal(sg.Leaf.Raw, env.Leaf[s.Key].Raw) && sg.Hash == h {
						ok = true
						// the time-stamp is that of the authority configured for this request's key
						var by *x509.Certificate
						if x := sg.Sig.X509Signature; x != nil && x.CounterSignature != nil {
							by = x.CounterSignature.Certificate
						}
						want := tsaCert[tsKeys[s.Key]]
						switch {
						case want == nil && by != nil:
							failf("request %d: key %s has no time-stamping configured but the signature is time-stamped by %q", i, s.Key, by.Subject.CommonName)
						case want != nil && by == nil:
							failf("request %d: key %s is configured with the %q authority but the signature carries no time-stamp", i, s.Key, tsKeys[s.Key])
						case want != nil && !bytes.Equal(by.Raw, want.Raw):
							failf("request %d: key %s is configured with the %q authority but the signature is time-stamped by %q", i, s.Key, tsKeys[s.Key], by.Subject.CommonName)
						}
					}
					if sg.Sig.SignerPgp != nil && env.Pgp[s.Key] != nil && sg.Sig.SignerPgp.PrimaryKey.KeyId == env.Pgp[s.Key].PrimaryKey.KeyId && sg.Hash == h {
						ok = true
					}
				}
				if !ok {
					failf("request %d: response is not signed with the requested key %s and digest %s", i, s.Key, s.Hash)
				}
			}
		}
		// shutdown scenario: park one sign inside the token, close the daemon, release
		var parkedDone chan struct{}
		if shutdown {
			parkedDone = make(chan struct{})
			go func() {
				defer close(parkedDone)
				doOne(-1, reqSpec{Kind: "sign", SigType: "ps", Key: "rec-rsa", Hash: "SHA-256", Body: 0})
			}()
			if !d.expect("PARKED", 120*time.Second) {
				inconclusive("the request to be parked did not reach the token within 120 s")
			}
		}
		var wg sync.WaitGroup
		ch := make(chan int)
		for c := 0; c < nclients; c++ {
			wg.Add(1)
			go func() {
				defer wg.Done()
				for i := range ch {
					doOne(i, specs[i])
				}
			}()
		}
		for i := range specs {
			ch <- i
		}
		close(ch)
		wg.Wait()
		d.send("close")
		if shutdown {
			// new connections must be refused while the parked request is still in flight
			refused := false
			for i := 0; i < 1200 && !refused; i++ {
				c2 := env.HTTPClient()
				c2.Timeout = 2 * time.Second
				resp, err := c2.Get(d.url + "/health")
				if err != nil {
					refused = true
				} else {
					resp.Body.Close()
					time.Sleep(50 * time.Millisecond)
				}
				c2.CloseIdleConnections()
			}
			if !refused {
				failf("new connections were still accepted 60 s after shutdown began")
			}
			if d.closedSeen() {
				failf("the daemon process ended while a request was still in flight")
			}
			d.send("release")
			select {
			case <-parkedDone:
			case <-time.After(180 * time.Second):
				inconclusive("the request in flight at shutdown produced neither a result nor an error within 180 s")
			}
		}
		if !d.expect("SERVED", 180*time.Second) && !d.closedSeen() {
			inconclusive("shutdown did not return within 180 s")
		}
		if report := d.wait(); report == "did not exit after shutdown" {
			inconclusive("daemon child " + report)
		} else if report != "" {
			failf("daemon process: %s", report)
		}
		// audit: one complete record per successful sign
		blob, _ := os.ReadFile(env.Cfg.AuditFile)
		lines := 0
		for _, l := range strings.Split(string(blob), "\n") {
			if l == "" {
				continue
			}
			var m map[string]any
			if json.Unmarshal([]byte(l), &m) != nil {
				failf("audit line is not a JSON object: %q", l)
			}
			lines++
		}
		if int64(lines) != atomic.LoadInt64(&signsOK) {
			failf("%d audit records for %d successful signatures", lines, signsOK)
		}
		overl := 0
		kinds := map[string]bool{}
		for _, s := range specs {
			if s.Kind == "sign" {
				overl++
				kinds[s.SigType+s.Key+fmt.Sprint(s.Body)] = true
			}
		}
		nt := overl >= 2 && len(kinds) >= 2 && nclients >= 2
		rec.Case(fmt.Sprintf("%v", desc), fmt.Sprintf("mix/clients=%d/shutdown=%v/ratelimit=%v", min(nclients/8*8, 32), shutdown, rateLimit), nt)
		if nt {
			rec.Sample(fmt.Sprintf("mix/shutdown=%v", shutdown), map[string]any{"clients": nclients, "gomaxprocs": procs, "token_latency_ms": latency, "rate_limit": rateLimit, "rate_limit_tight": rateLimit && tightLimit, "shutdown": shutdown, "requests": len(specs), "first_requests": specs[:min(len(specs), 6)]})
		}
		if failure != "" {
			if blob := d.stderr.String(); len(blob) > 0 {
				if len(blob) > 6000 {
					blob = blob[:6000]
				}
				failure += "\n daemon stderr tail:\n" + blob
			}
			desc["error"] = failure
			evid.SaveCase("TestC14_Mixes", desc)
			t.Fatalf("%s\n clients=%d gomaxprocs=%d shutdown=%v", failure, nclients, procs, shutdown)
		}
	})
}

var _ = keys.Kind

// starved: transport-level errors without any HTTP status (the connection could not be
// set up or died before a response), as seen when the machine is heavily over-committed.
func starved(err error) bool {
	m := err.Error()
	if strings.Contains(m, "HTTP ") || strings.Contains(m, "status") {
		return false
	}
	for _, pat := range []string{": EOF", "TLS handshake timeout", "i/o timeout", "connection reset by peer", "timeout awaiting response headers", "http2: timeout"} {
		if strings.Contains(m, pat) {
			return true
		}
	}
	return false
}

// inconclusive ends the run without a verdict: wall-clock waits never decide the property.
func inconclusive(msg string) {
	fmt.Println("VERIF-INCONCLUSIVE: " + msg)
	rec.Flush()
	os.Exit(2)
}

// ---- daemon child process ----

type daemonProc struct {
	cmd    *exec.Cmd
	stdin  io.WriteCloser
	url    string
	mu     sync.Mutex
	lines  []string
	cond   *sync.Cond
	stderr bytes.Buffer
	done   chan struct{}
}

func startDaemon(procs, latencyMs int, park bool) (*daemonProc, error) {
	l, err := net.Listen("tcp", "127.0.0.1:0")
	if err != nil {
		return nil, err
	}
	addr := l.Addr().String()
	l.Close()
	url := "https://" + strings.Replace(addr, "127.0.0.1", "localhost", 1)
	env.Cfg.Server.Listen = addr
	env.Cfg.Remote.URL, env.Cfg.Remote.DirectoryURL = url, url
	if err := env.Install(env.Cfg); err != nil {
		return nil, err
	}
	d := &daemonProc{url: url, done: make(chan struct{})}
	d.cond = sync.NewCond(&d.mu)
	d.cmd = exec.Command(os.Args[0], "-test.run=^$")
	d.cmd.Env = append(os.Environ(), "VERIF_C14_DAEMON="+env.CfgPath, fmt.Sprintf("GOMAXPROCS=%d", procs),
		fmt.Sprintf("VERIF_C14_LATENCY_MS=%d", latencyMs), fmt.Sprintf("VERIF_C14_PARK=%v", park), "VERIF_EVIDENCE_PART=")
	d.cmd.Stderr = &d.stderr
	d.cmd.SysProcAttr = &syscall.SysProcAttr{Pdeathsig: syscall.SIGKILL}
	d.stdin, _ = d.cmd.StdinPipe()
	out, _ := d.cmd.StdoutPipe()
	if err := d.cmd.Start(); err != nil {
		return nil, err
	}
	go func() {
		sc := bufio.NewScanner(out)
		for sc.Scan() {
			d.mu.Lock()
			d.lines = append(d.lines, sc.Text())
			d.cond.Broadcast()
			d.mu.Unlock()
		}
		d.mu.Lock()
		d.lines = append(d.lines, "EOF")
		d.cond.Broadcast()
		d.mu.Unlock()
		close(d.done)
	}()
	if !d.expect("READY", 60*time.Second) {
		d.kill()
		return nil, fmt.Errorf("daemon child did not become ready: %s", d.stderr.String())
	}
	return d, nil
}

func (d *daemonProc) send(cmd string) { io.WriteString(d.stdin, cmd+"\n") }

func (d *daemonProc) has(word string) bool {
	for _, l := range d.lines {
		if l == word {
			return true
		}
	}
	return false
}

func (d *daemonProc) closedSeen() bool {
	d.mu.Lock()
	defer d.mu.Unlock()
	return d.has("SERVED") || d.has("EOF")
}

func (d *daemonProc) expect(word string, timeout time.Duration) bool {
	timer := time.AfterFunc(timeout, func() { d.mu.Lock(); d.cond.Broadcast(); d.mu.Unlock() })
	defer timer.Stop()
	deadline := time.Now().Add(timeout)
	d.mu.Lock()
	defer d.mu.Unlock()
	for !d.has(word) {
		if d.has("EOF") || time.Now().After(deadline) {
			return false
		}
		d.cond.Wait()
	}
	return true
}

// wait collects the child after "close" and returns a report if it saw a data race or died.
func (d *daemonProc) wait() string {
	select {
	case <-d.done:
	case <-time.After(60 * time.Second):
		d.kill()
		return "did not exit after shutdown"
	}
	err := d.cmd.Wait()
	text := d.stderr.String()
	if strings.Contains(text, "DATA RACE") {
		return "data race reported by the daemon:\n" + text
	}
	if strings.Contains(text, "panic:") || strings.Contains(text, "fatal error:") {
		return "daemon crashed:\n" + text
	}
	if err != nil {
		return fmt.Sprintf("daemon exited with %v:\n%s", err, text)
	}
	return ""
}

func (d *daemonProc) kill() {
	if d.cmd.Process != nil {
		d.cmd.Process.Kill()
	}
}

// daemonChild is the body of the daemon process: the real daemon over the given
// configuration, with latency injected in the recording token, driven over stdin.
func daemonChild(cfgPath string) {
	cfg, err := config.ReadFile(cfgPath)
	if err != nil {
		fmt.Fprintln(os.Stderr, "child:", err)
		os.Exit(3)
	}
	shared.CurrentConfig = cfg                            // as "relic serve" does
	cfg.Server.LogFile, cfg.Server.LogLevel = "-", "info" // JSON to stderr, collected by the parent
	latency, _ := strconv.Atoi(os.Getenv("VERIF_C14_LATENCY_MS"))
	park := os.Getenv("VERIF_C14_PARK") == "true"
	parked := make(chan struct{})
	var once sync.Once
	var outMu sync.Mutex
	say := func(s string) { outMu.Lock(); fmt.Println(s); outMu.Unlock() }
	rectoken.Hook = func(c rectoken.Call) error {
		if latency > 0 {
			time.Sleep(time.Duration(latency) * time.Millisecond)
		}
		runtime.Gosched()
		if park && c.Op == "Sign" {
			first := false
			once.Do(func() { first = true })
			if first {
				say("PARKED")
				<-parked
			}
		}
		return nil
	}
	d, err := daemon.New(cfg, false)
	if err != nil {
		fmt.Fprintln(os.Stderr, "child:", err)
		os.Exit(3)
	}
	// like "relic serve": the process lives exactly as long as Serve does, and a signal
	// handler (here: the "close" command) calls Close from another goroutine
	go func() {
		d.Serve()
		say("SERVED")
		os.Exit(0)
	}()
	for i := 0; ; i++ {
		c, err := tls.Dial("tcp", cfg.Server.Listen, &tls.Config{InsecureSkipVerify: true})
		if err == nil {
			c.Close()
			break
		}
		if i > 500 {
			fmt.Fprintln(os.Stderr, "child: never accepted connections")
			os.Exit(3)
		}
		time.Sleep(10 * time.Millisecond)
	}
	say("READY")
	sc := bufio.NewScanner(os.Stdin)
	for sc.Scan() {
		switch sc.Text() {
		case "release":
			close(parked)
		case "close":
			go d.Close()
		}
	}
	// parent went away
	os.Exit(0)
}
