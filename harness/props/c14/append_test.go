package c14

// The audit sink under concurrent writers, at the level where the daemon's request
// goroutines meet: G goroutines append records of drawn sizes (below and above 4 KiB) to
// one file at the same time. Every record must be there exactly once, one complete JSON
// object per line.

import (
	"bufio"
	"crypto"
	"encoding/json"
	"fmt"
	"os"
	"path/filepath"
	"strings"
	"sync"
	"sync/atomic"
	"testing"

	"pgregory.net/rapid"

	"github.com/sassoftware/relic/v8/lib/audit"
	"github.com/sassoftware/relic/v8/xverif/evid"
)

func TestC14_AuditAppendUnderLoad(t *testing.T) {
	if os.Getenv("VERIF_C14_DAEMON") != "" {
		return
	}
	const test = "TestC14_AuditAppendUnderLoad"
	reps := evid.EnvInt("VERIF_C14_APPEND_REPS", 3)
	rapid.Check(t, func(t *rapid.T) {
		writers := rapid.SampledFrom([]int{2, 4, 8, 16, 32}).Draw(t, "writers")
		per := rapid.IntRange(5, 60).Draw(t, "records_per_writer")
		sizes := rapid.SliceOfN(rapid.SampledFrom([]int{0, 10, 200, 4000, 4096, 5000, 20000}), 1, 4).Draw(t, "filename_lengths")
		desc := map[string]any{"writers": writers, "records_per_writer": per, "filename_lengths": sizes}
		rec.Case(fmt.Sprintf("append|%d|%d|%v", writers, per, sizes), fmt.Sprintf("audit-append/writers=%d", writers), writers >= 2)
		rec.Sample("audit-append", desc)
		for r := 0; r < reps; r++ {
			caseNo := atomic.AddInt64(&counter, 1)
			path := filepath.Join(workDir, fmt.Sprintf("append%d.log", caseNo))
			var wg sync.WaitGroup
			errs := make(chan error, writers)
			start := make(chan struct{})
			for g := 0; g < writers; g++ {
				wg.Add(1)
				go func(g int) {
					defer wg.Done()
					<-start
					for i := 0; i < per; i++ {
						info := audit.New("key", "ps", crypto.SHA256)
						info.Attributes["client.filename"] = fmt.Sprintf("w%d-r%d-", g, i) + strings.Repeat("x", sizes[(g+i)%len(sizes)])
						if err := info.AppendTo(path); err != nil {
							errs <- err
							return
						}
					}
				}(g)
			}
			close(start)
			wg.Wait()
			close(errs)
			fail := func(f string, args ...any) {
				desc["error"] = fmt.Sprintf(f, args...)
				evid.SaveCase(test, desc)
				os.Remove(path)
				t.Fatalf("%s %v", desc["error"], desc)
			}
			for err := range errs {
				fail("AppendTo failed: %v", err)
			}
			f, err := os.Open(path)
			if err != nil {
				fail("audit file missing: %v", err)
			}
			seen := map[string]int{}
			sc := bufio.NewScanner(f)
			sc.Buffer(make([]byte, 1<<20), 1<<26)
			lines := 0
			for sc.Scan() {
				lines++
				var m map[string]any
				if err := json.Unmarshal(sc.Bytes(), &m); err != nil {
					f.Close()
					fail("audit line %d is not one JSON object (%v): %.120q", lines, err, sc.Text())
				}
				name, _ := m["client.filename"].(string)
				if i := strings.Index(name, "-x"); i >= 0 {
					name = name[:i+1]
				}
				seen[name]++
			}
			f.Close()
			os.Remove(path)
			if lines != writers*per {
				fail("%d audit lines for %d appended records", lines, writers*per)
			}
			for g := 0; g < writers; g++ {
				for i := 0; i < per; i++ {
					if n := seen[fmt.Sprintf("w%d-r%d-", g, i)]; n != 1 {
						fail("record w%d-r%d is in the file %d times", g, i, n)
					}
				}
			}
		}
	})
}
