package c16

// Tokens that reach the embedding step without the HTTP client's sanity check (a cached
// token, a custom Timestamper): whatever TimestampAndMarshal emits must carry a token a
// third party accepts - signed over the attributes as they are emitted, the message-digest
// attribute once and equal to the digest of the emitted content, the imprint that of the
// host signature value.

import (
	"bytes"
	"context"
	"crypto"
	"crypto/ecdsa"
	"crypto/rand"
	"crypto/rsa"
	"crypto/sha256"
	"crypto/x509"
	"fmt"
	"io"
	"math/big"
	"testing"

	"pgregory.net/rapid"

	"github.com/sassoftware/relic/v8/lib/pkcs7"
	"github.com/sassoftware/relic/v8/lib/pkcs9"
	"github.com/sassoftware/relic/v8/xverif/der"
	"github.com/sassoftware/relic/v8/xverif/keys"
	"github.com/sassoftware/relic/v8/xverif/tsa"
)

type scriptedStamper struct {
	a         *tsa.Authority
	behaviour tsa.Behaviour
	tokenDER  []byte
}

func (s *scriptedStamper) Timestamp(ctx context.Context, req *pkcs9.Request) (*pkcs7.ContentInfoSignedData, error) {
	h := req.Hash.New()
	h.Write(req.EncryptedDigest)
	reqDER, err := tsa.MarshalRequest(req.Hash, h.Sum(nil), big.NewInt(0x1234567), true)
	if err != nil {
		return nil, err
	}
	_, _, body := s.a.Respond(reqDER, s.behaviour)
	_, tok, err := tsa.ExtractToken(body)
	if err != nil || tok == nil {
		return nil, fmt.Errorf("no token: %v", err)
	}
	s.tokenDER = tok
	return pkcs7.Unmarshal(tok)
}

func TestC16_TokensBehindTheClient(t *testing.T) {
	const test = "TestC16_TokensBehindTheClient"
	rapid.Check(t, func(t *rapid.T) {
		a := gkeys.TSA.Clone()
		a.IncludeCerts = true
		a.HashForSigning = rapid.SampledFrom([]crypto.Hash{crypto.SHA256, crypto.SHA384}).Draw(t, "tsahash")
		behaviour := rapid.SampledFrom([]tsa.Behaviour{tsa.Valid, tsa.AttrsSignedSorted, tsa.ContentSwapped, tsa.DuplicateDigestAttr, tsa.BadTokenSignature, tsa.WrongImprint}).Draw(t, "behaviour")
		key := rapid.SampledFrom([]string{"p256a", "rsa2048a"}).Draw(t, "key")
		hostHash := rapid.SampledFrom([]crypto.Hash{crypto.SHA256, crypto.SHA1, crypto.SHA512}).Draw(t, "hosthash")
		authenticode := rapid.Bool().Draw(t, "authenticode")
		desc := map[string]any{"behaviour": behaviour.String(), "tsa_hash": a.HashForSigning.String(), "key": key, "host_hash": hostHash.String(), "authenticode_attribute": authenticode}
		rec.Case(fmt.Sprintf("behind|%v|%v|%s|%v|%v", behaviour, a.HashForSigning, key, hostHash, authenticode), "token-behind-client/"+behaviour.String(), behaviour != tsa.Valid)
		rec.Sample("token-behind-client", desc)
		sb := pkcs7.NewBuilder(keys.Key(key), []*x509.Certificate{env.Leaf[key], env.Inter.Cert}, hostHash)
		if err := sb.SetContentData([]byte("payload")); err != nil {
			t.Fatal(err)
		}
		host, err := sb.Sign()
		if err != nil {
			t.Fatalf("builder: %v", err)
		}
		st := &scriptedStamper{a: a, behaviour: behaviour}
		ts, err := pkcs9.TimestampAndMarshal(context.Background(), host, st, authenticode)
		if err != nil {
			if behaviour == tsa.Valid {
				fail(t, test, "valid", nil, st.tokenDER, "a correct token is refused: %v", err)
			}
			return // refused: nothing is emitted
		}
		sd, err := der.ParseSignedData(ts.Raw)
		if err != nil {
			fail(t, test, behaviour.String(), nil, ts.Raw, "independent parser rejects relic's output: %v", err)
		}
		found := 0
		for _, ua := range sd.SignerInfos[0].UnsignedAttrs {
			for _, v := range ua.Values {
				if _, err := der.ParseSignedData(v.Raw); err != nil {
					continue
				}
				found++
				if _, err := der.VerifyToken(v.Raw, sd.SignerInfos[0].Signature, sd.Certificates); err != nil {
					fail(t, test, behaviour.String(), nil, ts.Raw, "relic accepted a token (authority behaviour %v) and emits a signature whose timestamp token an independent verifier rejects: %v", behaviour, err)
				}
			}
		}
		if found != 1 {
			fail(t, test, behaviour.String(), nil, ts.Raw, "%d timestamp tokens in the emitted signature, want 1", found)
		}
	})
}

// berCertificate re-issues a certificate with one non-minimal length inside its signed
// part (the serial number's length in long form), signed by the CA over exactly those
// bytes: a certificate from an issuer that writes BER. Re-encoding it to DER breaks the
// issuer's signature.
func berCertificate(derCert []byte, caKey crypto.Signer) ([]byte, error) {
	top, err := der.ParseAll(derCert)
	if err != nil {
		return nil, err
	}
	kids, err := top.Children()
	if err != nil || len(kids) != 3 {
		return nil, fmt.Errorf("certificate shape")
	}
	tbsKids, err := kids[0].Children()
	if err != nil || len(tbsKids) < 6 {
		return nil, fmt.Errorf("tbs shape")
	}
	si := 0
	if tbsKids[0].Class != 0 {
		si = 1 // [0] version first
	}
	serial := tbsKids[si]
	if len(serial.Content) > 127 {
		return nil, fmt.Errorf("serial too long")
	}
	var content []byte
	for i, k := range tbsKids {
		if i == si {
			content = append(content, 0x02, 0x81, byte(len(serial.Content)))
			content = append(content, serial.Content...)
		} else {
			content = append(content, k.Raw...)
		}
	}
	tbs := der.EncTLV(0, true, 16, content)
	sum := sha256.Sum256(tbs)
	sig, err := caKey.Sign(rand.Reader, sum[:], crypto.SHA256)
	if err != nil {
		return nil, err
	}
	return der.EncSeq(tbs, kids[1].Raw, der.EncBitString(sig, 0)), nil
}

// certSignatureGood checks the issuer's signature over a certificate as it is encoded.
func certSignatureGood(raw []byte, ca *x509.Certificate) error {
	top, err := der.ParseAll(raw)
	if err != nil {
		return err
	}
	kids, err := top.Children()
	if err != nil || len(kids) != 3 || len(kids[2].Content) < 2 {
		return fmt.Errorf("certificate shape")
	}
	sum := sha256.Sum256(kids[0].Raw)
	switch pub := ca.PublicKey.(type) {
	case *rsa.PublicKey:
		return rsa.VerifyPKCS1v15(pub, crypto.SHA256, sum[:], kids[2].Content[1:])
	case *ecdsa.PublicKey:
		if !ecdsa.VerifyASN1(pub, sum[:], kids[2].Content[1:]) {
			return fmt.Errorf("ECDSA verification failed")
		}
		return nil
	}
	return fmt.Errorf("unsupported CA key")
}

// TestC16_BERCertificateInReply: an authority whose certificate was issued in BER (a
// non-minimal length inside the signed part). relic may refuse the reply - its parser is
// DER-only - but if it takes it, the certificate must travel byte for byte: the issuer's
// signature over the emitted certificate still verifies.
func TestC16_BERCertificateInReply(t *testing.T) {
	const test = "TestC16_BERCertificateInReply"
	x, err := x509.ParseCertificate(gkeys.TSA.Cert.Raw)
	if err != nil || x.SignatureAlgorithm != x509.SHA256WithRSA {
		t.Fatalf("harness: authority certificate: %v %v", err, x.SignatureAlgorithm)
	}
	ber, err := berCertificate(gkeys.TSA.Cert.Raw, gkeys.CAKey)
	if err != nil {
		t.Fatalf("harness: %v", err)
	}
	if err := certSignatureGood(ber, gkeys.CA); err != nil {
		t.Fatalf("harness: the BER certificate does not verify under the CA: %v", err)
	}
	if err := certSignatureGood(gkeys.TSA.Cert.Raw, gkeys.CA); err != nil {
		t.Fatalf("harness: the DER certificate does not verify under the CA: %v", err)
	}
	rapid.Check(t, func(t *rapid.T) {
		a := gkeys.TSA.Clone()
		c := *a.Cert
		c.Raw = ber
		a.Cert = &c
		a.IncludeCerts = true
		a.HashForSigning = rapid.SampledFrom([]crypto.Hash{crypto.SHA256, crypto.SHA384}).Draw(t, "tsahash")
		outerToo := rapid.Bool().Draw(t, "outer_length_non_minimal")
		ih := rapid.SampledFrom([]crypto.Hash{crypto.SHA256, crypto.SHA512}).Draw(t, "imprinthash")
		sb := pkcs7.NewBuilder(keys.Key("p256a"), []*x509.Certificate{env.Leaf["p256a"], env.Inter.Cert}, ih)
		if err := sb.SetContentData([]byte("payload")); err != nil {
			t.Fatal(err)
		}
		host, err := sb.Sign()
		if err != nil {
			t.Fatalf("builder: %v", err)
		}
		hh := ih.New()
		hh.Write(host.Content.SignerInfos[0].EncryptedDigest)
		msg, httpReq, err := pkcs9.NewRequest("http://tsa.invalid/", ih, hh.Sum(nil))
		if err != nil {
			t.Fatalf("NewRequest: %v", err)
		}
		reqDER, _ := io.ReadAll(httpReq.Body)
		_, _, body := a.Respond(reqDER, tsa.Valid)
		if outerToo && len(body) > 4 && body[1] == 0x82 {
			// 30 82 hh ll -> 30 83 00 hh ll
			body = append([]byte{0x30, 0x83, 0x00}, body[2:]...)
		}
		rec.Case(fmt.Sprintf("ber-reply|%v|%v|%v", a.HashForSigning, ih, outerToo), "ber-certificate-in-reply", true)
		rec.Sample("ber-certificate-in-reply", map[string]any{"tsa_hash": a.HashForSigning.String(), "imprint_hash": ih.String(), "outer_length_non_minimal": outerToo})
		tok, err := msg.ParseResponse(body)
		if err != nil {
			return // refused: nothing is emitted
		}
		if err := pkcs9.AddStampToSignedData(&host.Content.SignerInfos[0], *tok); err != nil {
			return
		}
		out, err := host.Marshal()
		if err != nil {
			return
		}
		sd, err := der.ParseSignedData(out)
		if err != nil {
			fail(t, test, "ber", nil, out, "independent parser rejects relic's output: %v", err)
		}
		checked := 0
		for _, ua := range sd.SignerInfos[0].UnsignedAttrs {
			for _, v := range ua.Values {
				nested, err := der.ParseSignedData(v.Raw)
				if err != nil {
					continue
				}
				for _, crt := range nested.Certificates {
					if !bytes.Contains(crt.Raw, []byte("c16 TSA")) {
						continue
					}
					checked++
					if err := certSignatureGood(crt.Raw, gkeys.CA); err != nil {
						fail(t, test, "ber", nil, out, "relic took a reply whose authority certificate is BER-encoded and emits that certificate re-encoded: the issuer's signature over it no longer verifies (%v)", err)
					}
				}
			}
		}
		if checked == 0 {
			fail(t, test, "ber", nil, out, "the emitted token does not carry the authority's certificate")
		}
	})
}
