package c16

// Tokens that reach the embedding step without the HTTP client's sanity check (a cached
// token, a custom Timestamper): whatever TimestampAndMarshal emits must carry a token a
// third party accepts - signed over the attributes as they are emitted, the message-digest
// attribute once and equal to the digest of the emitted content, the imprint that of the
// host signature value.

import (
	"context"
	"crypto"
	"crypto/x509"
	"fmt"
	"math/big"
	"testing"

	"pgregory.net/rapid"

	"github.com/sassoftware/relic/v8/lib/pkcs7"
	"github.com/sassoftware/relic/v8/lib/pkcs9"
	"github.com/sassoftware/relic/v8/xverif/der"
	"github.com/sassoftware/relic/v8/xverif/keys"
	"github.com/sassoftware/relic/v8/xverif/tsa"
)

type scriptedStamper struct {
	a         *tsa.Authority
	behaviour tsa.Behaviour
	tokenDER  []byte
}

func (s *scriptedStamper) Timestamp(ctx context.Context, req *pkcs9.Request) (*pkcs7.ContentInfoSignedData, error) {
	h := req.Hash.New()
	h.Write(req.EncryptedDigest)
	reqDER, err := tsa.MarshalRequest(req.Hash, h.Sum(nil), big.NewInt(0x1234567), true)
	if err != nil {
		return nil, err
	}
	_, _, body := s.a.Respond(reqDER, s.behaviour)
	_, tok, err := tsa.ExtractToken(body)
	if err != nil || tok == nil {
		return nil, fmt.Errorf("no token: %v", err)
	}
	s.tokenDER = tok
	return pkcs7.Unmarshal(tok)
}

func TestC16_TokensBehindTheClient(t *testing.T) {
	const test = "TestC16_TokensBehindTheClient"
	rapid.Check(t, func(t *rapid.T) {
		a := gkeys.TSA.Clone()
		a.IncludeCerts = true
		a.HashForSigning = rapid.SampledFrom([]crypto.Hash{crypto.SHA256, crypto.SHA384}).Draw(t, "tsahash")
		behaviour := rapid.SampledFrom([]tsa.Behaviour{tsa.Valid, tsa.AttrsSignedSorted, tsa.ContentSwapped, tsa.DuplicateDigestAttr, tsa.BadTokenSignature, tsa.WrongImprint}).Draw(t, "behaviour")
		key := rapid.SampledFrom([]string{"p256a", "rsa2048a"}).Draw(t, "key")
		hostHash := rapid.SampledFrom([]crypto.Hash{crypto.SHA256, crypto.SHA1, crypto.SHA512}).Draw(t, "hosthash")
		authenticode := rapid.Bool().Draw(t, "authenticode")
		desc := map[string]any{"behaviour": behaviour.String(), "tsa_hash": a.HashForSigning.String(), "key": key, "host_hash": hostHash.String(), "authenticode_attribute": authenticode}
		rec.Case(fmt.Sprintf("behind|%v|%v|%s|%v|%v", behaviour, a.HashForSigning, key, hostHash, authenticode), "token-behind-client/"+behaviour.String(), behaviour != tsa.Valid)
		rec.Sample("token-behind-client", desc)
		sb := pkcs7.NewBuilder(keys.Key(key), []*x509.Certificate{env.Leaf[key], env.Inter.Cert}, hostHash)
		if err := sb.SetContentData([]byte("payload")); err != nil {
			t.Fatal(err)
		}
		host, err := sb.Sign()
		if err != nil {
			t.Fatalf("builder: %v", err)
		}
		st := &scriptedStamper{a: a, behaviour: behaviour}
		ts, err := pkcs9.TimestampAndMarshal(context.Background(), host, st, authenticode)
		if err != nil {
			if behaviour == tsa.Valid {
				fail(t, test, "valid", nil, st.tokenDER, "a correct token is refused: %v", err)
			}
			return // refused: nothing is emitted
		}
		sd, err := der.ParseSignedData(ts.Raw)
		if err != nil {
			fail(t, test, behaviour.String(), nil, ts.Raw, "independent parser rejects relic's output: %v", err)
		}
		found := 0
		for _, ua := range sd.SignerInfos[0].UnsignedAttrs {
			for _, v := range ua.Values {
				if _, err := der.ParseSignedData(v.Raw); err != nil {
					continue
				}
				found++
				if _, err := der.VerifyToken(v.Raw, sd.SignerInfos[0].Signature, sd.Certificates); err != nil {
					fail(t, test, behaviour.String(), nil, ts.Raw, "relic accepted a token (authority behaviour %v) and emits a signature whose timestamp token an independent verifier rejects: %v", behaviour, err)
				}
			}
		}
		if found != 1 {
			fail(t, test, behaviour.String(), nil, ts.Raw, "%d timestamp tokens in the emitted signature, want 1", found)
		}
	})
}
