// C16 — CMS structures survive parsing and re-encoding bit-exactly.
package c16

import (
	"bytes"
	"crypto"
	"crypto/rand"
	"crypto/sha256"
	"crypto/x509"
	"crypto/x509/pkix"
	"encoding/asn1"
	"fmt"
	"github.com/sassoftware/relic/v8/config"
	"io"
	"math/big"
	"os"
	"os/exec"
	"path/filepath"
	"strings"
	"testing"
	"time"

	"pgregory.net/rapid"

	"github.com/sassoftware/relic/v8/lib/pkcs7"
	"github.com/sassoftware/relic/v8/lib/pkcs9"
	"github.com/sassoftware/relic/v8/xverif/arts"
	"github.com/sassoftware/relic/v8/xverif/cfb"
	"github.com/sassoftware/relic/v8/xverif/cmsgen"
	"github.com/sassoftware/relic/v8/xverif/der"
	"github.com/sassoftware/relic/v8/xverif/evid"
	"github.com/sassoftware/relic/v8/xverif/keys"
	"github.com/sassoftware/relic/v8/xverif/known"
	"github.com/sassoftware/relic/v8/xverif/pegen"
	"github.com/sassoftware/relic/v8/xverif/pipe"
	"github.com/sassoftware/relic/v8/xverif/tsa"
)

var (
	rec      = evid.New("C16")
	knownSet = known.Load("C16")
	env      *pipe.Env
	workDir  string
	gkeys    cmsgen.Keys
)

func TestMain(m *testing.M) {
	rec.Rule("cases = (a) harness-built third-party-style SignedData (unsorted signed attributes, extra attributes, several certificates/CRLs in any order, 1-3 SignerInfos, RSA PKCS#1 / RSA-PSS / ECDSA, NULL vs absent digest parameters, nested PKCS#9 countersignatures and RFC 3161 tokens, attached/detached data and non-data content) passed through pkcs7.Unmarshal -> Marshal / Detach / timestamp embedding; (b) harness-TSA tokens in many option combinations through Unmarshal -> Marshal and embedding; (c) the PKCS#7 inside relic's own PE, MSI, PowerShell, JAR and catalog outputs for drawn key and digest; oracle = every signed region located by an independent DER walker is byte-identical before/after and all signatures (incl. nested ones) still verify with Go crypto (OpenSSL for a sample); relic outputs carry content-type and message-digest exactly once, consistent with the content, and the signature covers exactly the emitted SET OF bytes; defective tokens handed to TimestampAndMarshal by a scripted Timestamper: refused, or the emitted token passes the independent token verifier; non-trivial = value with >= 3 encoding-quirk classes or a nested token/countersignature; distinct = sha256 of the DER + operation")
	rec.Assume("BER framing and subjectKeyIdentifier signer ids are not fed to relic (its parser refuses them explicitly); RSA-PSS values are round-tripped but relic's own verifier is not asked to accept them")
	var err error
	workDir, err = os.MkdirTemp("", "c16-")
	if err != nil {
		panic(err)
	}
	env, err = pipe.Setup(workDir)
	if err != nil {
		panic(err)
	}
	gkeys = makeKeys()
	if err := addForeignIssuerKey(); err != nil {
		panic(err)
	}
	code := m.Run()
	rec.Flush()
	os.RemoveAll(workDir)
	os.Exit(code)
}

func makeKeys() cmsgen.Keys {
	now := time.Date(2026, 1, 2, 3, 4, 5, 0, time.UTC)
	ca := keys.NewCA("c16 CA", keys.Key("rsa2048c"), nil, keys.Epoch, keys.Far)
	k := cmsgen.Keys{CA: ca.Cert, CAKey: ca.Key, Now: now}
	for i, name := range []string{"rsa2048a", "p256a", "p384a", "rsa2048b"} {
		leaf, err := cmsgen.NewLeaf(keys.Key(name), ca.Key, ca.Cert, now, "c16 signer "+name, int64(100+i))
		if err != nil {
			panic(err)
		}
		k.Signers = append(k.Signers, cmsgen.KeyPair{Name: name, Key: keys.Key(name), Cert: leaf})
	}
	k.Unrelated = []*x509.Certificate{keys.SelfSigned("unrelated", keys.Key("p521b"), nil)}
	auth, err := tsa.NewAuthority(keys.Key("p256b"), ca.Key, ca.Cert, now, "c16 TSA")
	if err != nil {
		panic(err)
	}
	k.TSA = auth
	// revocation lists travelling inside the SignedData: one made by Go, one encoded the
	// way another issuer might (a re-encoding would not reproduce its bytes)
	if crl, err := x509.CreateRevocationList(rand.Reader, &x509.RevocationList{Number: big.NewInt(3), ThisUpdate: now.Add(-time.Hour), NextUpdate: now.AddDate(0, 1, 0),
		RevokedCertificateEntries: []x509.RevocationListEntry{{SerialNumber: big.NewInt(0xbeef), RevocationTime: now.Add(-2 * time.Hour)}}}, ca.Cert, ca.Key); err == nil {
		k.CRLs = append(k.CRLs, crl)
	} else {
		panic(err)
	}
	foreign, err := cmsgen.ForeignCRL(ca.Key, now)
	if err != nil {
		panic(err)
	}
	k.CRLs = append(k.CRLs, foreign)
	return k
}

// outputKeys are the configured keys relic signs with in TestC16_RelicOutputs: the pool
// keys plus one whose certificate was issued by a CA that encodes its name differently
// from Go (UTF8String / IA5String / T61String values): the issuer bytes relic copies into
// the SignerInfo must be the certificate's own.
var outputKeys = append(append([]string{}, pipe.SigningKeys...), "foreign-issuer", "foreign-issuer")

func addForeignIssuerKey() error {
	caKey := keys.Key("p384b")
	name := der.EncSeq(
		der.EncSet(der.EncSeq(der.EncOID("2.5.4.6"), der.EncTLV(der.ClassUniversal, false, 19, []byte("DE")))),
		der.EncSet(der.EncSeq(der.EncOID("2.5.4.10"), der.EncUTF8("Example Corp"))),
		der.EncSet(der.EncSeq(der.EncOID("2.5.4.11"), der.EncTLV(der.ClassUniversal, false, 20, []byte("Signing Unit")))), // T61String
		der.EncSet(der.EncSeq(der.EncOID("2.5.4.3"), der.EncUTF8("Example Code Signing CA"))),
	)
	caTpl := &x509.Certificate{SerialNumber: big.NewInt(0x5151), RawSubject: name, NotBefore: keys.Epoch, NotAfter: keys.Far,
		KeyUsage: x509.KeyUsageCertSign | x509.KeyUsageCRLSign, IsCA: true, BasicConstraintsValid: true}
	caDER, err := x509.CreateCertificate(rand.Reader, caTpl, caTpl, caKey.Public(), caKey)
	if err != nil {
		return err
	}
	caCert, err := x509.ParseCertificate(caDER)
	if err != nil {
		return err
	}
	leafTpl := &x509.Certificate{SerialNumber: big.NewInt(2), Subject: pkix.Name{CommonName: "c16 foreign-issued signer"}, NotBefore: keys.Epoch, NotAfter: keys.Far,
		KeyUsage: x509.KeyUsageDigitalSignature, ExtKeyUsage: []x509.ExtKeyUsage{x509.ExtKeyUsageCodeSigning}}
	leafDER, err := x509.CreateCertificate(rand.Reader, leafTpl, caCert, keys.Key("p256a").Public(), caKey)
	if err != nil {
		return err
	}
	leaf, err := x509.ParseCertificate(leafDER)
	if err != nil {
		return err
	}
	if !bytes.Equal(leaf.RawIssuer, name) {
		return fmt.Errorf("harness: issuer name was re-encoded by the certificate builder")
	}
	crt := filepath.Join(workDir, "foreign-issuer.crt")
	if err := os.WriteFile(crt, keys.CertPEM(leaf, caCert), 0o644); err != nil {
		return err
	}
	cfg := env.Cfg
	cfg.Keys["foreign-issuer"] = &config.KeyConfig{Token: "file", KeyFile: cfg.Keys["p256a"].KeyFile, X509Certificate: crt, Roles: []string{"signer"}}
	if err := env.Install(cfg); err != nil {
		return err
	}
	env.Leaf["foreign-issuer"] = leaf
	return nil
}

func regionsOf(t *rapid.T, raw []byte) (map[string][]byte, *der.SignedData) {
	sd, err := der.ParseSignedData(raw)
	if err != nil {
		t.Fatalf("independent parser rejects the value: %v", err)
	}
	out := map[string][]byte{}
	for _, r := range sd.SignedRegions() {
		out[r.Label] = r.Bytes(raw)
	}
	return out, sd
}

// compareRegions: SET OF members (SignerInfos) may legitimately be re-ordered by a DER
// encoder, so regions are matched by content, not by positional label: every signed
// byte string present before must be present, byte-identical, after.
func compareRegions(before, after map[string][]byte) string {
	have := map[string]int{}
	for _, a := range after {
		have[string(a)]++
	}
	for label, b := range before {
		if have[string(b)] == 0 {
			return fmt.Sprintf("signed region %q (%d bytes) is not present byte-identically after re-encoding", label, len(b))
		}
		have[string(b)]--
	}
	return ""
}

type failDesc struct {
	Op      string   `json:"op"`
	Classes []string `json:"classes"`
	DERHex  string   `json:"der_hex"`
	Error   string   `json:"error"`
}

func fail(t *rapid.T, test, op string, classes []string, raw []byte, format string, args ...any) {
	msg := fmt.Sprintf(format, args...)
	evid.SaveCase(test, failDesc{op, classes, fmt.Sprintf("%x", raw), msg})
	t.Fatalf("%s: %s [classes %v]", op, msg, classes)
}

func nontrivial(b *cmsgen.Built) bool {
	n := 0
	for _, c := range b.Classes {
		if strings.HasPrefix(c, "unsigned:countersig") || strings.HasPrefix(c, "unsigned:tst") {
			return true
		}
		if strings.HasPrefix(c, "attrs:unsorted") || strings.HasPrefix(c, "attr:") || strings.HasPrefix(c, "certs:un") || strings.HasPrefix(c, "crls:") || strings.HasPrefix(c, "sig:rsa-pss") || strings.HasPrefix(c, "signers:2") || strings.HasPrefix(c, "signers:3") || strings.HasPrefix(c, "digest-params:absent") {
			n++
		}
	}
	return n >= 3
}

// TestC16_RoundTrip: Marshal(Unmarshal(x)) keeps every signed region and all signatures valid.
func TestC16_RoundTrip(t *testing.T) {
	opensslEvery := 0
	rapid.Check(t, func(t *rapid.T) {
		const test = "TestC16_RoundTrip"
		b := cmsgen.BuildWith(t, gkeys, cmsgen.Options{NoSKI: true, NoBER: true})
		before, sdBefore := regionsOf(t, b.DER)
		if err := sdBefore.VerifyAll(b.Content); err != nil {
			t.Fatalf("harness error: generated value does not verify: %v", err)
		}
		op := rapid.SampledFrom([]string{"roundtrip", "roundtrip", "detach", "resign"}).Draw(t, "op")
		rec.Case(fmt.Sprintf("%x|%s", sha256.Sum256(b.DER), op), op+"/"+b.ContentType, nontrivial(b))
		if nontrivial(b) {
			rec.Sample(op, map[string]any{"op": op, "classes": b.Classes, "der_len": len(b.DER)})
		}
		psd, err := pkcs7.Unmarshal(b.DER)
		if err != nil {
			fail(t, test, op, b.Classes, b.DER, "relic cannot parse a valid SignedData: %v", err)
		}
		content := b.Content
		if op == "resign" {
			// the way a catalog is re-signed: a new signature over the parsed ContentInfo,
			// which must be emitted exactly as it was read
			if sdBefore.Detached {
				op = "roundtrip"
			} else {
				rk := rapid.SampledFrom([]string{"rsa2048b", "p256b"}).Draw(t, "resign_key")
				sb := pkcs7.NewBuilder(keys.Key(rk), []*x509.Certificate{keys.SelfSigned("resigner "+rk, keys.Key(rk), nil)}, crypto.SHA256)
				if err := sb.SetContentInfo(psd.Content.ContentInfo); err != nil {
					fail(t, test, op, b.Classes, b.DER, "SetContentInfo: %v", err)
				}
				npsd, err := sb.Sign()
				if err != nil {
					fail(t, test, op, b.Classes, b.DER, "re-signing: %v", err)
				}
				out, err := npsd.Marshal()
				if err != nil {
					fail(t, test, op, b.Classes, b.DER, "Marshal: %v", err)
				}
				_, sdNew := regionsOf(t, out)
				if sdNew.EContentType != sdBefore.EContentType {
					fail(t, test, op, b.Classes, b.DER, "re-signed value names content type %s, the original %s", sdNew.EContentType, sdBefore.EContentType)
				}
				if got, want := sdNew.EContent.Raw, sdBefore.EContent.Raw; !bytes.Equal(want, got) {
					fail(t, test, op, b.Classes, b.DER, "re-signed value carries different content bytes: %x... (was %x...)", clipb(got), clipb(want))
				}
				if err := sdNew.VerifyAll(content); err != nil {
					fail(t, test, op, b.Classes, b.DER, "the new signature does not verify over the carried content: %v", err)
				}
				return
			}
		}
		if op == "detach" {
			if b.Has("content:data-detached") {
				op = "roundtrip"
			} else {
				got, err := psd.Detach()
				if err != nil {
					fail(t, test, op, b.Classes, b.DER, "Detach: %v", err)
				}
				content = got
			}
		}
		out, err := psd.Marshal()
		if err != nil {
			fail(t, test, op, b.Classes, b.DER, "Marshal: %v", err)
		}
		after, sdAfter := regionsOf(t, out)
		if op == "detach" {
			// the content moved out; it must be exactly what was signed
			want := before["eContent"]
			delete(before, "eContent")
			for k := range before {
				if strings.HasPrefix(k, "eContent.") {
					delete(before, k)
				}
			}
			if !sdAfter.Detached {
				fail(t, test, op, b.Classes, b.DER, "content still present after Detach")
			}
			if want != nil && !bytes.Equal(content, sdBefore.EContentValueBytes) {
				fail(t, test, op, b.Classes, b.DER, "Detach returned %d bytes that differ from the signed content (%d bytes)", len(content), len(sdBefore.EContentValueBytes))
			}
		}
		if msg := compareRegions(before, after); msg != "" {
			fail(t, test, op, b.Classes, b.DER, "%s", msg)
		}
		if err := sdAfter.VerifyAll(content); err != nil {
			fail(t, test, op, b.Classes, b.DER, "signatures no longer verify after re-encoding: %v", err)
		}
		// OpenSSL cross-check on a sample of plain id-data values
		if b.ContentType == der.OIDData && !b.Has("sig:ecdsa-bare-oid") && opensslEvery%25 == 0 {
			if msg := opensslVerify(out, content, sdAfter.Detached); msg != "" {
				fail(t, test, op, b.Classes, b.DER, "openssl cms -verify rejects the re-encoded value: %s", msg)
			}
			rec.Add("openssl_cross_checks", 1)
		}
		opensslEvery++
	})
}

func kindOf(key string) string {
	if key == "foreign-issuer" {
		return "foreign-issuer"
	}
	return keys.Kind(key)
}

func clipb(b []byte) []byte {
	if len(b) > 24 {
		return b[:24]
	}
	return b
}

func opensslVerify(p7, content []byte, detached bool) string {
	dir, _ := os.MkdirTemp(workDir, "ossl")
	defer os.RemoveAll(dir)
	sig := filepath.Join(dir, "sig.der")
	os.WriteFile(sig, p7, 0o644)
	args := []string{"cms", "-verify", "-noverify", "-binary", "-inform", "DER", "-in", sig, "-out", filepath.Join(dir, "out")}
	if detached {
		c := filepath.Join(dir, "content")
		os.WriteFile(c, content, 0o644)
		args = append(args, "-content", c)
	}
	out, err := exec.Command("openssl", args...).CombinedOutput()
	if err != nil {
		return strings.TrimSpace(string(out))
	}
	return ""
}

// TestC16_Tokens: timestamp tokens survive Unmarshal -> Marshal and embedding.
func TestC16_Tokens(t *testing.T) {
	rapid.Check(t, func(t *rapid.T) {
		const test = "TestC16_Tokens"
		a := gkeys.TSA.Clone()
		a.IncludeCerts = rapid.Bool().Draw(t, "includecerts")
		a.AddSigningCertAttr = rapid.Bool().Draw(t, "esscert")
		a.UseESSCertIDv1 = rapid.Bool().Draw(t, "essv1")
		a.HashForSigning = rapid.SampledFrom([]crypto.Hash{crypto.SHA256, crypto.SHA384, crypto.SHA512, crypto.SHA1}).Draw(t, "tsahash")
		ih := rapid.SampledFrom([]crypto.Hash{crypto.SHA1, crypto.SHA256, crypto.SHA384, crypto.SHA512}).Draw(t, "imprinthash")
		message := rapid.SliceOfN(rapid.Byte(), 1, 300).Draw(t, "signaturevalue")
		hh := ih.New()
		hh.Write(message)
		var nonce *big.Int
		if rapid.Bool().Draw(t, "nonce") {
			nonce = new(big.Int).SetUint64(rapid.Uint64().Draw(t, "noncev"))
		}
		token, err := a.Token(ih, hh.Sum(nil), nonce, a.IncludeCerts)
		if err != nil {
			t.Fatalf("harness TSA: %v", err)
		}
		if _, err := der.VerifyToken(token, message, nil); err != nil && a.IncludeCerts {
			t.Fatalf("harness error: token does not verify: %v", err)
		}
		classes := []string{fmt.Sprintf("certs=%v", a.IncludeCerts), fmt.Sprintf("ess=%v/v1=%v", a.AddSigningCertAttr, a.UseESSCertIDv1), "tsahash=" + a.HashForSigning.String(), "imprint=" + ih.String(), fmt.Sprintf("nonce=%v", nonce != nil)}
		rec.Case(fmt.Sprintf("tok|%x", sha256.Sum256(token)), "token/"+strings.Join(classes[:2], "/"), true)
		rec.Sample("token", map[string]any{"classes": classes, "token_len": len(token)})
		psd, err := pkcs7.Unmarshal(token)
		if err != nil {
			fail(t, test, "token", classes, token, "relic cannot parse a valid timestamp token: %v", err)
		}
		out, err := psd.Marshal()
		if err != nil {
			fail(t, test, "token", classes, token, "Marshal: %v", err)
		}
		before, _ := regionsOf(t, token)
		after, _ := regionsOf(t, out)
		if msg := compareRegions(before, after); msg != "" {
			fail(t, test, "token", classes, token, "%s", msg)
		}
		var extra []der.TLV
		if !a.IncludeCerts {
			tlv, _ := der.ParseAll(a.Cert.Raw)
			extra = []der.TLV{tlv}
		}
		if _, err := der.VerifyToken(out, message, extra); err != nil {
			fail(t, test, "token", classes, token, "token no longer verifies after Unmarshal/Marshal: %v", err)
		}
		// embedding into a signature built by relic's own builder
		leafKey := keys.Key("p256a")
		sb := pkcs7.NewBuilder(leafKey, []*x509.Certificate{env.Leaf["p256a"], env.Inter.Cert}, crypto.SHA256)
		if err := sb.SetContentData([]byte("payload")); err != nil {
			t.Fatal(err)
		}
		host, err := sb.Sign()
		if err != nil {
			t.Fatalf("builder: %v", err)
		}
		authenticodeOID := rapid.Bool().Draw(t, "authenticode_oid")
		if authenticodeOID {
			err = pkcs9.AddStampToSignedAuthenticode(&host.Content.SignerInfos[0], *psd)
		} else {
			err = pkcs9.AddStampToSignedData(&host.Content.SignerInfos[0], *psd)
		}
		if err != nil {
			fail(t, test, "embed", classes, token, "embedding: %v", err)
		}
		hostDER, err := host.Marshal()
		if err != nil {
			fail(t, test, "embed", classes, token, "Marshal host: %v", err)
		}
		hsd, err := der.ParseSignedData(hostDER)
		if err != nil {
			fail(t, test, "embed", classes, hostDER, "host with embedded token unparsable: %v", err)
		}
		toks := hsd.SignerInfos[0].TimestampTokens()
		if len(toks) != 1 {
			fail(t, test, "embed", classes, hostDER, "%d embedded tokens, want 1", len(toks))
		}
		emb, _ := regionsOf(t, toks[0])
		if msg := compareRegions(before, emb); msg != "" {
			fail(t, test, "embed", classes, token, "embedded token: %s", msg)
		}
	})
}

// TestC16_RelicOutputs: the PKCS#7 inside relic's own outputs is self-consistent.
func TestC16_RelicOutputs(t *testing.T) {
	n := 0
	rapid.Check(t, func(t *rapid.T) {
		const test = "TestC16_RelicOutputs"
		format := rapid.SampledFrom([]string{"pe", "msi", "ps", "jar", "cat", "cat", "macho"}).Draw(t, "format")
		key := rapid.SampledFrom(outputKeys).Draw(t, "key")
		h := rapid.SampledFrom([]crypto.Hash{crypto.SHA1, crypto.SHA256, crypto.SHA384, crypto.SHA512}).Draw(t, "hash")
		if format == "macho" {
			h = crypto.SHA256 // code directories take SHA-1 / SHA-256 only
		}
		arts.ExcludePEFewDirs = true
		arts.ExcludeJAREdgeSpace = true
		a := arts.Gen(t, format)
		n++
		dir := filepath.Join(workDir, fmt.Sprintf("o%d", n))
		os.Mkdir(dir, 0o755)
		defer os.RemoveAll(dir)
		p := filepath.Join(dir, a.Name)
		os.WriteFile(p, a.Data, 0o644)
		flags := map[string]string{}
		if format == "jar" && rapid.Bool().Draw(t, "inline") {
			flags["inline-signature"] = "true"
		}
		if err := env.SignLib(&pipe.Req{SigType: a.SigType, In: p, Key: key, Hash: h, Flags: flags}); err != nil {
			t.Fatalf("signing failed (C01's subject): %v", err)
		}
		out, _ := os.ReadFile(p)
		p7, detached, err := extractPKCS7(format, out)
		classes := []string{format, key, h.String(), fmt.Sprint(flags)}
		if err != nil {
			fail(t, test, "extract", classes, out[:min(len(out), 2000)], "cannot locate the PKCS#7 in relic's output: %v", err)
		}
		rec.Case(fmt.Sprintf("out|%s|%s|%s|%v|%s", format, key, h, flags, arts.SHA(a.Data)), "relic-output/"+format+"/"+kindOf(key), true)
		rec.Sample("relic-output/"+format, map[string]any{"format": format, "key": key, "digest": h.String(), "flags": flags, "pkcs7_len": len(p7)})
		sd, err := der.ParseSignedData(p7)
		if err != nil {
			fail(t, test, "parse", classes, p7, "relic's PKCS#7 is rejected by the independent parser: %v", err)
		}
		if len(sd.SignerInfos) != 1 {
			fail(t, test, "parse", classes, p7, "%d SignerInfos", len(sd.SignerInfos))
		}
		// content-type / message-digest exactly once and consistent; signature over exact SET OF bytes
		if err := sd.VerifySigner(&sd.SignerInfos[0], detached); err != nil {
			fail(t, test, "verify", classes, p7, "independent verification of relic's SignerInfo failed: %v", err)
		}
		hoid, _ := der.OIDByHash(h)
		// (the digest of an Apple CMS follows the code directories, not --digest)
		if format != "macho" && sd.SignerInfos[0].DigestAlgOID != hoid {
			fail(t, test, "verify", classes, p7, "digest algorithm %s, requested %s", sd.SignerInfos[0].DigestAlgOID, hoid)
		}
		leaf, err := sd.FindCert(&sd.SignerInfos[0])
		if err != nil || !bytes.Equal(leaf.Raw, env.Leaf[key].Raw) {
			fail(t, test, "verify", classes, p7, "signer certificate is not the configured leaf: %v", err)
		}
		if si := sd.SignerInfos[0]; si.IssuerRaw != nil && !bytes.Equal(si.IssuerRaw, env.Leaf[key].RawIssuer) {
			fail(t, test, "verify", classes, p7, "the issuer name in the SignerInfo (%x...) is not the certificate's issuer field byte for byte (%x...)", clipb(si.IssuerRaw), clipb(env.Leaf[key].RawIssuer))
		}
		if format == "cat" {
			// re-signing a catalog must carry the CTL over byte for byte
			orig, _ := der.ParseSignedData(a.Data)
			if !bytes.Equal(orig.EContent.Raw, sd.EContent.Raw) {
				fail(t, test, "cat", classes, p7, "catalog content changed by re-signing (%d -> %d bytes)", len(orig.EContent.Raw), len(sd.EContent.Raw))
			}
		}
		// and relic's own round trip of its own output keeps it intact
		psd, err := pkcs7.Unmarshal(p7)
		if err != nil {
			fail(t, test, "reparse", classes, p7, "relic cannot parse its own PKCS#7: %v", err)
		}
		again, err := psd.Marshal()
		if err != nil || !bytes.Equal(again, p7) {
			fail(t, test, "reparse", classes, p7, "Marshal(Unmarshal(x)) of relic's own output is not byte-identical (err=%v)", err)
		}
	})
}

func extractPKCS7(format string, data []byte) (p7, detached []byte, err error) {
	switch format {
	case "pe":
		tbl, e := pegen.CertTable(data)
		if e != nil {
			return nil, nil, e
		}
		ents, e := pegen.ParseCertTable(tbl)
		if e != nil || len(ents) != 1 {
			return nil, nil, fmt.Errorf("certificate table entries: %d %v", len(ents), e)
		}
		p7 = ents[0].Data
	case "msi":
		f, e := cfb.Parse(data)
		if e != nil {
			return nil, nil, e
		}
		for _, it := range f.Items() {
			if it.Path == cfb.SigStreamName {
				p7 = it.Data
			}
		}
	case "ps":
		p7, err = arts.PSSignatureBlock(data)
		if err != nil {
			return nil, nil, err
		}
	case "jar":
		p7, detached, err = arts.JARSignatureBlock(data)
		if err != nil {
			return nil, nil, err
		}
	case "cat":
		p7 = data
	case "macho":
		// Apple code signature: CMS over the first CodeDirectory blob (id-data, detached)
		p7, detached, err = arts.MachOCMS(data)
		if err != nil {
			return nil, nil, err
		}
	}
	if p7 == nil {
		return nil, nil, fmt.Errorf("no PKCS#7 found")
	}
	if tlv, _, e := der.Parse(p7); e == nil {
		p7 = tlv.Raw
	}
	return p7, detached, nil
}

var _ = asn1.Marshal

// TestC16_SingleValuedAttributes: an authority whose token carries the message digest
// twice in one attribute (RFC 5652 requires exactly one value) must not get that token
// embedded: relic either refuses the reply or what it emits has the attribute once.
func TestC16_SingleValuedAttributes(t *testing.T) {
	rapid.Check(t, func(t *rapid.T) {
		const test = "TestC16_SingleValuedAttributes"
		a := gkeys.TSA.Clone()
		a.HashForSigning = rapid.SampledFrom([]crypto.Hash{crypto.SHA256, crypto.SHA384}).Draw(t, "tsahash")
		ih := rapid.SampledFrom([]crypto.Hash{crypto.SHA256, crypto.SHA1, crypto.SHA512}).Draw(t, "imprinthash")
		message := rapid.SliceOfN(rapid.Byte(), 1, 200).Draw(t, "signaturevalue")
		hh := ih.New()
		hh.Write(message)
		behaviour := rapid.SampledFrom([]tsa.Behaviour{tsa.DuplicateDigestAttr, tsa.DuplicateDigestAttr, tsa.Valid}).Draw(t, "behaviour")
		msg, httpReq, err := pkcs9.NewRequest("http://tsa.invalid/", ih, hh.Sum(nil))
		if err != nil {
			t.Fatalf("NewRequest: %v", err)
		}
		reqDER, _ := io.ReadAll(httpReq.Body)
		_, _, body := a.Respond(reqDER, behaviour)
		rec.Case(fmt.Sprintf("attr-once|%v|%v|%v|%x", behaviour, a.HashForSigning, ih, message), "attr-once/"+behaviour.String(), behaviour != tsa.Valid)
		rec.Sample("attr-once", map[string]any{"behaviour": behaviour.String(), "tsa_hash": a.HashForSigning.String(), "imprint_hash": ih.String()})
		tok, err := msg.ParseResponse(body)
		if behaviour == tsa.Valid {
			if err != nil {
				fail(t, test, "valid", nil, body, "relic refuses a correct reply: %v", err)
			}
			return
		}
		if err != nil {
			return // refused: nothing is emitted
		}
		// accepted: look at what would be emitted
		sb := pkcs7.NewBuilder(keys.Key("p256a"), []*x509.Certificate{env.Leaf["p256a"], env.Inter.Cert}, crypto.SHA256)
		if err := sb.SetContentData([]byte("payload")); err != nil {
			t.Fatal(err)
		}
		host, err := sb.Sign()
		if err != nil {
			t.Fatalf("builder: %v", err)
		}
		if err := pkcs9.AddStampToSignedData(&host.Content.SignerInfos[0], *tok); err != nil {
			return
		}
		out, err := host.Marshal()
		if err != nil {
			return
		}
		sd, err := der.ParseSignedData(out)
		if err != nil {
			fail(t, test, "dup", nil, out, "independent parser rejects relic's output: %v", err)
		}
		for _, ua := range sd.SignerInfos[0].UnsignedAttrs {
			for _, v := range ua.Values {
				nested, err := der.ParseSignedData(v.Raw)
				if err != nil {
					continue
				}
				for _, sa := range nested.SignerInfos[0].SignedAttrs {
					if sa.OID == der.OIDAttrMessageDigest && len(sa.Values) != 1 {
						fail(t, test, "dup", nil, out, "relic accepted the authority's reply and emits a timestamp token whose message-digest attribute has %d values", len(sa.Values))
					}
				}
			}
		}
	})
}
