// C11 — malformed input yields an error, never a crash or runaway resource use.
//
// Every case runs in an isolation child (this test binary in child mode) so that a
// panic in a helper goroutine, a runtime abort or an allocation failure is observed as
// the death of the child, not of the search. The parent generates structure-aware
// corruptions of valid and signed artefacts and hands them to one entry point.
package c11

import (
	"bufio"
	"bytes"
	"crypto"
	"crypto/sha256"
	"encoding/binary"
	"encoding/json"
	"fmt"
	"github.com/sassoftware/relic/v8/config"
	"github.com/sassoftware/relic/v8/xverif/keys"
	"github.com/sassoftware/relic/v8/xverif/tsa"
	"io"
	"net/http/httptest"
	"os"
	"os/exec"
	"path/filepath"
	"runtime"
	"runtime/debug"
	"sort"
	"strconv"
	"strings"
	"syscall"
	"testing"
	"time"

	"pgregory.net/rapid"

	"github.com/sassoftware/relic/v8/lib/magic"
	"github.com/sassoftware/relic/v8/signers"
	"github.com/sassoftware/relic/v8/xverif/arts"
	"github.com/sassoftware/relic/v8/xverif/c11entry"
	"github.com/sassoftware/relic/v8/xverif/evid"
	"github.com/sassoftware/relic/v8/xverif/known"
	"github.com/sassoftware/relic/v8/xverif/pipe"
)

var (
	rec      = evid.New("C11")
	knownSet = known.Load("C11")
	env      *pipe.Env
	workDir  string
	bases    []*base
	kid      *child
	collect  = os.Getenv("VERIF_C11_COLLECT") != ""
	seenNew  = map[string]string{}
)

// resource bounds (see DESIGN.md, C11): generous multiples of what valid input needs
const (
	allocBase   = c11entry.AllocBase
	allocFactor = c11entry.AllocFactor
	cpuBaseMs   = c11entry.CPUBaseMs
	cpuPerKiB   = c11entry.CPUPerKiB
	addrSpace   = 2 << 30 // RLIMIT_AS of the child
)

type caseReq = c11entry.Req
type caseRes = c11entry.Res

type base struct {
	format, sigType, name string
	data                  []byte
	signed                bool
	upload                []byte // client transform output for this artefact (nil if the transform is the identity)
	fields                []int  // offsets of plausible offset/length fields
	stamped               bool   // carries an RFC 3161 token
}

func TestMain(m *testing.M) {
	if os.Getenv("VERIF_C11_CHILD") != "" {
		childMain()
		return
	}
	rec.Rule("cases = (entry point in {verify with integrity and chain, is-signed probe, client transform read to the end, server-side Sign on an upload body, type detection, certificate loader}, signer module forced or detected, input) where input = 1-4 structure-aware corruptions (offset/length-looking fields set to boundary values, bit flips, truncation, chunk duplication / deletion / zeroing / insertion, cross-format splices) of a valid unsigned or signed artefact of every supported type (fixtures and generated) or of the upload stream its client transform produces; each case runs in an isolation child under a 2 GiB address-space cap; oracle = child alive, no panic in any goroutine, total allocation <= 96 MiB + 512 x input size, CPU <= 15 s + 20 ms/KiB, not blocked; deterministic sweeps over the signature words (overflowing values) and over every algorithm / content-type OID (unknown values) of the signed and time-stamped bases; container-aware corruption (ZIP member re-stored with a valid CRC, xar table of contents re-deflated, XML tree mutations) in one case of four; non-trivial = the corrupted input differs from its base and still carries the type's magic (the parser proper is entered) or is an upload body; distinct = hash of (entry, module, input)")
	rec.Assume("resource proportionality is checked against fixed generous multiples, not asymptotically; wall-clock time is never used as a verdict (a blocked child is recognised by zero CPU progress while sleeping)")
	var err error
	workDir, err = os.MkdirTemp("", "c11-")
	if err != nil {
		panic(err)
	}
	env, err = pipe.Setup(workDir)
	if err != nil {
		panic(err)
	}
	// a time-stamping authority, so that signed bases also carry RFC 3161 tokens
	if a, err := tsa.NewAuthority(keys.Key("p256b"), env.Inter.Key, env.Inter.Cert, time.Now().Add(-time.Hour), "c11 tsa"); err == nil {
		srv := httptest.NewServer(a.Handler(func(int, string) tsa.Behaviour { return tsa.Valid }))
		cfg := env.Cfg
		cfg.Timestamp = &config.TimestampConfig{URLs: []string{srv.URL}, Timeout: 60}
		cfg.Keys["rsa2048a-ts"] = &config.KeyConfig{Token: "file", KeyFile: cfg.Keys["rsa2048a"].KeyFile, X509Certificate: cfg.Keys["rsa2048a"].X509Certificate, Roles: []string{"signer"}, Timestamp: true}
		if err := env.Install(cfg); err != nil {
			panic(err)
		}
	}
	if err := loadBases(); err != nil {
		fmt.Println("VERIF-INCONCLUSIVE: cannot prepare base artefacts:", err)
		os.Exit(2)
	}
	code := m.Run()
	if kid != nil {
		kid.stop()
	}
	if collect {
		var keys []string
		for k := range seenNew {
			keys = append(keys, k)
		}
		sort.Strings(keys)
		for _, k := range keys {
			fmt.Printf("NEW-SITE %s\n   %s\n", k, seenNew[k])
		}
	}
	rec.Flush()
	os.RemoveAll(workDir)
	os.Exit(code)
}

// ---------- base corpus ----------

func loadBases() error {
	add := func(b *base) {
		b.fields = findFields(b.data)
		bases = append(bases, b)
	}
	for _, format := range arts.Formats {
		for i := range arts.Fixtures[format] {
			a := arts.Fixture(format, i)
			b := &base{format: format, sigType: a.SigType, name: a.Name, data: a.Data}
			add(b)
			// signed sibling
			p := filepath.Join(workDir, "sign-"+a.Name)
			os.WriteFile(p, a.Data, 0o644)
			req := &pipe.Req{SigType: a.SigType, In: p, Key: "rsa2048a"}
			out := p
			if format == "pgp" {
				req.Flags = map[string]string{"clearsign": "true"}
				out = p + ".asc"
				req.Out = out
			}
			if err := env.SignLib(req); err == nil {
				if blob, err := os.ReadFile(out); err == nil {
					add(&base{format: format, sigType: a.SigType, name: a.Name, data: blob, signed: true})
				}
			}
			os.Remove(p)
			os.Remove(out)
			// signed + time-stamped sibling (types whose signature is a PKCS#7 or XML-DSig)
			if _, ok := env.Cfg.Keys["rsa2048a-ts"]; ok && !arts.PgpFormats[format] && format != "pgp" {
				os.WriteFile(p, a.Data, 0o644)
				if err := env.SignLib(&pipe.Req{SigType: a.SigType, In: p, Key: "rsa2048a-ts"}); err == nil {
					if blob, err := os.ReadFile(p); err == nil && bytes.Contains(blob, []byte{0x2a, 0x86, 0x48, 0x86, 0xf7, 0x0d, 0x01, 0x09, 0x10, 0x01, 0x04}) {
						add(&base{format: format, sigType: a.SigType, name: a.Name, data: blob, signed: true, stamped: true})
					}
				}
				os.Remove(p)
			}
		}
	}
	// already-signed fixtures of the repository
	for _, f := range []struct{ file, format, sigType string }{
		{"InRelease", "pgp", "pgp"}, {"Release.gpg", "pgp", "pgp"},
		{"fatfile.app/Contents/MacOS/dummy", "macho", "mach-o-fat"},
	} {
		if blob, err := os.ReadFile("/repo/functest/packages/" + f.file); err == nil {
			add(&base{format: f.format, sigType: f.sigType, name: filepath.Base(f.file), data: blob, signed: true})
		}
	}
	// upload bodies (client transform output)
	for _, b := range bases {
		if up := uploadOf(b.sigType, b.name, b.data); up != nil && !bytes.Equal(up, b.data) {
			b.upload = up
		}
	}
	if len(bases) < 30 {
		return fmt.Errorf("only %d base artefacts", len(bases))
	}
	return nil
}

func uploadOf(sigType, name string, data []byte) (out []byte) {
	defer func() {
		if recover() != nil {
			out = nil
		}
	}()
	mod := signers.ByName(sigType)
	if mod == nil || mod.Sign == nil {
		return nil
	}
	p := filepath.Join(workDir, "up-"+name)
	os.WriteFile(p, data, 0o644)
	defer os.Remove(p)
	f, err := os.Open(p)
	if err != nil {
		return nil
	}
	defer f.Close()
	flags, _ := mod.FlagsFromQuery(nil)
	tr, err := mod.GetTransform(f, signers.SignOpts{Path: p, Hash: crypto.SHA256, Flags: flags})
	if err != nil {
		return nil
	}
	r, err := tr.GetReader()
	if err != nil {
		return nil
	}
	blob, err := io.ReadAll(r)
	if err != nil {
		return nil
	}
	return blob
}

// findFields lists offsets whose little- or big-endian 32-bit (or 16-bit) value looks
// like an offset into, or a length within, the file.
func findFields(d []byte) []int {
	n := len(d)
	var out []int
	for i := 0; i+4 <= n; i++ {
		le := int(binary.LittleEndian.Uint32(d[i:]))
		be := int(binary.BigEndian.Uint32(d[i:]))
		if (le > 1 && le <= n+64) || (be > 1 && be <= n+64) {
			out = append(out, i)
		}
	}
	if len(out) > 6000 {
		step := len(out)/6000 + 1
		var thin []int
		for i := 0; i < len(out); i += step {
			thin = append(thin, out[i])
		}
		out = thin
	}
	return out
}

// ---------- mutation ----------

var extremes = []uint64{0, 1, 2, 0x7f, 0x80, 0xff, 0x100, 0x7fff, 0x8000, 0xffff, 0x10000, 0x7fffffff, 0x80000000, 0xfffffff0, 0xffffffff, 0x100000000, 0x7fffffffffffffff, 0xffffffffffffffff}

func putInt(d []byte, off, width int, v uint64, bigEndian bool) {
	if off < 0 || off+width > len(d) {
		return
	}
	for i := 0; i < width; i++ {
		sh := uint(8 * i)
		if bigEndian {
			d[off+width-1-i] = byte(v >> sh)
		} else {
			d[off+i] = byte(v >> sh)
		}
	}
}

func getInt(d []byte, off, width int, bigEndian bool) uint64 {
	var v uint64
	if off < 0 || off+width > len(d) {
		return 0
	}
	for i := 0; i < width; i++ {
		if bigEndian {
			v = v<<8 | uint64(d[off+i])
		} else {
			v |= uint64(d[off+i]) << (8 * uint(i))
		}
	}
	return v
}

func mutate(t *rapid.T, b *base, src []byte, fields []int) ([]byte, []string) {
	d := append([]byte(nil), src...)
	var ops []string
	nops := rapid.IntRange(1, 4).Draw(t, "nops")
	for k := 0; k < nops && len(d) > 0; k++ {
		op := rapid.SampledFrom([]string{"field", "field", "field", "field", "byte", "flip", "trunc", "dup", "del", "zero", "ins", "splice", "tail"}).Draw(t, "op")
		n := len(d)
		switch op {
		case "field":
			var off int
			if len(fields) > 0 && rapid.IntRange(0, 3).Draw(t, "usefield") != 0 {
				off = fields[rapid.IntRange(0, len(fields)-1).Draw(t, "fieldidx")]
			} else {
				off = rapid.IntRange(0, n-1).Draw(t, "off")
			}
			width := rapid.SampledFrom([]int{1, 2, 4, 4, 4, 8}).Draw(t, "width")
			be := rapid.Bool().Draw(t, "bigendian")
			cur := getInt(d, off, width, be)
			var v uint64
			switch rapid.IntRange(0, 7).Draw(t, "valkind") {
			case 0:
				v = cur + 1
			case 1:
				v = cur - 1
			case 2:
				v = cur * 2
			case 3:
				v = uint64(n)
			case 4:
				v = uint64(n) - cur
			case 5:
				v = cur + uint64(rapid.IntRange(-64, 64).Draw(t, "delta"))
			default:
				v = rapid.SampledFrom(extremes).Draw(t, "extreme")
			}
			putInt(d, off, width, v, be)
			ops = append(ops, fmt.Sprintf("field@%d/%d=%#x", off, width, v))
		case "byte":
			off := rapid.IntRange(0, n-1).Draw(t, "off")
			d[off] = rapid.Byte().Draw(t, "val")
			ops = append(ops, fmt.Sprintf("byte@%d", off))
		case "flip":
			off := rapid.IntRange(0, n-1).Draw(t, "off")
			d[off] ^= 1 << uint(rapid.IntRange(0, 7).Draw(t, "bit"))
			ops = append(ops, fmt.Sprintf("flip@%d", off))
		case "trunc":
			off := rapid.IntRange(0, n-1).Draw(t, "off")
			d = d[:off]
			ops = append(ops, fmt.Sprintf("trunc@%d", off))
		case "tail":
			// cut or corrupt close to the end (directories and trailers live there)
			cut := rapid.IntRange(1, min(n, 64)).Draw(t, "cut")
			d = d[:n-cut]
			ops = append(ops, fmt.Sprintf("tail-%d", cut))
		case "dup", "del", "zero":
			off := rapid.IntRange(0, n-1).Draw(t, "off")
			l := rapid.IntRange(1, min(n-off, 4096)).Draw(t, "len")
			switch op {
			case "dup":
				d = append(d[:off+l], append(append([]byte(nil), d[off:off+l]...), d[off+l:]...)...)
			case "del":
				d = append(d[:off], d[off+l:]...)
			case "zero":
				for i := off; i < off+l; i++ {
					d[i] = 0
				}
			}
			ops = append(ops, fmt.Sprintf("%s@%d+%d", op, off, l))
		case "ins":
			off := rapid.IntRange(0, n).Draw(t, "off")
			l := rapid.IntRange(1, 64).Draw(t, "len")
			fill := rapid.SampledFrom([]byte{0, 0xff, 0x41, 0x80}).Draw(t, "fill")
			d = append(d[:off], append(bytes.Repeat([]byte{fill}, l), d[off:]...)...)
			ops = append(ops, fmt.Sprintf("ins@%d+%d", off, l))
		case "splice":
			o := bases[rapid.IntRange(0, len(bases)-1).Draw(t, "other")]
			if len(o.data) == 0 {
				continue
			}
			so := rapid.IntRange(0, len(o.data)-1).Draw(t, "srcoff")
			l := rapid.IntRange(1, min(len(o.data)-so, 2048)).Draw(t, "len")
			off := rapid.IntRange(0, n-1).Draw(t, "off")
			end := min(off+l, n)
			copy(d[off:end], o.data[so:])
			ops = append(ops, fmt.Sprintf("splice@%d+%d<-%s@%d", off, l, o.name, so))
		}
	}
	return d, ops
}

// ---------- the property ----------

var entries = []string{"verify", "verify", "verify", "issigned", "transform", "transform", "sign", "sign", "magic", "certs"}

var caseNo int

func TestC11_Corruptions(t *testing.T) {
	rapid.Check(t, func(t *rapid.T) {
		b := bases[rapid.IntRange(0, len(bases)-1).Draw(t, "base")]
		entry := rapid.SampledFrom(entries).Draw(t, "entry")
		src, fields := b.data, b.fields
		sigType := b.sigType
		useUpload := false
		if entry == "sign" {
			if b.signed && rapid.Bool().Draw(t, "skip_signed") {
				// signing an already signed file is valid too; keep both
			}
			if b.upload != nil && rapid.IntRange(0, 3).Draw(t, "corrupt_upload") != 0 {
				src, fields, useUpload = b.upload, findFieldsCached(b.upload), true
			}
		}
		if rapid.IntRange(0, 9).Draw(t, "force_other_module") == 0 {
			sigType = bases[rapid.IntRange(0, len(bases)-1).Draw(t, "othermod")].sigType
		}
		var data []byte
		var ops []string
		if !useUpload && rapid.IntRange(0, 3).Draw(t, "inner") == 0 {
			// damage inside a container whose framing (CRCs, compressed lengths) stays valid
			if d, o, ok := innerMutate(t, b, src); ok {
				data, ops = d, o
			}
		}
		if data == nil {
			data, ops = mutate(t, b, src, fields)
		}
		if entry == "sign" && !useUpload && b.upload != nil {
			// corrupt the artefact first; the child lets the client transform build the body
			entry = "transform-sign"
		}
		runCase(t, b, entry, sigType, data, ops, useUpload)
	})
}

var fieldCache = map[*byte][]int{}

func findFieldsCached(d []byte) []int {
	if len(d) == 0 {
		return nil
	}
	if f, ok := fieldCache[&d[0]]; ok {
		return f
	}
	f := findFields(d)
	fieldCache[&d[0]] = f
	return f
}

func runCase(t *rapid.T, b *base, entry, sigType string, data []byte, ops []string, upload bool) {
	caseNo++
	p := filepath.Join(workDir, "case-"+b.name)
	if err := os.WriteFile(p, data, 0o644); err != nil {
		t.Fatal(err)
	}
	defer os.Remove(p)
	req := caseReq{Entry: entry, SigType: sigType, Path: p, Name: b.name}
	res, death := runInChild(req, len(data))
	h := sha256.Sum256(append([]byte(entry+"|"+sigType+"|"), data...))
	changed := !bytes.Equal(data, b.data)
	magicKept := upload || magicOf(data) == magicOf(b.data)
	nt := changed && magicKept
	outcome := "child-died"
	if res != nil {
		outcome = res.Status
	}
	rec.Case(fmt.Sprintf("%x", h[:12]), fmt.Sprintf("%s/%s/%s", entry, sigType, outcome), nt)
	desc := map[string]any{"entry": entry, "module": sigType, "base": b.name, "base_signed": b.signed, "upload_body": upload, "mutations": ops, "input_len": len(data), "input_sha256": fmt.Sprintf("%x", sha256.Sum256(data))}
	if nt && caseNo%7 == 0 {
		s := map[string]any{}
		for k, v := range desc {
			s[k] = v
		}
		s["outcome"] = outcome
		if res != nil {
			s["error"] = trunc(res.Err, 160)
		}
		rec.Sample(entry+"/"+outcome, s)
	}
	site, what := verdict(entry, sigType, len(data), res, death)
	if site == "" {
		return
	}
	key := "C11:" + site
	if knownSet.Has(key) {
		rec.Excluded(key)
		return
	}
	if collect {
		if _, ok := seenNew[key]; !ok {
			seenNew[key] = fmt.Sprintf("%s %s base=%s ops=%v: %s", entry, sigType, b.name, ops, trunc(what, 1500))
			fn := filepath.Join(os.Getenv("VERIF_C11_COLLECT"), strings.NewReplacer("/", "_", ":", "_", "*", "", "(", "", ")", "").Replace(site))
			os.WriteFile(fn+".bin", data, 0o644)
			meta, _ := json.MarshalIndent(map[string]any{"key": key, "entry": entry, "module": sigType, "name": b.name, "what": trunc(what, 3000)}, "", " ")
			os.WriteFile(fn+".json", meta, 0o644)
		}
		return
	}
	desc["finding_key"] = key
	desc["error"] = what
	desc["input_file"] = "TestC11_Corruptions.input.bin"
	evid.SaveCase("TestC11_Corruptions", desc)
	if dir := os.Getenv("VERIF_REPLAY_OUT"); dir != "" {
		os.WriteFile(filepath.Join(dir, "TestC11_Corruptions.input.bin"), data, 0o644)
	}
	t.Fatalf("%s on %s input derived from %s (%v), entry %s, module %s:\n%s", key, humanLen(len(data)), b.name, ops, entry, sigType, trunc(what, 4000))
}

func trunc(s string, n int) string { return c11entry.Trunc(s, n) }

func humanLen(n int) string { return strconv.Itoa(n) + "-byte" }

func magicOf(d []byte) magic.FileType { return magic.Detect(bytes.NewReader(d)) }

// TestC11_Replay runs one saved case (VERIF_REPLAY_CASE=<file>.case.json).
func TestC11_Replay(t *testing.T) {
	cf := os.Getenv("VERIF_REPLAY_CASE")
	if cf == "" {
		t.Skip("no replay case")
	}
	blob, err := os.ReadFile(cf)
	if err != nil {
		t.Fatal(err)
	}
	var desc struct {
		Entry, Module, Base string
		InputFile           string `json:"input_file"`
	}
	if err := json.Unmarshal(blob, &desc); err != nil {
		t.Fatal(err)
	}
	data, err := os.ReadFile(filepath.Join(filepath.Dir(cf), desc.InputFile))
	if err != nil {
		t.Fatal(err)
	}
	p := filepath.Join(workDir, "case-"+desc.Base)
	os.WriteFile(p, data, 0o644)
	res, death := runInChild(caseReq{Entry: desc.Entry, SigType: desc.Module, Path: p, Name: desc.Base}, len(data))
	if death != nil {
		t.Fatalf("C11:%s: %s", death.site, death.what)
	}
	if res.Status == "panic" {
		t.Fatalf("C11:panic:%s: %s\n%s", res.Site, res.Err, res.Stack)
	}
	if res.Alloc > uint64(allocBase+allocFactor*len(data)) {
		t.Fatalf("allocated %d bytes for a %d-byte input", res.Alloc, len(data))
	}
	t.Logf("replayed: %s %s", res.Status, res.Err)
}

// verdict maps a child result to a finding site ("" = the property held on this case).
func verdict(entry, sigType string, n int, res *caseRes, death *deathInfo) (site, what string) {
	switch {
	case death != nil:
		return death.site, death.what
	case res.Status == "panic":
		return "panic:" + res.Site, "panic in the calling goroutine: " + trunc(res.Err, 200) + "\n" + res.Stack
	case res.Alloc > uint64(allocBase+allocFactor*n):
		return "alloc:" + res.ASite, fmt.Sprintf("allocated %d bytes for a %d-byte input (bound %d), most of it in %s", res.Alloc, n, allocBase+allocFactor*n, res.ASite)
	case res.CPUMs > int64(cpuBaseMs+cpuPerKiB*n/1024):
		return "cpu:" + entry + ":" + sigType, fmt.Sprintf("burned %d ms CPU on a %d-byte input", res.CPUMs, n)
	}
	return "", ""
}

// TestC11_Regressions replays every saved crasher (testdata/crashers, or VERIF_C11_DIR):
// inputs that once violated the property must now be handled, or be a listed finding.
func TestC11_Regressions(t *testing.T) {
	dir := os.Getenv("VERIF_C11_DIR")
	if dir == "" {
		dir = filepath.Join(os.Getenv("VERIF_ROOT"), "harness/props/c11/testdata/crashers")
	}
	if sh := os.Getenv("VERIF_SHARD"); sh != "" && sh != "0" {
		t.Skip("the crasher corpus is replayed by shard 0")
	}
	metas, _ := filepath.Glob(filepath.Join(dir, "*.json"))
	sort.Strings(metas)
	bad := 0
	for _, mf := range metas {
		var meta struct{ Key, Entry, Module, Name string }
		blob, _ := os.ReadFile(mf)
		if json.Unmarshal(blob, &meta) != nil {
			continue
		}
		data, err := os.ReadFile(strings.TrimSuffix(mf, ".json") + ".bin")
		if err != nil {
			continue
		}
		p := filepath.Join(workDir, "case-"+meta.Name)
		os.WriteFile(p, data, 0o644)
		res, death := runInChild(caseReq{Entry: meta.Entry, SigType: meta.Module, Path: p, Name: meta.Name}, len(data))
		site, what := verdict(meta.Entry, meta.Module, len(data), res, death)
		h := sha256.Sum256(append([]byte(meta.Entry+"|"+meta.Module+"|"), data...))
		rec.Case(fmt.Sprintf("%x", h[:12]), "regression/"+meta.Entry+"/"+meta.Module, true)
		status := "handled"
		if site != "" {
			status = "C11:" + site
			if knownSet.Has("C11:" + site) {
				rec.Excluded("C11:" + site)
				rec.KnownFinding("C11:"+site, knownSet["C11:"+site].What)
				status += " (listed)"
			} else {
				bad++
				t.Errorf("%s (%s %s): %s\n%s", filepath.Base(mf), meta.Entry, meta.Module, status, trunc(what, 2500))
				if bad == 1 {
					evid.SaveCase("TestC11_Regressions", map[string]any{"entry": meta.Entry, "module": meta.Module, "base": meta.Name, "finding_key": "C11:" + site, "error": trunc(what, 4000), "input_file": "TestC11_Regressions.input.bin"})
					if d := os.Getenv("VERIF_REPLAY_OUT"); d != "" {
						os.WriteFile(filepath.Join(d, "TestC11_Regressions.input.bin"), data, 0o644)
					}
				}
			}
		}
		if os.Getenv("VERIF_C11_DIR") != "" {
			fmt.Printf("REPLAY %-70s %s\n", filepath.Base(mf), status)
		}
	}
	rec.Set("regression_inputs", len(metas))
}

// ---------- parent side of the isolation child ----------

type child struct {
	cmd    *exec.Cmd
	stdin  io.WriteCloser
	out    *bufio.Reader
	lines  chan string
	stderr *bytes.Buffer
}

type deathInfo struct{ site, what string }

func startChild() *child {
	c := &child{stderr: &bytes.Buffer{}, lines: make(chan string, 4)}
	c.cmd = exec.Command(os.Args[0], "-test.run=^$")
	c.cmd.Env = append(os.Environ(), "VERIF_C11_CHILD="+env.CfgPath, "VERIF_EVIDENCE_PART=", "GOMAXPROCS=4", "GOTRACEBACK=crash")
	c.cmd.Stderr = c.stderr
	c.cmd.SysProcAttr = &syscall.SysProcAttr{Pdeathsig: syscall.SIGKILL}
	c.stdin, _ = c.cmd.StdinPipe()
	out, _ := c.cmd.StdoutPipe()
	if err := c.cmd.Start(); err != nil {
		panic(err)
	}
	go func() {
		br := bufio.NewReaderSize(out, 1<<20)
		for {
			line, err := br.ReadString('\n')
			if err != nil {
				close(c.lines)
				return
			}
			if strings.HasPrefix(line, "RES ") {
				c.lines <- line[4:]
			}
		}
	}()
	return c
}

func (c *child) stop() {
	c.stdin.Close()
	c.cmd.Process.Kill()
	c.cmd.Wait()
}

func procCPU(pid int) (ms int64, state byte) {
	blob, err := os.ReadFile(fmt.Sprintf("/proc/%d/stat", pid))
	if err != nil {
		return 0, '?'
	}
	s := string(blob)
	i := strings.LastIndexByte(s, ')')
	f := strings.Fields(s[i+1:])
	if len(f) < 13 {
		return 0, '?'
	}
	ut, _ := strconv.ParseInt(f[11], 10, 64)
	st, _ := strconv.ParseInt(f[12], 10, 64)
	return (ut + st) * 10, f[0][0]
}

// hangSite names the relic function a spinning goroutine is in: only goroutines the dump
// shows as running or runnable count (parked leftovers of earlier cases do not).
func hangSite(dump string, req caseReq) string {
	for _, blk := range strings.Split(dump, "\n\ngoroutine ") {
		head, _, _ := strings.Cut(blk, "\n")
		if !strings.Contains(head, "[running") && !strings.Contains(head, "[runnable") {
			continue
		}
		if s := c11entry.SiteOf(blk); s != "unknown" {
			return s
		}
	}
	return req.Entry + ":" + req.SigType
}

func runInChild(req caseReq, inputLen int) (*caseRes, *deathInfo) {
	if kid == nil {
		kid = startChild()
	}
	blob, _ := json.Marshal(req)
	startCPU, _ := procCPU(kid.cmd.Process.Pid)
	io.WriteString(kid.stdin, string(blob)+"\n")
	cpuLimit := int64(cpuBaseMs+cpuPerKiB*inputLen/1024) * 2
	start := time.Now()
	var lastCPU int64 = startCPU
	lastProgress := time.Now()
	tick := time.NewTicker(200 * time.Millisecond)
	defer tick.Stop()
	for {
		select {
		case line, ok := <-kid.lines:
			if !ok {
				// child died
				kid.cmd.Wait()
				text := kid.stderr.String()
				kid = nil
				kind := "abort"
				head := c11entry.PanicHead.FindString(text)
				switch {
				case strings.Contains(text, "out of memory") || strings.Contains(text, "cannot allocate"):
					kind = "alloc-abort"
					text = strings.ReplaceAll(strings.ReplaceAll(text, "out of memory", "out-of-memory"), "cannot allocate memory", "cannot-allocate-memory")
					head = strings.ReplaceAll(head, "out of memory", "out-of-memory")
				case strings.HasPrefix(head, "panic:"):
					kind = "goroutine-panic"
				}
				// the traceback of the faulting goroutine comes first
				return nil, &deathInfo{site: kind + ":" + c11entry.SiteOf(text), what: fmt.Sprintf("isolation child died (%s): %s\n%s", kind, head, trunc(text, 6000))}
			}
			var res caseRes
			if err := json.Unmarshal([]byte(line), &res); err != nil {
				panic("bad child reply: " + line)
			}
			return &res, nil
		case <-tick.C:
			cpu, state := procCPU(kid.cmd.Process.Pid)
			if cpu != lastCPU || state == 'R' || state == 'D' {
				lastCPU, lastProgress = cpu, time.Now()
			}
			if cpu-startCPU > cpuLimit {
				kid.cmd.Process.Signal(syscall.SIGQUIT)
				time.Sleep(300 * time.Millisecond)
				kid.stop()
				text := strings.ReplaceAll(kid.stderr.String(), "SIGQUIT", "quit-signal-sent-by-harness")
				kid = nil
				return nil, &deathInfo{site: "hang-cpu:" + hangSite(text, req), what: fmt.Sprintf("no result after %d ms of CPU on a %d-byte input\n%s", cpu-startCPU, inputLen, trunc(text, 6000))}
			}
			if time.Since(lastProgress) > 60*time.Second && time.Since(start) > 90*time.Second {
				kid.cmd.Process.Signal(syscall.SIGQUIT)
				time.Sleep(300 * time.Millisecond)
				kid.stop()
				text := strings.ReplaceAll(kid.stderr.String(), "SIGQUIT", "quit-signal-sent-by-harness")
				kid = nil
				return nil, &deathInfo{site: "blocked:" + req.Entry + ":" + req.SigType, what: fmt.Sprintf("child asleep without CPU progress for 60 s on a %d-byte input\n%s", inputLen, trunc(text, 6000))}
			}
		}
	}
}

// ---------- child ----------

func childMain() {
	cfg, err := c11entry.Setup(os.Getenv("VERIF_C11_CHILD"))
	if err != nil {
		fmt.Fprintln(os.Stderr, "child:", err)
		os.Exit(3)
	}
	lim := &syscall.Rlimit{Cur: addrSpace, Max: addrSpace}
	syscall.Setrlimit(syscall.RLIMIT_AS, lim)
	debug.SetGCPercent(100)
	runtime.MemProfileRate = 256 << 10
	sc := bufio.NewScanner(os.Stdin)
	sc.Buffer(make([]byte, 1<<20), 1<<20)
	w := bufio.NewWriter(os.Stdout)
	prof0 := c11entry.SnapshotProfile()
	for sc.Scan() {
		var req caseReq
		if err := json.Unmarshal(sc.Bytes(), &req); err != nil {
			continue
		}
		var ms0, ms1 runtime.MemStats
		runtime.ReadMemStats(&ms0)
		var ru0, ru1 syscall.Rusage
		syscall.Getrusage(syscall.RUSAGE_SELF, &ru0)
		res := c11entry.Run(cfg, req)
		syscall.Getrusage(syscall.RUSAGE_SELF, &ru1)
		runtime.ReadMemStats(&ms1)
		res.Alloc = ms1.TotalAlloc - ms0.TotalAlloc
		if res.Alloc > (32 << 20) {
			res.ASite = c11entry.AllocSite(prof0)
		}
		if res.Alloc > (8 << 20) {
			prof0 = c11entry.SnapshotProfile()
		}
		res.CPUMs = (ru1.Utime.Nano() + ru1.Stime.Nano() - ru0.Utime.Nano() - ru0.Stime.Nano()) / 1e6
		blob, _ := json.Marshal(res)
		w.WriteString("RES ")
		w.Write(blob)
		w.WriteByte('\n')
		w.Flush()
	}
	os.Exit(0)
}

// TestC11_FieldSweep: deterministic sweep over the signature material of every signed
// base (the 4-byte words in which it differs from its unsigned sibling): each word is
// replaced, in both byte orders, by values that overflow 32-bit offset/count arithmetic
// or exceed any plausible size. Random corruption rarely hits one particular count field
// with one particular class of value; the sweep hits all of them.
func TestC11_FieldSweep(t *testing.T) {
	shard, shards := evid.EnvInt("VERIF_SHARD", 0), evid.EnvInt("VERIF_SHARDS", 1)
	maxPerBase := evid.EnvInt("VERIF_C11_SWEEP_WORDS", 1500)
	values := []uint32{0xfffffff0, 0x08000000, 0x7fffffff, 0x00ffffff}
	unsigned := map[string]*base{}
	for _, b := range bases {
		if !b.signed {
			unsigned[b.format+"/"+b.name] = b
		}
	}
	idx := 0
	swept := 0
	for _, b := range bases {
		if !b.signed {
			continue
		}
		u := unsigned[b.format+"/"+b.name]
		var words []int
		for i := 0; i+4 <= len(b.data); i += 4 {
			if u == nil || i+4 > len(u.data) || !bytes.Equal(b.data[i:i+4], u.data[i:i+4]) {
				words = append(words, i)
			}
		}
		if len(words) > maxPerBase {
			step := len(words)/maxPerBase + 1
			var thin []int
			for i := 0; i < len(words); i += step {
				thin = append(thin, words[i])
			}
			words = thin
		}
		for _, off := range words {
			for vi, v := range values {
				for _, be := range []bool{true, false} {
					idx++
					if idx%shards != shard {
						continue
					}
					data := append([]byte(nil), b.data...)
					putInt(data, off, 4, uint64(v), be)
					entry := "verify"
					if (off/4+vi)%5 == 0 {
						entry = "issigned"
					}
					swept++
					if msg := sweepCase(b, entry, data, fmt.Sprintf("word@%d=%#x be=%v", off, v, be)); msg != "" {
						t.Fatal(msg)
					}
				}
			}
		}
	}
	rec.Set("field_sweep_cases", swept)
}

// algorithmOIDs finds DER OBJECT IDENTIFIER TLVs of the algorithm and content-type arcs
// (PKCS, ANSI X9.62, NIST hash algorithms, OIW, Microsoft), i.e. the ones parsers switch on.
func algorithmOIDs(d []byte) []int {
	prefixes := [][]byte{{0x2a, 0x86, 0x48, 0x86, 0xf7, 0x0d}, {0x2a, 0x86, 0x48, 0xce, 0x3d}, {0x60, 0x86, 0x48, 0x01, 0x65, 0x03, 0x04}, {0x2b, 0x0e, 0x03, 0x02}, {0x2b, 0x06, 0x01, 0x04, 0x01, 0x82, 0x37}}
	var out []int
	for i := 0; i+4 < len(d); i++ {
		if d[i] != 0x06 || d[i+1] < 5 || d[i+1] > 12 || i+2+int(d[i+1]) > len(d) {
			continue
		}
		for _, p := range prefixes {
			if bytes.HasPrefix(d[i+2:], p) {
				out = append(out, i)
				break
			}
		}
	}
	return out
}

// TestC11_OIDSweep: every algorithm / content-type identifier inside a signed base is
// replaced, one at a time, by an identifier nobody knows (last arc 0x7f, or bit 3 of it
// flipped: SHA-256 becomes SHA3-256) and the result verified and probed. Identifiers in
// unauthenticated places (time-stamp tokens, certificates) are reached before any
// signature check can stop the parser.
func TestC11_OIDSweep(t *testing.T) {
	shard, shards := evid.EnvInt("VERIF_SHARD", 0), evid.EnvInt("VERIF_SHARDS", 1)
	maxPerBase := evid.EnvInt("VERIF_C11_SWEEP_OIDS", 120)
	idx, swept := 0, 0
	for _, b := range bases {
		if !b.signed {
			continue
		}
		offs := algorithmOIDs(b.data)
		if len(offs) > maxPerBase {
			step := len(offs)/maxPerBase + 1
			var thin []int
			for i := 0; i < len(offs); i += step {
				thin = append(thin, offs[i])
			}
			offs = thin
		}
		for _, off := range offs {
			last := off + 1 + int(b.data[off+1])
			for _, v := range []byte{0x7f, b.data[last] ^ 0x08} {
				for _, entry := range []string{"verify", "issigned"} {
					idx++
					if idx%shards != shard {
						continue
					}
					data := append([]byte(nil), b.data...)
					data[last] = v
					swept++
					if msg := sweepCase(b, entry, data, fmt.Sprintf("oid@%d last arc %#x -> %#x", off, b.data[last], v)); msg != "" {
						t.Fatal(msg)
					}
				}
			}
		}
	}
	rec.Set("oid_sweep_cases", swept)
}

func sweepCase(b *base, entry string, data []byte, op string) string {
	p := filepath.Join(workDir, "sweep-"+b.name)
	if err := os.WriteFile(p, data, 0o644); err != nil {
		return err.Error()
	}
	defer os.Remove(p)
	res, death := runInChild(caseReq{Entry: entry, SigType: b.sigType, Path: p, Name: b.name}, len(data))
	h := sha256.Sum256(append([]byte(entry+"|"+b.sigType+"|"), data...))
	outcome := "child-died"
	if res != nil {
		outcome = res.Status
	}
	rec.Case(fmt.Sprintf("%x", h[:12]), fmt.Sprintf("sweep/%s/%s/%s", entry, b.sigType, outcome), true)
	site, what := verdict(entry, b.sigType, len(data), res, death)
	if site == "" {
		return ""
	}
	key := "C11:" + site
	if knownSet.Has(key) {
		rec.Excluded(key)
		return ""
	}
	if collect {
		if _, ok := seenNew[key]; !ok {
			seenNew[key] = fmt.Sprintf("%s %s base=%s %s: %s", entry, b.sigType, b.name, op, trunc(what, 1500))
			fn := filepath.Join(os.Getenv("VERIF_C11_COLLECT"), strings.NewReplacer("/", "_", ":", "_", "*", "", "(", "", ")", "").Replace(site))
			os.WriteFile(fn+".bin", data, 0o644)
			meta, _ := json.MarshalIndent(map[string]any{"key": key, "entry": entry, "module": b.sigType, "name": b.name, "what": trunc(what, 3000)}, "", " ")
			os.WriteFile(fn+".json", meta, 0o644)
		}
		return ""
	}
	evid.SaveCase("TestC11_FieldSweep", map[string]any{"entry": entry, "module": b.sigType, "base": b.name, "base_signed": true, "mutations": []string{op}, "input_len": len(data), "finding_key": key, "error": what, "input_file": "TestC11_FieldSweep.input.bin"})
	if dir := os.Getenv("VERIF_REPLAY_OUT"); dir != "" {
		os.WriteFile(filepath.Join(dir, "TestC11_FieldSweep.input.bin"), data, 0o644)
	}
	return fmt.Sprintf("%s on the signed %s with %s (entry %s):\n%s", key, b.name, op, entry, trunc(what, 4000))
}
