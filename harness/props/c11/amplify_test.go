package c11

// Work proportional to the input: a signer of an APK may list as many digest records in
// the v2 block as it likes. An APK of a few MiB, re-signed with the harness's own key and
// its one digest record repeated ten thousand times (a few hundred KiB more), must not cost
// the verifier noticeably more CPU than the same APK with the record once.

import (
	"archive/zip"
	"bytes"
	"crypto"
	"crypto/rand"
	"crypto/x509"
	"fmt"
	"os"
	"path/filepath"
	"testing"

	"github.com/sassoftware/relic/v8/xverif/apkref"
	"github.com/sassoftware/relic/v8/xverif/arts"
	"github.com/sassoftware/relic/v8/xverif/evid"
	"github.com/sassoftware/relic/v8/xverif/keys"
	"github.com/sassoftware/relic/v8/xverif/pipe"
)

func TestC11_APKDigestRecordAmplification(t *testing.T) {
	if evid.EnvInt("VERIF_SHARD", 0) != 0 {
		return
	}
	const test = "TestC11_APKDigestRecordAmplification"
	fx := arts.Fixture("apk", 0)
	zr, err := zip.NewReader(bytes.NewReader(fx.Data), int64(len(fx.Data)))
	if err != nil {
		t.Fatalf("harness: %v", err)
	}
	var buf bytes.Buffer
	zw := zip.NewWriter(&buf)
	for _, f := range zr.File {
		if f.Name == "AndroidManifest.xml" {
			rc, _ := f.OpenRaw()
			hdr := f.FileHeader
			w, _ := zw.CreateRaw(&hdr)
			bytes.NewBuffer(nil).ReadFrom(rc)
			rc2, _ := f.OpenRaw()
			var b bytes.Buffer
			b.ReadFrom(rc2)
			w.Write(b.Bytes())
		}
	}
	w, _ := zw.CreateHeader(&zip.FileHeader{Name: "assets/big.bin", Method: zip.Store})
	big := make([]byte, 4<<20)
	for i := range big {
		big[i] = byte(i * 31)
	}
	w.Write(big)
	zw.Close()
	p := filepath.Join(workDir, "amplify.apk")
	os.WriteFile(p, buf.Bytes(), 0o644)
	defer os.Remove(p)
	if err := env.SignLib(&pipe.Req{SigType: "apk", In: p, Key: "rsa2048a", Hash: crypto.SHA256}); err != nil {
		t.Fatalf("harness: signing the base APK: %v", err)
	}
	signed, _ := os.ReadFile(p)
	info, err := apkref.Parse(signed)
	if err != nil || len(info.Certificates) == 0 {
		t.Fatalf("harness: %v", err)
	}
	leaf, err := x509.ParseCertificate(info.Certificates[0])
	if err != nil {
		t.Fatalf("harness: %v", err)
	}
	sign := func(digest []byte) ([]byte, uint32, error) {
		sig, err := keys.Key("rsa2048a").Sign(rand.Reader, digest, crypto.SHA256)
		return sig, 0x0103, err
	}
	cpu := map[int]int64{}
	sizes := map[int]int{}
	for _, copies := range []int{1, 10000} {
		data, err := apkref.RebuildWithDigestCopies(signed, info.Certificates, leaf.RawSubjectPublicKeyInfo, sign, copies)
		if err != nil {
			t.Fatalf("harness: %v", err)
		}
		q := filepath.Join(workDir, fmt.Sprintf("amplify-%d.apk", copies))
		os.WriteFile(q, data, 0o644)
		res, death := runInChild(caseReq{Entry: "verify", SigType: "apk", Path: q, Name: "amplify.apk"}, len(data))
		os.Remove(q)
		if death != nil {
			evid.SaveCase(test, map[string]any{"digest_records": copies, "input_len": len(data), "error": death.what})
			t.Fatalf("verifying an APK with %d digest records: %s", copies, trunc(death.what, 2000))
		}
		if copies == 1 && res.Status != "ok" {
			t.Fatalf("harness: the rebuilt APK with one digest record does not verify: %s", res.Err)
		}
		cpu[copies], sizes[copies] = res.CPUMs, len(data)
		rec.Case(fmt.Sprintf("amplify|%d", copies), "apk-digest-record-amplification", copies > 1)
	}
	extraKiB := int64(sizes[10000]-sizes[1]) / 1024
	allowed := 20*max(cpu[1], 50) + 20*extraKiB
	desc := map[string]any{"apk_bytes": sizes[1], "extra_bytes_for_10000_records": sizes[10000] - sizes[1], "cpu_ms_1_record": cpu[1], "cpu_ms_10000_records": cpu[10000], "allowed_ms": allowed}
	rec.Sample("apk-digest-record-amplification", desc)
	if cpu[10000] > allowed {
		desc["error"] = "verification cost multiplies with the number of digest records"
		evid.SaveCase(test, desc)
		t.Fatalf("verifying a %d-byte APK costs %d ms of CPU with one digest record and %d ms with 10000 copies of it (%d bytes more): not proportional to the input (allowed %d ms = 20 x the base cost + 20 ms per extra KiB)", sizes[1], cpu[1], cpu[10000], sizes[10000]-sizes[1], allowed)
	}
}
