package c11

// Container-aware corruption: byte-level mutation of a compressed or checksummed container
// mostly dies in the decompressor or the CRC check. Here the damage is done inside - a ZIP
// member is inflated, mutated and stored again with a correct CRC, a xar table of contents
// is inflated, mutated and deflated again with the header lengths adjusted, an XML document
// is changed as a tree (elements duplicated, dropped, moved, nested deeply) - so that the
// parsers behind the container see it.

import (
	"archive/tar"
	"archive/zip"
	"bytes"
	"compress/gzip"
	"compress/zlib"
	"encoding/binary"
	"fmt"
	"io"
	"strconv"
	"strings"

	"github.com/beevik/etree"
	"pgregory.net/rapid"
)

var zipFamily = map[string]bool{"jar": true, "apk": true, "appx": true, "vsix": true, "xap": true}

var xmlVocabulary = []string{"Signature", "SignedInfo", "Reference", "KeyInfo", "Object", "Manifest", "SignatureValue", "DigestValue", "X509Data",
	"license", "issuer", "publisherIdentity", "assemblyIdentity", "Relationship", "Default", "Override", "File", "Block"}

func looksXML(d []byte) bool {
	s := bytes.TrimLeft(d, "\xef\xbb\xbf \t\r\n")
	return len(s) > 0 && s[0] == '<'
}

// xmlMutate changes an XML document as a tree.
func xmlMutate(t *rapid.T, src []byte) ([]byte, string, bool) {
	doc := etree.NewDocument()
	if err := doc.ReadFromBytes(src); err != nil || doc.Root() == nil {
		return nil, "", false
	}
	var all []*etree.Element
	var walk func(e *etree.Element)
	walk = func(e *etree.Element) {
		all = append(all, e)
		for _, c := range e.ChildElements() {
			walk(c)
		}
	}
	walk(doc.Root())
	pick := func(label string) *etree.Element {
		return all[rapid.IntRange(0, len(all)-1).Draw(t, label)]
	}
	op := rapid.SampledFrom([]string{"dup-adjacent", "dup-adjacent", "delete", "insert-empty", "insert-empty", "move", "nest", "drop-attrs", "empty-text"}).Draw(t, "xmlop")
	what := op
	switch op {
	case "dup-adjacent":
		e := pick("el")
		if e.Parent() == nil {
			return nil, "", false
		}
		n := rapid.IntRange(1, 3).Draw(t, "copies")
		for i := 0; i < n; i++ {
			e.Parent().InsertChildAt(e.Index()+1, e.Copy())
		}
		what += ":" + e.Tag
	case "delete":
		e := pick("el")
		if e.Parent() == nil {
			return nil, "", false
		}
		e.Parent().RemoveChild(e)
		what += ":" + e.Tag
	case "insert-empty":
		// signature processing looks at the children of the document element first
		p := doc.Root()
		if rapid.IntRange(0, 4).Draw(t, "deep_parent") < 3 {
			p = pick("parent")
		}
		name := "Signature"
		if rapid.IntRange(0, 2).Draw(t, "other_name") != 0 {
			name = rapid.SampledFrom(xmlVocabulary).Draw(t, "name")
		}
		n := rapid.IntRange(1, 3).Draw(t, "copies")
		at := len(p.Child)
		if rapid.Bool().Draw(t, "not_last") {
			at = rapid.IntRange(0, len(p.Child)).Draw(t, "at")
		}
		ns := rapid.IntRange(0, 3).Draw(t, "dsig_ns") != 0
		for i := 0; i < n; i++ {
			e := etree.NewElement(name)
			if ns {
				e.CreateAttr("xmlns", "http://www.w3.org/2000/09/xmldsig#")
			}
			p.InsertChildAt(at, e)
		}
		what += fmt.Sprintf(":%dx%s-in-%s", n, name, p.Tag)
	case "move":
		e, p := pick("el"), pick("parent")
		if e.Parent() == nil || e == p {
			return nil, "", false
		}
		for a := p; a != nil; a = a.Parent() {
			if a == e {
				return nil, "", false
			}
		}
		e.Parent().RemoveChild(e)
		p.AddChild(e)
		what += ":" + e.Tag + "->" + p.Tag
	case "nest":
		e := pick("el")
		depth := rapid.SampledFrom([]int{50, 2000, 20000}).Draw(t, "depth")
		inner := e
		for i := 0; i < depth; i++ {
			inner = inner.CreateElement(e.Tag)
		}
		what += fmt.Sprintf(":%s x%d", e.Tag, depth)
	case "drop-attrs":
		e := pick("el")
		e.Attr = nil
		what += ":" + e.Tag
	case "empty-text":
		e := pick("el")
		e.SetText("")
		what += ":" + e.Tag
	}
	out, err := doc.WriteToBytes()
	if err != nil {
		return nil, "", false
	}
	return out, "xml-" + what, true
}

// controlMutate changes a Debian control file line-wise.
func controlMutate(t *rapid.T, body []byte) ([]byte, string) {
	lines := strings.Split(string(body), "\n")
	at := rapid.IntRange(0, len(lines)).Draw(t, "control_line")
	op := rapid.SampledFrom([]string{"empty-line", "empty-line", "no-colon", "leading-space-first", "colon-only", "dup-field", "huge-value", "drop-line", "nul", "tab-line"}).Draw(t, "control_op")
	ins := func(l string) {
		lines = append(lines[:at], append([]string{l}, lines[at:]...)...)
	}
	switch op {
	case "empty-line":
		ins("")
	case "no-colon":
		ins("JustAWordWithoutColon")
	case "leading-space-first":
		at = 0
		ins(" continuation before any field")
	case "colon-only":
		ins(":")
	case "dup-field":
		ins("Package: another")
	case "huge-value":
		ins("Description: " + strings.Repeat("x", rapid.SampledFrom([]int{5000, 70000, 300000}).Draw(t, "huge")))
	case "drop-line":
		if at < len(lines) {
			lines = append(lines[:at], lines[at+1:]...)
		}
	case "nul":
		ins("Field\x00: v\x00")
	case "tab-line":
		ins("\t")
	}
	return []byte(strings.Join(lines, "\n")), fmt.Sprintf("%s at line %d", op, at)
}

// innerContent mutates the content of a member / document: as XML when it is XML (half of
// the time), else with the byte-level mutator.
func innerContent(t *rapid.T, b *base, content []byte) ([]byte, []string) {
	if looksXML(content) && rapid.Bool().Draw(t, "as_xml") {
		if out, what, ok := xmlMutate(t, content); ok {
			return out, []string{what}
		}
	}
	if len(content) == 0 {
		return []byte{0}, []string{"ins@0+1"}
	}
	return mutate(t, b, content, findFields(content))
}

// innerMutate returns a container of the base's type with valid framing around mutated
// content, or ok=false if the base has no such container.
func innerMutate(t *rapid.T, b *base, src []byte) (out []byte, ops []string, ok bool) {
	switch {
	case zipFamily[b.format]:
		zr, err := zip.NewReader(bytes.NewReader(src), int64(len(src)))
		if err != nil || len(zr.File) == 0 {
			return nil, nil, false
		}
		victim := rapid.IntRange(0, len(zr.File)-1).Draw(t, "member")
		var buf bytes.Buffer
		zw := zip.NewWriter(&buf)
		for i, f := range zr.File {
			rc, err := f.Open()
			if err != nil {
				return nil, nil, false
			}
			content, err := io.ReadAll(rc)
			rc.Close()
			if err != nil {
				return nil, nil, false
			}
			if i == victim {
				var mops []string
				content, mops = innerContent(t, b, content)
				for _, m := range mops {
					ops = append(ops, "member "+f.Name+": "+m)
				}
			}
			w, err := zw.CreateHeader(&zip.FileHeader{Name: f.Name, Method: f.Method, Modified: f.Modified})
			if err != nil {
				return nil, nil, false
			}
			w.Write(content)
		}
		zw.Close()
		return buf.Bytes(), ops, true
	case b.format == "pkg":
		// xar: header (size u16 @4, toc length compressed u64 @8, uncompressed u64 @16), zlib toc, heap
		if len(src) < 28 || string(src[:4]) != "xar!" {
			return nil, nil, false
		}
		hs := int(binary.BigEndian.Uint16(src[4:]))
		tl := int(binary.BigEndian.Uint64(src[8:]))
		if hs < 28 || hs+tl > len(src) {
			return nil, nil, false
		}
		zr, err := zlib.NewReader(bytes.NewReader(src[hs : hs+tl]))
		if err != nil {
			return nil, nil, false
		}
		toc, err := io.ReadAll(zr)
		if err != nil {
			return nil, nil, false
		}
		toc2, mops := innerContent(t, b, toc)
		var z bytes.Buffer
		zw := zlib.NewWriter(&z)
		zw.Write(toc2)
		zw.Close()
		hdr := append([]byte(nil), src[:hs]...)
		binary.BigEndian.PutUint64(hdr[8:], uint64(z.Len()))
		binary.BigEndian.PutUint64(hdr[16:], uint64(len(toc2)))
		for _, m := range mops {
			ops = append(ops, "xar toc: "+m)
		}
		return append(append(hdr, z.Bytes()...), src[hs+tl:]...), ops, true
	case b.format == "deb":
		// ar member control.tar.gz: gunzip, untar, change the control file as text, pack again
		if !bytes.HasPrefix(src, []byte("!<arch>\n")) {
			return nil, nil, false
		}
		pos := 8
		for pos+60 <= len(src) {
			h := src[pos : pos+60]
			size, err := strconv.Atoi(strings.TrimSpace(string(h[48:58])))
			if err != nil || pos+60+size > len(src) {
				return nil, nil, false
			}
			name := strings.TrimSuffix(strings.TrimSpace(string(h[:16])), "/")
			if name != "control.tar.gz" {
				pos += 60 + size + size%2
				continue
			}
			zr, err := gzip.NewReader(bytes.NewReader(src[pos+60 : pos+60+size]))
			if err != nil {
				return nil, nil, false
			}
			tr := tar.NewReader(zr)
			var out bytes.Buffer
			gz := gzip.NewWriter(&out)
			tw := tar.NewWriter(gz)
			for {
				th, err := tr.Next()
				if err != nil {
					break
				}
				body, _ := io.ReadAll(tr)
				if strings.TrimPrefix(th.Name, "./") == "control" {
					var what string
					body, what = controlMutate(t, body)
					ops = append(ops, "deb control file: "+what)
					th.Size = int64(len(body))
				}
				tw.WriteHeader(th)
				tw.Write(body)
			}
			tw.Close()
			gz.Close()
			if len(ops) == 0 {
				return nil, nil, false
			}
			hdr := []byte(fmt.Sprintf("%-16s%s%-10d`\n", "control.tar.gz", string(h[16:48]), out.Len()))
			res := append(append(append([]byte{}, src[:pos]...), hdr...), out.Bytes()...)
			if out.Len()%2 == 1 {
				res = append(res, '\n')
			}
			return append(res, src[pos+60+size+size%2:]...), ops, true
		}
		return nil, nil, false
	case looksXML(src) && !strings.HasPrefix(b.format, "pgp"):
		if out, what, ok := xmlMutate(t, src); ok {
			return out, []string{what}, true
		}
	}
	return nil, nil, false
}
