// C09 — upload stream, chunking and transport never change what gets signed.
package c09

import (
	"crypto"
	"crypto/sha256"
	"crypto/tls"
	"encoding/json"
	"fmt"
	"github.com/sassoftware/relic/v8/lib/compresshttp"
	"io"
	"net/http"
	"net/http/httptest"
	"net/url"
	"os"
	"path/filepath"
	"strings"
	"sync"
	"testing"

	"pgregory.net/rapid"

	"github.com/sassoftware/relic/v8/signers"
	"github.com/sassoftware/relic/v8/xverif/arts"
	"github.com/sassoftware/relic/v8/xverif/evid"
	"github.com/sassoftware/relic/v8/xverif/known"
	"github.com/sassoftware/relic/v8/xverif/pipe"
)

var (
	rec      = evid.New("C09")
	knownSet = known.Load("C09")
	env      *pipe.Env
	workDir  string
)

func TestMain(m *testing.M) {
	rec.Rule("cases = (a) every transform kind (plain file, ZIP-in-tar, MSI-in-tar, Mach-O/DMG tar, PGP) read twice and compared byte for byte; (b) a signer fed its upload stream under a drawn read-size schedule (1 byte, primes, sizes straddling 4 KiB / 64 KiB / 1 MiB, short reads, data returned together with EOF) vs one whole read: the embedded content digest (extracted without relic) must be identical and the patched file must verify; (c) the same input signed standalone and through the real daemon behind scripted front servers (503 before / after reading k bytes, connection reset, 406 forcing the uncompressed retry, pass) with the directory advertising identity / gzip / snappy: a produced signature embeds the same content digest as standalone signing and verifies; scripts whose failures are all transient HTTP statuses and that contain a passing server must succeed; boolean signer options in both explicit states; Mach-O code directory hash as embedded digest; non-trivial = schedule splitting a chunk boundary, or a script with >= 1 failed attempt or a non-identity encoding; distinct = (format, input sha256, schedule | script+encoding)")
	var err error
	workDir, err = os.MkdirTemp("", "c09-")
	if err != nil {
		panic(err)
	}
	arts.ExcludePEFewDirs, arts.ExcludeJAREdgeSpace = true, true
	env, err = pipe.Setup(workDir)
	if err != nil {
		panic(err)
	}
	code := m.Run()
	env.StopServer()
	rec.Set("server_pipeline_transport_retries", pipe.TransportRetries)
	rec.Flush()
	os.RemoveAll(workDir)
	os.Exit(code)
}

var counter int

func scratch() (string, func()) {
	counter++
	d := filepath.Join(workDir, fmt.Sprintf("case%d", counter))
	os.Mkdir(d, 0o755)
	return d, func() { os.RemoveAll(d) }
}

var streamFormats = []string{"pe", "msi", "jar", "apk", "ps", "cab", "xap", "vsix", "appx", "macho", "dmg", "pkg", "rpm", "deb", "cat", "appmanifest"}

func keyFor(t *rapid.T, format string) string {
	if arts.PgpFormats[format] {
		return rapid.SampledFrom([]string{"rsa2048a", "rsa3072"}).Draw(t, "pgpkey")
	}
	return rapid.SampledFrom(pipe.SigningKeys).Draw(t, "key")
}

func hashFor(t *rapid.T, format string) crypto.Hash {
	switch format {
	case "apk":
		return rapid.SampledFrom([]crypto.Hash{crypto.SHA256, crypto.SHA512}).Draw(t, "hash")
	case "macho", "dmg":
		return rapid.SampledFrom([]crypto.Hash{crypto.SHA1, crypto.SHA256}).Draw(t, "hash")
	case "appx", "rpm", "deb", "pkg":
		return crypto.SHA256
	}
	return rapid.SampledFrom([]crypto.Hash{crypto.SHA1, crypto.SHA256, crypto.SHA384}).Draw(t, "hash")
}

// ---------- (a) repeatable transform ----------

func TestC09_TransformRepeatable(t *testing.T) {
	rapid.Check(t, func(t *rapid.T) {
		format := rapid.SampledFrom(streamFormats).Draw(t, "format")
		a := arts.Gen(t, format)
		dir, done := scratch()
		defer done()
		p := filepath.Join(dir, a.Name)
		os.WriteFile(p, a.Data, 0o644)
		mod, err := signers.ByFile(p, a.SigType)
		if err != nil {
			t.Fatalf("harness: %v", err)
		}
		f, err := os.Open(p)
		if err != nil {
			t.Fatal(err)
		}
		defer f.Close()
		q := url.Values{}
		if format == "macho" {
			// auxiliary files travel in the same upload stream as the image
			for _, name := range []string{"entitlements", "info-plist", "requirements", "resources"} {
				if rapid.Bool().Draw(t, "aux_"+name) {
					ap := filepath.Join(dir, name+".bin")
					os.WriteFile(ap, []byte("<?xml version=\"1.0\"?><plist><dict><key>"+name+"</key><true/></dict></plist>\n"+strings.Repeat("x", rapid.IntRange(0, 3000).Draw(t, "aux_len"))), 0o644)
					q.Set(name, ap)
				}
			}
		}
		flags, _ := mod.FlagsFromQuery(q)
		tr, err := mod.GetTransform(f, signers.SignOpts{Path: p, Hash: crypto.SHA256, Flags: flags})
		if err != nil {
			t.Skipf("transform refused: %v", err)
		}
		reads := rapid.IntRange(2, 4).Draw(t, "reads")
		partial := rapid.IntRange(0, 2).Draw(t, "partial_first") == 0
		var first [32]byte
		for i := 0; i < reads; i++ {
			r, err := tr.GetReader()
			if err != nil {
				t.Fatalf("GetReader #%d: %v", i+1, err)
			}
			if i == 0 && partial {
				// a failed attempt that read only part of the stream
				io.CopyN(io.Discard, r, int64(rapid.IntRange(0, 5000).Draw(t, "partial_bytes")))
				// (the client only stops reading; the request body wrapper does not close the source)
				reads++
				partial = false
				continue
			}
			h := sha256.New()
			if _, err := io.Copy(h, r); err != nil {
				t.Fatalf("reading upload stream #%d of a %s: %v", i+1, format, err)
			}
			var sum [32]byte
			copy(sum[:], h.Sum(nil))
			if first == [32]byte{} {
				first = sum
			} else if sum != first {
				evid.SaveCase("TestC09_TransformRepeatable", map[string]any{"format": format, "classes": a.Classes})
				t.Fatalf("upload stream #%d of a %s differs from the first one (classes %v)", i+1, format, a.Classes)
			}
		}
		rec.Case(fmt.Sprintf("rep|%s|%s|%d", format, arts.SHA(a.Data), reads), "repeat/"+format, len(a.Classes) >= 2 || reads > 2)
		rec.Sample("repeat/"+format, map[string]any{"format": format, "classes": a.Classes, "reads": reads})
	})
}

// ---------- (b) read-size schedules ----------

type scheduled struct {
	r       io.Reader
	sizes   []int
	i       int
	eofWith bool // return the last data together with io.EOF when the source does
	pending error
}

func (s *scheduled) Read(p []byte) (int, error) {
	if s.pending != nil {
		return 0, s.pending
	}
	n := s.sizes[s.i%len(s.sizes)]
	s.i++
	if n > len(p) {
		n = len(p)
	}
	if n == 0 {
		n = 1
	}
	got, err := io.ReadFull(s.r, p[:n])
	if err == io.ErrUnexpectedEOF {
		err = io.EOF
	}
	if err == io.EOF && got > 0 && !s.eofWith {
		s.pending = io.EOF
		return got, nil
	}
	return got, err
}

var schedules = map[string][]int{
	"1-byte":      {1},
	"primes":      {1, 2, 3, 5, 7, 11, 13, 17, 19, 23, 29, 31},
	"4k-straddle": {4095, 1, 4096, 4097, 2},
	"64k":         {65535, 1, 65536, 65537},
	"1M-straddle": {1<<20 - 1, 1, 1 << 20, 1<<20 + 1},
	"mixed":       {1, 4096, 3, 65536, 7, 1 << 20, 511, 512, 513},
	"whole":       {1 << 30},
}

// maybePresign turns one input in three into an artefact already signed by relic.
func maybePresign(t *rapid.T, a *arts.Artifact) *arts.Artifact {
	if a.Format == "pgp" || a.Format == "xap" || rapid.IntRange(0, 2).Draw(t, "presigned") != 0 {
		return a
	}
	dir, done := scratch()
	defer done()
	p := filepath.Join(dir, a.Name)
	os.WriteFile(p, a.Data, 0o644)
	if err := env.SignLib(&pipe.Req{SigType: a.SigType, In: p, Key: "rsa2048a", Hash: crypto.SHA256}); err != nil {
		return a
	}
	blob, err := os.ReadFile(p)
	if err != nil {
		return a
	}
	return &arts.Artifact{Format: a.Format, SigType: a.SigType, Name: a.Name, Data: blob, Classes: append(append([]string{}, a.Classes...), "presigned"), Generated: a.Generated}
}

// signFlags are the signer flags of the case being run (set by drawFlags).
var signFlags map[string]string

// drawFlags picks signer flags whose effect depends on how the stream is consumed.
func drawFlags(t *rapid.T, format string) map[string]string {
	signFlags = nil
	// boolean signer options, given explicitly in either state (an option that defaults to
	// true must be switchable off on the server too)
	var names []string
	switch format {
	case "pe":
		names = []string{"page-hashes"}
	case "macho":
		names = []string{"hardened-runtime"}
	case "msi":
		names = []string{"no-extended-sig"}
	case "jar":
		names = []string{"sections-only", "inline-signature"}
	case "vsix":
		names = []string{"detach-certs"}
	}
	for _, n := range names {
		switch rapid.IntRange(0, 2).Draw(t, "flag_"+n) {
		case 1:
			if signFlags == nil {
				signFlags = map[string]string{}
			}
			signFlags[n] = "true"
		case 2:
			if signFlags == nil {
				signFlags = map[string]string{}
			}
			signFlags[n] = "false"
		}
	}
	return signFlags
}

func signAndDigest(t *rapid.T, a *arts.Artifact, key string, h crypto.Hash, wrap func(io.Reader) io.Reader, server bool) (string, error) {
	dir, done := scratch()
	defer done()
	p := filepath.Join(dir, a.Name)
	os.WriteFile(p, a.Data, 0o644)
	req := &pipe.Req{SigType: a.SigType, In: p, Key: key, Hash: h, WrapStream: wrap, Flags: signFlags}
	var err error
	if server {
		err = env.SignServer(req)
	} else {
		err = env.SignLib(req)
	}
	if err != nil {
		now, _ := os.ReadFile(p)
		if string(now) != string(a.Data) {
			return "", fmt.Errorf("signing failed (%v) AND the input file was modified", err)
		}
		return "", err
	}
	if _, err := env.Verify(&pipe.VerifyReq{Path: p}); err != nil {
		return "", fmt.Errorf("VERIFY: signed output does not verify: %w", err)
	}
	out, _ := os.ReadFile(p)
	d, ok, err := arts.EmbeddedDigest(a.Format, out)
	if !ok {
		return "verified", nil
	}
	if err != nil {
		return "", fmt.Errorf("VERIFY: cannot extract embedded digest: %w", err)
	}
	return d, nil
}

func TestC09_ReadSchedule(t *testing.T) {
	names := []string{"1-byte", "primes", "4k-straddle", "64k", "1M-straddle", "mixed"}
	rapid.Check(t, func(t *rapid.T) {
		format := rapid.SampledFrom([]string{"pe", "msi", "jar", "apk", "apk", "ps", "cab", "appx", "vsix", "macho", "dmg", "pkg", "deb", "rpm"}).Draw(t, "format")
		a := maybePresign(t, arts.Gen(t, format))
		key, h := keyFor(t, format), hashFor(t, format)
		flags := drawFlags(t, format)
		sched := rapid.SampledFrom(names).Draw(t, "schedule")
		if sched == "1-byte" && len(a.Data) > 300000 {
			sched = "primes"
		}
		eofWith := rapid.Bool().Draw(t, "eof_with_data")
		want, err := signAndDigest(t, a, key, h, nil, false)
		if err != nil && strings.HasPrefix(err.Error(), "VERIFY:") {
			evid.SaveCase("TestC09_ReadSchedule", map[string]any{"format": format, "classes": a.Classes, "error": err.Error()})
			t.Fatalf("%s: the digest signed from the upload stream is not the one the verifier computes from the patched file: %v (classes %v)", format, err, a.Classes)
		}
		if err != nil {
			t.Skipf("plain signing failed (C01's subject): %v", err)
		}
		got, err := signAndDigest(t, a, key, h, func(r io.Reader) io.Reader {
			return &scheduled{r: r, sizes: schedules[sched], eofWith: eofWith}
		}, false)
		splits := sched != "whole"
		rec.Case(fmt.Sprintf("sched|%s|%s|%s|%v|%s|%s|%v", format, arts.SHA(a.Data), sched, eofWith, key, h, flags), "schedule/"+format+"/"+sched, splits)
		rec.Sample("schedule/"+sched, map[string]any{"format": format, "classes": a.Classes, "schedule": sched, "eof_with_data": eofWith, "bytes": len(a.Data)})
		if err != nil {
			evid.SaveCase("TestC09_ReadSchedule", map[string]any{"format": format, "classes": a.Classes, "schedule": sched, "eof_with_data": eofWith, "error": err.Error()})
			t.Fatalf("%s signed under read schedule %q (eof with data: %v) failed although a whole read succeeds: %v", format, sched, eofWith, err)
		}
		if got != want {
			evid.SaveCase("TestC09_ReadSchedule", map[string]any{"format": format, "classes": a.Classes, "schedule": sched, "want": want, "got": got})
			t.Fatalf("%s: embedded content digest depends on the read schedule %q: %s vs %s", format, sched, got, want)
		}
	})
}

// ---------- (c) transport: encodings and failover ----------

type front struct {
	srv    *httptest.Server
	mu     sync.Mutex
	script []string
	n      int
	seen   []string // content-encodings of the /sign requests that arrived
}

var (
	frontsOnce sync.Once
	fronts     []*front
	dirSrv     *httptest.Server
	dirMu      sync.Mutex
	dirHosts   []string
	dirAccept  string
)

func daemonClient() *http.Client { return env.HTTPClient() }

func (f *front) handle(w http.ResponseWriter, r *http.Request) {
	f.mu.Lock()
	b := "pass"
	if f.n < len(f.script) {
		b = f.script[f.n]
	}
	f.n++
	f.seen = append(f.seen, r.Header.Get("Content-Encoding"))
	f.mu.Unlock()
	k := int64(0)
	if i := strings.LastIndex(b, ":"); i > 0 {
		fmt.Sscanf(b[i+1:], "%d", &k)
		b = b[:i]
	}
	switch b {
	case "503":
		http.Error(w, "scripted: service unavailable", 503)
		return
	case "503-after":
		io.CopyN(io.Discard, r.Body, k)
		http.Error(w, "scripted: service unavailable after reading", 503)
		return
	case "reset-after":
		io.CopyN(io.Discard, r.Body, k)
		if hj, ok := w.(http.Hijacker); ok {
			if c, _, err := hj.Hijack(); err == nil {
				c.Close()
				return
			}
		}
		panic(http.ErrAbortHandler)
	case "406":
		if ce := r.Header.Get("Content-Encoding"); ce != "" && ce != "identity" {
			http.Error(w, "scripted: not acceptable", 406)
			return
		}
	}
	// pass: relay to the real daemon
	out, err := http.NewRequest(r.Method, env.BaseURL()+r.URL.RequestURI(), r.Body)
	if err != nil {
		http.Error(w, err.Error(), 500)
		return
	}
	for _, h := range []string{"Content-Encoding", "Accept-Encoding", "Content-Type", "User-Agent", "Accept"} {
		if v := r.Header.Get(h); v != "" {
			out.Header.Set(h, v)
		}
	}
	out.ContentLength = r.ContentLength
	resp, err := daemonClient().Do(out)
	if err != nil {
		http.Error(w, "relay: "+err.Error(), 502)
		return
	}
	defer resp.Body.Close()
	for k, v := range resp.Header {
		w.Header()[k] = v
	}
	w.WriteHeader(resp.StatusCode)
	io.Copy(w, resp.Body)
}

func setupFronts(t *rapid.T) {
	frontsOnce.Do(func() {
		if err := env.StartServer(); err != nil {
			panic(err)
		}
		cert, err := tls.LoadX509KeyPair(env.Cfg.Server.CertFile, env.Cfg.Server.KeyFile)
		if err != nil {
			panic(err)
		}
		mk := func(h http.Handler) *httptest.Server {
			s := httptest.NewUnstartedServer(h)
			s.TLS = &tls.Config{Certificates: []tls.Certificate{cert}, ClientAuth: tls.RequestClientCert}
			s.StartTLS()
			return s
		}
		for i := 0; i < 3; i++ {
			f := &front{}
			f.srv = mk(http.HandlerFunc(f.handle))
			fronts = append(fronts, f)
		}
		dirSrv = mk(http.HandlerFunc(func(w http.ResponseWriter, r *http.Request) {
			dirMu.Lock()
			defer dirMu.Unlock()
			if dirAccept != "" {
				w.Header().Set("Accept-Encoding", dirAccept)
			}
			w.Header().Set("Content-Type", "application/json")
			json.NewEncoder(w).Encode(map[string]any{"hosts": dirHosts, "auth": []map[string]string{{"type": "certificate"}}})
		}))
	})
}

func local(u string) string { return strings.Replace(u, "127.0.0.1", "localhost", 1) }

func TestC09_Transport(t *testing.T) {
	rapid.Check(t, func(t *rapid.T) {
		setupFronts(t)
		format := rapid.SampledFrom([]string{"pe", "msi", "jar", "apk", "ps", "cab", "macho", "pkg", "deb"}).Draw(t, "format")
		arts.APKBigMembers = false
		a := maybePresign(t, arts.Gen(t, format))
		arts.APKBigMembers = true
		key, h := keyFor(t, format), hashFor(t, format)
		drawFlags(t, format)
		want, err := signAndDigest(t, a, key, h, nil, false)
		if err != nil && strings.HasPrefix(err.Error(), "VERIFY:") {
			evid.SaveCase("TestC09_Transport", map[string]any{"format": format, "classes": a.Classes, "error": err.Error()})
			t.Fatalf("%s: the digest signed from the upload stream is not the one the verifier computes from the patched file: %v (classes %v)", format, err, a.Classes)
		}
		if err != nil {
			t.Skipf("standalone signing failed (C01's subject): %v", err)
		}
		nfronts := rapid.IntRange(1, 3).Draw(t, "nfronts")
		accept := rapid.SampledFrom([]string{"", "gzip", "x-snappy-framed, gzip", "x-snappy-framed", "identity", "br, gzip;q=0.5"}).Draw(t, "advertised")
		behaviours := []string{"pass", "pass", "503", "503-after:0", "503-after:100", "503-after:5000", "reset-after:0", "reset-after:3000", "406"}
		var hosts []string
		var scripts [][]string
		allTransient := true
		anyPass := false
		failures := 0
		for i := 0; i < nfronts; i++ {
			n := rapid.IntRange(0, 2).Draw(t, "scriptlen")
			var sc []string
			for j := 0; j < n; j++ {
				b := rapid.SampledFrom(behaviours).Draw(t, "behaviour")
				sc = append(sc, b)
				if strings.HasPrefix(b, "reset") {
					allTransient = false
				}
				if b != "pass" {
					failures++
				}
			}
			fronts[i].mu.Lock()
			fronts[i].script, fronts[i].n, fronts[i].seen = sc, 0, nil
			fronts[i].mu.Unlock()
			hosts = append(hosts, local(fronts[i].srv.URL))
			scripts = append(scripts, sc)
			anyPass = true // beyond its script every front passes
		}
		dirMu.Lock()
		dirHosts, dirAccept = hosts, accept
		dirMu.Unlock()
		oldURL, oldDir, oldRetries := env.Cfg.Remote.URL, env.Cfg.Remote.DirectoryURL, env.Cfg.Remote.Retries
		env.Cfg.Remote.URL, env.Cfg.Remote.DirectoryURL = local(dirSrv.URL), local(dirSrv.URL)
		env.Cfg.Remote.Retries = rapid.IntRange(1, 6).Draw(t, "retries")
		defer func() {
			env.Cfg.Remote.URL, env.Cfg.Remote.DirectoryURL, env.Cfg.Remote.Retries = oldURL, oldDir, oldRetries
		}()
		got, err := signAndDigest(t, a, key, h, nil, true)
		desc := map[string]any{"format": format, "classes": a.Classes, "key": key, "digest": h.String(), "advertised_encodings": accept, "front_scripts": scripts, "retries": env.Cfg.Remote.Retries}
		nt := failures > 0 || (accept != "" && accept != "identity")
		rec.Case(fmt.Sprintf("tr|%s|%s|%v|%s|%d|%s|%s", format, arts.SHA(a.Data), scripts, accept, env.Cfg.Remote.Retries, key, h), fmt.Sprintf("transport/%s/failures=%d/enc=%s", format, min(failures, 3), accept), nt)
		if nt {
			rec.Sample(fmt.Sprintf("transport/failures=%d", min(failures, 3)), desc)
		}
		if err != nil {
			if strings.Contains(err.Error(), "VERIFY:") || strings.Contains(err.Error(), "input file was modified") {
				desc["error"] = err.Error()
				evid.SaveCase("TestC09_Transport", desc)
				t.Fatalf("client/server signing produced a bad result: %v\n %v", err, desc)
			}
			// enough attempts to get past every scripted failure?
			maxScript := 0
			for _, sc := range scripts {
				maxScript += len(sc)
			}
			if allTransient && anyPass && env.Cfg.Remote.Retries > maxScript {
				desc["error"] = err.Error()
				evid.SaveCase("TestC09_Transport", desc)
				t.Fatalf("signing failed although every failure was a transient HTTP status and the retry budget (%d) exceeds the scripted failures (%d): %v\n %v", env.Cfg.Remote.Retries, maxScript, err, desc)
			}
			rec.Add("transport_refusals", 1)
			return
		}
		if got != want {
			desc["want"], desc["got"] = want, got
			evid.SaveCase("TestC09_Transport", desc)
			t.Fatalf("client/server signing embeds content digest %s, standalone signing %s\n %v", got, want, desc)
		}
	})
}

// TestC09_AbandonedAttempt: failover asks for the upload stream again while the goroutine
// that served the failed attempt may not even have started yet. The second stream must be
// intact whatever the scheduler does with the first. (Schedule-dependent: many repetitions.)
func TestC09_AbandonedAttempt(t *testing.T) {
	reps := evid.EnvInt("VERIF_C09_ABANDON_REPS", 60)
	for _, format := range []string{"jar", "apk", "msi", "macho", "dmg", "pe"} {
		a := arts.Fixture(format, 0)
		dir, done := scratch()
		p := filepath.Join(dir, a.Name)
		os.WriteFile(p, a.Data, 0o644)
		mod, err := signers.ByFile(p, a.SigType)
		if err != nil {
			t.Fatal(err)
		}
		f, err := os.Open(p)
		if err != nil {
			t.Fatal(err)
		}
		flags, _ := mod.FlagsFromQuery(nil)
		tr, err := mod.GetTransform(f, signers.SignOpts{Path: p, Hash: crypto.SHA256, Flags: flags})
		if err != nil {
			t.Fatalf("%s: %v", format, err)
		}
		sum := func(r io.Reader) [32]byte {
			h := sha256.New()
			io.Copy(h, r)
			var s [32]byte
			copy(s[:], h.Sum(nil))
			return s
		}
		r0, _ := tr.GetReader()
		want := sum(r0)
		for i := 0; i < reps; i++ {
			if _, err := tr.GetReader(); err != nil { // the attempt that never gets read
				t.Fatal(err)
			}
			r2, err := tr.GetReader()
			if err != nil {
				t.Fatal(err)
			}
			got := sum(r2)
			rec.Case(fmt.Sprintf("abandon|%s|%d", format, i), "abandoned-attempt/"+format, true)
			if got != want {
				evid.SaveCase("TestC09_AbandonedAttempt", map[string]any{"format": format, "repetition": i})
				t.Fatalf("%s: the upload stream requested after an abandoned attempt differs from a clean one (repetition %d)", format, i)
			}
		}
		f.Close()
		done()
	}
	rec.Sample("abandoned-attempt", map[string]any{"formats": "jar apk msi macho dmg pe", "repetitions_each": reps})
}

// TestC09_AbandonedCompressedAttempt: the client compresses the upload in a helper
// goroutine that reads the input file. When an attempt is abandoned (server answered
// early, connection reset) and the next attempt rewinds the same file, what the next
// server receives must still be the whole input, for every negotiated encoding.
func TestC09_AbandonedCompressedAttempt(t *testing.T) {
	reps := evid.EnvInt("VERIF_C09_COMPRESS_REPS", 150)
	dir, done := scratch()
	defer done()
	data := make([]byte, 3<<20)
	for i := range data {
		data[i] = byte(i*31 + i/4093)
	}
	p := filepath.Join(dir, "big.ps1")
	os.WriteFile(p, data, 0o644)
	want := sha256.Sum256(data)
	for _, enc := range []string{"gzip", "x-snappy-framed"} {
		f, err := os.Open(p)
		if err != nil {
			t.Fatal(err)
		}
		for i := 0; i < reps; i++ {
			attempt := func(readBytes int) [32]byte {
				f.Seek(0, 0) // what the default transform's GetReader does
				req, _ := http.NewRequest("POST", "http://server.invalid/sign", io.NopCloser(f))
				if err := compresshttp.CompressRequest(req, enc); err != nil {
					t.Fatal(err)
				}
				var sum [32]byte
				if readBytes >= 0 {
					io.CopyN(io.Discard, req.Body, int64(readBytes))
					req.Body.Close() // the transport gives up on this attempt
					return sum
				}
				srv := &http.Request{Header: req.Header, Body: req.Body}
				if err := compresshttp.DecompressRequest(srv); err != nil {
					t.Fatal(err)
				}
				h := sha256.New()
				io.Copy(h, srv.Body)
				req.Body.Close()
				copy(sum[:], h.Sum(nil))
				return sum
			}
			attempt((i * 7919) % 200000)
			got := attempt(-1)
			rec.Case(fmt.Sprintf("abandon-compressed|%s|%d", enc, i), "abandoned-compressed-attempt/"+enc, true)
			if got != want {
				evid.SaveCase("TestC09_AbandonedCompressedAttempt", map[string]any{"encoding": enc, "repetition": i, "first_attempt_read": (i * 7919) % 200000})
				t.Fatalf("%s: after an abandoned compressed attempt the next attempt delivered different bytes than the input (repetition %d)", enc, i)
			}
		}
		f.Close()
	}
	rec.Sample("abandoned-compressed-attempt", map[string]any{"encodings": "gzip x-snappy-framed", "repetitions_each": reps, "input_bytes": len(data)})
}
