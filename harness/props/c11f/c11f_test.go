// C11 (thorough tier) — coverage-guided native fuzzing of the same entry points that
// props/c11 attacks with structure-aware corruption. The target decodes (entry, module,
// bytes); the corpus is seeded with every valid and signed base artefact and with the
// saved crashers. A panic of the calling goroutine, an allocation or CPU total beyond
// the fixed bounds fails the target; a helper-goroutine panic or runtime abort kills the
// fuzz worker, which Go's fuzzer reports with the input saved.
package c11f

import (
	"crypto/sha256"
	"encoding/json"
	"fmt"
	"os"
	"path/filepath"
	"runtime"
	"strings"
	"sync"
	"syscall"
	"testing"

	"github.com/sassoftware/relic/v8/config"
	"github.com/sassoftware/relic/v8/signers"
	"github.com/sassoftware/relic/v8/xverif/arts"
	"github.com/sassoftware/relic/v8/xverif/c11entry"
	"github.com/sassoftware/relic/v8/xverif/evid"
	"github.com/sassoftware/relic/v8/xverif/known"
	"github.com/sassoftware/relic/v8/xverif/pipe"
)

var (
	rec      = evid.New("C11")
	knownSet = known.Load("C11")
	cfg      *config.Config
	workDir  string
	modules  []string
	isWorker bool
)

func TestMain(m *testing.M) {
	for _, a := range os.Args {
		if strings.HasPrefix(a, "-test.fuzzworker") {
			isWorker = true
		}
	}
	if p := os.Getenv("VERIF_EVIDENCE_PART"); p != "" && isWorker {
		os.Setenv("VERIF_EVIDENCE_PART", fmt.Sprintf("%s.w%d", p, os.Getpid()))
		rec = evid.New("C11")
	}
	rec.Rule("native fuzzing: cases = inputs executed by go's coverage-guided fuzzer on the target (entry point byte, module byte, input bytes), seeded with all valid/signed base artefacts and saved crashers; oracle = no panic in the calling goroutine (site not listed), worker process alive, allocation <= 96 MiB + 512 x input, CPU <= 15 s + 20 ms/KiB; non-trivial = input the parser did not reject outright at type detection (result ok, or an error other than an unknown-type refusal); distinct = hash of (entry, module, input)")
	if isWorker {
		lim := &syscall.Rlimit{Cur: 6 << 30, Max: 6 << 30}
		syscall.Setrlimit(syscall.RLIMIT_AS, lim)
	}
	runtime.MemProfileRate = 256 << 10
	var err error
	// every process (coordinator and workers) needs its own configuration directory
	workDir, err = os.MkdirTemp("", "c11f-")
	if err != nil {
		panic(err)
	}
	env, err := pipe.Setup(workDir)
	if err != nil {
		panic(err)
	}
	if cfg, err = c11entry.Setup(env.CfgPath); err != nil {
		panic(err)
	}
	seen := map[string]bool{}
	for _, f := range arts.Formats {
		for _, fx := range arts.Fixtures[f] {
			if !seen[fx.SigType] {
				seen[fx.SigType] = true
				modules = append(modules, fx.SigType)
			}
		}
	}
	modules = append(modules, "mach-o-fat", "pkcs7")
	for _, mname := range modules {
		if signers.ByName(mname) == nil {
			panic("no module " + mname)
		}
	}
	code := m.Run()
	rec.Flush()
	os.RemoveAll(workDir)
	os.Exit(code)
}

var (
	mu    sync.Mutex
	prof0 map[[32]uintptr]int64
)

func FuzzEntry(f *testing.F) {
	// seeds: every fixture under every plausible entry
	for mi, mname := range modules {
		for _, format := range arts.Formats {
			for i, fx := range arts.Fixtures[format] {
				if fx.SigType != mname {
					continue
				}
				a := arts.Fixture(format, i)
				for e := range c11entry.Entries {
					f.Add(uint8(e), uint8(mi), a.Data)
				}
			}
		}
	}
	// seeds: saved crashers
	metas, _ := filepath.Glob(filepath.Join(os.Getenv("VERIF_ROOT"), "harness/props/c11/testdata/crashers/*.json"))
	for _, mf := range metas {
		var meta struct{ Entry, Module string }
		blob, _ := os.ReadFile(mf)
		if json.Unmarshal(blob, &meta) != nil {
			continue
		}
		data, err := os.ReadFile(strings.TrimSuffix(mf, ".json") + ".bin")
		if err != nil {
			continue
		}
		for e, en := range c11entry.Entries {
			for mi, mn := range modules {
				if en == meta.Entry && mn == meta.Module {
					f.Add(uint8(e), uint8(mi), data)
				}
			}
		}
	}
	f.Fuzz(func(t *testing.T, e uint8, mi uint8, data []byte) {
		mu.Lock()
		defer mu.Unlock()
		entry := c11entry.Entries[int(e)%len(c11entry.Entries)]
		mname := modules[int(mi)%len(modules)]
		if len(data) > 1<<20 {
			return
		}
		if mname == "rpm" {
			// every failure behind this module is a listed finding inside the third-party RPM
			// reader (multi-gigabyte allocations included): the structure-aware search keeps
			// probing it inside its capped child, the native campaign spends its time elsewhere
			rec.Excluded("C11:rpm module not fuzzed natively (listed go-rpmutils findings)")
			return
		}
		p := filepath.Join(workDir, "in.bin")
		if err := os.WriteFile(p, data, 0o644); err != nil {
			t.Skip()
		}
		var ms0, ms1 runtime.MemStats
		runtime.ReadMemStats(&ms0)
		var ru0, ru1 syscall.Rusage
		syscall.Getrusage(syscall.RUSAGE_SELF, &ru0)
		res := c11entry.Run(cfg, c11entry.Req{Entry: entry, SigType: mname, Path: p, Name: "in.bin"})
		syscall.Getrusage(syscall.RUSAGE_SELF, &ru1)
		runtime.ReadMemStats(&ms1)
		alloc := ms1.TotalAlloc - ms0.TotalAlloc
		cpu := (ru1.Utime.Nano() + ru1.Stime.Nano() - ru0.Utime.Nano() - ru0.Stime.Nano()) / 1e6
		h := sha256.Sum256(append([]byte{e, mi}, data...))
		nt := res.Status == "ok" || (res.Status == "error" && !strings.Contains(res.Err, "unknown") && !strings.Contains(res.Err, "not a "))
		rec.Case(fmt.Sprintf("%x", h[:12]), "fuzz/"+entry+"/"+mname+"/"+res.Status, nt)
		site, what := "", ""
		if alloc > (8 << 20) {
			defer func() { prof0 = c11entry.SnapshotProfile() }()
		}
		switch {
		case res.Status == "panic":
			site, what = "panic:"+res.Site, res.Err+"\n"+res.Stack
		case alloc > uint64(c11entry.AllocBase+c11entry.AllocFactor*len(data)):
			asite := c11entry.AllocSite(prof0)
			site, what = "alloc:"+asite, fmt.Sprintf("allocated %d bytes for a %d-byte input, most of it in %s", alloc, len(data), asite)
		case cpu > int64(c11entry.CPUBaseMs+c11entry.CPUPerKiB*len(data)/1024):
			site, what = "cpu:"+entry+":"+mname, fmt.Sprintf("burned %d ms CPU on a %d-byte input", cpu, len(data))
		}
		if site == "" {
			return
		}
		if knownSet.Has("C11:" + site) {
			rec.Excluded("C11:" + site)
			return
		}
		t.Fatalf("C11:%s entry=%s module=%s input=%d bytes\n%s", site, entry, mname, len(data), c11entry.Trunc(what, 4000))
	})
}
