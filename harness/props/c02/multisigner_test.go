package c02

import (
	"bytes"
	"crypto"
	"crypto/x509"
	"fmt"
	"testing"
	"time"

	"github.com/sassoftware/relic/v8/lib/pkcs7"
	"github.com/sassoftware/relic/v8/xverif/cmsgen"
	"github.com/sassoftware/relic/v8/xverif/der"
	"github.com/sassoftware/relic/v8/xverif/evid"
	"github.com/sassoftware/relic/v8/xverif/keys"
	"pgregory.net/rapid"
)

var msKeys *cmsgen.Keys

func multiSignerKeys() cmsgen.Keys {
	if msKeys != nil {
		return *msKeys
	}
	now := time.Date(2026, 1, 2, 3, 4, 5, 0, time.UTC)
	ca := keys.NewCA("c02 multi-signer CA", keys.Key("rsa2048c"), nil, keys.Epoch, keys.Far)
	k := cmsgen.Keys{CA: ca.Cert, CAKey: ca.Key, Now: now}
	for i, name := range []string{"rsa2048a", "p256a", "p384a", "rsa2048b"} {
		leaf, err := cmsgen.NewLeaf(keys.Key(name), ca.Key, ca.Cert, now, "c02 signer "+name, int64(300+i))
		if err != nil {
			panic(err)
		}
		k.Signers = append(k.Signers, cmsgen.KeyPair{Name: name, Key: keys.Key(name), Cert: leaf})
	}
	k.Unrelated = []*x509.Certificate{keys.SelfSigned("c02 unrelated", keys.Key("p521b"), nil)}
	msKeys = &k
	return k
}

// TestC02_EverySignerInfo: the PKCS#7 entry point shared by the Authenticode, JAR, appx,
// xap, Mach-O and xar verifiers checks every SignerInfo. A SignedData with 1-3 signers is
// accepted as built; after one byte of one signer's signature value or message-digest
// attribute is changed it must be refused, whichever signer was touched.
func TestC02_EverySignerInfo(t *testing.T) {
	rapid.Check(t, func(t *rapid.T) {
		b := cmsgen.BuildWith(t, multiSignerKeys(), cmsgen.Options{NoSKI: true, NoBER: true, NoPSS: true, NoBareECDSAOID: true,
			NoNoAttrs: true, NoEarlyGeneralizedTime: true, NoUnsigned: true, NoCRLs: true, NoNonData: true})
		sd, err := der.ParseSignedData(b.DER)
		if err != nil {
			t.Fatalf("harness error: %v", err)
		}
		psd, err := pkcs7.Unmarshal(b.DER)
		if err != nil {
			t.Skipf("relic does not read the unmodified value: %v", err)
		}
		if _, err := psd.Content.Verify(b.Content, false); err != nil {
			t.Skipf("relic does not accept the unmodified value: %v", err)
		}
		n := len(sd.SignerInfos)
		idx := rapid.IntRange(0, n-1).Draw(t, "signer")
		si := sd.SignerInfos[idx]
		target := rapid.SampledFrom([]string{"signature", "message-digest"}).Draw(t, "target")
		mutated := append([]byte(nil), b.DER...)
		pos := -1
		switch target {
		case "signature":
			c := si.SignatureTLV
			if len(c.Content) == 0 {
				t.Skip("empty signature")
			}
			pos = c.Offset + len(c.Header) + rapid.IntRange(0, len(c.Content)-1).Draw(t, "byte")
		case "message-digest":
			for _, h := range []crypto.Hash{crypto.SHA1, crypto.SHA256, crypto.SHA384, crypto.SHA512} {
				hh := h.New()
				hh.Write(b.Digested)
				sum := hh.Sum(nil)
				if at := bytes.Index(si.SignedAttrsRaw, sum); at >= 0 {
					pos = si.SignedAttrsTLV.Offset + at + rapid.IntRange(0, len(sum)-1).Draw(t, "byte")
					break
				}
			}
			if pos < 0 {
				t.Fatalf("harness error: message digest of signer %d not found", idx)
			}
		}
		mutated[pos] ^= byte(1 << rapid.IntRange(0, 7).Draw(t, "bit"))
		rec.Case(fmt.Sprintf("ms|%x|%d|%s|%d", b.DER[len(b.DER)-16:], idx, target, pos), fmt.Sprintf("multi-signer/signers=%d/touched=%d/%s", n, idx, target), true)
		if n > 1 {
			rec.Sample("multi-signer", map[string]any{"signers": n, "touched": idx, "target": target, "classes": b.Classes})
		}
		psd2, err := pkcs7.Unmarshal(mutated)
		if err != nil {
			return // refused
		}
		if _, err := psd2.Content.Verify(b.Content, false); err == nil {
			cd := map[string]any{"signers": n, "touched": idx, "target": target, "offset": pos, "classes": b.Classes, "der_hex": fmt.Sprintf("%x", mutated),
				"error": "SignedData.Verify accepted a value in which one SignerInfo's " + target + " was changed"}
			evid.SaveCase("TestC02_EverySignerInfo", cd)
			t.Fatalf("%s (signer %d of %d, offset %d)", cd["error"], idx, n, pos)
		}
	})
}
