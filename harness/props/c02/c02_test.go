// C02 — any change to signed content or to the signature makes verification fail.
package c02

import (
	"unicode/utf8"
	"archive/zip"
	"bytes"
	"compress/zlib"
	"crypto"
	"crypto/rand"
	"crypto/sha256"
	"crypto/x509"
	"debug/macho"
	"encoding/base64"
	"encoding/binary"
	"encoding/xml"
	"fmt"
	"github.com/sassoftware/relic/v8/xverif/apkref"
	"io"
	"os"
	"os/exec"
	"path/filepath"
	"regexp"
	"sort"
	"strconv"
	"strings"
	"testing"

	"pgregory.net/rapid"

	"github.com/sassoftware/relic/v8/xverif/arts"
	"github.com/sassoftware/relic/v8/xverif/cfb"
	"github.com/sassoftware/relic/v8/xverif/der"
	"github.com/sassoftware/relic/v8/xverif/evid"
	"github.com/sassoftware/relic/v8/xverif/keys"
	"github.com/sassoftware/relic/v8/xverif/known"
	"github.com/sassoftware/relic/v8/xverif/pegen"
	"github.com/sassoftware/relic/v8/xverif/pipe"
)

var (
	rec      = evid.New("C02")
	knownSet = known.Load("C02")
	env      *pipe.Env
	workDir  string
)

func TestMain(m *testing.M) {
	rec.Rule("cases = signed artefact (16 types; generated PE/MSI/JAR/PowerShell inputs or fixtures; drawn key and digest) x one mutation inside a region the harness computes to be protected from the format specification: payload bytes (PE image outside checksum/certificate-directory/certificate table, MSI stream sectors, ZIP member data, script text, Mach-O section bytes, CAB data, DMG data fork, XAR table of contents, RPM header/payload, DEB members, PGP-signed content), the PKCS#7 signed attributes / message digest / content digest / signature value / leaf certificate located by an independent DER walker, PGP signature packets, or a semantic edit (member replaced/deleted/added, signature grafted from another artefact, data appended after or inside the signature container); mutation = bit flip, byte overwrite, 2-8 byte scramble, truncation; a mutation that the independent reader shows to leave the protected content unchanged is discarded and counted; oracle = relic's verifier (digests and chain on) must return an error or not-signed; DEB member insertion in front of control/data members; PE certificate table of another image next to the genuine entry; non-trivial = every counted case (the mutation changed protected content); distinct = (format, input, region label, mutation)")
	rec.Assume("unlisted extra ZIP members are only claimed protected for APK (scheme v2 covers the whole file) and APPX (block map), following the JDK's JAR semantics")
	var err error
	workDir, err = os.MkdirTemp("", "c02-")
	if err != nil {
		panic(err)
	}
	arts.ExcludePEFewDirs, arts.ExcludeJAREdgeSpace, arts.PSLegacyCodePage = true, true, true
	env, err = pipe.Setup(workDir)
	if err != nil {
		panic(err)
	}
	code := m.Run()
	rec.Flush()
	os.RemoveAll(workDir)
	os.Exit(code)
}

type region struct {
	Off, Len int
	Label    string
}

// ---------- protected regions per format ----------

func p7Regions(p7 []byte, base int, prefix string) []region {
	var out []region
	if tlv, _, e := der.Parse(p7); e == nil {
		p7 = tlv.Raw
	}
	sd, err := der.ParseSignedData(p7)
	if err != nil {
		return nil
	}
	// offset of p7 within the file is base; TLV offsets are relative to p7
	add := func(t der.TLV, label string) {
		if len(t.Raw) > 0 {
			out = append(out, region{base + t.Offset, len(t.Raw), prefix + label})
		}
	}
	if !sd.Detached {
		// only the content octets are digested (RFC 2315 9.3 / RFC 5652 5.4), not the
		// identifier and length octets of the content
		in := sd.EContentInner
		if len(in.Content) > 0 {
			out = append(out, region{base + in.Offset + len(in.Header), len(in.Content), prefix + "eContent"})
		}
	}
	for i := range sd.SignerInfos {
		si := &sd.SignerInfos[i]
		add(si.SignedAttrsTLV, "signedAttrs")
		add(si.SignatureTLV, "signatureValue")
		for _, a := range si.SignedAttr(der.OIDAttrMessageDigest) {
			out = append(out, region{base + a.Offset, len(a.Raw), prefix + "messageDigest"})
		}
		if cert, ok := der.FindCertTLV(si, sd.Certificates); ok {
			// the TBSCertificate (first child) is covered by the issuer's signature
			if kids, err := cert.Children(); err == nil && len(kids) == 3 {
				add(kids[0], "leafTBS")
				add(kids[2], "leafSignature")
			}
		}
	}
	return out
}

// p7Fingerprint: the protected parts of a SignedData as located by the DER walker.
func p7Fingerprint(p7 []byte) string {
	if tlv, _, e := der.Parse(p7); e == nil {
		p7 = tlv.Raw
	}
	sd, err := der.ParseSignedData(p7)
	if err != nil {
		return "unparsable:" + arts.SHA(p7)
	}
	var b bytes.Buffer
	b.WriteString(sd.EContentType)
	b.Write(sd.EContentInner.Content)
	for i := range sd.SignerInfos {
		si := &sd.SignerInfos[i]
		b.Write(si.SignedAttrsRaw)
		b.Write(si.Signature)
		b.WriteString(si.DigestAlgOID + si.SigAlgOID)
		if cert, ok := der.FindCertTLV(si, sd.Certificates); ok {
			b.Write(cert.Raw)
		} else {
			b.WriteString("no-leaf")
		}
	}
	return arts.SHA(b.Bytes())
}

// streamRanges lists the file ranges that hold a CFB stream's bytes.
func streamRanges(f *cfb.File, e *cfb.DirEntry) []region {
	var out []region
	remaining := int(e.Size)
	if e.Size >= 4096 {
		sec := e.Start
		for n := 0; remaining > 0 && sec < cfb.MaxRegSect && int(sec) < len(f.FAT) && n < 1<<20; n++ {
			l := min(f.SectorSize, remaining)
			out = append(out, region{int(f.SectorOffset(sec)), l, "stream:" + e.Name})
			remaining -= l
			sec = f.FAT[sec]
		}
		return out
	}
	ms := e.Start
	for n := 0; remaining > 0 && ms < cfb.MaxRegSect && int(ms) < len(f.MiniFAT) && n < 1<<20; n++ {
		pos := int(ms) * 64
		idx := pos / f.SectorSize
		if idx >= len(f.MiniStreamSectors) {
			break
		}
		l := min(64, remaining)
		out = append(out, region{int(f.SectorOffset(f.MiniStreamSectors[idx])) + pos%f.SectorSize, l, "stream:" + e.Name})
		remaining -= l
		ms = f.MiniFAT[ms]
	}
	return out
}

func findSub(hay, needle []byte) int { return bytes.Index(hay, needle) }

func zipRegions(data []byte, skip func(string) bool) []region {
	zr, err := zip.NewReader(bytes.NewReader(data), int64(len(data)))
	if err != nil {
		return nil
	}
	var out []region
	for _, f := range zr.File {
		if f.CompressedSize64 == 0 || skip(f.Name) {
			continue
		}
		off, err := f.DataOffset()
		if err != nil {
			continue
		}
		out = append(out, region{int(off), int(f.CompressedSize64), "member:" + f.Name})
	}
	return out
}

func regions(format string, data []byte, contentPath string) ([]region, error) {
	var out []region
	switch format {
	case "pe":
		in, err := pegen.Parse(data)
		if err != nil {
			return nil, err
		}
		end := in.ContentEnd()
		out = append(out, region{0, in.ChecksumOff, "image:headers"})
		out = append(out, region{in.ChecksumOff + 4, in.CertDirOff - in.ChecksumOff - 4, "image:opthdr"})
		out = append(out, region{in.CertDirOff + 8, end - in.CertDirOff - 8, "image:body"})
		tbl, err := pegen.CertTable(data)
		if err != nil {
			return nil, err
		}
		ents, err := pegen.ParseCertTable(tbl)
		if err != nil || len(ents) != 1 {
			return nil, fmt.Errorf("cert table: %v", err)
		}
		out = append(out, p7Regions(ents[0].Data, int(in.CertTableOff)+8, "pkcs7:")...)
	case "msi":
		f, err := cfb.Parse(data)
		if err != nil {
			return nil, err
		}
		for i := range f.Entries {
			e := &f.Entries[i]
			if e.Type != cfb.TypeStream || !e.Reachable || e.Size == 0 {
				continue
			}
			out = append(out, streamRanges(f, e)...)
		}
	case "jar", "apk", "vsix", "xap", "appx":
		out = append(out, zipRegions(data, func(name string) bool {
			// [Content_Types].xml is not a part and cannot be referenced by an OPC signature
			return format == "vsix" && name == "[Content_Types].xml"
		})...)
	case "ps":
		out = append(out, region{0, len(data), "ps:file"})
	case "macho":
		f, err := macho.NewFile(bytes.NewReader(data))
		if err != nil {
			return nil, err
		}
		for _, s := range f.Sections {
			if s.Offset != 0 && s.Size > 0 && s.Flags&0xff != 1 && s.Seg != "__LINKEDIT" {
				out = append(out, region{int(s.Offset), int(s.Size), "section:" + s.Seg + "," + s.Name})
			}
		}
	case "cab":
		// CFHEADER: cbCabinet @8, coffFiles @16; the reserve header (with the signature
		// pointer) lies before coffFiles
		if len(data) > 40 {
			coff := int(binary.LittleEndian.Uint32(data[16:]))
			cb := int(binary.LittleEndian.Uint32(data[8:]))
			if coff > 0 && cb > coff && cb <= len(data) {
				out = append(out, region{coff, cb - coff, "cab:files+data"})
			}
		}
	case "dmg":
		// koly trailer: data fork offset @0x18, length @0x20 (big endian)
		if len(data) > 512 {
			k := data[len(data)-512:]
			if string(k[:4]) == "koly" {
				off := int(binary.BigEndian.Uint64(k[0x18:]))
				l := int(binary.BigEndian.Uint64(k[0x20:]))
				if l > 0 && off+l <= len(data) {
					out = append(out, region{off, l, "dmg:datafork"})
				}
			}
		}
	case "pkg":
		// xar header: size @4 (u16), toc compressed length @8 (u64), big endian
		if len(data) > 28 && string(data[:4]) == "xar!" {
			hs := int(binary.BigEndian.Uint16(data[4:]))
			tl := int(binary.BigEndian.Uint64(data[8:]))
			if hs+tl <= len(data) {
				out = append(out, region{hs, tl, "xar:toc"})
				// every archived file's heap extent (at any directory depth), from an
				// independent reading of the table of contents
				for _, f := range xarHeapFiles(data[hs : hs+tl]) {
					if f.length > 0 && hs+tl+f.offset+f.length <= len(data) {
						out = append(out, region{hs + tl + f.offset, f.length, "xar:heap:" + f.path})
					}
				}
			}
		}
	case "rpm":
		// lead 96 bytes, signature header, then the header + payload covered by the signature
		if len(data) > 96+16 {
			n := int(binary.BigEndian.Uint32(data[96+8:]))
			sz := int(binary.BigEndian.Uint32(data[96+12:]))
			hdr := 96 + 16 + 16*n + sz
			hdr = (hdr + 7) &^ 7
			if hdr+32 < len(data) {
				// the 16-byte header intro (magic, entry count, store size) is left alone: a
				// changed count or size makes the third-party RPM reader allocate gigabytes
				// (finding C11:alloc:signers/rpm.verify), which says nothing about protection
				out = append(out, region{hdr + 16, len(data) - hdr - 16, "rpm:header+payload"})
				rec.Excluded("C11:alloc:signers/rpm.verify (header intro not mutated)")
			}
		}
	case "deb":
		// ar members other than _gpg*: name at +0 (16), size at +48 (10), data at +60
		pos := 8
		for pos+60 <= len(data) {
			name := strings.TrimRight(string(data[pos:pos+16]), " /")
			var size int
			fmt.Sscanf(strings.TrimSpace(string(data[pos+48:pos+58])), "%d", &size)
			if !strings.HasPrefix(name, "_gpg") && size > 0 {
				out = append(out, region{pos + 60, size, "ar:" + name})
			}
			pos += 60 + size + size%2
		}
	case "cat":
		out = append(out, p7Regions(data, 0, "pkcs7:")...)
	case "pgp-clearsign", "pgp-inline":
		// whole file is either protected text or signature material; armor headers and
		// line endings are not: restrict to the middle of the body text
		if i := bytes.Index(data, []byte("the quick brown fox")); i >= 0 {
			out = append(out, region{i, len("the quick brown fox"), "pgp:text"})
		}
	}
	return out, nil
}

type xarFile struct {
	path           string
	offset, length int
}

// xarHeapFiles inflates the table of contents and walks <file> elements recursively.
func xarHeapFiles(toc []byte) []xarFile {
	zr, err := zlib.NewReader(bytes.NewReader(toc))
	if err != nil {
		return nil
	}
	dec := xml.NewDecoder(zr)
	var out []xarFile
	var names []string
	var stack []string
	var cur *xarFile
	var text strings.Builder
	for {
		tok, err := dec.Token()
		if err != nil {
			break
		}
		switch v := tok.(type) {
		case xml.StartElement:
			stack = append(stack, v.Name.Local)
			text.Reset()
			if v.Name.Local == "file" {
				names = append(names, "?")
			}
			if v.Name.Local == "data" && len(stack) >= 2 && stack[len(stack)-2] == "file" {
				cur = &xarFile{}
			}
		case xml.CharData:
			text.Write(v)
		case xml.EndElement:
			val := strings.TrimSpace(text.String())
			parent := ""
			if len(stack) >= 2 {
				parent = stack[len(stack)-2]
			}
			switch {
			case v.Name.Local == "name" && parent == "file" && len(names) > 0:
				names[len(names)-1] = val
			case v.Name.Local == "offset" && parent == "data" && cur != nil:
				cur.offset, _ = strconv.Atoi(val)
			case v.Name.Local == "length" && parent == "data" && cur != nil:
				cur.length, _ = strconv.Atoi(val)
			case v.Name.Local == "data" && cur != nil:
				cur.path = strings.Join(names, "/")
				out = append(out, *cur)
				cur = nil
			case v.Name.Local == "file" && len(names) > 0:
				// the name element may follow the data element: patch entries recorded with "?"
				full := strings.Join(names, "/")
				for i := range out {
					if strings.HasPrefix(out[i].path, strings.Join(names[:len(names)-1], "/")) && strings.Contains(out[i].path, "?") {
						out[i].path = full
					}
				}
				names = names[:len(names)-1]
			}
			stack = stack[:len(stack)-1]
			text.Reset()
		}
	}
	return out
}

// ---------- independent "did protected content change?" check ----------

func zipContent(data []byte) (map[string]string, error) {
	zr, err := zip.NewReader(bytes.NewReader(data), int64(len(data)))
	if err != nil {
		return nil, err
	}
	out := map[string]string{}
	for _, f := range zr.File {
		rc, err := f.Open()
		if err != nil {
			return nil, err
		}
		b, err := io.ReadAll(rc)
		rc.Close()
		if err != nil {
			return nil, err
		}
		out[f.Name] = arts.SHA(b)
	}
	return out, nil
}

// fingerprint of the protected content per the independent readers ("" = not available).
func fingerprint(format string, data []byte) string {
	switch format {
	case "jar", "apk", "vsix", "xap", "appx":
		m, err := zipContent(data)
		if err != nil {
			return "unreadable:" + arts.SHA(data)
		}
		var keys []string
		for k, v := range m {
			if format == "vsix" && k == "[Content_Types].xml" {
				continue
			}
			keys = append(keys, k+"="+v)
		}
		sort.Strings(keys)
		return strings.Join(keys, ";")
	case "pe":
		pl, err := pegen.Payload(data)
		if err != nil {
			return "unreadable:" + arts.SHA(data)
		}
		fp := arts.SHA(pl)
		if tbl, err := pegen.CertTable(data); err == nil {
			if ents, err := pegen.ParseCertTable(tbl); err == nil && len(ents) == 1 {
				return fp + p7Fingerprint(ents[0].Data)
			}
		}
		return fp + "no-table:" + arts.SHA(data)
	case "msi":
		f, err := cfb.Parse(data)
		if err != nil {
			return "unreadable:" + arts.SHA(data)
		}
		var b strings.Builder
		for _, it := range f.Items() {
			if it.Path == cfb.SigStreamName {
				b.WriteString(p7Fingerprint(it.Data))
				continue
			}
			b.WriteString(it.Path + "=" + arts.SHA(it.Data) + ";")
		}
		return b.String()
	case "ps":
		_, err := arts.SamePayload("ps", data, data, "")
		if err != nil {
			return "unreadable"
		}
		p7, err := arts.PSSignatureBlock(data)
		if err != nil {
			return "noblock:" + arts.SHA(data)
		}
		return arts.PSText(data) + "|" + p7Fingerprint(p7)
	case "cat":
		return p7Fingerprint(data)
	}
	return ""
}

// unchanged reports whether the mutation provably left the protected content as it was.
func unchanged(format string, orig, mutated []byte, reg region) bool {
	a := fingerprint(format, orig)
	if a == "" {
		return false
	}
	b := fingerprint(format, mutated)
	if strings.Contains(b, "unparsable:") {
		// the flip hit framing the independent parser insists on (e.g. the outer
		// ContentInfo OID, which no signature covers): cannot be judged, discard
		return true
	}
	return a == b
}

type caseDesc struct {
	Format   string `json:"format"`
	Input    string `json:"input"`
	Key      string `json:"key"`
	Hash     string `json:"digest"`
	Region   string `json:"region"`
	Mutation string `json:"mutation"`
	Offset   int    `json:"offset"`
	Error    string `json:"error,omitempty"`
}

var formats = []string{"pe", "msi", "jar", "apk", "vsix", "xap", "appx", "ps", "macho", "cab", "dmg", "pkg", "rpm", "deb", "cat", "pgp-detached", "pgp-clearsign", "pgp-inline"}

var counter int

type signedArt struct {
	format  string
	name    string
	data    []byte // signed file
	content []byte // detached content (pgp-detached)
	key     string
	hash    crypto.Hash
}

func signOne(t *rapid.T, format string, dir string) *signedArt {
	return signOneFlags(t, format, dir, nil)
}

func signOneFlags(t *rapid.T, format string, dir string, extra map[string]string) *signedArt {
	base := format
	flags := map[string]string{}
	for k, v := range extra {
		flags[k] = v
	}
	if strings.HasPrefix(format, "pgp") {
		base = "pgp"
	}
	var a *arts.Artifact
	if base == "pgp" {
		a = &arts.Artifact{Format: "pgp", SigType: "pgp", Name: "msg.txt", Data: []byte("line one\nthe quick brown fox jumps over the lazy dog\nlast line\n")}
		switch format {
		case "pgp-clearsign":
			flags["clearsign"] = "true"
		case "pgp-inline":
			flags["inline"] = "true"
			if rapid.Bool().Draw(t, "armor") {
				flags["armor"] = "true"
			}
		}
	} else {
		a = arts.Gen(t, base)
	}
	key := rapid.SampledFrom(pipe.SigningKeys).Draw(t, "key")
	if arts.PgpFormats[base] {
		key = rapid.SampledFrom([]string{"rsa2048a", "rsa3072"}).Draw(t, "pgpkey")
	}
	h := crypto.SHA256
	if !arts.PgpFormats[base] && base != "apk" && base != "appx" && base != "macho" && base != "dmg" && base != "pkg" {
		h = rapid.SampledFrom([]crypto.Hash{crypto.SHA256, crypto.SHA1, crypto.SHA384}).Draw(t, "hash")
	}
	in := filepath.Join(dir, a.Name)
	os.WriteFile(in, a.Data, 0o644)
	req := &pipe.Req{SigType: a.SigType, In: in, Key: key, Hash: h, Flags: flags}
	out := in
	if base == "pgp" {
		out = filepath.Join(dir, "msg.sig")
		req.Out = out
	}
	if err := env.SignLib(req); err != nil {
		t.Skipf("signing failed (C01's subject): %v", err)
	}
	signed, _ := os.ReadFile(out)
	sa := &signedArt{format: format, name: filepath.Base(out), data: signed, key: key, hash: h}
	if format == "pgp-detached" {
		sa.content = a.Data
	}
	return sa
}

func verifyBytes(dir string, sa *signedArt, data, content []byte) error {
	p := filepath.Join(dir, "m-"+sa.name)
	os.WriteFile(p, data, 0o644)
	defer os.Remove(p)
	vr := &pipe.VerifyReq{Path: p}
	if sa.format == "pgp-detached" {
		c := filepath.Join(dir, "m-content")
		os.WriteFile(c, content, 0o644)
		defer os.Remove(c)
		vr.Content = c
	}
	sigs, err := env.Verify(vr)
	if err != nil {
		return err
	}
	if len(sigs) == 0 {
		return fmt.Errorf("no signatures")
	}
	return nil
}

func TestC02_ByteMutations(t *testing.T) {
	perArtefact := evid.EnvInt("VERIF_C02_MUTATIONS", 12)
	for _, f := range formats {
		format := f
		t.Run(format, func(t *testing.T) {
			rapid.Check(t, func(t *rapid.T) {
				counter++
				dir := filepath.Join(workDir, fmt.Sprintf("case%d", counter))
				os.Mkdir(dir, 0o755)
				defer os.RemoveAll(dir)
				sa := signOne(t, format, dir)
				if err := verifyBytes(dir, sa, sa.data, sa.content); err != nil {
					t.Skipf("unmutated artefact does not verify (C01's subject): %v", err)
				}
				base := format
				var regs []region
				var err error
				if format == "pgp-detached" {
					// both files are protected in full: content text and the binary signature packet
					regs = append([]region{{0, len(sa.content), "pgp:content"}}, pgpSigRegions(sa.data)...)
				} else {
					regs, err = regions(base, sa.data, "")
					if err != nil {
						t.Fatalf("harness: cannot compute protected regions of relic's %s output: %v", format, err)
					}
				}
				if len(regs) == 0 {
					t.Skipf("no protected region computed")
				}
				for m := 0; m < perArtefact; m++ {
					reg := rapid.SampledFrom(regs).Draw(t, "region")
					if reg.Len <= 0 {
						continue
					}
					rel := rapid.IntRange(0, reg.Len-1).Draw(t, "offset")
					kind := rapid.SampledFrom([]string{"bitflip", "bitflip", "overwrite", "scramble", "truncate"}).Draw(t, "mutation")
					target := sa.data
					isContent := format == "pgp-detached" && reg.Label == "pgp:content"
					if isContent {
						target = sa.content
					}
					mut := append([]byte(nil), target...)
					off := reg.Off + rel
					switch kind {
					case "bitflip":
						mut[off] ^= 1 << uint(rapid.IntRange(0, 7).Draw(t, "bit"))
					case "overwrite":
						nv := byte(rapid.IntRange(0, 255).Draw(t, "value"))
						if nv == mut[off] {
							nv ^= 0x55
						}
						mut[off] = nv
					case "scramble":
						n := rapid.IntRange(2, 8).Draw(t, "n")
						for i := 0; i < n && off+i < reg.Off+reg.Len; i++ {
							mut[off+i] ^= byte(0x5a + i)
						}
					case "truncate":
						if off == 0 {
							off = 1
						}
						mut = mut[:off]
					}
					cd := &caseDesc{Format: format, Input: sa.name, Key: sa.key, Hash: sa.hash.String(), Region: reg.Label, Mutation: kind, Offset: off}
					if !isContent && unchanged(base, sa.data, mut, reg) {
						rec.Add("discarded_noop_mutations", 1)
						continue
					}
					var verr error
					if isContent {
						verr = verifyBytes(dir, sa, sa.data, mut)
					} else {
						verr = verifyBytes(dir, sa, mut, sa.content)
					}
					labelClass := reg.Label
					if i := strings.Index(labelClass, ":"); i > 0 && (strings.HasPrefix(labelClass, "member:") || strings.HasPrefix(labelClass, "stream:") || strings.HasPrefix(labelClass, "section:") || strings.HasPrefix(labelClass, "ar:")) {
						labelClass = labelClass[:i]
					}
					rec.Case(fmt.Sprintf("%s|%s|%s|%s|%d|%s", format, arts.SHA(sa.data), reg.Label, kind, off, keys.Kind(sa.key)), format+"/"+labelClass+"/"+kind, true)
					rec.Sample(format+"/"+labelClass, cd)
					if verr != nil && strings.Contains(verr.Error(), "PANIC") {
						// a crash is C11's subject; it is not an accepted signature
						rec.Add("verifier_panics_on_mutated_input", 1)
						continue
					}
					if verr == nil && format == "ps" && knownSet.Has(kPSInvalidUTF8) && sameAfterUTF8Replacement(sa.data, mut) {
						// listed finding: every byte that is not valid UTF-8 is digested as U+FFFD
						rec.Excluded(kPSInvalidUTF8)
						continue
					}
					if verr == nil {
						cd.Error = "verifier accepted the mutated artefact"
						evid.SaveCase("TestC02_"+format, cd)
						if d := os.Getenv("VERIF_REPLAY_OUT"); d != "" {
							os.WriteFile(filepath.Join(d, "TestC02_"+format+".orig-"+sa.name), sa.data, 0o644)
							os.WriteFile(filepath.Join(d, "TestC02_"+format+".mutated-"+sa.name), mut, 0o644)
						}
						t.Fatalf("relic verifies a %s artefact after %s at offset %d inside protected region %q (key %s, %s)", format, kind, off, reg.Label, sa.key, sa.hash)
					}
				}
			})
		})
	}
}

var _ = exec.Command

const kPSInvalidUTF8 = "C02:powershell-bytes-that-are-not-utf8-all-digest-alike"

// sameAfterUTF8Replacement: two 8-bit scripts that differ only in bytes which are not
// valid UTF-8 (each decodes to U+FFFD either way).
func sameAfterUTF8Replacement(a, b []byte) bool {
	if bytes.HasPrefix(a, []byte{0xff, 0xfe}) || bytes.Equal(a, b) || utf8.Valid(a) {
		return false
	}
	return string([]rune(string(a))) == string([]rune(string(b)))
}

// TestC02_KnownProbes re-checks listed findings on minimal inputs.
func TestC02_KnownProbes(t *testing.T) {
	if knownSet.Has(kPSInvalidUTF8) {
		dir := filepath.Join(workDir, "probe-ps")
		os.Mkdir(dir, 0o755)
		defer os.RemoveAll(dir)
		p := filepath.Join(dir, "latin1.ps1")
		os.WriteFile(p, []byte("Write-Host \"caf\xe9\"\r\n"), 0o644)
		if err := env.SignLib(&pipe.Req{SigType: "ps", In: p, Key: "rsa2048a", Hash: crypto.SHA256}); err == nil {
			signed, _ := os.ReadFile(p)
			if i := bytes.IndexByte(signed, 0xe9); i >= 0 {
				signed[i] = 0xe8 // "cafè"
				os.WriteFile(p, signed, 0o644)
				if _, err := env.Verify(&pipe.VerifyReq{Path: p}); err == nil {
					rec.KnownFinding(kPSInvalidUTF8, "a signed Windows-1252 script still verifies after the byte 0xE9 (é) was changed to 0xE8 (è): both are digested as U+FFFD")
				}
			}
		}
	}
	rec.Case("known-probes", "known-probes", false)
}

// pgpSigRegions: the parts of a binary v4 signature packet that are hashed into the
// signature (version .. hashed subpackets) and the signature value itself. Packet
// framing, unhashed subpackets, the 16-bit digest prefix and MPI bit counts are not
// protected by the format.
func pgpSigRegions(pkt []byte) []region {
	if len(pkt) < 12 || pkt[0]&0x80 == 0 {
		return nil
	}
	hdr := 0
	if pkt[0]&0x40 != 0 { // new format
		switch {
		case pkt[1] < 192:
			hdr = 2
		case pkt[1] < 224:
			hdr = 3
		case pkt[1] == 255:
			hdr = 6
		default:
			return nil
		}
	} else {
		switch pkt[0] & 3 {
		case 0:
			hdr = 2
		case 1:
			hdr = 3
		case 2:
			hdr = 5
		default:
			return nil
		}
	}
	b := pkt[hdr:]
	if len(b) < 10 || b[0] != 4 {
		return nil
	}
	hashedLen := int(b[4])<<8 | int(b[5])
	out := []region{{hdr, 6 + hashedLen, "pgp:hashed-part"}}
	pos := 6 + hashedLen
	if pos+2 > len(b) {
		return out
	}
	unhashedLen := int(b[pos])<<8 | int(b[pos+1])
	pos += 2 + unhashedLen + 2 // unhashed subpackets, digest prefix
	if pos+2 > len(b) {
		return out
	}
	bits := int(b[pos])<<8 | int(b[pos+1])
	n := (bits + 7) / 8
	if pos+2+n <= len(b) {
		out = append(out, region{hdr + pos + 2, n, "pgp:signature-value"})
	}
	return out
}

// ---------- semantic mutations ----------

// rewriteZip copies an archive member by member (raw, i.e. bit-identical entries) while
// letting edit replace, drop or add members.
func rewriteZip(data []byte, edit func(name string) (drop bool, replace []byte), add map[string][]byte) ([]byte, error) {
	zr, err := zip.NewReader(bytes.NewReader(data), int64(len(data)))
	if err != nil {
		return nil, err
	}
	var buf bytes.Buffer
	zw := zip.NewWriter(&buf)
	for _, f := range zr.File {
		drop, repl := edit(f.Name)
		if drop {
			continue
		}
		if repl != nil {
			hdr := f.FileHeader
			hdr.CRC32, hdr.CompressedSize64, hdr.UncompressedSize64 = 0, 0, 0
			hdr.CompressedSize, hdr.UncompressedSize = 0, 0
			hdr.Flags &^= 8
			w, err := zw.CreateHeader(&hdr)
			if err != nil {
				return nil, err
			}
			w.Write(repl)
			continue
		}
		if err := zw.Copy(f); err != nil {
			return nil, err
		}
	}
	for name, content := range add {
		w, err := zw.Create(name)
		if err != nil {
			return nil, err
		}
		w.Write(content)
	}
	if err := zw.Close(); err != nil {
		return nil, err
	}
	return buf.Bytes(), nil
}

var digestAttr = regexp.MustCompile(`(?m)^([A-Za-z0-9-]+)-Digest: (\S+)\r?$`)

func hashByJarName(n string) crypto.Hash {
	switch strings.ToUpper(n) {
	case "SHA1", "SHA-1":
		return crypto.SHA1
	case "SHA-256", "SHA256":
		return crypto.SHA256
	case "SHA-384", "SHA384":
		return crypto.SHA384
	case "SHA-512", "SHA512":
		return crypto.SHA512
	}
	return 0
}

// rewriteJarConsistently replaces the content of one payload member and recomputes its
// manifest section and the corresponding .SF entries (section digest and whole-manifest
// digest). The signature block file is left as it is. nil = not applicable.
func rewriteJarConsistently(data []byte) []byte {
	zr, err := zip.NewReader(bytes.NewReader(data), int64(len(data)))
	if err != nil {
		return nil
	}
	read := func(f *zip.File) []byte {
		rc, err := f.Open()
		if err != nil {
			return nil
		}
		defer rc.Close()
		b, _ := io.ReadAll(rc)
		return b
	}
	var manifest, sf []byte
	var sfName string
	var payload []string
	for _, f := range zr.File {
		up := strings.ToUpper(f.Name)
		switch {
		case up == "META-INF/MANIFEST.MF":
			manifest = read(f)
		case strings.HasPrefix(up, "META-INF/") && !strings.Contains(up[len("META-INF/"):], "/") && strings.HasSuffix(up, ".SF"):
			sf, sfName = read(f), f.Name
		case !strings.HasPrefix(up, "META-INF/") && !strings.HasSuffix(f.Name, "/") && len(f.Name) < 50 && !strings.ContainsAny(f.Name, "\r\n"):
			payload = append(payload, f.Name)
		}
	}
	if manifest == nil || sf == nil || len(payload) == 0 {
		return nil
	}
	sort.Strings(payload)
	victim := payload[0]
	newContent := []byte("replaced by the harness: " + victim)
	// the victim's manifest section
	marker := []byte("Name: " + victim + "\r\n")
	i := bytes.Index(manifest, marker)
	if i < 0 {
		return nil
	}
	end := bytes.Index(manifest[i:], []byte("\r\n\r\n"))
	if end < 0 {
		return nil
	}
	end += i + 4
	section := manifest[i:end]
	m := digestAttr.FindSubmatch(section)
	if m == nil {
		return nil
	}
	h := hashByJarName(string(m[1]))
	if h == 0 {
		return nil
	}
	sum := func(b []byte) string {
		d := h.New()
		d.Write(b)
		return base64.StdEncoding.EncodeToString(d.Sum(nil))
	}
	oldSectionDigest := sum(section)
	oldManifestDigest := sum(manifest)
	newSection := bytes.Replace(section, m[2], []byte(sum(newContent)), 1)
	newManifest := append(append(append([]byte{}, manifest[:i]...), newSection...), manifest[end:]...)
	if !bytes.Contains(sf, []byte(oldSectionDigest)) || !bytes.Contains(sf, []byte(oldManifestDigest)) {
		return nil // another digest algorithm or sections-only layout
	}
	newSF := bytes.Replace(sf, []byte(oldSectionDigest), []byte(sum(newSection)), 1)
	newSF = bytes.Replace(newSF, []byte(oldManifestDigest), []byte(sum(newManifest)), 1)
	out, err := rewriteZip(data, func(n string) (bool, []byte) {
		switch n {
		case victim:
			return false, newContent
		case "META-INF/MANIFEST.MF":
			return false, newManifest
		case sfName:
			return false, newSF
		}
		return false, nil
	}, nil)
	if err != nil {
		return nil
	}
	return out
}

// machoStripBlob removes the n-th blob of type requirements (2), entitlements (5) or DER
// entitlements (7) from the embedded-signature super blob of a thin Mach-O image and pads
// the super blob back to its size.
func machoStripBlob(data []byte, n int) ([]byte, string) {
	le, be := binary.LittleEndian, binary.BigEndian
	if len(data) < 32 {
		return nil, ""
	}
	hdr := 28
	switch le.Uint32(data) {
	case 0xfeedfacf:
		hdr = 32
	case 0xfeedface:
	default:
		return nil, ""
	}
	ncmds, pos := int(le.Uint32(data[16:])), hdr
	var off, size int
	for i := 0; i < ncmds && pos+16 <= len(data); i++ {
		cmd, l := le.Uint32(data[pos:]), int(le.Uint32(data[pos+4:]))
		if cmd == 0x1d {
			off, size = int(le.Uint32(data[pos+8:])), int(le.Uint32(data[pos+12:]))
		}
		if l < 8 {
			return nil, ""
		}
		pos += l
	}
	if size < 12 || off+size > len(data) || be.Uint32(data[off:]) != 0xfade0cc0 {
		return nil, ""
	}
	sb := data[off : off+size]
	count := int(be.Uint32(sb[8:]))
	type ent struct {
		typ  uint32
		blob []byte
	}
	var ents []ent
	var cands []int
	for i := 0; i < count; i++ {
		typ, bo := be.Uint32(sb[12+8*i:]), int(be.Uint32(sb[12+8*i+4:]))
		if bo+8 > len(sb) {
			return nil, ""
		}
		bl := int(be.Uint32(sb[bo+4:]))
		if bl < 8 || bo+bl > len(sb) {
			return nil, ""
		}
		ents = append(ents, ent{typ, sb[bo : bo+bl]})
		if typ == 2 || typ == 5 || typ == 7 {
			cands = append(cands, i)
		}
	}
	if len(cands) == 0 {
		return nil, ""
	}
	victim := cands[n%len(cands)]
	var idx, body []byte
	kept := len(ents) - 1
	at := 12 + 8*kept
	for i, e := range ents {
		if i == victim {
			continue
		}
		idx = be.AppendUint32(be.AppendUint32(idx, e.typ), uint32(at+len(body)))
		body = append(body, e.blob...)
	}
	nsb := be.AppendUint32(be.AppendUint32(be.AppendUint32(nil, 0xfade0cc0), uint32(at+len(body))), uint32(kept))
	nsb = append(append(nsb, idx...), body...)
	if len(nsb) > size {
		return nil, ""
	}
	nsb = append(nsb, make([]byte, size-len(nsb))...)
	out := append([]byte{}, data...)
	copy(out[off:], nsb)
	return out, fmt.Sprintf("signature blob of type %d removed from the super blob", ents[victim].typ)
}

// arMembers lists the member names of an ar archive and the offsets of their headers.
func arMembers(data []byte) (names []string, offs []int) {
	if !bytes.HasPrefix(data, []byte("!<arch>\n")) {
		return
	}
	pos := 8
	for pos+60 <= len(data) {
		h := data[pos : pos+60]
		size, err := strconv.Atoi(strings.TrimSpace(string(h[48:58])))
		if err != nil || h[58] != '`' || h[59] != '\n' {
			return
		}
		names = append(names, strings.TrimSuffix(strings.TrimSpace(string(h[:16])), "/"))
		offs = append(offs, pos)
		pos += 60 + size + size%2
	}
	return
}

func sigMember(format, name string) bool {
	up := strings.ToUpper(name)
	switch format {
	case "jar", "apk":
		return strings.HasPrefix(up, "META-INF/")
	case "vsix":
		return strings.HasPrefix(name, "package/services/digital-signature/") || name == "[Content_Types].xml" || strings.HasPrefix(name, "_rels/")
	case "appx":
		return name == "AppxSignature.p7x" || name == "[Content_Types].xml" || name == "AppxBlockMap.xml"
	}
	return false
}

func TestC02_Semantic(t *testing.T) {
	kinds := []string{"zip-replace", "zip-delete", "zip-add", "jar-add-listed", "jar-consistent-rewrite-inline", "apk-v2-foreign-key", "apk-v2-foreign-key", "ps-append-after-block", "ps-graft", "ps-append-line", "pgp-graft", "pe-graft", "pe-append-after-table", "pe-append-inside-table", "pe-graft-entry", "deb-insert-member", "macho-strip-blob", "macho-strip-blob", "cab-append", "xap-append", "msi-extra-stream", "msi-change-stream"}
	reps := evid.EnvInt("VERIF_C02_SEMREPS", 8)
	rapid.Check(t, func(t *rapid.T) {
		for r := 0; r < reps; r++ {
			semanticOnce(t, kinds)
		}
	})
}

func semanticOnce(t *rapid.T, kinds []string) {
	func() {
		defer func() {
			// t.Skip inside one repetition only ends that repetition
			if r := recover(); r != nil {
				if fmt.Sprint(r) != "skip-rep" {
					panic(r)
				}
			}
		}()
		kind := rapid.SampledFrom(kinds).Draw(t, "kind")
		counter++
		dir := filepath.Join(workDir, fmt.Sprintf("sem%d", counter))
		os.Mkdir(dir, 0o755)
		defer os.RemoveAll(dir)
		cd := &caseDesc{Mutation: kind}
		must := true // must the verifier reject?
		var sa *signedArt
		var mutated, content []byte
		switch {
		case strings.HasPrefix(kind, "zip-"):
			format := rapid.SampledFrom([]string{"jar", "apk", "vsix", "xap", "appx"}).Draw(t, "zipformat")
			sa = signOne(t, format, dir)
			zr, err := zip.NewReader(bytes.NewReader(sa.data), int64(len(sa.data)))
			if err != nil {
				panic("skip-rep")
			}
			var payload []string
			for _, f := range zr.File {
				if !sigMember(format, f.Name) && !strings.HasSuffix(f.Name, "/") {
					payload = append(payload, f.Name)
				}
			}
			if len(payload) == 0 {
				panic("skip-rep")
			}
			victim := rapid.SampledFrom(payload).Draw(t, "victim")
			cd.Region = "member:" + victim
			switch kind {
			case "zip-replace":
				mutated, err = rewriteZip(sa.data, func(n string) (bool, []byte) {
					if n == victim {
						return false, []byte("replaced content " + victim)
					}
					return false, nil
				}, nil)
			case "zip-delete":
				mutated, err = rewriteZip(sa.data, func(n string) (bool, []byte) { return n == victim, nil }, nil)
				if format == "vsix" {
					must = true
				}
			case "zip-add":
				mutated, err = rewriteZip(sa.data, func(string) (bool, []byte) { return false, nil }, map[string][]byte{"injected/evil.bin": []byte("evil")})
				// unlisted extra members: protected only where the scheme covers the whole file
				must = format == "apk" || format == "appx"
			}
			if err != nil {
				panic("skip-rep")
			}
			if format == "xap" {
				panic("skip-rep")
			}
		case kind == "jar-add-listed":
			// a new member that is also listed, with a correct digest, in a new section of
			// MANIFEST.MF: the per-member check is satisfied, only the manifest digest in the
			// signature file still shows that the manifest changed
			format := rapid.SampledFrom([]string{"jar", "jar", "apk"}).Draw(t, "zipformat")
			sa = signOne(t, format, dir)
			zr, err := zip.NewReader(bytes.NewReader(sa.data), int64(len(sa.data)))
			if err != nil {
				panic("skip-rep")
			}
			var manifest []byte
			for _, f := range zr.File {
				if f.Name == "META-INF/MANIFEST.MF" {
					rc, _ := f.Open()
					manifest, _ = io.ReadAll(rc)
					rc.Close()
				}
			}
			if manifest == nil || !bytes.Contains(manifest, []byte("-Digest: ")) {
				panic("skip-rep") // v2-only APK
			}
			evil := []byte("evil class bytes")
			sum := sha256.Sum256(evil)
			if !bytes.HasSuffix(manifest, []byte("\r\n\r\n")) {
				manifest = append(bytes.TrimRight(manifest, "\r\n"), []byte("\r\n\r\n")...)
			}
			manifest = append(manifest, []byte("Name: evil.class\r\nSHA-256-Digest: "+base64.StdEncoding.EncodeToString(sum[:])+"\r\n\r\n")...)
			cd.Region = "member-added-and-listed:evil.class"
			mutated, err = rewriteZip(sa.data, func(n string) (bool, []byte) {
				if n == "META-INF/MANIFEST.MF" {
					return false, manifest
				}
				return false, nil
			}, map[string][]byte{"evil.class": evil})
			if err != nil {
				panic("skip-rep")
			}
		case kind == "jar-consistent-rewrite-inline":
			// a JAR whose PKCS#7 block carries the signature file inside ("inline"): a member
			// is replaced and MANIFEST.MF and the .SF file are recomputed to match, only the
			// PKCS#7 block (with the old .SF inside) stays: what is signed is no longer what
			// the archive says
			sa = signOneFlags(t, "jar", dir, map[string]string{"inline-signature": "true"})
			mutated = rewriteJarConsistently(sa.data)
			if mutated == nil {
				panic("skip-rep")
			}
			cd.Region = "member+manifest+sf rewritten, pkcs7 kept"
		case kind == "apk-v2-foreign-key":
			// the v2 block rebuilt by someone who holds another key but lists the original
			// signer's certificate: the signature value is not the certificate holder's
			sa = signOne(t, "apk", dir)
			info, err := apkref.Parse(sa.data)
			if err != nil || len(info.Certificates) == 0 {
				panic("skip-rep")
			}
			leaf, err := x509.ParseCertificate(info.Certificates[0])
			if err != nil {
				panic("skip-rep")
			}
			signWith := func(name string) func([]byte) ([]byte, uint32, error) {
				return func(digest []byte) ([]byte, uint32, error) {
					k := keys.Key(name)
					sig, err := k.Sign(rand.Reader, digest, crypto.SHA256)
					alg := uint32(0x0103)
					if keys.Kind(name) != "rsa" {
						alg = 0x0201
					}
					return sig, alg, err
				}
			}
			// control: the same rebuild with the certificate's own key must verify, or the
			// harness encoder is wrong and the case says nothing
			control, err := apkref.Rebuild(sa.data, info.Certificates, leaf.RawSubjectPublicKeyInfo, signWith(sa.key))
			if err != nil {
				t.Fatalf("harness: rebuilding the v2 block: %v", err)
			}
			if err := verifyBytes(dir, sa, control, nil); err != nil {
				if keys.Kind(sa.key) == "rsa" || !strings.Contains(err.Error(), "algorithm") {
					t.Fatalf("harness: a v2 block rebuilt with the signer's own key does not verify: %v", err)
				}
				panic("skip-rep")
			}
			var others []string
			// (not the keys of the issuing CAs, whose certificates are in the embedded list)
			for _, k := range []string{"rsa2048b", "p256b", "p521b", "p384a", "rsa3072"} {
				if k != sa.key {
					others = append(others, k)
				}
			}
			foreign := rapid.SampledFrom(others).Draw(t, "foreign_key")
			spki, _ := x509.MarshalPKIXPublicKey(keys.Key(foreign).Public())
			cd.Region = "v2-block-resigned-by:" + foreign
			mutated, err = apkref.Rebuild(sa.data, info.Certificates, spki, signWith(foreign))
			if err != nil {
				t.Fatalf("harness: rebuilding the v2 block: %v", err)
			}
		case kind == "ps-append-after-block":
			// script text after the end of the signature block: PowerShell still runs it
			sa = signOne(t, "ps", dir)
			if !bytes.Contains(sa.data, []byte("# SIG # End signature block")) || filepath.Ext(sa.name) != ".ps1" && filepath.Ext(sa.name) != ".psm1" && filepath.Ext(sa.name) != ".psd1" {
				panic("skip-rep")
			}
			mutated = append(append([]byte{}, sa.data...), []byte("Invoke-Evil\r\n")...)
		case kind == "ps-graft" || kind == "ps-append-line":
			sa = signOne(t, "ps", dir)
			if kind == "ps-append-line" {
				// new script text in front of the existing, still intact, signature block
				i := bytes.Index(sa.data, []byte("\r\n# SIG # Begin"))
				if i < 0 {
					panic("skip-rep")
				}
				mutated = append(append(append([]byte{}, sa.data[:i]...), []byte("\r\nInvoke-Evil")...), sa.data[i:]...)
			} else {
				other := signOne(t, "ps", dir)
				i := bytes.Index(sa.data, []byte("SIG # Begin"))
				j := bytes.Index(other.data, []byte("SIG # Begin"))
				if i < 8 || j < 8 || arts.PSText(sa.data) == arts.PSText(other.data) || filepath.Ext(sa.name) != filepath.Ext(other.name) {
					panic("skip-rep")
				}
				// text of A + block of B
				mutated = append(append([]byte{}, sa.data[:i]...), other.data[j:]...)
			}
		case kind == "pgp-graft":
			sa = signOne(t, "pgp-detached", dir)
			mutated = sa.data
			content = append(append([]byte{}, sa.content...), []byte("appended line\n")...)
		case strings.HasPrefix(kind, "pe-"):
			sa = signOne(t, "pe", dir)
			in, err := pegen.Parse(sa.data)
			if err != nil || !in.HasCertTable() {
				panic("skip-rep")
			}
			switch kind {
			case "pe-graft":
				// change one payload byte, keep the old signature
				mutated = append([]byte{}, sa.data...)
				off := in.ContentEnd() - 1
				if off <= in.CertDirOff+8 {
					panic("skip-rep")
				}
				mutated[off] ^= 0xff
			case "pe-graft-entry":
				// the certificate table of another signed image put next to the genuine
				// entry: one of the two digests cannot be that of this image
				other := signOne(t, "pe", dir)
				oin, err := pegen.Parse(other.data)
				if err != nil || !oin.HasCertTable() {
					panic("skip-rep")
				}
				// the other artefact must be another image (a second signature over the same
				// image is a legitimate addition)
				da, e1 := pegen.AuthenticodeDigest(sa.data, crypto.SHA256)
				db, e2 := pegen.AuthenticodeDigest(other.data, crypto.SHA256)
				if e1 != nil || e2 != nil || bytes.Equal(da, db) {
					panic("skip-rep")
				}
				if int(in.CertTableOff)+int(in.CertTableSize) != len(sa.data) || int(oin.CertTableOff)+int(oin.CertTableSize) > len(other.data) {
					panic("skip-rep")
				}
				own := sa.data[in.CertTableOff:]
				foreign := other.data[oin.CertTableOff : oin.CertTableOff+oin.CertTableSize]
				mutated = append([]byte{}, sa.data[:in.CertTableOff]...)
				if rapid.Bool().Draw(t, "foreign_first") {
					mutated = append(append(mutated, foreign...), own...)
					cd.Region = "certificate table = [entry of another image][own entry]"
				} else {
					mutated = append(append(mutated, own...), foreign...)
					cd.Region = "certificate table = [own entry][entry of another image]"
				}
				binary.LittleEndian.PutUint32(mutated[in.CertDirOff+4:], uint32(len(own)+len(foreign)))
			case "pe-append-after-table":
				mutated = append(append([]byte{}, sa.data...), []byte("APPENDED-PAYLOAD")...)
			case "pe-append-inside-table":
				// grow the certificate table entry and the directory size to cover appended
				// data (the classic padding trick); the bytes are not covered by the digest
				extra := []byte("INSIDE-TABLE-PAYLOAD-123") // 24 bytes, keeps 8-byte alignment
				mutated = append(append([]byte{}, sa.data...), extra...)
				binary.LittleEndian.PutUint32(mutated[in.CertDirOff+4:], in.CertTableSize+uint32(len(extra)))
				l := binary.LittleEndian.Uint32(mutated[in.CertTableOff:])
				binary.LittleEndian.PutUint32(mutated[in.CertTableOff:], l+uint32(len(extra)))
			}
		case kind == "deb-insert-member":
			// an archive member the signature does not list, in a place where dpkg uses it:
			// the first control.tar.* / data.tar.* member wins
			sa = signOne(t, "deb", dir)
			names, offs := arMembers(sa.data)
			role := rapid.SampledFrom([]string{"data.tar", "control.tar"}).Draw(t, "role")
			at := -1
			for i, n := range names {
				if strings.HasPrefix(n, role) {
					at = i
					break
				}
			}
			if at < 0 {
				panic("skip-rep")
			}
			name := role + rapid.SampledFrom([]string{".gz", ".xz", ".zst", ".bz2", ""}).Draw(t, "ext")
			if name == names[at] {
				name = role + ".lzma"
			}
			body := []byte("not really a tarball: " + name)
			hdr := fmt.Sprintf("%-16s%-12d%-6d%-6d%-8s%-10d`\n", name, 0, 0, 0, "100644", len(body))
			ent := append([]byte(hdr), body...)
			if len(ent)%2 == 1 {
				ent = append(ent, '\n')
			}
			mutated = append(append(append([]byte{}, sa.data[:offs[at]]...), ent...), sa.data[offs[at]:]...)
			cd.Region = fmt.Sprintf("member %q inserted in front of %q", name, names[at])
		case kind == "macho-strip-blob":
			// a blob whose hash the signed code directory records (requirements, entitlements)
			// taken out of the signature super blob; code directory, CMS and code pages stay
			sa = signOne(t, "macho", dir)
			var what string
			mutated, what = machoStripBlob(sa.data, rapid.IntRange(0, 2).Draw(t, "which_blob"))
			if mutated == nil {
				panic("skip-rep")
			}
			cd.Region = what
		case kind == "cab-append":
			sa = signOne(t, "cab", dir)
			mutated = append(append([]byte{}, sa.data...), []byte("TRAILING-DATA-AFTER-SIGNATURE")...)
		case kind == "xap-append":
			sa = signOne(t, "xap", dir)
			mutated = append(append([]byte{}, sa.data...), []byte("TRAILING-DATA-AFTER-TRAILER")...)
		case strings.HasPrefix(kind, "msi-"):
			sa = signOne(t, "msi", dir)
			f, err := cfb.Parse(sa.data)
			if err != nil {
				t.Fatalf("harness: %v", err)
			}
			// rebuild the container from its items with one change, keeping the signature streams
			spec := &cfb.Spec{SectorShift: 9, Root: &cfb.Entry{Name: "Root Entry", IsStorage: true}}
			nodes := map[string]*cfb.Entry{"": spec.Root}
			changed := false
			for _, it := range f.Items() {
				if it.Path == "" {
					spec.Root.CLSID, spec.Root.StateBits = it.CLSID, it.StateBits
					continue
				}
				parent, name := "", it.Path
				if i := strings.LastIndex(it.Path, "/"); i >= 0 {
					parent, name = it.Path[:i], it.Path[i+1:]
				}
				e := &cfb.Entry{Name: name, IsStorage: it.IsStorage, CLSID: it.CLSID, StateBits: it.StateBits, CTime: it.CTime, MTime: it.MTime, Data: it.Data}
				if kind == "msi-change-stream" && !changed && !it.IsStorage && len(it.Data) > 0 && name != cfb.SigStreamName && name != cfb.SigExStreamName {
					e.Data = append([]byte{}, it.Data...)
					e.Data[len(e.Data)/2] ^= 0x01
					changed = true
				}
				if p := nodes[parent]; p != nil {
					p.Children = append(p.Children, e)
					nodes[it.Path] = e
				}
			}
			if kind == "msi-extra-stream" {
				spec.Root.Children = append(spec.Root.Children, &cfb.Entry{Name: "InjectedStream", Data: []byte("injected after signing")})
			} else if !changed {
				panic("skip-rep")
			}
			mutated, err = cfb.Build(spec)
			if err != nil {
				panic("skip-rep")
			}
		}
		cd.Format, cd.Input, cd.Key, cd.Hash = sa.format, sa.name, sa.key, sa.hash.String()
		if content == nil {
			content = sa.content
		}
		if err := verifyBytes(dir, sa, sa.data, sa.content); err != nil {
			panic("skip-rep")
		}
		verr := verifyBytes(dir, sa, mutated, content)
		rec.Case(fmt.Sprintf("sem|%s|%s|%s|%s", kind, sa.format, arts.SHA(sa.data), cd.Region), "semantic/"+kind+"/"+sa.format, true)
		rec.Sample("semantic/"+kind, cd)
		if verr == nil && must {
			cd.Error = "verifier accepted the mutated artefact"
			evid.SaveCase("TestC02_Semantic", cd)
			if d := os.Getenv("VERIF_REPLAY_OUT"); d != "" {
				os.WriteFile(filepath.Join(d, "TestC02_Semantic.orig-"+sa.name), sa.data, 0o644)
				os.WriteFile(filepath.Join(d, "TestC02_Semantic.mutated-"+sa.name), mutated, 0o644)
			}
			t.Fatalf("relic verifies a %s artefact after semantic mutation %s (%s)", sa.format, kind, cd.Region)
		}
		if verr == nil {
			rec.Add("accepted_unprotected_edits", 1)
		}
	}()
}
