// C18 — adding a signature stream keeps the compound file valid.
//
// Generator: harness CFB writer (cfb.Gen/Build). Oracle: harness CFB validator written
// from MS-CFB (cfb.Parse) + model of the stream set + reference MSI digest.
package c18

import (
	"bytes"
	"crypto"
	"fmt"
	"io"
	"os"
	"path/filepath"
	"sort"
	"strings"
	"testing"

	"pgregory.net/rapid"

	"github.com/sassoftware/relic/v8/lib/authenticode"
	"github.com/sassoftware/relic/v8/lib/comdoc"
	"github.com/sassoftware/relic/v8/xverif/cfb"
	"github.com/sassoftware/relic/v8/xverif/evid"
	"github.com/sassoftware/relic/v8/xverif/known"
)

var (
	rec      = evid.New("C18")
	knownSet = known.Load("C18")
	workDir  string
)

const (
	kNoMini    = "C18:short-stream-into-file-without-mini-stream-fails"
	kNestedSig = "C18:nested-signature-named-stream-digest-disagreement"
)

func TestMain(m *testing.M) {
	rec.Rule("cases = generated compound files (sector size 512/4096, mini stream present/absent, streams around the 4096 cutoff, nested storages, free-sector patterns, fragmented chains, directory padding, DIFAT) x histories of AddFile (sizes around 0/64/4095/4096/4097/multi-sector, signature names and other names incl. case variants) / replace / DeleteFile / Close+reopen; oracle = harness CFB validator (header counts, FAT/DIFAT/miniFAT chains in bounds, acyclic, disjoint, directory red-black tree ordered per MS-CFB) + model of every stream's name, metadata and bytes + reference MSI digest; files with a full FAT at 109 (thorough also 236) FAT sectors so that additions need a new DIFAT sector; non-trivial = history with >= 2 mutations or a size on the other side of the cutoff than any existing stream, on a file with >= 2 layout classes; distinct = (file sha256, history)")
	var err error
	workDir, err = os.MkdirTemp("", "c18-")
	if err != nil {
		panic(err)
	}
	code := m.Run()
	rec.Flush()
	os.RemoveAll(workDir)
	os.Exit(code)
}

func hasClass(s *cfb.Spec, c string) bool {
	for _, x := range s.Classes() {
		if x == c {
			return true
		}
	}
	return false
}

type op struct {
	Kind string `json:"op"`
	Name string `json:"name,omitempty"`
	Size int    `json:"size,omitempty"`
}

type caseDesc struct {
	Classes []string `json:"classes"`
	Ops     []op     `json:"ops"`
	Error   string   `json:"error,omitempty"`
	FileHex string   `json:"file_hex,omitempty"`
}

var addNames = []string{cfb.SigStreamName, cfb.SigExStreamName, "NewStream", "newstream2", "ZZZ", "a", "Ünï", "䡀x"}
var addSizes = []int{1, 63, 64, 65, 1500, 4095, 4096, 4097, 9000, 70000}

var counter int

func content(name string, size int, gen int) []byte {
	b := make([]byte, size)
	for i := range b {
		b[i] = byte(i*7 + len(name) + gen*13)
	}
	return b
}

func stripSig(items []cfb.Item) []cfb.Item {
	return items
}

func TestC18_Histories(t *testing.T) {
	maxOps := evid.EnvInt("VERIF_C18_OPS", 8)
	fullFATEvery := evid.EnvInt("VERIF_C18_FULLFAT_EVERY", 40)
	rapid.Check(t, func(t *rapid.T) {
		spec := cfb.Gen(t)
		if knownSet.Has(kNoMini) && hasClass(spec, "nomini") {
			spec.Root.Children = append(spec.Root.Children, &cfb.Entry{Name: "verifsmall", Data: []byte("tiny")})
			rec.Excluded(kNoMini)
		}
		data, err := cfb.Build(spec)
		if err != nil {
			t.Skip("generator refused: " + err.Error())
		}
		extraClass := ""
		if rapid.IntRange(0, fullFATEvery-1).Draw(t, "full_fat") == 0 {
			// a file whose next FAT sector needs a new DIFAT sector
			target := 109
			if evid.Thorough() && rapid.IntRange(0, 3).Draw(t, "second_difat") == 0 {
				target = 109 + 127
			}
			if s2, d2, ok := fullFATSpec(t, target); ok {
				spec, data, extraClass = s2, d2, fullFATClass(target)
			}
		}
		pre, err := cfb.Parse(data)
		if err != nil || !pre.Valid() {
			t.Fatalf("harness error: generated file is not valid per the validator: %v %v", err, pre.Issues)
		}
		counter++
		path := filepath.Join(workDir, fmt.Sprintf("f%d.msi", counter))
		if err := os.WriteFile(path, data, 0o644); err != nil {
			t.Fatal(err)
		}
		defer os.Remove(path)
		cd := &caseDesc{Classes: spec.Classes()}
		if extraClass != "" {
			cd.Classes = append(cd.Classes, extraClass)
		}
		failf := func(format string, args ...any) {
			cd.Error = fmt.Sprintf(format, args...)
			if len(data) < 300000 {
				cd.FileHex = fmt.Sprintf("%x", data)
			}
			evid.SaveCase("TestC18_Histories", cd)
			t.Fatalf("%s\n classes %v ops %+v", cd.Error, cd.Classes, cd.Ops)
		}
		// model: items of the original file, keyed by root-level name for mutation
		model := pre.Items()
		find := func(name string) int {
			for i, it := range model {
				if !it.IsStorage && !strings.Contains(it.Path, "/") && strings.EqualFold(it.Path, name) {
					return i
				}
			}
			return -1
		}
		rootStorage := func(name string) bool {
			for _, it := range model {
				if it.IsStorage && it.Path != "" && !strings.Contains(it.Path, "/") && strings.EqualFold(it.Path, name) {
					return true
				}
			}
			return false
		}
		open := func() (*comdoc.ComDoc, *os.File) {
			f, err := os.OpenFile(path, os.O_RDWR, 0)
			if err != nil {
				t.Fatal(err)
			}
			cdf, err := comdoc.WriteFile(f)
			if err != nil {
				f.Close()
				failf("relic cannot open a valid compound file: %v", err)
			}
			return cdf, f
		}
		check := func(stage string) {
			cur, err := os.ReadFile(path)
			if err != nil {
				t.Fatal(err)
			}
			parsed, err := cfb.Parse(cur)
			if err != nil {
				failf("%s: output is not a readable compound file: %v", stage, err)
			}
			if len(parsed.Issues) > 0 {
				failf("%s: output violates MS-CFB: %v", stage, parsed.Issues[:min(len(parsed.Issues), 5)])
			}
			sorted := append([]cfb.Item(nil), model...)
			sort.SliceStable(sorted, func(i, j int) bool { return sorted[i].Path < sorted[j].Path })
			if ok, why := cfb.ItemsEqual(parsed.Items(), sorted); !ok {
				failf("%s: streams/storages differ from the model: %s", stage, why)
			}
		}
		nops := rapid.IntRange(1, maxOps).Draw(t, "nops")
		cdf, f := open()
		gen := 0
		mutations := 0
		dirty := false
		for i := 0; i < nops; i++ {
			kind := rapid.SampledFrom([]string{"add", "add", "add", "delete", "reopen"}).Draw(t, "op")
			switch kind {
			case "add":
				name := rapid.SampledFrom(addNames).Draw(t, "name")
				size := rapid.SampledFrom(addSizes).Draw(t, "size")
				if rootStorage(name) {
					continue
				}
				gen++
				body := content(name, size, gen)
				cd.Ops = append(cd.Ops, op{"add", name, size})
				if err := cdf.AddFile(name, body); err != nil {
					failf("AddFile(%q, %d bytes): %v", name, size, err)
				}
				if j := find(name); j >= 0 {
					// a replaced stream is a new stream: new spelling, fresh metadata
					model[j] = cfb.Item{Path: name, Data: body}
				} else {
					model = append(model, cfb.Item{Path: name, Data: body})
				}
				mutations++
				dirty = true
			case "delete":
				// delete an existing root-level stream (or a name that does not exist)
				var cands []string
				for _, it := range model {
					if !it.IsStorage && it.Path != "" && !strings.Contains(it.Path, "/") {
						cands = append(cands, it.Path)
					}
				}
				cands = append(cands, "NoSuchStream")
				name := rapid.SampledFrom(cands).Draw(t, "delname")
				cd.Ops = append(cd.Ops, op{"delete", name, 0})
				if err := cdf.DeleteFile(name); err != nil {
					failf("DeleteFile(%q): %v", name, err)
				}
				if j := find(name); j >= 0 {
					model = append(model[:j], model[j+1:]...)
					mutations++
					dirty = true
				}
			case "reopen":
				cd.Ops = append(cd.Ops, op{Kind: "close+reopen"})
				if err := cdf.Close(); err != nil {
					failf("Close: %v", err)
				}
				f.Close()
				if dirty {
					check(fmt.Sprintf("after op %d (close)", i))
				}
				cdf, f = open()
			}
		}
		if err := cdf.Close(); err != nil {
			failf("final Close: %v", err)
		}
		f.Close()
		check("final")
		nt := mutations >= 2 && len(cd.Classes) >= 2
		rec.Case(fmt.Sprintf("%x|%v", sha(data), cd.Ops), "hist/"+fmt.Sprint(min(mutations, 4))+"/"+strings.Join(cd.Classes, ","), nt)
		if nt {
			rec.Sample(fmt.Sprint(min(mutations, 4)), cd)
		}
	})
}

func sha(b []byte) []byte { h := crypto.SHA256.New(); h.Write(b); return h.Sum(nil)[:8] }

// TestC18_MSIDigest: tar-stream digest == container digest == reference digest.
func TestC18_MSIDigest(t *testing.T) {
	rapid.Check(t, func(t *rapid.T) {
		spec := cfb.Gen(t)
		if hasClass(spec, "nestedsig") && knownSet.Has(kNestedSig) {
			rec.Excluded(kNestedSig)
			return
		}
		data, err := cfb.Build(spec)
		if err != nil {
			t.Skip("generator refused")
		}
		h := rapid.SampledFrom([]crypto.Hash{crypto.SHA1, crypto.SHA256, crypto.SHA384, crypto.SHA512}).Draw(t, "hash")
		extended := rapid.Bool().Draw(t, "extended")
		cd := &caseDesc{Classes: spec.Classes()}
		failf := func(format string, args ...any) {
			cd.Error = fmt.Sprintf(format, args...)
			if len(data) < 300000 {
				cd.FileHex = fmt.Sprintf("%x", data)
			}
			evid.SaveCase("TestC18_MSIDigest", cd)
			t.Fatalf("%s\n classes %v hash %v extended %v", cd.Error, cd.Classes, h, extended)
		}
		cdf, err := comdoc.ReadFile(bytes.NewReader(data))
		if err != nil {
			failf("relic cannot read a valid compound file: %v", err)
		}
		direct, _, err := authenticode.DigestMSI(cdf, h, extended)
		if err != nil {
			failf("DigestMSI: %v", err)
		}
		pr, pw := io.Pipe()
		go func() { pw.CloseWithError(authenticode.MsiToTar(cdf, pw)) }()
		// the read-size schedule of the tar stream is drawn as well
		chunk := rapid.SampledFrom([]int{1, 7, 512, 4096, 65536}).Draw(t, "chunk")
		viaTar, err := authenticode.DigestMsiTar(&chunked{pr, chunk}, h, extended)
		io.Copy(io.Discard, pr)
		if err != nil {
			failf("DigestMsiTar: %v", err)
		}
		if !bytes.Equal(direct, viaTar) {
			failf("digest from the tar stream %x differs from the digest from the container %x", viaTar, direct)
		}
		parsed, err := cfb.Parse(data)
		if err != nil {
			t.Fatalf("harness: %v", err)
		}
		var ref []byte
		if extended {
			ref, _ = cfb.MSIDigestEx(parsed, h)
		} else {
			ref = cfb.MSIDigest(parsed, h)
		}
		nt := len(spec.Classes()) >= 3
		rec.Case(fmt.Sprintf("dig|%x|%v|%v|%d", sha(data), h, extended, chunk), fmt.Sprintf("digest/ext=%v", extended), nt)
		if nt {
			rec.Sample(fmt.Sprintf("digest/ext=%v", extended), map[string]any{"classes": spec.Classes(), "hash": h.String(), "extended": extended, "tar_read_size": chunk})
		}
		if !bytes.Equal(direct, ref) {
			failf("relic's MSI digest %x differs from the reference computation %x", direct, ref)
		}
	})
}

type chunked struct {
	r io.Reader
	n int
}

func (c *chunked) Read(p []byte) (int, error) {
	if len(p) > c.n {
		p = p[:c.n]
	}
	return c.r.Read(p)
}

// TestC18_KnownProbes re-checks listed findings on minimal inputs.
func TestC18_KnownProbes(t *testing.T) {
	if knownSet.Has(kNoMini) {
		spec := &cfb.Spec{SectorShift: 9, Root: &cfb.Entry{Name: "Root Entry", IsStorage: true, Children: []*cfb.Entry{{Name: "big", Data: bytes.Repeat([]byte{1}, 5000)}}}}
		data, err := cfb.Build(spec)
		if err != nil {
			t.Fatalf("probe build: %v", err)
		}
		p := filepath.Join(workDir, "probe-nomini.msi")
		os.WriteFile(p, data, 0o644)
		f, _ := os.OpenFile(p, os.O_RDWR, 0)
		cdf, err := comdoc.WriteFile(f)
		if err == nil {
			err = cdf.AddFile(cfb.SigStreamName, bytes.Repeat([]byte{2}, 1500))
			if err == nil {
				err = cdf.Close()
			}
		}
		f.Close()
		if err != nil {
			rec.KnownFinding(kNoMini, "adding a 1500-byte stream to a compound file that has no mini stream: "+err.Error())
		}
	}
	rec.Case("known-probes", "known-probes", false)
}
