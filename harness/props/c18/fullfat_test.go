package c18

// Files whose FAT is (nearly) full at the points where another FAT sector needs a new
// DIFAT sector: 109 FAT sectors (all header DIFAT slots taken), and 109+127 (the first
// DIFAT sector is full as well). The generator's ForceDIFAT pads with free sectors, so
// added streams never make the tables grow there; here they have to.

import (
	"encoding/binary"
	"fmt"

	"pgregory.net/rapid"

	"github.com/sassoftware/relic/v8/xverif/cfb"
)

// fatUsage returns the number of FAT sectors and how many more sectors the file can grow
// by before another FAT sector is needed (the generator leaves no free sector inside).
func fatUsage(data []byte) (nFAT, slack int) {
	nFAT = int(binary.LittleEndian.Uint32(data[44:]))
	nsect := (len(data) - 512) / 512
	return nFAT, nFAT*128 - nsect
}

// fullFATSpec draws a 512-byte-sector file with exactly target FAT sectors of which room
// for wantFree more sectors.
func fullFATSpec(t *rapid.T, target int) (*cfb.Spec, []byte, bool) {
	wantFree := rapid.SampledFrom([]int{0, 0, 1, 2, 7}).Draw(t, "fat_free_entries")
	seed := rapid.Uint64().Draw(t, "fullfat_layout")
	size := (target*128 - target - 8) * 512
	for iter := 0; iter < 12; iter++ {
		big := make([]byte, size)
		for i := range big {
			big[i] = byte(i*13 + i>>9)
		}
		spec := &cfb.Spec{SectorShift: 9, LayoutSeed: seed, FATPlacement: int(seed % 3), Root: &cfb.Entry{Name: "Root Entry", IsStorage: true, Children: []*cfb.Entry{
			{Name: "big", Data: big}, {Name: "verifsmall", Data: []byte("tiny stream so that a mini stream exists")}, {Name: "Table", Data: make([]byte, 4096)}}}}
		data, err := cfb.Build(spec)
		if err != nil {
			return nil, nil, false
		}
		nFAT, free := fatUsage(data)
		if nFAT == target && free == wantFree {
			return spec, data, true
		}
		// one FAT sector more or less changes the count by 128 entries minus the sector itself
		size += ((target-nFAT)*127 + free - wantFree) * 512
		if size < 4096 {
			return nil, nil, false
		}
	}
	return nil, nil, false
}

func fullFATClass(target int) string { return fmt.Sprintf("fat-full:%d-sectors", target) }
