// C04 — a key is used only for callers entitled to it.
//
// Generated configurations x generated requests are served by the real
// server.New(cfg).Handler(); a reference model written from the property statement
// and doc/relic.yml predicts the outcome class; a recording token proves that no
// token/key is touched on refused requests; the access log exposes panics (stack
// field) and the recorded client address.
package c04

import (
	"syscall"
	"bytes"
	"crypto/sha256"
	"crypto/tls"
	"crypto/x509"
	"encoding/hex"
	"encoding/json"
	"fmt"
	"net"
	"net/http"
	"net/http/httptest"
	"net/url"
	"os"
	"path/filepath"
	"sort"
	"strings"
	"sync"
	"testing"
	"time"

	"github.com/rs/zerolog"
	"github.com/rs/zerolog/log"
	"gopkg.in/yaml.v3"
	"pgregory.net/rapid"

	"github.com/sassoftware/relic/v8/cmdline/shared"
	"github.com/sassoftware/relic/v8/config"
	"github.com/sassoftware/relic/v8/server"
	_ "github.com/sassoftware/relic/v8/signers/ps"
	"github.com/sassoftware/relic/v8/xverif/evid"
	"github.com/sassoftware/relic/v8/xverif/keys"
	"github.com/sassoftware/relic/v8/xverif/known"
	"github.com/sassoftware/relic/v8/xverif/rectoken"
)

var rec = evid.New("C04")
var knownSet = known.Load("C04")
var workDir string

func TestMain(m *testing.M) {
	rec.Rule("cases = (generated relic configuration: clients by SPKI fingerprint or issuing CA, role sets, keys incl. aliases (dangling, alias-of-alias, self), hidden, tokenless, undefined-token, trusted-proxy lists) x (request: endpoint, key name, peer address, TLS peer chain, X-Forwarded-For / Ssl-Client-Cert headers | bearer token + scripted policy decision); oracle = reference model of the statement + recording token + access/audit log; non-trivial = outcome depends on >= 2 configuration features (alias+role, CA-matched client, fingerprint-over-CA priority, trusted hop chain, hidden/alias listing, policy allowed_keys); distinct = distinct (config, request) renderings")
	rec.Assume("TLS peer chains are injected as tls.ConnectionState (no handshake); the handler chain, authentication, authorisation and token layers are relic's own")
	rec.Assume("for a trusted peer without any X-Forwarded-For hop either identity source (TLS chain or Ssl-Client-Cert) is accepted: the statement does not fix it")
	var err error
	workDir, err = os.MkdirTemp("", "c04-")
	if err != nil {
		panic(err)
	}
	setupCreds()
	code := m.Run()
	rec.Flush()
	os.RemoveAll(workDir)
	os.Exit(code)
}

// ---------- credentials ----------

type cred struct {
	Label   string
	Chain   []*x509.Certificate
	CA      string // "", "ca1", "ca2"
	CAValid bool   // chain verifies for client auth under CA
}

var (
	creds   []cred
	caPEM   = map[string]string{}
	keyCert = map[string]string{} // pool key -> cert chain file
)

func fingerprint(c *x509.Certificate) string {
	d := sha256.Sum256(c.RawSubjectPublicKeyInfo)
	return hex.EncodeToString(d[:])
}

func setupCreds() {
	clientAuth := []x509.ExtKeyUsage{x509.ExtKeyUsageClientAuth}
	ca1 := keys.NewCA("verif client CA 1", keys.Key("rsa2048b"), nil, keys.Epoch, keys.Far)
	ca2 := keys.NewCA("verif client CA 2", keys.Key("rsa2048c"), nil, keys.Epoch, keys.Far)
	inter := keys.NewCA("verif client CA 2 intermediate", keys.Key("p521a"), ca2, keys.Epoch, keys.Far)
	caPEM["ca1"] = string(keys.CertPEM(ca1.Cert))
	caPEM["ca2"] = string(keys.CertPEM(ca2.Cert))
	c3leaf := inter.Issue(keys.Key("p384b").Public(), keys.LeafOpts{CN: "c3", EKU: clientAuth})
	creds = []cred{
		{Label: "c0-selfsigned", Chain: []*x509.Certificate{keys.SelfSigned("c0", keys.Key("p256a"), clientAuth)}},
		{Label: "c1-selfsigned", Chain: []*x509.Certificate{keys.SelfSigned("c1", keys.Key("p256b"), clientAuth)}},
		{Label: "c0-ca1", Chain: []*x509.Certificate{ca1.Issue(keys.Key("p256a").Public(), keys.LeafOpts{CN: "c0 by ca1", EKU: clientAuth})}, CA: "ca1", CAValid: true},
		{Label: "c2-ca1", Chain: []*x509.Certificate{ca1.Issue(keys.Key("p384a").Public(), keys.LeafOpts{CN: "c2 by ca1", EKU: clientAuth})}, CA: "ca1", CAValid: true},
		{Label: "c3-ca2-chain", Chain: []*x509.Certificate{c3leaf, inter.Cert}, CA: "ca2", CAValid: true},
		{Label: "c3-ca2-nointermediate", Chain: []*x509.Certificate{c3leaf}, CA: "ca2", CAValid: false},
		{Label: "c4-ca1-serverauth-eku", Chain: []*x509.Certificate{ca1.Issue(keys.Key("p521a").Public(), keys.LeafOpts{CN: "c4", EKU: []x509.ExtKeyUsage{x509.ExtKeyUsageServerAuth}})}, CA: "ca1", CAValid: false},
		{Label: "c5-ca1-expired", Chain: []*x509.Certificate{ca1.Issue(keys.Key("p521b").Public(), keys.LeafOpts{CN: "c5", EKU: clientAuth, NotAfter: time.Date(2021, 1, 1, 0, 0, 0, 0, time.UTC)})}, CA: "ca1", CAValid: false},
	}
	// signing key certificates
	signCA := keys.NewCA("verif signing root", keys.Key("rsa2048b"), nil, keys.Epoch, keys.Far)
	for _, k := range []string{"rsa2048a", "p256a"} {
		leaf := signCA.Issue(keys.Key(k).Public(), keys.LeafOpts{CN: "signer " + k})
		p := filepath.Join(workDir, k+".crt")
		if err := os.WriteFile(p, keys.CertPEM(leaf, signCA.Cert), 0o644); err != nil {
			panic(err)
		}
		keyCert[k] = p
	}
}

// ---------- case description ----------

type keySpec struct {
	Name  string   `json:"name"`
	Kind  string   `json:"kind"` // normal | notoken | alias | badtoken
	Alias string   `json:"alias,omitempty"`
	Roles []string `json:"roles"`
	Hide  bool     `json:"hide,omitempty"`
}

type clientSpec struct {
	Cred  int      `json:"fingerprint_of_cred"` // -1 when CA based
	CA    string   `json:"ca,omitempty"`
	Roles []string `json:"roles"`
	Nick  string   `json:"nick"`
}

type confSpec struct {
	Keys    []keySpec    `json:"keys"`
	Clients []clientSpec `json:"clients"`
	Trusted []string     `json:"trusted_proxies"`
}

type reqSpec struct {
	Endpoint   string   `json:"endpoint"`
	Key        string   `json:"key"`
	Peer       string   `json:"peer"`
	Cred       int      `json:"tls_cred"` // -1 none
	XFF        []string `json:"xff"`
	HeaderCred int      `json:"header_cred"` // -1 none
	SigType    string   `json:"sigtype"`
	Digest     string   `json:"digest"`
	NoFilename bool     `json:"no_filename,omitempty"`
	Plain      bool     `json:"plaintext_listener,omitempty"` // request arrived on the plaintext listener (no TLS state)
}

var roleNames = []string{"dev", "release", "ops", "qa"}
var keyNames = []string{"k0", "k1", "k2", "k3", "k4", "k5"}
var peers = []string{"203.0.113.7", "10.1.2.3", "10.9.9.9", "192.168.1.1", "fd00::1", "2001:db8::1"}
var trustedChoices = [][]string{nil, {"10.0.0.0/8"}, {"10.1.2.3"}, {"fd00::/8", "192.168.1.1"}, {"10.0.0.0/8", "192.168.0.0/16", "fd00::1"}}

func genRoles(t *rapid.T, label string, allowEmpty bool) []string {
	n := rapid.IntRange(0, 2).Draw(t, label+"_n")
	if n == 0 && !allowEmpty {
		n = 1
	}
	seen := map[string]bool{}
	var out []string
	for i := 0; i < n; i++ {
		r := rapid.SampledFrom(roleNames).Draw(t, label)
		if !seen[r] {
			seen[r] = true
			out = append(out, r)
		}
	}
	return out
}

func genConf(t *rapid.T) *confSpec {
	c := &confSpec{}
	nk := rapid.IntRange(1, 6).Draw(t, "nkeys")
	for i := 0; i < nk; i++ {
		ks := keySpec{Name: keyNames[i], Hide: rapid.IntRange(0, 4).Draw(t, "hide") == 0}
		switch rapid.IntRange(0, 14).Draw(t, "kind") {
		case 0:
			ks.Kind = "notoken"
			ks.Roles = genRoles(t, "kroles", true)
		case 1:
			ks.Kind = "badtoken"
			ks.Roles = genRoles(t, "kroles", true)
		case 2, 3, 4:
			ks.Kind = "alias"
			// target: any key name incl. itself, later keys, and an undefined name
			ks.Alias = rapid.SampledFrom(append(append([]string{}, keyNames[:nk]...), "undefined")).Draw(t, "alias")
			if rapid.IntRange(0, 5).Draw(t, "aliasroles") == 0 {
				ks.Roles = genRoles(t, "kroles", true) // may not override the target's roles
			}
		default:
			ks.Kind = "normal"
			ks.Roles = genRoles(t, "kroles", true)
		}
		c.Keys = append(c.Keys, ks)
	}
	nc := rapid.IntRange(0, 4).Draw(t, "nclients")
	usedFP := map[int]bool{}
	usedCA := map[string]bool{}
	for i := 0; i < nc; i++ {
		cs := clientSpec{Cred: -1, Roles: genRoles(t, "croles", true), Nick: fmt.Sprintf("nick%d", i)}
		if rapid.Bool().Draw(t, "byca") {
			cs.CA = rapid.SampledFrom([]string{"ca1", "ca2"}).Draw(t, "ca")
			if usedCA[cs.CA] {
				continue
			}
			usedCA[cs.CA] = true
		} else {
			cs.Cred = rapid.SampledFrom([]int{0, 1, 3, 4, 6}).Draw(t, "fpcred")
			if usedFP[cs.Cred] {
				continue
			}
			usedFP[cs.Cred] = true
		}
		c.Clients = append(c.Clients, cs)
	}
	c.Trusted = rapid.SampledFrom(trustedChoices).Draw(t, "trusted")
	return c
}

func genReq(t *rapid.T, c *confSpec) *reqSpec {
	r := &reqSpec{
		Endpoint:   rapid.SampledFrom([]string{"/sign", "/sign", "/sign", "/keys/", "/keys/", "/list_keys", "/list_keys", "/", "/health", "/directory"}).Draw(t, "endpoint"),
		Peer:       rapid.SampledFrom(peers).Draw(t, "peer"),
		Cred:       rapid.IntRange(-1, len(creds)-1).Draw(t, "tlscred"),
		HeaderCred: -1,
		SigType:    "ps",
		Digest:     "",
	}
	names := []string{"nosuchkey", ""}
	for _, k := range c.Keys {
		names = append(names, k.Name, k.Name, k.Name)
	}
	r.Key = rapid.SampledFrom(names).Draw(t, "key")
	if rapid.IntRange(0, 2).Draw(t, "hasxff") > 0 {
		n := rapid.IntRange(1, 3).Draw(t, "nxff")
		for i := 0; i < n; i++ {
			r.XFF = append(r.XFF, rapid.SampledFrom(append(append([]string{}, peers...), "unknown", "198.51.100.9")).Draw(t, "hop"))
		}
	}
	if rapid.IntRange(0, 2).Draw(t, "hashdr") > 0 {
		r.HeaderCred = rapid.IntRange(0, len(creds)-1).Draw(t, "hdrcred")
	}
	if rapid.IntRange(0, 3).Draw(t, "plaintext") == 0 {
		// plaintext listener (server.listenhttp): there is no handshake, hence no TLS chain
		r.Plain, r.Cred = true, -1
	}
	switch rapid.IntRange(0, 11).Draw(t, "reqvariant") {
	case 0:
		r.SigType = "nosuchtype"
	case 1:
		r.Digest = "sha-999"
	case 2:
		r.NoFilename = true
	case 3:
		r.Digest = "sha1"
	}
	return r
}

// ---------- building the real configuration ----------

func buildConfig(c *confSpec, dir string, policyURL string) (*config.Config, error) {
	cfg := &config.Config{
		Tokens:    map[string]*config.TokenConfig{"tokA": {Type: rectoken.Type}},
		Keys:      map[string]*config.KeyConfig{},
		Clients:   map[string]*config.ClientConfig{},
		Server:    &config.ServerConfig{Listen: ":0", TrustedProxies: c.Trusted, PolicyURL: policyURL, TokenCheckInterval: 3600},
		AuditFile: filepath.Join(dir, "audit.log"),
	}
	for _, k := range c.Keys {
		kc := &config.KeyConfig{Roles: k.Roles, Hide: k.Hide}
		switch k.Kind {
		case "normal":
			kc.Token = "tokA"
			kc.Label = "rsa2048a"
			kc.X509Certificate = keyCert["rsa2048a"]
		case "notoken":
			kc.Label = "rsa2048a"
			kc.X509Certificate = keyCert["rsa2048a"]
		case "badtoken":
			kc.Token = "undefinedtoken"
			kc.Label = "rsa2048a"
			kc.X509Certificate = keyCert["rsa2048a"]
		case "alias":
			kc.Alias = k.Alias
		}
		cfg.Keys[k.Name] = kc
	}
	for i, cl := range c.Clients {
		cc := &config.ClientConfig{Nickname: cl.Nick, Roles: cl.Roles}
		name := ""
		if cl.CA != "" {
			cc.Certificate = caPEM[cl.CA]
			name = fmt.Sprintf("caclient%d", i)
		} else {
			name = strings.ToUpper(fingerprint(creds[cl.Cred].Chain[0])) // normalised to lower case by relic
			if i%2 == 0 {
				name = strings.ToLower(name)
			}
		}
		cfg.Clients[name] = cc
	}
	blob, err := yaml.Marshal(cfg)
	if err != nil {
		return nil, err
	}
	path := filepath.Join(dir, "relic.yml")
	if err := os.WriteFile(path, blob, 0o644); err != nil {
		return nil, err
	}
	return config.ReadFile(path)
}

// ---------- reference model ----------

type resolved struct {
	ok     bool
	target *keySpec
}

func (c *confSpec) key(name string) *keySpec {
	for i := range c.Keys {
		if c.Keys[i].Name == name {
			return &c.Keys[i]
		}
	}
	return nil
}

// resolve follows exactly one alias; the resolved entry must name a token.
func (c *confSpec) resolve(name string) resolved {
	k := c.key(name)
	if k == nil {
		return resolved{}
	}
	if k.Kind == "alias" {
		k = c.key(k.Alias)
		if k == nil {
			return resolved{}
		}
	}
	if k.Kind == "notoken" || k.Kind == "alias" {
		// an alias target that is itself an alias has no token of its own
		return resolved{}
	}
	return resolved{ok: true, target: k}
}

func intersects(a, b []string) bool {
	for _, x := range a {
		for _, y := range b {
			if x == y {
				return true
			}
		}
	}
	return false
}

type identity struct {
	known     bool
	ambiguous bool
	roles     []string
	nick      string
	viaCA     bool
	features  int
}

func (c *confSpec) identify(cr int) identity {
	if cr < 0 {
		return identity{}
	}
	fp := fingerprint(creds[cr].Chain[0])
	for _, cl := range c.Clients {
		if cl.Cred >= 0 && fingerprint(creds[cl.Cred].Chain[0]) == fp {
			id := identity{known: true, roles: cl.Roles, nick: cl.Nick}
			if creds[cr].CA != "" {
				id.features++ // fingerprint identity although CA-issued
			}
			return id
		}
	}
	var matches []clientSpec
	for _, cl := range c.Clients {
		if cl.CA != "" && creds[cr].CA == cl.CA && creds[cr].CAValid {
			matches = append(matches, cl)
		}
	}
	if len(matches) == 1 {
		return identity{known: true, roles: matches[0].Roles, nick: matches[0].Nick, viaCA: true, features: 1}
	}
	if len(matches) > 1 {
		return identity{known: true, ambiguous: true}
	}
	return identity{}
}

var trustedNets = map[string][]*net.IPNet{}
var trustedMu sync.Mutex

func parseNets(list []string) []*net.IPNet {
	key := strings.Join(list, ",")
	trustedMu.Lock()
	defer trustedMu.Unlock()
	if n, ok := trustedNets[key]; ok {
		return n
	}
	var out []*net.IPNet
	for _, v := range list {
		if strings.Contains(v, "/") {
			_, n, err := net.ParseCIDR(v)
			if err != nil {
				panic(err)
			}
			out = append(out, n)
		} else {
			ip := net.ParseIP(v)
			bits := 128
			if ip.To4() != nil {
				bits = 32
			}
			out = append(out, &net.IPNet{IP: ip, Mask: net.CIDRMask(bits, bits)})
		}
	}
	trustedNets[key] = out
	return out
}

func isTrusted(nets []*net.IPNet, addr string) bool {
	ip := net.ParseIP(addr)
	if ip == nil {
		return false
	}
	for _, n := range nets {
		if n.Contains(ip) {
			return true
		}
	}
	return false
}

// clientAddr models the documented proxy semantics: headers count only when the
// direct peer is a configured proxy; the client is the right-most hop that is not a
// trusted proxy (or the left-most hop when all are trusted).
func clientAddr(nets []*net.IPNet, peer string, xff []string) (addr string, viaProxy bool) {
	if !isTrusted(nets, peer) {
		return peer, false
	}
	if len(xff) == 0 {
		return peer, false
	}
	for i := len(xff) - 1; i >= 0; i-- {
		if !isTrusted(nets, xff[i]) {
			return xff[i], true
		}
	}
	return xff[0], true
}

// ---------- running a request ----------

type outcome struct {
	Status int
	Body   string
	LogIP  string
	User   string
	Stack  string
	Calls  []rectoken.Call
	Audit  []map[string]any
}

type runner struct {
	srv     *server.Server
	handler http.Handler
	logbuf  *bytes.Buffer
	cfg     *config.Config
}

var serialMu sync.Mutex // server.New + log.Logger + shared.CurrentConfig are process globals

func newRunner(cfg *config.Config) (*runner, error) {
	buf := &bytes.Buffer{}
	log.Logger = zerolog.New(buf)
	shared.CurrentConfig = cfg
	srv, err := server.New(cfg)
	if err != nil {
		return nil, err
	}
	return &runner{srv: srv, handler: srv.Handler(), logbuf: buf, cfg: cfg}, nil
}

func (r *runner) close() { r.srv.Close() }

func (r *runner) do(q *reqSpec, withHeaders bool, bearer string) outcome {
	r.logbuf.Reset()
	rectoken.Reset()
	os.Remove(r.cfg.AuditFile)
	method := "GET"
	target := q.Endpoint
	var body *strings.Reader
	switch q.Endpoint {
	case "/sign":
		method = "POST"
		v := url.Values{}
		if q.Key != "" {
			v.Set("key", q.Key)
		}
		if !q.NoFilename {
			v.Set("filename", "hello.ps1")
		}
		v.Set("sigtype", q.SigType)
		v.Set("ps-style", ".ps1")
		if q.Digest != "" {
			v.Set("digest", q.Digest)
		}
		target = "/sign?" + v.Encode()
	case "/keys/":
		k := q.Key
		if k == "" {
			k = "nosuchkey"
		}
		target = "/keys/" + k
	}
	body = strings.NewReader("Write-Host \"hello\"\r\n")
	req := httptest.NewRequest(method, target, body)
	host := q.Peer
	if strings.Contains(host, ":") {
		host = "[" + host + "]"
	}
	req.RemoteAddr = host + ":40000"
	req.TLS = &tls.ConnectionState{}
	if q.Cred >= 0 {
		req.TLS.PeerCertificates = creds[q.Cred].Chain
	}
	if q.Plain {
		req.TLS = nil
	}
	if withHeaders {
		if len(q.XFF) > 0 {
			req.Header.Set("X-Forwarded-For", strings.Join(q.XFF, ", "))
		}
		if q.HeaderCred >= 0 {
			req.Header.Set("Ssl-Client-Cert", url.PathEscape(string(keys.CertPEM(creds[q.HeaderCred].Chain...))))
		}
	}
	if bearer != "" {
		req.Header.Set("Authorization", "Bearer "+bearer)
	}
	rw := httptest.NewRecorder()
	// a handler that neither answers nor blocks but burns CPU is reported (CPU time, not
	// wall time, decides: 20 s of CPU for one in-memory request)
	done := make(chan struct{})
	go func() {
		defer close(done)
		r.handler.ServeHTTP(rw, req)
	}()
	var ru0 syscall.Rusage
	syscall.Getrusage(syscall.RUSAGE_SELF, &ru0)
	tick := time.NewTicker(500 * time.Millisecond)
wait:
	for {
		select {
		case <-done:
			break wait
		case <-tick.C:
			var ru syscall.Rusage
			syscall.Getrusage(syscall.RUSAGE_SELF, &ru)
			if cpu := time.Duration(ru.Utime.Nano() + ru.Stime.Nano() - ru0.Utime.Nano() - ru0.Stime.Nano()); cpu > 20*time.Second {
				tick.Stop()
				return outcome{Status: -1, Body: fmt.Sprintf("no answer after %v of CPU time: the request handler spins", cpu.Round(time.Second))}
			}
		}
	}
	tick.Stop()
	out := outcome{Status: rw.Code, Body: rw.Body.String(), Calls: rectoken.Calls()}
	for _, line := range strings.Split(r.logbuf.String(), "\n") {
		var m map[string]any
		if json.Unmarshal([]byte(line), &m) != nil {
			continue
		}
		if _, ok := m["status"]; ok {
			out.LogIP, _ = m["ip"].(string)
			out.User, _ = m["user"].(string)
			out.Stack, _ = m["stack"].(string)
		}
	}
	if blob, err := os.ReadFile(r.cfg.AuditFile); err == nil {
		for _, line := range strings.Split(strings.TrimSpace(string(blob)), "\n") {
			var m map[string]any
			if json.Unmarshal([]byte(line), &m) == nil {
				out.Audit = append(out.Audit, m)
			}
		}
	}
	return out
}

func keyCalls(calls []rectoken.Call) int {
	n := 0
	for _, c := range calls {
		if c.Op == "GetKey" || c.Op == "Sign" {
			n++
		}
	}
	return n
}

type failure struct {
	Conf *confSpec `json:"config"`
	Req  *reqSpec  `json:"request"`
	Msg  string    `json:"error"`
}

func fail(t *rapid.T, name string, c *confSpec, q *reqSpec, format string, args ...any) {
	msg := fmt.Sprintf(format, args...)
	evid.SaveCase(name, failure{c, q, msg})
	cj, _ := json.Marshal(c)
	qj, _ := json.Marshal(q)
	t.Fatalf("%s\n config: %s\n request: %s", msg, cj, qj)
}

const danglingKey = "C04:panic-on-dangling-alias"

// TestC04_Certificate: certificate-authenticated server.
func TestC04_Certificate(t *testing.T) {
	rapid.Check(t, func(t *rapid.T) {
		c := genConf(t)
		serialMu.Lock()
		defer serialMu.Unlock()
		dir, err := os.MkdirTemp(workDir, "case")
		if err != nil {
			t.Fatal(err)
		}
		defer os.RemoveAll(dir)
		cfg, err := buildConfig(c, dir, "")
		if err != nil {
			t.Fatalf("generated configuration rejected: %v", err)
		}
		run, err := newRunner(cfg)
		if err != nil {
			// a configuration entry that cannot work may be refused at start-up
			for _, k := range c.Keys {
				if k.Kind != "normal" && len(k.Roles) > 0 {
					rec.Case(fmt.Sprintf("startup|%v", *c), "startup-refused/"+k.Kind, false)
					return
				}
			}
			evid.SaveCase("TestC04_Certificate", failure{c, nil, err.Error()})
			t.Fatalf("server.New refused a well-formed configuration: %v", err)
		}
		defer run.close()
		nets := parseNets(c.Trusted)
		nreq := rapid.IntRange(1, 6).Draw(t, "nreq")
		for i := 0; i < nreq; i++ {
			q := genReq(t, c)
			checkCertRequest(t, run, c, q, nets)
		}
	})
}

func checkCertRequest(t *rapid.T, run *runner, c *confSpec, q *reqSpec, nets []*net.IPNet) {
	const name = "TestC04_Certificate"
	got := run.do(q, true, "")
	features := 0
	class := q.Endpoint

	if got.Status == -1 {
		fail(t, name, c, q, "%s", got.Body)
	}
	// 1. no panic, ever
	if got.Stack != "" {
		if k := c.key(q.Key); k != nil && k.Kind == "alias" && c.key(k.Alias) == nil && knownSet.Has(danglingKey) {
			rec.KnownFinding(danglingKey, "request naming an alias whose target is undefined panics in Config.GetKey (nil dereference), recovered as HTTP 500")
			rec.Excluded(danglingKey)
			return
		}
		fail(t, name, c, q, "request handler panicked (status %d): %s", got.Status, firstLines(got.Stack, 12))
	}

	// 2. recorded address and identity source
	wantIP, viaProxy := clientAddr(nets, q.Peer, q.XFF)
	peerTrusted := isTrusted(nets, q.Peer)
	if viaProxy {
		features++
		class += "/proxied"
	}
	if q.Endpoint != "/health" && got.LogIP != wantIP {
		fail(t, name, c, q, "recorded client address %q, want %q (peer trusted=%v)", got.LogIP, wantIP, peerTrusted)
	}
	// identity: from the header only when the request came through a trusted proxy
	credIdx := q.Cred
	if viaProxy {
		credIdx = q.HeaderCred
	}
	eitherSource := peerTrusted && !viaProxy && q.HeaderCred >= 0 // unspecified: see assumptions
	id := c.identify(credIdx)
	features += id.features

	// 3. metamorphic: identity headers from an untrusted peer change nothing
	if !peerTrusted && (len(q.XFF) > 0 || q.HeaderCred >= 0) {
		bare := run.do(q, false, "")
		if bare.Status != got.Status || bare.LogIP != got.LogIP || bare.User != got.User || normBody(bare.Body) != normBody(got.Body) || auditIdent(bare.Audit) != auditIdent(got.Audit) {
			fail(t, name, c, q, "headers from an untrusted peer changed the outcome: with headers status=%d ip=%q user=%q audit=%s; without status=%d ip=%q user=%q audit=%s",
				got.Status, got.LogIP, got.User, auditIdent(got.Audit), bare.Status, bare.LogIP, bare.User, auditIdent(bare.Audit))
		}
		class += "/untrusted-headers"
		features++
	}

	nontrivial := func() {
		key := fmt.Sprintf("%v|%v", *c, *q)
		rec.Case(key, class, features >= 2)
		if features >= 2 {
			rec.Sample(class, map[string]any{"config": c, "request": q, "status": got.Status})
		}
	}
	defer nontrivial()

	if q.Endpoint == "/health" || q.Endpoint == "/directory" {
		if got.Status != 200 {
			fail(t, name, c, q, "public endpoint returned %d", got.Status)
		}
		if keyCalls(got.Calls) != 0 {
			fail(t, name, c, q, "public endpoint touched a key: %v", got.Calls)
		}
		return
	}
	if eitherSource || id.ambiguous {
		// unspecified identity: only the unconditional checks apply
		if got.Status != 200 && got.Status < 500 && keyCalls(got.Calls) != 0 {
			fail(t, name, c, q, "refused request (status %d) touched a key: %v", got.Status, got.Calls)
		}
		return
	}
	if !id.known {
		class += "/unauthenticated"
		if got.Status != 401 {
			fail(t, name, c, q, "unrecognised caller got status %d, want 401", got.Status)
		}
		if keyCalls(got.Calls) != 0 {
			fail(t, name, c, q, "unrecognised caller's request touched a key: %v", got.Calls)
		}
		return
	}
	if id.viaCA {
		class += "/ca-client"
	}
	switch q.Endpoint {
	case "/":
		if got.Status != 200 || keyCalls(got.Calls) != 0 {
			fail(t, name, c, q, "home: status %d calls %v", got.Status, got.Calls)
		}
	case "/list_keys":
		if got.Status != 200 {
			fail(t, name, c, q, "list_keys: status %d", got.Status)
		}
		if keyCalls(got.Calls) != 0 {
			fail(t, name, c, q, "list_keys touched a key: %v", got.Calls)
		}
		var listed []string
		if err := json.Unmarshal([]byte(got.Body), &listed); err != nil {
			fail(t, name, c, q, "list_keys body %q: %v", got.Body, err)
		}
		isListed := map[string]bool{}
		for _, n := range listed {
			isListed[n] = true
		}
		for _, k := range c.Keys {
			r := c.resolve(k.Name)
			couldSign := r.ok && intersects(r.target.Roles, id.roles)
			if isListed[k.Name] {
				if k.Hide {
					fail(t, name, c, q, "hidden key %q is listed", k.Name)
				}
				if !couldSign {
					fail(t, name, c, q, "key %q is listed but the caller could not sign with it (resolves=%v)", k.Name, r.ok)
				}
			} else if couldSign && !k.Hide && !r.target.Hide {
				fail(t, name, c, q, "key %q is not hidden and the caller could sign with it, but it is not listed", k.Name)
			}
			if k.Kind == "alias" || k.Hide {
				features++
			}
		}
	case "/keys/", "/sign":
		if q.Endpoint == "/sign" {
			if q.Key == "" || q.NoFilename {
				if got.Status != 400 {
					fail(t, name, c, q, "missing parameter: status %d, want 400", got.Status)
				}
				if keyCalls(got.Calls) != 0 {
					fail(t, name, c, q, "bad request touched a key: %v", got.Calls)
				}
				return
			}
		}
		keyName := q.Key
		if q.Endpoint == "/keys/" && keyName == "" {
			keyName = "nosuchkey"
		}
		r := c.resolve(keyName)
		if k := c.key(keyName); k != nil && k.Kind == "alias" {
			features++
			class += "/alias"
		}
		entitled := r.ok && intersects(r.target.Roles, id.roles)
		if !entitled {
			class += "/forbidden"
			if got.Status != 403 {
				fail(t, name, c, q, "caller not entitled to key %q (resolves=%v) got status %d, want 403", keyName, r.ok, got.Status)
			}
			if keyCalls(got.Calls) != 0 {
				fail(t, name, c, q, "forbidden request touched a key: %v", got.Calls)
			}
			return
		}
		features++
		if q.Endpoint == "/sign" && (q.SigType != "ps" || q.Digest == "sha-999") {
			if got.Status != 400 {
				fail(t, name, c, q, "bad sigtype/digest: status %d, want 400", got.Status)
			}
			if keyCalls(got.Calls) != 0 {
				fail(t, name, c, q, "bad request touched a key: %v", got.Calls)
			}
			return
		}
		if r.target.Kind == "badtoken" {
			class += "/undefined-token"
			if got.Status < 500 {
				fail(t, name, c, q, "key with undefined token: status %d, want an error", got.Status)
			}
			return
		}
		class += "/allowed"
		if got.Status != 200 {
			fail(t, name, c, q, "entitled caller got status %d body %q", got.Status, got.Body)
		}
		if q.Endpoint == "/sign" {
			// the token must have been asked for the requested name and the audit
			// record must carry the resolved key, the model's client and address
			if len(got.Audit) != 1 {
				fail(t, name, c, q, "%d audit records for one signature", len(got.Audit))
			}
			a := got.Audit[0]
			if a["sig.keyname"] != r.target.Name {
				fail(t, name, c, q, "audit names key %v, want resolved key %q", a["sig.keyname"], r.target.Name)
			}
			if a["client.name"] != id.nick {
				fail(t, name, c, q, "audit client.name %v, want %q", a["client.name"], id.nick)
			}
			if a["client.ip"] != wantIP {
				fail(t, name, c, q, "audit client.ip %v, want %q", a["client.ip"], wantIP)
			}
		}
	}
}

func auditIdent(a []map[string]any) string {
	var parts []string
	for _, m := range a {
		parts = append(parts, fmt.Sprintf("%v/%v/%v", m["client.ip"], m["client.name"], m["sig.keyname"]))
	}
	sort.Strings(parts)
	return strings.Join(parts, ";")
}

// normBody: binary patches differ in random signature bytes; compare only the kind.
func normBody(b string) string {
	if len(b) > 0 && (b[0] == '{' || b[0] == '[' || strings.HasPrefix(b, "Welcome") || strings.HasPrefix(b, "OK")) {
		return b
	}
	return fmt.Sprintf("binary[%d]", len(b)/1000)
}

func firstLines(s string, n int) string {
	lines := strings.Split(s, "\n")
	if len(lines) > n {
		lines = lines[:n]
	}
	return strings.Join(lines, "\n")
}

// ---------- bearer identity + scripted policy decisions ----------

type decision struct {
	Kind        string   `json:"kind"` // allow | deny | deny401 | garbage | http500
	Roles       []string `json:"roles"`
	AllowedKeys []string `json:"allowed_keys"`
	Sub         string   `json:"sub"`
}

func policyServer() *httptest.Server {
	return httptest.NewServer(http.HandlerFunc(func(w http.ResponseWriter, r *http.Request) {
		var in struct {
			Input struct {
				Token string `json:"token"`
			} `json:"input"`
			Token string `json:"token"`
		}
		_ = json.NewDecoder(r.Body).Decode(&in)
		tok := in.Token
		if tok == "" {
			tok = in.Input.Token
		}
		raw, _ := hex.DecodeString(tok)
		var d decision
		_ = json.Unmarshal(raw, &d)
		switch d.Kind {
		case "http500":
			http.Error(w, "policy engine down", 500)
		case "garbage":
			w.Write([]byte("{not json"))
		case "deny":
			json.NewEncoder(w).Encode(map[string]any{"result": map[string]any{"allow": false, "errors": []string{"caller is not permitted"}}})
		case "deny401":
			json.NewEncoder(w).Encode(map[string]any{"result": map[string]any{"allow": false, "errors": []string{"token is expired"}}})
		case "deny-silent":
			// denied without an explanation, but with the identity the policy resolved
			json.NewEncoder(w).Encode(map[string]any{"decision_id": "d-2", "result": map[string]any{"allow": false, "sub": d.Sub, "roles": d.Roles, "allowed_keys": d.AllowedKeys}})
		case "allow":
			json.NewEncoder(w).Encode(map[string]any{"decision_id": "d-1", "result": map[string]any{"allow": true, "sub": d.Sub, "roles": d.Roles, "allowed_keys": d.AllowedKeys, "claims": map[string]any{"iss": "verif"}}})
		default:
			json.NewEncoder(w).Encode(map[string]any{"result": map[string]any{"allow": false}})
		}
	}))
}

func TestC04_Policy(t *testing.T) {
	ps := policyServer()
	defer ps.Close()
	rapid.Check(t, func(t *rapid.T) {
		const name = "TestC04_Policy"
		c := genConf(t)
		c.Clients = nil
		c.Trusted = nil
		serialMu.Lock()
		defer serialMu.Unlock()
		dir, err := os.MkdirTemp(workDir, "case")
		if err != nil {
			t.Fatal(err)
		}
		defer os.RemoveAll(dir)
		policyURL := ps.URL + rapid.SampledFrom([]string{"/", "/v1/data/relic/authz"}).Draw(t, "policypath")
		cfg, err := buildConfig(c, dir, policyURL)
		if err != nil {
			t.Fatalf("generated configuration rejected: %v", err)
		}
		run, err := newRunner(cfg)
		if err != nil {
			for _, k := range c.Keys {
				if k.Kind != "normal" && len(k.Roles) > 0 {
					return
				}
			}
			t.Fatalf("server.New refused a well-formed configuration: %v", err)
		}
		defer run.close()
		nreq := rapid.IntRange(1, 5).Draw(t, "nreq")
		for i := 0; i < nreq; i++ {
			q := genReq(t, c)
			q.Cred, q.HeaderCred, q.XFF = -1, -1, nil
			d := decision{Kind: rapid.SampledFrom([]string{"allow", "allow", "allow", "deny", "deny-silent", "deny401", "garbage", "http500", "none"}).Draw(t, "decision"), Sub: "user@example"}
			d.Roles = genRoles(t, "proles", true)
			if rapid.Bool().Draw(t, "hasallowedkeys") {
				d.AllowedKeys = []string{rapid.SampledFrom(keyNames).Draw(t, "allowedkey")}
			}
			bearer := ""
			if d.Kind != "none" {
				blob, _ := json.Marshal(d)
				bearer = hex.EncodeToString(blob)
			}
			got := run.do(q, false, bearer)
			class := "policy/" + d.Kind + q.Endpoint
			features := 1
			if got.Stack != "" {
				fail(t, name, c, q, "request handler panicked (status %d, decision %+v): %s", got.Status, d, firstLines(got.Stack, 12))
			}
			done := func() {
				rec.Case(fmt.Sprintf("%v|%v|%v", *c, *q, d), class, features >= 2)
				if features >= 2 {
					rec.Sample(class, map[string]any{"config": c, "request": q, "decision": d, "status": got.Status})
				}
			}
			if q.Endpoint == "/health" || q.Endpoint == "/directory" {
				if got.Status != 200 || keyCalls(got.Calls) != 0 {
					fail(t, name, c, q, "public endpoint: status %d calls %v", got.Status, got.Calls)
				}
				done()
				continue
			}
			if d.Kind != "allow" {
				switch d.Kind {
				case "none", "deny401":
					if got.Status != 401 {
						fail(t, name, c, q, "decision %s: status %d, want 401", d.Kind, got.Status)
					}
				case "deny", "deny-silent":
					if got.Status != 403 {
						fail(t, name, c, q, "decision %s: status %d, want 403", d.Kind, got.Status)
					}
				default:
					if got.Status < 400 {
						fail(t, name, c, q, "decision %s: status %d, want an error", d.Kind, got.Status)
					}
				}
				if keyCalls(got.Calls) != 0 {
					fail(t, name, c, q, "refused request touched a key: %v", got.Calls)
				}
				done()
				continue
			}
			switch q.Endpoint {
			case "/", "/list_keys":
				if got.Status != 200 || keyCalls(got.Calls) != 0 {
					fail(t, name, c, q, "%s: status %d calls %v", q.Endpoint, got.Status, got.Calls)
				}
				if q.Endpoint == "/list_keys" {
					var listed []string
					json.Unmarshal([]byte(got.Body), &listed)
					isListed := map[string]bool{}
					for _, n := range listed {
						isListed[n] = true
					}
					for _, k := range c.Keys {
						r := c.resolve(k.Name)
						could := r.ok && (intersects(r.target.Roles, d.Roles) || contains(d.AllowedKeys, r.target.Name))
						if isListed[k.Name] && (k.Hide || !could) {
							fail(t, name, c, q, "key %q listed (hidden=%v could-sign=%v) decision %+v", k.Name, k.Hide, could, d)
						}
						if !isListed[k.Name] && could && !k.Hide && !r.target.Hide {
							fail(t, name, c, q, "key %q not listed although visible and usable, decision %+v", k.Name, d)
						}
					}
					features++
				}
			case "/keys/", "/sign":
				if q.Endpoint == "/sign" && (q.Key == "" || q.NoFilename) {
					if got.Status != 400 || keyCalls(got.Calls) != 0 {
						fail(t, name, c, q, "missing parameter: status %d calls %v", got.Status, got.Calls)
					}
					done()
					continue
				}
				keyName := q.Key
				if q.Endpoint == "/keys/" && keyName == "" {
					keyName = "nosuchkey"
				}
				r := c.resolve(keyName)
				entitled := r.ok && (intersects(r.target.Roles, d.Roles) || contains(d.AllowedKeys, r.target.Name))
				if r.ok && contains(d.AllowedKeys, r.target.Name) {
					features++
				}
				if k := c.key(keyName); k != nil && k.Kind == "alias" {
					features++
				}
				if !entitled {
					if got.Status != 403 {
						fail(t, name, c, q, "not entitled (decision %+v): status %d, want 403", d, got.Status)
					}
					if keyCalls(got.Calls) != 0 {
						fail(t, name, c, q, "forbidden request touched a key: %v", got.Calls)
					}
				} else if q.Endpoint == "/sign" && (q.SigType != "ps" || q.Digest == "sha-999") {
					if got.Status != 400 || keyCalls(got.Calls) != 0 {
						fail(t, name, c, q, "bad sigtype/digest: status %d calls %v", got.Status, got.Calls)
					}
				} else if r.target.Kind == "badtoken" {
					if got.Status < 500 {
						fail(t, name, c, q, "undefined token: status %d", got.Status)
					}
				} else if len(r.target.Roles) == 0 && got.Status >= 500 {
					// a key without roles is reachable only through allowed_keys; relic does not
					// open tokens that no role can reach, so an error is acceptable (C04 only
					// forbids signing for the unentitled, it does not require success here)
					class += "/roleless-key-unserved"
				} else {
					if got.Status != 200 {
						fail(t, name, c, q, "entitled bearer (decision %+v) got status %d body %q", d, got.Status, got.Body)
					}
					if q.Endpoint == "/sign" {
						if len(got.Audit) != 1 || got.Audit[0]["client.sub"] != d.Sub || got.Audit[0]["sig.keyname"] != r.target.Name {
							fail(t, name, c, q, "audit %v does not name subject %q and key %q", got.Audit, d.Sub, r.target.Name)
						}
					}
				}
			}
			done()
		}
	})
}

func contains(l []string, s string) bool {
	for _, x := range l {
		if x == s {
			return true
		}
	}
	return false
}
