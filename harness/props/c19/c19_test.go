// C19 — XML signatures depend on canonical meaning, not on serialisation.
package c19

import (
	"bytes"
	"crypto"
	"crypto/sha1"
	"crypto/x509"
	"encoding/asn1"
	"encoding/base64"
	"encoding/binary"
	"encoding/hex"
	"fmt"
	"os"
	"path/filepath"
	"strconv"
	"strings"
	"testing"

	"github.com/beevik/etree"
	"pgregory.net/rapid"

	"github.com/sassoftware/relic/v8/lib/xmldsig"
	"github.com/sassoftware/relic/v8/xverif/arts"
	"github.com/sassoftware/relic/v8/xverif/evid"
	"github.com/sassoftware/relic/v8/xverif/keys"
	"github.com/sassoftware/relic/v8/xverif/known"
	"github.com/sassoftware/relic/v8/xverif/pipe"
	"github.com/sassoftware/relic/v8/xverif/xmlgen"
)

var (
	rec      = evid.New("C19")
	knownSet = known.Load("C19")
	java     *xmlgen.Java
	env      *pipe.Env
	workDir  string
)

const (
	kP521Width  = "C19:ecdsa-signature-value-not-fixed-width"
	kXmlnsEmpty = "C19:superfluous-empty-default-namespace-kept"
	kWhitespace = "C19:manifest-whitespace-charrefs-lost-on-output"
)

// sanitize replaces characters of the listed whitespace finding (excluded by construction).
func sanitize(n *xmlgen.Node) (changed bool) {
	for i := range n.Attrs {
		if strings.ContainsAny(n.Attrs[i].Value, "\t\n\r") {
			n.Attrs[i].Value = strings.NewReplacer("\t", " ", "\n", " ", "\r", " ").Replace(n.Attrs[i].Value)
			changed = true
		}
	}
	if n.Kind == xmlgen.Text && strings.Contains(n.Data, "\r") {
		n.Data = strings.ReplaceAll(n.Data, "\r", " ")
		changed = true
	}
	for _, c := range n.Children {
		if sanitize(c) {
			changed = true
		}
	}
	return changed
}

func TestMain(m *testing.M) {
	rec.Rule("cases = (a) grammar-generated manifests (default/prefixed namespaces declared at any ancestor, redundant/unused/shadowing/aliasing declarations, xmlns=\"\", namespaced and xml: attributes in any order with escapable characters, text with entities/CDATA/whitespace, comments, processing instructions, declaration prolog) x serialisation style x subtree: relic's SerializeCanonical vs the JDK's exclusive canonicaliser byte for byte; (b) generated manifests signed as application manifests (RSA/ECDSA keys, digests), then re-serialised with a canonical-meaning-preserving style (must still verify, in relic and in the JDK's XML-DSig validator) or given one meaning-changing edit (must fail); SignatureValue width and publicKeyToken / publisherIdentity vs independent computations; (c) VSIX package signatures validated by the JDK; non-trivial = document with >= 3 edge classes or a non-root subtree; distinct = sha256(document) + subtree/style/mutation")
	rec.Assume("JDK 17's Apache Santuario canonicalisers and javax.xml.crypto.dsig validator are the reference implementations")
	rec.Assume("publicKeyToken is compared with an independent computation for RSA keys only (the strong-name blob format is documented for RSA; the ECDSA variant is relic's own)")
	var err error
	workDir, err = os.MkdirTemp("", "c19-")
	if err != nil {
		panic(err)
	}
	jout := filepath.Join(workDir, "java")
	root := os.Getenv("VERIF_ROOT")
	if root == "" {
		root = "/verif"
	}
	if err := xmlgen.BuildJava(filepath.Join(root, "java"), jout); err != nil {
		fmt.Println("VERIF-INCONCLUSIVE: java build:", err)
		os.Exit(1)
	}
	java, err = xmlgen.StartJava(jout)
	if err != nil {
		fmt.Println("VERIF-INCONCLUSIVE: java start:", err)
		os.Exit(1)
	}
	env, err = pipe.Setup(workDir)
	if err != nil {
		panic(err)
	}
	code := m.Run()
	java.Close()
	rec.Flush()
	os.RemoveAll(workDir)
	os.Exit(code)
}

func navigate(root *etree.Element, path string) *etree.Element {
	cur := root
	for _, part := range strings.Split(strings.TrimPrefix(path, "path=/"), "/") {
		if part == "" {
			continue
		}
		i, _ := strconv.Atoi(part)
		cur = cur.ChildElements()[i]
	}
	return cur
}

func relicC14N(doc []byte, path string) ([]byte, error) {
	d := etree.NewDocument()
	if err := d.ReadFromBytes(doc); err != nil {
		return nil, fmt.Errorf("etree parse: %w", err)
	}
	return xmldsig.SerializeCanonical(navigate(d.Root(), path))
}

type failDesc struct {
	Doc     string   `json:"document"`
	Path    string   `json:"subtree,omitempty"`
	Classes []string `json:"classes"`
	Relic   string   `json:"relic,omitempty"`
	JDK     string   `json:"jdk,omitempty"`
	Error   string   `json:"error"`
}

func TestC19_Canonical(t *testing.T) {
	rapid.Check(t, func(t *rapid.T) {
		opts := xmlgen.AllOpts()
		if rapid.IntRange(0, 3).Draw(t, "core") == 0 {
			opts = xmlgen.CoreOpts()
		}
		d := xmlgen.GenDoc(t, opts)
		style := xmlgen.GenStyle(t)
		raw := d.Serialize(style)
		p := rapid.SampledFrom(d.Paths()).Draw(t, "path")
		want, err := java.C14N(xmlgen.AlgExc, p, raw)
		if err != nil {
			t.Skipf("reference canonicaliser refused the document: %v", err)
		}
		nt := len(d.Classes()) >= 3 || p != "path=/"
		rec.Case(fmt.Sprintf("c14n|%x|%s", sha1.Sum(raw), p), "c14n/"+strings.Join(d.Classes(), ","), nt)
		if nt {
			rec.Sample("c14n/"+fmt.Sprint(len(d.Classes())), map[string]any{"classes": d.Classes(), "subtree": p, "doc_len": len(raw)})
		}
		got, err := relicC14N(raw, p)
		if err != nil || !bytes.Equal(got, want) {
			evid.SaveCase("TestC19_Canonical", failDesc{Doc: string(raw), Path: p, Classes: d.Classes(), Relic: string(got), JDK: string(want), Error: fmt.Sprint(err)})
			t.Fatalf("canonical form differs from exclusive c14n (subtree %s, classes %v, err %v)\n doc:   %s\n relic: %s\n jdk:   %s", p, d.Classes(), err, raw, got, want)
		}
	})
}

// ---------- signed manifests ----------

// strongNameToken: independent computation of the .NET public key token of an RSA key
// (ECMA-335 II.6.2.1.3 + the PUBLICKEYBLOB layout): SHA-1 of the public key blob, last
// eight bytes reversed.
func strongNameToken(cert *x509.Certificate) (string, bool) {
	var spki struct {
		Alg asn1.RawValue
		Key asn1.BitString
	}
	if _, err := asn1.Unmarshal(cert.RawSubjectPublicKeyInfo, &spki); err != nil {
		return "", false
	}
	var rsaKey struct {
		N asn1.RawValue
		E int
	}
	if _, err := asn1.Unmarshal(spki.Key.Bytes, &rsaKey); err != nil {
		return "", false
	}
	n := rsaKey.N.Bytes
	for len(n) > 0 && n[0] == 0 {
		n = n[1:]
	}
	le := make([]byte, len(n))
	for i := range n {
		le[i] = n[len(n)-1-i]
	}
	var blob bytes.Buffer
	w := func(v any) { binary.Write(&blob, binary.LittleEndian, v) }
	w(uint32(0x2400))       // SigAlgID CALG_RSA_SIGN
	w(uint32(0x8004))       // HashAlgID CALG_SHA1
	w(uint32(20 + len(le))) // cbPublicKey
	w(uint8(6))             // PUBLICKEYBLOB
	w(uint8(2))             // version
	w(uint16(0))            // reserved
	w(uint32(0x2400))       // aiKeyAlg
	w(uint32(0x31415352))   // "RSA1"
	w(uint32(len(le) * 8))  // bitlen
	w(uint32(rsaKey.E))     // pubexp
	blob.Write(le)
	sum := sha1.Sum(blob.Bytes())
	tok := make([]byte, 8)
	for i := 0; i < 8; i++ {
		tok[i] = sum[19-i]
	}
	return hex.EncodeToString(tok), true
}

func issuerKeyHash(issuer *x509.Certificate) string {
	var spki struct {
		Alg asn1.RawValue
		Key asn1.BitString
	}
	asn1.Unmarshal(issuer.RawSubjectPublicKeyInfo, &spki)
	s := sha1.Sum(spki.Key.Bytes)
	return hex.EncodeToString(s[:])
}

var curveBytes = map[string]int{"p256a": 32, "p384a": 48, "p521a": 66}

var mcounter int

func TestC19_SignedManifest(t *testing.T) {
	rapid.Check(t, func(t *rapid.T) {
		const test = "TestC19_SignedManifest"
		opts := xmlgen.AllOpts()
		opts.OuterPI, opts.OuterComments = false, false
		d := xmlgen.GenDoc(t, opts)
		if knownSet.Has(kWhitespace) && sanitize(d.Root) {
			rec.Excluded(kWhitespace)
		}
		// application manifests carry a top-level assemblyIdentity
		d.Root.Children = append([]*xmlgen.Node{{Kind: xmlgen.Element, Local: "assemblyIdentity", Prefix: d.Root.Prefix,
			Attrs: []xmlgen.Attr{{Local: "name", Value: "verif.exe"}, {Local: "version", Value: "1.0.0.0"}, {Local: "publicKeyToken", Value: "0000000000000000"}, {Local: "language", Value: "neutral"}, {Local: "processorArchitecture", Value: "msil"}}}}, d.Root.Children...)
		if err := d.Check(); err != nil {
			t.Skipf("generator: %v", err)
		}
		raw := d.Serialize(xmlgen.GenStyle(t))
		key := rapid.SampledFrom(append(append([]string{}, pipe.SigningKeys...), pipe.ExtraKeys...)).Draw(t, "key")
		h := rapid.SampledFrom([]crypto.Hash{crypto.SHA1, crypto.SHA256, crypto.SHA384, crypto.SHA512}).Draw(t, "hash")
		mcounter++
		dir := filepath.Join(workDir, fmt.Sprintf("m%d", mcounter))
		os.Mkdir(dir, 0o755)
		defer os.RemoveAll(dir)
		p := filepath.Join(dir, "app.exe.manifest")
		os.WriteFile(p, raw, 0o644)
		classes := append([]string{key, h.String()}, d.Classes()...)
		failf := func(doc []byte, format string, args ...any) {
			msg := fmt.Sprintf(format, args...)
			evid.SaveCase(test, failDesc{Doc: string(doc), Classes: classes, Error: msg})
			t.Fatalf("%s [%v]\n doc: %s", msg, classes, clip(doc))
		}
		if err := env.SignLib(&pipe.Req{SigType: "appmanifest", In: p, Key: key, Hash: h, Flags: map[string]string{"rfc3161-timestamp": "false"}}); err != nil {
			failf(raw, "signing a well-formed manifest failed: %v", err)
		}
		signed, _ := os.ReadFile(p)
		if _, err := env.Verify(&pipe.VerifyReq{Path: p}); err != nil {
			failf(signed, "relic does not verify its own manifest signature: %v", err)
		}
		op := rapid.SampledFrom([]string{"restyle", "restyle", "mutate", "mutate-and-forge-signedinfo", "identity"}).Draw(t, "op")
		rec.Case(fmt.Sprintf("manifest|%x|%s|%s|%s", sha1.Sum(raw), key, h, op), "manifest/"+op+"/"+keys.Kind(key), true)
		rec.Sample("manifest/"+op, map[string]any{"op": op, "key": key, "digest": h.String(), "classes": d.Classes()})
		// JDK validates references and signature value; Microsoft's non-standard
		// "xmldsig#sha256/384/512" algorithm URIs (used on purpose for ClickOnce) are
		// unknown to it, so only SHA-1 signatures can be cross-validated there
		// (the key is given as the configured certificate: the JDK does not read the
		// RFC 4050 ECDSAKeyValue element relic writes)
		if ok, why, err := java.Verify(signed, env.Leaf[key].Raw); h == crypto.SHA1 && (err != nil || !ok) {
			failf(signed, "JDK XML-DSig validator rejects relic's primary manifest signature: ok=%v %s %v", ok, why, err)
		}
		sd, err := xmlgen.ParseDoc(signed)
		if err != nil {
			failf(signed, "harness cannot parse relic's output: %v", err)
		}
		switch op {
		case "identity":
			// SignatureValue width, publicKeyToken, publisherIdentity
			doc := etree.NewDocument()
			doc.ReadFromBytes(signed)
			for _, sv := range doc.FindElements("//SignatureValue") {
				b, err := base64.StdEncoding.DecodeString(strings.TrimSpace(sv.Text()))
				if err != nil {
					failf(signed, "SignatureValue is not base64")
				}
				want := 0
				if keys.Kind(key) == "rsa" {
					want = keys.Key(key).Public().(interface{ Size() int }).Size()
				} else {
					want = 2 * curveBytes[key]
				}
				if len(b) != want {
					// listed finding: r||s sized by the larger integer, not by the curve (every curve:
					// 1 in 4 signatures on P-521, about 1 in 65536 on the others)
					if keys.Kind(key) != "rsa" && len(b) < want && len(b)%2 == 0 && knownSet.Has(kP521Width) {
						rec.Excluded(kP521Width)
						continue
					}
					failf(signed, "SignatureValue is %d bytes, the fixed width for %s is %d", len(b), key, want)
				}
			}
			asi := doc.Root().SelectElement("assemblyIdentity")
			if tok, ok := strongNameToken(env.Leaf[key]); ok {
				if got := asi.SelectAttrValue("publicKeyToken", ""); got != tok {
					failf(signed, "publicKeyToken %q, independent computation gives %q", got, tok)
				}
			}
			pi := doc.Root().SelectElement("publisherIdentity")
			if pi == nil {
				failf(signed, "no publisherIdentity element")
			}
			if got, want := pi.SelectAttrValue("issuerKeyHash", ""), issuerKeyHash(env.Inter.Cert); got != want {
				failf(signed, "publisherIdentity issuerKeyHash %q, want SHA-1 of the issuer's public key %q", got, want)
			}
			if got := pi.SelectAttrValue("name", ""); !strings.Contains(got, "CN=verif signer "+key) {
				failf(signed, "publisherIdentity name %q does not name the signer", got)
			}
		case "restyle":
			st := xmlgen.GenStyle(t)
			st.TextComments = false
			re := sd.Serialize(st)
			os.WriteFile(p, re, 0o644)
			if _, err := env.Verify(&pipe.VerifyReq{Path: p}); err != nil {
				failf(re, "signature no longer verifies after a canonical-meaning-preserving re-serialisation (%s): %v", st, err)
			}
		case "mutate-and-forge-signedinfo":
			// a meaning-changing edit, plus a second SignedInfo (not covered by the signature
			// value) that carries the digest of the edited document
			md, label := sd.MutateExcluding(t, func(n *xmlgen.Node, uri string) bool {
				return n.Kind == xmlgen.Element && n.Local == "Signature" && uri == xmlgen.DSigNamespace
			})
			mut := md.Serialize(xmlgen.Style{})
			referenceDigest := func(doc []byte) (string, string) {
				x := etree.NewDocument()
				if x.ReadFromBytes(doc) != nil || x.Root() == nil {
					return "", ""
				}
				sig := x.Root().SelectElement("Signature")
				if sig == nil {
					return "", ""
				}
				stated := ""
				if dv := sig.FindElement("SignedInfo/Reference/DigestValue"); dv != nil {
					stated = strings.TrimSpace(dv.Text())
				}
				x.Root().RemoveChild(sig)
				canon, err := xmldsig.SerializeCanonical(x.Root())
				if err != nil {
					return "", ""
				}
				hh := h.New()
				hh.Write(canon)
				return base64.StdEncoding.EncodeToString(hh.Sum(nil)), stated
			}
			// control: the construction reproduces the genuine digest of the signed document
			if calc, stated := referenceDigest(signed); calc == "" || calc != stated {
				t.Skip("harness: cannot reproduce the reference digest of this manifest")
			}
			forged, _ := referenceDigest(mut)
			x := etree.NewDocument()
			if x.ReadFromBytes(mut) != nil || x.Root() == nil || x.Root().SelectElement("Signature") == nil {
				t.Skip("harness: mutated document lost its signature element")
			}
			sig := x.Root().SelectElement("Signature")
			si := sig.SelectElement("SignedInfo")
			extra := etree.NewElement("SignedInfo")
			extra.CreateElement("Reference").CreateElement("DigestValue").SetText(forged)
			sig.InsertChildAt(si.Index()+1, extra)
			out, _ := x.WriteToBytes()
			os.WriteFile(p, out, 0o644)
			if _, err := env.Verify(&pipe.VerifyReq{Path: p}); err == nil {
				failf(out, "signature verifies after a meaning-changing edit (%s) when a second, unsigned SignedInfo with the new digest is added", label)
			}
		case "mutate":
			md, label := sd.MutateExcluding(t, func(n *xmlgen.Node, uri string) bool {
				return n.Kind == xmlgen.Element && n.Local == "Signature" && uri == xmlgen.DSigNamespace
			})
			mut := md.Serialize(xmlgen.Style{})
			os.WriteFile(p, mut, 0o644)
			if _, err := env.Verify(&pipe.VerifyReq{Path: p}); err == nil {
				failf(mut, "signature still verifies after a meaning-changing edit (%s)", label)
			}
		}
	})
}

func clip(b []byte) string {
	if len(b) > 1500 {
		return string(b[:1500]) + "..."
	}
	return string(b)
}

// TestC19_VSIX: the OPC package signature relic writes is valid for the JDK.
func TestC19_VSIX(t *testing.T) {
	n := 0
	rapid.Check(t, func(t *rapid.T) {
		key := rapid.SampledFrom(pipe.SigningKeys).Draw(t, "key")
		h := rapid.SampledFrom([]crypto.Hash{crypto.SHA1, crypto.SHA256, crypto.SHA384, crypto.SHA512}).Draw(t, "hash")
		detach := rapid.Bool().Draw(t, "detachcerts")
		a := arts.Fixture("vsix", 0)
		n++
		dir := filepath.Join(workDir, fmt.Sprintf("v%d", n))
		os.Mkdir(dir, 0o755)
		defer os.RemoveAll(dir)
		p := filepath.Join(dir, a.Name)
		os.WriteFile(p, a.Data, 0o644)
		flags := map[string]string{}
		if detach {
			flags["detach-certs"] = "true"
		}
		if err := env.SignLib(&pipe.Req{SigType: "vsix", In: p, Key: key, Hash: h, Flags: flags}); err != nil {
			t.Fatalf("signing failed: %v", err)
		}
		signed, _ := os.ReadFile(p)
		sigxml, err := arts.ZipMember(signed, func(name string) bool {
			return strings.HasPrefix(name, "package/services/digital-signature/xml-signature/") && strings.HasSuffix(name, ".psdsxs")
		})
		if err != nil {
			t.Fatalf("no package signature part in relic's output: %v", err)
		}
		rec.Case(fmt.Sprintf("vsix|%s|%s|%v", key, h, detach), "vsix/"+keys.Kind(key), true)
		rec.Sample("vsix", map[string]any{"key": key, "digest": h.String(), "detach_certs": detach})
		ok, why, err := java.Verify(sigxml, env.Leaf[key].Raw)
		if err != nil || !ok {
			evid.SaveCase("TestC19_VSIX", failDesc{Doc: string(sigxml), Classes: []string{key, h.String()}, Error: fmt.Sprint(why, err)})
			t.Fatalf("JDK XML-DSig validator rejects relic's package signature (key %s, %s): ok=%v %s %v", key, h, ok, why, err)
		}
	})
}

// TestC19_KnownProbes re-checks the listed findings on minimal inputs.
func TestC19_KnownProbes(t *testing.T) {
	if knownSet.Has(kWhitespace) {
		dir := filepath.Join(workDir, "probe-ws")
		os.Mkdir(dir, 0o755)
		p := filepath.Join(dir, "app.exe.manifest")
		os.WriteFile(p, []byte(`<asmv1:assembly xmlns:asmv1="urn:schemas-microsoft-com:asm.v1" type="a&#13;&#10;b"><asmv1:assemblyIdentity name="x" version="1.0.0.0"/></asmv1:assembly>`), 0o644)
		if err := env.SignLib(&pipe.Req{SigType: "appmanifest", In: p, Key: "rsa2048a", Hash: crypto.SHA256}); err == nil {
			if _, err := env.Verify(&pipe.VerifyReq{Path: p}); err != nil {
				rec.KnownFinding(kWhitespace, "manifest with &#13;&#10; in an attribute value signs but does not verify: "+err.Error())
			}
		}
		os.RemoveAll(dir)
	}
	if knownSet.Has(kP521Width) {
		short := 0
		for i := 0; i < 24 && short == 0; i++ {
			dir := filepath.Join(workDir, fmt.Sprintf("probe-521-%d", i))
			os.Mkdir(dir, 0o755)
			p := filepath.Join(dir, "app.exe.manifest")
			os.WriteFile(p, []byte(`<asmv1:assembly xmlns:asmv1="urn:schemas-microsoft-com:asm.v1"><asmv1:assemblyIdentity name="x" version="1.0.0.0"/></asmv1:assembly>`), 0o644)
			if err := env.SignLib(&pipe.Req{SigType: "appmanifest", In: p, Key: "p521a", Hash: crypto.SHA256}); err == nil {
				blob, _ := os.ReadFile(p)
				doc := etree.NewDocument()
				doc.ReadFromBytes(blob)
				for _, sv := range doc.FindElements("//SignatureValue") {
					if b, err := base64.StdEncoding.DecodeString(strings.TrimSpace(sv.Text())); err == nil && len(b) != 132 {
						short = len(b)
					}
				}
			}
			os.RemoveAll(dir)
		}
		if short != 0 {
			rec.KnownFinding(kP521Width, fmt.Sprintf("P-521 SignatureValue of %d bytes (fixed width is 132)", short))
		}
	}
	rec.Case("known-probes", "known-probes", false)
}
