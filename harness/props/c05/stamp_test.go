package c05

// Where the time-stamp sits: an RFC 3161 token belongs where the ecosystem's verifier
// looks for it - the signature-time-stamp attribute id-aa-timeStampToken
// (1.2.840.113549.1.9.16.2.14) for JAR signature blocks (RFC 3161 appendix A, what
// jarsigner reads), Microsoft's 1.3.6.1.4.1.311.3.3.1 for Authenticode - and has to be a
// good token over that signature value.

import (
	"crypto"
	"fmt"
	"net/http/httptest"
	"os"
	"path/filepath"
	"strings"
	"sync"
	"testing"
	"time"

	"pgregory.net/rapid"

	"github.com/sassoftware/relic/v8/config"
	"github.com/sassoftware/relic/v8/xverif/arts"
	"github.com/sassoftware/relic/v8/xverif/cfb"
	"github.com/sassoftware/relic/v8/xverif/der"
	"github.com/sassoftware/relic/v8/xverif/keys"
	"github.com/sassoftware/relic/v8/xverif/pegen"
	"github.com/sassoftware/relic/v8/xverif/pipe"
	"github.com/sassoftware/relic/v8/xverif/tsa"
)

const (
	oidTimeStampToken  = "1.2.840.113549.1.9.16.2.14"
	oidMSTimeStamp     = "1.3.6.1.4.1.311.3.3.1"
	oidCounterSignatur = "1.2.840.113549.1.9.6"
)

var stampOnce sync.Once

func setupStamping() {
	stampOnce.Do(func() {
		a, err := tsa.NewAuthority(keys.Key("p256b"), env.Inter.Key, env.Inter.Cert, time.Now().Add(-time.Hour), "c05 tsa")
		if err != nil {
			panic(err)
		}
		a.IncludeCerts = true
		srv := httptest.NewServer(a.Handler(func(int, string) tsa.Behaviour { return tsa.Valid }))
		cfg := env.Cfg
		cfg.Timestamp = &config.TimestampConfig{URLs: []string{srv.URL}, Timeout: 60}
		for _, k := range pipe.SigningKeys {
			kc := *cfg.Keys[k]
			kc.Timestamp = true
			cfg.Keys[k+"-ts"] = &kc
			env.Leaf[k+"-ts"] = env.Leaf[k]
		}
		if err := env.Install(cfg); err != nil {
			panic(err)
		}
	})
}

func TestC05_TimestampPlacement(t *testing.T) {
	setupStamping()
	rapid.Check(t, func(t *rapid.T) {
		format := rapid.SampledFrom([]string{"jar", "jar", "pe", "msi", "ps"}).Draw(t, "format")
		key := rapid.SampledFrom(pipe.SigningKeys).Draw(t, "key")
		h := rapid.SampledFrom([]crypto.Hash{crypto.SHA256, crypto.SHA384, crypto.SHA512}).Draw(t, "hash")
		a := arts.Gen(t, format)
		counter++
		dir := filepath.Join(workDir, fmt.Sprintf("stamp%d", counter))
		os.Mkdir(dir, 0o755)
		defer os.RemoveAll(dir)
		p := filepath.Join(dir, a.Name)
		os.WriteFile(p, a.Data, 0o644)
		if err := env.SignLib(&pipe.Req{SigType: a.SigType, In: p, Key: key + "-ts", Hash: h}); err != nil {
			t.Skipf("signing failed (C01's subject): %v", err)
		}
		out, _ := os.ReadFile(p)
		cd := &caseDesc{Format: format, Classes: a.Classes, Key: key, Hash: h.String(), Tool: "der-walker: time-stamp attribute"}
		record(cd, a)
		var p7 []byte
		switch format {
		case "jar":
			p7, _, _ = arts.JARSignatureBlock(out)
		case "pe":
			if tbl, err := pegen.CertTable(out); err == nil {
				if ents, err := pegen.ParseCertTable(tbl); err == nil && len(ents) == 1 {
					p7 = ents[0].Data
				}
			}
		case "msi":
			if f, err := cfb.Parse(out); err == nil {
				for _, it := range f.Items() {
					if it.Path == cfb.SigStreamName {
						p7 = it.Data
					}
				}
			}
		case "ps":
			p7, _ = arts.PSSignatureBlock(out)
		}
		if p7 == nil {
			failf(t, cd, a, out, "no PKCS#7 signature found in relic's output")
		}
		if tlv, _, err := der.Parse(p7); err == nil {
			p7 = tlv.Raw
		}
		sd, err := der.ParseSignedData(p7)
		if err != nil || len(sd.SignerInfos) != 1 {
			failf(t, cd, a, out, "signature does not parse: %v", err)
		}
		want := oidMSTimeStamp
		if format == "jar" {
			want = oidTimeStampToken
		}
		var found []string
		ok := false
		for _, ua := range sd.SignerInfos[0].UnsignedAttrs {
			found = append(found, ua.OID)
			if ua.OID != want {
				continue
			}
			for _, v := range ua.Values {
				if _, err := der.VerifyToken(v.Raw, sd.SignerInfos[0].Signature, sd.Certificates); err != nil {
					failf(t, cd, a, out, "the token under %s is not a good time-stamp over this signature: %v", want, err)
				}
				ok = true
			}
		}
		if !ok {
			failf(t, cd, a, out, "no RFC 3161 token under %s, where the %s verifier looks for it (unsigned attributes: %s)", want, format, strings.Join(found, ", "))
		}
	})
}
