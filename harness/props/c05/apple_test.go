package c05

// Reference verification of the Apple formats, written from the published layouts (code
// signing blobs: Mach-O LC_CODE_SIGNATURE super blob, CodeDirectory page hashes and special
// slots, detached CMS over the CodeDirectory; xar: header, deflated table of contents,
// checksum / RSA signature / CMS x-signature in the heap). Nothing of relic is used: the
// image is walked by hand, hashes come from Go's crypto, the CMS from the harness DER walker.

import (
	"bytes"
	"compress/zlib"
	"crypto"
	"crypto/rsa"
	"crypto/x509"
	"encoding/base64"
	"encoding/binary"
	"encoding/xml"
	"fmt"
	"io"
	"os"
	"path/filepath"
	"strings"
	"testing"

	"pgregory.net/rapid"

	"github.com/sassoftware/relic/v8/xverif/arts"
	"github.com/sassoftware/relic/v8/xverif/der"
	"github.com/sassoftware/relic/v8/xverif/keys"
	"github.com/sassoftware/relic/v8/xverif/pipe"
)

func cdHash(t uint8) (crypto.Hash, int, error) {
	switch t {
	case 1:
		return crypto.SHA1, 20, nil
	case 2:
		return crypto.SHA256, 32, nil
	case 3:
		return crypto.SHA256, 20, nil
	case 4:
		return crypto.SHA384, 48, nil
	}
	return 0, 0, fmt.Errorf("unknown code directory hash type %d", t)
}

func hashOf(h crypto.Hash, b []byte) []byte { x := h.New(); x.Write(b); return x.Sum(nil) }

// machoReference checks a signed thin Mach-O image. aux holds the files bound through
// signer options (info-plist, resources); leaf is the expected signer.
func machoReference(data []byte, aux map[string][]byte, leaf *x509.Certificate) (summary string, err error) {
	le, be := binary.LittleEndian, binary.BigEndian
	if len(data) < 32 {
		return "", fmt.Errorf("short image")
	}
	hdr := 28
	switch le.Uint32(data) {
	case 0xfeedfacf:
		hdr = 32
	case 0xfeedface:
	default:
		return "", fmt.Errorf("not a thin little-endian Mach-O image")
	}
	ncmds, pos := int(le.Uint32(data[16:])), hdr
	var sigOff, sigSize uint32
	var linkeditEnd uint64
	for i := 0; i < ncmds && pos+8 <= len(data); i++ {
		cmd, l := le.Uint32(data[pos:]), int(le.Uint32(data[pos+4:]))
		if l < 8 || pos+l > len(data) {
			return "", fmt.Errorf("load command %d overruns the header", i)
		}
		switch cmd {
		case 0x1d:
			sigOff, sigSize = le.Uint32(data[pos+8:]), le.Uint32(data[pos+12:])
		case 0x19:
			if string(bytes.TrimRight(data[pos+8:pos+24], "\x00")) == "__LINKEDIT" {
				linkeditEnd = le.Uint64(data[pos+40:]) + le.Uint64(data[pos+48:])
			}
		case 0x1:
			if string(bytes.TrimRight(data[pos+8:pos+24], "\x00")) == "__LINKEDIT" {
				linkeditEnd = uint64(le.Uint32(data[pos+32:])) + uint64(le.Uint32(data[pos+36:]))
			}
		}
		pos += l
	}
	if sigSize == 0 {
		return "", fmt.Errorf("no LC_CODE_SIGNATURE")
	}
	if int(sigOff)+int(sigSize) > len(data) {
		return "", fmt.Errorf("code signature [%d,+%d) beyond the file (%d bytes)", sigOff, sigSize, len(data))
	}
	if linkeditEnd != uint64(sigOff)+uint64(sigSize) || linkeditEnd != uint64(len(data)) {
		return "", fmt.Errorf("__LINKEDIT ends at %d, the signature at %d, the file at %d", linkeditEnd, uint64(sigOff)+uint64(sigSize), len(data))
	}
	sb := data[sigOff : sigOff+sigSize]
	if len(sb) < 12 || be.Uint32(sb) != 0xfade0cc0 {
		return "", fmt.Errorf("signature is not an embedded-signature super blob")
	}
	sbLen, n := int(be.Uint32(sb[4:])), int(be.Uint32(sb[8:]))
	if sbLen > len(sb) || 12+8*n > sbLen {
		return "", fmt.Errorf("super blob length %d / count %d beyond the %d-byte signature area", sbLen, n, len(sb))
	}
	blobs := map[uint32][]byte{}
	var order []uint32
	for i := 0; i < n; i++ {
		typ, off := be.Uint32(sb[12+8*i:]), int(be.Uint32(sb[12+8*i+4:]))
		if off+8 > sbLen {
			return "", fmt.Errorf("blob %#x at %d beyond the super blob", typ, off)
		}
		bl := int(be.Uint32(sb[off+4:]))
		if bl < 8 || off+bl > sbLen {
			return "", fmt.Errorf("blob %#x length %d beyond the super blob", typ, bl)
		}
		blobs[typ] = sb[off : off+bl]
		order = append(order, typ)
	}
	primary := blobs[0]
	if primary == nil {
		return "", fmt.Errorf("no code directory in slot 0")
	}
	var sums []string
	for _, typ := range order {
		if typ != 0 && (typ < 0x1000 || typ > 0x1004) {
			continue
		}
		cd := blobs[typ]
		if len(cd) < 44 || be.Uint32(cd) != 0xfade0c02 {
			return "", fmt.Errorf("slot %#x is not a code directory", typ)
		}
		version, flags := be.Uint32(cd[8:]), be.Uint32(cd[12:])
		hashOff, identOff := int(be.Uint32(cd[16:])), int(be.Uint32(cd[20:]))
		nSpecial, nCode := int(be.Uint32(cd[24:])), int(be.Uint32(cd[28:]))
		codeLimit := uint64(be.Uint32(cd[32:]))
		hashSize, hashType, pageShift := int(cd[36]), cd[37], cd[39]
		if version >= 0x20300 && len(cd) >= 64 {
			if l64 := be.Uint64(cd[56:]); l64 != 0 {
				codeLimit = l64
			}
		}
		h, hs, err := cdHash(hashType)
		if err != nil {
			return "", err
		}
		if hs != hashSize {
			return "", fmt.Errorf("code directory %#x: hash size %d for hash type %d", typ, hashSize, hashType)
		}
		if codeLimit != uint64(sigOff) {
			return "", fmt.Errorf("code directory %#x: code limit %d, the signature starts at %d", typ, codeLimit, sigOff)
		}
		if identOff <= 0 || identOff >= len(cd) || bytes.IndexByte(cd[identOff:], 0) < 0 {
			return "", fmt.Errorf("code directory %#x: identifier offset %d", typ, identOff)
		}
		if hashOff-nSpecial*hashSize < 44 || hashOff+nCode*hashSize > len(cd) {
			return "", fmt.Errorf("code directory %#x: hash slots [%d,%d) outside the %d-byte blob", typ, hashOff-nSpecial*hashSize, hashOff+nCode*hashSize, len(cd))
		}
		page := uint64(1) << pageShift
		if pageShift == 0 {
			page = codeLimit
		}
		if want := int((codeLimit + page - 1) / page); want != nCode {
			return "", fmt.Errorf("code directory %#x: %d code slots for %d bytes in pages of %d (want %d)", typ, nCode, codeLimit, page, want)
		}
		for i := 0; i < nCode; i++ {
			end := uint64(i+1) * page
			if end > codeLimit {
				end = codeLimit
			}
			got := cd[hashOff+i*hashSize : hashOff+(i+1)*hashSize]
			if want := hashOf(h, data[uint64(i)*page:end])[:hashSize]; !bytes.Equal(got, want) {
				return "", fmt.Errorf("code directory %#x: page %d hash differs from the image", typ, i)
			}
		}
		special := func(slot int) []byte {
			if slot > nSpecial {
				return nil
			}
			return cd[hashOff-slot*hashSize : hashOff-(slot-1)*hashSize]
		}
		zero := make([]byte, hashSize)
		bound := map[int][]byte{2: blobs[2], 5: blobs[5], 7: blobs[7], 1: aux["info-plist"], 3: aux["resources"]}
		names := map[int]string{1: "Info.plist", 2: "requirements", 3: "CodeResources", 5: "entitlements", 7: "DER entitlements"}
		for slot, content := range bound {
			got := special(slot)
			if content == nil {
				if got != nil && !bytes.Equal(got, zero) && (slot == 2 || slot == 5 || slot == 7) {
					return "", fmt.Errorf("code directory %#x: slot %d (%s) is filled but the signature carries no such blob", typ, slot, names[slot])
				}
				continue
			}
			if got == nil || !bytes.Equal(got, hashOf(h, content)[:hashSize]) {
				return "", fmt.Errorf("code directory %#x: special slot %d does not hold the hash of the %s", typ, slot, names[slot])
			}
		}
		sums = append(sums, fmt.Sprintf("cd%#x:v%#x:flags%#x:%dpages:%dspecial", typ, version, flags, nCode, nSpecial))
	}
	wrapper := blobs[0x10000]
	if wrapper == nil || be.Uint32(wrapper) != 0xfade0b01 || len(wrapper) <= 8 {
		return "", fmt.Errorf("no CMS signature blob (ad-hoc signature)")
	}
	sd, err := der.ParseSignedData(wrapper[8:])
	if err != nil {
		return "", fmt.Errorf("CMS signature does not parse: %v", err)
	}
	if len(sd.SignerInfos) != 1 {
		return "", fmt.Errorf("%d signer infos", len(sd.SignerInfos))
	}
	if err := sd.VerifySigner(&sd.SignerInfos[0], primary); err != nil {
		return "", fmt.Errorf("CMS signature over the code directory: %v", err)
	}
	signer, err := sd.FindCert(&sd.SignerInfos[0])
	if err != nil || !bytes.Equal(signer.Raw, leaf.Raw) {
		return "", fmt.Errorf("CMS signer is not the configured certificate (%v)", err)
	}
	return strings.Join(sums, ","), nil
}

type xarSig struct {
	Style  string   `xml:"style,attr"`
	Offset int64    `xml:"offset"`
	Size   int64    `xml:"size"`
	Certs  []string `xml:"KeyInfo>X509Data>X509Certificate"`
}

type xarTOC struct {
	Checksum   xarSig  `xml:"toc>checksum"`
	Signature  *xarSig `xml:"toc>signature"`
	XSignature *xarSig `xml:"toc>x-signature"`
}

// xarReference checks the table-of-contents checksum and both signatures of a xar archive.
func xarReference(data []byte, leaf *x509.Certificate) (string, error) {
	be := binary.BigEndian
	if len(data) < 28 || string(data[:4]) != "xar!" {
		return "", fmt.Errorf("not a xar archive")
	}
	hs, tl := int(be.Uint16(data[4:])), int(be.Uint64(data[8:]))
	if hs < 28 || hs+tl > len(data) {
		return "", fmt.Errorf("header %d + toc %d beyond the file", hs, tl)
	}
	ztoc := data[hs : hs+tl]
	zr, err := zlib.NewReader(bytes.NewReader(ztoc))
	if err != nil {
		return "", err
	}
	toc, err := io.ReadAll(zr)
	if err != nil {
		return "", fmt.Errorf("table of contents does not inflate: %v", err)
	}
	if uint64(len(toc)) != be.Uint64(data[16:]) {
		return "", fmt.Errorf("table of contents inflates to %d bytes, the header says %d", len(toc), be.Uint64(data[16:]))
	}
	var x xarTOC
	if err := xml.Unmarshal(toc, &x); err != nil {
		return "", fmt.Errorf("table of contents: %v", err)
	}
	heap := data[hs+tl:]
	cut := func(what string, s *xarSig) ([]byte, error) {
		if s.Offset < 0 || s.Size <= 0 || s.Offset+s.Size > int64(len(heap)) {
			return nil, fmt.Errorf("%s [%d,+%d) outside the %d-byte heap", what, s.Offset, s.Size, len(heap))
		}
		return heap[s.Offset : s.Offset+s.Size], nil
	}
	var h crypto.Hash
	switch strings.ToLower(x.Checksum.Style) {
	case "sha1":
		h = crypto.SHA1
	case "sha256":
		h = crypto.SHA256
	case "sha512":
		h = crypto.SHA512
	default:
		return "", fmt.Errorf("checksum style %q", x.Checksum.Style)
	}
	// header checksum algorithm. xar 1.5: 1 = sha1, 2 = md5, 3 = "other", named after the
	// 28-byte header; Apple's xar: 3 = sha256, 4 = sha512 with a plain 28-byte header
	alg, want := be.Uint32(data[24:]), ""
	switch {
	case alg == 1:
		want = "sha1"
	case alg == 3 && hs > 28:
		want = strings.ToLower(strings.TrimRight(string(data[28:hs]), "\x00"))
	case alg == 3:
		want = "sha256"
	case alg == 4:
		want = "sha512"
	default:
		return "", fmt.Errorf("header checksum algorithm %d", alg)
	}
	if want != strings.ToLower(x.Checksum.Style) {
		return "", fmt.Errorf("header says checksum %s, the table of contents %q", want, x.Checksum.Style)
	}
	sum, err := cut("checksum", &x.Checksum)
	if err != nil {
		return "", err
	}
	if !bytes.Equal(sum, hashOf(h, ztoc)) {
		return "", fmt.Errorf("stored checksum is not the %s of the compressed table of contents", x.Checksum.Style)
	}
	first := func(s *xarSig) (*x509.Certificate, error) {
		if len(s.Certs) == 0 {
			return nil, fmt.Errorf("no certificate in KeyInfo")
		}
		raw, err := base64.StdEncoding.DecodeString(strings.Join(strings.Fields(s.Certs[0]), ""))
		if err != nil {
			return nil, err
		}
		return x509.ParseCertificate(raw)
	}
	out := "checksum:" + x.Checksum.Style
	if x.Signature != nil {
		if x.Signature.Style != "RSA" {
			return "", fmt.Errorf("signature style %q", x.Signature.Style)
		}
		sig, err := cut("signature", x.Signature)
		if err != nil {
			return "", err
		}
		c, err := first(x.Signature)
		if err != nil || !bytes.Equal(c.Raw, leaf.Raw) {
			return "", fmt.Errorf("classic signature names another certificate than the configured one (%v)", err)
		}
		pub, ok := c.PublicKey.(*rsa.PublicKey)
		if !ok {
			return "", fmt.Errorf("RSA signature under a %T key", c.PublicKey)
		}
		if err := rsa.VerifyPKCS1v15(pub, h, sum, sig); err != nil {
			return "", fmt.Errorf("classic RSA signature over the checksum: %v", err)
		}
		out += ",rsa"
	} else if _, isRSA := leaf.PublicKey.(*rsa.PublicKey); isRSA {
		return "", fmt.Errorf("no classic signature although the key is RSA")
	}
	if x.XSignature == nil {
		return "", fmt.Errorf("no CMS x-signature")
	}
	blob, err := cut("x-signature", x.XSignature)
	if err != nil {
		return "", err
	}
	tlv, _, err := der.Parse(blob)
	if err != nil {
		return "", fmt.Errorf("x-signature is not DER: %v", err)
	}
	sd, err := der.ParseSignedData(tlv.Raw)
	if err != nil {
		return "", fmt.Errorf("x-signature CMS: %v", err)
	}
	if len(sd.SignerInfos) != 1 {
		return "", fmt.Errorf("%d signer infos", len(sd.SignerInfos))
	}
	if err := sd.VerifySigner(&sd.SignerInfos[0], sum); err != nil {
		return "", fmt.Errorf("CMS signature over the checksum: %v", err)
	}
	signer, err := sd.FindCert(&sd.SignerInfos[0])
	if err != nil || !bytes.Equal(signer.Raw, leaf.Raw) {
		return "", fmt.Errorf("CMS signer is not the configured certificate (%v)", err)
	}
	return out + ",cms", nil
}

func TestC05_Apple(t *testing.T) {
	auxDir := filepath.Join(workDir, "apple-aux")
	os.MkdirAll(auxDir, 0o755)
	auxFiles := map[string][]byte{
		"info-plist":   []byte("<?xml version=\"1.0\"?><plist version=\"1.0\"><dict><key>CFBundleIdentifier</key><string>com.example.verif</string></dict></plist>\n"),
		"resources":    []byte("<?xml version=\"1.0\"?><plist version=\"1.0\"><dict><key>files</key><dict/></dict></plist>\n"),
		"entitlements": []byte("<?xml version=\"1.0\"?><plist version=\"1.0\"><dict><key>com.apple.security.app-sandbox</key><true/></dict></plist>\n"),
	}
	for n, b := range auxFiles {
		os.WriteFile(filepath.Join(auxDir, n), b, 0o644)
	}
	rapid.Check(t, func(t *rapid.T) {
		format := rapid.SampledFrom([]string{"macho", "macho", "pkg"}).Draw(t, "format")
		flags := map[string]string{}
		aux := map[string][]byte{}
		hashes := []crypto.Hash{crypto.SHA256}
		if format == "macho" {
			hashes = []crypto.Hash{crypto.SHA256, crypto.SHA1}
			for _, n := range []string{"info-plist", "resources", "entitlements"} {
				if rapid.IntRange(0, 2).Draw(t, "aux_"+n) == 0 {
					flags[n] = filepath.Join(auxDir, n)
					aux[n] = auxFiles[n]
				}
			}
			switch rapid.IntRange(0, 2).Draw(t, "hardened") {
			case 1:
				flags["hardened-runtime"] = "false"
			case 2:
				flags["hardened-runtime"] = "true"
			}
			if rapid.Bool().Draw(t, "bundle_id") {
				flags["bundle-id"] = "com.example.verif"
			}
		} else {
			hashes = []crypto.Hash{crypto.SHA256, crypto.SHA1, crypto.SHA512}
		}
		a, _, _, key, h, out, cleanup := signed(t, format, pipe.SigningKeys, hashes, flags)
		defer cleanup()
		cd := &caseDesc{Format: format, Classes: a.Classes, Key: key, Hash: h.String(), Flags: flags, Tool: "reference-walk+der-walker"}
		record(cd, a)
		var err error
		if format == "macho" {
			_, err = machoReference(out, aux, env.Leaf[key])
		} else {
			_, err = xarReference(out, env.Leaf[key])
		}
		if err != nil {
			failf(t, cd, a, out, "reference verification of relic's %s signature fails: %v", format, err)
		}
	})
}

var _ = keys.Kind
var _ = arts.SHA
