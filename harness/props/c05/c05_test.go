// C05 — signatures are accepted by each ecosystem's reference verifier.
package c05

import (
	"bytes"
	"crypto"
	"encoding/binary"
	"fmt"
	"os"
	"os/exec"
	"path/filepath"
	"strings"
	"testing"

	"pgregory.net/rapid"

	"github.com/sassoftware/relic/v8/xverif/apkref"
	"github.com/sassoftware/relic/v8/xverif/arts"
	"github.com/sassoftware/relic/v8/xverif/cabref"
	"github.com/sassoftware/relic/v8/xverif/cfb"
	"github.com/sassoftware/relic/v8/xverif/der"
	"github.com/sassoftware/relic/v8/xverif/evid"
	"github.com/sassoftware/relic/v8/xverif/keys"
	"github.com/sassoftware/relic/v8/xverif/known"
	"github.com/sassoftware/relic/v8/xverif/pegen"
	"github.com/sassoftware/relic/v8/xverif/pipe"
	"github.com/sassoftware/relic/v8/xverif/xmlgen"
)

var (
	rec        = evid.New("C05")
	knownSet   = known.Load("C05")
	env        *pipe.Env
	workDir    string
	truststore string
	caBundle   string
	gpgHome    string
)

func TestMain(m *testing.M) {
	rec.Rule("cases = relic-signed artefacts (generated inputs where a generator exists; drawn key and digest) checked by code that shares nothing with relic: jarsigner -verify -strict (JAR), openssl cms -verify on the JAR signature block over the .SF file, gpgv (PGP detached/clearsign/inline, DEB role members, RPM header and header+payload signatures), dpkg-deb, md5sum/sha1sum of DEB members against the signed list, and reference computations from the specifications compared with the digest embedded in the signature: Authenticode PE image hash and page hashes, PE checksum, APK Signature Scheme v2 chunked digest (members around the 1 MiB chunk size), MSI stream-order digest; Authenticode SignedData verified by an independent DER walker + Go crypto; Mach-O code signatures (page hashes, special slots, CMS over the CodeDirectory) and xar checksum / RSA / CMS signatures re-verified by a hand-written walk of the formats; RFC 3161 tokens sit under the attribute the ecosystem reads (id-aa-timeStampToken for JAR, the Microsoft attribute for Authenticode) and are good over the signature value; VSIX packages with generated part names (', >, &, ;, %, non-ASCII) validated by the JDK; non-trivial = generated input with >= 2 layout classes or a non-default key/digest; distinct = (format, input sha256, key, digest, tool)")
	rec.Assume("Windows, macOS and Android platform verifiers are not available offline; their acceptance is approximated by specification-derived reference computations")
	rec.Assume("the page-hash reference has documented uncertainties (first-page padding, terminator offset for section-less images); those shapes are compared but a disagreement confined to them is reported as such")
	var err error
	workDir, err = os.MkdirTemp("", "c05-")
	if err != nil {
		panic(err)
	}
	arts.ExcludePEFewDirs, arts.ExcludeJAREdgeSpace, arts.JARForJDK = true, true, true
	env, err = pipe.Setup(workDir)
	if err != nil {
		panic(err)
	}
	// trust material for the external tools
	truststore = filepath.Join(workDir, "trust.p12")
	if out, err := exec.Command("keytool", "-importcert", "-noprompt", "-alias", "verifroot", "-file", env.RootPEM, "-keystore", truststore, "-storetype", "PKCS12", "-storepass", "changeit").CombinedOutput(); err != nil {
		fmt.Printf("VERIF-INCONCLUSIVE: keytool: %v %s\n", err, out)
		os.Exit(1)
	}
	caBundle = filepath.Join(workDir, "ca-bundle.pem")
	os.WriteFile(caBundle, keys.CertPEM(env.Root.Cert, env.Inter.Cert), 0o644)
	gpgHome = filepath.Join(workDir, "gnupg")
	os.Mkdir(gpgHome, 0o700)
	code := m.Run()
	rec.Flush()
	os.RemoveAll(workDir)
	os.Exit(code)
}

func run(name string, args ...string) (string, error) {
	cmd := exec.Command(name, args...)
	cmd.Env = append(os.Environ(), "GNUPGHOME="+gpgHome, "LC_ALL=C")
	out, err := cmd.CombinedOutput()
	return string(out), err
}

func gpgv(key string, args ...string) (string, error) {
	kr := filepath.Join(env.Dir, key+".pgp")
	return run("gpgv", append([]string{"--keyring", kr}, args...)...)
}

type caseDesc struct {
	Format  string            `json:"format"`
	Classes []string          `json:"input_classes"`
	Key     string            `json:"key"`
	Hash    string            `json:"digest"`
	Flags   map[string]string `json:"flags,omitempty"`
	Tool    string            `json:"reference"`
	Error   string            `json:"error,omitempty"`
}

var counter int

func signed(t *rapid.T, format string, keysFrom []string, hashes []crypto.Hash, flags map[string]string) (a *arts.Artifact, path, dir, key string, h crypto.Hash, out []byte, cleanup func()) {
	a = arts.Gen(t, format)
	key = rapid.SampledFrom(keysFrom).Draw(t, "key")
	h = rapid.SampledFrom(hashes).Draw(t, "hash")
	counter++
	dir = filepath.Join(workDir, fmt.Sprintf("case%d", counter))
	os.Mkdir(dir, 0o755)
	cleanup = func() { os.RemoveAll(dir) }
	path = filepath.Join(dir, a.Name)
	os.WriteFile(path, a.Data, 0o644)
	if err := env.SignLib(&pipe.Req{SigType: a.SigType, In: path, Key: key, Hash: h, Flags: flags}); err != nil {
		cleanup()
		t.Skipf("signing failed (C01's subject): %v", err)
	}
	out, _ = os.ReadFile(path)
	return
}

var allHashes = []crypto.Hash{crypto.SHA1, crypto.SHA256, crypto.SHA384, crypto.SHA512}
var pgpKeys = []string{"rsa2048a", "rsa3072"}

func record(cd *caseDesc, a *arts.Artifact) {
	nt := (a.Generated && len(a.Classes) >= 2) || cd.Key != "rsa2048a" || cd.Hash != "SHA-256"
	rec.Case(fmt.Sprintf("%s|%s|%s|%s|%v|%s", cd.Format, arts.SHA(a.Data), cd.Key, cd.Hash, cd.Flags, cd.Tool), cd.Format+"/"+cd.Tool, nt)
	if nt {
		rec.Sample(cd.Format+"/"+cd.Tool, cd)
	}
}

func failf(t *rapid.T, cd *caseDesc, a *arts.Artifact, signedBytes []byte, format string, args ...any) {
	cd.Error = fmt.Sprintf(format, args...)
	evid.SaveCase("TestC05_"+cd.Format, cd)
	if d := os.Getenv("VERIF_REPLAY_OUT"); d != "" {
		os.WriteFile(filepath.Join(d, "TestC05_"+cd.Format+".input-"+a.Name), a.Data, 0o644)
		os.WriteFile(filepath.Join(d, "TestC05_"+cd.Format+".signed-"+a.Name), signedBytes, 0o644)
	}
	t.Fatalf("%s\n case: %+v", cd.Error, *cd)
}

func TestC05_PE(t *testing.T) {
	rapid.Check(t, func(t *rapid.T) {
		flags := map[string]string{}
		if rapid.IntRange(0, 2).Draw(t, "pagehashes") == 0 {
			flags["page-hashes"] = "true"
		}
		hs := allHashes
		if flags["page-hashes"] != "" {
			hs = []crypto.Hash{crypto.SHA1, crypto.SHA256}
		}
		a, _, _, key, h, out, cleanup := signed(t, "pe", pipe.SigningKeys, hs, flags)
		defer cleanup()
		cd := &caseDesc{Format: "pe", Classes: a.Classes, Key: key, Hash: h.String(), Flags: flags, Tool: "authenticode-reference"}
		record(cd, a)
		tbl, err := pegen.CertTable(out)
		if err != nil {
			failf(t, cd, a, out, "no certificate table: %v", err)
		}
		ents, err := pegen.ParseCertTable(tbl)
		if err != nil || len(ents) != 1 {
			failf(t, cd, a, out, "certificate table: %d entries %v", len(ents), err)
		}
		if ents[0].Revision != 0x0200 || ents[0].CertificateType != 0x0002 {
			failf(t, cd, a, out, "WIN_CERTIFICATE revision %#x type %#x, want 0x0200/0x0002", ents[0].Revision, ents[0].CertificateType)
		}
		in, _ := pegen.Parse(out)
		if in.CertTableOff%8 != 0 {
			failf(t, cd, a, out, "certificate table at %#x is not 8-byte aligned", in.CertTableOff)
		}
		if int(in.CertTableOff)+int(in.CertTableSize) != len(out) {
			failf(t, cd, a, out, "certificate table does not end at end of file")
		}
		p7 := ents[0].Data
		if tlv, _, e := der.Parse(p7); e == nil {
			p7 = tlv.Raw
		}
		sd, err := der.ParseSignedData(p7)
		if err != nil {
			failf(t, cd, a, out, "Authenticode PKCS#7 unparsable: %v", err)
		}
		if sd.EContentType != der.OIDSpcIndirectData {
			failf(t, cd, a, out, "content type %s is not SpcIndirectDataContent", sd.EContentType)
		}
		if err := sd.VerifySigner(&sd.SignerInfos[0], nil); err != nil {
			failf(t, cd, a, out, "independent verification of the Authenticode SignedData failed: %v", err)
		}
		alg, digest, err := der.SpcIndirectDigest(sd.EContentValueBytes)
		if err != nil {
			failf(t, cd, a, out, "SpcIndirectDataContent: %v", err)
		}
		if want, _ := der.OIDByHash(h); alg != want {
			failf(t, cd, a, out, "image digest algorithm %s, requested %s", alg, want)
		}
		ref, err := pegen.AuthenticodeDigest(out, h)
		if err != nil {
			t.Skipf("reference abstains: %v", err)
		}
		if !bytes.Equal(ref, digest) {
			failf(t, cd, a, out, "embedded Authenticode image hash %x differs from the specification-derived reference %x", digest, ref)
		}
		// PE checksum
		if in.StoredChecksum != pegen.Checksum(out) {
			failf(t, cd, a, out, "PE checksum field %#x, reference checksum of the signed file %#x", in.StoredChecksum, pegen.Checksum(out))
		}
		// page hashes
		if flags["page-hashes"] != "" {
			refPH, err := pegen.PageHashes(out, h)
			if err == nil {
				hasNoData := false
				for _, c := range a.Classes {
					if c == "nosections" || c == "nodata" || c == "ia64" {
						hasNoData = true
					}
				}
				if !bytes.Contains(sd.EContentValueBytes, refPH) {
					if hasNoData {
						rec.Add("pagehash_disagreements_in_uncertain_shapes", 1)
					} else {
						failf(t, cd, a, out, "reference page-hash table (%d bytes) is not contained in the signed SpcIndirectDataContent", len(refPH))
					}
				}
			}
		}
	})
}

func TestC05_MSI(t *testing.T) {
	rapid.Check(t, func(t *rapid.T) {
		flags := map[string]string{}
		ext := true
		if rapid.Bool().Draw(t, "noext") {
			flags["no-extended-sig"] = "true"
			ext = false
		}
		a, _, _, key, h, out, cleanup := signed(t, "msi", pipe.SigningKeys, allHashes, flags)
		defer cleanup()
		cd := &caseDesc{Format: "msi", Classes: a.Classes, Key: key, Hash: h.String(), Flags: flags, Tool: "msi-digest-reference"}
		record(cd, a)
		f, err := cfb.Parse(out)
		if err != nil {
			failf(t, cd, a, out, "signed MSI unreadable: %v", err)
		}
		var p7, exsig []byte
		for _, it := range f.Items() {
			switch it.Path {
			case cfb.SigStreamName:
				p7 = it.Data
			case cfb.SigExStreamName:
				exsig = it.Data
			}
		}
		if p7 == nil {
			failf(t, cd, a, out, "no signature stream")
		}
		if ext != (exsig != nil) {
			failf(t, cd, a, out, "MsiDigitalSignatureEx stream present=%v, extended signature requested=%v", exsig != nil, ext)
		}
		sd, err := der.ParseSignedData(p7)
		if err != nil {
			failf(t, cd, a, out, "PKCS#7 unparsable: %v", err)
		}
		if err := sd.VerifySigner(&sd.SignerInfos[0], nil); err != nil {
			failf(t, cd, a, out, "independent verification failed: %v", err)
		}
		_, digest, err := der.SpcIndirectDigest(sd.EContentValueBytes)
		if err != nil {
			failf(t, cd, a, out, "SpcIndirectDataContent: %v", err)
		}
		var ref []byte
		if ext {
			var pre []byte
			ref, pre = cfb.MSIDigestEx(f, h)
			if !bytes.Equal(pre, exsig) {
				failf(t, cd, a, out, "MsiDigitalSignatureEx stream %x differs from the reference pre-hash %x", exsig, pre)
			}
		} else {
			ref = cfb.MSIDigest(f, h)
		}
		if !bytes.Equal(ref, digest) {
			failf(t, cd, a, out, "embedded MSI digest %x differs from the reference (stream-order) digest %x", digest, ref)
		}
	})
}

// TestC05_CAB: the digest in a signed cabinet's SpcIndirectDataContent equals the
// reference cabinet image hash; the cabinet stays readable for an independent reader.
func TestC05_CAB(t *testing.T) {
	rapid.Check(t, func(t *rapid.T) {
		a, _, _, key, h, out, cleanup := signed(t, "cab", pipe.SigningKeys, allHashes, nil)
		defer cleanup()
		cd := &caseDesc{Format: "cab", Classes: a.Classes, Key: key, Hash: h.String(), Tool: "cab-digest-reference"}
		record(cd, a)
		c, err := cabref.Parse(out)
		if err != nil {
			failf(t, cd, a, out, "signed cabinet unreadable: %v", err)
		}
		if len(c.Trailer) == 0 {
			failf(t, cd, a, out, "no signature after the cabinet")
		}
		// the signature is padded to a multiple of 8 bytes
		tlv, pad, err := der.Parse(c.Trailer)
		if err != nil {
			failf(t, cd, a, out, "signature is not DER: %v", err)
		}
		if len(pad) >= 8 || len(bytes.Trim(pad, "\x00")) != 0 {
			failf(t, cd, a, out, "%d bytes of non-padding after the signature", len(pad))
		}
		sd, err := der.ParseSignedData(tlv.Raw)
		if err != nil {
			failf(t, cd, a, out, "PKCS#7 unparsable: %v", err)
		}
		if err := sd.VerifySigner(&sd.SignerInfos[0], nil); err != nil {
			failf(t, cd, a, out, "independent verification failed: %v", err)
		}
		_, digest, err := der.SpcIndirectDigest(sd.EContentValueBytes)
		if err != nil {
			failf(t, cd, a, out, "SpcIndirectDataContent: %v", err)
		}
		ref, err := cabref.AuthenticodeDigest(out, h.New())
		if err != nil {
			failf(t, cd, a, out, "reference digest: %v", err)
		}
		if !bytes.Equal(ref, digest) {
			failf(t, cd, a, out, "embedded cabinet digest %x differs from the reference header+data digest %x", digest, ref)
		}
	})
}

func TestC05_APK(t *testing.T) {
	rapid.Check(t, func(t *rapid.T) {
		a, _, _, key, h, out, cleanup := signed(t, "apk", pipe.SigningKeys, []crypto.Hash{crypto.SHA256, crypto.SHA512}, nil)
		defer cleanup()
		cd := &caseDesc{Format: "apk", Classes: a.Classes, Key: key, Hash: h.String(), Tool: "apk-v2-reference"}
		record(cd, a)
		info, err := apkref.Parse(out)
		if err != nil {
			failf(t, cd, a, out, "reference parser: %v", err)
		}
		if len(info.Digests) == 0 {
			failf(t, cd, a, out, "no digests in the v2 signed data")
		}
		for _, d := range info.Digests {
			dh, err := apkref.HashFor(d.AlgID)
			if err != nil {
				failf(t, cd, a, out, "%v", err)
			}
			if dh != h {
				failf(t, cd, a, out, "v2 digest algorithm %v (id %#x), requested %v", dh, d.AlgID, h)
			}
			if ref := apkref.ContentDigest(out, info, dh); !bytes.Equal(ref, d.Value) {
				failf(t, cd, a, out, "embedded v2 digest %x differs from the scheme's reference computation %x", d.Value, ref)
			}
			wantRSA := keys.Kind(key) == "rsa"
			isRSA := d.AlgID>>8 == 0x01
			if wantRSA != isRSA {
				failf(t, cd, a, out, "signature algorithm id %#x does not fit a %s key", d.AlgID, keys.Kind(key))
			}
		}
		if len(info.Certificates) == 0 || !bytes.Equal(info.Certificates[0], env.Leaf[key].Raw) {
			failf(t, cd, a, out, "first v2 certificate is not the configured leaf")
		}
		// the archive must still be a well-formed ZIP whose end record points at the directory
		if binary.LittleEndian.Uint32(out[info.CDOffset:]) != 0x02014b50 {
			failf(t, cd, a, out, "central directory offset does not point at a directory entry")
		}
	})
}

func TestC05_JAR(t *testing.T) {
	rapid.Check(t, func(t *rapid.T) {
		flags := map[string]string{}
		if rapid.Bool().Draw(t, "sectionsonly") {
			flags["sections-only"] = "true"
		}
		if rapid.Bool().Draw(t, "inline") {
			flags["inline-signature"] = "true"
		}
		a, path, dir, key, h, out, cleanup := signed(t, "jar", pipe.SigningKeys, []crypto.Hash{crypto.SHA1, crypto.SHA256, crypto.SHA384, crypto.SHA512}, flags)
		defer cleanup()
		cd := &caseDesc{Format: "jar", Classes: a.Classes, Key: key, Hash: h.String(), Flags: flags, Tool: "jarsigner"}
		record(cd, a)
		// JDK: SHA-1 signatures are disabled by the default security policy (treated as unsigned)
		outText, err := run("jarsigner", "-verify", "-strict", "-keystore", truststore, "-storepass", "changeit", "-storetype", "PKCS12", path)
		verified := strings.Contains(outText, "jar verified")
		if h == crypto.SHA1 {
			rec.Add("jarsigner_sha1_policy_cases", 1)
		} else if !verified || (err != nil && !strings.Contains(outText, "jar verified")) {
			// java's zip reader refuses some legal archives (non-UTF-8 names without the flag): not relic's doing
			if os.Getenv("VERIF_C05_DEBUG") != "" {
				fmt.Println("JDK:", strings.TrimSpace(outText), a.Classes)
			}
			if strings.Contains(outText, "malformed") || strings.Contains(outText, "MALFORMED") || strings.Contains(outText, "invalid CEN") || strings.Contains(outText, "only DEFLATED entries can have EXT descriptor") || strings.Contains(outText, "ZipException") {
				rec.Add("jdk_zip_reader_refused_input", 1)
			} else {
				failf(t, cd, a, out, "jarsigner -verify -strict does not accept relic's JAR: %s", strings.TrimSpace(outText))
			}
		}
		// OpenSSL: the signature block is a CMS signature over the .SF file
		block, sf, err := arts.JARSignatureBlock(out)
		if err != nil {
			failf(t, cd, a, out, "signature block: %v", err)
		}
		bp, sp := filepath.Join(dir, "block.der"), filepath.Join(dir, "sig.sf")
		os.WriteFile(bp, block, 0o644)
		os.WriteFile(sp, sf, 0o644)
		args := []string{"cms", "-verify", "-binary", "-inform", "DER", "-in", bp, "-CAfile", caBundle, "-purpose", "any", "-out", filepath.Join(dir, "cms.out")}
		if flags["inline-signature"] == "" {
			args = append(args, "-content", sp)
		}
		if o, err := run("openssl", args...); err != nil {
			failf(t, cd, a, out, "openssl cms -verify rejects the JAR signature block: %s", strings.TrimSpace(o))
		}
		if flags["inline-signature"] != "" {
			if got, _ := os.ReadFile(filepath.Join(dir, "cms.out")); !bytes.Equal(got, sf) {
				failf(t, cd, a, out, "content embedded in the inline signature block differs from the .SF file")
			}
		}
	})
}

const kInlineText = "C05:pgp-inline-textmode-signature-over-binary-literal"

// TestC05_KnownProbes re-checks listed findings on minimal inputs.
func TestC05_KnownProbes(t *testing.T) {
	if knownSet.Has(kInlineText) {
		dir := filepath.Join(workDir, "probe-inline")
		os.Mkdir(dir, 0o755)
		defer os.RemoveAll(dir)
		in, out := filepath.Join(dir, "msg.txt"), filepath.Join(dir, "msg.asc")
		os.WriteFile(in, []byte("line one\nline two  \nthree\n"), 0o644)
		if err := env.SignLib(&pipe.Req{SigType: "pgp", In: in, Out: out, Key: "rsa2048a", Hash: crypto.SHA256, Flags: map[string]string{"inline": "true", "armor": "true", "textmode": "true"}}); err == nil {
			if o, err := gpgv("rsa2048a", "--output", filepath.Join(dir, "plain"), out); err != nil || !strings.Contains(o, "Good signature") {
				rec.KnownFinding(kInlineText, "gpgv on relic's --inline --textmode message over text with LF line ends: "+lastLine(o))
			}
		}
	}
	rec.Case("known-probes", "known-probes", false)
}

func lastLine(s string) string {
	l := strings.Split(strings.TrimSpace(s), "\n")
	return strings.TrimSpace(l[len(l)-1])
}

func TestC05_PGP(t *testing.T) {
	rapid.Check(t, func(t *rapid.T) {
		mode := rapid.SampledFrom([]string{"detached", "clearsign", "inline"}).Draw(t, "mode")
		flags := map[string]string{}
		switch mode {
		case "clearsign":
			flags["clearsign"] = "true"
		case "inline":
			flags["inline"] = "true"
		}
		if rapid.Bool().Draw(t, "armor") {
			flags["armor"] = "true"
		}
		a := arts.GenBlob(t)
		if mode == "clearsign" && a.Classes[0] != "blob-text" {
			// the cleartext signature framework is defined for text
			mode = "detached"
			delete(flags, "clearsign")
		}
		// canonical-text signatures are defined for text; binary payloads are signed in binary mode
		if rapid.Bool().Draw(t, "textmode") && (mode == "detached" || mode == "inline") && a.Classes[0] == "blob-text" {
			flags["textmode"] = "true"
		}
		key := rapid.SampledFrom(pgpKeys).Draw(t, "key")
		h := rapid.SampledFrom([]crypto.Hash{crypto.SHA256, crypto.SHA384, crypto.SHA512}).Draw(t, "hash")
		counter++
		dir := filepath.Join(workDir, fmt.Sprintf("pgp%d", counter))
		os.Mkdir(dir, 0o755)
		defer os.RemoveAll(dir)
		in := filepath.Join(dir, "msg.txt")
		os.WriteFile(in, a.Data, 0o644)
		out := filepath.Join(dir, "msg.sig")
		if err := env.SignLib(&pipe.Req{SigType: "pgp", In: in, Out: out, Key: key, Hash: h, Flags: flags}); err != nil {
			t.Skipf("signing failed: %v", err)
		}
		sig, _ := os.ReadFile(out)
		cd := &caseDesc{Format: "pgp-" + mode, Classes: a.Classes, Key: key, Hash: h.String(), Flags: flags, Tool: "gpgv"}
		record(cd, a)
		var o string
		var err error
		if mode == "detached" {
			o, err = gpgv(key, out, in)
		} else {
			o, err = gpgv(key, "--output", filepath.Join(dir, "plain"), out)
		}
		if err != nil || !strings.Contains(o, "Good signature") {
			if mode == "inline" && flags["textmode"] != "" && knownSet.Has(kInlineText) && bytes.Contains(bytes.ReplaceAll(a.Data, []byte("\r\n"), nil), []byte("\n")) {
				// listed finding: a text-mode signature inside a binary literal packet; gpg hashes
				// the literal data as stored, so any bare LF makes it disagree
				rec.Excluded(kInlineText)
				return
			}
			failf(t, cd, a, sig, "gpgv does not accept relic's %s signature: %s", mode, strings.TrimSpace(o))
		}
		if mode == "inline" {
			got, _ := os.ReadFile(filepath.Join(dir, "plain"))
			if !bytes.Equal(got, a.Data) {
				failf(t, cd, a, sig, "inline message content recovered by gpgv differs from the input (%d vs %d bytes)", len(got), len(a.Data))
			}
		}
		if mode == "clearsign" {
			got, _ := os.ReadFile(filepath.Join(dir, "plain"))
			norm := func(b []byte) string {
				// cleartext signatures do not preserve trailing whitespace or line-ending style
				var lines []string
				for _, l := range strings.Split(strings.ReplaceAll(string(b), "\r\n", "\n"), "\n") {
					lines = append(lines, strings.TrimRight(l, " \t\r"))
				}
				return strings.TrimRight(strings.Join(lines, "\n"), "\n")
			}
			if norm(got) != norm(a.Data) {
				failf(t, cd, a, sig, "clearsigned text recovered by gpgv differs from the input")
			}
		}
	})
}

func TestC05_DEB(t *testing.T) {
	rapid.Check(t, func(t *rapid.T) {
		role := rapid.SampledFrom([]string{"builder", "origin", "maint", "archive"}).Draw(t, "role")
		a, path, dir, key, h, out, cleanup := signed(t, "deb", pgpKeys, []crypto.Hash{crypto.SHA256, crypto.SHA512}, map[string]string{"role": role})
		defer cleanup()
		cd := &caseDesc{Format: "deb", Classes: a.Classes, Key: key, Hash: h.String(), Flags: map[string]string{"role": role}, Tool: "dpkg-deb+ar+gpgv"}
		record(cd, a)
		if o, err := run("dpkg-deb", "-I", path); err != nil {
			failf(t, cd, a, out, "dpkg-deb -I rejects the signed package: %s", o)
		}
		if o, err := run("dpkg-deb", "-c", path); err != nil {
			failf(t, cd, a, out, "dpkg-deb -c rejects the signed package: %s", o)
		}
		member := "_gpg" + role
		sigText, err := exec.Command("ar", "p", path, member).Output()
		if err != nil || len(sigText) == 0 {
			failf(t, cd, a, out, "no %s member: %v", member, err)
		}
		sp := filepath.Join(dir, "role.asc")
		os.WriteFile(sp, sigText, 0o644)
		o, err := gpgv(key, "--output", filepath.Join(dir, "role.txt"), sp)
		if err != nil || !strings.Contains(o, "Good signature") {
			failf(t, cd, a, out, "gpgv rejects the %s signature: %s", member, strings.TrimSpace(o))
		}
		plain, _ := os.ReadFile(filepath.Join(dir, "role.txt"))
		// "Files:" lines: md5 sha1 size name
		checked := 0
		for _, line := range strings.Split(string(plain), "\n") {
			f := strings.Fields(line)
			if len(f) != 4 || len(f[0]) != 32 || len(f[1]) != 40 {
				continue
			}
			content, err := exec.Command("ar", "p", path, f[3]).Output()
			if err != nil {
				failf(t, cd, a, out, "signed list names member %q which ar cannot extract", f[3])
			}
			md5o, _ := run("bash", "-c", fmt.Sprintf("ar p %q %q | md5sum", path, f[3]))
			sha1o, _ := run("bash", "-c", fmt.Sprintf("ar p %q %q | sha1sum", path, f[3]))
			if !strings.HasPrefix(md5o, f[0]) || !strings.HasPrefix(sha1o, f[1]) || fmt.Sprint(len(content)) != f[2] {
				failf(t, cd, a, out, "signed list entry %q does not match the member (md5sum %s sha1sum %s size %d)", line, strings.Fields(md5o)[0], strings.Fields(sha1o)[0], len(content))
			}
			checked++
		}
		if checked < 3 {
			failf(t, cd, a, out, "signed list covers %d members, expected debian-binary, control and data", checked)
		}
	})
}

// TestC05_XMLDSig: XML signatures relic writes (VSIX package signatures with every key
// and digest; ClickOnce manifests with SHA-1, whose algorithm URIs are the standard
// ones) must validate under the JDK's javax.xml.crypto.dsig implementation.
func TestC05_XMLDSig(t *testing.T) {
	root := os.Getenv("VERIF_ROOT")
	if root == "" {
		root = "/verif"
	}
	jout := filepath.Join(workDir, "java")
	if err := xmlgen.BuildJava(filepath.Join(root, "java"), jout); err != nil {
		fmt.Println("VERIF-INCONCLUSIVE: java build:", err)
		t.FailNow()
	}
	java, err := xmlgen.StartJava(jout)
	if err != nil {
		fmt.Println("VERIF-INCONCLUSIVE: java start:", err)
		t.FailNow()
	}
	defer java.Close()
	n := 0
	rapid.Check(t, func(t *rapid.T) {
		key := rapid.SampledFrom(pipe.SigningKeys).Draw(t, "key")
		kind := rapid.SampledFrom([]string{"vsix", "vsix", "appmanifest"}).Draw(t, "kind")
		h := rapid.SampledFrom([]crypto.Hash{crypto.SHA1, crypto.SHA256, crypto.SHA384, crypto.SHA512}).Draw(t, "hash")
		n++
		dir := filepath.Join(workDir, fmt.Sprintf("x%d", n))
		os.Mkdir(dir, 0o755)
		defer os.RemoveAll(dir)
		var sigxml []byte
		var vsixClasses []string
		flags := map[string]string{}
		if kind == "vsix" {
			if rapid.Bool().Draw(t, "detachcerts") {
				flags["detach-certs"] = "true"
			}
			a := arts.GenVSIX(t)
			vsixClasses = a.Classes
			p := filepath.Join(dir, a.Name)
			os.WriteFile(p, a.Data, 0o644)
			if err := env.SignLib(&pipe.Req{SigType: "vsix", In: p, Key: key, Hash: h, Flags: flags}); err != nil {
				t.Fatalf("signing failed: %v", err)
			}
			signed, _ := os.ReadFile(p)
			var err error
			sigxml, err = arts.ZipMember(signed, func(name string) bool {
				return strings.HasPrefix(name, "package/services/digital-signature/xml-signature/") && strings.HasSuffix(name, ".psdsxs")
			})
			if err != nil {
				t.Fatalf("no package signature part in relic's output: %v", err)
			}
		} else {
			// Microsoft's sha256/384/512 URIs used for ClickOnce are unknown to the JDK
			h = crypto.SHA1
			a := arts.Fixture("appmanifest", 0)
			p := filepath.Join(dir, a.Name)
			os.WriteFile(p, a.Data, 0o644)
			if err := env.SignLib(&pipe.Req{SigType: "appmanifest", In: p, Key: key, Hash: h, Flags: map[string]string{"rfc3161-timestamp": "false"}}); err != nil {
				t.Fatalf("signing failed: %v", err)
			}
			sigxml, _ = os.ReadFile(p)
		}
		rec.Case(fmt.Sprintf("xmldsig|%s|%s|%s|%v|%v", kind, key, h, flags, vsixClasses), "xmldsig/"+kind+"/"+keys.Kind(key), key != "rsa2048a" || h != crypto.SHA256 || len(vsixClasses) > 0)
		rec.Sample("xmldsig/"+kind, map[string]any{"kind": kind, "key": key, "digest": h.String(), "flags": flags, "input_classes": vsixClasses})
		ok, why, err := java.Verify(sigxml, env.Leaf[key].Raw)
		if err != nil || !ok {
			evid.SaveCase("TestC05_XMLDSig", map[string]any{"kind": kind, "key": key, "digest": h.String(), "input_classes": vsixClasses, "error": fmt.Sprint(why, err), "doc": string(sigxml)})
			t.Fatalf("JDK XML-DSig validator rejects relic's %s signature (key %s, %s): ok=%v %s %v", kind, key, h, ok, why, err)
		}
	})
}

func TestC05_RPM(t *testing.T) {
	rapid.Check(t, func(t *rapid.T) {
		a, _, dir, key, h, out, cleanup := signed(t, "rpm", pgpKeys, []crypto.Hash{crypto.SHA256, crypto.SHA512}, nil)
		defer cleanup()
		cd := &caseDesc{Format: "rpm", Classes: a.Classes, Key: key, Hash: h.String(), Tool: "gpgv-on-rpm-signature-header"}
		record(cd, a)
		// independent parse: lead (96) + signature header + padding + header + payload
		if len(out) < 96+16 || !bytes.Equal(out[96:99], []byte{0x8e, 0xad, 0xe8}) {
			failf(t, cd, a, out, "signature header magic missing")
		}
		n := int(binary.BigEndian.Uint32(out[96+8:]))
		sz := int(binary.BigEndian.Uint32(out[96+12:]))
		idx := out[96+16 : 96+16+16*n]
		store := out[96+16+16*n : 96+16+16*n+sz]
		hdrStart := (96 + 16 + 16*n + sz + 7) &^ 7
		if !bytes.Equal(out[hdrStart:hdrStart+3], []byte{0x8e, 0xad, 0xe8}) {
			failf(t, cd, a, out, "main header magic missing at %d", hdrStart)
		}
		hn := int(binary.BigEndian.Uint32(out[hdrStart+8:]))
		hs := int(binary.BigEndian.Uint32(out[hdrStart+12:]))
		hdrEnd := hdrStart + 16 + 16*hn + hs
		tags := map[int][]byte{}
		for i := 0; i < n; i++ {
			e := idx[16*i:]
			tag, off, cnt := int(binary.BigEndian.Uint32(e)), int(binary.BigEndian.Uint32(e[8:])), int(binary.BigEndian.Uint32(e[12:]))
			if binary.BigEndian.Uint32(e[4:]) == 7 && off+cnt <= len(store) { // BIN
				tags[tag] = store[off : off+cnt]
			}
		}
		checked := 0
		for tag, over := range map[int][]byte{268: out[hdrStart:hdrEnd], 1002: out[hdrStart:]} { // RSAHEADER, PGP
			sig, ok := tags[tag]
			if !ok {
				continue
			}
			sp, cp := filepath.Join(dir, fmt.Sprintf("sig%d", tag)), filepath.Join(dir, fmt.Sprintf("content%d", tag))
			os.WriteFile(sp, sig, 0o644)
			os.WriteFile(cp, over, 0o644)
			o, err := gpgv(key, sp, cp)
			if err != nil || !strings.Contains(o, "Good signature") {
				failf(t, cd, a, out, "gpgv rejects RPM signature tag %d: %s", tag, strings.TrimSpace(o))
			}
			checked++
		}
		if checked == 0 {
			failf(t, cd, a, out, "no RSA header/payload signature tags (268/1002) in the signature header; tags: %v", keysOf(tags))
		}
	})
}

func keysOf(m map[int][]byte) []int {
	var out []int
	for k := range m {
		out = append(out, k)
	}
	return out
}
