// C06 — no signature leaves relic without an audit record.
package c06

import (
	"bytes"
	"crypto"
	"crypto/sha1"
	"crypto/tls"
	"crypto/x509"
	"encoding/json"
	"fmt"
	"github.com/ProtonMail/go-crypto/openpgp/armor"
	"github.com/ProtonMail/go-crypto/openpgp/packet"
	"io"
	"net/http"
	"net/url"
	"os"
	"path/filepath"
	"strings"
	"sync"
	"testing"

	"pgregory.net/rapid"

	"github.com/sassoftware/relic/v8/config"
	"github.com/sassoftware/relic/v8/xverif/amqpfake"
	"github.com/sassoftware/relic/v8/xverif/evid"
	"github.com/sassoftware/relic/v8/xverif/keys"
	"github.com/sassoftware/relic/v8/xverif/known"
	"github.com/sassoftware/relic/v8/xverif/pipe"
)

var (
	rec      = evid.New("C06")
	knownSet = known.Load("C06")
	env      *pipe.Env
	workDir  string
	client   *http.Client
)

func TestMain(m *testing.M) {
	rec.Rule("cases = histories of 1-24 /sign requests (valid, unknown key, key of another role, bad signature type, bad digest, body the signer rejects) issued by 1-16 concurrent clients to the real daemon, x audit sink state (file writable, file in a missing directory, a directory in place of the file, /dev/full, AMQP broker refusing connections, file + refusing broker); invariants: the multiset of 2xx responses equals the multiset of audit records (matched by a unique file name per request); a record is already in the file when its response arrives; every line is exactly one JSON object naming the resolved key, signature type, digest, certificate fingerprint, client name, client address and file name of that request; with any sink failing no 2xx is returned; standalone: exit status 0 iff exactly one new record; PGP signatures on keys that have both kinds of certificate (record names the PGP fingerprint); non-trivial = history with a sink fault or >= 2 overlapping signers; distinct = (sink state, request list, concurrency)")
	rec.Assume("successful AMQP delivery cannot be exercised offline (no broker); only the refusal path of that sink is")
	var err error
	workDir, err = os.MkdirTemp("", "c06-")
	if err != nil {
		panic(err)
	}
	env, err = pipe.Setup(workDir)
	if err != nil {
		panic(err)
	}
	// a key the test client is not entitled to
	env.Cfg.Keys["foreign"] = &config.KeyConfig{Token: "file", KeyFile: env.Cfg.Keys["rsa2048a"].KeyFile, X509Certificate: env.Cfg.Keys["rsa2048a"].X509Certificate, Roles: []string{"otherrole"}}
	env.Cfg.Keys["aliaskey"] = &config.KeyConfig{Alias: "p256a"}
	// a client entry matched by its issuing CA and without a nickname: each member is
	// recorded under its own short fingerprint
	clientCA = keys.NewCA("c06 client CA", keys.Key("p521b"), nil, keys.Epoch, keys.Far)
	env.Cfg.Clients["00ca-members"] = &config.ClientConfig{Certificate: string(keys.CertPEM(clientCA.Cert)), Roles: []string{"signer"}}
	if err := env.Install(env.Cfg); err != nil {
		panic(err)
	}
	if err := env.StartServer(); err != nil {
		panic(err)
	}
	if broker, err = amqpfake.Start(); err != nil {
		panic(err)
	}
	client = env.HTTPClient()
	clients = []*identity{{name: "verifclient", http: client}}
	for _, who := range []struct{ cn, key string }{{"alice", "rsa2048b"}, {"bob", "p256b"}} {
		leaf := clientCA.Issue(keys.Key(who.key).Public(), keys.LeafOpts{CN: "c06 " + who.cn, EKU: []x509.ExtKeyUsage{x509.ExtKeyUsageClientAuth}})
		tc := tls.Certificate{Certificate: [][]byte{leaf.Raw}, PrivateKey: keys.Key(who.key)}
		hc := &http.Client{Transport: &http.Transport{TLSClientConfig: &tls.Config{InsecureSkipVerify: true, Certificates: []tls.Certificate{tc}}}}
		clients = append(clients, &identity{name: keys.SPKIFingerprint(leaf)[:12], http: hc})
	}
	code := m.Run()
	env.StopServer()
	rec.Flush()
	os.RemoveAll(workDir)
	os.Exit(code)
}

type identity struct {
	name string // what the audit record must call this client
	http *http.Client
}

var (
	clientCA *keys.CA
	clients  []*identity
)

type reqSpec struct {
	Client   int    `json:"client"` // index into clients: configured by fingerprint, or member of the client CA
	Kind     string `json:"kind"`   // ok | unknown-key | foreign-key | bad-type | bad-digest | bad-body | alias
	Key      string `json:"key"`
	Digest   string `json:"digest"`
	Filename string `json:"filename"`
	SigType  string `json:"sigtype,omitempty"` // "" = ps; "pgp": detached PGP signature (keys that have both certificates)
}

type result struct {
	spec        reqSpec
	status      int
	recordThere bool // audit record present when the response arrived
	err         error
	sigHash     string // digest named inside a returned PGP signature packet ("" if not parsed)
}

var sinkStates = []string{"file", "file", "missing-dir", "path-is-directory", "dev-full", "amqp-refusing", "file+amqp-refusing",
	"file+broker-ack", "file+broker-nack", "file+broker-refuse", "file+broker-drop", "broker-refuse"}

var broker *amqpfake.Broker

var counter int

func setSink(state, dir string) (auditPath string) {
	cfg := env.Cfg
	cfg.Amqp = nil
	auditPath = filepath.Join(dir, "audit.log")
	switch state {
	case "file":
		cfg.AuditFile = auditPath
	case "missing-dir":
		auditPath = filepath.Join(dir, "no", "such", "dir", "audit.log")
		cfg.AuditFile = auditPath
	case "path-is-directory":
		// (file permission bits do not stop root; a directory in place of the file does)
		os.Mkdir(auditPath, 0o755)
		cfg.AuditFile = auditPath
	case "dev-full":
		auditPath = "/dev/full"
		cfg.AuditFile = auditPath
	case "amqp-refusing":
		cfg.AuditFile = ""
		cfg.Amqp = &config.AmqpConfig{URL: "amqp://127.0.0.1:1/"}
	case "file+amqp-refusing":
		cfg.AuditFile = auditPath
		cfg.Amqp = &config.AmqpConfig{URL: "amqp://127.0.0.1:1/"}
	case "file+broker-ack", "file+broker-nack", "file+broker-refuse", "file+broker-drop", "broker-refuse":
		// a broker that takes the connection and then confirms, rejects, refuses with a
		// channel exception, or drops the connection without confirming
		cfg.AuditFile = auditPath
		if state == "broker-refuse" {
			cfg.AuditFile = ""
		}
		broker.SetMode(state[strings.LastIndex(state, "-")+1:])
		cfg.Amqp = &config.AmqpConfig{URL: broker.URL()}
	}
	return
}

func sinkWorks(state string) bool { return state == "file" || state == "file+broker-ack" }

func readRecords(path string) (records []map[string]any, malformed []string) {
	if path == "/dev/full" {
		return nil, nil
	}
	blob, err := os.ReadFile(path)
	if err != nil {
		return nil, nil
	}
	for _, line := range strings.Split(string(blob), "\n") {
		if line == "" {
			continue
		}
		var m map[string]any
		dec := json.NewDecoder(strings.NewReader(line))
		if err := dec.Decode(&m); err != nil {
			malformed = append(malformed, line)
			continue
		}
		if dec.More() {
			malformed = append(malformed, line)
			continue
		}
		records = append(records, m)
	}
	if len(blob) > 0 && blob[len(blob)-1] != '\n' {
		malformed = append(malformed, "<last line not terminated>")
	}
	return
}

func hasRecord(path, filename string) bool {
	if path == "/dev/full" {
		return false
	}
	blob, _ := os.ReadFile(path)
	return bytes.Contains(blob, []byte(`"client.filename":"`+filename+`"`))
}

func doSign(spec reqSpec, auditPath string) result {
	v := url.Values{}
	v.Set("key", spec.Key)
	v.Set("filename", spec.Filename)
	sigtype := "ps"
	if spec.SigType != "" {
		sigtype = spec.SigType
	}
	if spec.Kind == "bad-type" {
		sigtype = "no-such-type"
	}
	v.Set("sigtype", sigtype)
	v.Set("ps-style", ".ps1")
	if spec.Digest != "" {
		v.Set("digest", spec.Digest)
	}
	body := "Write-Host \"" + spec.Filename + "\"\r\n"
	if spec.Kind == "bad-body" {
		// a PE signer fed something that is not a PE image
		v.Set("sigtype", "pe-coff")
		body = "this is not a PE image"
	}
	req, _ := http.NewRequest("POST", env.BaseURL()+"/sign?"+v.Encode(), strings.NewReader(body))
	resp, err := clients[spec.Client%len(clients)].http.Do(req)
	if err != nil {
		return result{spec: spec, err: err}
	}
	defer resp.Body.Close()
	// the record must exist by the time the response (headers) has arrived
	there := false
	if resp.StatusCode < 300 {
		there = hasRecord(auditPath, spec.Filename)
	}
	body2, _ := io.ReadAll(resp.Body)
	res := result{spec: spec, status: resp.StatusCode, recordThere: there}
	if resp.StatusCode < 300 && spec.SigType == "pgp" {
		res.sigHash = pgpSignatureHash(body2)
	}
	return res
}

// pgpSignatureHash reads the digest algorithm out of a (binary or armored) signature packet.
func pgpSignatureHash(blob []byte) string {
	var r io.Reader = bytes.NewReader(blob)
	if bytes.HasPrefix(bytes.TrimSpace(blob), []byte("-----BEGIN")) {
		blk, err := armor.Decode(bytes.NewReader(blob))
		if err != nil {
			return ""
		}
		r = blk.Body
	}
	p, err := packet.Read(r)
	if err != nil {
		return ""
	}
	sig, ok := p.(*packet.Signature)
	if !ok {
		return ""
	}
	return map[crypto.Hash]string{crypto.MD5: "MD5", crypto.SHA1: "SHA1", crypto.SHA224: "SHA-224", crypto.SHA256: "SHA-256", crypto.SHA384: "SHA-384", crypto.SHA512: "SHA-512"}[sig.Hash]
}

func TestC06_ServerHistories(t *testing.T) {
	rapid.Check(t, func(t *rapid.T) {
		counter++
		dir := filepath.Join(workDir, fmt.Sprintf("case%d", counter))
		os.Mkdir(dir, 0o755)
		defer func() { os.Chmod(filepath.Join(dir, "audit.log"), 0o600); os.RemoveAll(dir) }()
		state := rapid.SampledFrom(sinkStates).Draw(t, "sink")
		auditPath := setSink(state, dir)
		n := rapid.IntRange(1, 24).Draw(t, "requests")
		conc := rapid.SampledFrom([]int{1, 2, 4, 8, 16}).Draw(t, "concurrency")
		var specs []reqSpec
		for i := 0; i < n; i++ {
			kind := rapid.SampledFrom([]string{"ok", "ok", "ok", "ok", "alias", "unknown-key", "foreign-key", "bad-type", "bad-digest", "bad-body"}).Draw(t, "kind")
			s := reqSpec{Kind: kind, Key: rapid.SampledFrom(pipe.SigningKeys).Draw(t, "key"), Filename: fmt.Sprintf("c%d-r%d.ps1", counter, i), Client: rapid.IntRange(0, len(clients)-1).Draw(t, "client")}
			switch kind {
			case "unknown-key":
				s.Key = "nosuchkey"
			case "foreign-key":
				s.Key = "foreign"
			case "alias":
				s.Key = "aliaskey"
			case "bad-digest":
				s.Digest = "sha-999"
			}
			if kind == "ok" || kind == "alias" {
				s.Digest = rapid.SampledFrom([]string{"", "sha1", "sha256", "sha512"}).Draw(t, "digest")
			}
			if kind == "ok" && env.Pgp[s.Key] != nil && rapid.IntRange(0, 2).Draw(t, "pgp") == 0 {
				// the key has an X.509 and a PGP certificate: the record names the one used
				// (a SHA-1 PGP signature may be refused - the OpenPGP library does not make them -
				// but if one is handed out, the record names the digest it was made with)
				s.SigType = "pgp"
			}
			specs = append(specs, s)
		}
		results := make([]result, n)
		var wg sync.WaitGroup
		sem := make(chan struct{}, conc)
		for i := range specs {
			wg.Add(1)
			sem <- struct{}{}
			go func(i int) {
				defer wg.Done()
				defer func() { <-sem }()
				results[i] = doSign(specs[i], auditPath)
			}(i)
		}
		wg.Wait()
		desc := map[string]any{"sink": state, "concurrency": conc, "requests": specs}
		failf := func(f string, args ...any) {
			desc["error"] = fmt.Sprintf(f, args...)
			evid.SaveCase("TestC06_ServerHistories", desc)
			t.Fatalf("%s\n sink=%s concurrency=%d requests=%+v", desc["error"], state, conc, specs)
		}
		records, malformed := readRecords(auditPath)
		if len(malformed) > 0 {
			failf("audit file has lines that are not exactly one JSON object: %q", malformed[0])
		}
		byFile := map[string][]map[string]any{}
		for _, r := range records {
			fn, _ := r["client.filename"].(string)
			byFile[fn] = append(byFile[fn], r)
		}
		ok2xx := 0
		for _, r := range results {
			if r.err != nil {
				failf("transport error: %v", r.err)
			}
			recs := byFile[r.spec.Filename]
			if r.status >= 200 && r.status < 300 {
				ok2xx++
				if !sinkWorks(state) {
					failf("request %s got %d although the audit sink state is %q", r.spec.Filename, r.status, state)
				}
				if r.spec.Kind != "ok" && r.spec.Kind != "alias" {
					failf("request %s (%s) got %d", r.spec.Filename, r.spec.Kind, r.status)
				}
				if len(recs) != 1 {
					failf("successful request %s has %d audit records, want exactly 1", r.spec.Filename, len(recs))
				}
				if !r.recordThere {
					failf("the response for %s arrived before its audit record was in the file", r.spec.Filename)
				}
				a := recs[0]
				wantKey := r.spec.Key
				if r.spec.Kind == "alias" {
					wantKey = "p256a"
				}
				wantHash := map[string]string{"": "SHA-256", "sha1": "SHA1", "sha256": "SHA-256", "sha512": "SHA-512"}[r.spec.Digest]
				fp := fmt.Sprintf("%x", sha1.Sum(env.Leaf[wantKey].Raw))
				checks := map[string]any{"sig.keyname": wantKey, "sig.type": "ps", "sig.hash": wantHash, "sig.x509.fingerprint": fp, "client.name": clients[r.spec.Client%len(clients)].name, "client.ip": "127.0.0.1", "client.filename": r.spec.Filename}
				if r.spec.SigType == "pgp" && r.sigHash != "" && a["sig.hash"] != r.sigHash {
					failf("audit record of %s says digest %v, the PGP signature handed out was made with %s (record %v)", r.spec.Filename, a["sig.hash"], r.sigHash, a)
				}
				if r.spec.SigType == "pgp" {
					checks["sig.type"] = "pgp"
					delete(checks, "sig.x509.fingerprint") // naming the X.509 certificate as well is not wrong
					checks["sig.pgp.fingerprint"] = fmt.Sprintf("%x", env.Pgp[wantKey].PrimaryKey.Fingerprint[:])
				}
				for k, want := range checks {
					if a[k] != want {
						failf("audit record of %s has %s=%v, want %v (record %v)", r.spec.Filename, k, a[k], want, a)
					}
				}
			} else {
				if (r.spec.Kind == "ok" || r.spec.Kind == "alias") && sinkWorks(state) && !(r.spec.SigType == "pgp" && r.spec.Digest == "sha1") {
					failf("valid request %s failed with %d although the sink works", r.spec.Filename, r.status)
				}
				if len(recs) != 0 && sinkWorks(state) {
					failf("request %s failed with %d but left %d audit records", r.spec.Filename, r.status, len(recs))
				}
			}
		}
		if state == "file+broker-ack" {
			// every configured sink holds the record: the broker confirmed one message per signature
			if bodies, confirmed := broker.Bodies(); confirmed != ok2xx || len(bodies) != ok2xx {
				failf("%d successful responses but the broker received %d messages and confirmed %d", ok2xx, len(bodies), confirmed)
			}
		}
		if sinkWorks(state) && len(records) != ok2xx {
			failf("%d audit records for %d successful responses", len(records), ok2xx)
		}
		nt := !sinkWorks(state) || (conc >= 2 && ok2xx >= 2)
		rec.Case(fmt.Sprintf("%s|%d|%v", state, conc, specs), fmt.Sprintf("server/%s/conc=%d", state, conc), nt)
		if nt {
			rec.Sample("server/"+state, map[string]any{"sink": state, "concurrency": conc, "requests": len(specs), "successful": ok2xx, "kinds": kinds(specs)})
		}
	})
	setSink("file", workDir)
}

// TestC06_SinkFailsLater: the sink works for the first requests and breaks afterwards (its
// directory goes away, a directory takes the file's place): from then on no signature may
// be handed out, however many records were written before.
func TestC06_SinkFailsLater(t *testing.T) {
	rapid.Check(t, func(t *rapid.T) {
		counter++
		base := filepath.Join(workDir, fmt.Sprintf("later%d", counter))
		dir := filepath.Join(base, "logs")
		os.MkdirAll(dir, 0o755)
		defer os.RemoveAll(base)
		auditPath := setSink("file", dir)
		before := rapid.IntRange(1, 3).Draw(t, "successful_requests_before")
		fault := rapid.SampledFrom([]string{"directory-renamed", "directory-removed", "file-replaced-by-directory"}).Draw(t, "fault")
		after := rapid.IntRange(1, 3).Draw(t, "requests_after")
		desc := map[string]any{"successful_requests_before": before, "fault": fault, "requests_after": after}
		failf := func(f string, args ...any) {
			desc["error"] = fmt.Sprintf(f, args...)
			evid.SaveCase("TestC06_SinkFailsLater", desc)
			t.Fatalf("%s %v", desc["error"], desc)
		}
		rec.Case(fmt.Sprintf("later|%d|%s|%d", before, fault, after), "sink-fails-later/"+fault, true)
		rec.Sample("sink-fails-later", desc)
		key := rapid.SampledFrom(pipe.SigningKeys).Draw(t, "key")
		for i := 0; i < before; i++ {
			r := doSign(reqSpec{Kind: "ok", Key: key, Filename: fmt.Sprintf("l%d-b%d.ps1", counter, i)}, auditPath)
			if r.err != nil || r.status >= 300 {
				failf("request %d failed (%d %v) although the sink works", i, r.status, r.err)
			}
		}
		switch fault {
		case "directory-renamed":
			os.Rename(dir, dir+".gone")
		case "directory-removed":
			os.RemoveAll(dir)
		case "file-replaced-by-directory":
			os.Remove(auditPath)
			os.Mkdir(auditPath, 0o755)
		}
		for i := 0; i < after; i++ {
			name := fmt.Sprintf("l%d-a%d.ps1", counter, i)
			r := doSign(reqSpec{Kind: "ok", Key: key, Filename: name}, auditPath)
			if r.err == nil && r.status < 300 && !hasRecord(auditPath, name) {
				failf("request %d after the fault (%s) got %d and a signature, but the configured audit file holds no record of it", i, fault, r.status)
			}
		}
	})
	setSink("file", workDir)
}

func kinds(s []reqSpec) map[string]int {
	m := map[string]int{}
	for _, x := range s {
		m[x.Kind]++
	}
	return m
}

// TestC06_Standalone: the relic binary with each sink state.
// standaloneFixtures: signature types the standalone command is driven through (inputs from
// the repository's functest packages; "" = a generated script).
var standaloneFixtures = []struct{ sigType, file string }{
	{"ps", ""}, {"ps", ""},
	{"pe-coff", "ClassLibrary1.dll"}, {"pe-coff", "WindowsFormsApplication1.exe"},
	{"jar", "hello.jar"}, {"msi", "dummy.msi"}, {"cab", "dummy.cab"}, {"cat", "hyperv.cat"},
}

func TestC06_Standalone(t *testing.T) {
	if err := env.BuildBinary(); err != nil {
		fmt.Println("VERIF-INCONCLUSIVE: cannot build relic:", err)
		t.Fatal(err)
	}
	rapid.Check(t, func(t *rapid.T) {
		counter++
		dir := filepath.Join(workDir, fmt.Sprintf("sa%d", counter))
		os.Mkdir(dir, 0o755)
		defer func() { os.Chmod(filepath.Join(dir, "audit.log"), 0o600); os.RemoveAll(dir) }()
		state := rapid.SampledFrom(sinkStates).Draw(t, "sink")
		auditPath := setSink(state, dir)
		if err := env.Install(env.Cfg); err != nil { // the binary reads the configuration file
			t.Fatalf("harness: %v", err)
		}
		key := rapid.SampledFrom(pipe.SigningKeys).Draw(t, "key")
		h := rapid.SampledFrom([]crypto.Hash{crypto.SHA1, crypto.SHA256, crypto.SHA512}).Draw(t, "hash")
		bad := rapid.IntRange(0, 4).Draw(t, "bad_input") == 0
		// signer modules differ in what runs between the signature and the audit record
		// (post-signing fix-up, patch or whole-file output), so the type is drawn too
		fx := rapid.SampledFrom(standaloneFixtures).Draw(t, "fixture")
		in := filepath.Join(dir, "script.ps1")
		wantType := fx.sigType
		if fx.file == "" {
			os.WriteFile(in, []byte("Write-Host 1\r\n"), 0o644)
		} else {
			blob, rerr := os.ReadFile(filepath.Join(pipe.RepoDir(), "functest", "packages", fx.file))
			if rerr != nil {
				t.Fatalf("harness: %v", rerr)
			}
			in = filepath.Join(dir, fx.file)
			os.WriteFile(in, blob, 0o644)
		}
		req := &pipe.Req{SigType: fx.sigType, In: in, Key: key, Hash: h}
		if bad {
			in = filepath.Join(dir, "script.ps1")
			os.WriteFile(in, []byte("Write-Host 1\r\n"), 0o644)
			req = &pipe.Req{SigType: "pe-coff", In: in, Key: key, Hash: h}
		}
		before, _ := readRecords(auditPath)
		err := env.SignBinary(req)
		after, malformed := readRecords(auditPath)
		desc := map[string]any{"sink": state, "key": key, "digest": h.String(), "bad_input": bad, "type": fx.sigType, "file": fx.file}
		failf := func(f string, args ...any) {
			desc["error"] = fmt.Sprintf(f, args...)
			evid.SaveCase("TestC06_Standalone", desc)
			t.Fatalf("%s %v", desc["error"], desc)
		}
		if len(malformed) > 0 {
			failf("malformed audit line %q", malformed[0])
		}
		added := len(after) - len(before)
		rec.Case(fmt.Sprintf("sa|%s|%s|%s|%v|%s", state, key, h, bad, fx.file), "standalone/"+state+fmt.Sprintf("/bad=%v", bad)+"/"+fx.sigType, !sinkWorks(state))
		rec.Sample("standalone/"+state, desc)
		if err == nil {
			if !sinkWorks(state) {
				failf("relic sign exited 0 although the audit sink state is %q", state)
			}
			if bad {
				failf("relic sign exited 0 on an input the signer rejects")
			}
			if added != 1 {
				failf("relic sign exited 0 and wrote %d audit records, want exactly 1", added)
			}
			a := after[len(after)-1]
			fp := fmt.Sprintf("%x", sha1.Sum(env.Leaf[key].Raw))
			if a["sig.keyname"] != key || a["sig.type"] != wantType || a["sig.x509.fingerprint"] != fp {
				failf("audit record does not describe the operation: %v", a)
			}
		} else if added != 0 && sinkWorks(state) && bad {
			failf("relic sign failed (%v) but wrote %d audit records", err, added)
		}
	})
	setSink("file", workDir)
	env.Install(env.Cfg)
}

var _ = keys.Kind
