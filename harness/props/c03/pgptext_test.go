package c03

// PGP clear-signed and inline-signed messages: the signed document is the payload. The
// text an independent OpenPGP reader recovers from relic's output must be the input text
// (byte for byte for inline messages; up to line-ending style and trailing blanks, which
// the cleartext framework does not preserve, for clear-signed ones), and the signature
// must be good over it. Lines beyond the 64 KiB limit of relic's line scanner may be
// refused - with an error, the input untouched, nothing left behind - never mangled,
// and the signer must come back.

import (
	"bytes"
	"crypto"
	"fmt"
	"io"
	"os"
	"path/filepath"
	"strconv"
	"strings"
	"testing"
	"time"

	"github.com/ProtonMail/go-crypto/openpgp"
	"github.com/ProtonMail/go-crypto/openpgp/armor"
	"github.com/ProtonMail/go-crypto/openpgp/clearsign"
	"pgregory.net/rapid"

	"github.com/sassoftware/relic/v8/xverif/arts"
	"github.com/sassoftware/relic/v8/xverif/evid"
	"github.com/sassoftware/relic/v8/xverif/pipe"
)

type pgpTextCase struct {
	Mode    string   `json:"mode"`
	Classes []string `json:"input_classes"`
	Bytes   int      `json:"input_bytes"`
	Key     string   `json:"key"`
	Hash    string   `json:"digest"`
	Armor   bool     `json:"armor"`
	Error   string   `json:"error,omitempty"`
}

func TestC03_PGPText(t *testing.T) {
	const test = "TestC03_PGPText"
	rapid.Check(t, func(t *rapid.T) {
		arts.BlobHugeLines = true
		defer func() { arts.BlobHugeLines = false }()
		a := arts.GenBlob(t)
		mode := rapid.SampledFrom([]string{"clearsign", "clearsign", "inline"}).Draw(t, "mode")
		if a.Classes[0] != "blob-text" {
			mode = "inline" // the cleartext framework is defined for text
		}
		key := rapid.SampledFrom([]string{"rsa2048a", "rsa3072"}).Draw(t, "pgpkey")
		h := rapid.SampledFrom([]crypto.Hash{crypto.SHA256, crypto.SHA384, crypto.SHA512}).Draw(t, "hash")
		flags := map[string]string{mode: "true"}
		cd := &pgpTextCase{Mode: mode, Classes: a.Classes, Bytes: len(a.Data), Key: key, Hash: h.String()}
		if mode == "inline" && rapid.Bool().Draw(t, "armor") {
			flags["armor"], cd.Armor = "true", true
		}
		longest := 0
		for _, c := range a.Classes {
			if strings.HasPrefix(c, "long-line:") {
				longest, _ = strconv.Atoi(c[len("long-line:"):])
			}
		}
		counter++
		dir := filepath.Join(workDir, fmt.Sprintf("pgptext%d", counter))
		os.Mkdir(dir, 0o755)
		defer os.RemoveAll(dir)
		in := filepath.Join(dir, "msg.txt")
		os.WriteFile(in, a.Data, 0o644)
		out := filepath.Join(dir, "msg.asc")
		failf := func(format string, args ...any) {
			cd.Error = fmt.Sprintf(format, args...)
			evid.SaveCase(test, cd)
			if d := os.Getenv("VERIF_REPLAY_OUT"); d != "" {
				os.WriteFile(filepath.Join(d, test+".input.txt"), a.Data, 0o644)
			}
			t.Fatalf("%s\n case: %+v", cd.Error, *cd)
		}
		rec.Case(fmt.Sprintf("pgptext|%s|%s|%s|%v|", mode, key, h, cd.Armor)+arts.SHA(a.Data), "pgp-"+mode+"/"+fmt.Sprint(longest > 0), len(a.Classes) >= 2)
		if len(a.Classes) >= 2 {
			rec.Sample("pgp-"+mode, cd)
		}
		var err error
		done := make(chan struct{})
		go func() {
			defer close(done)
			err = env.SignLib(&pipe.Req{SigType: "pgp", In: in, Out: out, Key: key, Hash: h, Flags: flags})
		}()
		if evid.WaitOrBlocked(done, 20*time.Second) {
			cd.Error = "signing does not come back: the process is blocked (no CPU time consumed for 20 s)"
			evid.SaveCase(test, cd)
			if d := os.Getenv("VERIF_REPLAY_OUT"); d != "" {
				os.WriteFile(filepath.Join(d, test+".input.txt"), a.Data, 0o644)
			}
			fmt.Printf("--- FAIL: %s: %s\n case: %+v\n", test, cd.Error, *cd)
			rec.Flush()
			os.Exit(1)
		}
		if err != nil {
			if strings.Contains(err.Error(), "PANIC") {
				failf("signing panicked: %v", err)
			}
			if now, _ := os.ReadFile(in); !bytes.Equal(now, a.Data) {
				failf("signing failed (%v) but the input was modified", err)
			}
			if got := dirList(dir); got != "msg.txt" {
				failf("signing failed (%v) but left files: %s", err, got)
			}
			if !(mode == "clearsign" && longest >= 65000) {
				failf("signing a text document failed: %v", err)
			}
			rec.Add("refused_over_long_lines", 1)
			return
		}
		signed, rerr := os.ReadFile(out)
		if rerr != nil {
			failf("output missing: %v", rerr)
		}
		if now, _ := os.ReadFile(in); !bytes.Equal(now, a.Data) {
			failf("input modified although output went elsewhere")
		}
		ring := openpgp.EntityList{env.Pgp[key]}
		switch mode {
		case "clearsign":
			block, rest := clearsign.Decode(signed)
			if block == nil {
				failf("output is not a cleartext-signed message for an independent reader")
			}
			if len(bytes.TrimSpace(rest)) != 0 {
				failf("%d bytes follow the signature block", len(rest))
			}
			norm := func(b []byte) string {
				var lines []string
				for _, l := range strings.Split(strings.ReplaceAll(string(b), "\r\n", "\n"), "\n") {
					lines = append(lines, strings.TrimRight(l, " \t\r"))
				}
				return strings.TrimRight(strings.Join(lines, "\n"), "\n")
			}
			if norm(block.Plaintext) != norm(a.Data) {
				failf("clear-signed text differs from the input: %d lines in, %d lines out", strings.Count(norm(a.Data), "\n")+1, strings.Count(norm(block.Plaintext), "\n")+1)
			}
			if _, err := block.VerifySignature(ring, nil); err != nil {
				failf("signature over the clear-signed text is not good: %v", err)
			}
		case "inline":
			var r io.Reader = bytes.NewReader(signed)
			if cd.Armor {
				blk, err := armor.Decode(r)
				if err != nil {
					failf("armored output unreadable: %v", err)
				}
				r = blk.Body
			}
			md, err := openpgp.ReadMessage(r, ring, nil, nil)
			if err != nil {
				failf("output is not an OpenPGP message for an independent reader: %v", err)
			}
			body, err := io.ReadAll(md.UnverifiedBody)
			if err != nil {
				failf("reading the message body: %v", err)
			}
			if md.SignatureError != nil || !md.IsSigned || md.SignedBy == nil {
				failf("inline signature is not good: signed=%v error=%v", md.IsSigned, md.SignatureError)
			}
			if !bytes.Equal(body, a.Data) {
				failf("inline message body differs from the input (%d vs %d bytes)", len(body), len(a.Data))
			}
		}
	})
}
