// C03 — signing never corrupts or alters the payload.
package c03

import (
	"archive/zip"
	"bytes"
	"crypto"
	"fmt"
	"os"
	"path/filepath"
	"sort"
	"strings"
	"testing"

	"pgregory.net/rapid"

	"github.com/sassoftware/relic/v8/xverif/arts"
	"github.com/sassoftware/relic/v8/xverif/evid"
	"github.com/sassoftware/relic/v8/xverif/known"
	"github.com/sassoftware/relic/v8/xverif/pipe"
)

var (
	rec      = evid.New("C03")
	knownSet = known.Load("C03")
	env      *pipe.Env
	workDir  string
)

const kJarPrefix = "C03:jar-with-leading-or-embedded-non-archive-data-corrupted"

func TestMain(m *testing.M) {
	rec.Rule("cases = (format with an independent payload reader: PE, MSI/CFB, JAR incl. hostile layouts (prefix bytes, gaps, zero-length members, long names), PowerShell family, XAP, VSIX, APPX, APK, Mach-O, DEB; input generated or fixture; key; digest; output same/new path); oracle = outcome is either (error, input untouched, no output) or (success, output well-formed per independent reader: Go archive/zip, debug/macho, ar, harness PE parser and CFB validator; every payload item that is not signature metadata has identical bytes, metadata and order; relic's verifier accepts the output); PGP clear-signed and inline messages over generated text and binary documents (lines of 4094..19000 bytes and around 64 KiB): the document an independent OpenPGP reader recovers equals the input and the signature is good over it, lines beyond 64 KiB may be refused cleanly, the signer comes back; non-trivial = generated input with >= 2 layout classes or a hostile layout; distinct = (format, input sha256, key, digest, path mode)")
	rec.Assume("ZIP layout classes listed as C17 findings are not drawn")
	var err error
	workDir, err = os.MkdirTemp("", "c03-")
	if err != nil {
		panic(err)
	}

	arts.ExcludePEFewDirs = true
	arts.ExcludeJAREdgeSpace = true
	env, err = pipe.Setup(workDir)
	if err != nil {
		panic(err)
	}
	code := m.Run()
	rec.Flush()
	os.RemoveAll(workDir)
	os.Exit(code)
}

var formats = []string{"pe", "msi", "jar", "jar-hostile", "appx-hostile", "vsix-hostile", "apk-hostile", "ps", "xap", "vsix", "appx", "apk", "macho", "deb", "cab", "appmanifest", "rpm"}

func dirList(dir string) string {
	ents, _ := os.ReadDir(dir)
	var out []string
	for _, e := range ents {
		out = append(out, e.Name())
	}
	sort.Strings(out)
	return strings.Join(out, ",")
}

var counter int

type caseDesc struct {
	Format  string   `json:"format"`
	Name    string   `json:"input_name"`
	Classes []string `json:"input_classes"`
	Key     string   `json:"key"`
	Hash    string   `json:"digest"`
	NewPath bool     `json:"output_to_new_path"`
	Error   string   `json:"error,omitempty"`
}

func TestC03_Payload(t *testing.T) {
	for _, f := range formats {
		f := f
		t.Run(f, func(t *testing.T) {
			rapid.Check(t, func(t *rapid.T) {
				format := f
				var a *arts.Artifact
				hostile := false
				if f == "jar-hostile" {
					format = "jar"
					a = arts.GenJARLayout(t, true)
					for _, c := range a.Classes {
						if c == "prefix" || c == "gap" {
							hostile = true
						}
					}
					if hostile && knownSet.Has(kJarPrefix) {
						rec.Excluded(kJarPrefix)
						a = arts.GenJARLayout(t, false)
						hostile = false
					}
				} else if strings.HasSuffix(f, "-hostile") {
					// leading or embedded non-archive bytes in the other ZIP-based types
					format = strings.TrimSuffix(f, "-hostile")
					arts.APKBigMembers = false
					a = arts.Gen(t, format)
					zr, err := zip.NewReader(bytes.NewReader(a.Data), int64(len(a.Data)))
					if err != nil {
						t.Skip("harness: " + err.Error())
					}
					k := rapid.IntRange(0, len(zr.File)).Draw(t, "gap_before_member")
					gap := bytes.Repeat([]byte{byte(rapid.SampledFrom([]int{0, 0x50, 0xff}).Draw(t, "gap_fill"))}, rapid.SampledFrom([]int{1, 4, 50, 4096}).Draw(t, "gap_len"))
					data, ok := arts.ZipInsertGap(a.Data, k, gap)
					if !ok {
						t.Skip("harness: archive layout not supported by ZipInsertGap")
					}
					if _, err := zip.NewReader(bytes.NewReader(data), int64(len(data))); err != nil {
						t.Fatalf("harness: archive/zip refuses the archive after gap insertion: %v", err)
					}
					cls := "gap"
					if k == 0 {
						cls = "prefix"
					}
					a = &arts.Artifact{Format: a.Format, SigType: a.SigType, Name: a.Name, Data: data, Classes: append(append([]string{}, a.Classes...), cls, fmt.Sprintf("gap-before-member:%d/%d", k, len(zr.File))), Generated: true}
					hostile = true
				} else {
					arts.MachOTightHeaders = true
					a = arts.Gen(t, format)
					for _, c := range a.Classes {
						if c == "tight-header" {
							// no room for the signature's load command: refusing is the only safe outcome
							hostile = true
						}
					}
				}
				key := rapid.SampledFrom(pipe.SigningKeys).Draw(t, "key")
				if arts.PgpFormats[format] {
					key = rapid.SampledFrom([]string{"rsa2048a", "rsa3072"}).Draw(t, "pgpkey")
				}
				h := rapid.SampledFrom([]crypto.Hash{crypto.SHA256, crypto.SHA256, crypto.SHA1, crypto.SHA384, crypto.SHA512}).Draw(t, "hash")
				if arts.PgpFormats[format] && h == crypto.SHA1 {
					h = crypto.SHA256 // go-crypto refuses to make SHA-1 PGP signatures
				}
				if format == "appx" && h == crypto.SHA1 {
					h = crypto.SHA256
				}
				if format == "apk" && h != crypto.SHA512 {
					h = crypto.SHA256
				}
				if (format == "macho") && h != crypto.SHA1 {
					h = crypto.SHA256
				}
				newPath := rapid.Bool().Draw(t, "newpath")
				counter++
				dir := filepath.Join(workDir, fmt.Sprintf("case%d", counter))
				os.Mkdir(dir, 0o755)
				defer os.RemoveAll(dir)
				in := filepath.Join(dir, a.Name)
				os.WriteFile(in, a.Data, 0o644)
				// inputs already signed by relic: the first signature becomes part of the input
				if format != "xap" && format != "pgp" && !hostile && rapid.IntRange(0, 2).Draw(t, "presigned") == 0 {
					pkey := rapid.SampledFrom([]string{"rsa2048a", "rsa3072"}).Draw(t, "presign_key")
					if err := env.SignLib(&pipe.Req{SigType: a.SigType, In: in, Key: pkey, Hash: crypto.SHA256}); err == nil {
						if blob, err := os.ReadFile(in); err == nil {
							a = &arts.Artifact{Format: a.Format, SigType: a.SigType, Name: a.Name, Data: blob, Classes: append(append([]string{}, a.Classes...), "presigned:"+pkey), Generated: a.Generated}
						}
					} else {
						os.WriteFile(in, a.Data, 0o644)
					}
				}
				out := in
				req := &pipe.Req{SigType: a.SigType, In: in, Key: key, Hash: h}
				if newPath {
					out = filepath.Join(dir, "out-"+a.Name)
					req.Out = out
				}
				desc := &caseDesc{Format: f, Name: a.Name, Classes: a.Classes, Key: key, Hash: h.String(), NewPath: newPath}
				failf := func(format string, args ...any) {
					desc.Error = fmt.Sprintf(format, args...)
					evid.SaveCase("TestC03_"+f, desc)
					if d := os.Getenv("VERIF_REPLAY_OUT"); d != "" {
						os.WriteFile(filepath.Join(d, "TestC03_"+f+".input-"+a.Name), a.Data, 0o644)
					}
					t.Fatalf("%s\n case: %+v", desc.Error, *desc)
				}
				nt := (a.Generated && len(a.Classes) >= 2) || hostile
				rec.Case(fmt.Sprintf("%s|%x|%s|%s|%v", f, a.Data[:min(len(a.Data), 0)], key, h, newPath)+arts.SHA(a.Data), f+"/"+fmt.Sprint(hostile), nt)
				if nt {
					rec.Sample(f, desc)
				}
				err := env.SignLib(req)
				if err != nil {
					if strings.Contains(err.Error(), "PANIC") {
						failf("signing panicked: %v", err)
					}
					now, _ := os.ReadFile(in)
					if !bytes.Equal(now, a.Data) {
						failf("signing failed (%v) but the input was modified", err)
					}
					if got := dirList(dir); got != a.Name {
						failf("signing failed (%v) but left files: %s", err, got)
					}
					if !hostile {
						failf("signing a well-formed input failed: %v", err)
					}
					rec.Add("refused_hostile_layouts", 1)
					return
				}
				signed, rerr := os.ReadFile(out)
				if rerr != nil {
					failf("output missing: %v", rerr)
				}
				if newPath {
					now, _ := os.ReadFile(in)
					if !bytes.Equal(now, a.Data) {
						failf("input modified although output went elsewhere")
					}
				}
				if err := arts.WellFormed(format, signed, dir); err != nil {
					failf("output is not well-formed for an independent reader: %v", err)
				}
				if _, err := arts.SamePayload(format, a.Data, signed, dir); err != nil {
					failf("payload altered by signing: %v", err)
				}
				vr := &pipe.VerifyReq{Path: out}
				if hostile {
					vr.SigType = a.SigType // type detection needs the archive to start at offset 0
				}
				if _, err := env.Verify(vr); err != nil {
					failf("signed output does not verify: %v", err)
				}
			})
		})
	}
}
