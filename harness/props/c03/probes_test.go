package c03

import (
	"archive/zip"
	"bytes"
	"crypto"
	"io"
	"os"
	"path/filepath"
	"strings"
	"testing"

	"github.com/sassoftware/relic/v8/xverif/pipe"
)

const kVsixRels = "C03:vsix-existing-relationships-dropped"

// TestC03_KnownProbes re-checks listed findings on minimal inputs.
func TestC03_KnownProbes(t *testing.T) {
	if knownSet.Has(kVsixRels) {
		// an OPC package with relationships of its own: two at package level, one part-level file
		var buf bytes.Buffer
		zw := zip.NewWriter(&buf)
		add := func(name, body string) {
			w, _ := zw.Create(name)
			io.WriteString(w, body)
		}
		add("extension.vsixmanifest", "<PackageManifest/>")
		add("_rels/.rels", `<?xml version="1.0" encoding="utf-8"?><Relationships xmlns="http://schemas.openxmlformats.org/package/2006/relationships"><Relationship Type="http://schemas.microsoft.com/developer/vsx-schema/2011/manifest" Target="/extension.vsixmanifest" Id="R1"/><Relationship Type="http://schemas.openxmlformats.org/package/2006/relationships/metadata/core-properties" Target="/docProps/core.txt" Id="R2"/></Relationships>`)
		add("_rels/extension.vsixmanifest.rels", `<?xml version="1.0" encoding="utf-8"?><Relationships xmlns="http://schemas.openxmlformats.org/package/2006/relationships"><Relationship Type="urn:icon" Target="/icon.txt" Id="R1"/></Relationships>`)
		add("docProps/core.txt", "core")
		add("icon.txt", "icon")
		add("[Content_Types].xml", `<?xml version="1.0" encoding="utf-8"?><Types xmlns="http://schemas.openxmlformats.org/package/2006/content-types"><Default Extension="vsixmanifest" ContentType="text/xml"/><Default Extension="txt" ContentType="text/plain"/><Default Extension="rels" ContentType="application/vnd.openxmlformats-package.relationships+xml"/></Types>`)
		zw.Close()
		p := filepath.Join(workDir, "probe-rels.vsix")
		os.WriteFile(p, buf.Bytes(), 0o644)
		defer os.Remove(p)
		if err := env.SignLib(&pipe.Req{SigType: "vsix", In: p, Key: "rsa2048a", Hash: crypto.SHA256}); err == nil {
			out, _ := os.ReadFile(p)
			zr, err := zip.NewReader(bytes.NewReader(out), int64(len(out)))
			if err == nil {
				rootRels, partRels := "", false
				for _, f := range zr.File {
					switch f.Name {
					case "_rels/.rels":
						rc, _ := f.Open()
						b, _ := io.ReadAll(rc)
						rc.Close()
						rootRels = string(b)
					case "_rels/extension.vsixmanifest.rels":
						partRels = true
					}
				}
				var lost []string
				if !strings.Contains(rootRels, "/extension.vsixmanifest") {
					lost = append(lost, "package relationship to /extension.vsixmanifest")
				}
				if !strings.Contains(rootRels, "/docProps/core.txt") {
					lost = append(lost, "package relationship to /docProps/core.txt")
				}
				if !partRels {
					lost = append(lost, "member _rels/extension.vsixmanifest.rels")
				}
				if len(lost) > 0 {
					rec.KnownFinding(kVsixRels, "signing a VSIX that has relationships of its own exits 0 and drops: "+strings.Join(lost, "; "))
				}
			}
		}
	}
	rec.Case("known-probes", "known-probes", false)
}
