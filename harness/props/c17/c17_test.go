// C17 — relic reads and rewrites ZIP structures exactly as standard readers see them.
//
// Generator: zipgen (byte-exact writer with a layout model, independent of relic).
// Oracles: the generator's layout, Go archive/zip and Python zipfile (batch server).
package c17

import (
	"archive/zip"
	"bytes"
	"crypto/sha256"
	"encoding/binary"
	"encoding/hex"
	"fmt"
	"io"
	"os"
	"path/filepath"
	"sort"
	"strings"
	"testing"

	"pgregory.net/rapid"

	"github.com/sassoftware/relic/v8/lib/zipslicer"
	"github.com/sassoftware/relic/v8/xverif/evid"
	"github.com/sassoftware/relic/v8/xverif/known"
	"github.com/sassoftware/relic/v8/xverif/zipgen"
)

var (
	rec      = evid.New("C17")
	knownSet = known.Load("C17")
	py       *zipgen.PyRef
	workDir  string
)

const (
	kArchiveComment = "C17:archive-comment-refused"
	kSiglessDesc    = "C17:signatureless-descriptor-refused"
	kStreamCDOrder  = "C17:stream-refuses-permuted-directory"
	kDesc64Empty    = "C17:desc64-on-empty-member-misread-as-32bit"
	kOrigDirPanic   = "C17:GetOriginalDirectory-nil-writer-panic"
	kRewriteGap     = "C17:rewrite-assumes-contiguous-members-from-offset-0"
)

func TestMain(m *testing.M) {
	rec.Rule("cases = zipgen archives (0-20 members; stored/deflated; sizes around 0/1/64 KiB; five descriptor kinds; forced ZIP64 local/central/end records; extra fields; member and archive comments; directory entries; prefix bytes; gaps; permuted central directory) read by zipslicer in random-access and tar-streaming mode and compared with the generator layout, Go archive/zip and Python zipfile; re-serialisation of the untouched directory; rewriting through Mangle/NewFile/MakePatch for 1-3 rounds with read-back by all readers; sparse archives beyond 4 GiB (2-5 members, one or more of 4 GiB + {0,1,16,4096} zero bytes stored or deflated, ZIP64 extras with all three values or only the saturated ones) read, rewritten (one member deleted, one added) and read back, a sample of them through the streaming reader and Python (always non-trivial, distinct = layout); non-trivial = archive has >= 2 members and at least one layout feature beyond plain stored/deflated members (descriptor, ZIP64 record, extra, comment, prefix, gap, cdperm, dir, zero-length); distinct = distinct archive bytes (sha256) + operation")
	var err error
	workDir, err = os.MkdirTemp("", "c17-")
	if err != nil {
		panic(err)
	}
	root := os.Getenv("VERIF_ROOT")
	if root == "" {
		root = "/verif"
	}
	py, err = zipgen.StartPyRef(filepath.Join(root, "ref", "zipref.py"))
	if err != nil {
		fmt.Println("VERIF-INCONCLUSIVE: cannot start python reference:", err)
		os.Exit(1)
	}
	code := m.Run()
	py.Close()
	rec.Flush()
	os.RemoveAll(workDir)
	os.Exit(code)
}

// ---------- normalised listings ----------

type entry struct {
	Name     string // raw bytes
	Offset   int64  // local header offset, -1 unknown
	DataOff  int64  // -1 unknown
	CSize    uint64
	USize    uint64
	CRC      uint32
	Method   uint16
	SHA      string // of decompressed content ("" for unknown)
	Comment  string
	ExtraHex string
	End      int64 // first byte behind header, data and descriptor; 0 = unknown
}

func sha(b []byte) string { h := sha256.Sum256(b); return hex.EncodeToString(h[:]) }

func goList(data []byte) ([]entry, error) {
	zr, err := zip.NewReader(bytes.NewReader(data), int64(len(data)))
	if err != nil {
		return nil, err
	}
	var out []entry
	for _, f := range zr.File {
		off, err := f.DataOffset()
		if err != nil {
			return nil, fmt.Errorf("%q: %w", f.Name, err)
		}
		e := entry{Name: f.Name, Offset: -1, DataOff: off, CSize: f.CompressedSize64, USize: f.UncompressedSize64, CRC: f.CRC32, Method: f.Method, Comment: f.Comment}
		rc, err := f.Open()
		if err != nil {
			return nil, fmt.Errorf("%q: %w", f.Name, err)
		}
		content, err := io.ReadAll(rc)
		rc.Close()
		if err != nil {
			return nil, fmt.Errorf("%q: %w", f.Name, err)
		}
		e.SHA = sha(content)
		out = append(out, e)
	}
	return out, nil
}

func pyList(path string) ([]entry, error) {
	l, err := py.List(path)
	if err != nil {
		return nil, err
	}
	if !l.OK {
		return nil, fmt.Errorf("python: %s", l.Error)
	}
	var out []entry
	for _, m := range l.Members {
		name, _ := hex.DecodeString(m.NameHex)
		cm, _ := hex.DecodeString(m.CommentHex)
		if m.ReadError != "" {
			return nil, fmt.Errorf("python: member %q: %s", name, m.ReadError)
		}
		e := entry{Name: string(name), Offset: m.HeaderOffset, DataOff: -1, CSize: m.CompressSize, USize: m.FileSize, CRC: m.CRC, Method: m.Method, Comment: string(cm)}
		if m.SHA256 != nil {
			e.SHA = *m.SHA256
		}
		out = append(out, e)
	}
	return out, nil
}

func relicEntries(d *zipslicer.Directory, readContent bool) ([]entry, error) {
	var out []entry
	for _, f := range d.File {
		e := entry{Name: f.Name, Offset: int64(f.Offset), DataOff: -1, CSize: f.CompressedSize, USize: f.UncompressedSize, Method: f.Method, Comment: string(f.Comment), ExtraHex: hex.EncodeToString(f.Extra)}
		if readContent {
			rc, err := f.Open()
			if err != nil {
				return nil, fmt.Errorf("%q: open: %w", f.Name, err)
			}
			content, err := io.ReadAll(rc)
			rc.Close()
			if err != nil {
				return nil, fmt.Errorf("%q: read: %w", f.Name, err)
			}
			e.SHA = sha(content)
			lh, err := f.GetLocalHeader()
			if err != nil {
				return nil, fmt.Errorf("%q: local header: %w", f.Name, err)
			}
			e.DataOff = int64(f.Offset) + int64(len(lh))
		}
		e.CRC = f.CRC32 // after reading: descriptor CRC is filled in
		if readContent {
			// the extent relic works with when it moves, truncates or appends behind members
			size, err := f.GetTotalSize()
			if err != nil {
				return nil, fmt.Errorf("%q: total size: %w", f.Name, err)
			}
			e.End = int64(f.Offset) + size
		}
		out = append(out, e)
	}
	return out, nil
}

func relicRandom(data []byte) (ents []entry, err error) {
	defer func() {
		if r := recover(); r != nil {
			err = fmt.Errorf("PANIC: %v", r)
		}
	}()
	d, err := zipslicer.Read(bytes.NewReader(data), int64(len(data)))
	if err != nil {
		return nil, err
	}
	return relicEntries(d, true)
}

func relicStream(path string) (ents []entry, err error) {
	defer func() {
		if r := recover(); r != nil {
			err = fmt.Errorf("PANIC: %v", r)
		}
	}()
	f, err := os.Open(path)
	if err != nil {
		return nil, err
	}
	defer f.Close()
	pr, pw := io.Pipe()
	go func() { pw.CloseWithError(zipslicer.ZipToTar(f, pw)) }()
	defer func() { io.Copy(io.Discard, pr); pr.Close() }()
	d, err := zipslicer.ReadZipTar(pr)
	if err != nil {
		return nil, err
	}
	return relicEntries(d, true)
}

// compare: fields that are -1/"" on either side are skipped.
func diff(what string, got, want []entry) string {
	if len(got) != len(want) {
		return fmt.Sprintf("%s: %d members, want %d", what, len(got), len(want))
	}
	for i := range got {
		g, w := got[i], want[i]
		switch {
		case g.Name != w.Name:
			return fmt.Sprintf("%s: member %d name %q want %q", what, i, g.Name, w.Name)
		case g.Offset >= 0 && w.Offset >= 0 && g.Offset != w.Offset:
			return fmt.Sprintf("%s: member %q header offset %d want %d", what, g.Name, g.Offset, w.Offset)
		case g.DataOff >= 0 && w.DataOff >= 0 && g.DataOff != w.DataOff:
			return fmt.Sprintf("%s: member %q data offset %d want %d", what, g.Name, g.DataOff, w.DataOff)
		case g.CSize != w.CSize || g.USize != w.USize:
			return fmt.Sprintf("%s: member %q sizes %d/%d want %d/%d", what, g.Name, g.CSize, g.USize, w.CSize, w.USize)
		case g.CRC != w.CRC:
			return fmt.Sprintf("%s: member %q crc %08x want %08x", what, g.Name, g.CRC, w.CRC)
		case g.Method != w.Method:
			return fmt.Sprintf("%s: member %q method %d want %d", what, g.Name, g.Method, w.Method)
		case g.SHA != "" && w.SHA != "" && g.SHA != w.SHA:
			return fmt.Sprintf("%s: member %q content differs", what, g.Name)
		case g.Comment != w.Comment:
			return fmt.Sprintf("%s: member %q comment %q want %q", what, g.Name, g.Comment, w.Comment)
		case g.End > 0 && w.End > 0 && g.End != w.End:
			return fmt.Sprintf("%s: member %q ends at %d (header, data and descriptor), really at %d", what, g.Name, g.End, w.End)
		}
	}
	return ""
}

func layoutEntries(s *zipgen.Spec, a *zipgen.Archive) []entry {
	var out []entry
	for _, i := range a.CDOrder {
		m, l := s.Members[i], a.Layout[i]
		e := entry{Name: m.Name, Offset: l.LocalHeaderOffset, DataOff: l.DataOffset, CSize: l.CompressedSize, USize: l.UncompressedSize, CRC: l.CRC32, Method: l.Method, Comment: m.Comment, End: l.EndOffset}
		if !m.IsDir {
			e.SHA = sha(m.Data)
		} else {
			e.SHA = sha(nil)
		}
		out = append(out, e)
	}
	return out
}

// ---------- spec predicates ----------

func hasClass(s *zipgen.Spec, c string) bool {
	for _, x := range s.Classes() {
		if x == c {
			return true
		}
	}
	return false
}

func hasSigless(s *zipgen.Spec) bool {
	return hasClass(s, "desc32nosig") || hasClass(s, "desc64nosig")
}

func hasDesc64OnEmpty(s *zipgen.Spec) bool {
	for _, m := range s.Members {
		if (m.Descriptor == zipgen.Desc64Sig) && (m.IsDir || len(m.Data) == 0) {
			return true
		}
	}
	return false
}

// desc64EmptyExtent: is the difference d the extent of an empty member with a 24-byte
// descriptor (the listed finding), and nothing else?
func desc64EmptyExtent(s *zipgen.Spec, d string) bool {
	for _, m := range s.Members {
		if m.Descriptor == zipgen.Desc64Sig && (m.IsDir || len(m.Data) == 0) && strings.Contains(d, fmt.Sprintf("member %q ends at", m.Name)) {
			return true
		}
	}
	return false
}

func contiguousFromZero(s *zipgen.Spec) bool {
	if len(s.Prefix) > 0 || len(s.GapBeforeCD) > 0 {
		return false
	}
	for _, m := range s.Members {
		if len(m.GapBefore) > 0 {
			return false
		}
	}
	return true
}

func nontrivial(s *zipgen.Spec) bool {
	if len(s.Members) < 2 {
		return false
	}
	for _, c := range s.Classes() {
		switch c {
		case "stored", "deflate", "utf8":
		default:
			return true
		}
	}
	return false
}

func writeTemp(data []byte) string {
	p := filepath.Join(workDir, fmt.Sprintf("a-%s.zip", sha(data)[:16]))
	if err := os.WriteFile(p, data, 0o644); err != nil {
		panic(err)
	}
	return p
}

type failCase struct {
	Classes []string `json:"classes"`
	Notes   []string `json:"notes"`
	ZipHex  string   `json:"zip_hex"`
	Error   string   `json:"error"`
	Op      string   `json:"op"`
}

func fail(t *rapid.T, test string, s *zipgen.Spec, data []byte, op, format string, args ...any) {
	msg := fmt.Sprintf(format, args...)
	h := hex.EncodeToString(data)
	if len(h) > 400000 {
		h = h[:400000] + "...(truncated)"
	}
	evid.SaveCase(test, failCase{Classes: s.Classes(), Notes: s.Notes(), ZipHex: h, Error: msg, Op: op})
	t.Fatalf("%s [classes %v]: %s", op, s.Classes(), msg)
}

// knownOr reports a failure unless its class is a listed known finding.
func knownOr(t *rapid.T, test string, s *zipgen.Spec, data []byte, key string, applies bool, op, format string, args ...any) {
	if applies && knownSet.Has(key) {
		rec.Excluded(key)
		return
	}
	fail(t, test, s, data, op, format, args...)
}

// ---------- A. reading agrees ----------

func TestC17_ReadAgrees(t *testing.T) {
	rapid.Check(t, func(t *rapid.T) {
		const test = "TestC17_ReadAgrees"
		s := zipgen.Gen(t)
		a, err := zipgen.Build(s)
		if err != nil {
			t.Skip("generator refused: " + err.Error())
		}
		data := a.Data
		want := layoutEntries(s, a)
		// the generator's claim is first confirmed by the two standard readers
		goEnts, err := goList(data)
		if err != nil {
			t.Fatalf("harness error: Go archive/zip rejects a generated archive (%v): %v", s.Classes(), err)
		}
		if d := diff("archive/zip vs layout", goEnts, want); d != "" {
			t.Fatalf("harness error: %s", d)
		}
		path := writeTemp(data)
		defer os.Remove(path)
		pyEnts, err := pyList(path)
		if err != nil {
			t.Fatalf("harness error: Python zipfile rejects a generated archive (%v): %v", s.Classes(), err)
		}
		if d := diff("zipfile vs layout", pyEnts, want); d != "" {
			t.Fatalf("harness error: %s", d)
		}
		key := sha(data)
		rec.Case("read|"+key, "read/"+strings.Join(s.Classes(), ","), nontrivial(s))
		if nontrivial(s) {
			rec.Sample("read/"+firstOr(s.Classes(), "plain"), map[string]any{"classes": s.Classes(), "members": len(s.Members), "bytes": len(data)})
		}
		// random access
		got, err := relicRandom(data)
		if err != nil {
			switch {
			case s.ArchiveComment != "":
				knownOr(t, test, s, data, kArchiveComment, true, "random-access read", "refused: %v", err)
			case hasSigless(s) && strings.Contains(err.Error(), "data descriptor signature is missing"):
				knownOr(t, test, s, data, kSiglessDesc, true, "random-access read", "refused: %v", err)
			default:
				fail(t, test, s, data, "random-access read", "relic refuses a valid archive: %v", err)
			}
		} else if d := diff("zipslicer.Read", got, want); d != "" {
			// listed finding: the extent of an empty member with a 24-byte descriptor
			knownOr(t, test, s, data, kDesc64Empty, desc64EmptyExtent(s, d), "random-access read", "%s", d)
		}
		// single-pass streaming
		got, err = relicStream(path)
		if err != nil {
			switch {
			case s.ArchiveComment != "":
				knownOr(t, test, s, data, kArchiveComment, true, "streaming read", "refused: %v", err)
			case hasSigless(s) && strings.Contains(err.Error(), "data descriptor signature is missing"):
				knownOr(t, test, s, data, kSiglessDesc, true, "streaming read", "refused: %v", err)
			case hasClass(s, "cdperm") && strings.Contains(err.Error(), "seek backwards"):
				knownOr(t, test, s, data, kStreamCDOrder, true, "streaming read", "refused: %v", err)
			default:
				fail(t, test, s, data, "streaming read", "relic refuses a valid archive: %v", err)
			}
		} else if d := diff("zipslicer.ReadZipTar", got, want); d != "" {
			knownOr(t, test, s, data, kDesc64Empty, desc64EmptyExtent(s, d), "streaming read", "%s", d)
		}
	})
}

func firstOr(l []string, d string) string {
	for _, c := range l {
		if c != "stored" && c != "deflate" {
			return c
		}
	}
	return d
}

// ---------- B. re-serialising the untouched directory ----------

type endInfo struct {
	count, size, offset uint64
	zip64               bool
}

// parseTail: independent reading of a central directory + end records blob.
func parseTail(tail []byte) (entries []byte, end endInfo, err error) {
	pos := 0
	for pos+46 <= len(tail) && binary.LittleEndian.Uint32(tail[pos:]) == 0x02014b50 {
		n := int(binary.LittleEndian.Uint16(tail[pos+28:])) + int(binary.LittleEndian.Uint16(tail[pos+30:])) + int(binary.LittleEndian.Uint16(tail[pos+32:]))
		pos += 46 + n
		end.count++
	}
	if pos > len(tail) {
		return nil, end, fmt.Errorf("directory entry overruns")
	}
	entries = tail[:pos]
	rest := tail[pos:]
	var z64 []byte
	if len(rest) >= 76 && binary.LittleEndian.Uint32(rest) == 0x06064b50 {
		z64 = rest[:56]
		if binary.LittleEndian.Uint32(rest[56:]) != 0x07064b50 {
			return nil, end, fmt.Errorf("zip64 locator missing")
		}
		rest = rest[76:]
	}
	if len(rest) < 22 || binary.LittleEndian.Uint32(rest) != 0x06054b50 {
		return nil, end, fmt.Errorf("end record missing (have %d bytes: %x)", len(rest), rest[:min(len(rest), 8)])
	}
	cnt := uint64(binary.LittleEndian.Uint16(rest[10:]))
	size := uint64(binary.LittleEndian.Uint32(rest[12:]))
	off := uint64(binary.LittleEndian.Uint32(rest[16:]))
	if z64 != nil {
		end.zip64 = true
		if cnt == 0xffff {
			cnt = binary.LittleEndian.Uint64(z64[32:])
		}
		if size == 0xffffffff {
			size = binary.LittleEndian.Uint64(z64[40:])
		}
		if off == 0xffffffff {
			off = binary.LittleEndian.Uint64(z64[48:])
		}
	}
	if cnt != end.count {
		return nil, end, fmt.Errorf("end record counts %d entries, directory has %d", cnt, end.count)
	}
	end.size, end.offset = size, off
	return entries, end, nil
}

func TestC17_Reserialise(t *testing.T) {
	rapid.Check(t, func(t *rapid.T) {
		const test = "TestC17_Reserialise"
		s := zipgen.Gen(t)
		if s.ArchiveComment != "" && knownSet.Has(kArchiveComment) {
			s.ArchiveComment = "" // excluded by construction
			rec.Excluded(kArchiveComment)
		}
		a, err := zipgen.Build(s)
		if err != nil {
			t.Skip("generator refused")
		}
		data := a.Data
		origTail := data[a.CDOffset:]
		rec.Case("reser|"+sha(data), "reserialise/"+strings.Join(s.Classes(), ","), nontrivial(s))
		d, err := zipslicer.Read(bytes.NewReader(data), int64(len(data)))
		if err != nil {
			fail(t, test, s, data, "read", "relic refuses a valid archive: %v", err)
		}
		var cd, eod bytes.Buffer
		if err := d.WriteDirectory(&cd, &eod, false); err != nil {
			fail(t, test, s, data, "WriteDirectory", "error: %v", err)
		}
		origEntries, origEnd, perr := parseTail(origTail)
		if perr != nil {
			t.Fatalf("harness error: cannot parse generated tail: %v", perr)
		}
		if !bytes.Equal(cd.Bytes(), origEntries) {
			fail(t, test, s, data, "WriteDirectory", "central directory entries differ from the original bytes (%d vs %d bytes)", cd.Len(), len(origEntries))
		}
		tail := append(append([]byte{}, cd.Bytes()...), eod.Bytes()...)
		_, newEnd, perr := parseTail(tail)
		if perr != nil {
			fail(t, test, s, data, "WriteDirectory", "re-serialised tail is malformed: %v", perr)
		}
		if newEnd.count != origEnd.count || newEnd.size != origEnd.size || newEnd.offset != origEnd.offset {
			fail(t, test, s, data, "WriteDirectory", "end record says count/size/offset %d/%d/%d, original %d/%d/%d", newEnd.count, newEnd.size, newEnd.offset, origEnd.count, origEnd.size, origEnd.offset)
		}
		// The presence and saturation of the optional ZIP64 end record is a writer's
		// choice (the format allows either), so byte identity of the end records is
		// demanded only when neither side uses one; the entries are always exact and the
		// end records always equal in meaning (checked above).
		if !origEnd.zip64 && !newEnd.zip64 && !bytes.Equal(tail, origTail) {
			fail(t, test, s, data, "WriteDirectory", "re-serialised directory+end (%d bytes) is not byte-identical to the original tail (%d bytes)", len(tail), len(origTail))
		}
		// the archive with the re-serialised tail reads the same everywhere
		re := append(append([]byte{}, data[:a.CDOffset]...), tail...)
		want := layoutEntries(s, a)
		goEnts, err := goList(re)
		if err != nil {
			fail(t, test, s, re, "WriteDirectory", "archive/zip rejects the re-serialised archive: %v", err)
		}
		if dd := diff("archive/zip on re-serialised", goEnts, want); dd != "" {
			fail(t, test, s, re, "WriteDirectory", "%s", dd)
		}
		// GetOriginalDirectory(false) must give back the original bytes
		func() {
			defer func() {
				if r := recover(); r != nil {
					knownOr(t, test, s, data, kOrigDirPanic, true, "GetOriginalDirectory", "panic: %v", r)
				}
			}()
			oc, oe, err := d.GetOriginalDirectory(false)
			if err != nil {
				fail(t, test, s, data, "GetOriginalDirectory", "error: %v", err)
			}
			if !bytes.Equal(append(append([]byte{}, oc...), oe...), origTail) {
				fail(t, test, s, data, "GetOriginalDirectory", "output differs from the original directory bytes")
			}
		}()
	})
}

// ---------- C. rewriting and reading back ----------

type member struct {
	Name string
	SHA  string
}

func TestC17_RewriteReadBack(t *testing.T) {
	rapid.Check(t, func(t *rapid.T) {
		const test = "TestC17_RewriteReadBack"
		s := zipgen.Gen(t)
		// exclusions by construction for listed findings
		if knownSet.Has(kArchiveComment) && s.ArchiveComment != "" {
			s.ArchiveComment = ""
			rec.Excluded(kArchiveComment)
		}
		if knownSet.Has(kSiglessDesc) {
			for i := range s.Members {
				switch s.Members[i].Descriptor {
				case zipgen.Desc32NoSig:
					s.Members[i].Descriptor = zipgen.Desc32Sig
					rec.Excluded(kSiglessDesc)
				case zipgen.Desc64NoSig:
					s.Members[i].Descriptor = zipgen.Desc64Sig
					rec.Excluded(kSiglessDesc)
				}
			}
		}
		if knownSet.Has(kDesc64Empty) {
			for i := range s.Members {
				if s.Members[i].Descriptor == zipgen.Desc64Sig && (s.Members[i].IsDir || len(s.Members[i].Data) == 0) {
					s.Members[i].Descriptor = zipgen.Desc32Sig
					rec.Excluded(kDesc64Empty)
				}
			}
		}
		if knownSet.Has(kRewriteGap) && !contiguousFromZero(s) {
			s.Prefix, s.GapBeforeCD = nil, nil
			for i := range s.Members {
				s.Members[i].GapBefore = nil
			}
			rec.Excluded(kRewriteGap)
		}
		s.CDOrder = nil // rewriting walks members in directory order; keep both orders equal
		a, err := zipgen.Build(s)
		if err != nil {
			t.Skip("generator refused")
		}
		cur := a.Data
		var model []member
		for i, m := range s.Members {
			_ = i
			h := sha(m.Data)
			if m.IsDir {
				h = sha(nil)
			}
			model = append(model, member{m.Name, h})
		}
		rounds := rapid.IntRange(1, 3).Draw(t, "rounds")
		streaming := rapid.Bool().Draw(t, "streaming")
		opdesc := []string{}
		for r := 0; r < rounds; r++ {
			// draw the edit: delete a subset, add 0-2 new files (incl. empty ones)
			del := map[string]bool{}
			for _, m := range model {
				if rapid.IntRange(0, 3).Draw(t, "delete") == 0 {
					del[m.Name] = true
				}
			}
			nadd := rapid.IntRange(0, 2).Draw(t, "nadd")
			type add struct {
				name string
				data []byte
			}
			var adds []add
			for i := 0; i < nadd; i++ {
				n := rapid.SampledFrom([]int{0, 0, 1, 10, 300, 70000}).Draw(t, "addsize")
				if n == 0 && knownSet.Has(kDesc64Empty) {
					n = 1 // an empty new file gets a 24-byte descriptor: listed finding, excluded by construction
					rec.Excluded(kDesc64Empty)
				}
				body := bytes.Repeat([]byte{byte('a' + r + i)}, n)
				adds = append(adds, add{fmt.Sprintf("META-INF/added-%d-%d.bin", r, i), body})
			}
			forceZip64 := rapid.IntRange(0, 4).Draw(t, "forcezip64") == 0
			opdesc = append(opdesc, fmt.Sprintf("round%d:del=%d,add=%d,z64=%v", r, len(del), nadd, forceZip64))
			out, err := rewrite(cur, del, func(m *zipslicer.Mangler) error {
				for _, a := range adds {
					if err := m.NewFile(a.name, a.data); err != nil {
						return err
					}
				}
				return nil
			}, forceZip64, streaming)
			if err != nil {
				fail(t, test, s, cur, strings.Join(opdesc, ";"), "rewrite refused: %v", err)
			}
			var next []member
			for _, m := range model {
				if !del[m.Name] {
					next = append(next, m)
				}
			}
			for _, a := range adds {
				next = append(next, member{a.name, sha(a.data)})
			}
			model = next
			cur = out
			// read back with every reader
			var want []entry
			for _, m := range model {
				want = append(want, entry{Name: m.Name, SHA: m.SHA, Offset: -1, DataOff: -1})
			}
			if msg := readBackAll(cur, want); msg != "" {
				fail(t, test, s, cur, strings.Join(opdesc, ";"), "%s", msg)
			}
		}
		rec.Case("rewrite|"+sha(a.Data)+"|"+strings.Join(opdesc, ";"), fmt.Sprintf("rewrite/rounds=%d/stream=%v/%s", rounds, streaming, strings.Join(s.Classes(), ",")), len(s.Members) >= 1 && rounds >= 1)
		rec.Sample(fmt.Sprintf("rewrite/rounds=%d", rounds), map[string]any{"classes": s.Classes(), "ops": opdesc, "final_members": len(model), "streaming_input": streaming})
	})
}

// rewrite drives zipslicer the way relic's signers do: Mangle -> NewFile -> MakePatch,
// and applies the patch with a harness-owned splice.
func rewrite(data []byte, del map[string]bool, addFiles func(*zipslicer.Mangler) error, forceZip64, streaming bool) (out []byte, err error) {
	defer func() {
		if r := recover(); r != nil {
			err = fmt.Errorf("PANIC: %v", r)
		}
	}()
	var d *zipslicer.Directory
	if streaming {
		path := writeTemp(data)
		defer os.Remove(path)
		f, err := os.Open(path)
		if err != nil {
			return nil, err
		}
		defer f.Close()
		pr, pw := io.Pipe()
		go func() { pw.CloseWithError(zipslicer.ZipToTar(f, pw)) }()
		defer func() { io.Copy(io.Discard, pr); pr.Close() }()
		d, err = zipslicer.ReadZipTar(pr)
		if err != nil {
			return nil, err
		}
	} else {
		d, err = zipslicer.Read(bytes.NewReader(data), int64(len(data)))
		if err != nil {
			return nil, err
		}
	}
	m, err := d.Mangle(func(mf *zipslicer.MangleFile) error {
		if streaming {
			// signers consume every member's content while walking
			rc, err := mf.Open()
			if err != nil {
				return err
			}
			if _, err := io.Copy(io.Discard, rc); err != nil {
				return err
			}
			rc.Close()
		}
		if del[mf.Name] {
			mf.Delete()
		}
		return nil
	})
	if err != nil {
		return nil, err
	}
	if err := addFiles(m); err != nil {
		return nil, err
	}
	ps, err := m.MakePatch(forceZip64)
	if err != nil {
		return nil, err
	}
	// harness-owned splice (binpatch itself is C12's subject)
	type p struct {
		off, old int64
		blob     []byte
	}
	var ps2 []p
	for i, h := range ps.Patches {
		ps2 = append(ps2, p{h.Offset, int64(h.OldSize), ps.Blobs[i]})
	}
	sort.SliceStable(ps2, func(i, j int) bool { return ps2[i].off < ps2[j].off })
	pos := int64(0)
	for _, x := range ps2 {
		if x.off < pos || x.off+x.old > int64(len(data)) {
			return nil, fmt.Errorf("patch range [%d,%d) out of order or out of bounds (file %d)", x.off, x.off+x.old, len(data))
		}
		out = append(out, data[pos:x.off]...)
		out = append(out, x.blob...)
		pos = x.off + x.old
	}
	out = append(out, data[pos:]...)
	return out, nil
}

func readBackAll(data []byte, want []entry) string {
	strip := func(es []entry) []entry {
		o := make([]entry, len(es))
		for i, e := range es {
			o[i] = entry{Name: e.Name, SHA: e.SHA, Offset: -1, DataOff: -1}
		}
		return o
	}
	goEnts, err := goList(data)
	if err != nil {
		return fmt.Sprintf("Go archive/zip cannot read relic's output: %v", err)
	}
	if d := diff("archive/zip on relic output", strip(goEnts), want); d != "" {
		return d
	}
	path := writeTemp(data)
	defer os.Remove(path)
	pyEnts, err := pyList(path)
	if err != nil {
		return fmt.Sprintf("Python zipfile cannot read relic's output: %v", err)
	}
	if d := diff("zipfile on relic output", strip(pyEnts), want); d != "" {
		return d
	}
	// header offsets: relic vs python on relic's own output
	rel, err := relicRandom(data)
	if err != nil {
		return fmt.Sprintf("relic cannot read its own output: %v", err)
	}
	if d := diff("zipslicer.Read on relic output", strip(rel), want); d != "" {
		return d
	}
	for i := range rel {
		if rel[i].Offset != pyEnts[i].Offset || rel[i].CRC != pyEnts[i].CRC || rel[i].CSize != pyEnts[i].CSize || rel[i].USize != pyEnts[i].USize {
			return fmt.Sprintf("member %q: relic offset/crc/sizes %d/%08x/%d/%d, python %d/%08x/%d/%d", rel[i].Name, rel[i].Offset, rel[i].CRC, rel[i].CSize, rel[i].USize, pyEnts[i].Offset, pyEnts[i].CRC, pyEnts[i].CSize, pyEnts[i].USize)
		}
	}
	st, err := relicStream(path)
	if err != nil {
		return fmt.Sprintf("relic cannot stream its own output: %v", err)
	}
	if d := diff("zipslicer.ReadZipTar on relic output", strip(st), want); d != "" {
		return d
	}
	return ""
}

// ---------- regression probes for listed findings ----------

func TestC17_KnownProbes(t *testing.T) {
	one := func(d zipgen.DescKind) zipgen.Member {
		return zipgen.Member{Name: "a.txt", Data: []byte("hello"), Method: zipgen.MethodStore, Descriptor: d, VersionNeeded: 20, VersionMadeBy: 20}
	}
	build := func(s *zipgen.Spec) []byte {
		a, err := zipgen.Build(s)
		if err != nil {
			t.Fatalf("probe build: %v", err)
		}
		if _, err := goList(a.Data); err != nil {
			t.Fatalf("harness error: probe archive rejected by archive/zip: %v", err)
		}
		return a.Data
	}
	if knownSet.Has(kArchiveComment) {
		data := build(&zipgen.Spec{Members: []zipgen.Member{one(zipgen.DescNone)}, ArchiveComment: "hi"})
		if _, err := relicRandom(data); err != nil {
			rec.KnownFinding(kArchiveComment, "valid archive with an archive comment is refused: "+err.Error())
		}
	}
	if knownSet.Has(kSiglessDesc) {
		data := build(&zipgen.Spec{Members: []zipgen.Member{one(zipgen.Desc32NoSig)}})
		if _, err := relicRandom(data); err != nil {
			rec.KnownFinding(kSiglessDesc, "member with a signature-less data descriptor is refused: "+err.Error())
		}
	}
	if knownSet.Has(kStreamCDOrder) {
		m2 := one(zipgen.DescNone)
		m2.Name = "b.txt"
		data := build(&zipgen.Spec{Members: []zipgen.Member{one(zipgen.DescNone), m2}, CDOrder: []int{1, 0}})
		p := writeTemp(data)
		defer os.Remove(p)
		if _, err := relicStream(p); err != nil {
			rec.KnownFinding(kStreamCDOrder, "streaming read of an archive whose directory order differs from file order is refused: "+err.Error())
		}
	}
	if knownSet.Has(kDesc64Empty) {
		m := zipgen.Member{Name: "empty", Method: zipgen.MethodStore, Descriptor: zipgen.Desc64Sig, VersionNeeded: 45, VersionMadeBy: 45}
		m2 := one(zipgen.DescNone)
		a, _ := zipgen.Build(&zipgen.Spec{Members: []zipgen.Member{m, m2}})
		d, err := zipslicer.Read(bytes.NewReader(a.Data), int64(len(a.Data)))
		if err == nil {
			n, err := d.File[0].GetTotalSize()
			if err == nil && n != a.Layout[0].EndOffset-a.Layout[0].LocalHeaderOffset {
				rec.KnownFinding(kDesc64Empty, fmt.Sprintf("24-byte descriptor of a zero-length member is taken for a 16-byte one: member size %d, really %d", n, a.Layout[0].EndOffset-a.Layout[0].LocalHeaderOffset))
			}
		}
	}
	if knownSet.Has(kRewriteGap) {
		data := build(&zipgen.Spec{Members: []zipgen.Member{one(zipgen.DescNone)}, Prefix: []byte("#!/bin/sh\nexit 0\n")})
		out, err := rewrite(data, map[string]bool{}, func(m *zipslicer.Mangler) error { return m.NewFile("new.txt", []byte("x")) }, false, false)
		if err == nil {
			if msg := readBackAll(out, []entry{{Name: "a.txt", SHA: sha([]byte("hello")), Offset: -1, DataOff: -1}, {Name: "new.txt", SHA: sha([]byte("x")), Offset: -1, DataOff: -1}}); msg != "" {
				rec.KnownFinding(kRewriteGap, "rewriting an archive with leading non-archive bytes yields a broken archive without error: "+msg)
			}
		}
	}
	rec.Case("known-probes", "known-probes", false)
}
