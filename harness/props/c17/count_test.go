package c17

// Member counts around 65535, where the 16-bit count of the classic end record
// saturates: archives with 65534..65537 members, with the end records a writer that
// switches to ZIP64 only beyond 65535 entries makes (Python zipfile) and the ones a
// writer that switches at 65535 makes (Go archive/zip, relic).

import (
	"fmt"
	"testing"

	"github.com/sassoftware/relic/v8/lib/zipslicer"
	"github.com/sassoftware/relic/v8/xverif/evid"
	"github.com/sassoftware/relic/v8/xverif/zipgen"
)

func TestC17_MemberCountThreshold(t *testing.T) {
	const test = "TestC17_MemberCountThreshold"
	type variant struct {
		n     int
		style string
	}
	variants := []variant{{65534, "classic"}, {65535, "classic"}, {65535, "zip64"}, {65536, "zip64"}, {65537, "zip64"}}
	if !evid.Thorough() {
		variants = []variant{{65535, "classic"}, {65535, "zip64"}, {65536, "zip64"}}
	}
	for _, v := range variants {
		desc := map[string]any{"members": v.n, "end_records": v.style}
		failf := func(f string, args ...any) {
			desc["error"] = fmt.Sprintf(f, args...)
			evid.SaveCase(test, desc)
			t.Fatalf("%s %v", desc["error"], desc)
		}
		s := &zipgen.Spec{}
		for i := 0; i < v.n; i++ {
			m := zipgen.Member{Name: fmt.Sprintf("m%05d", i), Method: zipgen.MethodStore, VersionNeeded: 20, VersionMadeBy: 20, ModDate: 1<<5 | 1}
			if i%8191 == 0 {
				m.Data = []byte(fmt.Sprintf("content of member %d\n", i))
			}
			s.Members = append(s.Members, m)
		}
		if v.style == "zip64" {
			s.Zip64EOCD, s.Zip64Saturate = true, true
		}
		a, err := zipgen.Build(s)
		if err != nil {
			t.Fatalf("harness: %v", err)
		}
		want := layoutEntries(s, a)
		goEnts, err := goList(a.Data)
		if err != nil {
			t.Fatalf("harness: archive/zip refuses the %d-member archive: %v", v.n, err)
		}
		if d := diff("archive/zip", goEnts, want); d != "" {
			t.Fatalf("harness: %s", d)
		}
		rec.Case(fmt.Sprintf("count|%d|%s", v.n, v.style), "member-count/"+v.style, true)
		rec.Sample("member-count", desc)
		rel, err := relicRandom(a.Data)
		if err != nil {
			failf("relic cannot read a valid archive of %d members (%s end record): %v", v.n, v.style, err)
		}
		if d := diff("zipslicer.Read", rel, want); d != "" {
			failf("%s", d)
		}
		path := writeTemp(a.Data)
		st, err := relicStream(path)
		if err != nil {
			failf("relic cannot stream a valid archive of %d members (%s end record): %v", v.n, v.style, err)
		}
		if d := diff("zipslicer.ReadZipTar", st, want); d != "" {
			failf("%s", d)
		}
		// rewrites that end below, at and above the threshold
		for _, op := range []string{"add", "delete", "delete2"} {
			del := map[string]bool{}
			var want2 []entry
			switch op {
			case "delete":
				del["m00007"] = true
			case "delete2":
				del["m00007"], del["m00009"] = true, true
			}
			for _, e := range want {
				if !del[e.Name] {
					want2 = append(want2, entry{Name: e.Name, SHA: e.SHA, Offset: -1, DataOff: -1})
				}
			}
			added := []byte("added")
			out, err := rewrite(a.Data, del, func(m *zipslicer.Mangler) error {
				if op == "add" {
					return m.NewFile("added.txt", added)
				}
				return nil
			}, false, false)
			if err != nil {
				failf("rewrite (%s) of the %d-member archive: %v", op, v.n, err)
			}
			if op == "add" {
				want2 = append(want2, entry{Name: "added.txt", SHA: sha(added), Offset: -1, DataOff: -1})
			}
			desc["rewrite"] = fmt.Sprintf("%s -> %d members", op, len(want2))
			rec.Case(fmt.Sprintf("count|%d|%s|%s", v.n, v.style, op), "member-count-rewrite/"+v.style, true)
			if d := readBackAll(out, want2); d != "" {
				failf("after %s (%d members): %s", op, len(want2), d)
			}
		}
	}
}
