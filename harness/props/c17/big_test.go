package c17

// Archives beyond 4 GiB: a stored member of 4 GiB + k zero bytes and small members
// behind it, held as a sparse byte string (pieces of real bytes, zeros elsewhere) so
// that neither the harness nor relic has to hold or copy 4 GiB.

import (
	"archive/zip"
	"bytes"
	"compress/flate"
	"encoding/binary"
	"fmt"
	"hash/crc32"
	"io"
	"os"
	"path/filepath"
	"sort"
	"strings"
	"sync"
	"testing"

	"pgregory.net/rapid"

	"github.com/sassoftware/relic/v8/lib/zipslicer"
	"github.com/sassoftware/relic/v8/xverif/evid"
)

type piece struct {
	off  int64
	data []byte
}

// sparse is an io.ReaderAt over zeros with real bytes at the pieces (sorted, disjoint).
type sparse struct {
	size   int64
	pieces []piece
}

func (s *sparse) ReadAt(p []byte, off int64) (int, error) {
	if off >= s.size {
		return 0, io.EOF
	}
	n := len(p)
	if int64(n) > s.size-off {
		n = int(s.size - off)
	}
	clear(p[:n])
	i := sort.Search(len(s.pieces), func(i int) bool { return s.pieces[i].off+int64(len(s.pieces[i].data)) > off })
	for ; i < len(s.pieces) && s.pieces[i].off < off+int64(n); i++ {
		pc := s.pieces[i]
		from, to := max64(pc.off, off), min64(pc.off+int64(len(pc.data)), off+int64(n))
		copy(p[from-off:to-off], pc.data[from-pc.off:to-pc.off])
	}
	if n < len(p) {
		return n, io.EOF
	}
	return n, nil
}

func max64(a, b int64) int64 {
	if a > b {
		return a
	}
	return b
}
func min64(a, b int64) int64 {
	if a < b {
		return a
	}
	return b
}

// slice returns the pieces of [a,b) shifted so that a maps to at.
func (s *sparse) slice(a, b, at int64) []piece {
	var out []piece
	for _, pc := range s.pieces {
		from, to := max64(pc.off, a), min64(pc.off+int64(len(pc.data)), b)
		if from < to {
			out = append(out, piece{from - a + at, pc.data[from-pc.off : to-pc.off]})
		}
	}
	return out
}

// toFile materialises the sparse string as a sparse file (holes stay holes).
func (s *sparse) toFile(path string) error {
	f, err := os.Create(path)
	if err != nil {
		return err
	}
	defer f.Close()
	for _, pc := range s.pieces {
		if _, err := f.WriteAt(pc.data, pc.off); err != nil {
			return err
		}
	}
	return f.Truncate(s.size)
}

var (
	zeroCRC     = map[int64]uint32{}
	zeroCRCLock sync.Mutex
)

func crcOfZeros(n int64) uint32 {
	zeroCRCLock.Lock()
	defer zeroCRCLock.Unlock()
	if c, ok := zeroCRC[n]; ok {
		return c
	}
	buf := make([]byte, 4<<20)
	var c uint32
	for left := n; left > 0; {
		k := min64(left, int64(len(buf)))
		c = crc32.Update(c, crc32.IEEETable, buf[:k])
		left -= k
	}
	zeroCRC[n] = c
	return c
}

type bigMember struct {
	name     string
	data     []byte // nil for a big member
	size     int64  // uncompressed size of a big member (all zero bytes)
	deflated bool   // big member stored as a deflate stream (a few MB)
	desc     bool   // sizes and CRC in a data descriptor behind the data (as streaming writers do)
}

var (
	zeroFlate     = map[int64][]byte{}
	zeroFlateLock sync.Mutex
)

// flateOfZeros is a deflate stream of n zero bytes (about 1.2 MB per GiB).
func flateOfZeros(n int64) []byte {
	zeroFlateLock.Lock()
	defer zeroFlateLock.Unlock()
	if b, ok := zeroFlate[n]; ok {
		return b
	}
	var out bytes.Buffer
	w, _ := flate.NewWriter(&out, flate.BestSpeed)
	buf := make([]byte, 4<<20)
	for left := n; left > 0; {
		k := min64(left, int64(len(buf)))
		w.Write(buf[:k])
		left -= k
	}
	w.Close()
	zeroFlate[n] = out.Bytes()
	return out.Bytes()
}

// buildBig lays the members out back to back with a ZIP64 central directory. style
// "full": every ZIP64 extra carries sizes and offset (24 bytes, what Go writes);
// "minimal": only the values whose 32-bit fields overflow (what APPNOTE describes and
// Python / Info-ZIP write).
func buildBig(members []bigMember, style string) (*sparse, []entry) {
	le := binary.LittleEndian
	s := &sparse{}
	var cd []byte
	var want []entry
	pos := int64(0)
	u16 := func(b []byte, v uint16) []byte { return le.AppendUint16(b, v) }
	u32 := func(b []byte, v uint32) []byte { return le.AppendUint32(b, v) }
	u64 := func(b []byte, v uint64) []byte { return le.AppendUint64(b, v) }
	for _, m := range members {
		usize, csize := m.size, m.size
		var crc uint32
		var method uint16
		payload := m.data
		switch {
		case m.data != nil:
			usize, csize = int64(len(m.data)), int64(len(m.data))
			crc = crc32.ChecksumIEEE(m.data)
		case m.deflated:
			payload = flateOfZeros(usize)
			csize, method = int64(len(payload)), 8
			crc = crcOfZeros(usize)
		default:
			crc = crcOfZeros(usize)
		}
		bigU, bigC, bigOff := usize >= 0xffffffff, csize >= 0xffffffff, pos >= 0xffffffff
		// local header: a ZIP64 extra there always carries both sizes
		var lextra []byte
		u32l, c32l := uint32(usize), uint32(csize)
		if bigU || bigC {
			u32l, c32l = 0xffffffff, 0xffffffff
			lextra = u16(lextra, 1)
			lextra = u16(lextra, 16)
			lextra = u64(u64(lextra, uint64(usize)), uint64(csize))
		}
		ver := uint16(20)
		if bigU || bigC || bigOff {
			ver = 45
		}
		var flags uint16
		lcrc := crc
		if m.desc {
			// what Go's streaming writer does: no sizes in the local header (and no ZIP64
			// extra there), a descriptor of 16 or, for ZIP64 members, 24 bytes behind the data
			flags, lcrc, u32l, c32l, lextra = 8, 0, 0, 0, nil
		}
		var lh []byte
		lh = u32(lh, 0x04034b50)
		lh = u16(u16(u16(lh, ver), flags), method)
		lh = u16(u16(lh, 0), 0x21) // time, date
		lh = u32(u32(u32(lh, lcrc), c32l), u32l)
		lh = u16(u16(lh, uint16(len(m.name))), uint16(len(lextra)))
		lh = append(append(lh, m.name...), lextra...)
		s.pieces = append(s.pieces, piece{pos, lh})
		dataOff := pos + int64(len(lh))
		if len(payload) > 0 {
			s.pieces = append(s.pieces, piece{dataOff, payload})
		}
		// central entry
		var cextra, z []byte
		u32c, c32c, o32 := uint32(usize), uint32(csize), uint32(pos)
		if style == "full" && (bigU || bigC || bigOff) {
			z = u64(u64(u64(z, uint64(usize)), uint64(csize)), uint64(pos))
			u32c, c32c, o32 = 0xffffffff, 0xffffffff, 0xffffffff
		} else {
			if bigU {
				u32c = 0xffffffff
				z = u64(z, uint64(usize))
			}
			if bigC {
				c32c = 0xffffffff
				z = u64(z, uint64(csize))
			}
			if bigOff {
				o32 = 0xffffffff
				z = u64(z, uint64(pos))
			}
		}
		if z != nil {
			cextra = append(u16(u16(cextra, 1), uint16(len(z))), z...)
		}
		cd = centralEntry(cd, ver, flags, method, crc, c32c, u32c, m.name, cextra, o32)
		e := entry{Name: m.name, Offset: pos, DataOff: dataOff, CSize: uint64(csize), USize: uint64(usize), CRC: crc, Method: method}
		if m.data != nil {
			e.SHA = sha(m.data)
		}
		pos = dataOff + csize
		if m.desc {
			d := u32(u32(nil, 0x08074b50), crc)
			if bigU || bigC {
				d = u64(u64(d, uint64(csize)), uint64(usize))
			} else {
				d = u32(u32(d, uint32(csize)), uint32(usize))
			}
			s.pieces = append(s.pieces, piece{pos, d})
			pos += int64(len(d))
		}
		e.End = pos
		want = append(want, e)
	}
	cdOff := pos
	// ZIP64 end of central directory record + locator + end record
	var tail []byte
	tail = u32(tail, 0x06064b50)
	tail = u64(tail, 44)
	tail = u16(u16(tail, 45), 45)
	tail = u32(u32(tail, 0), 0)
	tail = u64(u64(tail, uint64(len(members))), uint64(len(members)))
	tail = u64(u64(tail, uint64(len(cd))), uint64(cdOff))
	tail = u32(tail, 0x07064b50)
	tail = u32(tail, 0)
	tail = u64(tail, uint64(cdOff)+uint64(len(cd)))
	tail = u32(tail, 1)
	tail = u32(tail, 0x06054b50)
	tail = u16(u16(tail, 0), 0)
	tail = u16(u16(tail, uint16(len(members))), uint16(len(members)))
	tail = u32(tail, uint32(len(cd)))
	tail = u32(tail, 0xffffffff)
	tail = u16(tail, 0)
	s.pieces = append(s.pieces, piece{cdOff, append(cd, tail...)})
	s.size = cdOff + int64(len(cd)) + int64(len(tail))
	return s, want
}

func centralEntry(cd []byte, ver, flags, method uint16, crc, csize, usize uint32, name string, extra []byte, off uint32) []byte {
	le := binary.LittleEndian
	cd = le.AppendUint32(cd, 0x02014b50)
	cd = le.AppendUint16(le.AppendUint16(cd, ver), ver)
	cd = le.AppendUint16(le.AppendUint16(cd, flags), method) // flags, method
	cd = le.AppendUint16(le.AppendUint16(cd, 0), 0x21)
	cd = le.AppendUint32(le.AppendUint32(le.AppendUint32(cd, crc), csize), usize)
	cd = le.AppendUint16(le.AppendUint16(le.AppendUint16(cd, uint16(len(name))), uint16(len(extra))), 0)
	cd = le.AppendUint16(le.AppendUint16(cd, 0), 0) // disk, internal attrs
	cd = le.AppendUint32(le.AppendUint32(cd, 0), off)
	return append(append(cd, name...), extra...)
}

// goListSparse lists with archive/zip and reads the content of the small members.
func goListSparse(s *sparse) ([]entry, error) {
	zr, err := zip.NewReader(s, s.size)
	if err != nil {
		return nil, err
	}
	var out []entry
	for _, f := range zr.File {
		off, err := f.DataOffset()
		if err != nil {
			return nil, fmt.Errorf("%q: %w", f.Name, err)
		}
		e := entry{Name: f.Name, Offset: -1, DataOff: off, CSize: f.CompressedSize64, USize: f.UncompressedSize64, CRC: f.CRC32}
		if f.UncompressedSize64 < 1<<20 {
			rc, err := f.Open()
			if err != nil {
				return nil, fmt.Errorf("%q: %w", f.Name, err)
			}
			b, err := io.ReadAll(rc)
			rc.Close()
			if err != nil {
				return nil, fmt.Errorf("%q: %w", f.Name, err)
			}
			e.SHA = sha(b)
		}
		out = append(out, e)
	}
	return out, nil
}

func relicListSparse(s *sparse) (ents []entry, err error) {
	defer func() {
		if r := recover(); r != nil {
			err = fmt.Errorf("PANIC: %v", r)
		}
	}()
	d, err := zipslicer.Read(s, s.size)
	if err != nil {
		return nil, err
	}
	for _, f := range d.File {
		e := entry{Name: f.Name, Offset: int64(f.Offset), DataOff: -1, CSize: f.CompressedSize, USize: f.UncompressedSize, CRC: f.CRC32}
		if size, err := f.GetTotalSize(); err != nil {
			return nil, fmt.Errorf("%q: total size: %w", f.Name, err)
		} else {
			e.End = int64(f.Offset) + size
		}
		if f.UncompressedSize < 1<<20 {
			rc, err := f.Open()
			if err != nil {
				return nil, fmt.Errorf("%q: open: %w", f.Name, err)
			}
			b, err := io.ReadAll(rc)
			rc.Close()
			if err != nil {
				return nil, fmt.Errorf("%q: read: %w", f.Name, err)
			}
			e.SHA = sha(b)
		}
		ents = append(ents, e)
	}
	return ents, nil
}

func compareBig(what string, got, want []entry) string {
	if len(got) != len(want) {
		return fmt.Sprintf("%s: %d members, want %d", what, len(got), len(want))
	}
	for i := range want {
		g, w := got[i], want[i]
		if g.Name != w.Name || g.CSize != w.CSize || g.USize != w.USize || g.CRC != w.CRC {
			return fmt.Sprintf("%s: member %d is %q sizes %d/%d crc %08x, want %q %d/%d %08x", what, i, g.Name, g.CSize, g.USize, g.CRC, w.Name, w.CSize, w.USize, w.CRC)
		}
		if g.Offset >= 0 && w.Offset >= 0 && g.Offset != w.Offset {
			return fmt.Sprintf("%s: member %q header offset %d, want %d", what, g.Name, g.Offset, w.Offset)
		}
		if g.DataOff >= 0 && w.DataOff >= 0 && g.DataOff != w.DataOff {
			return fmt.Sprintf("%s: member %q data offset %d, want %d", what, g.Name, g.DataOff, w.DataOff)
		}
		if w.SHA != "" && g.SHA != w.SHA {
			return fmt.Sprintf("%s: member %q content differs", what, g.Name)
		}
		if g.End > 0 && w.End > 0 && g.End != w.End {
			return fmt.Sprintf("%s: member %q ends at %d (header, data and descriptor), really at %d", what, g.Name, g.End, w.End)
		}
	}
	return ""
}

// bigDir is where sparse files go: tmpfs reads holes much faster than the disk does.
func bigDir() string {
	if st, err := os.Stat("/dev/shm"); err == nil && st.IsDir() {
		return "/dev/shm"
	}
	return workDir
}

// openBig opens the archive with relic: random access over the sparse string, or
// single-pass over the tar stream ZipToTar makes of a (sparse) file.
func openBig(s *sparse, streaming bool) (d *zipslicer.Directory, done func(), err error) {
	if !streaming {
		d, err = zipslicer.Read(s, s.size)
		return d, func() {}, err
	}
	path := filepath.Join(bigDir(), fmt.Sprintf("c17-big-%d.zip", os.Getpid()))
	if err := s.toFile(path); err != nil {
		return nil, nil, fmt.Errorf("harness: %w", err)
	}
	f, err := os.Open(path)
	if err != nil {
		os.Remove(path)
		return nil, nil, fmt.Errorf("harness: %w", err)
	}
	pr, pw := io.Pipe()
	go func() { pw.CloseWithError(zipslicer.ZipToTar(f, pw)) }()
	done = func() { io.Copy(io.Discard, pr); pr.Close(); f.Close(); os.Remove(path) }
	d, err = zipslicer.ReadZipTar(pr)
	if err != nil {
		done()
		return nil, nil, err
	}
	return d, done, nil
}

func TestC17_BeyondFourGiB(t *testing.T) {
	// Python works on a sparse file and the streaming reader goes through every byte of
	// the 4 GiB members (seconds a case): one case in 200 (quick) or 60 (thorough) each
	slowEvery := evid.EnvInt("VERIF_C17_BIG_SLOW", 200)
	if evid.Thorough() {
		slowEvery = 60
	}
	rapid.Check(t, func(t *rapid.T) {
		const test = "TestC17_BeyondFourGiB"
		style := rapid.SampledFrom([]string{"full", "minimal"}).Draw(t, "zip64_style")
		k := int64(rapid.SampledFrom([]int{0, 1, 16, 4096}).Draw(t, "over"))
		kinds := rapid.SliceOfN(rapid.SampledFrom([]string{"small", "small", "small-desc", "stored4g", "deflated4g", "stored4g-desc", "deflated4g-desc"}), 2, 5).Draw(t, "members")
		nBig := 0
		for _, kd := range kinds {
			if !strings.HasPrefix(kd, "small") {
				nBig++
			}
		}
		if nBig == 0 {
			kinds[rapid.IntRange(0, len(kinds)-2).Draw(t, "big_at")] = rapid.SampledFrom([]string{"stored4g", "deflated4g"}).Draw(t, "big_kind")
		}
		// rapid's integers lean towards small values and the bounds: pick a residue in the middle
		lot := rapid.Uint64().Draw(t, "slow_lot")
		withPython := slowEvery > 0 && lot%uint64(slowEvery) == uint64(slowEvery*2/3)
		streaming := slowEvery > 0 && lot%uint64(slowEvery) == uint64(slowEvery/3)
		var members []bigMember
		for i, kd := range kinds {
			switch kd {
			case "small":
				members = append(members, bigMember{name: fmt.Sprintf("m%d.txt", i), data: []byte(fmt.Sprintf("small member %d\n", i))})
			case "small-desc":
				members = append(members, bigMember{name: fmt.Sprintf("m%d.txt", i), data: []byte(fmt.Sprintf("small member %d with a descriptor\n", i)), desc: true})
			case "stored4g", "stored4g-desc":
				members = append(members, bigMember{name: fmt.Sprintf("m%d.bin", i), size: 0xffffffff + 1 + k, desc: kd == "stored4g-desc"})
			case "deflated4g", "deflated4g-desc":
				members = append(members, bigMember{name: fmt.Sprintf("m%d.z", i), size: 0xffffffff + 1 + k, deflated: true, desc: kd == "deflated4g-desc"})
			}
		}
		// one case in three: no 4 GiB member; a stored member sized so that the header of
		// the member behind it, or the central directory, starts exactly at 4 GiB - 2 .. 4 GiB + 1,
		// where the 32-bit offset field saturates
		edge := ""
		if rapid.IntRange(0, 2).Draw(t, "edge_case") == 0 {
			delta := int64(rapid.SampledFrom([]int{-2, -1, 0, 1}).Draw(t, "edge_delta"))
			anchorCD := rapid.Bool().Draw(t, "edge_is_directory")
			target := int64(0xffffffff) + delta
			members = []bigMember{{name: "first.txt", data: []byte("first member\n")}, {name: "filler.bin", size: 0xfff00000}}
			if !anchorCD {
				members = append(members, bigMember{name: "edge.txt", data: []byte("member whose header offset is at the edge\n")},
					bigMember{name: "last.txt", data: []byte("last\n")})
			}
			at := func() int64 {
				sp, w := buildBig(members, style)
				if anchorCD {
					return sp.pieces[len(sp.pieces)-1].off
				}
				return w[2].Offset
			}
			members[1].size += target - at()
			if at() != target {
				t.Fatalf("harness: edge layout landed at %d, want %d", at(), target)
			}
			kinds = []string{"small", "stored-filler", "small", "small"}[:len(members)]
			edge = fmt.Sprintf("%s at 4GiB%+d", map[bool]string{true: "central directory", false: "member header"}[anchorCD], delta-1)
		}
		if edge != "" && lot%5 == 2 {
			// edge layouts are cheap for Python (no member beyond 1 GiB is read): one in 5
			withPython = true
		}
		s, want := buildBig(members, style)
		mode := "random-access"
		if streaming {
			mode = "streaming"
		}
		desc := map[string]any{"zip64_style": style, "over_4GiB_by": k, "members": kinds, "archive_bytes": s.size, "mode": mode}
		if edge != "" {
			desc["edge"] = edge
			delete(desc, "over_4GiB_by")
		}
		failf := func(f string, args ...any) {
			desc["error"] = fmt.Sprintf(f, args...)
			evid.SaveCase(test, desc)
			t.Fatalf("%s\n %v", desc["error"], desc)
		}
		class := "beyond-4GiB/" + style + "/" + mode
		if edge != "" {
			class = "at-4GiB-edge/" + style + "/" + mode
		}
		rec.Case(fmt.Sprintf("big|%s|%d|%v|%s|%s", style, k, kinds, mode, edge), class, true)
		rec.Sample(class, desc)
		goEnts, err := goListSparse(s)
		if err != nil {
			t.Fatalf("harness: archive/zip refuses the generated archive: %v", err)
		}
		if d := compareBig("archive/zip on the generated archive", goEnts, want); d != "" {
			t.Fatalf("harness: %s", d)
		}
		rel, err := relicListSparse(s)
		if err != nil {
			failf("relic cannot read a valid archive larger than 4 GiB (ZIP64 %s): %v", style, err)
		}
		if d := compareBig("zipslicer.Read", rel, want); d != "" {
			failf("%s", d)
		}
		// rewrite: delete one member that has others behind it (they all move), add a file
		victim := members[rapid.IntRange(0, len(members)-2).Draw(t, "delete")].name
		desc["deleted"] = victim
		out, err := rewriteBig(s, victim, streaming)
		if err != nil {
			failf("rewrite (%s): %v", mode, err)
		}
		added := []byte("added by the rewrite\n")
		var want2 []entry
		for _, w := range want {
			if w.Name != victim {
				want2 = append(want2, entry{Name: w.Name, Offset: -1, DataOff: -1, CSize: w.CSize, USize: w.USize, CRC: w.CRC, SHA: w.SHA})
			}
		}
		want2 = append(want2, entry{Name: "added.txt", Offset: -1, DataOff: -1, CSize: uint64(len(added)), USize: uint64(len(added)), CRC: crc32.ChecksumIEEE(added), SHA: sha(added)})
		goOut, err := goListSparse(out)
		if err != nil {
			failf("archive/zip cannot read the archive relic rewrote (deleted %q, added a file): %v", victim, err)
		}
		// the added file may be deflated by relic: its compressed size is relic's choice
		for i := range goOut {
			if i < len(want2) && goOut[i].Name == "added.txt" {
				want2[i].CSize = goOut[i].CSize
			}
		}
		if d := compareBig("archive/zip on the rewritten archive", goOut, want2); d != "" {
			failf("%s", d)
		}
		relOut, err := relicListSparse(out)
		if err != nil {
			failf("relic cannot read the archive it rewrote: %v", err)
		}
		if d := compareBig("zipslicer.Read on the rewritten archive", relOut, want2); d != "" {
			failf("%s", d)
		}
		if withPython {
			path := filepath.Join(bigDir(), fmt.Sprintf("c17-bigout-%d.zip", os.Getpid()))
			defer os.Remove(path)
			if err := out.toFile(path); err != nil {
				t.Fatalf("harness: %v", err)
			}
			l, err := py.List(path)
			if err != nil || !l.OK {
				failf("Python zipfile cannot read the archive relic rewrote: %v %v", err, l)
			}
			if len(l.Members) != len(want2) {
				failf("Python zipfile sees %d members in the rewritten archive, want %d", len(l.Members), len(want2))
			}
			for i, pm := range l.Members {
				// the Python reference does not read members beyond 1 GiB
				if pm.FileSize != want2[i].USize || (pm.ReadError != "" && want2[i].USize < 1<<30) {
					failf("Python zipfile: member %d of the rewritten archive: size %d read error %q, want size %d", i, pm.FileSize, pm.ReadError, want2[i].USize)
				}
			}
		}
	})
}

// rewriteBig deletes one member and adds a file through Mangle / NewFile / MakePatch and
// applies the patch with a harness-owned splice over the sparse representation.
func rewriteBig(s *sparse, victim string, streaming bool) (out *sparse, err error) {
	defer func() {
		if r := recover(); r != nil {
			err = fmt.Errorf("PANIC: %v", r)
		}
	}()
	d, done, err := openBig(s, streaming)
	if err != nil {
		return nil, err
	}
	defer done()
	m, err := d.Mangle(func(mf *zipslicer.MangleFile) error {
		if streaming {
			// signers consume every member's content while walking
			rc, err := mf.Open()
			if err != nil {
				return err
			}
			if _, err := io.Copy(io.Discard, rc); err != nil {
				return err
			}
			rc.Close()
		}
		if mf.Name == victim {
			mf.Delete()
		}
		return nil
	})
	if err != nil {
		return nil, fmt.Errorf("Mangle: %w", err)
	}
	if err := m.NewFile("added.txt", []byte("added by the rewrite\n")); err != nil {
		return nil, fmt.Errorf("NewFile: %w", err)
	}
	ps, err := m.MakePatch(false)
	if err != nil {
		return nil, fmt.Errorf("MakePatch: %w", err)
	}
	type p struct {
		off, old int64
		blob     []byte
	}
	var ps2 []p
	for i, h := range ps.Patches {
		ps2 = append(ps2, p{h.Offset, int64(h.OldSize), ps.Blobs[i]})
	}
	sort.SliceStable(ps2, func(i, j int) bool { return ps2[i].off < ps2[j].off })
	out = &sparse{}
	pos, at := int64(0), int64(0)
	for _, x := range ps2 {
		if x.off < pos || x.off+x.old > s.size {
			return nil, fmt.Errorf("patch range [%d,%d) out of order or out of bounds (file %d)", x.off, x.off+x.old, s.size)
		}
		out.pieces = append(out.pieces, s.slice(pos, x.off, at)...)
		at += x.off - pos
		if len(x.blob) > 0 {
			out.pieces = append(out.pieces, piece{at, x.blob})
			at += int64(len(x.blob))
		}
		pos = x.off + x.old
	}
	out.pieces = append(out.pieces, s.slice(pos, s.size, at)...)
	out.size = at + s.size - pos
	return out, nil
}
