package c17

// Archives beyond 4 GiB: a stored member of 4 GiB + k zero bytes and small members
// behind it, held as a sparse byte string (pieces of real bytes, zeros elsewhere) so
// that neither the harness nor relic has to hold or copy 4 GiB.

import (
	"archive/zip"
	"encoding/binary"
	"fmt"
	"hash/crc32"
	"io"
	"os"
	"sort"
	"sync"
	"testing"

	"pgregory.net/rapid"

	"github.com/sassoftware/relic/v8/lib/zipslicer"
	"github.com/sassoftware/relic/v8/xverif/evid"
)

type piece struct {
	off  int64
	data []byte
}

// sparse is an io.ReaderAt over zeros with real bytes at the pieces (sorted, disjoint).
type sparse struct {
	size   int64
	pieces []piece
}

func (s *sparse) ReadAt(p []byte, off int64) (int, error) {
	if off >= s.size {
		return 0, io.EOF
	}
	n := len(p)
	if int64(n) > s.size-off {
		n = int(s.size - off)
	}
	clear(p[:n])
	i := sort.Search(len(s.pieces), func(i int) bool { return s.pieces[i].off+int64(len(s.pieces[i].data)) > off })
	for ; i < len(s.pieces) && s.pieces[i].off < off+int64(n); i++ {
		pc := s.pieces[i]
		from, to := max64(pc.off, off), min64(pc.off+int64(len(pc.data)), off+int64(n))
		copy(p[from-off:to-off], pc.data[from-pc.off:to-pc.off])
	}
	if n < len(p) {
		return n, io.EOF
	}
	return n, nil
}

func max64(a, b int64) int64 {
	if a > b {
		return a
	}
	return b
}
func min64(a, b int64) int64 {
	if a < b {
		return a
	}
	return b
}

// slice returns the pieces of [a,b) shifted so that a maps to at.
func (s *sparse) slice(a, b, at int64) []piece {
	var out []piece
	for _, pc := range s.pieces {
		from, to := max64(pc.off, a), min64(pc.off+int64(len(pc.data)), b)
		if from < to {
			out = append(out, piece{from - a + at, pc.data[from-pc.off : to-pc.off]})
		}
	}
	return out
}

// toFile materialises the sparse string as a sparse file (holes stay holes).
func (s *sparse) toFile(path string) error {
	f, err := os.Create(path)
	if err != nil {
		return err
	}
	defer f.Close()
	for _, pc := range s.pieces {
		if _, err := f.WriteAt(pc.data, pc.off); err != nil {
			return err
		}
	}
	return f.Truncate(s.size)
}

var (
	zeroCRC     = map[int64]uint32{}
	zeroCRCLock sync.Mutex
)

func crcOfZeros(n int64) uint32 {
	zeroCRCLock.Lock()
	defer zeroCRCLock.Unlock()
	if c, ok := zeroCRC[n]; ok {
		return c
	}
	buf := make([]byte, 4<<20)
	var c uint32
	for left := n; left > 0; {
		k := min64(left, int64(len(buf)))
		c = crc32.Update(c, crc32.IEEETable, buf[:k])
		left -= k
	}
	zeroCRC[n] = c
	return c
}

type bigMember struct {
	name string
	data []byte // nil for the big member
	size int64
}

// buildBig lays the members out back to back with a ZIP64 central directory. style
// "full": every ZIP64 extra carries sizes and offset (24 bytes, what Go writes);
// "minimal": only the values whose 32-bit fields overflow (what APPNOTE describes and
// Python / Info-ZIP write).
func buildBig(members []bigMember, style string) (*sparse, []entry) {
	le := binary.LittleEndian
	s := &sparse{}
	var cd []byte
	var want []entry
	pos := int64(0)
	u16 := func(b []byte, v uint16) []byte { return le.AppendUint16(b, v) }
	u32 := func(b []byte, v uint32) []byte { return le.AppendUint32(b, v) }
	u64 := func(b []byte, v uint64) []byte { return le.AppendUint64(b, v) }
	for _, m := range members {
		size := m.size
		var crc uint32
		if m.data != nil {
			size = int64(len(m.data))
			crc = crc32.ChecksumIEEE(m.data)
		} else {
			crc = crcOfZeros(size)
		}
		bigSize, bigOff := size >= 0xffffffff, pos >= 0xffffffff
		// local header (sizes in a ZIP64 extra when they do not fit)
		var lextra []byte
		s32 := uint32(size)
		if bigSize {
			s32 = 0xffffffff
			lextra = u16(lextra, 1)
			lextra = u16(lextra, 16)
			lextra = u64(u64(lextra, uint64(size)), uint64(size))
		}
		ver := uint16(20)
		if bigSize || bigOff {
			ver = 45
		}
		var lh []byte
		lh = u32(lh, 0x04034b50)
		lh = u16(u16(u16(lh, ver), 0), 0) // version, flags, method stored
		lh = u16(u16(lh, 0), 0x21)        // time, date
		lh = u32(u32(u32(lh, crc), s32), s32)
		lh = u16(u16(lh, uint16(len(m.name))), uint16(len(lextra)))
		lh = append(append(lh, m.name...), lextra...)
		s.pieces = append(s.pieces, piece{pos, lh})
		dataOff := pos + int64(len(lh))
		if m.data != nil && len(m.data) > 0 {
			s.pieces = append(s.pieces, piece{dataOff, m.data})
		}
		// central entry
		var cextra []byte
		o32 := uint32(pos)
		var z []byte
		if style == "full" && (bigSize || bigOff) {
			z = u64(u64(u64(z, uint64(size)), uint64(size)), uint64(pos))
			s32c := uint32(0xffffffff)
			o32 = 0xffffffff
			cextra = append(u16(u16(cextra, 1), uint16(len(z))), z...)
			cd = centralEntry(cd, ver, crc, s32c, s32c, m.name, cextra, o32)
		} else {
			s32c := uint32(size)
			if bigSize {
				s32c = 0xffffffff
				z = u64(u64(z, uint64(size)), uint64(size))
			}
			if bigOff {
				o32 = 0xffffffff
				z = u64(z, uint64(pos))
			}
			if z != nil {
				cextra = append(u16(u16(cextra, 1), uint16(len(z))), z...)
			}
			cd = centralEntry(cd, ver, crc, s32c, s32c, m.name, cextra, o32)
		}
		e := entry{Name: m.name, Offset: pos, DataOff: dataOff, CSize: uint64(size), USize: uint64(size), CRC: crc}
		if m.data != nil {
			e.SHA = sha(m.data)
		}
		want = append(want, e)
		pos = dataOff + size
	}
	cdOff := pos
	// ZIP64 end of central directory record + locator + end record
	var tail []byte
	tail = u32(tail, 0x06064b50)
	tail = u64(tail, 44)
	tail = u16(u16(tail, 45), 45)
	tail = u32(u32(tail, 0), 0)
	tail = u64(u64(tail, uint64(len(members))), uint64(len(members)))
	tail = u64(u64(tail, uint64(len(cd))), uint64(cdOff))
	tail = u32(tail, 0x07064b50)
	tail = u32(tail, 0)
	tail = u64(tail, uint64(cdOff)+uint64(len(cd)))
	tail = u32(tail, 1)
	tail = u32(tail, 0x06054b50)
	tail = u16(u16(tail, 0), 0)
	tail = u16(u16(tail, uint16(len(members))), uint16(len(members)))
	tail = u32(tail, uint32(len(cd)))
	tail = u32(tail, 0xffffffff)
	tail = u16(tail, 0)
	s.pieces = append(s.pieces, piece{cdOff, append(cd, tail...)})
	s.size = cdOff + int64(len(cd)) + int64(len(tail))
	return s, want
}

func centralEntry(cd []byte, ver uint16, crc, csize, usize uint32, name string, extra []byte, off uint32) []byte {
	le := binary.LittleEndian
	cd = le.AppendUint32(cd, 0x02014b50)
	cd = le.AppendUint16(le.AppendUint16(cd, ver), ver)
	cd = le.AppendUint16(le.AppendUint16(cd, 0), 0) // flags, method
	cd = le.AppendUint16(le.AppendUint16(cd, 0), 0x21)
	cd = le.AppendUint32(le.AppendUint32(le.AppendUint32(cd, crc), csize), usize)
	cd = le.AppendUint16(le.AppendUint16(le.AppendUint16(cd, uint16(len(name))), uint16(len(extra))), 0)
	cd = le.AppendUint16(le.AppendUint16(cd, 0), 0) // disk, internal attrs
	cd = le.AppendUint32(le.AppendUint32(cd, 0), off)
	return append(append(cd, name...), extra...)
}

// goListSparse lists with archive/zip and reads the content of the small members.
func goListSparse(s *sparse) ([]entry, error) {
	zr, err := zip.NewReader(s, s.size)
	if err != nil {
		return nil, err
	}
	var out []entry
	for _, f := range zr.File {
		off, err := f.DataOffset()
		if err != nil {
			return nil, fmt.Errorf("%q: %w", f.Name, err)
		}
		e := entry{Name: f.Name, Offset: -1, DataOff: off, CSize: f.CompressedSize64, USize: f.UncompressedSize64, CRC: f.CRC32}
		if f.UncompressedSize64 < 1<<20 {
			rc, err := f.Open()
			if err != nil {
				return nil, fmt.Errorf("%q: %w", f.Name, err)
			}
			b, err := io.ReadAll(rc)
			rc.Close()
			if err != nil {
				return nil, fmt.Errorf("%q: %w", f.Name, err)
			}
			e.SHA = sha(b)
		}
		out = append(out, e)
	}
	return out, nil
}

func relicListSparse(s *sparse) (ents []entry, err error) {
	defer func() {
		if r := recover(); r != nil {
			err = fmt.Errorf("PANIC: %v", r)
		}
	}()
	d, err := zipslicer.Read(s, s.size)
	if err != nil {
		return nil, err
	}
	for _, f := range d.File {
		e := entry{Name: f.Name, Offset: int64(f.Offset), DataOff: -1, CSize: f.CompressedSize, USize: f.UncompressedSize, CRC: f.CRC32}
		if f.UncompressedSize < 1<<20 {
			rc, err := f.Open()
			if err != nil {
				return nil, fmt.Errorf("%q: open: %w", f.Name, err)
			}
			b, err := io.ReadAll(rc)
			rc.Close()
			if err != nil {
				return nil, fmt.Errorf("%q: read: %w", f.Name, err)
			}
			e.SHA = sha(b)
		}
		ents = append(ents, e)
	}
	return ents, nil
}

func compareBig(what string, got, want []entry) string {
	if len(got) != len(want) {
		return fmt.Sprintf("%s: %d members, want %d", what, len(got), len(want))
	}
	for i := range want {
		g, w := got[i], want[i]
		if g.Name != w.Name || g.CSize != w.CSize || g.USize != w.USize || g.CRC != w.CRC {
			return fmt.Sprintf("%s: member %d is %q sizes %d/%d crc %08x, want %q %d/%d %08x", what, i, g.Name, g.CSize, g.USize, g.CRC, w.Name, w.CSize, w.USize, w.CRC)
		}
		if g.Offset >= 0 && w.Offset >= 0 && g.Offset != w.Offset {
			return fmt.Sprintf("%s: member %q header offset %d, want %d", what, g.Name, g.Offset, w.Offset)
		}
		if g.DataOff >= 0 && w.DataOff >= 0 && g.DataOff != w.DataOff {
			return fmt.Sprintf("%s: member %q data offset %d, want %d", what, g.Name, g.DataOff, w.DataOff)
		}
		if w.SHA != "" && g.SHA != w.SHA {
			return fmt.Sprintf("%s: member %q content differs", what, g.Name)
		}
	}
	return ""
}

func TestC17_BeyondFourGiB(t *testing.T) {
	// Python reads the whole 4 GiB member (about 2.5 s): one case in 500 (quick) or 25
	pyEvery := evid.EnvInt("VERIF_C17_BIG_PYTHON", 500)
	if evid.Thorough() {
		pyEvery = 25
	}
	rapid.Check(t, func(t *rapid.T) {
		const test = "TestC17_BeyondFourGiB"
		style := rapid.SampledFrom([]string{"full", "minimal"}).Draw(t, "zip64_style")
		k := int64(rapid.SampledFrom([]int{0, 1, 16, 4096}).Draw(t, "over"))
		bigFirst := rapid.Bool().Draw(t, "big_first")
		nAfter := rapid.IntRange(1, 3).Draw(t, "members_after")
		// rapid's integers lean towards small values and the bounds: pick a residue in the middle
		withPython := pyEvery > 0 && rapid.Uint64().Draw(t, "python_lot")%uint64(pyEvery) == uint64(pyEvery*2/3)
		var members []bigMember
		if !bigFirst {
			members = append(members, bigMember{name: "a.txt", data: []byte("first member\n")})
		}
		members = append(members, bigMember{name: "big.bin", size: 0xffffffff + 1 + k})
		for i := 0; i < nAfter; i++ {
			members = append(members, bigMember{name: fmt.Sprintf("after%d.txt", i), data: []byte(fmt.Sprintf("member %d located above four gibibytes\n", i))})
		}
		s, want := buildBig(members, style)
		desc := map[string]any{"zip64_style": style, "big_member_bytes": members[len(members)-nAfter-1].size, "big_first": bigFirst, "members_after": nAfter}
		failf := func(f string, args ...any) {
			desc["error"] = fmt.Sprintf(f, args...)
			evid.SaveCase(test, desc)
			t.Fatalf("%s\n %v", desc["error"], desc)
		}
		rec.Case(fmt.Sprintf("big|%s|%d|%v|%d", style, k, bigFirst, nAfter), "beyond-4GiB/"+style, true)
		rec.Sample("beyond-4GiB/"+style, desc)
		goEnts, err := goListSparse(s)
		if err != nil {
			t.Fatalf("harness: archive/zip refuses the generated archive: %v", err)
		}
		if d := compareBig("archive/zip on the generated archive", goEnts, want); d != "" {
			t.Fatalf("harness: %s", d)
		}
		rel, err := relicListSparse(s)
		if err != nil {
			failf("relic cannot read a valid archive larger than 4 GiB (ZIP64 %s): %v", style, err)
		}
		if d := compareBig("zipslicer.Read", rel, want); d != "" {
			failf("%s", d)
		}
		// rewrite: delete the first member (everything behind it moves), add a file
		d, err := zipslicer.Read(s, s.size)
		if err != nil {
			failf("re-open: %v", err)
		}
		victim := members[0].name
		if victim == "big.bin" {
			victim = members[1].name // keep the big member, drop the one right behind it
		}
		m, err := d.Mangle(func(mf *zipslicer.MangleFile) error {
			if mf.Name == victim {
				mf.Delete()
			}
			return nil
		})
		if err != nil {
			failf("Mangle: %v", err)
		}
		added := []byte("added by the rewrite\n")
		if err := m.NewFile("added.txt", added); err != nil {
			failf("NewFile: %v", err)
		}
		ps, err := m.MakePatch(false)
		if err != nil {
			failf("MakePatch: %v", err)
		}
		type p struct {
			off, old int64
			blob     []byte
		}
		var ps2 []p
		for i, h := range ps.Patches {
			ps2 = append(ps2, p{h.Offset, int64(h.OldSize), ps.Blobs[i]})
		}
		sort.SliceStable(ps2, func(i, j int) bool { return ps2[i].off < ps2[j].off })
		out := &sparse{}
		pos, at := int64(0), int64(0)
		for _, x := range ps2 {
			if x.off < pos || x.off+x.old > s.size {
				failf("patch range [%d,%d) out of order or out of bounds", x.off, x.off+x.old)
			}
			out.pieces = append(out.pieces, s.slice(pos, x.off, at)...)
			at += x.off - pos
			if len(x.blob) > 0 {
				out.pieces = append(out.pieces, piece{at, x.blob})
				at += int64(len(x.blob))
			}
			pos = x.off + x.old
		}
		out.pieces = append(out.pieces, s.slice(pos, s.size, at)...)
		out.size = at + s.size - pos
		var want2 []entry
		for _, w := range want {
			if w.Name != victim {
				want2 = append(want2, entry{Name: w.Name, Offset: -1, DataOff: -1, CSize: w.CSize, USize: w.USize, CRC: w.CRC, SHA: w.SHA})
			}
		}
		want2 = append(want2, entry{Name: "added.txt", Offset: -1, DataOff: -1, CSize: uint64(len(added)), USize: uint64(len(added)), CRC: crc32.ChecksumIEEE(added), SHA: sha(added)})
		goOut, err := goListSparse(out)
		if err != nil {
			failf("archive/zip cannot read the archive relic rewrote (deleted %q, added a file): %v", victim, err)
		}
		// stored added file may be deflated by relic: compare names, uncompressed sizes, content
		for i := range goOut {
			if i < len(want2) && goOut[i].Name == "added.txt" {
				want2[i].CSize, want2[i].CRC = goOut[i].CSize, goOut[i].CRC
			}
		}
		if d := compareBig("archive/zip on the rewritten archive", goOut, want2); d != "" {
			failf("%s", d)
		}
		relOut, err := relicListSparse(out)
		if err != nil {
			failf("relic cannot read the archive it rewrote: %v", err)
		}
		if d := compareBig("zipslicer.Read on the rewritten archive", relOut, want2); d != "" {
			failf("%s", d)
		}
		if withPython {
			path := writeTemp(nil)
			defer os.Remove(path)
			if err := out.toFile(path); err != nil {
				t.Fatalf("harness: %v", err)
			}
			l, err := py.List(path)
			if err != nil || !l.OK {
				failf("Python zipfile cannot read the archive relic rewrote: %v %v", err, l)
			}
			if len(l.Members) != len(want2) {
				failf("Python zipfile sees %d members in the rewritten archive, want %d", len(l.Members), len(want2))
			}
			for i, pm := range l.Members {
				if pm.FileSize != want2[i].USize || (pm.ReadError != "" && want2[i].USize < 1<<20) {
					failf("Python zipfile: member %d of the rewritten archive: size %d read error %q, want size %d", i, pm.FileSize, pm.ReadError, want2[i].USize)
				}
			}
		}
	})
}
