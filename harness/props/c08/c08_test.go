// C08 — re-signing replaces the signature; digests ignore existing signatures.
//
// Stateful: histories of sign(key, digest, flags) starting from unsigned, relic-signed
// or third-party-signed artefacts; invariants checked after every step.
package c08

import (
	"archive/zip"
	"bufio"
	"bytes"
	"crypto"
	"encoding/base64"
	"fmt"
	"io"
	"os"
	"path"
	"path/filepath"
	"sort"
	"strings"
	"testing"
	"unicode/utf16"

	"pgregory.net/rapid"

	"github.com/sassoftware/relic/v8/signers"
	"github.com/sassoftware/relic/v8/xverif/arts"
	"github.com/sassoftware/relic/v8/xverif/cfb"
	"github.com/sassoftware/relic/v8/xverif/der"
	"github.com/sassoftware/relic/v8/xverif/evid"
	"github.com/sassoftware/relic/v8/xverif/keys"
	"github.com/sassoftware/relic/v8/xverif/known"
	"github.com/sassoftware/relic/v8/xverif/pegen"
	"github.com/sassoftware/relic/v8/xverif/pipe"
)

var (
	rec      = evid.New("C08")
	knownSet = known.Load("C08")
	env      *pipe.Env
	workDir  string
)

const (
	kXapResign  = "C08:xap-resign-refused"
	kVsixResign = "C08:vsix-resign-unreadable"
)

func TestMain(m *testing.M) {
	rec.Rule("cases = histories sign^n (n 1-5 quick) with drawn key, digest and flags per step over one artefact (generated PE, MSI, JAR, PowerShell; fixtures incl. third-party-signed exe/appx/rpm) with invariants after every step: verifies under the latest key only, exactly one signature (DEB: one per role), payload equals the original per independent reader, embedded content digest for a given algorithm is the same as on the first occurrence and equals an independent recomputation where a reference exists (PE), is-signed probe false before / true after; non-trivial = history with >= 2 signings that differ in key or digest; distinct = (format, input sha256, step list)")
	var err error
	workDir, err = os.MkdirTemp("", "c08-")
	if err != nil {
		panic(err)
	}

	arts.ExcludePEFewDirs = true
	arts.ExcludeJAREdgeSpace = true
	env, err = pipe.Setup(workDir)
	if err != nil {
		panic(err)
	}
	code := m.Run()
	rec.Set("server_pipeline_transport_retries", pipe.TransportRetries)
	rec.Flush()
	os.RemoveAll(workDir)
	os.Exit(code)
}

var formats = []string{"pe", "msi", "jar", "ps", "cab", "cat", "xap", "vsix", "appx", "apk", "dmg", "pkg", "macho", "rpm", "deb", "appmanifest"}

// contentDigest extracts the content digest embedded in the signature, by means that
// do not involve relic: (algorithm OID, digest) or ok=false when no extractor exists.
func contentDigest(format string, data []byte) (alg string, digest []byte, ok bool, err error) {
	var p7 []byte
	switch format {
	case "pe":
		tbl, e := pegen.CertTable(data)
		if e != nil {
			return "", nil, true, e
		}
		ents, e := pegen.ParseCertTable(tbl)
		if e != nil || len(ents) == 0 {
			return "", nil, true, fmt.Errorf("no certificate table entries: %v", e)
		}
		if len(ents) != 1 {
			return "", nil, true, fmt.Errorf("%d certificate table entries", len(ents))
		}
		p7 = ents[0].Data
	case "msi":
		f, e := cfb.Parse(data)
		if e != nil {
			return "", nil, true, e
		}
		for _, it := range f.Items() {
			if it.Path == cfb.SigStreamName {
				p7 = it.Data
			}
		}
		if p7 == nil {
			return "", nil, true, fmt.Errorf("no signature stream")
		}
	case "ps":
		text := string(data)
		if len(data) >= 2 && data[0] == 0xff && data[1] == 0xfe {
			u := make([]uint16, 0, len(data)/2)
			for i := 2; i+1 < len(data); i += 2 {
				u = append(u, uint16(data[i])|uint16(data[i+1])<<8)
			}
			text = string(utf16.Decode(u))
		}
		i := strings.Index(text, "SIG # Begin signature block")
		j := strings.Index(text, "SIG # End signature block")
		if i < 0 || j < i {
			return "", nil, true, fmt.Errorf("no signature block")
		}
		if strings.Count(text, "SIG # Begin signature block") != 1 {
			return "", nil, true, fmt.Errorf("%d signature blocks", strings.Count(text, "SIG # Begin signature block"))
		}
		var b64 strings.Builder
		sc := bufio.NewScanner(strings.NewReader(text[i:j]))
		first := true
		for sc.Scan() {
			line := sc.Text()
			if first {
				first = false
				continue
			}
			line = strings.TrimSpace(line)
			for _, pre := range []string{"# ", "<!-- ", "/* "} {
				line = strings.TrimPrefix(line, pre)
			}
			for _, suf := range []string{" -->", " */"} {
				line = strings.TrimSuffix(line, suf)
			}
			if line == "" || strings.Contains(line, "SIG #") || line == "#" || line == "<!--" || line == "/*" {
				continue
			}
			b64.WriteString(line)
		}
		raw, e := base64.StdEncoding.DecodeString(b64.String())
		if e != nil {
			return "", nil, true, fmt.Errorf("signature block is not base64: %v", e)
		}
		p7 = raw
	default:
		return "", nil, false, nil
	}
	if tlv, _, e := der.Parse(p7); e == nil {
		p7 = tlv.Raw // containers pad the PKCS#7 to their own alignment
	}
	sd, e := der.ParseSignedData(p7)
	if e != nil {
		return "", nil, true, fmt.Errorf("embedded PKCS#7 unparsable: %v", e)
	}
	if len(sd.SignerInfos) != 1 {
		return "", nil, true, fmt.Errorf("%d SignerInfos in the embedded PKCS#7", len(sd.SignerInfos))
	}
	alg, digest, e = der.SpcIndirectDigest(sd.EContentValueBytes)
	return alg, digest, true, e
}

// jarFileDigests: per-file "<alg>-Digest" attributes of MANIFEST.MF.
func jarFileDigests(data []byte) (map[string]string, int, error) {
	zr, err := zip.NewReader(bytes.NewReader(data), int64(len(data)))
	if err != nil {
		return nil, 0, err
	}
	out := map[string]string{}
	sigfiles := 0
	for _, f := range zr.File {
		up := strings.ToUpper(f.Name)
		if strings.HasPrefix(up, "META-INF/") && !strings.Contains(up[len("META-INF/"):], "/") && (strings.HasSuffix(up, ".RSA") || strings.HasSuffix(up, ".EC") || strings.HasSuffix(up, ".DSA")) {
			sigfiles++
		}
		if f.Name != "META-INF/MANIFEST.MF" {
			continue
		}
		rc, _ := f.Open()
		blob, _ := io.ReadAll(rc)
		rc.Close()
		text := strings.ReplaceAll(string(blob), "\r\n", "\n")
		text = strings.ReplaceAll(text, "\n ", "") // unfold
		for _, section := range strings.Split(text, "\n\n") {
			name := ""
			var digs []string
			for _, line := range strings.Split(section, "\n") {
				if strings.HasPrefix(line, "Name: ") {
					name = line[6:]
				} else if i := strings.Index(line, "-Digest: "); i > 0 {
					digs = append(digs, line)
				}
			}
			sort.Strings(digs)
			for _, d := range digs {
				out[name+"|"+d[:strings.Index(d, ":")]] = d
			}
		}
	}
	return out, sigfiles, nil
}

type step struct {
	Key   string            `json:"key"`
	Hash  string            `json:"digest"`
	Flags map[string]string `json:"flags,omitempty"`
	Pipe  string            `json:"pipeline"`
	Note  string            `json:"note,omitempty"`
}

type history struct {
	Format  string   `json:"format"`
	Input   string   `json:"input"`
	Classes []string `json:"classes"`
	Steps   []step   `json:"steps"`
	Error   string   `json:"error,omitempty"`
}

var counter int

func hashesFor(format string) []crypto.Hash {
	switch format {
	case "apk":
		return []crypto.Hash{crypto.SHA256, crypto.SHA512}
	case "macho", "dmg":
		return []crypto.Hash{crypto.SHA1, crypto.SHA256}
	case "pkg":
		return []crypto.Hash{crypto.SHA1, crypto.SHA256, crypto.SHA512}
	case "appx", "rpm", "deb":
		return []crypto.Hash{crypto.SHA256, crypto.SHA384, crypto.SHA512}
	}
	return []crypto.Hash{crypto.SHA1, crypto.SHA256, crypto.SHA384, crypto.SHA512}
}

func TestC08_Histories(t *testing.T) {
	maxSteps := evid.EnvInt("VERIF_C08_STEPS", 5)
	for _, f := range formats {
		format := f
		t.Run(format, func(t *testing.T) {
			rapid.Check(t, func(t *rapid.T) {
				a := arts.Gen(t, format)
				counter++
				dir := filepath.Join(workDir, fmt.Sprintf("case%d", counter))
				os.Mkdir(dir, 0o755)
				defer os.RemoveAll(dir)
				path := filepath.Join(dir, a.Name)
				os.WriteFile(path, a.Data, 0o644)
				h := &history{Format: format, Input: a.Name, Classes: a.Classes}
				failf := func(f string, args ...any) {
					h.Error = fmt.Sprintf(f, args...)
					evid.SaveCase("TestC08_"+format, h)
					if d := os.Getenv("VERIF_REPLAY_OUT"); d != "" {
						os.WriteFile(filepath.Join(d, "TestC08_"+format+".input-"+a.Name), a.Data, 0o644)
					}
					t.Fatalf("%s\n history: %+v", h.Error, *h)
				}
				mod, err := signers.ByFile(path, a.SigType)
				if err != nil {
					t.Fatalf("harness: %v", err)
				}
				isSigned := func() (bool, error) {
					f, err := os.Open(path)
					if err != nil {
						return false, err
					}
					defer f.Close()
					return mod.IsSigned(f)
				}
				// the starting point: is it signed already (third-party fixture)?
				startSigned, err := isSigned()
				if a.Generated && containsClass(a.Classes, "presigned") {
					// generated "third-party" signature containers hold opaque bytes, not a real
					// PKCS#7: the probe may legitimately say "cannot tell"
					startSigned, err = true, nil
				}
				if err != nil {
					failf("is-signed probe failed on the starting artefact: %v", err)
				}
				if a.Generated && !containsClass(a.Classes, "presigned") && startSigned {
					failf("is-signed probe says true for an unsigned generated input")
				}
				firstDigest := map[string][]byte{}
				var jarDigests map[string]string
				roles := map[string]string{} // deb role -> key
				n := rapid.IntRange(1, maxSteps).Draw(t, "nsteps")
				differ := false
				for i := 0; i < n; i++ {
					key := rapid.SampledFrom(pipe.SigningKeys).Draw(t, "key")
					if arts.PgpFormats[format] {
						key = rapid.SampledFrom([]string{"rsa2048a", "rsa3072"}).Draw(t, "pgpkey")
					}
					hash := rapid.SampledFrom(hashesFor(format)).Draw(t, "hash")
					flags := map[string]string{}
					role := "builder"
					if format == "deb" {
						role = rapid.SampledFrom([]string{"builder", "origin", "maint"}).Draw(t, "role")
						flags["role"] = role
					}
					if format == "msi" && rapid.Bool().Draw(t, "noext") {
						flags["no-extended-sig"] = "true"
					}
					if format == "jar" && rapid.Bool().Draw(t, "alias") {
						flags["key-alias"] = rapid.SampledFrom([]string{"one", "two"}).Draw(t, "aliasname")
					}
					pl := rapid.SampledFrom([]string{"L", "L", "L", "S"}).Draw(t, "pipeline")
					st := step{Key: key, Hash: hash.String(), Flags: flags, Pipe: pl}
					if i > 0 && (h.Steps[i-1].Key != key || h.Steps[i-1].Hash != st.Hash) {
						differ = true
					}
					h.Steps = append(h.Steps, st)
					resign := i > 0 || startSigned
					if format == "jar" && i > 0 && rapid.IntRange(0, 3).Draw(t, "lowercase_sig_names") == 0 {
						// signature file names are not case sensitive: what another tool may have
						// written as META-INF/first.sf / first.rsa is still the old signature
						if cur, err := os.ReadFile(path); err == nil {
							if low := lowerCaseSignatureNames(cur); low != nil {
								os.WriteFile(path, low, 0o644)
								if _, err := env.Verify(&pipe.VerifyReq{Path: path}); err != nil {
									os.WriteFile(path, cur, 0o644) // not a valid starting point after all
								} else {
									st.Note = "signature members renamed to lower case before this step"
									h.Steps[len(h.Steps)-1] = st
								}
							}
						}
					}
					if resign && format == "xap" && knownSet.Has(kXapResign) {
						rec.Excluded(kXapResign)
						break
					}
					if resign && format == "vsix" && knownSet.Has(kVsixResign) {
						rec.Excluded(kVsixResign)
						break
					}
					req := &pipe.Req{SigType: a.SigType, In: path, Key: key, Hash: hash, Flags: flags}
					if pl == "S" {
						err = env.SignServer(req)
					} else {
						err = env.SignLib(req)
					}
					if err != nil {
						failf("step %d: signing failed: %v", i, err)
					}
					cur, _ := os.ReadFile(path)
					// 1. is-signed
					if s, err := isSigned(); err != nil || !s {
						failf("step %d: is-signed probe on relic's output: %v %v", i, s, err)
					}
					// 2. verifies under the latest key, and only one signature (per slot)
					sigs, err := env.Verify(&pipe.VerifyReq{Path: path})
					if err != nil {
						failf("step %d: output does not verify: %v", i, err)
					}
					if format == "deb" {
						roles[role] = key
						if len(sigs) != len(roles) {
							failf("step %d: %d signatures for %d signed roles %v", i, len(sigs), len(roles), roles)
						}
						for _, s := range sigs {
							wantKey, ok := roles[s.Sig.SigInfo]
							if !ok {
								failf("step %d: signature for role %q that was never signed", i, s.Sig.SigInfo)
							}
							if s.Sig.SignerPgp == nil || s.Sig.SignerPgp.PrimaryKey.KeyId != env.Pgp[wantKey].PrimaryKey.KeyId {
								failf("step %d: role %q is not signed by the latest key %s", i, s.Sig.SigInfo, wantKey)
							}
						}
					} else {
						if len(sigs) != 1 {
							failf("step %d: %d signatures after re-signing, want 1", i, len(sigs))
						}
						s := sigs[0]
						okID := false
						if s.Leaf != nil && bytes.Equal(s.Leaf.Raw, env.Leaf[key].Raw) {
							okID = true
						}
						if s.Sig.SignerPgp != nil && env.Pgp[key] != nil && s.Sig.SignerPgp.PrimaryKey.KeyId == env.Pgp[key].PrimaryKey.KeyId {
							okID = true
						}
						if !okID {
							failf("step %d: the signature is not from the latest key %s", i, key)
						}
						if s.Hash != hash {
							failf("step %d: signature digest %v, requested %v", i, s.Hash, hash)
						}
					}
					// 3. payload equals the original
					if err := arts.WellFormed(format, cur, dir); err != nil {
						failf("step %d: output not well-formed: %v", i, err)
					}
					if _, err := arts.SamePayload(format, a.Data, cur, dir); err != nil {
						failf("step %d: payload differs from the original: %v", i, err)
					}
					// 4. content digest per algorithm is stable along the history
					alg, dg, has, err := contentDigest(format, cur)
					if has {
						if err != nil {
							failf("step %d: cannot extract the embedded content digest: %v", i, err)
						}
						k := alg + "/" + flags["no-extended-sig"] // the MSI digest legitimately depends on this option
						if prev, ok := firstDigest[k]; ok {
							if !bytes.Equal(prev, dg) {
								failf("step %d: embedded %s content digest %x differs from the one first embedded %x", i, alg, dg, prev)
							}
						} else {
							firstDigest[k] = dg
						}
						if format == "pe" {
							hh, _ := der.HashByOID(alg)
							ref, rerr := pegen.AuthenticodeDigest(cur, hh)
							if rerr == nil && !bytes.Equal(ref, dg) {
								failf("step %d: embedded Authenticode digest %x differs from the reference computation %x", i, dg, ref)
							}
						}
					}
					if format == "jar" {
						dg, nsig, err := jarFileDigests(cur)
						if err != nil {
							failf("step %d: %v", i, err)
						}
						if nsig != 1 {
							failf("step %d: %d signature block files in META-INF, want 1", i, nsig)
						}
						for k, v := range jarDigests {
							if nv, ok := dg[k]; ok && nv != v {
								failf("step %d: manifest digest %q changed to %q", i, v, nv)
							}
						}
						if jarDigests == nil {
							jarDigests = map[string]string{}
						}
						for k, v := range dg {
							if _, ok := jarDigests[k]; !ok {
								jarDigests[k] = v
							}
						}
					}
				}
				nt := len(h.Steps) >= 2 && differ
				rec.Case(fmt.Sprintf("%s|%s|%v", format, arts.SHA(a.Data), h.Steps), fmt.Sprintf("%s/steps=%d/startsigned=%v", format, len(h.Steps), startSigned), nt)
				if nt {
					rec.Sample(format, h)
				}
			})
		})
	}
}

// lowerCaseSignatureNames renames META-INF/*.SF|RSA|DSA|EC members to lower case.
func lowerCaseSignatureNames(data []byte) []byte {
	zr, err := zip.NewReader(bytes.NewReader(data), int64(len(data)))
	if err != nil {
		return nil
	}
	var buf bytes.Buffer
	zw := zip.NewWriter(&buf)
	changed := false
	for _, f := range zr.File {
		name := f.Name
		if dir, base := path.Split(name); dir == "META-INF/" {
			switch strings.ToUpper(path.Ext(base)) {
			case ".SF", ".RSA", ".DSA", ".EC":
				name = dir + strings.ToLower(base)
				changed = changed || name != f.Name
			}
		}
		// raw copy: method, times, comments, extras and compressed bytes stay as they are
		hdr := f.FileHeader
		hdr.Name = name
		hdr.Flags &^= 0x8 // sizes and CRC are known: no data descriptor needed
		rc, err := f.OpenRaw()
		if err != nil {
			return nil
		}
		w, err := zw.CreateRaw(&hdr)
		if err != nil {
			return nil
		}
		if _, err := io.Copy(w, rc); err != nil {
			return nil
		}
	}
	zw.Close()
	if !changed {
		return nil
	}
	return buf.Bytes()
}

func containsClass(l []string, c string) bool {
	for _, x := range l {
		if x == c {
			return true
		}
	}
	return false
}

var _ = keys.Kind

// TestC08_KnownProbes re-checks listed findings.
func TestC08_KnownProbes(t *testing.T) {
	twice := func(format string) error {
		a := arts.Fixture(format, 0)
		dir := filepath.Join(workDir, "probe-"+format)
		os.Mkdir(dir, 0o755)
		defer os.RemoveAll(dir)
		p := filepath.Join(dir, a.Name)
		os.WriteFile(p, a.Data, 0o644)
		for i := 0; i < 2; i++ {
			if err := env.SignLib(&pipe.Req{SigType: a.SigType, In: p, Key: "rsa2048a", Hash: crypto.SHA256}); err != nil {
				return fmt.Errorf("signing #%d: %w", i+1, err)
			}
			cur, _ := os.ReadFile(p)
			if err := arts.WellFormed(format, cur, dir); err != nil {
				return fmt.Errorf("after signing #%d the output is not well-formed: %w", i+1, err)
			}
			if _, err := env.Verify(&pipe.VerifyReq{Path: p}); err != nil {
				return fmt.Errorf("after signing #%d: verify: %w", i+1, err)
			}
		}
		return nil
	}
	if knownSet.Has(kXapResign) {
		if err := twice("xap"); err != nil {
			rec.KnownFinding(kXapResign, "signing an already-signed XAP: "+err.Error())
		}
	}
	if knownSet.Has(kVsixResign) {
		if err := twice("vsix"); err != nil {
			rec.KnownFinding(kVsixResign, "signing an already-signed VSIX: "+err.Error())
		}
	}
	rec.Case("known-probes", "known-probes", false)
}
