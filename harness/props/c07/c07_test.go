// C07 — signatures are only issued under a certificate that matches the key.
package c07

import (
	"bytes"
	"context"
	"crypto"
	"crypto/ecdsa"
	"crypto/rand"
	"crypto/rsa"
	"crypto/sha256"
	"crypto/x509"
	"encoding/pem"
	"errors"
	"fmt"
	"github.com/ProtonMail/go-crypto/openpgp/packet"
	"github.com/sassoftware/relic/v8/token"
	"github.com/sassoftware/relic/v8/token/tokencache"
	"io"
	"math/big"
	"os"
	"path/filepath"
	"sort"
	"strings"
	"sync"
	"testing"
	"time"

	"github.com/ProtonMail/go-crypto/openpgp"
	"pgregory.net/rapid"
	pkcs12 "software.sslmate.com/src/go-pkcs12"

	"github.com/sassoftware/relic/v8/config"
	"github.com/sassoftware/relic/v8/xverif/arts"
	"github.com/sassoftware/relic/v8/xverif/cfb"
	"github.com/sassoftware/relic/v8/xverif/der"
	"github.com/sassoftware/relic/v8/xverif/evid"
	"github.com/sassoftware/relic/v8/xverif/keys"
	"github.com/sassoftware/relic/v8/xverif/known"
	"github.com/sassoftware/relic/v8/xverif/pegen"
	"github.com/sassoftware/relic/v8/xverif/pipe"
	"github.com/sassoftware/relic/v8/xverif/rectoken"
)

var (
	rec      = evid.New("C07")
	knownSet = known.Load("C07")
	env      *pipe.Env
	workDir  string
	root     *keys.CA
	inter    *keys.CA
	leafs    = map[string]*x509.Certificate{}
	selfs    = map[string]*x509.Certificate{} // self-signed certificate per key (typical for APK signing)
	pgps     = map[string]*openpgp.Entity{}
	pgpsSub  = map[string]*openpgp.Entity{} // as pgps, plus a signing subkey the token does not hold
)

type emptyPassword struct{}

func (emptyPassword) GetPasswd(string) (string, error) { return "", nil }

var poolKeys = []string{"rsa2048a", "rsa2048b", "rsa3072", "p256a", "p256b", "p384a", "p521a"}

func TestMain(m *testing.M) {
	rec.Rule("cases = (private key in {RSA-2048 x2, RSA-3072, P-256 x2, P-384, P-521}) x (certificate made for: the same key | another key of the same type | another type | the same curve, other point) x (chain order: leaf first / last / middle, with or without intermediate and root) x (container: PEM, concatenated DER, certs-only PKCS#7 in PEM or DER, PKCS#12 bundle, token-stored certificate, token returning another key than the configured certificate's) x (PGP certificate of the same / another key) x signature type (pe-coff, msi, ps, jar, cat, appmanifest, vsix, apk, xar, pgp, rpm, deb); oracle = mismatch (the certificate relic treats as leaf is not the key's) => error, input untouched, nothing emitted; success => the first embedded certificate is the key's certificate and the signature verifies under it with Go crypto (PKCS#7 types, via an independent DER walker) / under relic's verifier with the key's certificate or PGP key as sole trust anchor; the PKCS#7 builder and the XML-DSig signer called directly with drawn certificate lists and options: they sign iff the first certificate belongs to the key, and the output names it and verifies under it; non-trivial = mismatch of a kind, or a matching chain of length >= 2; distinct = (key, certificate key, order, container, source, signature type)")
	var err error
	workDir, err = os.MkdirTemp("", "c07-")
	if err != nil {
		panic(err)
	}
	env, err = pipe.Setup(workDir)
	if err != nil {
		panic(err)
	}
	env.Prompt = emptyPassword{}
	root, inter = env.Root, env.Inter
	for _, k := range poolKeys {
		leafs[k] = inter.Issue(keys.Key(k).Public(), keys.LeafOpts{CN: "c07 leaf " + k})
		selfs[k] = keys.SelfSigned("c07 self-signed "+k, keys.Key(k), nil)
		// the same curve and the same X coordinate, the other Y: private scalar n-d
		if ek, ok := keys.Key(k).(*ecdsa.PrivateKey); ok {
			n := ek.Curve.Params().N
			neg := &ecdsa.PrivateKey{D: new(big.Int).Sub(n, ek.D)}
			neg.Curve, neg.X = ek.Curve, new(big.Int).Set(ek.X)
			neg.Y = new(big.Int).Sub(ek.Curve.Params().P, ek.Y)
			leafs[k+"-neg"] = inter.Issue(neg.Public(), keys.LeafOpts{CN: "c07 leaf " + k + " negated"})
			selfs[k+"-neg"] = keys.SelfSigned("c07 self-signed "+k+" negated", neg, nil)
		}
		if keys.Kind(k) == "rsa" {
			pgps[k] = keys.PGPEntity(k, "c07 "+k, k+"@c07.example")
			// the same certificate with a signing subkey of other key material (a key the
			// token does not hold): OpenPGP implementations sign with the newest signing subkey
			sub := keys.PGPEntity(k, "c07 "+k, k+"@c07.example")
			if err := sub.AddSigningSubkey(&packet.Config{RSABits: 2048, DefaultHash: crypto.SHA256, Time: func() time.Time { return keys.Epoch.Add(2 * time.Hour) }}); err != nil {
				panic(err)
			}
			pgpsSub[k] = sub
		}
	}
	code := m.Run()
	rec.Flush()
	os.RemoveAll(workDir)
	os.Exit(code)
}

type caseDesc struct {
	Key       string `json:"private_key"`
	CertKey   string `json:"certificate_made_for"`
	Order     string `json:"chain_order"`
	Container string `json:"container"`
	Source    string `json:"source"`
	PGPKey    string `json:"pgp_certificate_for,omitempty"`
	SigType   string `json:"sigtype"`
	Expect    string `json:"expect"`
	Error     string `json:"error,omitempty"`
}

var sigFormats = []string{"pe", "msi", "ps", "jar", "cat", "appmanifest", "vsix", "apk", "pkg", "pgp", "rpm", "deb"}

func certsOnlyPKCS7(certs []*x509.Certificate) []byte {
	var set [][]byte
	for _, c := range certs {
		set = append(set, c.Raw)
	}
	sd := der.EncSeq(
		der.EncInt64(1),
		der.EncSet(),
		der.EncSeq(der.EncOID("1.2.840.113549.1.7.1")),
		der.EncContext(0, true, der.Cat(set...)),
		der.EncSet(),
	)
	return der.EncSeq(der.EncOID("1.2.840.113549.1.7.2"), der.EncExplicit(0, sd))
}

var counter int

func TestC07_KeyCertificate(t *testing.T) {
	rapid.Check(t, func(t *rapid.T) {
		cd := &caseDesc{}
		cd.Key = rapid.SampledFrom(poolKeys).Draw(t, "key")
		format := rapid.SampledFrom(sigFormats).Draw(t, "format")
		isPGP := arts.PgpFormats[format]
		if isPGP {
			cd.Key = rapid.SampledFrom([]string{"rsa2048a", "rsa2048b", "rsa3072"}).Draw(t, "pgpkey")
		}
		// which key is the certificate made for?
		certFor := rapid.IntRange(0, 4).Draw(t, "certfor")
		if certFor == 4 && leafs[cd.Key+"-neg"] == nil {
			certFor = 3
		}
		switch certFor {
		case 0, 1:
			cd.CertKey = cd.Key
		case 4:
			cd.CertKey = cd.Key + "-neg" // same curve, same X, opposite Y
		default:
			cd.CertKey = rapid.SampledFrom(poolKeys).Draw(t, "otherkey")
		}
		cd.Order = rapid.SampledFrom([]string{"leaf", "leaf,inter", "leaf,inter,root", "inter,leaf", "root,inter,leaf", "leaf,root,inter", "inter,leaf,root", "self", "self,inter", "self,inter,root", "inter,self"}).Draw(t, "order")
		cd.Container = rapid.SampledFrom([]string{"pem", "pem", "der", "pkcs7-pem", "pkcs7-der"}).Draw(t, "container")
		cd.Source = rapid.SampledFrom([]string{"file", "file", "token-cert", "pkcs12", "token-other-key"}).Draw(t, "source")
		a := arts.Fixture(format, 0)
		if format == "pe" || format == "jar" || format == "ps" || format == "msi" {
			arts.ExcludePEFewDirs, arts.ExcludeJAREdgeSpace = true, true
			a = arts.Gen(t, format)
		}
		cd.SigType = a.SigType
		counter++
		dir := filepath.Join(workDir, fmt.Sprintf("case%d", counter))
		os.Mkdir(dir, 0o755)
		defer os.RemoveAll(dir)

		// the certificate list in the drawn order
		var chain []*x509.Certificate
		for _, part := range strings.Split(cd.Order, ",") {
			switch part {
			case "leaf":
				chain = append(chain, leafs[cd.CertKey])
			case "self":
				chain = append(chain, selfs[cd.CertKey])
			case "inter":
				chain = append(chain, inter.Cert)
			case "root":
				chain = append(chain, root.Cert)
			}
		}
		var blob []byte
		switch cd.Container {
		case "pem":
			blob = keys.CertPEM(chain...)
		case "der":
			for _, c := range chain {
				blob = append(blob, c.Raw...)
			}
		case "pkcs7-der":
			blob = certsOnlyPKCS7(chain)
		case "pkcs7-pem":
			blob = pem.EncodeToMemory(&pem.Block{Type: "PKCS7", Bytes: certsOnlyPKCS7(chain)})
		}
		cfg := &config.Config{
			Tokens: map[string]*config.TokenConfig{"file": {Type: "file"}, "rec": {Type: rectoken.Type}},
			Keys:   map[string]*config.KeyConfig{},
		}
		kc := &config.KeyConfig{Token: "file"}
		keyPath := filepath.Join(dir, "k.key")
		os.WriteFile(keyPath, keys.KeyPEM(cd.Key), 0o600)
		kc.KeyFile = keyPath
		tokenKey := cd.Key // the key that will actually sign
		rectoken.CertFor = nil
		switch cd.Source {
		case "file":
			p := filepath.Join(dir, "k.crt")
			os.WriteFile(p, blob, 0o644)
			kc.X509Certificate = p
		case "token-cert":
			// certificate stored in the token (DER concatenation), served by the recording token
			kc.Token, kc.Label, kc.KeyFile = "rec", cd.Key, ""
			var derBlob []byte
			for _, c := range chain {
				derBlob = append(derBlob, c.Raw...)
			}
			rectoken.CertFor = func(string) []byte { return derBlob }
			cd.Container = "der(token)"
		case "token-other-key":
			// the token hands out the key the certificate was NOT necessarily made for
			kc.Token, kc.Label, kc.KeyFile = "rec", cd.Key, ""
			p := filepath.Join(dir, "k.crt")
			os.WriteFile(p, blob, 0o644)
			kc.X509Certificate = p
		case "pkcs12":
			// bundle: private key cd.Key + certificate for cd.CertKey (+ CA certificates)
			var cas []*x509.Certificate
			p12leaf := leafs[cd.CertKey]
			for _, c := range chain {
				if c == selfs[cd.CertKey] {
					p12leaf = c
				}
			}
			for _, c := range chain {
				if c != p12leaf {
					cas = append(cas, c)
				}
			}
			p12, err := pkcs12.Modern.WithRand(rand.Reader).Encode(keys.Key(cd.Key), p12leaf, cas, "")
			if err != nil {
				t.Skipf("pkcs12 encoder: %v", err)
			}
			p := filepath.Join(dir, "k.p12")
			os.WriteFile(p, p12, 0o600)
			kc.KeyFile, kc.IsPkcs12 = p, true
			cd.Container, cd.Order = "pkcs12", "leaf+"+fmt.Sprint(len(cas))+"ca"
			chain = append([]*x509.Certificate{p12leaf}, cas...)
		}
		foreignSubkey := false
		if isPGP {
			cd.PGPKey = cd.Key
			if rapid.IntRange(0, 2).Draw(t, "pgpother") == 0 {
				cd.PGPKey = rapid.SampledFrom([]string{"rsa2048a", "rsa2048b", "rsa3072"}).Draw(t, "pgpotherkey")
			}
			p := filepath.Join(dir, "k.pgp")
			pub := keys.PGPPublic(pgps[cd.PGPKey])
			if cd.PGPKey == cd.Key && rapid.IntRange(0, 2).Draw(t, "pgp_foreign_subkey") == 0 {
				pub = keys.PGPPublic(pgpsSub[cd.PGPKey])
				foreignSubkey = true
				cd.PGPKey += "+signing-subkey-of-other-key-material"
			}
			os.WriteFile(p, pub, 0o644)
			kc.PgpCertificate = p
		}
		cfg.Keys["k"] = kc
		saved := env.Cfg
		if err := env.Install(cfg); err != nil {
			t.Fatalf("harness: configuration rejected: %v", err)
		}
		defer env.Install(saved)

		// model: the certificate relic treats as the leaf is the first one
		firstIsKeys := len(chain) > 0 && (chain[0] == leafs[cd.Key] || chain[0] == selfs[cd.Key])
		x509Match := firstIsKeys
		pgpMatch := !isPGP || cd.PGPKey == cd.Key || foreignSubkey
		// (the X.509 certificate of a key is checked at key initialisation for every signature type)
		expectOK := pgpMatch && x509Match
		// a chain that contains the right leaf but not first may be refused or re-ordered
		containsRight := false
		for _, c := range chain {
			if c == leafs[cd.Key] || c == selfs[cd.Key] {
				containsRight = true
			}
		}
		cd.Expect = map[bool]string{true: "sign", false: "refuse"}[expectOK]
		if !expectOK && pgpMatch && containsRight {
			cd.Expect = "refuse-or-leaf-first"
		}
		in := filepath.Join(dir, a.Name)
		os.WriteFile(in, a.Data, 0o644)
		out := in
		req := &pipe.Req{SigType: a.SigType, In: in, Key: "k", Hash: crypto.SHA256}
		if format == "pgp" {
			out = filepath.Join(dir, "sig.out")
			req.Out = out
		}
		failf := func(f string, args ...any) {
			cd.Error = fmt.Sprintf(f, args...)
			evid.SaveCase("TestC07_KeyCertificate", cd)
			t.Fatalf("%s\n case: %+v", cd.Error, *cd)
		}
		err := env.SignLib(req)
		kind := "match"
		switch {
		case isPGP && !pgpMatch:
			kind = "pgp-other-key"
		case !isPGP && cd.CertKey != cd.Key:
			kind = "cert-for-" + keys.Kind(cd.CertKey) + "-key-" + keys.Kind(cd.Key)
			if cd.CertKey[:4] == cd.Key[:4] {
				kind += "-same-params"
			}
			if strings.HasSuffix(cd.CertKey, "-neg") {
				kind += "-same-x"
			}
		case !isPGP && !firstIsKeys:
			kind = "order-" + cd.Order
		}
		nt := kind != "match" || len(chain) >= 2
		rec.Case(fmt.Sprintf("%+v", *cd), fmt.Sprintf("%s/%s/%s/%s", format, cd.Source, cd.Container, kind), nt)
		if nt {
			rec.Sample(kind+"/"+cd.Source, cd)
		}
		if err != nil {
			if strings.Contains(err.Error(), "PANIC") {
				failf("signing panicked: %v", err)
			}
			if expectOK && format == "appmanifest" && !strings.Contains(cd.Order, "inter") && strings.Contains(err.Error(), "issuer") {
				// manifests embed the issuer's key hash, so a chain without the issuer cannot be used
				expectOK = false
			}
			if expectOK && !foreignSubkey {
				// (with a signing subkey the token does not hold, refusing is right: the signature
				// would have to be issued in that subkey's name)
				failf("a matching key/certificate configuration was refused: %v", err)
			}
			now, _ := os.ReadFile(in)
			if !bytes.Equal(now, a.Data) {
				failf("refused (%v) but the input was modified", err)
			}
			ents, _ := os.ReadDir(dir)
			var names []string
			for _, e := range ents {
				names = append(names, e.Name())
			}
			sort.Strings(names)
			for _, n := range names {
				if n == "sig.out" || strings.Contains(n, ".tmp") {
					failf("refused (%v) but %q was emitted", err, n)
				}
			}
			return
		}
		// history: once this entry has signed, a second entry that names the same certificate
		// files but another key must still be refused, whatever has been loaded before
		secondEntry := func() {
			if cd.Source != "file" || !expectOK || rapid.IntRange(0, 1).Draw(t, "second_entry") != 0 {
				return
			}
			pool := poolKeys
			if isPGP {
				pool = []string{"rsa2048a", "rsa2048b", "rsa3072"}
			}
			var others []string
			for _, k := range pool {
				if k != cd.Key {
					others = append(others, k)
				}
			}
			otherKey := rapid.SampledFrom(others).Draw(t, "second_entry_key")
			k2 := filepath.Join(dir, "k2.key")
			os.WriteFile(k2, keys.KeyPEM(otherKey), 0o600)
			cfg.Keys["k2"] = &config.KeyConfig{Token: "file", KeyFile: k2, X509Certificate: kc.X509Certificate, PgpCertificate: kc.PgpCertificate}
			if err := env.Install(cfg); err != nil {
				t.Fatalf("harness: configuration rejected: %v", err)
			}
			in2 := filepath.Join(dir, "second-"+a.Name)
			os.WriteFile(in2, a.Data, 0o644)
			req2 := &pipe.Req{SigType: a.SigType, In: in2, Key: "k2", Hash: crypto.SHA256}
			if format == "pgp" {
				req2.Out = filepath.Join(dir, "second.out")
			}
			cd.Source = "file; then a second entry with key " + otherKey + " naming the same certificate files"
			if err := env.SignLib(req2); err == nil {
				failf("after entry k had signed, entry k2 (key %s, same certificate files) was allowed to sign although the certificates do not belong to its key", otherKey)
			}
		}
		// a signature was emitted
		if cd.Expect == "refuse" {
			failf("a signature was emitted although the configured certificate (%s) does not belong to the signing key (%s)", cd.CertKey, tokenKey)
		}
		signed, _ := os.ReadFile(out)
		if isPGP {
			ring := openpgp.EntityList{pgps[cd.Key]}
			if foreignSubkey {
				ring = openpgp.EntityList{pgpsSub[cd.Key]}
			}
			vr := &pipe.VerifyReq{Path: out, PGP: ring}
			if format == "pgp" {
				vr.Content = in
			}
			if _, err := env.Verify(vr); err != nil {
				failf("emitted PGP signature does not verify under the signing key's certificate: %v", err)
			}
			secondEntry()
			return
		}
		// X.509: leaf first and signature verifies under the key's certificate
		want := leafs[cd.Key]
		if len(chain) > 0 && chain[0] == selfs[cd.Key] {
			want = selfs[cd.Key]
		}
		switch format {
		case "pe", "msi", "ps", "jar", "cat":
			p7, detached, err := extractPKCS7(format, signed)
			if err != nil {
				failf("cannot extract PKCS#7: %v", err)
			}
			sd, err := der.ParseSignedData(p7)
			if err != nil {
				failf("PKCS#7 unparsable: %v", err)
			}
			if len(sd.Certificates) == 0 || !bytes.Equal(sd.Certificates[0].Raw, want.Raw) {
				failf("the first embedded certificate is not the signing key's certificate")
			}
			if err := sd.VerifySigner(&sd.SignerInfos[0], detached); err != nil {
				failf("signature does not verify under the embedded leaf: %v", err)
			}
			leaf, err := sd.FindCert(&sd.SignerInfos[0])
			if err != nil || !bytes.Equal(leaf.Raw, want.Raw) {
				failf("SignerInfo names another certificate than the signing key's")
			}
		default:
			// chain building is not the subject here: the intermediate is trusted directly
			sigs, err := env.Verify(&pipe.VerifyReq{Path: out, Roots: []*x509.Certificate{root.Cert, inter.Cert, selfs[cd.Key]}})
			if err != nil {
				failf("emitted signature does not verify: %v", err)
			}
			if len(sigs) == 0 || sigs[0].Leaf == nil || !bytes.Equal(sigs[0].Leaf.Raw, want.Raw) {
				failf("the verified signature's leaf is not the signing key's certificate")
			}
		}
		secondEntry()
	})
}

func extractPKCS7(format string, data []byte) (p7, detached []byte, err error) {
	switch format {
	case "pe":
		tbl, e := pegen.CertTable(data)
		if e != nil {
			return nil, nil, e
		}
		ents, e := pegen.ParseCertTable(tbl)
		if e != nil || len(ents) != 1 {
			return nil, nil, fmt.Errorf("certificate table entries: %d %v", len(ents), e)
		}
		p7 = ents[0].Data
	case "msi":
		f, e := cfb.Parse(data)
		if e != nil {
			return nil, nil, e
		}
		for _, it := range f.Items() {
			if it.Path == cfb.SigStreamName {
				p7 = it.Data
			}
		}
	case "ps":
		p7, err = arts.PSSignatureBlock(data)
	case "jar":
		p7, detached, err = arts.JARSignatureBlock(data)
	case "cat":
		p7 = data
	}
	if err != nil {
		return nil, nil, err
	}
	if p7 == nil {
		return nil, nil, fmt.Errorf("no PKCS#7 found")
	}
	if tlv, _, e := der.Parse(p7); e == nil {
		p7 = tlv.Raw
	}
	return p7, detached, nil
}

// ---------- a rotated key behind the worker's key cache ----------

type rotKey struct {
	ver  string
	conf *config.KeyConfig
}

func (k *rotKey) Public() crypto.PublicKey { return keys.Key(k.ver).Public() }
func (k *rotKey) Sign(r io.Reader, d []byte, o crypto.SignerOpts) ([]byte, error) {
	return keys.Key(k.ver).Sign(rand.Reader, d, o)
}
func (k *rotKey) SignContext(ctx context.Context, d []byte, o crypto.SignerOpts) ([]byte, error) {
	return k.Sign(nil, d, o)
}
func (k *rotKey) Config() *config.KeyConfig                 { return k.conf }
func (k *rotKey) Certificate() []byte                       { return leafs[k.ver].Raw }
func (k *rotKey) GetID() []byte                             { return []byte(k.ver) }
func (k *rotKey) ImportCertificate(*x509.Certificate) error { return nil }

// rotToken holds one key name whose material is replaced ("rotated") over time; earlier
// versions stay retrievable by identifier, as on an HSM that keeps old key objects.
type rotToken struct {
	mu       sync.Mutex
	versions []string
}

func (t *rotToken) Ping(context.Context) error  { return nil }
func (t *rotToken) Close() error                { return nil }
func (t *rotToken) Config() *config.TokenConfig { return &config.TokenConfig{} }
func (t *rotToken) GetKey(ctx context.Context, name string) (token.Key, error) {
	t.mu.Lock()
	defer t.mu.Unlock()
	want := string(token.KeyID(ctx))
	ver := t.versions[len(t.versions)-1]
	if want != "" {
		ver = ""
		for _, v := range t.versions {
			if v == want {
				ver = v
			}
		}
		if ver == "" {
			return nil, errors.New("no key object with that identifier")
		}
	}
	return &rotKey{ver: ver, conf: &config.KeyConfig{}}, nil
}
func (t *rotToken) Import(string, crypto.PrivateKey) (token.Key, error) { return nil, errors.New("x") }
func (t *rotToken) ImportCertificate(*x509.Certificate, string) error   { return errors.New("x") }
func (t *rotToken) Generate(string, token.KeyType, uint) (token.Key, error) {
	return nil, errors.New("x")
}
func (t *rotToken) ListKeys(token.ListOptions) error { return errors.New("x") }

// TestC07_RotatedKeyThroughCache: a caller that pins the key identifier it saw together
// with a certificate must get a signature from that very key, whatever the cache holds
// after a rotation: the signature value verifies under the certificate it will be
// embedded with, or the lookup fails.
func TestC07_RotatedKeyThroughCache(t *testing.T) {
	pool := []string{"rsa2048a", "rsa2048b", "rsa3072", "p256a", "p256b"}
	rapid.Check(t, func(t *rapid.T) {
		expiry := time.Duration(rapid.SampledFrom([]int{0, 15, 1000000}).Draw(t, "expiry_ms")) * time.Millisecond
		tok := &rotToken{versions: []string{pool[0]}}
		cache := tokencache.New(tok, expiry)
		type held struct{ ver string }
		var handles []held
		var hist []string
		n := rapid.IntRange(3, 14).Draw(t, "steps")
		rotated := false
		for i := 0; i < n; i++ {
			op := rapid.SampledFrom([]string{"get", "get", "rotate", "expire", "sign-pinned", "sign-pinned"}).Draw(t, "op")
			if op == "sign-pinned" && len(handles) == 0 {
				op = "get"
			}
			if op == "rotate" && len(tok.versions) == len(pool) {
				op = "get"
			}
			hist = append(hist, op)
			switch op {
			case "rotate":
				tok.mu.Lock()
				tok.versions = append(tok.versions, pool[len(tok.versions)])
				tok.mu.Unlock()
				rotated = true
			case "expire":
				if expiry > 0 && expiry < time.Second {
					time.Sleep(20 * time.Millisecond)
				}
			case "get":
				k, err := cache.GetKey(context.Background(), "thekey")
				if err != nil {
					t.Fatalf("history %v: get failed: %v", hist, err)
				}
				handles = append(handles, held{string(k.GetID())})
			case "sign-pinned":
				h := handles[rapid.IntRange(0, len(handles)-1).Draw(t, "handle")]
				k, err := cache.GetKey(token.WithKeyID(context.Background(), []byte(h.ver)), "thekey")
				if err != nil {
					t.Fatalf("history %v: key %s still exists in the token but the pinned lookup failed: %v", hist, h.ver, err)
				}
				digest := sha256.Sum256([]byte("content"))
				sig, err := k.SignContext(context.Background(), digest[:], crypto.SHA256)
				if err != nil {
					t.Fatalf("history %v: signing failed: %v", hist, err)
				}
				// the caller embeds the certificate it got with the identifier it pinned
				cert := leafs[h.ver]
				var verr error
				switch pub := cert.PublicKey.(type) {
				case *rsa.PublicKey:
					verr = rsa.VerifyPKCS1v15(pub, crypto.SHA256, digest[:], sig)
				case *ecdsa.PublicKey:
					if !ecdsa.VerifyASN1(pub, digest[:], sig) {
						verr = errors.New("ECDSA verification failed")
					}
				}
				if verr != nil {
					evid.SaveCase("TestC07_RotatedKeyThroughCache", map[string]any{"history": hist, "pinned": h.ver, "served": string(k.GetID()), "error": verr.Error()})
					t.Fatalf("history %v: lookup pinned to key %s was served key %s: the signature does not verify under the certificate it is issued with (%v)", hist, h.ver, k.GetID(), verr)
				}
			}
		}
		rec.Case(fmt.Sprintf("rotate|%v|%v", expiry, hist), fmt.Sprintf("rotated-key/expiry=%v", expiry), rotated)
		if rotated {
			rec.Sample("rotated-key", map[string]any{"expiry": expiry.String(), "history": hist})
		}
	})
}
