package c07

// The two guards behind the certificate loader, called the way the signers call them:
// the PKCS#7 builder and the XML-DSig signer must refuse a certificate list whose first
// certificate does not belong to the private key, whatever the options, and when they do
// sign, the output names the first certificate and verifies under it.

import (
	"bytes"
	"crypto"
	"crypto/x509"
	"encoding/asn1"
	"fmt"
	"testing"

	"github.com/beevik/etree"
	"pgregory.net/rapid"

	"github.com/sassoftware/relic/v8/lib/pkcs7"
	"github.com/sassoftware/relic/v8/lib/x509tools"
	"github.com/sassoftware/relic/v8/lib/xmldsig"
	"github.com/sassoftware/relic/v8/xverif/der"
	"github.com/sassoftware/relic/v8/xverif/evid"
	"github.com/sassoftware/relic/v8/xverif/keys"
)

type guardCase struct {
	Guard   string   `json:"guard"`
	Key     string   `json:"key"`
	Order   []string `json:"certificates"`
	Options string   `json:"options"`
	Expect  string   `json:"expect"`
	Error   string   `json:"error,omitempty"`
}

func drawCertList(t *rapid.T, key string) (names []string, certs []*x509.Certificate, firstMatches bool) {
	other := rapid.SampledFrom(poolKeys).Draw(t, "otherkey")
	parts := rapid.SliceOfN(rapid.SampledFrom([]string{"leaf", "leaf", "self", "other-leaf", "other-self", "inter", "root"}), 0, 4).Draw(t, "certs")
	for _, p := range parts {
		switch p {
		case "leaf":
			certs = append(certs, leafs[key])
		case "self":
			certs = append(certs, selfs[key])
		case "other-leaf":
			certs = append(certs, leafs[other])
			p += "(" + other + ")"
		case "other-self":
			certs = append(certs, selfs[other])
			p += "(" + other + ")"
		case "inter":
			certs = append(certs, inter.Cert)
		case "root":
			certs = append(certs, root.Cert)
		}
		names = append(names, p)
	}
	if len(certs) > 0 {
		// harness-side comparison of the encoded public keys (not relic's SameKey)
		a, _ := x509.MarshalPKIXPublicKey(keys.Key(key).Public())
		firstMatches = bytes.Equal(a, certs[0].RawSubjectPublicKeyInfo)
	}
	return
}

func TestC07_BuilderGuards(t *testing.T) {
	const test = "TestC07_BuilderGuards"
	rapid.Check(t, func(t *rapid.T) {
		cd := &guardCase{}
		cd.Guard = rapid.SampledFrom([]string{"pkcs7", "pkcs7", "xmldsig-enveloped", "xmldsig-enveloping"}).Draw(t, "guard")
		cd.Key = rapid.SampledFrom(poolKeys).Draw(t, "key")
		priv := keys.Key(cd.Key)
		var certs []*x509.Certificate
		var firstMatches bool
		cd.Order, certs, firstMatches = drawCertList(t, cd.Key)
		hash := rapid.SampledFrom([]crypto.Hash{crypto.SHA1, crypto.SHA256, crypto.SHA384, crypto.SHA512}).Draw(t, "hash")
		cd.Expect = map[bool]string{true: "sign", false: "refuse"}[firstMatches]
		failf := func(f string, args ...any) {
			cd.Error = fmt.Sprintf(f, args...)
			evid.SaveCase(test, cd)
			t.Fatalf("%s\n case: %+v", cd.Error, *cd)
		}
		kind := "first-matches"
		switch {
		case len(certs) == 0:
			kind = "no-certificates"
		case !firstMatches:
			kind = "first-is-" + cd.Order[0]
			for _, n := range cd.Order[1:] {
				if n == "leaf" || n == "self" {
					kind += "/match-later"
					break
				}
			}
		}
		switch cd.Guard {
		case "pkcs7":
			content := rapid.SampledFrom([]string{"data", "detached", "typed"}).Draw(t, "content")
			attr := rapid.Bool().Draw(t, "attribute")
			cd.Options = fmt.Sprintf("%s attr=%v hash=%v", content, attr, hash)
			rec.Case(fmt.Sprintf("%+v", *cd), "guard/pkcs7/"+kind, true)
			rec.Sample("guard/pkcs7/"+kind, cd)
			payload := []byte("payload " + cd.Key)
			sb := pkcs7.NewBuilder(priv, certs, hash)
			var err error
			switch content {
			case "data":
				err = sb.SetContentData(payload)
			case "detached":
				h := hash.New()
				h.Write(payload)
				err = sb.SetDetachedContent(pkcs7.OidData, h.Sum(nil))
			case "typed":
				err = sb.SetContent(asn1.ObjectIdentifier{1, 3, 6, 1, 4, 1, 311, 2, 1, 4}, struct{ A []byte }{payload})
			}
			if err != nil {
				t.Fatalf("harness: content: %v", err)
			}
			if attr {
				if err := sb.AddAuthenticatedAttribute(asn1.ObjectIdentifier{1, 2, 840, 113549, 1, 9, 5}, asn1.RawValue{Tag: asn1.TagUTCTime, Bytes: []byte("250101000000Z")}); err != nil {
					t.Fatalf("harness: attribute: %v", err)
				}
			}
			psd, err := sb.Sign()
			if err != nil {
				if firstMatches {
					failf("builder refuses a certificate list that begins with the key's certificate: %v", err)
				}
				return
			}
			if !firstMatches {
				failf("PKCS#7 builder signed although the first certificate does not belong to the private key")
			}
			blob, err := asn1.Marshal(*psd)
			if err != nil {
				failf("marshal: %v", err)
			}
			sd, err := der.ParseSignedData(blob)
			if err != nil {
				failf("output unparsable: %v", err)
			}
			if len(sd.Certificates) == 0 || !bytes.Equal(sd.Certificates[0].Raw, certs[0].Raw) {
				failf("the embedded chain does not begin with the leaf")
			}
			signer, err := sd.FindCert(&sd.SignerInfos[0])
			if err != nil || !bytes.Equal(signer.Raw, certs[0].Raw) {
				failf("SignerInfo names another certificate than the first one (%v)", err)
			}
			var detached []byte
			if content == "detached" {
				detached = payload
			}
			if content != "typed" {
				if err := sd.VerifySigner(&sd.SignerInfos[0], detached); err != nil {
					failf("signature does not verify under the leaf: %v", err)
				}
			}
		default:
			opts := xmldsig.SignOptions{
				MsCompatHashNames: rapid.Bool().Draw(t, "mscompat"),
				UseRecC14n:        rapid.Bool().Draw(t, "recc14n"),
				IncludeX509:       rapid.Bool().Draw(t, "x509"),
				IncludeKeyValue:   rapid.Bool().Draw(t, "keyvalue"),
			}
			cd.Options = fmt.Sprintf("%+v hash=%v", opts, hash)
			rec.Case(fmt.Sprintf("%+v", *cd), "guard/"+cd.Guard+"/"+kind, true)
			rec.Sample("guard/"+cd.Guard+"/"+kind, cd)
			doc := etree.NewDocument()
			if err := doc.ReadFromString(`<doc xmlns="urn:x"><item Id="a">text ` + cd.Key + `</item></doc>`); err != nil {
				t.Fatalf("harness: %v", err)
			}
			var err error
			var sigRoot *etree.Element
			path := "Signature"
			if cd.Guard == "xmldsig-enveloped" {
				err = xmldsig.Sign(doc.Root(), doc.Root(), hash, priv, certs, opts)
				sigRoot = doc.Root()
			} else {
				obj := etree.NewElement("Object")
				obj.CreateAttr("Id", "idPackageObject")
				obj.AddChild(doc.Root().Copy())
				sigRoot, err = xmldsig.SignEnveloping(obj, hash, priv, certs, opts)
				path = "."
			}
			if err != nil {
				if firstMatches {
					failf("XML-DSig signer refuses a certificate list that begins with the key's certificate: %v", err)
				}
				return
			}
			if !firstMatches {
				failf("XML-DSig signer (%s) signed although the first certificate does not belong to the private key", cd.Guard)
			}
			if !opts.IncludeX509 && !opts.IncludeKeyValue {
				return // nothing in the output identifies the key
			}
			sig, err := xmldsig.Verify(sigRoot, path, certs)
			if err != nil {
				failf("emitted XML signature does not verify: %v", err)
			}
			if !x509tools.SameKey(sig.PublicKey, priv.Public()) {
				failf("emitted XML signature verifies under another key")
			}
			if opts.IncludeX509 && (sig.Leaf() == nil || !bytes.Equal(sig.Leaf().Raw, certs[0].Raw)) {
				failf("the verified XML signature's leaf is not the first certificate")
			}
		}
	})
}
