// C13 — interrupted output never leaves a torn or missing file.
//
// The real relic binary is run under strace with a SIGKILL injected on entry to the
// k-th invocation of a file-system call; afterwards the destination must hold either
// its complete previous content or a complete new artefact, and the input must be intact.
package c13

import (
	"bytes"
	"errors"
	"fmt"
	"os"
	"os/exec"
	"path/filepath"
	"regexp"
	"sort"
	"strings"
	"syscall"
	"testing"
	"time"

	"pgregory.net/rapid"

	"github.com/sassoftware/relic/v8/xverif/arts"
	"github.com/sassoftware/relic/v8/xverif/evid"
	"github.com/sassoftware/relic/v8/xverif/known"
	"github.com/sassoftware/relic/v8/xverif/pegen"
	"github.com/sassoftware/relic/v8/xverif/pipe"
)

var (
	rec      = evid.New("C13")
	knownSet = known.Load("C13")
	env      *pipe.Env
	workDir  string
)

const (
	kChecksumWindow = "C13:pe-checksum-fixup-after-commit"
	traceSet        = "trace=openat,write,pwrite64,copy_file_range,sendfile,fchmod,fchmodat,ftruncate,close,unlinkat,unlink,rename,renameat,renameat2,fsync,fdatasync"
)

var injectable = []string{"openat", "write", "pwrite64", "copy_file_range", "fchmod", "ftruncate", "close", "unlinkat", "renameat"}

type scenario struct {
	Name    string
	Fixture string // file under functest/packages
	SigType string
	Out     string
	Flags   []string
	Format  string // for validation
	Remote  bool   // run "relic remote sign" against the daemon instead of "relic sign"
}

var scenarios = []scenario{
	{"pe-patch-rewrite", "ClassLibrary1.dll", "pe-coff", "out.dll", nil, "pe", false},
	{"jar-patch-rewrite", "hello.jar", "jar", "out.jar", nil, "jar", false},
	{"ps-patch-rewrite", "hello.ps1", "ps", "out.ps1", nil, "ps", false},
	{"msi-copy-then-edit", "dummy.msi", "msi", "out.msi", nil, "msi", false},
	{"pgp-detached-whole-file", "Release", "pgp", "out.sig", nil, "pgp-detached", false},
	{"pgp-clearsign-merge", "Release", "pgp", "out.asc", []string{"--clearsign"}, "pgp", false},
	{"cat-whole-file", "hyperv.cat", "cat", "out.cat", nil, "cat", false},
	{"manifest-whole-file", "WindowsFormsApplication1.exe.manifest", "appmanifest", "out.exe.manifest", nil, "appmanifest", false},
	// the client command has its own output code path (transform.Apply + final fix-up)
	{"pe-remote-patch-rewrite", "ClassLibrary1.dll", "pe-coff", "out.dll", nil, "pe", true},
	{"jar-remote-patch-rewrite", "hello.jar", "jar", "out.jar", nil, "jar", true},
}

func TestMain(m *testing.M) {
	rec.Rule("cases = (output strategy: patch-by-rewrite for PE/JAR/PowerShell through relic sign and for PE/JAR through relic remote sign against a live daemon, copy-then-edit for MSI, whole-file write for PGP detached / catalog / manifest, PGP clearsign merge) x (destination absent | pre-existing) x crash point = SIGKILL injected by strace on entry to the k-th openat/write/pwrite64/copy_file_range/fchmod/ftruncate/close/unlinkat/renameat of the real relic binary; the boundary actually hit is identified from the injected run's own trace; oracle = input unchanged; a pre-existing destination still exists; destination content is byte-identical to the old content or a complete artefact (relic verify + independent well-formedness + PE checksum); no temporary siblings after normal completion or a handled error; binpatch's rewrite fallback at library level: four patch sets that are not eligible for in-place application x same path / other path, killed at every system call of a small driver; non-trivial = kill inside the output phase (temporary file already created); distinct = (scenario, destination state, last system call before the kill, its ordinal in the output phase)")
	rec.Assume("strace -e inject=...:signal=KILL kills on syscall entry; counters are per thread, so the boundary is identified post hoc from the trace; power loss (unsynced data) is not modelled, only process death")
	var err error
	workDir, err = os.MkdirTemp("", "c13-")
	if err != nil {
		panic(err)
	}
	if _, err := exec.LookPath("strace"); err != nil {
		fmt.Println("VERIF-INCONCLUSIVE: strace not found")
		os.Exit(1)
	}
	env, err = pipe.Setup(workDir)
	if err != nil {
		panic(err)
	}
	if err := env.BuildBinary(); err != nil {
		fmt.Println("VERIF-INCONCLUSIVE: cannot build relic:", err)
		os.Exit(1)
	}
	// the daemon for the "relic remote sign" scenarios lives in this process; the
	// configuration file the client binary reads gets its URL
	if err := env.StartServer(); err != nil {
		fmt.Println("VERIF-INCONCLUSIVE: cannot start the daemon:", err)
		os.Exit(1)
	}
	if err := env.Install(env.Cfg); err != nil {
		panic(err)
	}
	code := m.Run()
	env.StopServer()
	rec.Flush()
	os.RemoveAll(workDir)
	os.Exit(code)
}

// inputBytes is the scenario's input: the fixture, for PE images with the checksum field
// zeroed (as linkers other than Microsoft's leave it), so that the final checksum fix-up
// has something to change and a fix-up applied to the wrong file shows.
func inputBytes(sc scenario) []byte {
	src, err := os.ReadFile("/repo/functest/packages/" + sc.Fixture)
	if err != nil {
		panic(err)
	}
	if sc.Format == "pe" {
		if info, err := pegen.Parse(src); err == nil && info.ChecksumOff > 0 {
			copy(src[info.ChecksumOff:info.ChecksumOff+4], []byte{0, 0, 0, 0})
		}
	}
	return src
}

var oldContent = []byte("previous destination content, must survive or be replaced as a whole\n")

type runResult struct {
	killed      bool
	exitErr     error
	lastCall    string // syscall on which the kill landed
	phaseCalls  int    // file-system calls in the output phase before the kill
	inPhase     bool
	traceLines  []string
	destMissing bool
	hung        bool // relic neither finished nor failed within runTimeout
}

var errHung = errors.New("relic did not exit")

const runTimeout = 90 * time.Second

var lineRe = regexp.MustCompile(`^(\d+)\s+([a-z0-9_]+)\(`)

func runOnce(dir string, sc scenario, preexist bool, inject string) (*runResult, string, string) {
	in := filepath.Join(dir, sc.Fixture)
	src := inputBytes(sc)
	var err error
	os.WriteFile(in, src, 0o644)
	out := filepath.Join(dir, sc.Out)
	os.Remove(out)
	if preexist {
		os.WriteFile(out, oldContent, 0o644)
	}
	trace := filepath.Join(dir, "trace.txt")
	os.Remove(trace)
	args := []string{"-f", "-qq", "-o", trace, "-e", traceSet}
	if inject != "" {
		args = append(args, "-e", "inject="+inject)
	}
	if sc.Remote {
		args = append(args, env.Binary, "-c", env.CfgPath, "remote", "sign", "-T", sc.SigType, "-k", "rsa2048a", "-f", in, "-o", out)
	} else {
		args = append(args, env.Binary, "-c", env.CfgPath, "sign", "-T", sc.SigType, "-k", "rsa2048a", "-f", in, "-o", out)
	}
	args = append(args, sc.Flags...)
	cmd := exec.Command("strace", args...)
	cmd.Dir = dir
	cmd.SysProcAttr = &syscall.SysProcAttr{Setpgid: true}
	done := make(chan error, 1)
	if err = cmd.Start(); err == nil {
		go func() { done <- cmd.Wait() }()
		select {
		case err = <-done:
		case <-time.After(runTimeout):
			// relic neither finished nor failed: no verdict can be drawn from this run
			syscall.Kill(-cmd.Process.Pid, syscall.SIGKILL)
			<-done
			err = errHung
		}
	}
	res := &runResult{exitErr: err, hung: err == errHung}
	blob, _ := os.ReadFile(trace)
	lines := strings.Split(string(blob), "\n")
	res.traceLines = lines
	tmpSeen := false
	for i, l := range lines {
		if strings.Contains(l, "+++ killed by SIGKILL") {
			res.killed = true
		}
		m := lineRe.FindStringSubmatch(l)
		if m == nil {
			continue
		}
		if m[2] == "openat" && opensOutput(l, sc) && !tmpSeen {
			if !strings.Contains(l, "<unfinished") || true {
				// the temporary file's creation marks the start of the output phase; if the kill
				// landed on this very call the file was not created
				if !(strings.Contains(l, "= ?") || (i+1 < len(lines) && strings.Contains(lines[i+1], "+++ killed"))) {
					tmpSeen = true
				}
			}
			continue
		}
		if tmpSeen {
			res.phaseCalls++
		}
		res.lastCall = m[2]
	}
	res.inPhase = tmpSeen
	return res, in, out
}

// validate: a complete artefact of the scenario's type?
func validate(sc scenario, dir, in, out string) error {
	data, err := os.ReadFile(out)
	if err != nil {
		return err
	}
	vr := &pipe.VerifyReq{Path: out}
	if sc.Format == "pgp-detached" {
		vr.Content = in
	}
	if _, err := env.Verify(vr); err != nil {
		return fmt.Errorf("does not verify: %w", err)
	}
	switch sc.Format {
	case "pe":
		if err := arts.WellFormed("pe", data, dir); err != nil {
			return err
		}
		info, err := pegen.Parse(data)
		if err != nil {
			return err
		}
		if info.StoredChecksum != pegen.Checksum(data) {
			return fmt.Errorf("CHECKSUM: PE checksum field %#x does not match the file (%#x)", info.StoredChecksum, pegen.Checksum(data))
		}
	case "jar", "msi":
		if err := arts.WellFormed(sc.Format, data, dir); err != nil {
			return err
		}
	}
	return nil
}

type caseDesc struct {
	Scenario string `json:"scenario"`
	Preexist bool   `json:"destination_preexisting"`
	Inject   string `json:"inject"`
	Boundary string `json:"boundary_hit"`
	Error    string `json:"error,omitempty"`
}

var counter int
var boundariesHit = map[string]bool{}

// check runs one injected execution and applies the oracle. It returns a violation message.
func check(sc scenario, preexist bool, syscallName string, k int) (string, *caseDesc) {
	counter++
	dir := filepath.Join(workDir, fmt.Sprintf("run%d", counter))
	os.Mkdir(dir, 0o755)
	defer os.RemoveAll(dir)
	inject := fmt.Sprintf("%s:signal=KILL:when=%d", syscallName, k)
	if syscallName == "" {
		inject = "" // a run that is left alone: the same oracle applies to its end state
	}
	res, in, out := runOnce(dir, sc, preexist, inject)
	cd := &caseDesc{Scenario: sc.Name, Preexist: preexist, Inject: inject}
	boundary := "completed"
	if res.killed {
		boundary = fmt.Sprintf("killed-on-%s/after-%d-output-calls", res.lastCall, res.phaseCalls)
		if !res.inPhase {
			boundary = "killed-before-output-phase"
		}
	}
	cd.Boundary = boundary
	nt := res.killed && res.inPhase
	key := fmt.Sprintf("%s|%v|%s", sc.Name, preexist, boundary)
	rec.Case(key, fmt.Sprintf("%s/pre=%v/%s", sc.Name, preexist, map[bool]string{true: "in-output-phase", false: "other"}[nt]), nt)
	if nt {
		boundariesHit[key] = true
		rec.Sample(sc.Name+"/"+res.lastCall, cd)
	}
	// oracle
	src := inputBytes(sc)
	if now, err := os.ReadFile(in); err != nil || !bytes.Equal(now, src) {
		return "the input file was modified or lost", cd
	}
	cur, err := os.ReadFile(out)
	if err != nil {
		if preexist {
			return fmt.Sprintf("the pre-existing destination no longer exists (%s)", boundary), cd
		}
		if !res.killed && res.exitErr == nil {
			return "relic exited 0 but there is no output", cd
		}
	} else if !(preexist && bytes.Equal(cur, oldContent)) {
		if verr := validate(sc, dir, in, out); verr != nil {
			if strings.Contains(verr.Error(), "CHECKSUM:") && knownSet.Has(kChecksumWindow) {
				rec.Excluded(kChecksumWindow)
			} else {
				return fmt.Sprintf("destination holds neither its previous content nor a complete new artefact (%s): %v", boundary, verr), cd
			}
		}
	}
	if !res.killed {
		// normal completion or handled error: no temporary siblings
		ents, _ := os.ReadDir(dir)
		for _, e := range ents {
			if strings.Contains(e.Name(), ".tmp") {
				return fmt.Sprintf("temporary file %s left behind after the process ended normally", e.Name()), cd
			}
		}
	}
	return "", cd
}

// opensOutput: does this openat line create or open for writing the destination or a
// temporary sibling of it? That call marks the start of the output phase.
func opensOutput(l string, sc scenario) bool {
	if !strings.Contains(l, "/"+sc.Out) {
		return false
	}
	return strings.Contains(l, "O_WRONLY") || strings.Contains(l, "O_RDWR") || strings.Contains(l, "O_CREAT")
}

type point struct {
	name string
	k    int
}

// afterRename: per (scenario, destination state) the file-system calls the reference run
// makes after the destination has been renamed into place. On a tree that commits last
// there are next to none; every one of them is a crash point worth trying in every run.
var afterRename = map[string][]point{}

// candidates: k values worth injecting for a syscall, from an uninjected reference run.
func candidates(sc scenario, preexist bool) map[string][]int {
	counter++
	dir := filepath.Join(workDir, fmt.Sprintf("ref%d", counter))
	os.Mkdir(dir, 0o755)
	defer os.RemoveAll(dir)
	res, _, _ := runOnce(dir, sc, preexist, "")
	perThread := map[string]map[string]int{} // pid -> syscall -> count
	renamed := false
	delete(afterRename, sc.Name+fmt.Sprint(preexist))
	out := map[string][]int{}
	seen := map[string]map[int]bool{}
	tmp := false
	for _, l := range res.traceLines {
		m := lineRe.FindStringSubmatch(l)
		if m == nil {
			continue
		}
		pid, sc2 := m[1], m[2]
		if perThread[pid] == nil {
			perThread[pid] = map[string]int{}
		}
		perThread[pid][sc2]++
		if sc2 == "openat" && opensOutput(l, sc) {
			tmp = true
		}
		if renamed && len(afterRename[sc.Name+fmt.Sprint(preexist)]) < 16 {
			for _, n := range injectable {
				if n == sc2 {
					afterRename[sc.Name+fmt.Sprint(preexist)] = append(afterRename[sc.Name+fmt.Sprint(preexist)], point{sc2, perThread[pid][sc2]})
				}
			}
		}
		if strings.HasPrefix(sc2, "rename") && strings.Contains(l, "/"+sc.Out) {
			renamed = true
		}
		if tmp {
			// this call, and the one after it, are output-phase boundaries for this thread
			for _, k := range []int{perThread[pid][sc2], perThread[pid][sc2] + 1} {
				if seen[sc2] == nil {
					seen[sc2] = map[int]bool{}
				}
				if !seen[sc2][k] {
					seen[sc2][k] = true
					out[sc2] = append(out[sc2], k)
				}
			}
		}
	}
	for _, v := range out {
		sort.Ints(v)
	}
	return out
}

// TestC13_Completion: every scenario left to run to its end, judged like a killed one
// (input untouched, destination complete, nothing left behind).
func TestC13_Completion(t *testing.T) {
	for _, sc := range scenarios {
		for _, pre := range []bool{false, true} {
			msg, cd := check(sc, pre, "", 0)
			if msg != "" {
				cd.Error = msg
				evid.SaveCase("TestC13_Completion", cd)
				t.Fatalf("%s: %s (destination pre-existing=%v, no injection)", sc.Name, msg, pre)
			}
		}
	}
}

func TestC13_CrashPoints(t *testing.T) {
	thorough := evid.Thorough()
	budget := evid.EnvInt("VERIF_C13_RUNS", 160)
	type pair struct {
		sc  scenario
		pre bool
	}
	var pairs []pair
	for _, sc := range scenarios {
		pairs = append(pairs, pair{sc, false}, pair{sc, true})
	}
	cands := map[string]map[string][]int{}
	get := func(p pair) map[string][]int {
		k := fmt.Sprintf("%s|%v", p.sc.Name, p.pre)
		if cands[k] == nil {
			cands[k] = candidates(p.sc, p.pre)
		}
		return cands[k]
	}
	report := func(msg string, cd *caseDesc) {
		cd.Error = msg
		evid.SaveCase("TestC13_CrashPoints", cd)
		t.Fatalf("%s\n case: %+v", msg, *cd)
	}
	if thorough {
		total, covered := 0, 0
		rounds := evid.EnvInt("VERIF_C13_ROUNDS", 1)
		for round := 0; round < rounds; round++ {
			for _, p := range pairs {
				c := get(p)
				for _, name := range injectable {
					for _, k := range c[name] {
						total++
						if msg, cd := check(p.sc, p.pre, name, k); msg != "" {
							report(msg, cd)
						}
						covered++
					}
				}
			}
		}
		rec.Set("candidate_injection_points", total)
		rec.Set("injected_runs", covered)
		rec.Set("distinct_output_phase_boundaries_hit", len(boundariesHit))
		return
	}
	// every call made after the rename into place (a handful at most on a tree that commits last)
	for _, p := range pairs {
		get(p)
		for _, pt := range afterRename[p.sc.Name+fmt.Sprint(p.pre)] {
			if msg, cd := check(p.sc, p.pre, pt.name, pt.k); msg != "" {
				report(msg, cd)
			}
		}
	}
	runs := 0
	// A violation depends on which thread the injected call lands on, so rapid cannot
	// replay it: it is recorded with its own trace and reported after the search.
	violation := ""
	rapid.Check(t, func(rt *rapid.T) {
		if runs >= budget || violation != "" {
			return
		}
		p := rapid.SampledFrom(pairs).Draw(rt, "scenario")
		c := get(p)
		var names []string
		for _, n := range injectable {
			if len(c[n]) > 0 {
				names = append(names, n)
			}
		}
		if len(names) == 0 {
			rt.Skip("no output-phase calls seen")
		}
		// bias towards the rare, decisive calls
		weighted := append([]string{}, names...)
		for _, n := range names {
			if n == "renameat" || n == "unlinkat" || n == "fchmod" || n == "pwrite64" || n == "copy_file_range" || n == "ftruncate" {
				weighted = append(weighted, n, n)
			}
		}
		name := rapid.SampledFrom(weighted).Draw(rt, "syscall")
		k := rapid.SampledFrom(c[name]).Draw(rt, "k")
		runs++
		if msg, cd := check(p.sc, p.pre, name, k); msg != "" {
			cd.Error = msg
			evid.SaveCase("TestC13_CrashPoints", cd)
			violation = fmt.Sprintf("%s\n case: %+v", msg, *cd)
		}
	})
	rec.Set("injected_runs", runs)
	if violation != "" {
		t.Fatal(violation)
	}
	rec.Set("distinct_output_phase_boundaries_hit", len(boundariesHit))
}

// TestC13_HandledError: an unwritable destination directory leaves nothing behind.
func TestC13_HandledError(t *testing.T) {
	for _, sc := range scenarios {
		counter++
		dir := filepath.Join(workDir, fmt.Sprintf("err%d", counter))
		os.Mkdir(dir, 0o755)
		in := filepath.Join(dir, sc.Fixture)
		src := inputBytes(sc)
		os.WriteFile(in, src, 0o644)
		out := filepath.Join(dir, "no-such-dir", sc.Out)
		args := append([]string{"-c", env.CfgPath, "sign", "-T", sc.SigType, "-k", "rsa2048a", "-f", in, "-o", out}, sc.Flags...)
		err := exec.Command(env.Binary, args...).Run()
		rec.Case("handled|"+sc.Name, "handled-error/"+sc.Name, true)
		if err == nil {
			t.Fatalf("%s: relic exited 0 although the destination directory does not exist", sc.Name)
		}
		ents, _ := os.ReadDir(dir)
		for _, e := range ents {
			if e.Name() != sc.Fixture {
				t.Fatalf("%s: %q left behind after a handled error", sc.Name, e.Name())
			}
		}
		if now, _ := os.ReadFile(in); !bytes.Equal(now, src) {
			t.Fatalf("%s: input modified after a handled error", sc.Name)
		}
		os.RemoveAll(dir)
	}
}

// TestC13_ErrorPoints: the k-th output-phase call fails with an error instead of killing
// the process. relic must handle it: whatever the exit status, no temporary file remains
// next to the output and the input is unchanged; if it exits 0 the destination is a
// complete artefact.
func TestC13_ErrorPoints(t *testing.T) {
	thorough := evid.Thorough()
	budget := evid.EnvInt("VERIF_C13_ERR_RUNS", 400)
	errCalls := []string{"write", "pwrite64", "copy_file_range", "fchmod", "ftruncate", "renameat"}
	errnos := map[string]string{"write": "ENOSPC", "pwrite64": "ENOSPC", "copy_file_range": "ENOSPC", "fchmod": "EPERM", "ftruncate": "EIO", "renameat": "EACCES"}
	type pt struct {
		sc   scenario
		pre  bool
		name string
		k    int
	}
	var pts []pt
	for _, sc := range scenarios {
		for _, pre := range []bool{false, true} {
			c := candidates(sc, pre)
			for _, n := range errCalls {
				for _, k := range c[n] {
					pts = append(pts, pt{sc, pre, n, k})
				}
			}
		}
	}
	rec.Set("error_injection_candidates", len(pts))
	var hangs []string
	defer func() {
		rec.Set("error_points_where_relic_never_exited", hangs)
		if len(hangs) > 0 && !t.Failed() {
			// wall-clock waits decide nothing: report without a verdict
			fmt.Printf("VERIF-INCONCLUSIVE: relic did not exit within %v after an injected error at: %v\n", runTimeout, hangs)
			t.Fail()
		}
	}()
	runOne := func(p pt) string {
		counter++
		dir := filepath.Join(workDir, fmt.Sprintf("e%d", counter))
		os.Mkdir(dir, 0o755)
		defer os.RemoveAll(dir)
		src := inputBytes(p.sc)
		res, in, out := runOnce(dir, p.sc, p.pre, fmt.Sprintf("%s:error=%s:when=%d", p.name, errnos[p.name], p.k))
		if res.hung {
			hangs = append(hangs, fmt.Sprintf("%s pre=%v %s#%d %s", p.sc.Name, p.pre, p.name, p.k, errnos[p.name]))
			rec.Case(fmt.Sprintf("err|%s|%v|%s|%d", p.sc.Name, p.pre, p.name, p.k), "error-point/"+p.sc.Name+"/hung", true)
			return ""
		}
		failed := res.exitErr != nil
		injected := false
		for _, l := range res.traceLines {
			if strings.Contains(l, "(INJECTED)") {
				injected = true
			}
		}
		rec.Case(fmt.Sprintf("err|%s|%v|%s|%d", p.sc.Name, p.pre, p.name, p.k), fmt.Sprintf("error-point/%s/%s/failed=%v", p.sc.Name, p.name, failed), injected && res.inPhase)
		if injected && failed {
			rec.Sample("error-point/"+p.name, map[string]any{"scenario": p.sc.Name, "preexisting": p.pre, "syscall": p.name, "k": p.k, "errno": errnos[p.name], "relic_failed": failed})
		}
		desc := fmt.Sprintf("scenario %s, destination pre-existing=%v, %s #%d fails with %s (injected=%v, relic failed=%v)", p.sc.Name, p.pre, p.name, p.k, errnos[p.name], injected, failed)
		ents, _ := os.ReadDir(dir)
		for _, e := range ents {
			if strings.Contains(e.Name(), ".tmp") {
				return desc + ": temporary file " + e.Name() + " left next to the output after relic exited"
			}
		}
		if now, _ := os.ReadFile(in); !bytes.Equal(now, src) {
			return desc + ": input file modified"
		}
		if !failed {
			if err := validate(p.sc, dir, in, out); err != nil && !strings.Contains(err.Error(), "CHECKSUM:") {
				return desc + ": relic exited 0 but the destination is not a complete artefact: " + err.Error()
			}
		}
		return ""
	}
	fail := func(msg string, p pt) {
		evid.SaveCase("TestC13_ErrorPoints", map[string]any{"scenario": p.sc.Name, "preexisting": p.pre, "syscall": p.name, "k": p.k, "errno": errnos[p.name], "error": msg})
		t.Fatal(msg)
	}
	if thorough {
		for _, p := range pts {
			if msg := runOne(p); msg != "" {
				fail(msg, p)
			}
		}
		return
	}
	runs := 0
	violation := ""
	var vp pt
	rapid.Check(t, func(rt *rapid.T) {
		if runs >= budget || violation != "" || len(pts) == 0 {
			return
		}
		p := pts[rapid.IntRange(0, len(pts)-1).Draw(rt, "point")]
		runs++
		if msg := runOne(p); msg != "" {
			violation, vp = msg, p
		}
	})
	rec.Set("error_injected_runs", runs)
	if violation != "" {
		fail(violation, vp)
	}
}

// TestC13_KnownProbes re-checks the listed finding deterministically: the checksum fix-up
// is the only pwrite64 of the run.
func TestC13_KnownProbes(t *testing.T) {
	if !knownSet.Has(kChecksumWindow) {
		return
	}
	counter++
	dir := filepath.Join(workDir, fmt.Sprintf("probe%d", counter))
	os.Mkdir(dir, 0o755)
	defer os.RemoveAll(dir)
	sc := scenarios[0]
	res, in, out := runOnce(dir, sc, true, "pwrite64:signal=KILL:when=1")
	rec.Case("known-probe", "known-probe", false)
	if !res.killed {
		return
	}
	if err := validate(sc, dir, in, out); err != nil && strings.Contains(err.Error(), "CHECKSUM:") {
		rec.KnownFinding(kChecksumWindow, "relic killed on entry to the post-commit checksum write leaves a verifying PE with a stale checksum: "+strings.TrimPrefix(err.Error(), "CHECKSUM: "))
	}
}
