package c13

// The patch-by-rewrite fallback at library level: patch sets that cannot be applied in
// place (a size-changing range that is not last or does not end at the end of the file)
// applied through binpatch's Dump/Load/Apply by a small driver, output path equal to the
// input path (the file is replaced by rename) or another path. The driver is killed on
// entry to every system call it makes; the target then holds its complete old or its
// complete new content, the input is untouched when the output goes elsewhere.

import (
	"bytes"
	"encoding/hex"
	"fmt"
	"os"
	"os/exec"
	"path/filepath"
	"strings"
	"syscall"
	"testing"
	"time"

	"github.com/sassoftware/relic/v8/xverif/evid"
)

type patchSpec struct {
	off, old int64
	blob     []byte
}

func splice(data []byte, ps []patchSpec) []byte {
	var out []byte
	pos := int64(0)
	for _, p := range ps {
		out = append(out, data[pos:p.off]...)
		out = append(out, p.blob...)
		pos = p.off + p.old
	}
	return append(out, data[pos:]...)
}

func TestC13_PatchFallback(t *testing.T) {
	const test = "TestC13_PatchFallback"
	modDir := os.Getenv("VERIF_HARNESS_DIR")
	if modDir == "" {
		wd, _ := os.Getwd()
		modDir = filepath.Join(wd, "..", "..")
	}
	bin := filepath.Join(workDir, "patchdriver")
	build := exec.Command("go", "build", "-o", bin, "./cmd/patchdriver")
	build.Dir = modDir
	if blob, err := build.CombinedOutput(); err != nil {
		fmt.Println("VERIF-INCONCLUSIVE: cannot build the patch driver:", err, string(blob))
		t.FailNow()
	}
	orig := make([]byte, 65536)
	for i := range orig {
		orig[i] = byte(i*7 + i>>8)
	}
	sets := map[string][]patchSpec{
		"same-size-then-grow-in-the-middle": {{16, 8, []byte("PATCHED!")}, {4096, 16, bytes.Repeat([]byte("g"), 48)}},
		"same-size-then-insert":             {{100, 4, []byte("four")}, {200, 0, []byte("inserted..")}, {60000, 4, []byte("tail")}},
		"same-size-then-delete":             {{0, 2, []byte("MZ")}, {5000, 10, nil}, {9000, 3, []byte("abc")}},
		"two-same-size-then-shrink":         {{8, 8, []byte("12345678")}, {1024, 8, []byte("abcdefgh")}, {30000, 100, []byte("short")}},
	}
	calls := []string{"openat", "pwrite64", "write", "fchmod", "close", "renameat", "ftruncate", "unlinkat"}
	for name, ps := range sets {
		want := splice(orig, ps)
		var args []string
		for _, p := range ps {
			args = append(args, fmt.Sprintf("%d:%d:%s", p.off, p.old, hex.EncodeToString(p.blob)))
		}
		for _, mode := range []string{"same-path", "other-path-existing", "other-path-absent"} {
			run := func(inject string) (killed bool, in, out string, dir string) {
				counter++
				dir = filepath.Join(workDir, fmt.Sprintf("patch%d", counter))
				os.Mkdir(dir, 0o755)
				in = filepath.Join(dir, "target.bin")
				os.WriteFile(in, orig, 0o644)
				out = in
				if mode != "same-path" {
					out = filepath.Join(dir, "out.bin")
					if mode == "other-path-existing" {
						os.WriteFile(out, oldContent, 0o644)
					}
				}
				sargs := []string{"-f", "-qq", "-o", filepath.Join(dir, "trace.txt"), "-e", traceSet}
				if inject != "" {
					sargs = append(sargs, "-e", "inject="+inject)
				}
				sargs = append(append(sargs, bin, in, out), args...)
				cmd := exec.Command("strace", sargs...)
				cmd.SysProcAttr = &syscall.SysProcAttr{Setpgid: true}
				done := make(chan error, 1)
				if err := cmd.Start(); err != nil {
					t.Fatalf("harness: strace: %v", err)
				}
				go func() { done <- cmd.Wait() }()
				select {
				case <-done:
				case <-time.After(runTimeout):
					syscall.Kill(-cmd.Process.Pid, syscall.SIGKILL)
					<-done
				}
				tr, _ := os.ReadFile(filepath.Join(dir, "trace.txt"))
				return strings.Contains(string(tr), "+++ killed by SIGKILL"), in, out, dir
			}
			// reference run: must produce the reference splice, and tells how many calls there are
			_, in, out, dir := run("")
			got, _ := os.ReadFile(out)
			if !bytes.Equal(got, want) {
				t.Fatalf("harness: driver run without injection does not produce the reference result (%s, %s)", name, mode)
			}
			tr, _ := os.ReadFile(filepath.Join(dir, "trace.txt"))
			count := map[string]int{}
			for _, l := range strings.Split(string(tr), "\n") {
				if m := lineRe.FindStringSubmatch(l); m != nil {
					count[m[2]]++
				}
			}
			os.RemoveAll(dir)
			_ = in
			for _, sc := range calls {
				for k := 1; k <= count[sc]; k++ {
					inject := fmt.Sprintf("%s:signal=KILL:when=%d", sc, k)
					killed, in, out, dir := run(inject)
					desc := map[string]any{"patch_set": name, "patches": args, "mode": mode, "inject": inject, "killed": killed}
					rec.Case(fmt.Sprintf("patchfallback|%s|%s|%s", name, mode, inject), "patch-fallback/"+mode+"/"+sc, killed)
					if killed && k == 1 {
						rec.Sample("patch-fallback/"+mode, desc)
					}
					fail := func(f string, a ...any) {
						desc["error"] = fmt.Sprintf(f, a...)
						evid.SaveCase(test, desc)
						t.Fatalf("%s %v", desc["error"], desc)
					}
					cur, err := os.ReadFile(out)
					switch mode {
					case "same-path":
						if err != nil {
							fail("the file being patched no longer exists")
						}
						if !bytes.Equal(cur, orig) && !bytes.Equal(cur, want) {
							fail("the file holds neither its previous nor its new content (%d bytes; first difference from the old content at %d)", len(cur), firstDiff(cur, orig))
						}
					default:
						if now, _ := os.ReadFile(in); !bytes.Equal(now, orig) {
							fail("the input file was modified")
						}
						switch {
						case err != nil && mode == "other-path-existing":
							fail("the pre-existing destination no longer exists")
						case err == nil && !bytes.Equal(cur, want) && !(mode == "other-path-existing" && bytes.Equal(cur, oldContent)):
							fail("the destination holds neither its previous nor the complete new content (%d bytes)", len(cur))
						}
					}
					if !killed {
						ents, _ := os.ReadDir(dir)
						for _, e := range ents {
							if strings.Contains(e.Name(), ".tmp") {
								fail("temporary file %s left behind", e.Name())
							}
						}
					}
					os.RemoveAll(dir)
				}
			}
		}
	}
}

func firstDiff(a, b []byte) int {
	for i := 0; i < len(a) && i < len(b); i++ {
		if a[i] != b[i] {
			return i
		}
	}
	return min(len(a), len(b))
}
