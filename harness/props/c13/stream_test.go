package c13

import (
	"bytes"
	"errors"
	"fmt"
	"io"
	"os"
	"path/filepath"
	"testing"

	"github.com/sassoftware/relic/v8/signers"
	"github.com/sassoftware/relic/v8/xverif/evid"
	"pgregory.net/rapid"
)

// failingReader hands out data[:failAt] in drawn chunk sizes and then fails.
type failingReader struct {
	data   []byte
	failAt int
	chunk  int
	pos    int
}

func (r *failingReader) Read(p []byte) (int, error) {
	if r.pos >= r.failAt {
		if r.failAt >= len(r.data) {
			return 0, io.EOF
		}
		return 0, errors.New("connection reset by peer (injected)")
	}
	n := min(len(p), r.chunk, r.failAt-r.pos)
	copy(p, r.data[r.pos:r.pos+n])
	r.pos += n
	return n, nil
}

// TestC13_ResultStreamFault: the whole-file output strategy (signers.DefaultTransform,
// used for every non-patch reply of a remote or local signer) is fed a result stream
// that breaks after k bytes. Apply must report the failure and the destination must hold
// its complete previous content (or stay absent); with an unbroken stream it must hold
// the complete new content. No temporary file may stay behind.
func TestC13_ResultStreamFault(t *testing.T) {
	n := 0
	rapid.Check(t, func(t *rapid.T) {
		n++
		dir := filepath.Join(os.TempDir(), fmt.Sprintf("c13stream-%d-%d", os.Getpid(), n))
		os.MkdirAll(dir, 0o755)
		defer os.RemoveAll(dir)
		oldSize := rapid.SampledFrom([]int{0, 1, 4095, 4096, 70000, 250000}).Draw(t, "old_size")
		newSize := rapid.SampledFrom([]int{1, 4096, 32768, 65536, 65537, 100000, 300000}).Draw(t, "new_size")
		oldData := bytes.Repeat([]byte{0xAA}, oldSize)
		newData := bytes.Repeat([]byte{0x55}, newSize)
		mode := rapid.SampledFrom([]string{"in-place", "other-present", "other-absent"}).Draw(t, "dest")
		broken := rapid.IntRange(0, 3).Draw(t, "broken") != 0
		failAt := newSize
		if broken {
			failAt = rapid.IntRange(0, newSize-1).Draw(t, "fail_at")
		}
		chunk := rapid.SampledFrom([]int{1 << 20, 65536, 4096, 1000}).Draw(t, "chunk")
		in := filepath.Join(dir, "input.bin")
		os.WriteFile(in, oldData, 0o644)
		dest := in
		var prev []byte = oldData
		switch mode {
		case "other-present":
			dest = filepath.Join(dir, "out.bin")
			prev = []byte("previous destination content")
			os.WriteFile(dest, prev, 0o644)
		case "other-absent":
			dest = filepath.Join(dir, "out.bin")
			prev = nil
		}
		f, err := os.Open(in)
		if err != nil {
			t.Fatalf("harness: %v", err)
		}
		defer f.Close()
		err = signers.DefaultTransform(f).Apply(dest, "application/octet-stream", &failingReader{data: newData, failAt: failAt, chunk: chunk})
		rec.Case(fmt.Sprintf("stream|%d|%d|%s|%d|%d", oldSize, newSize, mode, failAt, chunk), fmt.Sprintf("result-stream/%s/broken=%v", mode, broken), broken)
		desc := map[string]any{"old_size": oldSize, "new_size": newSize, "dest": mode, "fail_at": failAt, "chunk": chunk, "broken": broken}
		failf := func(format string, a ...any) {
			desc["error"] = fmt.Sprintf(format, a...)
			evid.SaveCase("TestC13_ResultStreamFault", desc)
			t.Fatalf("%s %v", desc["error"], desc)
		}
		got, rerr := os.ReadFile(dest)
		switch {
		case rerr != nil && !(os.IsNotExist(rerr) && prev == nil && (broken || err != nil)):
			failf("destination unreadable afterwards: %v (Apply: %v)", rerr, err)
		case rerr == nil && !bytes.Equal(got, newData) && !(prev != nil && bytes.Equal(got, prev)):
			failf("destination holds %d bytes that are neither the previous (%d) nor the new (%d) content (Apply: %v)", len(got), len(prev), newSize, err)
		case rerr == nil && prev == nil && !bytes.Equal(got, newData):
			failf("absent destination now holds %d bytes, not the new content", len(got))
		}
		if broken && err == nil {
			failf("Apply reported success although the result stream broke after %d of %d bytes", failAt, newSize)
		}
		if !broken && (err != nil || !bytes.Equal(got, newData)) {
			failf("unbroken stream: Apply=%v, destination has %d bytes", err, len(got))
		}
		if mode != "in-place" {
			if cur, _ := os.ReadFile(in); !bytes.Equal(cur, oldData) {
				failf("the input file was modified")
			}
		}
		ents, _ := os.ReadDir(dir)
		for _, e := range ents {
			if e.Name() != "input.bin" && e.Name() != "out.bin" {
				failf("left behind: %s", e.Name())
			}
		}
	})
}
