package xmlgen

import (
	"bytes"
	"crypto"
	"crypto/rsa"
	"crypto/sha256"
	"crypto/x509"
	"encoding/base64"
	"encoding/pem"
	"flag"
	"fmt"
	"os"
	"path/filepath"
	"sort"
	"strings"
	"sync"
	"testing"
	"time"

	"pgregory.net/rapid"
)

const fixtureManifest = "/repo/functest/packages/WindowsFormsApplication1.exe.manifest"

var (
	jv       *Java
	jvReason string
)

func TestMain(m *testing.M) {
	// the properties below want >= 200 cases; an explicit -rapid.checks still wins
	if f := flag.Lookup("rapid.checks"); f != nil {
		_ = flag.Set("rapid.checks", "250")
		_ = flag.Set("rapid.nofailfile", "true") // the seed in the failure message reproduces
		_ = flag.Set("rapid.shrinktime", "5s")
	}
	flag.Parse()
	src := os.Getenv("XVERIF_JAVA_SRC")
	if src == "" {
		src, _ = filepath.Abs(filepath.Join("..", "..", "java"))
	}
	out, err := os.MkdirTemp("", "refserver-classes-")
	if err != nil {
		jvReason = err.Error()
	} else {
		if err := BuildJava(src, out); err != nil {
			jvReason = "cannot build the Java reference server: " + err.Error()
		} else if jv, err = StartJava(out); err != nil {
			jvReason = "cannot start the Java reference server: " + err.Error()
			jv = nil
		}
	}
	if jv == nil {
		fmt.Fprintln(os.Stderr, "xmlgen: Java-backed tests will be SKIPPED:", jvReason)
	}
	code := m.Run()
	if jv != nil {
		jv.Close()
	}
	if out != "" {
		os.RemoveAll(out)
	}
	os.Exit(code)
}

func needJava(t testing.TB) *Java {
	if jv == nil {
		t.Skip("Java reference server unavailable: " + jvReason)
	}
	return jv
}

func mustC14N(t interface{ Fatalf(string, ...any) }, alg, sel string, doc []byte) []byte {
	out, err := jv.C14N(alg, sel, doc)
	if err != nil {
		t.Fatalf("C14N %s %s: %v\ndocument:\n%s", alg, sel, err, doc)
	}
	return out
}

// c14nOrSkipDoc is mustC14N, except that the server's refusal of the "doc" selector for a
// childless document element (a JDK quirk, see RefServer.java) is reported as skip.
func c14nOrSkipDoc(t *rapid.T, alg, sel string, doc []byte) (out []byte, skip bool) {
	out, err := jv.C14N(alg, sel, doc)
	if se, ok := err.(*ServerError); ok && sel == SelDocument && strings.Contains(se.Msg, "empty document element") {
		return nil, true
	}
	if err != nil {
		t.Fatalf("C14N %s %s: %v\ndocument:\n%s", alg, sel, err, doc)
	}
	return out, false
}

func TestPing(t *testing.T) {
	j := needJava(t)
	if err := j.Ping(); err != nil {
		t.Fatal(err)
	}
	if _, err := j.roundTrip("BOGUS"); err == nil {
		t.Fatal("unknown request accepted")
	} else if _, ok := err.(*ServerError); !ok {
		t.Fatalf("want ServerError, got %T %v", err, err)
	}
	if _, err := j.C14N("exc", "-", []byte("<a><b></a>")); err == nil {
		t.Fatal("ill-formed document accepted")
	}
	if err := j.Ping(); err != nil {
		t.Fatalf("server did not survive an error: %v", err)
	}
}

func TestSelectorsAndAlgorithms(t *testing.T) {
	needJava(t)
	doc := []byte(`<?xml version="1.0"?><!--pre--><?p q?><r xmlns="urn:d" xmlns:u="urn:unused" xmlns:p="urn:p" xml:lang="en">` +
		`<a Id="one" b="2" a="1"><!--c--><p:x p:k='v'/></a><s:sig xmlns:s="urn:s" id="two"/> <a ID="three">t&#13;&amp;<![CDATA[<]]></a></r><!--post-->`)
	cases := []struct{ alg, sel, want string }{
		{"exc", "-", `<r xmlns="urn:d" xml:lang="en"><a xmlns="urn:d" Id="one" a="1" b="2"><p:x xmlns:p="urn:p" p:k="v"></p:x></a><s:sig xmlns:s="urn:s" id="two"></s:sig> <a xmlns="urn:d" ID="three">t&#xD;&amp;&lt;</a></r>`},
		{"exc", "path=/", ""},
		{"exc", "id=one", `<a xmlns="urn:d" Id="one" a="1" b="2"><p:x xmlns:p="urn:p" p:k="v"></p:x></a>`},
		{"excc", "path=/0", `<a xmlns="urn:d" Id="one" a="1" b="2"><!--c--><p:x xmlns:p="urn:p" p:k="v"></p:x></a>`},
		{"exc", "path=/0/0", `<p:x xmlns:p="urn:p" p:k="v"></p:x>`},
		{"exc", "id=two", `<s:sig xmlns:s="urn:s" id="two"></s:sig>`},
		{"exc", "id=three", `<a xmlns="urn:d" ID="three">t&#xD;&amp;&lt;</a>`},
		{"inc", "path=/0/0", `<p:x xmlns="urn:d" xmlns:p="urn:p" xmlns:u="urn:unused" xml:lang="en" p:k="v"></p:x>`},
		{"inc", "path=/1", `<s:sig xmlns="urn:d" xmlns:p="urn:p" xmlns:s="urn:s" xmlns:u="urn:unused" id="two" xml:lang="en"></s:sig>`},
		{"incc", "doc", "<!--pre-->\n<?p q?>\n" + `<r xmlns="urn:d" xmlns:p="urn:p" xmlns:u="urn:unused" xml:lang="en"><a Id="one" a="1" b="2"><!--c--><p:x p:k="v"></p:x></a><s:sig xmlns:s="urn:s" id="two"></s:sig> <a ID="three">t&#xD;&amp;&lt;</a></r>` + "\n<!--post-->"},
		{"exc", "doc", "<?p q?>\n" + `<r xmlns="urn:d" xml:lang="en"><a Id="one" a="1" b="2"><p:x xmlns:p="urn:p" p:k="v"></p:x></a><s:sig xmlns:s="urn:s" id="two"></s:sig> <a ID="three">t&#xD;&amp;&lt;</a></r>`},
	}
	// NB: the first expectation is filled in from the "doc"-free form below
	cases[0].want = `<r xmlns="urn:d" xml:lang="en"><a Id="one" a="1" b="2"><p:x xmlns:p="urn:p" p:k="v"></p:x></a><s:sig xmlns:s="urn:s" id="two"></s:sig> <a ID="three">t&#xD;&amp;&lt;</a></r>`
	cases[1].want = cases[0].want
	for _, c := range cases {
		got := mustC14N(t, c.alg, c.sel, doc)
		if string(got) != c.want {
			t.Errorf("%s %s:\n got %s\nwant %s", c.alg, c.sel, got, c.want)
		}
	}
	// removal (enveloped-signature emulation), one and several selectors
	got, err := jv.C14NRemoving("exc", "-", doc, "path=/1")
	if err != nil {
		t.Fatal(err)
	}
	want := `<r xmlns="urn:d" xml:lang="en"><a Id="one" a="1" b="2"><p:x xmlns:p="urn:p" p:k="v"></p:x></a> <a ID="three">t&#xD;&amp;&lt;</a></r>`
	if string(got) != want {
		t.Errorf("C14NRemoving:\n got %s\nwant %s", got, want)
	}
	got, err = jv.C14NRemoving("exc", "-", doc, "id=two path=/0/0")
	if err != nil {
		t.Fatal(err)
	}
	want = `<r xmlns="urn:d" xml:lang="en"><a Id="one" a="1" b="2"></a> <a ID="three">t&#xD;&amp;&lt;</a></r>`
	if string(got) != want {
		t.Errorf("C14NRemoving(2):\n got %s\nwant %s", got, want)
	}
	for _, bad := range []string{"path=/9", "id=nope", "xpath=//a"} {
		if _, err := jv.C14N("exc", bad, doc); err == nil {
			t.Errorf("selector %s accepted", bad)
		}
	}
	if _, err := jv.C14NRemoving("exc", "path=/0/0", doc, "path=/0"); err == nil {
		t.Error("removing an ancestor of the target accepted")
	}
	if _, err := jv.C14N("bogus", "-", doc); err == nil {
		t.Error("unknown algorithm accepted")
	}
	// external entities / DTD loading are off: an external entity reference must not be fetched
	xxe := []byte(`<!DOCTYPE r [<!ENTITY e SYSTEM "file:///etc/hostname">]><r>&e;</r>`)
	if out, err := jv.C14N("exc", "-", xxe); err == nil && string(out) != "<r></r>" {
		t.Errorf("external entity was expanded: %s", out)
	}
}

func TestFixtureManifest(t *testing.T) {
	needJava(t)
	raw, err := os.ReadFile(fixtureManifest)
	if err != nil {
		t.Skip("fixture not readable: " + err.Error())
	}
	out := mustC14N(t, "exc", "-", raw)
	if !bytes.HasPrefix(out, []byte(`<asmv1:assembly xmlns:asmv1="urn:schemas-microsoft-com:asm.v1"`)) || !bytes.HasSuffix(out, []byte("</asmv1:assembly>")) {
		t.Fatalf("unexpected canonical form: %.200s", out)
	}
	if sub := mustC14N(t, "exc", "id=Custom", raw); !bytes.HasPrefix(sub, []byte(`<PermissionSet xmlns="urn:schemas-microsoft-com:asm.v2" ID="Custom"`)) {
		t.Fatalf("id=Custom: %s", sub)
	}
	// ParseDoc + faithful and restyled serialisation keep every canonical form
	d, err := ParseDoc(raw)
	if err != nil {
		t.Fatal(err)
	}
	t.Logf("fixture classes: %v; %d elements", d.Classes(), len(d.Paths()))
	rapid.Check(t, func(rt *rapid.T) {
		st := GenStyle(rt)
		paths := d.Paths()
		sel := paths[rapid.IntRange(0, len(paths)-1).Draw(rt, "path")]
		for _, alg := range []string{"exc", "inc"} {
			s := st
			if alg == "inc" {
				s = st.ForInclusive()
			}
			re := d.Serialize(s)
			if a, b := mustC14N(rt, alg, sel, raw), mustC14N(rt, alg, sel, re); !bytes.Equal(a, b) {
				rt.Fatalf("%s %s differs after re-serialisation with %v:\n%s\n---\n%s\n--- document:\n%s", alg, sel, s, a, b, re)
			}
		}
	})
}

// drawOpts: half the time everything, otherwise an arbitrary subset of the edge classes.
func drawOpts(t *rapid.T) GenOpts {
	if rapid.IntRange(0, 3).Draw(t, "opts-mode") >= 2 {
		return AllOpts()
	}
	b := func(l string) bool { return rapid.Bool().Draw(t, "opt-"+l) }
	return GenOpts{
		DefaultNS: b("defaultns"), Prefixed: b("prefixed"), NestedDecl: b("nested"), Redundant: b("redundant"),
		Unused: b("unused"), XmlnsEmpty: b("xmlnsempty"), PrefixShadow: b("shadow"), AliasPrefix: b("alias"),
		NSAttr: b("nsattr"), XMLAttr: b("xmlattr"), IDAttrs: b("ids"), AttrEscapes: b("attresc"),
		TextEscapes: b("textesc"), Whitespace: b("ws"), Indent: b("indent"), NonASCII: b("nonascii"),
		CDATA: b("cdata"), Mixed: b("mixed"), EmptyElements: b("empty"), EmptyAttr: b("emptyattr"),
		Comments: b("comments"), OuterComments: b("outercomments"), PI: b("pi"), OuterPI: b("outerpi"), Decl: b("decl"),
	}
}

type counter struct {
	mu sync.Mutex
	m  map[string]int
	n  int
}

func (c *counter) add(labels ...string) {
	c.mu.Lock()
	defer c.mu.Unlock()
	if c.m == nil {
		c.m = map[string]int{}
	}
	c.n++
	for _, l := range labels {
		c.m[l]++
	}
}

func (c *counter) String() string {
	c.mu.Lock()
	defer c.mu.Unlock()
	var keys []string
	for k := range c.m {
		keys = append(keys, k)
	}
	sort.Strings(keys)
	var sb strings.Builder
	fmt.Fprintf(&sb, "%d cases:", c.n)
	for _, k := range keys {
		fmt.Fprintf(&sb, " %s=%d", k, c.m[k])
	}
	return sb.String()
}

// forbidden maps a switched-off option to the class label that must then never appear.
func forbidden(o GenOpts) []string {
	var out []string
	off := func(b bool, labels ...string) {
		if !b {
			out = append(out, labels...)
		}
	}
	off(o.DefaultNS, "defaultns")
	off(o.Prefixed, "prefixed", "nsattr")
	off(o.NestedDecl, "nested-xmlns")
	off(o.Redundant, "redundant-xmlns")
	off(o.Unused, "unused-xmlns")
	off(o.XmlnsEmpty, "xmlns-empty")
	off(o.PrefixShadow, "prefix-shadow")
	off(o.AliasPrefix, "alias-prefix")
	off(o.NSAttr, "nsattr")
	off(o.XMLAttr, "xml-attr")
	off(o.AttrEscapes, "attr-escapes")
	off(o.TextEscapes, "text-escapes")
	off(o.Whitespace, "whitespace", "cr")
	off(o.Indent, "whitespace-only-text")
	off(o.NonASCII, "nonascii")
	off(o.CDATA, "cdata")
	off(o.Mixed, "mixed")
	off(o.EmptyElements, "empty-element")
	off(o.EmptyAttr, "empty-attr")
	off(o.Comments, "comment")
	off(o.OuterComments, "comment-outer")
	off(o.PI, "pi")
	off(o.OuterPI, "pi-outer")
	off(o.Decl, "decl", "standalone")
	off(o.AttrEscapes || o.TextEscapes || o.Whitespace, "escapes")
	return out
}

// Generator contract (no Java): documents are valid, depth-bounded, switched-off classes
// never appear, ParseDoc inverts Serialize up to presentation, Mutate changes the meaning.
func TestGeneratorContract(t *testing.T) {
	var classes, kinds counter
	rapid.Check(t, func(rt *rapid.T) {
		o := drawOpts(rt)
		d := GenDoc(rt, o)
		if err := d.Check(); err != nil {
			rt.Fatalf("invalid document: %v", err)
		}
		cl := d.Classes()
		classes.add(cl...)
		has := map[string]bool{}
		for _, c := range cl {
			has[c] = true
			if strings.HasPrefix(c, "depth-") && c > fmt.Sprintf("depth-%d", MaxDepth) {
				rt.Fatalf("too deep: %s", c)
			}
		}
		for _, f := range forbidden(o) {
			if has[f] {
				rt.Fatalf("class %q present although switched off (%+v)\n%s", f, o, d)
			}
		}
		if len(d.Paths()) == 0 || d.NodeAt(d.Paths()[len(d.Paths())-1]) == nil || d.Paths()[0] != "path=/" {
			rt.Fatalf("bad paths %v", d.Paths())
		}
		key := d.MeaningKey(nil)
		for i := 0; i < 2; i++ {
			st := GenStyle(rt)
			b := d.Serialize(st)
			back, err := ParseDoc(b)
			if err != nil {
				rt.Fatalf("ParseDoc of own output (%v): %v\n%s", st, err, b)
			}
			if back.MeaningKey(nil) != key {
				rt.Fatalf("meaning changed by %v:\n%s\n---\n%s\n---\n%s", st, key, back.MeaningKey(nil), b)
			}
		}
		if !bytes.Equal(d.Serialize(Style{}), d.Serialize(Style{})) {
			rt.Fatalf("Serialize is not deterministic")
		}
		m, label := d.Mutate(rt)
		kinds.add(label)
		if m.MeaningKey(nil) == key {
			rt.Fatalf("mutation %s kept the meaning", label)
		}
		if d.MeaningKey(nil) != key {
			rt.Fatalf("Mutate modified the receiver")
		}
	})
	t.Logf("classes over %s", classes.String())
	t.Logf("mutations over %s", kinds.String())
}

// Zero options: nothing exotic at all.
func TestPlainOpts(t *testing.T) {
	rapid.Check(t, func(rt *rapid.T) {
		d := GenDoc(rt, GenOpts{})
		for _, c := range d.Classes() {
			if !strings.HasPrefix(c, "depth-") {
				rt.Fatalf("plain options produced class %q:\n%s", c, d)
			}
		}
	})
}

// Style invariance against the JDK: any two serialisations of one Doc canonicalise
// identically - exclusive c14n under every Style, inclusive c14n without the
// unused-declaration moves, #WithComments without the comment edits; for the document
// element, an arbitrary subtree and the whole document node.
func TestStyleInvariance(t *testing.T) {
	needJava(t)
	var classes counter
	rapid.Check(t, func(rt *rapid.T) {
		d := GenDoc(rt, drawOpts(rt))
		classes.add(d.Classes()...)
		paths := d.Paths()
		sub := paths[rapid.IntRange(0, len(paths)-1).Draw(rt, "subtree")]
		s1, s2 := GenStyle(rt), GenStyle(rt)
		type variant struct {
			alg string
			f   func(Style) Style
		}
		for _, v := range []variant{
			{"exc", func(s Style) Style { return s }},
			{"excc", Style.ForWithComments},
			{"inc", Style.ForInclusive},
			{"incc", func(s Style) Style { return s.ForInclusive().ForWithComments() }},
		} {
			b0 := d.Serialize(Style{})
			b1 := d.Serialize(v.f(s1))
			b2 := d.Serialize(v.f(s2))
			for _, sel := range []string{"-", sub, "doc"} {
				c0, skip := c14nOrSkipDoc(rt, v.alg, sel, b0)
				for i, b := range [][]byte{b1, b2} {
					c, skip2 := c14nOrSkipDoc(rt, v.alg, sel, b)
					if skip || skip2 {
						continue
					}
					if !bytes.Equal(c0, c) {
						rt.Fatalf("%s %s: serialisation %d (%v) canonicalises differently\n--- faithful:\n%s\n--- restyled:\n%s\n--- c14n faithful:\n%s\n--- c14n restyled:\n%s",
							v.alg, sel, i+1, v.f([]Style{s1, s2}[i]), b0, b, c0, c)
					}
				}
			}
		}
	})
	t.Logf("classes over %s", classes.String())
}

// Mutation sensitivity against the JDK: one Mutate edit changes the canonical form under
// all four algorithms, whatever the presentation.
func TestMutationSensitivity(t *testing.T) {
	needJava(t)
	var kinds counter
	rapid.Check(t, func(rt *rapid.T) {
		d := GenDoc(rt, drawOpts(rt))
		m, label := d.Mutate(rt)
		kinds.add(label)
		b := d.Serialize(GenStyle(rt))
		mb := m.Serialize(GenStyle(rt))
		for _, alg := range []string{"exc", "inc", "excc", "incc"} {
			if c, mc := mustC14N(rt, alg, "-", b), mustC14N(rt, alg, "-", mb); bytes.Equal(c, mc) {
				rt.Fatalf("mutation %s not visible under %s:\n%s\n--- mutated:\n%s\n--- canonical:\n%s", label, alg, b, mb, c)
			}
		}
	})
	t.Logf("mutations over %s", kinds.String())
}

func TestMutateExcluding(t *testing.T) {
	isSig := func(n *Node, uri string) bool { return n.Local == "hash" }
	rapid.Check(t, func(rt *rapid.T) {
		d := GenDoc(rt, AllOpts())
		var before []string
		d.walk(func(n *Node, _, _ scope, _ int, _ string) {
			if n.Local == "hash" {
				before = append(before, string((&Doc{Root: n}).Serialize(Style{})))
			}
		})
		m, label := d.MutateExcluding(rt, isSig)
		if m.MeaningKey(isSig) == d.MeaningKey(isSig) {
			rt.Fatalf("%s: meaning outside the excluded part unchanged", label)
		}
		var after []string
		m.walk(func(n *Node, _, _ scope, _ int, _ string) {
			if n.Local == "hash" {
				after = append(after, string((&Doc{Root: n}).Serialize(Style{})))
			}
		})
		// excluded subtrees are untouched unless a whole enclosing element was removed
		sort.Strings(before)
		sort.Strings(after)
		if !strings.HasPrefix(label, "elem-remove") && strings.Join(before, "\x00") != strings.Join(after, "\x00") {
			rt.Fatalf("%s edited an excluded subtree", label)
		}
	})
}

const signedTemplate = `<?xml version="1.0" encoding="utf-8"?>
<asmv1:assembly xmlns:asmv1="urn:schemas-microsoft-com:asm.v1" xmlns="urn:schemas-microsoft-com:asm.v2" manifestVersion="1.0">
  <file name="a.exe" size="10"/>
  <data Id="data1" xmlns:u="urn:unused">payload &amp; more</data>
  <Signature Id="StrongNameSignature" xmlns="http://www.w3.org/2000/09/xmldsig#"><SignedInfo><CanonicalizationMethod Algorithm="http://www.w3.org/2001/10/xml-exc-c14n#"/><SignatureMethod Algorithm="http://www.w3.org/2001/04/xmldsig-more#rsa-sha256"/>` +
	`<Reference URI=""><Transforms><Transform Algorithm="http://www.w3.org/2000/09/xmldsig#enveloped-signature"/><Transform Algorithm="http://www.w3.org/2001/10/xml-exc-c14n#"/></Transforms><DigestMethod Algorithm="http://www.w3.org/2001/04/xmlenc#sha256"/><DigestValue>DIGEST0</DigestValue></Reference>` +
	`<Reference URI="#data1"><Transforms><Transform Algorithm="http://www.w3.org/2001/10/xml-exc-c14n#"/></Transforms><DigestMethod Algorithm="http://www.w3.org/2001/04/xmlenc#sha256"/><DigestValue>DIGEST1</DigestValue></Reference>` +
	`</SignedInfo><SignatureValue>SIGVALUE</SignatureValue><KeyInfo>KEYINFO</KeyInfo></Signature>
</asmv1:assembly>`

func loadTestKey(t *testing.T) (*rsa.PrivateKey, []byte) {
	kp, err := os.ReadFile("/repo/functest/testkeys/rsa2048.key")
	if err != nil {
		t.Skip("test key not readable: " + err.Error())
	}
	cp, err := os.ReadFile("/repo/functest/testkeys/rsa2048.crt")
	if err != nil {
		t.Skip("test certificate not readable: " + err.Error())
	}
	kb, _ := pem.Decode(kp)
	cb, _ := pem.Decode(cp)
	if kb == nil || cb == nil {
		t.Skip("test key material is not PEM")
	}
	key, err := x509.ParsePKCS1PrivateKey(kb.Bytes)
	if err != nil {
		t.Skip("test key: " + err.Error())
	}
	return key, cb.Bytes
}

// sign fills the template using ONLY the Java canonicaliser and Go's crypto.
func signTemplate(t *testing.T, key *rsa.PrivateKey, keyInfo string) []byte {
	doc := strings.Replace(signedTemplate, "KEYINFO", keyInfo, 1)
	parsed, err := ParseDoc([]byte(doc))
	if err != nil {
		t.Fatal(err)
	}
	sigPath := parsed.FindPath(DSigNamespace, "Signature")
	if sigPath != "path=/2" {
		t.Fatalf("signature at %q", sigPath)
	}
	c0, err := jv.C14NRemoving("exc", "-", []byte(doc), sigPath)
	if err != nil {
		t.Fatal(err)
	}
	c1 := mustC14N(t, "exc", "id=data1", []byte(doc))
	d0, d1 := sha256.Sum256(c0), sha256.Sum256(c1)
	doc = strings.Replace(doc, "DIGEST0", base64.StdEncoding.EncodeToString(d0[:]), 1)
	doc = strings.Replace(doc, "DIGEST1", base64.StdEncoding.EncodeToString(d1[:]), 1)
	si := mustC14N(t, "exc", sigPath+"/0", []byte(doc))
	h := sha256.Sum256(si)
	sig, err := rsa.SignPKCS1v15(nil, key, crypto.SHA256, h[:])
	if err != nil {
		t.Fatal(err)
	}
	return []byte(strings.Replace(doc, "SIGVALUE", base64.StdEncoding.EncodeToString(sig), 1))
}

func TestVerify(t *testing.T) {
	needJava(t)
	key, certDER := loadTestKey(t)
	keyValue := "<KeyValue><RSAKeyValue><Modulus>" + base64.StdEncoding.EncodeToString(key.N.Bytes()) + "</Modulus><Exponent>AQAB</Exponent></RSAKeyValue></KeyValue>"
	x509Data := "<X509Data><X509Certificate>" + base64.StdEncoding.EncodeToString(certDER) + "</X509Certificate></X509Data>"
	if key.E != 65537 {
		t.Skip("unexpected exponent")
	}
	check := func(name string, doc, cert []byte, wantOK bool, wantWhy string) {
		t.Helper()
		ok, why, err := jv.Verify(doc, cert)
		if err != nil {
			t.Fatalf("%s: %v", name, err)
		}
		if ok != wantOK || !strings.Contains(why, wantWhy) {
			t.Fatalf("%s: got %v %q, want %v %q", name, ok, why, wantOK, wantWhy)
		}
	}
	for _, ki := range []struct{ name, xml string }{{"keyvalue", keyValue}, {"x509data", x509Data}} {
		signed := signTemplate(t, key, ki.xml)
		check(ki.name+"/cert", signed, certDER, true, "")
		check(ki.name+"/keyinfo", signed, nil, true, "")
		check(ki.name+"/tamper-body", bytes.Replace(signed, []byte(`size="10"`), []byte(`size="11"`), 1), certDER, false, "reference 0")
		check(ki.name+"/tamper-id-ref", bytes.Replace(signed, []byte("payload"), []byte("Payload"), 1), nil, false, "reference 1")
		check(ki.name+"/tamper-signedinfo", bytes.Replace(signed, []byte("xmlenc#sha256\"/><DigestValue>"), []byte("xmlenc#sha256\"/><DigestValue> "), 1), certDER, false, "signature value")

		// metamorphic use of the generator on a signed document: restyling keeps it valid,
		// a mutation outside the Signature element breaks it
		d, err := ParseDoc(signed)
		if err != nil {
			t.Fatal(err)
		}
		rapid.Check(t, func(rt *rapid.T) {
			st := GenStyle(rt)
			st.TextComments = false // JDK limitation: base64 content split by a comment is misread
			re := d.Serialize(st)
			ok, why, err := jv.Verify(re, certDER)
			if err != nil || !ok {
				rt.Fatalf("restyled (%v) signed document does not verify: %v %q %v\n%s", st, ok, why, err, re)
			}
			m, label := d.MutateExcluding(rt, func(n *Node, uri string) bool {
				// the enveloped Signature element itself is not covered by its references
				// (only its SignedInfo is signed; tampering with that is checked above)
				return uri == DSigNamespace && n.Local == "Signature"
			})
			mb := m.Serialize(st)
			ok, _, err = jv.Verify(mb, certDER)
			if _, isServerErr := err.(*ServerError); err != nil && !isServerErr {
				rt.Fatal(err)
			}
			if ok {
				rt.Fatalf("mutated (%s) signed document still verifies:\n%s", label, mb)
			}
		})
	}
	// wrong certificate (another RSA key): the signature value fails, the references hold
	other, _ := os.ReadFile("/repo/functest/testkeys/ralph.crt")
	for rest := other; ; {
		var blk *pem.Block
		blk, rest = pem.Decode(rest)
		if blk == nil {
			break
		}
		if blk.Type == "CERTIFICATE" {
			check("wrong-cert", signTemplate(t, key, keyValue), blk.Bytes, false, "signature value")
			break
		}
	}
	if _, _, err := jv.Verify([]byte("<a/>"), nil); err == nil {
		t.Fatal("document without a signature accepted")
	}
}

func TestThroughput(t *testing.T) {
	needJava(t)
	small := []byte(`<a xmlns="urn:x" b="1"><c/></a>`)
	run := func(name string, doc []byte, n int) {
		start := time.Now()
		for i := 0; i < n; i++ {
			mustC14N(t, "exc", "-", doc)
		}
		el := time.Since(start)
		t.Logf("throughput %s (%d bytes): %d requests in %v = %.0f requests/s", name, len(doc), n, el.Round(time.Millisecond), float64(n)/el.Seconds())
	}
	run("small", small, 2000)
	if raw, err := os.ReadFile(fixtureManifest); err == nil {
		run("fixture manifest", raw, 1000)
	}
}
