package xmlgen

import (
	"fmt"
	"sort"
	"strconv"
	"strings"
	"unicode/utf8"
)

// XMLNamespace is the namespace the reserved prefix "xml" is always bound to.
const XMLNamespace = "http://www.w3.org/XML/1998/namespace"

// DSigNamespace is the XML-DSig namespace.
const DSigNamespace = "http://www.w3.org/2000/09/xmldsig#"

// Kind is the kind of a Node.
type Kind int

const (
	Element Kind = iota
	Text
	Comment
	PI
)

func (k Kind) String() string {
	switch k {
	case Element:
		return "element"
	case Text:
		return "text"
	case Comment:
		return "comment"
	case PI:
		return "pi"
	}
	return "kind" + strconv.Itoa(int(k))
}

// NSDecl is one namespace declaration written on an element. Prefix "" is the default
// namespace; URI "" (only with Prefix "") is the un-declaration xmlns="".
type NSDecl struct {
	Prefix string
	URI    string
}

// Attr is one (non-xmlns) attribute. Prefix "" means no namespace; Prefix "xml" is the
// reserved XML namespace.
type Attr struct {
	Prefix string
	Local  string
	Value  string
}

// Node is one node of the document tree.
//
//	Element: Prefix, Local, NS (declarations ON this element, in order), Attrs (in order), Children
//	Text:    Data (the character data, unescaped); CDATA = "written as a CDATA section"
//	Comment: Data
//	PI:      Local = target, Data = instruction data (no leading white space)
type Node struct {
	Kind     Kind
	Prefix   string
	Local    string
	NS       []NSDecl
	Attrs    []Attr
	Children []*Node
	Data     string
	CDATA    bool
}

// Doc is a whole document: prolog, document element, epilog.
type Doc struct {
	Decl       bool    // <?xml version="1.0" ...?> present
	Encoding   string  // encoding pseudo-attribute ("" = absent); always a spelling of UTF-8
	Standalone string  // "", "yes" or "no"
	Prolog     []*Node // comments and PIs before the document element
	Root       *Node
	Epilog     []*Node // comments and PIs after the document element
}

// NeedsEscape reports whether a text node's data (or, for other kinds, Data) contains a
// character that cannot be written literally in character data: & < > " CR TAB LF are
// reported (the last three because they are rewritten in attribute values and, for CR,
// in text).
func (n *Node) NeedsEscape() bool { return strings.ContainsAny(n.Data, "&<>\"\r\t\n") }

// QName returns prefix:local.
func (n *Node) QName() string { return qname(n.Prefix, n.Local) }

func qname(prefix, local string) string {
	if prefix == "" {
		return local
	}
	return prefix + ":" + local
}

// Clone returns a deep copy.
func (n *Node) Clone() *Node {
	if n == nil {
		return nil
	}
	c := *n
	c.NS = append([]NSDecl(nil), n.NS...)
	c.Attrs = append([]Attr(nil), n.Attrs...)
	c.Children = cloneList(n.Children)
	return &c
}

func cloneList(l []*Node) []*Node {
	if l == nil {
		return nil
	}
	out := make([]*Node, len(l))
	for i, c := range l {
		out[i] = c.Clone()
	}
	return out
}

// Clone returns a deep copy.
func (d *Doc) Clone() *Doc {
	c := *d
	c.Prolog = cloneList(d.Prolog)
	c.Epilog = cloneList(d.Epilog)
	c.Root = d.Root.Clone()
	return &c
}

// ChildElements returns the element children in order (the indexes used by path selectors).
func (n *Node) ChildElements() []*Node {
	var out []*Node
	for _, c := range n.Children {
		if c.Kind == Element {
			out = append(out, c)
		}
	}
	return out
}

// scope maps prefix -> URI for the namespace bindings in force ("" = default namespace).
type scope map[string]string

// bind returns the scope inside element n, given the scope around it.
func (s scope) bind(n *Node) scope {
	if len(n.NS) == 0 {
		return s
	}
	c := make(scope, len(s)+len(n.NS))
	for k, v := range s {
		c[k] = v
	}
	for _, d := range n.NS {
		c[d.Prefix] = d.URI
	}
	return c
}

// elemURI resolves an element prefix; ok is false when the prefix is unbound.
func (s scope) elemURI(prefix string) (string, bool) {
	if prefix == "xml" {
		return XMLNamespace, true
	}
	u, ok := s[prefix]
	if prefix == "" {
		return u, true
	}
	return u, ok && u != ""
}

// attrURI resolves an attribute prefix (unprefixed attributes are in no namespace).
func (s scope) attrURI(prefix string) (string, bool) {
	if prefix == "" {
		return "", true
	}
	return s.elemURI(prefix)
}

// walk calls f for every element of the subtree in document order with the scope in
// force INSIDE that element, its depth (root = 1) and its path selector.
func (d *Doc) walk(f func(n *Node, s scope, outer scope, depth int, path string)) {
	var rec func(n *Node, outer scope, depth int, path string)
	rec = func(n *Node, outer scope, depth int, path string) {
		s := outer.bind(n)
		f(n, s, outer, depth, path)
		i := 0
		for _, c := range n.Children {
			if c.Kind != Element {
				continue
			}
			p := path + "/" + strconv.Itoa(i)
			if path == "path=/" {
				p = path + strconv.Itoa(i)
			}
			rec(c, s, depth+1, p)
			i++
		}
	}
	if d.Root != nil {
		rec(d.Root, scope{}, 1, "path=/")
	}
}

// Paths returns the selector of every element in document order; the first is "path=/"
// (the document element), children are "path=/0", "path=/0/2", ... by child-element index.
func (d *Doc) Paths() []string {
	var out []string
	d.walk(func(_ *Node, _, _ scope, _ int, path string) { out = append(out, path) })
	return out
}

// NodeAt returns the element a "path=/i/j" selector names, or nil.
func (d *Doc) NodeAt(path string) *Node {
	if !strings.HasPrefix(path, "path=") || d.Root == nil {
		return nil
	}
	cur := d.Root
	for _, part := range strings.Split(path[len("path="):], "/") {
		if part == "" {
			continue
		}
		i, err := strconv.Atoi(part)
		if err != nil {
			return nil
		}
		kids := cur.ChildElements()
		if i < 0 || i >= len(kids) {
			return nil
		}
		cur = kids[i]
	}
	return cur
}

// FindPath returns the selector of the first element (document order) with the given
// namespace URI and local name, or "".
func (d *Doc) FindPath(uri, local string) string {
	found := ""
	d.walk(func(n *Node, s, _ scope, _ int, path string) {
		if found != "" || n.Local != local {
			return
		}
		if u, ok := s.elemURI(n.Prefix); ok && u == uri {
			found = path
		}
	})
	return found
}

// usedInScope reports whether the binding of prefix established on e is used by e or by
// anything below it before another declaration of the same prefix takes over. The
// default namespace is "used" by unprefixed ELEMENT names only.
func usedInScope(e *Node, prefix string) bool {
	var rec func(n *Node, top bool) bool
	rec = func(n *Node, top bool) bool {
		if !top {
			for _, d := range n.NS {
				if d.Prefix == prefix {
					return false
				}
			}
		}
		if n.Prefix == prefix {
			return true
		}
		if prefix != "" {
			for _, a := range n.Attrs {
				if a.Prefix == prefix {
					return true
				}
			}
		}
		for _, c := range n.Children {
			if c.Kind == Element && rec(c, false) {
				return true
			}
		}
		return false
	}
	return rec(e, true)
}

func isNCName(s string) bool {
	if s == "" {
		return false
	}
	for i, r := range s {
		switch {
		case r == '_' || r >= 'a' && r <= 'z' || r >= 'A' && r <= 'Z' || r >= 0xC0 && r != 0xD7 && r != 0xF7 && r < 0x2000:
		case i > 0 && (r == '-' || r == '.' || r >= '0' && r <= '9'):
		default:
			return false
		}
	}
	return true
}

func validChars(s string) bool {
	if !utf8.ValidString(s) {
		return false
	}
	for _, r := range s {
		switch {
		case r == '\t' || r == '\n' || r == '\r':
		case r < 0x20, r == 0xFFFE, r == 0xFFFF, r >= 0xD800 && r <= 0xDFFF:
			return false
		}
	}
	return true
}

func checkMisc(n *Node) error {
	switch n.Kind {
	case Comment:
		if !validChars(n.Data) || strings.Contains(n.Data, "--") || strings.HasSuffix(n.Data, "-") {
			return fmt.Errorf("bad comment %q", n.Data)
		}
	case PI:
		if !isNCName(n.Local) || strings.EqualFold(n.Local, "xml") {
			return fmt.Errorf("bad PI target %q", n.Local)
		}
		if !validChars(n.Data) || strings.Contains(n.Data, "?>") || n.Data != strings.TrimLeft(n.Data, " \t\r\n") {
			return fmt.Errorf("bad PI data %q", n.Data)
		}
	case Text:
		if !validChars(n.Data) {
			return fmt.Errorf("bad text %q", n.Data)
		}
	}
	return nil
}

// Check verifies the document is namespace-well-formed and serialisable: names are
// NCNames, every used prefix is in scope, no duplicate declarations or attributes (by
// expanded name) on one element, namespace URIs are absolute, character data is legal.
func (d *Doc) Check() error {
	if d.Root == nil || d.Root.Kind != Element {
		return fmt.Errorf("no document element")
	}
	switch d.Standalone {
	case "", "yes", "no":
	default:
		return fmt.Errorf("bad standalone %q", d.Standalone)
	}
	for _, l := range [][]*Node{d.Prolog, d.Epilog} {
		for _, n := range l {
			if n.Kind != Comment && n.Kind != PI {
				return fmt.Errorf("%v outside the document element", n.Kind)
			}
			if err := checkMisc(n); err != nil {
				return err
			}
		}
	}
	var err error
	fail := func(path string, format string, args ...interface{}) {
		if err == nil {
			err = fmt.Errorf("%s: %s", path, fmt.Sprintf(format, args...))
		}
	}
	d.walk(func(n *Node, s, _ scope, _ int, path string) {
		if !isNCName(n.Local) || (n.Prefix != "" && !isNCName(n.Prefix)) || n.Prefix == "xmlns" {
			fail(path, "bad element name %q", n.QName())
		}
		seenDecl := map[string]bool{}
		for _, dcl := range n.NS {
			switch {
			case seenDecl[dcl.Prefix]:
				fail(path, "duplicate declaration of prefix %q", dcl.Prefix)
			case dcl.Prefix == "xml" || dcl.Prefix == "xmlns" || (dcl.Prefix != "" && !isNCName(dcl.Prefix)):
				fail(path, "bad declared prefix %q", dcl.Prefix)
			case dcl.URI == "" && dcl.Prefix != "":
				fail(path, "prefix %q declared with empty URI", dcl.Prefix)
			case dcl.URI != "" && (!strings.Contains(dcl.URI, ":") || !validChars(dcl.URI) || strings.ContainsAny(dcl.URI, " \t\r\n")):
				fail(path, "namespace URI %q is not absolute", dcl.URI)
			case dcl.URI == XMLNamespace || dcl.URI == "http://www.w3.org/2000/xmlns/":
				fail(path, "reserved namespace URI declared")
			}
			seenDecl[dcl.Prefix] = true
		}
		if _, ok := s.elemURI(n.Prefix); !ok {
			fail(path, "element prefix %q not in scope", n.Prefix)
		}
		seenAttr := map[string]bool{}
		for _, a := range n.Attrs {
			if !isNCName(a.Local) || a.Prefix == "xmlns" || (a.Prefix == "" && a.Local == "xmlns") || (a.Prefix != "" && !isNCName(a.Prefix)) {
				fail(path, "bad attribute name %q", qname(a.Prefix, a.Local))
			}
			u, ok := s.attrURI(a.Prefix)
			if !ok {
				fail(path, "attribute prefix %q not in scope", a.Prefix)
			}
			key := "{" + u + "}" + a.Local
			if seenAttr[key] {
				fail(path, "duplicate attribute %s", key)
			}
			seenAttr[key] = true
			if !validChars(a.Value) {
				fail(path, "bad attribute value %q", a.Value)
			}
		}
		for _, c := range n.Children {
			if c.Kind == Element {
				continue
			}
			if e := checkMisc(c); e != nil {
				fail(path, "%v", e)
			}
		}
	})
	return err
}

// MeaningKey renders the canonical MEANING of the document element subtree (what every
// canonicalisation without comments preserves): expanded names in Clark notation,
// attributes sorted by expanded name, merged character data, PIs; no comments, no
// prefixes, no declarations. Two documents with different keys have different exc-c14n
// and c14n output. Element subtrees for which exclude(element, its namespace URI) is true
// are left out (nil = none).
func (d *Doc) MeaningKey(exclude func(n *Node, uri string) bool) string {
	var sb strings.Builder
	var rec func(n *Node, outer scope)
	rec = func(n *Node, outer scope) {
		s := outer.bind(n)
		u, _ := s.elemURI(n.Prefix)
		sb.WriteString("<{" + u + "}" + n.Local)
		keys := make([]string, 0, len(n.Attrs))
		for _, a := range n.Attrs {
			au, _ := s.attrURI(a.Prefix)
			keys = append(keys, " {"+au+"}"+a.Local+"="+strconv.Quote(a.Value))
		}
		sort.Strings(keys)
		for _, k := range keys {
			sb.WriteString(k)
		}
		sb.WriteString(">")
		text := ""
		flush := func() {
			if text != "" {
				sb.WriteString(strconv.Quote(text))
				text = ""
			}
		}
		for _, c := range n.Children {
			switch c.Kind {
			case Text:
				text += c.Data
			case Comment:
				// not part of the meaning
			case PI:
				flush()
				sb.WriteString("<?" + c.Local + " " + strconv.Quote(c.Data) + "?>")
			case Element:
				if exclude != nil {
					cu, _ := s.bind(c).elemURI(c.Prefix)
					if exclude(c, cu) {
						continue
					}
				}
				flush()
				rec(c, s)
			}
		}
		flush()
		sb.WriteString("</>")
	}
	rec(d.Root, scope{})
	return sb.String()
}

// Classes returns sorted shape labels describing which edge classes the document exercises.
func (d *Doc) Classes() []string {
	set := map[string]bool{}
	nonASCII := func(s string) {
		for _, r := range s {
			if r >= 0x80 {
				set["nonascii"] = true
				break
			}
		}
	}
	if d.Decl {
		set["decl"] = true
		if d.Standalone != "" {
			set["standalone"] = true
		}
	}
	for _, l := range [][]*Node{d.Prolog, d.Epilog} {
		for _, n := range l {
			nonASCII(n.Data)
			if n.Kind == Comment {
				set["comment-outer"] = true
			} else if n.Kind == PI {
				set["pi-outer"] = true
			}
		}
	}
	maxDepth := 0
	d.walk(func(n *Node, s, outer scope, depth int, path string) {
		if depth > maxDepth {
			maxDepth = depth
		}
		if n.Prefix != "" {
			set["prefixed"] = true
		}
		for _, dcl := range n.NS {
			if depth > 1 {
				set["nested-xmlns"] = true
			}
			if dcl.Prefix == "" && dcl.URI != "" {
				set["defaultns"] = true
			}
			if dcl.Prefix == "" && dcl.URI == "" {
				set["xmlns-empty"] = true
			}
			old, had := outer[dcl.Prefix]
			if old == dcl.URI && (had || dcl.Prefix == "") {
				set["redundant-xmlns"] = true
			} else if had && old != "" && dcl.Prefix != "" {
				set["prefix-shadow"] = true
			}
			if !usedInScope(n, dcl.Prefix) {
				set["unused-xmlns"] = true
			}
		}
		if len(n.NS) > 0 {
			byURI := map[string]string{}
			for p, u := range s {
				if u == "" {
					continue
				}
				if q, ok := byURI[u]; ok && q != p {
					set["alias-prefix"] = true
				}
				byURI[u] = p
			}
		}
		for _, a := range n.Attrs {
			switch a.Prefix {
			case "":
			case "xml":
				set["xml-attr"] = true
			default:
				set["nsattr"] = true
			}
			if strings.ContainsAny(a.Value, "&<>\"'\t\r\n") {
				set["attr-escapes"] = true
				set["escapes"] = true
			}
			if a.Value == "" {
				set["empty-attr"] = true
			}
			nonASCII(a.Value)
		}
		if len(n.Children) == 0 {
			set["empty-element"] = true
		}
		hasElem, hasRealText := false, false
		for _, c := range n.Children {
			switch c.Kind {
			case Element:
				hasElem = true
			case Comment:
				set["comment"] = true
				nonASCII(c.Data)
			case PI:
				set["pi"] = true
			case Text:
				if c.CDATA {
					set["cdata"] = true
				}
				trimmed := strings.Trim(c.Data, " \t\r\n")
				if trimmed == "" {
					set["whitespace-only-text"] = true
				} else {
					hasRealText = true
					if trimmed != c.Data || strings.ContainsAny(trimmed, "\t\r\n") {
						set["whitespace"] = true
					}
				}
				if strings.ContainsAny(c.Data, "&<>\"'") {
					set["text-escapes"] = true
					set["escapes"] = true
				}
				if strings.Contains(c.Data, "\r") {
					set["cr"] = true
					set["escapes"] = true
				}
				nonASCII(c.Data)
			}
		}
		if hasElem && hasRealText {
			set["mixed"] = true
		}
	})
	set["depth-"+strconv.Itoa(maxDepth)] = true
	out := make([]string, 0, len(set))
	for k := range set {
		out = append(out, k)
	}
	sort.Strings(out)
	return out
}

// String renders the document faithfully (Style{}).
func (d *Doc) String() string { return string(d.Serialize(Style{})) }
