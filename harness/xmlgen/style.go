package xmlgen

import (
	"bytes"
	"strconv"
	"strings"
	"unicode/utf8"

	"pgregory.net/rapid"
)

// Style is a set of presentation choices that do not change the canonical meaning of a
// document. Each bool allows one class of variation; the individual choices are read
// from Tape (cyclically; value 0 is always the plain choice). Style{} serialises the
// Doc faithfully: declarations then attributes in stored order, double quotes, <a/>,
// minimal escaping, CDATA where a text node says so.
//
// All classes preserve the output of the four canonicalisers for every subtree, except:
//
//	Comments  changes the #WithComments variants (use ForWithComments). Without
//	          TextComments no comment is inserted into an element whose content is
//	          character data only (the JDK's XML-DSig unmarshaller reads only the first
//	          text node of DigestValue, Modulus, X509Certificate ...)
//	UnusedNS  changes inclusive Canonical XML (use ForInclusive); exclusive c14n only
type Style struct {
	Tape []byte

	AttrOrder    bool // permute attributes and namespace declarations inside a start tag
	Quotes       bool // ' or " around attribute values
	EmptyForm    bool // <a/> or <a></a>
	TagSpace     bool // white space inside tags (between attributes, around =, before >, in PIs)
	CharRefs     bool // named/decimal/hex character references instead of literal characters
	CDATA        bool // CDATA sections or escaped text, CDATA sections split
	LineEndings  bool // a line feed in text written as a literal CR LF pair (parsers normalise it back)
	Decl         bool // XML declaration added/removed, encoding/standalone re-spelled
	BOM          bool // UTF-8 byte order mark
	OuterSpace   bool // white space between the items outside the document element
	Comments     bool // comments dropped and inserted (inside and outside the document element)
	TextComments bool // with Comments: also next to the character data of text-only elements
	RedundantNS  bool // redundant re-declarations of in-scope bindings dropped and inserted
	UnusedNS     bool // unused declarations dropped, moved to another element, inserted
}

// ForInclusive returns the style restricted to what inclusive Canonical XML preserves.
func (s Style) ForInclusive() Style { s.UnusedNS = false; return s }

// ForWithComments returns the style restricted to what the #WithComments algorithms preserve.
func (s Style) ForWithComments() Style { s.Comments = false; return s }

// String lists the enabled classes.
func (s Style) String() string {
	var on []string
	for _, f := range []struct {
		b bool
		n string
	}{{s.AttrOrder, "AttrOrder"}, {s.Quotes, "Quotes"}, {s.EmptyForm, "EmptyForm"}, {s.TagSpace, "TagSpace"},
		{s.CharRefs, "CharRefs"}, {s.CDATA, "CDATA"}, {s.LineEndings, "LineEndings"}, {s.Decl, "Decl"}, {s.BOM, "BOM"}, {s.OuterSpace, "OuterSpace"},
		{s.Comments, "Comments"}, {s.TextComments, "TextComments"}, {s.RedundantNS, "RedundantNS"}, {s.UnusedNS, "UnusedNS"}} {
		if f.b {
			on = append(on, f.n)
		}
	}
	return "Style{" + strings.Join(on, ",") + " tape=" + strconv.Itoa(len(s.Tape)) + "}"
}

// GenStyle draws a style: every class on or off, and a choice tape.
func GenStyle(t *rapid.T) Style {
	s := Style{
		AttrOrder:    rapid.Bool().Draw(t, "style-attrorder"),
		Quotes:       rapid.Bool().Draw(t, "style-quotes"),
		EmptyForm:    rapid.Bool().Draw(t, "style-emptyform"),
		TagSpace:     rapid.Bool().Draw(t, "style-tagspace"),
		CharRefs:     rapid.Bool().Draw(t, "style-charrefs"),
		CDATA:        rapid.Bool().Draw(t, "style-cdata"),
		LineEndings:  rapid.Bool().Draw(t, "style-lineendings"),
		Decl:         rapid.Bool().Draw(t, "style-decl"),
		BOM:          rapid.Bool().Draw(t, "style-bom"),
		OuterSpace:   rapid.Bool().Draw(t, "style-outerspace"),
		Comments:     rapid.Bool().Draw(t, "style-comments"),
		TextComments: rapid.Bool().Draw(t, "style-textcomments"),
		RedundantNS:  rapid.Bool().Draw(t, "style-redundantns"),
		UnusedNS:     rapid.Bool().Draw(t, "style-unusedns"),
	}
	s.Tape = rapid.SliceOfN(rapid.Byte(), 16, 128).Draw(t, "style-tape")
	return s
}

type writer struct {
	st  Style
	pos int
	buf bytes.Buffer
}

// next returns a choice in [0,n); 0 when there is no tape.
func (w *writer) next(n int) int {
	if len(w.st.Tape) == 0 || n <= 1 {
		return 0
	}
	v := int(w.st.Tape[w.pos%len(w.st.Tape)])
	w.pos++
	return v % n
}

var styleComments = []string{"", " style ", "x", "<ignored attr='1'/>", " a - b ", "&amp; & <", "\n"}
var tagSpaces = []string{" ", "  ", "\n", "\t", "\n    ", "\r\n ", " \n"}
var optTagSpaces = []string{"", " ", "\n", "  ", "\t"}
var outerSpaces = []string{"\n", "", " ", "\r\n", "\n\n\t", "\n  "}

// Serialize writes the document with the presentation choices of style. Any two
// serialisations of one Doc have the same exclusive-c14n output for every subtree (see
// Style for the classes that other algorithms do not preserve).
func (d *Doc) Serialize(style Style) []byte {
	w := &writer{st: style}
	doc := d
	if style.Comments || style.RedundantNS || style.UnusedNS {
		doc = d.Clone()
		if style.Comments {
			w.restyleComments(doc)
		}
		if style.RedundantNS {
			w.restyleRedundant(doc.Root, scope{})
		}
		if style.UnusedNS {
			w.restyleUnused(doc)
		}
	}
	if style.BOM && w.next(2) == 1 {
		w.buf.WriteString("\xef\xbb\xbf")
	}
	w.writeDecl(doc)
	for _, n := range doc.Prolog {
		w.writeMisc(n)
		w.outerSpace()
	}
	w.writeElement(doc.Root)
	for _, n := range doc.Epilog {
		w.outerSpace()
		w.writeMisc(n)
	}
	if style.OuterSpace {
		w.buf.WriteString(outerSpaces[w.next(len(outerSpaces))])
	}
	return w.buf.Bytes()
}

func (w *writer) outerSpace() {
	if w.st.OuterSpace {
		w.buf.WriteString(outerSpaces[w.next(len(outerSpaces))])
	} else {
		w.buf.WriteString("\n")
	}
}

func (w *writer) space() {
	if w.st.TagSpace {
		w.buf.WriteString(tagSpaces[w.next(len(tagSpaces))])
	} else {
		w.buf.WriteByte(' ')
	}
}

func (w *writer) optSpace() {
	if w.st.TagSpace {
		w.buf.WriteString(optTagSpaces[w.next(len(optTagSpaces))])
	}
}

func (w *writer) quote() byte {
	if w.st.Quotes && w.next(2) == 1 {
		return '\''
	}
	return '"'
}

func (w *writer) writeDecl(d *Doc) {
	present, enc, sa := d.Decl, d.Encoding, d.Standalone
	if w.st.Decl {
		switch w.next(3) {
		case 1:
			present = true
		case 2:
			present = false
		}
		enc = []string{enc, "UTF-8", "utf-8", "", "Utf-8"}[w.next(5)]
		sa = []string{sa, "", "yes", "no"}[w.next(4)]
	}
	if !present {
		return
	}
	w.buf.WriteString("<?xml")
	pseudo := func(name, val string) {
		w.space()
		w.buf.WriteString(name)
		w.optSpace()
		w.buf.WriteByte('=')
		w.optSpace()
		q := w.quote()
		w.buf.WriteByte(q)
		w.buf.WriteString(val)
		w.buf.WriteByte(q)
	}
	pseudo("version", "1.0")
	if enc != "" {
		pseudo("encoding", enc)
	}
	if sa != "" {
		pseudo("standalone", sa)
	}
	w.optSpace()
	w.buf.WriteString("?>")
	w.outerSpace()
}

func (w *writer) writeMisc(n *Node) {
	switch n.Kind {
	case Comment:
		w.buf.WriteString("<!--")
		w.buf.WriteString(n.Data)
		w.buf.WriteString("-->")
	case PI:
		w.buf.WriteString("<?")
		w.buf.WriteString(n.Local)
		if n.Data != "" {
			w.space()
			w.buf.WriteString(n.Data)
		} else {
			w.optSpace()
		}
		w.buf.WriteString("?>")
	}
}

type tagItem struct {
	name  string
	value string
}

func (w *writer) writeElement(n *Node) {
	name := n.QName()
	w.buf.WriteByte('<')
	w.buf.WriteString(name)
	items := make([]tagItem, 0, len(n.NS)+len(n.Attrs))
	for _, d := range n.NS {
		if d.Prefix == "" {
			items = append(items, tagItem{"xmlns", d.URI})
		} else {
			items = append(items, tagItem{"xmlns:" + d.Prefix, d.URI})
		}
	}
	for _, a := range n.Attrs {
		items = append(items, tagItem{qname(a.Prefix, a.Local), a.Value})
	}
	if w.st.AttrOrder {
		for i := len(items) - 1; i > 0; i-- {
			j := w.next(i + 1)
			items[i], items[j] = items[j], items[i]
		}
	}
	for _, it := range items {
		w.space()
		w.buf.WriteString(it.name)
		w.optSpace()
		w.buf.WriteByte('=')
		w.optSpace()
		q := w.quote()
		w.buf.WriteByte(q)
		w.writeAttrValue(it.value, q)
		w.buf.WriteByte(q)
	}
	w.optSpace()
	if len(n.Children) == 0 && !(w.st.EmptyForm && w.next(2) == 1) {
		w.buf.WriteString("/>")
		return
	}
	w.buf.WriteByte('>')
	for _, c := range n.Children {
		switch c.Kind {
		case Element:
			w.writeElement(c)
		case Text:
			w.writeText(c)
		default:
			w.writeMisc(c)
		}
	}
	w.buf.WriteString("</")
	w.buf.WriteString(name)
	w.optSpace()
	w.buf.WriteByte('>')
}

var namedEntity = map[rune]string{'&': "&amp;", '<': "&lt;", '>': "&gt;", '"': "&quot;", '\'': "&apos;"}

// ref writes r as a reference: form 0 = named entity when one exists (else decimal),
// 1 = decimal, 2 = hex lower, 3 = hex upper with leading zero.
func (w *writer) ref(r rune, form int) {
	switch {
	case form == 0 && namedEntity[r] != "":
		w.buf.WriteString(namedEntity[r])
	case form <= 1:
		w.buf.WriteString("&#" + strconv.Itoa(int(r)) + ";")
	case form == 2:
		w.buf.WriteString("&#x" + strconv.FormatInt(int64(r), 16) + ";")
	default:
		w.buf.WriteString("&#x0" + strings.ToUpper(strconv.FormatInt(int64(r), 16)) + ";")
	}
}

// refForm chooses how to write a character that must be escaped.
func (w *writer) refForm() int {
	if w.st.CharRefs {
		return w.next(4)
	}
	return 0
}

// maybeRef: with CharRefs, occasionally writes a character that needs no escaping as a
// reference; reports whether it did.
func (w *writer) maybeRef(r rune) bool {
	if !w.st.CharRefs {
		return false
	}
	switch v := w.next(16); v {
	case 13, 14, 15:
		w.ref(r, v-12)
		return true
	case 12:
		if namedEntity[r] != "" {
			w.ref(r, 0)
			return true
		}
	}
	return false
}

func (w *writer) writeAttrValue(v string, q byte) {
	for _, r := range v {
		switch {
		case r == '&' || r == '<' || r == rune(q):
			w.ref(r, w.refForm())
		case r == '>':
			// legal literally, but written so only on request and never right after "]":
			// Go's encoding/xml (what relic parses with) rejects "]]>" even inside
			// attribute values
			if w.st.CharRefs && w.lastByte() != ']' && w.next(2) == 1 {
				w.buf.WriteByte('>')
			} else {
				w.ref(r, w.refForm())
			}
		case r == '\t' || r == '\n' || r == '\r':
			// literal white space would be normalised to a space by the parser
			f := w.refForm()
			if f == 0 {
				f = 1
			}
			w.ref(r, f)
		default:
			if !w.maybeRef(r) {
				w.buf.WriteRune(r)
			}
		}
	}
}

func (w *writer) lastByte() byte {
	b := w.buf.Bytes()
	if len(b) == 0 {
		return 0
	}
	return b[len(b)-1]
}

func (w *writer) writeText(n *Node) {
	cdata := n.CDATA
	if w.st.CDATA {
		cdata = w.next(2) == 1
	}
	if cdata {
		w.writeCDATA(n.Data)
		return
	}
	for _, r := range n.Data {
		switch {
		case r == '&' || r == '<':
			w.ref(r, w.refForm())
		case r == '>':
			// a literal > is legal unless it would complete "]]>"
			if w.st.CharRefs && w.lastByte() != ']' && w.next(2) == 1 {
				w.buf.WriteByte('>')
			} else {
				w.ref(r, w.refForm())
			}
		case r == '\r':
			// a literal CR would be normalised to LF by the parser
			f := w.refForm()
			if f == 0 {
				f = 1
			}
			w.ref(r, f)
		case r == '\n' && w.st.LineEndings && w.next(2) == 1:
			w.buf.WriteString("\r\n")
		default:
			if !w.maybeRef(r) {
				w.buf.WriteRune(r)
			}
		}
	}
}

func (w *writer) writeCDATA(s string) {
	open := false
	begin := func() {
		if !open {
			w.buf.WriteString("<![CDATA[")
			open = true
		}
	}
	end := func() {
		if open {
			w.buf.WriteString("]]>")
			open = false
		}
	}
	if s == "" {
		begin()
	}
	for i := 0; i < len(s); {
		r, size := utf8.DecodeRuneInString(s[i:])
		switch {
		case r == '\r':
			end()
			f := w.refForm()
			if f == 0 {
				f = 1
			}
			w.ref(r, f)
		case r == '>' && i >= 2 && s[i-2] == ']' && s[i-1] == ']':
			// "]]>" cannot appear inside a section: close after "]]" and start a new one
			end()
			begin()
			w.buf.WriteByte('>')
		default:
			if open && w.st.CDATA && w.next(24) == 23 {
				end() // adjacent sections
			}
			begin()
			if r == '\n' && w.st.LineEndings && w.next(2) == 1 {
				w.buf.WriteByte('\r')
			}
			w.buf.WriteString(s[i : i+size])
		}
		i += size
	}
	end()
}

// ---- structural, meaning-preserving rewrites (operate on a private clone) ----

func (w *writer) styleComment() *Node {
	return &Node{Kind: Comment, Data: styleComments[w.next(len(styleComments))]}
}

func (w *writer) restyleList(in []*Node, insert bool) []*Node {
	var out []*Node
	for _, c := range in {
		if insert && w.next(8) == 7 {
			out = append(out, w.styleComment())
		}
		if c.Kind == Comment && w.next(3) == 1 {
			continue
		}
		out = append(out, c)
	}
	if insert && w.next(8) == 7 {
		out = append(out, w.styleComment())
	}
	return out
}

func (w *writer) restyleComments(d *Doc) {
	d.Prolog = w.restyleList(d.Prolog, true)
	d.Epilog = w.restyleList(d.Epilog, true)
	var rec func(n *Node)
	rec = func(n *Node) {
		textOnly := false
		for _, c := range n.Children {
			if c.Kind == Text {
				textOnly = true
			}
		}
		for _, c := range n.Children {
			if c.Kind == Element {
				textOnly = false
			}
		}
		n.Children = w.restyleList(n.Children, w.st.TextComments || !textOnly)
		for _, c := range n.Children {
			if c.Kind == Element {
				rec(c)
			}
		}
	}
	rec(d.Root)
}

func (w *writer) restyleRedundant(n *Node, outer scope) {
	kept := n.NS[:0:0]
	for _, d := range n.NS {
		old, had := outer[d.Prefix]
		if old == d.URI && (had || d.Prefix == "") && w.next(2) == 1 {
			continue
		}
		kept = append(kept, d)
	}
	n.NS = kept
	if w.next(6) == 5 {
		cands := sortedPrefixes(outer)
		if _, ok := outer[""]; !ok {
			cands = append([]string{""}, cands...)
		}
		p := cands[w.next(len(cands))]
		if !hasDecl(n, p) {
			n.NS = append(n.NS, NSDecl{p, outer[p]})
		}
	}
	s := outer.bind(n)
	for _, c := range n.Children {
		if c.Kind == Element {
			w.restyleRedundant(c, s)
		}
	}
}

func (w *writer) restyleUnused(d *Doc) {
	var elems []*Node
	declCount := map[string]int{}
	nameUse := map[string]bool{}
	d.walk(func(n *Node, _, _ scope, _ int, _ string) {
		elems = append(elems, n)
		nameUse[n.Prefix] = true
		for _, a := range n.Attrs {
			nameUse[a.Prefix] = true
		}
		for _, dcl := range n.NS {
			declCount[dcl.Prefix]++
		}
	})
	var moves []NSDecl
	for _, n := range elems {
		kept := n.NS[:0:0]
		for _, dcl := range n.NS {
			if usedInScope(n, dcl.Prefix) {
				kept = append(kept, dcl)
				continue
			}
			switch w.next(3) {
			case 0:
				kept = append(kept, dcl)
			case 1:
				// dropped
			case 2:
				// moving is only safe for a prefix that occurs nowhere else
				if dcl.Prefix != "" && declCount[dcl.Prefix] == 1 && !nameUse[dcl.Prefix] {
					moves = append(moves, dcl)
				}
			}
		}
		n.NS = kept
	}
	for _, m := range moves {
		t := elems[w.next(len(elems))]
		t.NS = append(t.NS, m)
	}
	for i, k := 0, w.next(3); i < k; i++ {
		p := ""
		for c := 0; ; c++ {
			p = "sty" + strconv.Itoa(c)
			if declCount[p] == 0 && !nameUse[p] {
				break
			}
		}
		declCount[p]++
		uri := "urn:style:" + p
		if v := w.next(len(nsPool) + 1); v < len(nsPool) {
			uri = nsPool[v].URI
		}
		t := elems[w.next(len(elems))]
		t.NS = append(t.NS, NSDecl{p, uri})
	}
}
