package xmlgen

import (
	"strconv"
	"strings"
	"unicode/utf8"

	"pgregory.net/rapid"
)

// MutationKinds are the labels Mutate can return (possibly with a ":variant" suffix).
var MutationKinds = []string{
	"text-char", "attr-value", "attr-add", "attr-remove", "elem-rename", "elem-reorder",
	"elem-remove", "elem-insert", "ns-uri", "whitespace",
}

// Mutate returns a copy of the document with ONE edit that changes its canonical
// meaning (the exc-c14n and c14n output of the document element differ from the
// original's, with or without comments), and a label naming the edit.
func (d *Doc) Mutate(t *rapid.T) (*Doc, string) { return d.MutateExcluding(t, nil) }

// MutateExcluding is Mutate restricted to the part of the document outside the element
// subtrees for which exclude(element, its namespace URI) is true (for example a
// ds:Signature whose KeyInfo is not covered by the signature). The document element
// itself cannot be excluded. The edit is guaranteed to change the meaning of the
// non-excluded part. exclude must judge by content, not by pointer: it is called on
// copies.
func (d *Doc) MutateExcluding(t *rapid.T, exclude func(n *Node, uri string) bool) (*Doc, string) {
	before := d.MeaningKey(exclude)
	first := rapid.IntRange(0, len(MutationKinds)-1).Draw(t, "mutation")
	for i := 0; i < len(MutationKinds); i++ {
		kind := MutationKinds[(first+i)%len(MutationKinds)]
		c := d.Clone()
		m := &mutator{t: t, d: c, exclude: exclude}
		m.collect()
		variant, ok := m.apply(kind)
		if !ok {
			continue
		}
		if c.Check() != nil || c.MeaningKey(exclude) == before {
			continue
		}
		if variant != "" {
			kind += ":" + variant
		}
		return c, kind
	}
	t.Fatalf("xmlgen: no mutation applicable (cannot happen: elem-insert always is)")
	return nil, ""
}

type site struct {
	n      *Node
	parent *Node // nil for the document element
	s      scope // scope inside n
}

type mutator struct {
	t       *rapid.T
	d       *Doc
	exclude func(*Node, string) bool
	sites   []site
}

func (m *mutator) collect() {
	var rec func(n, parent *Node, outer scope)
	rec = func(n, parent *Node, outer scope) {
		s := outer.bind(n)
		if parent != nil && m.exclude != nil {
			u, _ := s.elemURI(n.Prefix)
			if m.exclude(n, u) {
				return
			}
		}
		m.sites = append(m.sites, site{n, parent, s})
		for _, c := range n.Children {
			if c.Kind == Element {
				rec(c, n, s)
			}
		}
	}
	rec(m.d.Root, nil, scope{})
}

func (m *mutator) intn(n int, label string) int {
	return rapid.IntRange(0, n-1).Draw(m.t, label)
}

// isSite reports whether element n may be edited (is not inside an excluded subtree).
func (m *mutator) isSite(n *Node) bool {
	for _, s := range m.sites {
		if s.n == n {
			return true
		}
	}
	return false
}

func changeRune(s string, idx int) string {
	// idx counts runes
	i := 0
	for pos, r := range s {
		if i == idx {
			repl := "x"
			if r == 'x' {
				repl = "y"
			}
			return s[:pos] + repl + s[pos+utf8.RuneLen(r):]
		}
		i++
	}
	return s + "x"
}

func (m *mutator) apply(kind string) (variant string, ok bool) {
	switch kind {
	case "text-char":
		var texts []*Node
		for _, s := range m.sites {
			for _, c := range s.n.Children {
				if c.Kind == Text && strings.Trim(c.Data, " \t\r\n") != "" {
					texts = append(texts, c)
				}
			}
		}
		if len(texts) == 0 {
			return "", false
		}
		x := texts[m.intn(len(texts), "text")]
		var idxs []int
		i := 0
		for _, r := range x.Data {
			if !strings.ContainsRune(" \t\r\n", r) {
				idxs = append(idxs, i)
			}
			i++
		}
		x.Data = changeRune(x.Data, idxs[m.intn(len(idxs), "char")])
		return "", true

	case "attr-value", "attr-remove":
		var with []*Node
		for _, s := range m.sites {
			if len(s.n.Attrs) > 0 {
				with = append(with, s.n)
			}
		}
		if len(with) == 0 {
			return "", false
		}
		n := with[m.intn(len(with), "elem")]
		ai := m.intn(len(n.Attrs), "attr")
		if kind == "attr-remove" {
			n.Attrs = append(n.Attrs[:ai:ai], n.Attrs[ai+1:]...)
			return "", true
		}
		a := &n.Attrs[ai]
		switch v := m.intn(4, "how"); {
		case v == 0 || a.Value == "":
			a.Value += "x"
			return "append", true
		case v == 1:
			_, size := utf8.DecodeLastRuneInString(a.Value)
			a.Value = a.Value[:len(a.Value)-size]
			return "truncate", true
		case v == 2:
			a.Value = changeRune(a.Value, m.intn(utf8.RuneCountInString(a.Value), "char"))
			return "char", true
		default:
			// white space inside attribute values is significant too
			a.Value = a.Value + " "
			return "trailing-space", true
		}

	case "attr-add":
		s := m.sites[m.intn(len(m.sites), "elem")]
		name := "mutAttr"
		for i := 0; ; i++ {
			clash := false
			for _, a := range s.n.Attrs {
				if a.Prefix == "" && a.Local == name {
					clash = true
				}
			}
			if !clash {
				break
			}
			name = "mutAttr" + strconv.Itoa(i)
		}
		at := m.intn(len(s.n.Attrs)+1, "pos")
		attrs := append([]Attr{}, s.n.Attrs[:at]...)
		attrs = append(attrs, Attr{"", name, "1"})
		s.n.Attrs = append(attrs, s.n.Attrs[at:]...)
		return "", true

	case "elem-rename":
		s := m.sites[m.intn(len(m.sites), "elem")]
		if m.intn(2, "how") == 1 {
			// same local name, other namespace: a different prefix bound to a different URI
			cur, _ := s.s.elemURI(s.n.Prefix)
			for _, p := range sortedPrefixes(s.s) {
				if u, ok := s.s.elemURI(p); ok && u != cur && p != s.n.Prefix {
					s.n.Prefix = p
					return "namespace", true
				}
			}
		}
		s.n.Local += "X"
		return "local", true

	case "elem-reorder":
		var parents []*Node
		for _, s := range m.sites {
			k := 0
			for _, c := range s.n.Children {
				if c.Kind == Element && m.isSite(c) {
					k++
				}
			}
			if k >= 2 {
				parents = append(parents, s.n)
			}
		}
		if len(parents) == 0 {
			return "", false
		}
		p := parents[m.intn(len(parents), "parent")]
		var idx []int
		for i, c := range p.Children {
			if c.Kind == Element && m.isSite(c) {
				idx = append(idx, i)
			}
		}
		a := m.intn(len(idx), "first")
		b := m.intn(len(idx)-1, "second")
		if b >= a {
			b++
		}
		p.Children[idx[a]], p.Children[idx[b]] = p.Children[idx[b]], p.Children[idx[a]]
		return "", true

	case "elem-remove":
		if len(m.sites) < 2 {
			return "", false
		}
		s := m.sites[1+m.intn(len(m.sites)-1, "elem")]
		for i, c := range s.parent.Children {
			if c == s.n {
				s.parent.Children = append(s.parent.Children[:i:i], s.parent.Children[i+1:]...)
				break
			}
		}
		return "", true

	case "elem-insert":
		s := m.sites[m.intn(len(m.sites), "parent")]
		at := m.intn(len(s.n.Children)+1, "pos")
		kids := append([]*Node{}, s.n.Children[:at]...)
		kids = append(kids, &Node{Kind: Element, Local: "mutInserted"})
		s.n.Children = append(kids, s.n.Children[at:]...)
		return "", true

	case "ns-uri":
		type cand struct {
			n *Node
			i int
		}
		var cands []cand
		for _, s := range m.sites {
			for i, dcl := range s.n.NS {
				if usedInScope(s.n, dcl.Prefix) {
					cands = append(cands, cand{s.n, i})
				}
			}
		}
		if len(cands) == 0 {
			return "", false
		}
		c := cands[m.intn(len(cands), "decl")]
		dcl := &c.n.NS[c.i]
		if dcl.URI == "" {
			dcl.URI = "urn:mut:default"
		} else if m.intn(2, "how") == 1 {
			dcl.URI = strings.ToUpper(dcl.URI[:1]) + dcl.URI[1:] + "/"
			return "suffix-slash", true
		} else {
			dcl.URI += "-mut"
		}
		return "", true

	case "whitespace":
		var texts []*Node
		for _, s := range m.sites {
			for _, c := range s.n.Children {
				if c.Kind == Text {
					texts = append(texts, c)
				}
			}
		}
		how := m.intn(5, "how")
		if len(texts) == 0 || how == 0 {
			s := m.sites[m.intn(len(m.sites), "parent")]
			at := m.intn(len(s.n.Children)+1, "pos")
			kids := append([]*Node{}, s.n.Children[:at]...)
			kids = append(kids, &Node{Kind: Text, Data: []string{" ", "\n", "\t", "\r"}[m.intn(4, "ws")]})
			s.n.Children = append(kids, s.n.Children[at:]...)
			return "insert-text", true
		}
		x := texts[m.intn(len(texts), "text")]
		switch how {
		case 1:
			x.Data = " " + x.Data
			return "lead-add", true
		case 2:
			x.Data += "\n"
			return "trail-add", true
		case 3:
			if t := strings.TrimRight(x.Data, " \t\r\n"); t != x.Data {
				x.Data = t
				return "trail-strip", true
			}
			if t := strings.TrimLeft(x.Data, " \t\r\n"); t != x.Data {
				x.Data = t
				return "lead-strip", true
			}
			x.Data += " "
			return "trail-add", true
		default:
			if i := strings.IndexAny(x.Data, "\n\t\r"); i >= 0 {
				x.Data = x.Data[:i] + " " + x.Data[i+1:]
				return "ws-kind", true
			}
			if i := strings.Index(x.Data, " "); i >= 0 {
				x.Data = x.Data[:i] + "\n" + x.Data[i+1:]
				return "ws-kind", true
			}
			x.Data += "\t"
			return "trail-add", true
		}
	}
	return "", false
}
