// Package xmlgen provides (A) a client for the Java reference server
// (/verif/java/RefServer.java: the JDK's own canonicalisers and XML-DSig core validation)
// and (B) a grammar-based generator of namespace-well-formed XML documents shaped like
// the manifests relic signs, with meaning-preserving re-serialisation (Style) and
// meaning-changing edits (Mutate).
//
// The package deliberately imports nothing from relic: it is the independent side of a
// differential oracle.
package xmlgen

import (
	"bufio"
	"encoding/base64"
	"errors"
	"fmt"
	"io"
	"os"
	"os/exec"
	"path/filepath"
	"strings"
	"sync"
)

// Canonicalisation algorithm names understood by the server.
const (
	AlgExc             = "exc"  // http://www.w3.org/2001/10/xml-exc-c14n#
	AlgExcWithComments = "excc" // http://www.w3.org/2001/10/xml-exc-c14n#WithComments
	AlgInc             = "inc"  // http://www.w3.org/TR/2001/REC-xml-c14n-20010315
	AlgIncWithComments = "incc" // http://www.w3.org/TR/2001/REC-xml-c14n-20010315#WithComments
)

// Selectors understood by the server besides "id=<v>" and "path=/i/j".
const (
	SelRoot     = "-"   // the document element subtree
	SelDocument = "doc" // the whole document node (comments/PIs outside the root included)
)

// JavaFlags are the module flags needed at both javac and java time.
var JavaFlags = []string{
	"--add-exports", "java.xml.crypto/com.sun.org.apache.xml.internal.security=ALL-UNNAMED",
	"--add-exports", "java.xml.crypto/com.sun.org.apache.xml.internal.security.c14n=ALL-UNNAMED",
}

// Java is a running RefServer process. Safe for concurrent callers (requests are
// serialised by a mutex).
type Java struct {
	mu     sync.Mutex
	cmd    *exec.Cmd
	in     io.WriteCloser
	out    *bufio.Reader
	stderr *tailBuffer
	dead   error
}

// tailBuffer keeps the last few KiB of the child's stderr for error messages.
type tailBuffer struct {
	mu  sync.Mutex
	buf []byte
}

func (b *tailBuffer) Write(p []byte) (int, error) {
	b.mu.Lock()
	defer b.mu.Unlock()
	b.buf = append(b.buf, p...)
	if len(b.buf) > 4096 {
		b.buf = b.buf[len(b.buf)-4096:]
	}
	return len(p), nil
}

func (b *tailBuffer) String() string {
	b.mu.Lock()
	defer b.mu.Unlock()
	return string(b.buf)
}

// BuildJava compiles srcDir/RefServer.java into outDir by running srcDir/build.sh.
func BuildJava(srcDir, outDir string) error {
	if _, err := exec.LookPath("javac"); err != nil {
		return fmt.Errorf("javac not available: %w", err)
	}
	script := filepath.Join(srcDir, "build.sh")
	if _, err := os.Stat(script); err != nil {
		return err
	}
	cmd := exec.Command("sh", script, outDir)
	cmd.Dir = srcDir
	out, err := cmd.CombinedOutput()
	if err != nil {
		return fmt.Errorf("build.sh: %w: %s", err, strings.TrimSpace(string(out)))
	}
	if _, err := os.Stat(filepath.Join(outDir, "RefServer.class")); err != nil {
		return fmt.Errorf("build.sh produced no RefServer.class: %w", err)
	}
	return nil
}

// StartJava spawns `java --add-exports ... -cp classDir RefServer` and checks it answers PING.
func StartJava(classDir string) (*Java, error) {
	javaBin, err := exec.LookPath("java")
	if err != nil {
		return nil, fmt.Errorf("java not available: %w", err)
	}
	args := append([]string{}, JavaFlags...)
	args = append(args, "-XX:+UseSerialGC", "-cp", classDir, "RefServer")
	cmd := exec.Command(javaBin, args...)
	in, err := cmd.StdinPipe()
	if err != nil {
		return nil, err
	}
	outPipe, err := cmd.StdoutPipe()
	if err != nil {
		return nil, err
	}
	j := &Java{cmd: cmd, in: in, out: bufio.NewReaderSize(outPipe, 1<<16), stderr: &tailBuffer{}}
	cmd.Stderr = j.stderr
	if err := cmd.Start(); err != nil {
		return nil, err
	}
	resp, err := j.roundTrip("PING")
	if err != nil {
		j.Close()
		return nil, fmt.Errorf("RefServer did not start: %w", err)
	}
	if resp != "pong" {
		j.Close()
		return nil, fmt.Errorf("RefServer: unexpected PING answer %q", resp)
	}
	return j, nil
}

// ServerError is an "ERR ..." answer: the server is alive but refused the request
// (for example the document is not well-formed).
type ServerError struct{ Msg string }

func (e *ServerError) Error() string { return "RefServer: " + e.Msg }

// roundTrip sends one request line and returns the payload after "OK ".
func (j *Java) roundTrip(line string) (string, error) {
	j.mu.Lock()
	defer j.mu.Unlock()
	if j.dead != nil {
		return "", j.dead
	}
	fail := func(err error) (string, error) {
		j.dead = fmt.Errorf("RefServer connection lost: %w (stderr: %s)", err, strings.TrimSpace(j.stderr.String()))
		return "", j.dead
	}
	if strings.ContainsAny(line, "\r\n") {
		return "", errors.New("request contains a newline")
	}
	if _, err := io.WriteString(j.in, line+"\n"); err != nil {
		return fail(err)
	}
	resp, err := j.out.ReadString('\n')
	if err != nil {
		return fail(err)
	}
	resp = strings.TrimRight(resp, "\r\n")
	switch {
	case resp == "OK":
		return "", nil
	case strings.HasPrefix(resp, "OK "):
		return resp[3:], nil
	case strings.HasPrefix(resp, "ERR"):
		return "", &ServerError{Msg: strings.TrimSpace(resp[3:])}
	}
	return fail(fmt.Errorf("malformed response %.80q", resp))
}

// Ping checks the server is alive.
func (j *Java) Ping() error {
	resp, err := j.roundTrip("PING")
	if err != nil {
		return err
	}
	if resp != "pong" {
		return fmt.Errorf("RefServer: unexpected PING answer %q", resp)
	}
	return nil
}

func checkWord(kind, s string) error {
	if s == "" || strings.ContainsAny(s, " \t\r\n") {
		return fmt.Errorf("bad %s %q", kind, s)
	}
	return nil
}

func b64(b []byte) string { return base64.StdEncoding.EncodeToString(b) }

// C14N canonicalises the subtree named by selector ("-", "doc", "id=<v>", "path=/i/j")
// of doc with the JDK canonicaliser alg (AlgExc, AlgExcWithComments, AlgInc,
// AlgIncWithComments). A *ServerError is returned when the JDK rejects the input.
func (j *Java) C14N(alg string, selector string, doc []byte) ([]byte, error) {
	if err := checkWord("algorithm", alg); err != nil {
		return nil, err
	}
	if err := checkWord("selector", selector); err != nil {
		return nil, err
	}
	resp, err := j.roundTrip("C14N " + alg + " " + selector + " " + b64(doc))
	if err != nil {
		return nil, err
	}
	return base64.StdEncoding.DecodeString(resp)
}

// C14NRemoving is C14N after removing from the DOM the element(s) named by
// removeSelector (one selector, or several separated by spaces, all resolved against the
// unmodified document). It emulates the enveloped-signature transform.
func (j *Java) C14NRemoving(alg, selector string, doc []byte, removeSelector string) ([]byte, error) {
	if err := checkWord("algorithm", alg); err != nil {
		return nil, err
	}
	if err := checkWord("selector", selector); err != nil {
		return nil, err
	}
	if strings.TrimSpace(removeSelector) == "" || strings.ContainsAny(removeSelector, "\r\n") {
		return nil, fmt.Errorf("bad remove selector %q", removeSelector)
	}
	resp, err := j.roundTrip("C14NX " + alg + " " + selector + " " + b64(doc) + " " + b64([]byte(removeSelector)))
	if err != nil {
		return nil, err
	}
	return base64.StdEncoding.DecodeString(resp)
}

// Verify runs javax.xml.crypto.dsig core validation (secure validation off, Id/ID/id
// attributes registered as IDs) on the first ds:Signature element of doc. certDER is the
// DER X.509 certificate whose public key must verify the signature; nil means "use the
// X509Data certificate or KeyValue inside KeyInfo". The string names the failing part
// ("signature value", "reference 0", ...) when the result is false.
func (j *Java) Verify(doc []byte, certDER []byte) (bool, string, error) {
	cert := "-"
	if certDER != nil {
		cert = b64(certDER)
	}
	resp, err := j.roundTrip("VERIFY " + b64(doc) + " " + cert)
	if err != nil {
		return false, "", err
	}
	switch {
	case resp == "true":
		return true, "", nil
	case resp == "false" || strings.HasPrefix(resp, "false "):
		return false, strings.TrimSpace(strings.TrimPrefix(resp, "false")), nil
	}
	return false, "", fmt.Errorf("RefServer: unexpected VERIFY answer %q", resp)
}

// Close ends the server (EOF on its stdin) and reaps the process.
func (j *Java) Close() error {
	j.mu.Lock()
	defer j.mu.Unlock()
	if j.cmd == nil {
		return nil
	}
	j.in.Close()
	err := j.cmd.Wait()
	j.cmd = nil
	if j.dead == nil {
		j.dead = errors.New("RefServer closed")
	}
	return err
}
