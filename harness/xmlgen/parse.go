package xmlgen

import (
	"bytes"
	"encoding/xml"
	"fmt"
	"io"
	"regexp"
	"strings"
)

var pseudoAttr = regexp.MustCompile(`(version|encoding|standalone)\s*=\s*(?:"([^"]*)"|'([^']*)')`)

// ParseDoc reads a UTF-8 XML document (for example relic's signed output) into a Doc so
// that it can be re-serialised with Serialize or edited with Mutate. It keeps what
// matters for canonical meaning plus declaration placement and attribute order; the
// original quoting, spacing and CDATA/reference spelling are not kept (adjacent
// character data is merged into one text node).
//
// Limitations (encoding/xml tokenizer): no DOCTYPE (rejected), UTF-8 only, and a LITERAL
// tab/newline inside an attribute value is kept as is instead of being normalised to a
// space as a conforming parser does (canonical output never contains one).
func ParseDoc(b []byte) (*Doc, error) {
	b = bytes.TrimPrefix(b, []byte("\xef\xbb\xbf"))
	dec := xml.NewDecoder(bytes.NewReader(b))
	dec.Strict = true
	d := &Doc{}
	var stack []*Node
	done := false
	first := true
	for {
		tok, err := dec.RawToken()
		if err == io.EOF {
			break
		}
		if err != nil {
			return nil, err
		}
		var top *Node
		if len(stack) > 0 {
			top = stack[len(stack)-1]
		}
		add := func(n *Node) {
			switch {
			case top != nil:
				top.Children = append(top.Children, n)
			case !done:
				d.Prolog = append(d.Prolog, n)
			default:
				d.Epilog = append(d.Epilog, n)
			}
		}
		switch tk := tok.(type) {
		case xml.StartElement:
			n := &Node{Kind: Element, Prefix: tk.Name.Space, Local: tk.Name.Local}
			for _, a := range tk.Attr {
				switch {
				case a.Name.Space == "" && a.Name.Local == "xmlns":
					n.NS = append(n.NS, NSDecl{"", a.Value})
				case a.Name.Space == "xmlns":
					n.NS = append(n.NS, NSDecl{a.Name.Local, a.Value})
				default:
					n.Attrs = append(n.Attrs, Attr{a.Name.Space, a.Name.Local, a.Value})
				}
			}
			if top == nil {
				if done {
					return nil, fmt.Errorf("second document element %s", n.QName())
				}
				d.Root = n
			} else {
				top.Children = append(top.Children, n)
			}
			stack = append(stack, n)
		case xml.EndElement:
			if top == nil || top.Prefix != tk.Name.Space || top.Local != tk.Name.Local {
				return nil, fmt.Errorf("unbalanced end tag %s", qname(tk.Name.Space, tk.Name.Local))
			}
			stack = stack[:len(stack)-1]
			if len(stack) == 0 {
				done = true
			}
		case xml.CharData:
			if top == nil {
				if strings.Trim(string(tk), " \t\r\n") != "" {
					return nil, fmt.Errorf("text outside the document element")
				}
				break
			}
			if k := len(top.Children); k > 0 && top.Children[k-1].Kind == Text {
				top.Children[k-1].Data += string(tk)
			} else {
				top.Children = append(top.Children, &Node{Kind: Text, Data: string(tk)})
			}
		case xml.Comment:
			add(&Node{Kind: Comment, Data: string(tk)})
		case xml.ProcInst:
			if tk.Target == "xml" {
				if !first {
					return nil, fmt.Errorf("XML declaration not at the start")
				}
				d.Decl = true
				for _, m := range pseudoAttr.FindAllStringSubmatch(string(tk.Inst), -1) {
					v := m[2] + m[3]
					switch m[1] {
					case "encoding":
						if !strings.EqualFold(v, "utf-8") {
							return nil, fmt.Errorf("unsupported encoding %q", v)
						}
						d.Encoding = v
					case "standalone":
						d.Standalone = v
					}
				}
				break
			}
			add(&Node{Kind: PI, Local: tk.Target, Data: strings.TrimLeft(string(tk.Inst), " \t\r\n")})
		case xml.Directive:
			return nil, fmt.Errorf("DOCTYPE/directive not supported")
		}
		first = false
	}
	if len(stack) != 0 || d.Root == nil {
		return nil, fmt.Errorf("unexpected end of document")
	}
	if err := d.Check(); err != nil {
		return nil, err
	}
	return d, nil
}
