package xmlgen

import (
	"strconv"
	"strings"

	"pgregory.net/rapid"
)

// GenOpts switches edge classes on (true) or off (false). The zero value generates the
// plainest documents: no namespaces, plain attribute values and text, no comments, PIs,
// CDATA, declaration or white space. AllOpts() enables everything.
type GenOpts struct {
	DefaultNS     bool // default namespace declarations xmlns="uri"
	Prefixed      bool // prefixed element names and xmlns:p declarations
	NestedDecl    bool // namespace declarations on elements below the document element
	Redundant     bool // re-declaration of a binding that is already in scope
	Unused        bool // declarations nothing in their scope uses
	XmlnsEmpty    bool // xmlns="" (default namespace undeclared)
	PrefixShadow  bool // a prefix re-bound to a different URI in a nested scope
	AliasPrefix   bool // two prefixes (or default + prefix) bound to the same URI
	NSAttr        bool // namespaced attributes (needs Prefixed)
	XMLAttr       bool // xml:lang / xml:space attributes
	IDAttrs       bool // unique Id="..." attributes (usable with id= selectors)
	AttrEscapes   bool // & < > " ' TAB CR LF in attribute values
	TextEscapes   bool // & < > " ' ]]> in text
	Whitespace    bool // leading/trailing white space, TAB, CR, CRLF inside text
	Indent        bool // white-space-only text between elements (pretty printing)
	NonASCII      bool // non-ASCII characters in text, attribute values, comments
	CDATA         bool // text marked to be written as CDATA sections
	Mixed         bool // real text next to child elements
	EmptyElements bool // elements without any child
	EmptyAttr     bool // attributes with the empty value
	Comments      bool // comments inside the document element
	OuterComments bool // comments before/after the document element
	PI            bool // processing instructions inside the document element
	OuterPI       bool // processing instructions before/after the document element
	Decl          bool // XML declaration (with/without encoding and standalone)
}

// AllOpts enables every edge class.
func AllOpts() GenOpts {
	return GenOpts{
		DefaultNS: true, Prefixed: true, NestedDecl: true, Redundant: true, Unused: true,
		XmlnsEmpty: true, PrefixShadow: true, AliasPrefix: true, NSAttr: true, XMLAttr: true,
		IDAttrs: true, AttrEscapes: true, TextEscapes: true, Whitespace: true, Indent: true,
		NonASCII: true, CDATA: true, Mixed: true, EmptyElements: true, EmptyAttr: true,
		Comments: true, OuterComments: true, PI: true, OuterPI: true, Decl: true,
	}
}

// CoreOpts is the realistic core of what relic signs (a pretty-printed ClickOnce
// manifest): namespaces declared on the root, default + prefixed names, namespaced
// attributes, empty elements, XML declaration; none of the exotic classes.
func CoreOpts() GenOpts {
	return GenOpts{
		DefaultNS: true, Prefixed: true, AliasPrefix: true, NSAttr: true, Indent: true,
		EmptyElements: true, EmptyAttr: true, Decl: true, IDAttrs: true,
	}
}

// MaxDepth is the maximum element nesting depth (document element = 1).
const MaxDepth = 6

const (
	nsAsmV1 = "urn:schemas-microsoft-com:asm.v1"
	nsAsmV2 = "urn:schemas-microsoft-com:asm.v2"
	nsAsmV3 = "urn:schemas-microsoft-com:asm.v3"
	nsCoV1  = "urn:schemas-microsoft-com:clickonce.v1"
	nsCoV2  = "urn:schemas-microsoft-com:clickonce.v2"
	nsXSI   = "http://www.w3.org/2001/XMLSchema-instance"
)

// nsPool: the usual manifest bindings first; the tail is adversarial: prefixes whose
// order is the reverse of their URIs' order (attribute sorting is by URI, not prefix).
var nsPool = []NSDecl{
	{"asmv1", nsAsmV1}, {"asmv2", nsAsmV2}, {"asmv3", nsAsmV3},
	{"co.v1", nsCoV1}, {"co.v2", nsCoV2}, {"dsig", DSigNamespace}, {"xsi", nsXSI},
	{"z", "urn:a:sorts-first"}, {"b", "urn:z:sorts-last"}, {"A", "http://example.com/ns/upper"},
}

// aliasPool: extra prefixes for URIs that already have a usual prefix.
var aliasPool = []NSDecl{{"ds", DSigNamespace}, {"a1", nsAsmV1}, {"v2", nsAsmV2}, {"co", nsCoV1}}

var defaultPool = []string{nsAsmV2, nsAsmV1, nsAsmV3, DSigNamespace, "urn:z:sorts-last"}

// children the grammar prefers under a given parent
var childVocab = map[string][]string{
	"assembly":                  {"assemblyIdentity", "dependency", "file", "application", "entryPoint", "trustInfo", "description", "deployment", "compatibleFrameworks", "publisherIdentity", "dependency", "file"},
	"dependency":                {"dependentAssembly", "dependentOS"},
	"dependentAssembly":         {"assemblyIdentity", "hash"},
	"dependentOS":               {"osVersionInfo"},
	"osVersionInfo":             {"os"},
	"file":                      {"hash"},
	"hash":                      {"Transforms", "DigestMethod", "DigestValue"},
	"Transforms":                {"Transform"},
	"entryPoint":                {"assemblyIdentity", "commandLine"},
	"trustInfo":                 {"security"},
	"security":                  {"applicationRequestMinimum", "requestedPrivileges"},
	"applicationRequestMinimum": {"PermissionSet", "defaultAssemblyRequest"},
	"requestedPrivileges":       {"requestedExecutionLevel"},
	"compatibleFrameworks":      {"framework"},
}

var anyVocab = []string{"assemblyIdentity", "dependency", "dependentAssembly", "file", "hash", "description", "application", "framework", "item", "x"}

var dsigVocab = map[string]bool{"Transforms": true, "Transform": true, "DigestMethod": true, "DigestValue": true}

var attrVocab = []string{"name", "version", "publicKeyToken", "language", "processorArchitecture", "type", "size", "codebase", "dependencyType", "allowDelayedBinding", "manifestVersion", "Algorithm", "file", "parameters", "Unrestricted", "SameSite", "a", "B", "_z"}

var nsAttrVocab = []string{"schemaLocation", "useManifestForTrust", "publisher", "type", "name", "a", "Z"}

var plainPieces = []string{"a", "Z", "0", "1.0.0.0", "msil", "neutral", "WindowsFormsApplication1.exe", "x", ".", "-", "_", ":", "/", "=", "+", "urn:schemas-microsoft-com:HashTransforms.Identity", "http://www.w3.org/2000/09/xmldsig#sha256", "asmv2:name"}
var innerSpacePieces = []string{" ", "  "}
var escapePieces = []string{"&", "<", ">", "\"", "'", "&amp;", "&#10;", "]]>", "]]", "]", "<!--", "-->", "<![CDATA[", "<?x?>", "&&", "a<b"}
var attrWSPieces = []string{"\t", "\n", "\r", "\r\n", " \n "}
var textWSPieces = []string{"\t", "\n", "\r", "\r\n", "\n\r", " \n\t "}
var nonASCIIPieces = []string{"\u00e9", "\u00df", "\u65e5\u672c", "\u20ac", "\U0001D11E", "\u00a0", "\u03a9", "\u00ff", "\u0100", "\ud7ff", "\ufffd", "\u0301"}
var indentPieces = []string{"\n", "\n  ", "\n    ", " ", "\n\t", "\n\n"}
var commentPieces = []string{"comment", " ", "UAC Manifest Options", "\n   ", "x - y", "<", "&", ">", "&amp;", "<a b='c'/>", "]]>", "?>", "\t", "'", "\""}
var piTargets = []string{"pi", "mso-application", "xml-stylesheet", "target", "XSL", "xmlx"}
var piPieces = []string{"href=\"a.xsl\"", "x", " ", "a > b", "?", "<&>", "type='text/xsl'", "\n", "'"}

type gen struct {
	t      *rapid.T
	o      GenOpts
	ids    int
	unused int
	budget int
	stack  []*Node // ancestors of the element being generated
}

// chance is true with probability num/den; it shrinks towards false.
func (g *gen) chance(num, den int, label string) bool {
	return rapid.IntRange(0, den-1).Draw(g.t, label) >= den-num
}

func (g *gen) pick(list []string, label string) string {
	return list[rapid.IntRange(0, len(list)-1).Draw(g.t, label)]
}

func (g *gen) pieces(label string, min, max int, lists ...[]string) string {
	var all []string
	for _, l := range lists {
		all = append(all, l...)
	}
	n := rapid.IntRange(min, max).Draw(g.t, label+"-n")
	var sb strings.Builder
	for i := 0; i < n; i++ {
		sb.WriteString(all[rapid.IntRange(0, len(all)-1).Draw(g.t, label)])
	}
	return sb.String()
}

// GenDoc draws a namespace-well-formed document in the shape of a ClickOnce/assembly
// manifest, exercising the edge classes enabled in opts.
func GenDoc(t *rapid.T, opts GenOpts) *Doc {
	g := &gen{t: t, o: opts}
	g.budget = rapid.IntRange(1, 40).Draw(t, "elements")
	d := &Doc{}
	if opts.Decl && g.chance(2, 3, "decl") {
		d.Decl = true
		d.Encoding = g.pick([]string{"utf-8", "UTF-8", ""}, "encoding")
		d.Standalone = g.pick([]string{"", "yes", "no"}, "standalone")
	}
	d.Prolog = g.genOuter("prolog")
	d.Root = g.genElement(scope{}, 1, "assembly")
	d.Epilog = g.genOuter("epilog")
	normalize(d, opts)
	if err := d.Check(); err != nil {
		t.Fatalf("xmlgen: generator produced an invalid document: %v\n%s", err, d.String())
	}
	return d
}

func (g *gen) genOuter(label string) []*Node {
	var out []*Node
	for i := 0; i < 3; i++ {
		if g.o.OuterComments && g.chance(1, 5, label+"-comment") {
			out = append(out, g.genComment())
		}
		if g.o.OuterPI && g.chance(1, 5, label+"-pi") {
			out = append(out, g.genPI())
		}
	}
	return out
}

func (g *gen) genComment() *Node {
	lists := [][]string{commentPieces}
	if g.o.NonASCII {
		lists = append(lists, nonASCIIPieces)
	}
	s := g.pieces("comment", 0, 5, lists...)
	s = strings.ReplaceAll(s, "--", "- -")
	if strings.HasSuffix(s, "-") {
		s += " "
	}
	return &Node{Kind: Comment, Data: s}
}

func (g *gen) genPI() *Node {
	data := g.pieces("pidata", 0, 4, piPieces)
	data = strings.ReplaceAll(data, "?>", "? >")
	data = strings.TrimLeft(data, " \t\r\n")
	return &Node{Kind: PI, Local: g.pick(piTargets, "pitarget"), Data: data}
}

func (g *gen) genAttrValue() string {
	if g.o.EmptyAttr && g.chance(1, 10, "attr-empty") {
		return ""
	}
	lists := [][]string{plainPieces, innerSpacePieces}
	if g.o.AttrEscapes {
		lists = append(lists, escapePieces, attrWSPieces)
	}
	if g.o.NonASCII {
		lists = append(lists, nonASCIIPieces)
	}
	return g.pieces("attrval", 1, 4, lists...)
}

func (g *gen) genText() *Node {
	lists := [][]string{plainPieces, plainPieces, innerSpacePieces}
	if g.o.TextEscapes {
		lists = append(lists, escapePieces)
	}
	if g.o.NonASCII {
		lists = append(lists, nonASCIIPieces)
	}
	if g.o.Whitespace {
		lists = append(lists, textWSPieces)
	}
	s := g.pieces("text", 1, 6, lists...)
	if !g.o.Whitespace {
		s = strings.Trim(s, " \t\r\n")
	}
	if strings.Trim(s, " \t\r\n") == "" {
		s += "t"
	}
	if g.o.Whitespace {
		if g.chance(1, 4, "text-lead-ws") {
			s = g.pick(textWSPieces, "lead-ws") + s
		}
		if g.chance(1, 4, "text-trail-ws") {
			s += g.pick(textWSPieces, "trail-ws")
		}
	}
	n := &Node{Kind: Text, Data: s}
	if g.o.CDATA && g.chance(1, 4, "cdata") {
		n.CDATA = true
	}
	return n
}

func hasDecl(n *Node, prefix string) bool {
	for _, d := range n.NS {
		if d.Prefix == prefix {
			return true
		}
	}
	return false
}

// declare adds a declaration to n if the enabled classes allow it; reports success.
func (g *gen) declare(n *Node, outer scope, depth int, prefix, uri string) bool {
	if depth > 1 && !g.o.NestedDecl {
		return false
	}
	if hasDecl(n, prefix) {
		return false
	}
	if prefix == "" {
		if !g.o.DefaultNS && uri != "" {
			return false
		}
		if uri == "" && !g.o.XmlnsEmpty {
			return false
		}
	} else if !g.o.Prefixed {
		return false
	}
	cur := outer.bind(n)
	old, had := cur[prefix]
	if old == uri && (had || prefix == "") {
		if !g.o.Redundant {
			return false
		}
	} else if had && old != "" && prefix != "" && !g.o.PrefixShadow {
		return false
	}
	if uri != "" && !g.o.AliasPrefix {
		// look at every declaration on the ancestor path, not only at the bindings in
		// force: normalize may later remove an unused declaration that hides one
		for _, e := range append(g.stack[:len(g.stack):len(g.stack)], n) {
			for _, d := range e.NS {
				if d.URI == uri && d.Prefix != prefix {
					return false
				}
			}
		}
	}
	n.NS = append(n.NS, NSDecl{prefix, uri})
	return true
}

func (g *gen) genDecls(n *Node, outer scope, depth int) {
	if depth > 1 && !g.o.NestedDecl {
		return
	}
	// how eager: the root declares several (like real manifests), nested elements few
	rounds := 1
	num := 1
	if depth == 1 {
		rounds = rapid.IntRange(0, 6).Draw(g.t, "root-decls")
		num = 4
	}
	for i := 0; i < rounds; i++ {
		if g.o.Prefixed && g.chance(num, 4, "decl-prefixed") {
			d := nsPool[rapid.IntRange(0, len(nsPool)-1).Draw(g.t, "ns")]
			uri := d.URI
			if g.o.PrefixShadow && g.chance(1, 6, "shadow") {
				uri = nsPool[rapid.IntRange(0, len(nsPool)-1).Draw(g.t, "shadow-uri")].URI
			}
			g.declare(n, outer, depth, d.Prefix, uri)
		}
		if g.o.Prefixed && g.o.AliasPrefix && g.chance(1, 8, "decl-alias") {
			d := aliasPool[rapid.IntRange(0, len(aliasPool)-1).Draw(g.t, "alias")]
			g.declare(n, outer, depth, d.Prefix, d.URI)
		}
	}
	if g.o.DefaultNS && g.chance(num, 5, "decl-default") {
		g.declare(n, outer, depth, "", g.pick(defaultPool, "default-uri"))
	}
	if g.o.XmlnsEmpty && g.chance(1, 8, "decl-xmlns-empty") {
		g.declare(n, outer, depth, "", "")
	}
	if g.o.Redundant && len(outer) > 0 && g.chance(1, 6, "decl-redundant") {
		// re-declare an in-scope binding verbatim (deterministic pick: sorted prefixes)
		ps := sortedPrefixes(outer)
		p := ps[rapid.IntRange(0, len(ps)-1).Draw(g.t, "redundant-prefix")]
		if p != "" || outer[p] != "" || g.o.XmlnsEmpty {
			g.declare(n, outer, depth, p, outer[p])
		}
	}
	if g.o.Unused && g.o.Prefixed && g.chance(1, 6, "decl-unused") {
		g.unused++
		uri := "urn:unused:" + strconv.Itoa(g.unused)
		if g.chance(1, 2, "unused-known-uri") {
			uri = nsPool[rapid.IntRange(0, len(nsPool)-1).Draw(g.t, "unused-uri")].URI
		}
		g.declare(n, outer, depth, "unused"+strconv.Itoa(g.unused), uri)
	}
}

func sortedPrefixes(s scope) []string {
	out := make([]string, 0, len(s))
	for p := range s {
		out = append(out, p)
	}
	// insertion sort: tiny lists
	for i := 1; i < len(out); i++ {
		for j := i; j > 0 && out[j] < out[j-1]; j-- {
			out[j], out[j-1] = out[j-1], out[j]
		}
	}
	return out
}

// choosePrefix picks the element's prefix from the bindings in scope, preferring wantURI.
func (g *gen) choosePrefix(n *Node, outer scope, depth int, wantURI string) string {
	s := outer.bind(n)
	if wantURI != "" {
		var cands []string
		for _, p := range sortedPrefixes(s) {
			if s[p] == wantURI && (p == "" || g.o.Prefixed) && !strings.HasPrefix(p, "unused") {
				cands = append(cands, p)
			}
		}
		if len(cands) == 0 {
			// try to declare it here
			if g.o.Prefixed && g.declare(n, outer, depth, prefixFor(wantURI), wantURI) {
				return prefixFor(wantURI)
			}
			if g.declare(n, outer, depth, "", wantURI) {
				return ""
			}
		} else {
			return cands[rapid.IntRange(0, len(cands)-1).Draw(g.t, "want-prefix")]
		}
	}
	if !g.o.Prefixed {
		return ""
	}
	cands := []string{""}
	for _, p := range sortedPrefixes(s) {
		if p != "" && s[p] != "" && !strings.HasPrefix(p, "unused") {
			cands = append(cands, p)
		}
	}
	// prefer what was just declared here, so declarations tend to be used where they are
	for _, d := range n.NS {
		if d.Prefix != "" && !strings.HasPrefix(d.Prefix, "unused") && g.chance(1, 2, "use-own-decl") {
			return d.Prefix
		}
	}
	if g.chance(1, 2, "unprefixed") {
		return ""
	}
	return cands[rapid.IntRange(0, len(cands)-1).Draw(g.t, "prefix")]
}

func prefixFor(uri string) string {
	for _, d := range nsPool {
		if d.URI == uri {
			return d.Prefix
		}
	}
	return "ns"
}

func (g *gen) genAttrs(n *Node, s scope) {
	seen := map[string]bool{}
	add := func(prefix, local, value string) {
		u, ok := s.attrURI(prefix)
		if !ok {
			return
		}
		key := "{" + u + "}" + local
		if seen[key] {
			return
		}
		seen[key] = true
		n.Attrs = append(n.Attrs, Attr{prefix, local, value})
	}
	count := rapid.IntRange(0, 5).Draw(g.t, "attrs")
	if dsigVocab[n.Local] && n.Local != "Transforms" && n.Local != "DigestValue" {
		add("", "Algorithm", g.pick([]string{"http://www.w3.org/2000/09/xmldsig#sha256", "urn:schemas-microsoft-com:HashTransforms.Identity", "http://www.w3.org/2001/10/xml-exc-c14n#"}, "algorithm"))
	}
	var prefixes []string
	for _, p := range sortedPrefixes(s) {
		if p != "" && s[p] != "" && !strings.HasPrefix(p, "unused") {
			prefixes = append(prefixes, p)
		}
	}
	for i := 0; i < count; i++ {
		switch {
		case g.o.NSAttr && g.o.Prefixed && len(prefixes) > 0 && g.chance(1, 3, "nsattr"):
			add(g.pick(prefixes, "attr-prefix"), g.pick(nsAttrVocab, "nsattr-local"), g.genAttrValue())
		case g.o.XMLAttr && g.chance(1, 6, "xmlattr"):
			if g.chance(1, 2, "xml-space") {
				add("xml", "space", g.pick([]string{"preserve", "default"}, "xml-space-v"))
			} else {
				langs := []string{"en", "en-US", "de"}
				if g.o.EmptyAttr {
					langs = append(langs, "")
				}
				add("xml", "lang", g.pick(langs, "xml-lang-v"))
			}
		case g.o.IDAttrs && g.chance(1, 6, "idattr"):
			g.ids++
			add("", g.pick([]string{"Id", "id", "ID"}, "id-name"), "id"+strconv.Itoa(g.ids))
		default:
			add("", g.pick(attrVocab, "attr-local"), g.genAttrValue())
		}
	}
}

func (g *gen) genElement(outer scope, depth int, local string) *Node {
	g.budget--
	n := &Node{Kind: Element, Local: local}
	g.genDecls(n, outer, depth)
	want := ""
	if dsigVocab[local] {
		want = DSigNamespace
	} else if depth == 1 && g.chance(1, 2, "root-asmv1") {
		want = nsAsmV1
	}
	n.Prefix = g.choosePrefix(n, outer, depth, want)
	s := outer.bind(n)
	if _, ok := s.elemURI(n.Prefix); !ok {
		n.Prefix = ""
	}
	g.genAttrs(n, s)

	// children
	g.stack = append(g.stack, n)
	defer func() { g.stack = g.stack[:len(g.stack)-1] }()
	nkids := 0
	if depth < MaxDepth && g.budget > 0 {
		max := 4
		if depth == 1 {
			max = 6
		}
		nkids = rapid.IntRange(0, max).Draw(g.t, "kids")
		if depth == 1 && nkids == 0 && g.budget > 0 && g.chance(3, 4, "root-nonempty") {
			nkids = 1
		}
	}
	indent := ""
	if g.o.Indent && g.chance(4, 5, "indent") {
		indent = g.pick(indentPieces, "indent-ws")
	}
	misc := func() {
		if g.o.Comments && g.chance(1, 8, "comment") {
			n.Children = append(n.Children, g.genComment())
		}
		if g.o.PI && g.chance(1, 10, "pi") {
			n.Children = append(n.Children, g.genPI())
		}
		if g.o.Mixed && nkids > 0 && g.chance(1, 10, "mixed") {
			n.Children = append(n.Children, g.genText())
		}
	}
	vocab := childVocab[local]
	for i := 0; i < nkids && g.budget > 0; i++ {
		if indent != "" {
			n.Children = append(n.Children, &Node{Kind: Text, Data: indent})
		}
		misc()
		name := ""
		if len(vocab) > 0 && g.chance(4, 5, "vocab") {
			name = g.pick(vocab, "child")
		} else {
			name = g.pick(anyVocab, "any-child")
		}
		n.Children = append(n.Children, g.genElement(s, depth+1, name))
	}
	hasKids := len(n.ChildElements()) > 0
	if hasKids {
		misc()
		if indent != "" {
			n.Children = append(n.Children, &Node{Kind: Text, Data: indent})
		}
	} else {
		leafText := local == "DigestValue" || local == "description" || g.chance(1, 4, "leaf-text")
		if !g.o.EmptyElements {
			leafText = true
		}
		if g.o.Comments && g.chance(1, 12, "leaf-comment") {
			n.Children = append(n.Children, g.genComment())
		}
		if leafText {
			if local == "DigestValue" && g.chance(2, 3, "b64") {
				n.Children = append(n.Children, &Node{Kind: Text, Data: g.pick([]string{"Jq8ZTWkaQ3e1ApYk3nfrsPoA8A8=", "AAAAAAAAAAAAAAAAAAAAAAAAAAAAAAAAAAAAAAAAAAA=", "+/+/"}, "b64v")})
			} else {
				n.Children = append(n.Children, g.genText())
			}
		}
		if g.o.PI && g.chance(1, 16, "leaf-pi") {
			n.Children = append(n.Children, g.genPI())
		}
	}
	return n
}

// normalize enforces the switched-off namespace classes that cannot be decided while
// generating top-down (whether a declaration ends up used): it strips unused and
// redundant declarations until nothing changes. Both removals keep every name's
// expanded name.
func normalize(d *Doc, o GenOpts) {
	if o.Unused && o.Redundant {
		return
	}
	for changed := true; changed; {
		changed = false
		d.walk(func(n *Node, _, outer scope, _ int, _ string) {
			kept := n.NS[:0:0]
			for _, dcl := range n.NS {
				old, had := outer[dcl.Prefix]
				redundant := old == dcl.URI && (had || dcl.Prefix == "")
				if (!o.Redundant && redundant) || (!o.Unused && !usedInScope(n, dcl.Prefix)) {
					changed = true
					continue
				}
				kept = append(kept, dcl)
			}
			n.NS = kept
		})
	}
}
