// Package pipe drives relic's three signing pipelines:
//
//	L  library: signinit.Init -> GetTransform -> GetReader -> Sign -> Apply -> Fixup ->
//	   PublishAudit, the call sequence of cmdline/token/signcmd.go
//	S  client/server: the real daemon (TLS, client certificates) + remotecmd.CallRemote +
//	   Apply + Fixup, the call sequence of cmdline/remotecmd/signcmd.go
//	B  the relic binary built from the tree (sign / remote sign / verify)
//
// and relic's verifier the way cmdline/verify does.
package pipe

import (
	"bytes"
	"context"
	"crypto"
	"crypto/sha256"
	"crypto/tls"
	"crypto/x509"
	"errors"
	"fmt"
	"io"
	"net"
	"net/http"
	"net/url"
	"os"
	"os/exec"
	"path/filepath"
	"sort"
	"strings"
	"sync"
	"sync/atomic"
	"time"

	"github.com/ProtonMail/go-crypto/openpgp"
	"gopkg.in/yaml.v3"

	"github.com/sassoftware/relic/v8/cmdline/remotecmd"
	"github.com/sassoftware/relic/v8/cmdline/shared"
	"github.com/sassoftware/relic/v8/config"
	"github.com/sassoftware/relic/v8/internal/signinit"
	"github.com/sassoftware/relic/v8/lib/magic"
	"github.com/sassoftware/relic/v8/lib/passprompt"
	"github.com/sassoftware/relic/v8/lib/x509tools"
	"github.com/sassoftware/relic/v8/server/daemon"
	"github.com/sassoftware/relic/v8/signers"
	"github.com/sassoftware/relic/v8/token"
	"github.com/sassoftware/relic/v8/token/open"
	"github.com/sassoftware/relic/v8/xverif/keys"

	_ "github.com/sassoftware/relic/v8/signers/apk"
	_ "github.com/sassoftware/relic/v8/signers/appmanifest"
	_ "github.com/sassoftware/relic/v8/signers/appx"
	_ "github.com/sassoftware/relic/v8/signers/cab"
	_ "github.com/sassoftware/relic/v8/signers/cat"
	_ "github.com/sassoftware/relic/v8/signers/cosign"
	_ "github.com/sassoftware/relic/v8/signers/deb"
	_ "github.com/sassoftware/relic/v8/signers/dmg"
	_ "github.com/sassoftware/relic/v8/signers/jar"
	_ "github.com/sassoftware/relic/v8/signers/macho"
	_ "github.com/sassoftware/relic/v8/signers/msi"
	_ "github.com/sassoftware/relic/v8/signers/pecoff"
	_ "github.com/sassoftware/relic/v8/signers/pgp"
	_ "github.com/sassoftware/relic/v8/signers/pkcs"
	_ "github.com/sassoftware/relic/v8/signers/ps"
	_ "github.com/sassoftware/relic/v8/signers/rpm"
	_ "github.com/sassoftware/relic/v8/signers/vsix"
	_ "github.com/sassoftware/relic/v8/signers/xap"
	_ "github.com/sassoftware/relic/v8/signers/xar"
)

// SigningKeys are the pool keys configured as signing keys (each under its own name).
var SigningKeys = []string{"rsa2048a", "rsa3072", "p256a", "p384a", "p521a"}

// AltKeys are additional key entries that share the key file of a signing key but carry
// another certificate (X.509 only).
var AltKeys = []string{"rsa2048a-alt", "p256a-alt"}

// ExtraKeys are X.509-only signing keys with special properties: rsa2048z has a
// strong-name public key token that begins with "00".
var ExtraKeys = []string{"rsa2048z"}

type Env struct {
	Dir       string
	Cfg       *config.Config
	CfgPath   string
	Root      *keys.CA
	Inter     *keys.CA
	Leaf      map[string]*x509.Certificate // signing key name -> leaf
	Pgp       map[string]*openpgp.Entity   // RSA signing key name -> entity
	RootPEM   string                       // path
	AuditFile string
	Binary    string                    // relic binary (pipeline B), built on demand
	Prompt    passprompt.PasswordGetter // handed to the token (PKCS#12 passwords)
	// ExternalServer: the daemon runs elsewhere (Cfg.Remote.URL is set by the test);
	// SignServer then never starts the in-process daemon.
	ExternalServer bool

	mu      sync.Mutex
	tok     token.Token
	daemon  *daemon.Daemon
	baseURL string
}

// Setup writes keys, certificate chains, PGP certificates and a relic configuration
// (file token) under dir and installs it as the process-wide current configuration.
func Setup(dir string) (*Env, error) {
	e := &Env{Dir: dir, Leaf: map[string]*x509.Certificate{}, Pgp: map[string]*openpgp.Entity{}}
	e.Root = keys.NewCA("verif root CA", keys.Key("rsa2048c"), nil, keys.Epoch, keys.Far)
	e.Inter = keys.NewCA("verif intermediate CA", keys.Key("p384b"), e.Root, keys.Epoch, keys.Far)
	e.RootPEM = filepath.Join(dir, "root.crt")
	if err := os.WriteFile(e.RootPEM, keys.CertPEM(e.Root.Cert), 0o644); err != nil {
		return nil, err
	}
	e.AuditFile = filepath.Join(dir, "audit.log")
	cfg := &config.Config{
		Tokens:    map[string]*config.TokenConfig{"file": {Type: "file"}},
		Keys:      map[string]*config.KeyConfig{},
		Clients:   map[string]*config.ClientConfig{},
		AuditFile: e.AuditFile,
	}
	for _, k := range SigningKeys {
		keyPath := filepath.Join(dir, k+".key")
		if err := os.WriteFile(keyPath, keys.KeyPEM(k), 0o600); err != nil {
			return nil, err
		}
		leaf := e.Inter.Issue(keys.Key(k).Public(), keys.LeafOpts{CN: "verif signer " + k})
		e.Leaf[k] = leaf
		crtPath := filepath.Join(dir, k+".crt")
		if err := os.WriteFile(crtPath, keys.CertPEM(leaf, e.Inter.Cert, e.Root.Cert), 0o644); err != nil {
			return nil, err
		}
		kc := &config.KeyConfig{Token: "file", KeyFile: keyPath, X509Certificate: crtPath, Roles: []string{"signer"}}
		if keys.Kind(k) == "rsa" {
			ent := keys.PGPEntity(k, "verif "+k, k+"@verif.example")
			e.Pgp[k] = ent
			pgpPath := filepath.Join(dir, k+".pgp")
			if err := os.WriteFile(pgpPath, keys.PGPPublic(ent), 0o644); err != nil {
				return nil, err
			}
			kc.PgpCertificate = pgpPath
		}
		cfg.Keys[k] = kc
	}
	for _, k := range ExtraKeys {
		keyPath := filepath.Join(dir, k+".key")
		if err := os.WriteFile(keyPath, keys.KeyPEM(k), 0o600); err != nil {
			return nil, err
		}
		leaf := e.Inter.Issue(keys.Key(k).Public(), keys.LeafOpts{CN: "verif signer " + k})
		e.Leaf[k] = leaf
		crtPath := filepath.Join(dir, k+".crt")
		if err := os.WriteFile(crtPath, keys.CertPEM(leaf, e.Inter.Cert, e.Root.Cert), 0o644); err != nil {
			return nil, err
		}
		cfg.Keys[k] = &config.KeyConfig{Token: "file", KeyFile: keyPath, X509Certificate: crtPath, Roles: []string{"signer"}}
	}
	// a second key entry over the same private key file with another certificate (same
	// public key, another subject): which certificate a signature carries must follow
	// the requested key name, not the key file
	for _, k := range AltKeys {
		base := strings.TrimSuffix(k, "-alt")
		leaf := e.Inter.Issue(keys.Key(base).Public(), keys.LeafOpts{CN: "verif second identity " + base})
		e.Leaf[k] = leaf
		crtPath := filepath.Join(dir, k+".crt")
		if err := os.WriteFile(crtPath, keys.CertPEM(leaf, e.Inter.Cert, e.Root.Cert), 0o644); err != nil {
			return nil, err
		}
		cfg.Keys[k] = &config.KeyConfig{Token: "file", KeyFile: cfg.Keys[base].KeyFile, X509Certificate: crtPath, Roles: []string{"signer"}}
	}
	// TLS material for the server pipeline
	srvCert := keys.SelfSignedServer("localhost", keys.Key("p256b"))
	clientCert := keys.SelfSigned("verif client", keys.Key("p384b"), []x509.ExtKeyUsage{x509.ExtKeyUsageClientAuth})
	write := func(name string, blob []byte) string {
		p := filepath.Join(dir, name)
		if err := os.WriteFile(p, blob, 0o600); err != nil {
			panic(err)
		}
		return p
	}
	cfg.Server = &config.ServerConfig{
		KeyFile:            write("server.key", keys.KeyPEM("p256b")),
		CertFile:           write("server.crt", keys.CertPEM(srvCert)),
		TokenCheckInterval: 3600,
		LogLevel:           "error",
		LogFile:            filepath.Join(dir, "server.log"),
	}
	cfg.Clients[keys.SPKIFingerprint(clientCert)] = &config.ClientConfig{Nickname: "verifclient", Roles: []string{"signer"}}
	cfg.Remote = &config.RemoteConfig{
		KeyFile:  write("client.key", keys.KeyPEM("p384b")),
		CertFile: write("client.crt", keys.CertPEM(clientCert)),
		CaCert:   cfg.Server.CertFile,
		Retries:  2,
	}
	e.Cfg = cfg
	if err := e.Install(cfg); err != nil {
		return nil, err
	}
	return e, nil
}

// Install serialises cfg to relic.yml, re-reads it through config.ReadFile and makes it
// the process-wide configuration. A previously opened token is dropped.
func (e *Env) Install(cfg *config.Config) error {
	blob, err := yaml.Marshal(cfg)
	if err != nil {
		return err
	}
	e.CfgPath = filepath.Join(e.Dir, "relic.yml")
	if err := os.WriteFile(e.CfgPath, blob, 0o600); err != nil {
		return err
	}
	loaded, err := config.ReadFile(e.CfgPath)
	if err != nil {
		return err
	}
	e.mu.Lock()
	e.Cfg = loaded
	e.tok = nil
	e.mu.Unlock()
	shared.CurrentConfig = loaded
	return nil
}

type Req struct {
	SigType string            // signer name; "" = detect like the command line does
	In, Out string            // Out "" = In
	Key     string            // key name in the configuration
	Hash    crypto.Hash       // 0 = SHA-256
	Digest  string            // digest name for S/B ("" = derived from Hash)
	Flags   map[string]string // signer flags
	// WrapStream, if set, wraps the transformed upload stream before it is handed to the
	// signer (library pipeline only): lets a test own the read-size schedule.
	WrapStream func(io.Reader) io.Reader
}

func (r *Req) out() string {
	if r.Out == "" {
		return r.In
	}
	return r.Out
}

func hashName(h crypto.Hash) string {
	if h == 0 {
		return "sha256"
	}
	return strings.ToLower(strings.ReplaceAll(x509tools.HashNames[h], "-", ""))
}

// Module resolves the signer like the command line: by name, else by content, else by file name.
func Module(r *Req) (*signers.Signer, error) {
	return signers.ByFile(r.In, r.SigType)
}

func (e *Env) token(cfg *config.Config, keyName string) (token.Token, error) {
	kc, err := cfg.GetKey(keyName)
	if err != nil {
		return nil, err
	}
	return open.Token(cfg, kc.Token, e.Prompt)
}

func openForPatching(in, out string) (*os.File, error) {
	if in == out {
		return os.OpenFile(in, os.O_RDWR, 0)
	}
	return os.Open(in)
}

func flagValues(mod *signers.Signer, flags map[string]string) (*signers.FlagValues, error) {
	q := url.Values{}
	for k, v := range flags {
		q.Set(k, v)
	}
	return mod.FlagsFromQuery(q)
}

// SignLib is pipeline L.
func (e *Env) SignLib(r *Req) (err error) {
	defer func() {
		if p := recover(); p != nil {
			err = fmt.Errorf("PANIC in library pipeline: %v", p)
		}
	}()
	mod, err := Module(r)
	if err != nil {
		return err
	}
	if mod.Sign == nil {
		return fmt.Errorf("can't sign files of type: %s", mod.Name)
	}
	flags, err := flagValues(mod, r.Flags)
	if err != nil {
		return err
	}
	hash := r.Hash
	if hash == 0 {
		hash = crypto.SHA256
	}
	cfg := shared.CurrentConfig
	tok, err := e.token(cfg, r.Key)
	if err != nil {
		return err
	}
	defer tok.Close()
	cert, opts, err := signinit.Init(context.Background(), mod, tok, r.Key, hash, flags)
	if err != nil {
		return err
	}
	opts.Path = r.In
	infile, err := openForPatching(r.In, r.out())
	if err != nil {
		return err
	}
	defer infile.Close()
	transform, err := mod.GetTransform(infile, *opts)
	if err != nil {
		return err
	}
	stream, err := transform.GetReader()
	if err != nil {
		return err
	}
	if r.WrapStream != nil {
		stream = r.WrapStream(stream)
	}
	blob, err := mod.Sign(stream, cert, *opts)
	if err != nil {
		return err
	}
	if err := transform.Apply(r.out(), opts.Audit.GetMimeType(), bytes.NewReader(blob)); err != nil {
		return err
	}
	if mod.Fixup != nil {
		f, err := os.OpenFile(r.out(), os.O_RDWR, 0)
		if err != nil {
			return err
		}
		defer f.Close()
		if err := mod.Fixup(f); err != nil {
			return err
		}
	}
	return signinit.PublishAudit(opts.Audit)
}

// StartServer starts the real relic daemon on a loopback port.
func (e *Env) StartServer() error {
	e.mu.Lock()
	defer e.mu.Unlock()
	if e.daemon != nil {
		return nil
	}
	l, err := net.Listen("tcp", "127.0.0.1:0")
	if err != nil {
		return err
	}
	addr := l.Addr().String()
	l.Close()
	e.Cfg.Server.Listen = addr
	d, err := daemon.New(e.Cfg, false)
	if err != nil {
		return err
	}
	go d.Serve()
	e.daemon = d
	e.baseURL = "https://" + strings.Replace(addr, "127.0.0.1", "localhost", 1)
	e.Cfg.Remote.URL = e.baseURL
	e.Cfg.Remote.DirectoryURL = e.baseURL
	// wait until it accepts connections
	for i := 0; i < 200; i++ {
		c, err := tls.Dial("tcp", addr, &tls.Config{InsecureSkipVerify: true})
		if err == nil {
			c.Close()
			return nil
		}
		time.Sleep(10 * time.Millisecond)
	}
	return errors.New("server did not start")
}

func (e *Env) StopServer() {
	e.mu.Lock()
	d := e.daemon
	e.daemon = nil
	e.mu.Unlock()
	if d != nil {
		d.Close()
	}
}

func (e *Env) BaseURL() string { return e.baseURL }

// TransportRetries counts client/server attempts repeated after a transport-level
// failure (no HTTP status received). Seen about once per 60 000 requests under heavy
// machine load as "io: read/write on closed pipe" from the HTTP/2 client when the
// server answers before the upload is complete; it could not be reproduced on demand,
// so it is retried (and counted) rather than reported. A failure that persists over
// three attempts is returned.
var TransportRetries int64

// SignServer is pipeline S (in-process client, real daemon over TLS).
func (e *Env) SignServer(r *Req) error {
	var err error
	for attempt := 0; attempt < 3; attempt++ {
		err = e.signServerOnce(r)
		if err == nil || !strings.Contains(err.Error(), "closed pipe") {
			return err
		}
		atomic.AddInt64(&TransportRetries, 1)
	}
	return err
}

func (e *Env) signServerOnce(r *Req) (err error) {
	defer func() {
		if p := recover(); p != nil {
			err = fmt.Errorf("PANIC in client pipeline: %v", p)
		}
	}()
	if !e.ExternalServer {
		if err := e.StartServer(); err != nil {
			return err
		}
	}
	mod, err := Module(r)
	if err != nil {
		return err
	}
	if mod.Sign == nil {
		return fmt.Errorf("can't sign files of type: %s", mod.Name)
	}
	flags, err := flagValues(mod, r.Flags)
	if err != nil {
		return err
	}
	infile, err := openForPatching(r.In, r.out())
	if err != nil {
		return err
	}
	defer infile.Close()
	hash := r.Hash
	if hash == 0 {
		hash = crypto.SHA256
	}
	opts := signers.SignOpts{Path: r.In, Hash: hash, Flags: flags}
	transform, err := mod.GetTransform(infile, opts)
	if err != nil {
		return err
	}
	values := url.Values{}
	values.Add("key", r.Key)
	values.Add("filename", filepath.Base(r.In))
	values.Add("sigtype", mod.Name)
	if err := flags.ToQuery(values); err != nil {
		return err
	}
	digest := r.Digest
	if digest == "" && r.Hash != 0 {
		digest = hashName(r.Hash)
	}
	if digest != "" {
		values.Add("digest", digest)
	}
	response, err := remotecmd.CallRemote("sign", "POST", &values, transform)
	if err != nil {
		return err
	}
	defer response.Body.Close()
	if err := transform.Apply(r.out(), response.Header.Get("Content-Type"), response.Body); err != nil {
		return err
	}
	if mod.Fixup != nil {
		f, err := os.OpenFile(r.out(), os.O_RDWR, 0)
		if err != nil {
			return err
		}
		defer f.Close()
		if err := mod.Fixup(f); err != nil {
			return err
		}
	}
	return nil
}

// RepoDir is the relic tree under test: /repo, unless the driver was pointed at a scratch
// copy (VERIF_REPO; used only to try seeded changes without touching /repo).
func RepoDir() string {
	if d := os.Getenv("VERIF_REPO"); d != "" {
		return d
	}
	return "/repo"
}

// BuildBinary builds the relic binary from /repo's working tree (once per process).
func (e *Env) BuildBinary() error {
	e.mu.Lock()
	defer e.mu.Unlock()
	if e.Binary != "" {
		return nil
	}
	if pre := os.Getenv("VERIF_RELIC_BINARY"); pre != "" {
		if _, err := os.Stat(pre); err == nil {
			e.Binary = pre
			return nil
		}
	}
	out := filepath.Join(e.Dir, "relic-bin")
	cmd := exec.Command("go", "build", "-tags", "verif", "-o", out, ".")
	cmd.Dir = RepoDir()
	cmd.Env = append(os.Environ(), "GOFLAGS=-mod=mod", "GOPROXY=off", "GOSUMDB=off", "GOTOOLCHAIN=local")
	if blob, err := cmd.CombinedOutput(); err != nil {
		return fmt.Errorf("building relic: %v\n%s", err, blob)
	}
	e.Binary = out
	return nil
}

// SignBinary is pipeline B with the file token ("relic sign").
func (e *Env) SignBinary(r *Req) error {
	if err := e.BuildBinary(); err != nil {
		return err
	}
	args := []string{"-c", e.CfgPath, "sign", "-k", r.Key, "-f", r.In}
	if r.Out != "" {
		args = append(args, "-o", r.Out)
	}
	if r.SigType != "" {
		args = append(args, "-T", r.SigType)
	}
	digest := r.Digest
	if digest == "" && r.Hash != 0 {
		digest = hashName(r.Hash)
	}
	if digest != "" {
		args = append(args, "--digest", digest)
	}
	var names []string
	for k := range r.Flags {
		names = append(names, k)
	}
	sort.Strings(names)
	for _, k := range names {
		args = append(args, "--"+k+"="+r.Flags[k])
	}
	cmd := exec.Command(e.Binary, args...)
	cmd.Dir = e.Dir
	blob, err := cmd.CombinedOutput()
	if err != nil {
		return fmt.Errorf("relic sign: %v: %s", err, strings.TrimSpace(string(blob)))
	}
	return nil
}

// Verified is one signature reported by relic's verifier.
type Verified struct {
	Sig  *signers.Signature
	Leaf *x509.Certificate
	Hash crypto.Hash
}

type VerifyReq struct {
	SigType   string // force a signer module (the command line can only auto-detect)
	Path      string
	Content   string // detached content (PGP/pkcs7)
	NoChain   bool
	NoDigests bool
	Roots     []*x509.Certificate // default: Env.Root
	PGP       openpgp.EntityList  // default: all Env.Pgp entities
	At        time.Time           // unused by relic (chain time comes from the timestamp); kept for the record
}

// Verify runs relic's verifier like cmdline/verify (integrity on, chain on by default).
func (e *Env) Verify(v *VerifyReq) (out []Verified, err error) {
	defer func() {
		if p := recover(); p != nil {
			err = fmt.Errorf("PANIC in verifier: %v", p)
		}
	}()
	vv := *v
	if vv.Roots == nil {
		vv.Roots = []*x509.Certificate{e.Root.Cert}
	}
	if vv.PGP == nil {
		for _, k := range SigningKeys {
			if ent := e.Pgp[k]; ent != nil {
				vv.PGP = append(vv.PGP, ent)
			}
		}
	}
	return VerifyRaw(&vv)
}

var pools sync.Map // root set -> *x509.CertPool

// poolFor returns one pool per set of roots for the life of the process, the way one
// "relic verify a b c" invocation uses one pool for all its files.
func poolFor(roots []*x509.Certificate) *x509.CertPool {
	h := sha256.New()
	for _, c := range roots {
		h.Write(c.Raw)
	}
	key := string(h.Sum(nil))
	if p, ok := pools.Load(key); ok {
		return p.(*x509.CertPool)
	}
	p := x509.NewCertPool()
	for _, c := range roots {
		p.AddCert(c)
	}
	actual, _ := pools.LoadOrStore(key, p)
	return actual.(*x509.CertPool)
}

// VerifyRaw is Verify without defaults and without panic recovery (Roots and PGP as given).
func VerifyRaw(v *VerifyReq) (out []Verified, err error) {
	f, err := os.Open(v.Path)
	if err != nil {
		return nil, err
	}
	defer f.Close()
	fileType, compression := magic.DetectCompressed(f)
	if _, err := f.Seek(0, 0); err != nil {
		return nil, err
	}
	opts := signers.VerifyOpts{FileName: v.Path, Compression: compression, NoChain: v.NoChain, NoDigests: v.NoDigests, Content: v.Content}
	roots := v.Roots
	opts.TrustedX509 = roots
	opts.TrustedPool = poolFor(roots)
	opts.TrustedPgp = v.PGP
	mod := signers.ByMagic(fileType)
	if mod == nil {
		mod = signers.ByFileName(v.Path)
	}
	if v.SigType != "" {
		mod = signers.ByName(v.SigType)
	}
	if mod == nil {
		return nil, errors.New("unknown filetype")
	}
	var sigs []*signers.Signature
	if mod.VerifyStream != nil {
		r, err2 := magic.Decompress(f, opts.Compression)
		if err2 != nil {
			return nil, err2
		}
		sigs, err = mod.VerifyStream(r, opts)
	} else {
		if mod.Verify == nil {
			return nil, errors.New("module cannot verify")
		}
		if opts.Compression != magic.CompressedNone {
			return nil, errors.New("cannot verify compressed file")
		}
		sigs, err = mod.Verify(f, opts)
	}
	if err != nil {
		return nil, err
	}
	for _, sig := range sigs {
		vd := Verified{Sig: sig, Hash: sig.Hash}
		if sig.X509Signature != nil {
			vd.Leaf = sig.X509Signature.Certificate
			if !opts.NoChain {
				if err := sig.X509Signature.VerifyChain(opts.TrustedPool, nil, x509.ExtKeyUsageAny); err != nil {
					return nil, fmt.Errorf("chain: %w", err)
				}
			}
		}
		out = append(out, vd)
	}
	return out, nil
}

// VerifyBinary runs "relic verify" from the built binary.
func (e *Env) VerifyBinary(path string, extra ...string) error {
	if err := e.BuildBinary(); err != nil {
		return err
	}
	args := []string{"verify", "--cert", e.RootPEM}
	for _, k := range SigningKeys {
		if e.Pgp[k] != nil {
			args = append(args, "--cert", filepath.Join(e.Dir, k+".pgp"))
		}
	}
	args = append(args, extra...)
	args = append(args, path)
	cmd := exec.Command(e.Binary, args...)
	blob, err := cmd.CombinedOutput()
	if err != nil {
		return fmt.Errorf("relic verify: %v: %s", err, strings.TrimSpace(string(blob)))
	}
	return nil
}

// HTTPClient returns a client that presents the configured client certificate.
func (e *Env) HTTPClient() *http.Client {
	cert, err := tls.LoadX509KeyPair(e.Cfg.Remote.CertFile, e.Cfg.Remote.KeyFile)
	if err != nil {
		panic(err)
	}
	return &http.Client{Transport: &http.Transport{TLSClientConfig: &tls.Config{InsecureSkipVerify: true, Certificates: []tls.Certificate{cert}}}}
}

var _ = io.Discard
