// Package cabref is an independent reader of the Microsoft Cabinet format ([MS-CAB]),
// written from the format description: it follows every offset the header declares and
// reports anything that does not fit in the file. It shares no code with relic.
package cabref

import (
	"bytes"
	"crypto/sha256"
	"encoding/binary"
	"fmt"
	"hash"
)

type Folder struct {
	CabStart   uint32
	DataBlocks uint16
	Compress   uint16
	Reserve    []byte
	DataSHA    [32]byte // over the CFDATA payload bytes (without headers) in order
	DataLen    int
}

type File struct {
	Size        uint32
	FolderStart uint32
	Folder      uint16
	Date, Time  uint16
	Attribs     uint16
	Name        string
}

type Cabinet struct {
	CabinetSize   uint32
	FilesOffset   uint32
	Flags         uint16
	SetID, Index  uint16
	HeaderReserve []byte // nil when the reserve flag is not set
	FolderReserve uint8
	DataReserve   uint8
	Folders       []Folder
	Files         []File
	// Trailer: bytes after CabinetSize (an Authenticode signature lives there)
	Trailer []byte
}

const flagPrev, flagNext, flagReserve = 1, 2, 4

func cstr(b []byte) (string, int, error) {
	i := bytes.IndexByte(b, 0)
	if i < 0 {
		return "", 0, fmt.Errorf("unterminated string")
	}
	return string(b[:i]), i + 1, nil
}

// Parse reads and validates a cabinet.
func Parse(d []byte) (*Cabinet, error) {
	if len(d) < 36 || string(d[:4]) != "MSCF" {
		return nil, fmt.Errorf("cab: no MSCF header")
	}
	le := binary.LittleEndian
	c := &Cabinet{CabinetSize: le.Uint32(d[8:]), FilesOffset: le.Uint32(d[16:]), Flags: le.Uint16(d[30:]), SetID: le.Uint16(d[32:]), Index: le.Uint16(d[34:])}
	nFolders, nFiles := int(le.Uint16(d[26:])), int(le.Uint16(d[28:]))
	if int(c.CabinetSize) > len(d) {
		return nil, fmt.Errorf("cab: cbCabinet %d but the file has %d bytes", c.CabinetSize, len(d))
	}
	c.Trailer = d[c.CabinetSize:]
	body := d[:c.CabinetSize]
	pos := 36
	if c.Flags&flagReserve != 0 {
		if pos+4 > len(body) {
			return nil, fmt.Errorf("cab: truncated reserve sizes")
		}
		hres := int(le.Uint16(body[pos:]))
		c.FolderReserve, c.DataReserve = body[pos+2], body[pos+3]
		pos += 4
		if pos+hres > len(body) {
			return nil, fmt.Errorf("cab: header reserve of %d bytes runs past the cabinet", hres)
		}
		c.HeaderReserve = body[pos : pos+hres]
		pos += hres
	}
	for _, fl := range []uint16{flagPrev, flagNext} {
		if c.Flags&fl != 0 {
			for k := 0; k < 2; k++ {
				_, n, err := cstr(body[pos:])
				if err != nil {
					return nil, fmt.Errorf("cab: cabinet/disk name: %v", err)
				}
				pos += n
			}
		}
	}
	for i := 0; i < nFolders; i++ {
		need := 8 + int(c.FolderReserve)
		if pos+need > len(body) {
			return nil, fmt.Errorf("cab: folder table ends at %d, beyond the cabinet", pos+need)
		}
		f := Folder{CabStart: le.Uint32(body[pos:]), DataBlocks: le.Uint16(body[pos+4:]), Compress: le.Uint16(body[pos+6:]), Reserve: body[pos+8 : pos+need]}
		c.Folders = append(c.Folders, f)
		pos += need
	}
	if int(c.FilesOffset) < pos {
		return nil, fmt.Errorf("cab: folder table ends at %d but coffFiles says the file table starts at %d", pos, c.FilesOffset)
	}
	if int(c.FilesOffset) > len(body) {
		return nil, fmt.Errorf("cab: coffFiles %d lies beyond the cabinet (%d bytes)", c.FilesOffset, len(body))
	}
	pos = int(c.FilesOffset)
	for i := 0; i < nFiles; i++ {
		if pos+16 > len(body) {
			return nil, fmt.Errorf("cab: file entry %d runs past the cabinet", i)
		}
		f := File{Size: le.Uint32(body[pos:]), FolderStart: le.Uint32(body[pos+4:]), Folder: le.Uint16(body[pos+8:]), Date: le.Uint16(body[pos+10:]), Time: le.Uint16(body[pos+12:]), Attribs: le.Uint16(body[pos+14:])}
		name, n, err := cstr(body[pos+16:])
		if err != nil {
			return nil, fmt.Errorf("cab: file entry %d: %v", i, err)
		}
		f.Name = name
		pos += 16 + n
		if int(f.Folder) >= nFolders && f.Folder < 0xfffd {
			return nil, fmt.Errorf("cab: file %q names folder %d of %d", name, f.Folder, nFolders)
		}
		c.Files = append(c.Files, f)
	}
	filesEnd := pos
	for i := range c.Folders {
		f := &c.Folders[i]
		p := int(f.CabStart)
		if p < filesEnd || p > len(body) {
			return nil, fmt.Errorf("cab: folder %d data starts at %d (file table ends at %d, cabinet has %d bytes)", i, p, filesEnd, len(body))
		}
		h := sha256.New()
		for b := 0; b < int(f.DataBlocks); b++ {
			hdr := 8 + int(c.DataReserve)
			if p+hdr > len(body) {
				return nil, fmt.Errorf("cab: folder %d data block %d header runs past the cabinet", i, b)
			}
			cb := int(le.Uint16(body[p+4:]))
			if p+hdr+cb > len(body) {
				return nil, fmt.Errorf("cab: folder %d data block %d (%d bytes) runs past the cabinet", i, b, cb)
			}
			if sum := le.Uint32(body[p:]); sum != 0 {
				if got := checksum(body[p+hdr:p+hdr+cb], checksum(body[p+4:p+hdr], 0)); got != sum {
					return nil, fmt.Errorf("cab: folder %d data block %d checksum %08x, computed %08x", i, b, sum, got)
				}
			}
			h.Write(body[p+hdr : p+hdr+cb])
			f.DataLen += cb
			p += hdr + cb
		}
		copy(f.DataSHA[:], h.Sum(nil))
	}
	return c, nil
}

// checksum is the CFDATA checksum of [MS-CAB] section 3.1.
func checksum(b []byte, seed uint32) uint32 {
	csum := seed
	n := len(b) / 4
	for i := 0; i < n; i++ {
		csum ^= binary.LittleEndian.Uint32(b[4*i:])
	}
	var ul uint32
	rest := b[4*n:]
	switch len(rest) {
	case 3:
		ul |= uint32(rest[0])<<16 | uint32(rest[1])<<8 | uint32(rest[2])
	case 2:
		ul |= uint32(rest[0])<<8 | uint32(rest[1])
	case 1:
		ul |= uint32(rest[0])
	}
	return csum ^ ul
}

// Payload renders what signing must not change: the file table and every folder's data.
func (c *Cabinet) Payload() []string {
	var out []string
	for i, f := range c.Folders {
		out = append(out, fmt.Sprintf("folder %d: compress=%d blocks=%d datalen=%d sha=%x", i, f.Compress, f.DataBlocks, f.DataLen, f.DataSHA[:8]))
	}
	for _, f := range c.Files {
		out = append(out, fmt.Sprintf("file %q size=%d at=%d folder=%d date=%d time=%d attr=%d", f.Name, f.Size, f.FolderStart, f.Folder, f.Date, f.Time, f.Attribs))
	}
	return out
}

// WithReserve returns a copy of an unreserved, unsigned cabinet with cfhdrRESERVE_PRESENT
// set and hres zero bytes of header reserve (plus fres per folder), all offsets adjusted.
func WithReserve(d []byte, hres, fres int) ([]byte, error) {
	c, err := Parse(d)
	if err != nil {
		return nil, err
	}
	if c.Flags != 0 || len(c.Trailer) != 0 {
		return nil, fmt.Errorf("cab: base must be a plain cabinet")
	}
	le := binary.LittleEndian
	nFolders := len(c.Folders)
	grow := 4 + hres + fres*nFolders
	out := append([]byte{}, d[:36]...)
	out = append(out, byte(hres), byte(hres>>8), byte(fres), 0)
	out = append(out, make([]byte, hres)...)
	pos := 36
	for i := 0; i < nFolders; i++ {
		ent := append([]byte{}, d[pos:pos+8]...)
		le.PutUint32(ent, le.Uint32(ent)+uint32(grow))
		out = append(out, ent...)
		out = append(out, make([]byte, fres)...)
		pos += 8
	}
	out = append(out, d[pos:]...)
	le.PutUint32(out[8:], c.CabinetSize+uint32(grow))
	le.PutUint32(out[16:], c.FilesOffset+uint32(grow))
	le.PutUint16(out[30:], flagReserve)
	if _, err := Parse(out); err != nil {
		return nil, fmt.Errorf("cab: generated cabinet invalid: %v", err)
	}
	return out, nil
}

// AuthenticodeDigest computes the image hash of a signed cabinet the way the Windows
// cabinet subject interface package (and osslsigncode) do: the header without the fields
// that change when a signature is attached (reserved1, the cabinet index, the reserve
// sizes and the first 16 bytes of the 20-byte signature reserve), every folder entry,
// and everything from the end of the folder table up to the signature.
func AuthenticodeDigest(d []byte, h hash.Hash) ([]byte, error) {
	c, err := Parse(d)
	if err != nil {
		return nil, err
	}
	if c.Flags != flagReserve || len(c.HeaderReserve) != 20 || c.FolderReserve != 0 || c.DataReserve != 0 {
		return nil, fmt.Errorf("cab: not the layout of a signed cabinet (flags %#x, header reserve %d)", c.Flags, len(c.HeaderReserve))
	}
	h.Write(d[0:4])   // signature
	h.Write(d[8:16])  // cbCabinet, reserved2
	h.Write(d[16:20]) // coffFiles
	h.Write(d[20:32]) // reserved3, version, cFolders, cFiles, flags
	h.Write(d[32:34]) // setID
	h.Write(d[56:60]) // last 4 bytes of the signature reserve
	pos := 60
	for range c.Folders {
		h.Write(d[pos : pos+8])
		pos += 8
	}
	h.Write(d[pos:c.CabinetSize])
	return h.Sum(nil), nil
}
