package cabref

import (
	"os"
	"testing"
)

func TestFixture(t *testing.T) {
	d, err := os.ReadFile("/repo/functest/packages/dummy.cab")
	if err != nil {
		t.Skip(err)
	}
	c, err := Parse(d)
	if err != nil {
		t.Fatal(err)
	}
	if len(c.Files) == 0 || len(c.Folders) == 0 {
		t.Fatalf("%+v", c)
	}
	for _, n := range []int{0, 20, 64, 6144} {
		r, err := WithReserve(d, n, 0)
		if err != nil {
			t.Fatal(err)
		}
		c2, err := Parse(r)
		if err != nil {
			t.Fatal(err)
		}
		if len(c2.Payload()) != len(c.Payload()) {
			t.Fatal("payload")
		}
		for i := range c.Payload() {
			a, b := c.Payload()[i], c2.Payload()[i]
			if a != b {
				t.Fatalf("%s != %s", a, b)
			}
		}
	}
	if _, err := WithReserve(d, 20, 4); err != nil {
		t.Fatal(err)
	}
}
