package tsa

import (
	"bytes"
	"context"
	"crypto"
	"crypto/ecdsa"
	"crypto/elliptic"
	"crypto/rand"
	"crypto/rsa"
	"crypto/sha256"
	"crypto/x509"
	"encoding/base64"
	"encoding/pem"
	"errors"
	"io"
	"math/big"
	"net/http"
	"net/http/httptest"
	"os"
	"os/exec"
	"path/filepath"
	"strings"
	"sync"
	"testing"
	"time"

	"github.com/sassoftware/relic/v8/xverif/der"
)

var testNow = time.Date(2026, 10, 3, 12, 0, 0, 0, time.UTC)

type fixture struct {
	caKey  *ecdsa.PrivateKey
	ca     *x509.Certificate
	rsaKey *rsa.PrivateKey
	ecKey  *ecdsa.PrivateKey
}

var (
	fixOnce sync.Once
	fix     fixture
)

func getFixture(t testing.TB) fixture {
	fixOnce.Do(func() {
		var err error
		if fix.caKey, err = ecdsa.GenerateKey(elliptic.P256(), rand.Reader); err != nil {
			t.Fatal(err)
		}
		if fix.ca, err = NewCA(fix.caKey, testNow, "xverif test CA"); err != nil {
			t.Fatal(err)
		}
		if fix.rsaKey, err = rsa.GenerateKey(rand.Reader, 2048); err != nil {
			t.Fatal(err)
		}
		if fix.ecKey, err = ecdsa.GenerateKey(elliptic.P256(), rand.Reader); err != nil {
			t.Fatal(err)
		}
	})
	return fix
}

func writePEM(t testing.TB, path string, certs ...*x509.Certificate) {
	t.Helper()
	var buf bytes.Buffer
	for _, c := range certs {
		pem.Encode(&buf, &pem.Block{Type: "CERTIFICATE", Bytes: c.Raw})
	}
	if err := os.WriteFile(path, buf.Bytes(), 0o644); err != nil {
		t.Fatal(err)
	}
}

func openssl(t testing.TB, dir string, args ...string) (string, error) {
	t.Helper()
	cmd := exec.Command("openssl", args...)
	cmd.Dir = dir
	out, err := cmd.CombinedOutput()
	return string(out), err
}

func needOpenSSL(t testing.TB) {
	if _, err := exec.LookPath("openssl"); err != nil {
		t.Skip("openssl not on PATH")
	}
}

// tsVerify runs `openssl ts -verify` at the authority's notion of "now".
func tsVerify(t testing.TB, dir, resp, query, cafile string, extra ...string) (string, error) {
	args := []string{"ts", "-verify", "-in", resp, "-queryfile", query, "-CAfile", cafile,
		"-attime", big.NewInt(testNow.Unix()).String()}
	return openssl(t, dir, append(args, extra...)...)
}

func TestCertificateProfile(t *testing.T) {
	f := getFixture(t)
	a, err := NewAuthority(f.ecKey, f.caKey, f.ca, testNow, "profile TSA")
	if err != nil {
		t.Fatal(err)
	}
	c := a.Cert
	if len(c.ExtKeyUsage) != 1 || c.ExtKeyUsage[0] != x509.ExtKeyUsageTimeStamping || len(c.UnknownExtKeyUsage) != 0 {
		t.Fatalf("EKU %v %v", c.ExtKeyUsage, c.UnknownExtKeyUsage)
	}
	crit := false
	for _, e := range c.Extensions {
		if e.Id.Equal(oidExtKeyUsage) {
			crit = e.Critical
		}
	}
	if !crit {
		t.Fatal("extendedKeyUsage not critical")
	}
	if err := c.CheckSignatureFrom(f.ca); err != nil {
		t.Fatal(err)
	}
	pool := x509.NewCertPool()
	pool.AddCert(f.ca)
	if _, err := c.Verify(x509.VerifyOptions{Roots: pool, CurrentTime: testNow, KeyUsages: []x509.ExtKeyUsage{x509.ExtKeyUsageTimeStamping}}); err != nil {
		t.Fatal(err)
	}
	self, err := NewAuthority(f.ecKey, nil, nil, testNow, "self TSA")
	if err != nil || len(self.Chain) != 0 {
		t.Fatalf("self-signed: %v", err)
	}
	if err := self.Cert.CheckSignature(self.Cert.SignatureAlgorithm, self.Cert.RawTBSCertificate, self.Cert.Signature); err != nil {
		t.Fatalf("self-signed: %v", err)
	}
}

func TestOpenSSLVerifiesValid(t *testing.T) {
	needOpenSSL(t)
	f := getFixture(t)
	dir := t.TempDir()
	os.WriteFile(filepath.Join(dir, "data"), []byte("timestamp me"), 0o644)
	writePEM(t, filepath.Join(dir, "ca.pem"), f.ca)

	type variant struct {
		name      string
		key       crypto.Signer
		selfSign  bool
		queryArgs []string
		tweak     func(a *Authority)
		untrusted bool
	}
	variants := []variant{
		{name: "rsa-sha256-cert", key: f.rsaKey, queryArgs: []string{"-sha256", "-cert"}},
		{name: "ec-sha256-cert", key: f.ecKey, queryArgs: []string{"-sha256", "-cert"}},
		{name: "ec-sha512-nononce", key: f.ecKey, queryArgs: []string{"-sha512", "-cert", "-no_nonce"}},
		{name: "rsa-sha1-imprint", key: f.rsaKey, queryArgs: []string{"-sha1", "-cert"}},
		{name: "rsa-essv1", key: f.rsaKey, queryArgs: []string{"-sha256", "-cert"}, tweak: func(a *Authority) { a.UseESSCertIDv1 = true }},
		{name: "ec-sign-sha384", key: f.ecKey, queryArgs: []string{"-sha256", "-cert"}, tweak: func(a *Authority) { a.HashForSigning = crypto.SHA384 }},
		{name: "rsa-sign-sha512", key: f.rsaKey, queryArgs: []string{"-sha384", "-cert"}, tweak: func(a *Authority) { a.HashForSigning = crypto.SHA512 }},
		{name: "rsa-nocertreq", key: f.rsaKey, queryArgs: []string{"-sha256"}, untrusted: true},
		{name: "ec-policy", key: f.ecKey, queryArgs: []string{"-sha256", "-cert", "-tspolicy", "1.3.6.1.4.1.4146.2.3"}},
		{name: "ec-selfsigned", key: f.ecKey, selfSign: true, queryArgs: []string{"-sha256", "-cert"}},
	}
	for _, v := range variants {
		v := v
		t.Run(v.name, func(t *testing.T) {
			var a *Authority
			var err error
			cafile := "ca.pem"
			if v.selfSign {
				a, err = NewAuthority(v.key, nil, nil, testNow, v.name)
			} else {
				a, err = NewAuthority(v.key, f.caKey, f.ca, testNow, v.name)
			}
			if err != nil {
				t.Fatal(err)
			}
			if v.selfSign {
				cafile = v.name + ".self.pem"
				writePEM(t, filepath.Join(dir, cafile), a.Cert)
			}
			if v.tweak != nil {
				v.tweak(a)
			}
			q, r := v.name+".tsq", v.name+".tsr"
			if out, err := openssl(t, dir, append([]string{"ts", "-query", "-data", "data", "-out", q}, v.queryArgs...)...); err != nil {
				t.Fatalf("ts -query: %v\n%s", err, out)
			}
			reqDER, _ := os.ReadFile(filepath.Join(dir, q))
			status, ctype, body := a.Respond(reqDER, Valid)
			if status != 200 || ctype != ContentTypeReply {
				t.Fatalf("status %d type %s", status, ctype)
			}
			os.WriteFile(filepath.Join(dir, r), body, 0o644)
			var extra []string
			if v.untrusted {
				writePEM(t, filepath.Join(dir, v.name+".tsa.pem"), a.Cert)
				extra = []string{"-untrusted", v.name + ".tsa.pem"}
			}
			out, err := tsVerify(t, dir, r, q, cafile, extra...)
			if err != nil || !strings.Contains(out, "Verification: OK") {
				t.Fatalf("openssl ts -verify: %v\n%s", err, out)
			}
			// also against the data directly, and must fail for other data
			if out, err := openssl(t, dir, append([]string{"ts", "-verify", "-in", r, "-data", "data", "-CAfile", cafile,
				"-attime", big.NewInt(testNow.Unix()).String()}, extra...)...); err != nil {
				t.Fatalf("ts -verify -data: %v\n%s", err, out)
			}
			os.WriteFile(filepath.Join(dir, "other"), []byte("something else"), 0o644)
			if out, err := openssl(t, dir, append([]string{"ts", "-verify", "-in", r, "-data", "other", "-CAfile", cafile,
				"-attime", big.NewInt(testNow.Unix()).String()}, extra...)...); err == nil {
				t.Fatalf("verified against other data:\n%s", out)
			}
			// strict DER all the way down
			top, err := der.ParseAll(body)
			if err != nil || !top.DeepDER() {
				t.Fatalf("response is not DER: %v", err)
			}
			// independent inspector agrees
			st, tok, err := ExtractToken(body)
			if err != nil || st != 0 || tok == nil {
				t.Fatalf("ExtractToken: %d %v", st, err)
			}
			req, err := ParseRequest(reqDER)
			if err != nil {
				t.Fatal(err)
			}
			info, err := der.ParseTSTInfo(tok)
			if err != nil {
				t.Fatal(err)
			}
			if !bytes.Equal(info.HashedMessage, req.Imprint) || info.HashOID != req.ImprintAlg.String() ||
				!info.GenTime.Equal(testNow) || info.Serial.Int64() != 1001 {
				t.Fatalf("TSTInfo %+v", info)
			}
			if (req.Nonce == nil) != (info.Nonce == nil) || req.Nonce != nil && req.Nonce.Cmp(info.Nonce) != 0 {
				t.Fatalf("nonce %v vs %v", req.Nonce, info.Nonce)
			}
			if strings.Contains(v.name, "policy") && info.Policy != "1.3.6.1.4.1.4146.2.3" {
				t.Fatalf("policy %s", info.Policy)
			}
			sd, _ := der.ParseSignedData(tok)
			if wantCerts := 2; v.untrusted && len(sd.Certificates) != 0 || !v.untrusted && !v.selfSign && len(sd.Certificates) != wantCerts {
				t.Fatalf("%d certificates embedded", len(sd.Certificates))
			}
			if !v.untrusted {
				if err := sd.VerifySigner(&sd.SignerInfos[0], nil); err != nil {
					t.Fatal(err)
				}
			}
			// signed attributes are in DER order and carry the ESS attribute
			var raws [][]byte
			ess := 0
			for _, at := range sd.SignerInfos[0].SignedAttrs {
				raws = append(raws, at.Raw)
				if at.OID == der.OIDAttrSigningCert || at.OID == der.OIDAttrSigningCertV2 {
					ess++
				}
			}
			if !der.IsSortedDER(raws) || ess != 1 {
				t.Fatalf("signed attrs sorted=%v ess=%d", der.IsSortedDER(raws), ess)
			}
		})
	}
}

func TestOpenSSLRejectsFaults(t *testing.T) {
	needOpenSSL(t)
	f := getFixture(t)
	dir := t.TempDir()
	os.WriteFile(filepath.Join(dir, "data"), []byte("timestamp me"), 0o644)
	writePEM(t, filepath.Join(dir, "ca.pem"), f.ca)
	if out, err := openssl(t, dir, "ts", "-query", "-data", "data", "-sha256", "-cert", "-out", "req.tsq"); err != nil {
		t.Fatalf("%v\n%s", err, out)
	}
	reqDER, _ := os.ReadFile(filepath.Join(dir, "req.tsq"))
	req, err := ParseRequest(reqDER)
	if err != nil || req.Nonce == nil || !req.CertReq {
		t.Fatalf("request: %+v %v", req, err)
	}
	for _, key := range []crypto.Signer{f.rsaKey, f.ecKey} {
		a, err := NewAuthority(key, f.caKey, f.ca, testNow, "fault TSA")
		if err != nil {
			t.Fatal(err)
		}
		for _, b := range RFC3161Behaviours {
			status, ctype, body := a.Respond(reqDER, b)
			name := b.String() + ".tsr"
			os.WriteFile(filepath.Join(dir, name), body, 0o644)
			out, verr := tsVerify(t, dir, name, "req.tsq", "ca.pem")
			ok := verr == nil && strings.Contains(out, "Verification: OK")
			switch b {
			case DuplicateDigestAttr:
				// openssl ts tolerates a two-valued message-digest attribute (openssl cms does not)
				if status != 200 {
					t.Errorf("%v: HTTP status %d", b, status)
				}
			case Valid, GrantedWithMods, Hang:
				if !ok || status != 200 || ctype != ContentTypeReply {
					t.Errorf("%v: should verify: %v\n%s", b, verr, out)
				}
			case WrongContentType:
				if !ok || ctype == ContentTypeReply || status != 200 {
					t.Errorf("%v: body should verify but carry a wrong media type (%s): %v\n%s", b, ctype, verr, out)
				}
			case HTTP500:
				if status != 500 || ok {
					t.Errorf("%v: status %d ok=%v", b, status, ok)
				}
			default:
				if status != 200 {
					t.Errorf("%v: HTTP status %d", b, status)
				}
				if ok {
					t.Errorf("%v: openssl accepted a faulty response\n%s", b, out)
				}
			}
			// what kind of fault is it? cross-check with the inspector.
			st, tok, perr := ExtractToken(body)
			switch b {
			case Garbage, Truncated, HTTP500:
				if perr == nil {
					t.Errorf("%v: body parses as TimeStampResp", b)
				}
			case StatusRejection, StatusWaiting, GrantedNoToken:
				want := map[Behaviour]int{StatusRejection: 2, StatusWaiting: 3, GrantedNoToken: 0}[b]
				if perr != nil || st != want || tok != nil {
					t.Errorf("%v: status %d token %v err %v", b, st, tok != nil, perr)
				}
				if top, err := der.ParseAll(body); err != nil || !top.DeepDER() {
					t.Errorf("%v: not DER", b)
				}
			case GrantedWithMods:
				if st != 1 || tok == nil {
					t.Errorf("%v: status %d", b, st)
				}
			case BadTokenSignature:
				if _, err := der.VerifyToken(tok, nil, nil); !errors.Is(err, der.ErrSignature) {
					t.Errorf("%v: inspector says %v", b, err)
				}
			case WrongNonce, OmitNonce, WrongImprint, WrongImprintAlg:
				// the token itself is cryptographically sound ...
				sd, err := der.ParseSignedData(tok)
				if err != nil {
					t.Fatalf("%v: %v", b, err)
				}
				if err := sd.VerifySigner(&sd.SignerInfos[0], nil); err != nil {
					t.Errorf("%v: token signature should be valid: %v", b, err)
				}
				info, err := der.ParseTSTInfo(tok)
				if err != nil {
					t.Fatalf("%v: %v", b, err)
				}
				// ... and differs from the request in exactly the scripted field
				sameNonce := info.Nonce != nil && info.Nonce.Cmp(req.Nonce) == 0
				sameImprint := bytes.Equal(info.HashedMessage, req.Imprint)
				sameAlg := info.HashOID == req.ImprintAlg.String()
				got := [3]bool{sameNonce, sameImprint, sameAlg}
				want := map[Behaviour][3]bool{
					WrongNonce: {false, true, true}, OmitNonce: {false, true, true},
					WrongImprint: {true, false, true}, WrongImprintAlg: {true, true, false}}[b]
				if got != want {
					t.Errorf("%v: nonce/imprint/alg equality %v want %v", b, got, want)
				}
				if b == OmitNonce && info.Nonce != nil || b == WrongNonce && info.Nonce == nil {
					t.Errorf("%v: nonce %v", b, info.Nonce)
				}
			}
		}
	}
	// unparsable request → rejection badDataFormat, still well-formed
	a, _ := NewAuthority(f.ecKey, f.caKey, f.ca, testNow, "x")
	status, _, body := a.Respond([]byte("nonsense"), Valid)
	st, tok, err := ExtractToken(body)
	if status != 200 || err != nil || st != 2 || tok != nil {
		t.Fatalf("bad request handling: %d %d %v", status, st, err)
	}
}

func post(t testing.TB, c *http.Client, url, ctype string, body []byte) (int, string, []byte, error) {
	t.Helper()
	resp, err := c.Post(url, ctype, bytes.NewReader(body))
	if err != nil {
		return 0, "", nil, err
	}
	defer resp.Body.Close()
	b, err := io.ReadAll(resp.Body)
	return resp.StatusCode, resp.Header.Get("Content-Type"), b, err
}

func TestHandlerScriptAndLog(t *testing.T) {
	f := getFixture(t)
	a, err := NewAuthority(f.ecKey, f.caKey, f.ca, testNow, "http TSA")
	if err != nil {
		t.Fatal(err)
	}
	script := []Behaviour{HTTP500, WrongNonce, Valid, Garbage}
	srv := httptest.NewServer(a.Handler(func(n int, path string) Behaviour {
		if n < len(script) {
			return script[n]
		}
		return Valid
	}))
	defer srv.Close()
	imprint := sha256.Sum256([]byte("sig"))
	for i := range script {
		nonce := big.NewInt(int64(1000 + i))
		req, _ := MarshalRequest(crypto.SHA256, imprint[:], nonce, true)
		status, ctype, body, err := post(t, srv.Client(), srv.URL+"/tsa/x", ContentTypeQuery, req)
		if err != nil {
			t.Fatal(err)
		}
		switch script[i] {
		case HTTP500:
			if status != 500 {
				t.Fatalf("status %d", status)
			}
		case Valid:
			_, tok, err := ExtractToken(body)
			if err != nil || status != 200 || ctype != ContentTypeReply {
				t.Fatalf("valid: %d %s %v", status, ctype, err)
			}
			info, err := der.VerifyToken(tok, []byte("sig"), nil)
			if err != nil || info.Nonce.Cmp(nonce) != 0 {
				t.Fatalf("VerifyToken: %v", err)
			}
		case WrongNonce:
			_, tok, _ := ExtractToken(body)
			info, err := der.VerifyToken(tok, []byte("sig"), nil)
			if err != nil || info.Nonce.Cmp(nonce) == 0 {
				t.Fatalf("WrongNonce: %v %v", info, err)
			}
		case Garbage:
			if _, _, err := ExtractToken(body); err == nil || status != 200 {
				t.Fatal("garbage parsed")
			}
		}
	}
	log := a.Requests()
	if len(log) != len(script) {
		t.Fatalf("%d requests logged", len(log))
	}
	var serials []int64
	for i, r := range log {
		if r.N != i || r.Behaviour != script[i] || r.Path != "/tsa/x" || r.Legacy || r.ContentType != ContentTypeQuery ||
			r.Nonce == nil || r.Nonce.Int64() != int64(1000+i) || r.ImprintAlg != der.OIDSHA256 ||
			!bytes.Equal(r.Imprint, imprint[:]) || !r.CertReq || r.ParseError != "" {
			t.Fatalf("log[%d] = %+v", i, r)
		}
		if r.Serial != nil {
			serials = append(serials, r.Serial.Int64())
		}
	}
	if len(serials) != 2 || serials[0] != 1001 || serials[1] != 1002 {
		t.Fatalf("serials %v", serials)
	}
	a.ResetRequests()
	if len(a.Requests()) != 0 {
		t.Fatal("reset failed")
	}
}

func TestHang(t *testing.T) {
	f := getFixture(t)
	a, _ := NewAuthority(f.ecKey, f.caKey, f.ca, testNow, "hang TSA")
	srv := httptest.NewServer(a.Handler(func(int, string) Behaviour { return Hang }))
	defer srv.Close()
	defer a.ReleaseHangs()
	req, _ := MarshalRequest(crypto.SHA256, make([]byte, 32), big.NewInt(1), false)

	// client gives up first
	ctx, cancel := context.WithTimeout(context.Background(), 150*time.Millisecond)
	defer cancel()
	hr, _ := http.NewRequestWithContext(ctx, "POST", srv.URL, bytes.NewReader(req))
	start := time.Now()
	_, err := srv.Client().Do(hr)
	if err == nil || time.Since(start) < 100*time.Millisecond {
		t.Fatalf("expected client timeout, got %v after %v", err, time.Since(start))
	}
	// the handler notices and logs the request without a response
	deadline := time.Now().Add(2 * time.Second)
	for len(a.Requests()) == 0 && time.Now().Before(deadline) {
		time.Sleep(5 * time.Millisecond)
	}
	if log := a.Requests(); len(log) != 1 || log[0].Status != 0 || log[0].Behaviour != Hang {
		t.Fatalf("log %+v", log)
	}

	// bounded hang answers validly afterwards
	a.HangDuration = 100 * time.Millisecond
	start = time.Now()
	status, _, body, err := post(t, srv.Client(), srv.URL, ContentTypeQuery, req)
	if err != nil || status != 200 || time.Since(start) < 90*time.Millisecond {
		t.Fatalf("bounded hang: %v %d %v", err, status, time.Since(start))
	}
	if _, tok, err := ExtractToken(body); err != nil || tok == nil {
		t.Fatal("no token after hang")
	}

	// ReleaseHangs unblocks an unbounded one
	a.HangDuration = 0
	done := make(chan int, 1)
	go func() {
		status, _, _, _ := post(t, srv.Client(), srv.URL, ContentTypeQuery, req)
		done <- status
	}()
	time.Sleep(50 * time.Millisecond)
	select {
	case s := <-done:
		t.Fatalf("returned early with %d", s)
	default:
	}
	a.ReleaseHangs()
	select {
	case s := <-done:
		if s != 200 {
			t.Fatalf("status %d", s)
		}
	case <-time.After(2 * time.Second):
		t.Fatal("ReleaseHangs did not unblock")
	}
}

func TestLegacyMicrosoft(t *testing.T) {
	f := getFixture(t)
	dir := t.TempDir()
	writePEM(t, filepath.Join(dir, "ca.pem"), f.ca)
	haveOpenSSL := exec.Command("openssl", "version").Run() == nil
	signature := bytes.Repeat([]byte{0x5a, 0x01}, 128) // stands in for SignerInfo.signature
	for _, key := range []crypto.Signer{f.rsaKey, f.ecKey} {
		a, err := NewAuthority(key, f.caKey, f.ca, testNow, "legacy TSA")
		if err != nil {
			t.Fatal(err)
		}
		a.HashForSigning = crypto.SHA1 // what the historic services use
		script := MSBehaviours
		srv := httptest.NewServer(a.MSHandler(func(n int, _ string) Behaviour { return script[n%len(script)] }))
		for i, b := range script {
			reqBody := MarshalMSRequest(signature)
			if i%2 == 1 {
				// raw DER, which is what relic actually sends
				reqBody, _ = base64.StdEncoding.DecodeString(string(reqBody))
			}
			if b == MSValid {
				a.MSBase64Columns = 64
			} else {
				a.MSBase64Columns = 0
			}
			status, _, body, err := post(t, srv.Client(), srv.URL+"/ms", ContentTypeMS, reqBody)
			if err != nil {
				t.Fatal(err)
			}
			if b == MSHTTP500 {
				if status != 500 {
					t.Fatalf("%v: status %d", b, status)
				}
				continue
			}
			if status != 200 {
				t.Fatalf("%v: status %d: %s", b, status, body)
			}
			p7, err := base64.StdEncoding.DecodeString(string(body))
			if err != nil {
				t.Fatalf("%v: base64: %v", b, err)
			}
			sd, err := der.ParseSignedData(p7)
			if b == MSGarbage {
				if err == nil {
					t.Fatal("garbage parsed")
				}
				continue
			}
			if err != nil {
				t.Fatalf("%v: %v", b, err)
			}
			if sd.EContentType != der.OIDData || sd.Version != 1 || len(sd.SignerInfos) != 1 || len(sd.Certificates) != 2 || !sd.Body.DeepDER() {
				t.Fatalf("%v: shape", b)
			}
			si := &sd.SignerInfos[0]
			verr := sd.VerifySigner(si, nil)
			same := bytes.Equal(sd.EContentValueBytes, signature)
			switch b {
			case MSValid:
				if verr != nil || !same {
					t.Fatalf("MSValid: %v same=%v", verr, same)
				}
				st, ok := si.SigningTime()
				if !ok || !st.IsUniversal(der.TagUTCTime) {
					t.Fatal("no UTCTime signing-time")
				}
				if tm, _ := st.Time(); !tm.Equal(testNow) {
					t.Fatalf("signing time %v", tm)
				}
				// The SignerInfo works as a PKCS#9 countersignature of a
				// parent whose signature value is `signature`.
				parent := &der.SignerInfo{Signature: signature}
				if err := sd.VerifyCountersignature(parent, si); err != nil {
					t.Fatalf("as countersignature: %v", err)
				}
			case MSWrongContent:
				if verr != nil || same {
					t.Fatalf("MSWrongContent: %v same=%v", verr, same)
				}
			case MSBadSignature:
				if !errors.Is(verr, der.ErrSignature) || !same {
					t.Fatalf("MSBadSignature: %v", verr)
				}
			}
			if haveOpenSSL {
				name := b.String() + ".p7"
				os.WriteFile(filepath.Join(dir, name), p7, 0o644)
				out, err := openssl(t, dir, "cms", "-verify", "-inform", "DER", "-in", name, "-binary", "-CAfile", "ca.pem",
					"-purpose", "any", "-attime", big.NewInt(testNow.Unix()).String(), "-out", name+".content")
				if b == MSBadSignature {
					if err == nil {
						t.Fatalf("openssl accepted bad signature\n%s", out)
					}
					continue
				}
				if err != nil {
					t.Fatalf("%v: openssl cms -verify: %v\n%s", b, err, out)
				}
				got, _ := os.ReadFile(filepath.Join(dir, name+".content"))
				if bytes.Equal(got, signature) != (b == MSValid) {
					t.Fatalf("%v: content equality wrong", b)
				}
			}
		}
		srv.Close()
		log := a.Requests()
		if len(log) != len(script) {
			t.Fatalf("%d logged", len(log))
		}
		for i, r := range log {
			if !r.Legacy || r.Behaviour != script[i] || !bytes.Equal(r.MSContent, signature) || r.MSBase64 != (i%2 == 0) || r.ParseError != "" {
				t.Fatalf("log[%d] %+v", i, r)
			}
		}
	}
	// malformed legacy request
	a, _ := NewAuthority(f.ecKey, f.caKey, f.ca, testNow, "x")
	if status, _, _ := a.RespondMS([]byte("@@@"), MSValid); status != 400 {
		t.Fatalf("status %d", status)
	}
}

func TestRequestRoundTrip(t *testing.T) {
	for _, nonce := range []*big.Int{nil, big.NewInt(0), big.NewInt(255), new(big.Int).Lsh(big.NewInt(1), 100)} {
		for _, certReq := range []bool{false, true} {
			d, err := MarshalRequest(crypto.SHA384, make([]byte, 48), nonce, certReq)
			if err != nil {
				t.Fatal(err)
			}
			r, err := ParseRequest(d)
			if err != nil {
				t.Fatal(err)
			}
			if r.CertReq != certReq || (nonce == nil) != (r.Nonce == nil) || nonce != nil && nonce.Cmp(r.Nonce) != 0 || r.ImprintAlg.String() != der.OIDSHA384 {
				t.Fatalf("round trip %v %v -> %+v", nonce, certReq, r)
			}
		}
	}
	if Behaviour(99).String() == "" || MSHTTP500.String() != "MSHTTP500" || len(behaviourNames) != int(ContentSwapped)+1 {
		t.Fatal("Behaviour names out of sync")
	}
}
