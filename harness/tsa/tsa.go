// Package tsa is a scriptable RFC 3161 time-stamp authority and legacy
// Microsoft Authenticode timestamp responder for the relic verification
// harness. It is written from RFC 3161 / RFC 5652 / RFC 5035 on top of
// encoding/asn1, the harness' own DER emitter and Go crypto, and imports
// nothing from relic.
package tsa

import (
	"bytes"
	"crypto"
	"crypto/ecdsa"
	"crypto/rand"
	"crypto/rsa"
	"crypto/sha1"
	"crypto/sha256"
	"crypto/x509"
	"crypto/x509/pkix"
	"encoding/asn1"
	"encoding/base64"
	"encoding/binary"
	"errors"
	"fmt"
	"io"
	"math/big"
	"net/http"
	"strings"
	"sync"
	"time"

	"github.com/sassoftware/relic/v8/xverif/der"
)

// Behaviour selects what the authority does with one request.
type Behaviour int

// RFC 3161 behaviours followed by the legacy Microsoft ones.
const (
	// Valid: PKIStatus granted(0) and a correct token.
	Valid Behaviour = iota
	// WrongNonce: correct token except that TSTInfo.nonce is request nonce+1.
	WrongNonce
	// OmitNonce: correct token without TSTInfo.nonce.
	OmitNonce
	// WrongImprint: first octet of hashedMessage flipped (properly signed).
	WrongImprint
	// WrongImprintAlg: messageImprint.hashAlgorithm replaced by another
	// digest OID, hashedMessage unchanged (properly signed).
	WrongImprintAlg
	// StatusRejection: PKIStatus rejection(2), failInfo badAlg, no token.
	StatusRejection
	// StatusWaiting: PKIStatus waiting(3), no token.
	StatusWaiting
	// GrantedNoToken: PKIStatus granted(0) but timeStampToken absent.
	GrantedNoToken
	// BadTokenSignature: correct token with the last signature octet flipped.
	BadTokenSignature
	// HTTP500: HTTP 500 with a text body.
	HTTP500
	// Garbage: HTTP 200, application/timestamp-reply, body is not DER.
	Garbage
	// Truncated: first half of a valid response.
	Truncated
	// WrongContentType: valid response served as text/plain.
	WrongContentType
	// Hang: block until the request context is done or Authority.HangDuration
	// elapsed (then answer as Valid). Respond itself does not block.
	Hang
	// GrantedWithMods: PKIStatus grantedWithMods(1) and a correct token.
	GrantedWithMods

	// MSValid: base64 PKCS#7 whose content is the submitted signature.
	MSValid
	// MSWrongContent: properly signed PKCS#7 over different content.
	MSWrongContent
	// MSBadSignature: MSValid with the last signature octet flipped.
	MSBadSignature
	// MSGarbage: HTTP 200, valid base64 of bytes that are not DER.
	MSGarbage
	// MSHTTP500: HTTP 500.
	MSHTTP500

	// RejectionWithToken: PKIStatus rejection(2) although a well-formed token for the
	// request is attached (RFC 3161 forbids the token; a client must go by the status).
	RejectionWithToken
	// DuplicateDigestAttr: granted, but the token's message-digest attribute carries the
	// digest twice (SET of two identical values): attributes must be single-valued.
	DuplicateDigestAttr
	// AttrsSignedSorted: granted; the signed attributes are emitted in non-DER order
	// (reversed) while the signature value was computed over their DER-sorted encoding: a
	// verifier that digests the attributes as encoded must refuse the token.
	AttrsSignedSorted
	// ContentSwapped: granted; a token correctly signed over one TSTInfo whose content is
	// then replaced by another TSTInfo (same imprint and nonce, later time and serial): the
	// message-digest attribute no longer matches the content.
	ContentSwapped
)

var behaviourNames = [...]string{"Valid", "WrongNonce", "OmitNonce", "WrongImprint", "WrongImprintAlg",
	"StatusRejection", "StatusWaiting", "GrantedNoToken", "BadTokenSignature", "HTTP500", "Garbage",
	"Truncated", "WrongContentType", "Hang", "GrantedWithMods",
	"MSValid", "MSWrongContent", "MSBadSignature", "MSGarbage", "MSHTTP500", "RejectionWithToken", "DuplicateDigestAttr",
	"AttrsSignedSorted", "ContentSwapped"}

func (b Behaviour) String() string {
	if b >= 0 && int(b) < len(behaviourNames) {
		return behaviourNames[b]
	}
	return fmt.Sprintf("Behaviour(%d)", int(b))
}

// RFC3161Behaviours and MSBehaviours list all values, for generators.
var (
	RFC3161Behaviours = []Behaviour{Valid, WrongNonce, OmitNonce, WrongImprint, WrongImprintAlg, StatusRejection,
		StatusWaiting, GrantedNoToken, BadTokenSignature, HTTP500, Garbage, Truncated, WrongContentType, Hang, GrantedWithMods,
		RejectionWithToken, DuplicateDigestAttr, AttrsSignedSorted, ContentSwapped}
	MSBehaviours = []Behaviour{MSValid, MSWrongContent, MSBadSignature, MSGarbage, MSHTTP500}
)

// Acceptable reports whether a correct client must accept the response
// produced for b (Hang counts as acceptable: the eventual answer is valid).
func (b Behaviour) Acceptable() bool {
	switch b {
	case Valid, GrantedWithMods, Hang, MSValid:
		return true
	}
	return false
}

// Media types.
const (
	ContentTypeQuery = "application/timestamp-query"
	ContentTypeReply = "application/timestamp-reply"
	ContentTypeMS    = "application/octet-stream"
)

// Authority is a time-stamp authority with a scriptable conscience.
type Authority struct {
	Key   crypto.Signer // RSA or ECDSA
	Cert  *x509.Certificate
	Chain []*x509.Certificate // issuers of Cert, leaf excluded
	Now   func() time.Time
	// SerialBase+k is the serial of the k-th token issued (k from 1).
	SerialBase int64
	Policy     asn1.ObjectIdentifier
	// IncludeCerts honours the request's certReq flag; when false
	// certificates are never embedded in RFC 3161 tokens.
	IncludeCerts   bool
	HashForSigning crypto.Hash
	// AddSigningCertAttr adds the ESS signing-certificate attribute that
	// RFC 3161 §2.4.2 requires: ESSCertIDv2 (RFC 5035) unless UseESSCertIDv1
	// is set or HashForSigning is SHA-1, in which case ESSCertID (SHA-1).
	AddSigningCertAttr bool
	UseESSCertIDv1     bool

	// Rand feeds signing; nil means crypto/rand.
	Rand io.Reader
	// HangDuration bounds the Hang behaviour; 0 waits for the request
	// context (client gone) or ReleaseHangs.
	HangDuration time.Duration
	// MSBase64Columns > 0 wraps the legacy base64 response at that width
	// with CRLF, like the original Verisign/Microsoft servers.
	MSBase64Columns int

	mu      sync.Mutex
	count   int
	issued  int64
	reqs    []Recorded
	release chan struct{}
}

// Recorded describes one request seen by Handler or MSHandler.
type Recorded struct {
	N           int
	Path        string
	Method      string
	ContentType string
	Behaviour   Behaviour
	Legacy      bool
	Body        []byte
	ParseError  string // non-empty when the request could not be decoded

	// RFC 3161 request fields.
	Nonce      *big.Int // nil when absent
	ImprintAlg string   // dotted OID
	Imprint    []byte
	CertReq    bool
	ReqPolicy  string

	// Legacy request fields.
	MSBase64  bool   // request body was base64 (as the protocol specifies)
	MSContent []byte // the signature octets to be countersigned

	// Serial of the token issued for this request, nil if none was.
	Serial *big.Int
	// Status/ResponseBody as sent (nil body for Hang cut short).
	Status       int
	ResponseBody []byte
}

type messageImprint struct {
	HashAlgorithm asn1.RawValue
	HashedMessage []byte
}

type timeStampReq struct {
	Version        int
	MessageImprint messageImprint
	ReqPolicy      asn1.ObjectIdentifier `asn1:"optional"`
	Nonce          *big.Int              `asn1:"optional"`
	CertReq        bool                  `asn1:"optional"`
	Extensions     asn1.RawValue         `asn1:"optional,tag:0"`
}

// Request is a decoded TimeStampReq.
type Request struct {
	Version    int
	ImprintAlg asn1.ObjectIdentifier
	AlgRaw     []byte // AlgorithmIdentifier exactly as sent
	Imprint    []byte
	Policy     asn1.ObjectIdentifier
	Nonce      *big.Int
	CertReq    bool
}

// ParseRequest decodes a DER TimeStampReq.
func ParseRequest(reqDER []byte) (*Request, error) {
	var r timeStampReq
	rest, err := asn1.Unmarshal(reqDER, &r)
	if err != nil {
		return nil, fmt.Errorf("tsa: TimeStampReq: %w", err)
	}
	if len(rest) != 0 {
		return nil, errors.New("tsa: trailing bytes after TimeStampReq")
	}
	var alg pkix.AlgorithmIdentifier
	if _, err := asn1.Unmarshal(r.MessageImprint.HashAlgorithm.FullBytes, &alg); err != nil {
		return nil, fmt.Errorf("tsa: messageImprint.hashAlgorithm: %w", err)
	}
	return &Request{Version: r.Version, ImprintAlg: alg.Algorithm, AlgRaw: r.MessageImprint.HashAlgorithm.FullBytes,
		Imprint: r.MessageImprint.HashedMessage, Policy: r.ReqPolicy, Nonce: r.Nonce, CertReq: r.CertReq}, nil
}

// MarshalRequest builds a DER TimeStampReq (version 1). nonce may be nil.
func MarshalRequest(hash crypto.Hash, imprint []byte, nonce *big.Int, certReq bool) ([]byte, error) {
	oid, ok := der.OIDByHash(hash)
	if !ok {
		return nil, fmt.Errorf("tsa: unsupported hash %v", hash)
	}
	parts := [][]byte{der.EncInt64(1), der.EncSeq(der.EncAlgID(oid, der.EncNull()), der.EncOctets(imprint))}
	if nonce != nil {
		parts = append(parts, der.EncInt(nonce))
	}
	if certReq {
		parts = append(parts, der.EncBool(true))
	}
	return der.EncSeq(parts...), nil
}

// NewCA makes a self-signed CA certificate for key.
func NewCA(key crypto.Signer, now time.Time, name string) (*x509.Certificate, error) {
	tpl := &x509.Certificate{
		SerialNumber:          nameSerial("ca:" + name),
		Subject:               pkix.Name{Organization: []string{"xverif"}, CommonName: name},
		NotBefore:             now.Add(-24 * time.Hour),
		NotAfter:              now.AddDate(20, 0, 0),
		IsCA:                  true,
		BasicConstraintsValid: true,
		KeyUsage:              x509.KeyUsageCertSign | x509.KeyUsageCRLSign,
		SubjectKeyId:          keyID(key.Public()),
	}
	d, err := x509.CreateCertificate(rand.Reader, tpl, tpl, key.Public(), key)
	if err != nil {
		return nil, err
	}
	return x509.ParseCertificate(d)
}

func nameSerial(name string) *big.Int {
	h := sha256.Sum256([]byte(name))
	return new(big.Int).SetUint64(binary.BigEndian.Uint64(h[:8])>>1 | 1)
}

func keyID(pub crypto.PublicKey) []byte {
	b, err := x509.MarshalPKIXPublicKey(pub)
	if err != nil {
		return nil
	}
	h := sha1.Sum(b)
	return h[:]
}

var (
	oidExtKeyUsage        = asn1.ObjectIdentifier{2, 5, 29, 37}
	oidKPTimeStamping     = asn1.ObjectIdentifier{1, 3, 6, 1, 5, 5, 7, 3, 8}
	defaultPolicy         = asn1.ObjectIdentifier{1, 3, 6, 1, 4, 1, 99999, 3161, 1}
	errUnsupportedKeyType = errors.New("tsa: key must be RSA or ECDSA")
)

// NewAuthority creates a TSA leaf certificate for key with a critical
// extendedKeyUsage of exactly id-kp-timeStamping (RFC 3161 §2.3), signed by
// issuer/issuerKey, or self-signed when issuer is nil. The returned
// authority answers with SHA-256, embeds certificates on request and adds
// the ESSCertIDv2 signing-certificate attribute.
func NewAuthority(key crypto.Signer, issuerKey crypto.Signer, issuer *x509.Certificate, now time.Time, name string) (*Authority, error) {
	switch key.Public().(type) {
	case *rsa.PublicKey, *ecdsa.PublicKey:
	default:
		return nil, errUnsupportedKeyType
	}
	eku, err := asn1.Marshal([]asn1.ObjectIdentifier{oidKPTimeStamping})
	if err != nil {
		return nil, err
	}
	tpl := &x509.Certificate{
		SerialNumber:          nameSerial("tsa:" + name),
		Subject:               pkix.Name{Organization: []string{"xverif"}, CommonName: name},
		NotBefore:             now.Add(-time.Hour),
		NotAfter:              now.AddDate(10, 0, 0),
		KeyUsage:              x509.KeyUsageDigitalSignature,
		BasicConstraintsValid: true,
		SubjectKeyId:          keyID(key.Public()),
		ExtraExtensions:       []pkix.Extension{{Id: oidExtKeyUsage, Critical: true, Value: eku}},
	}
	parent, signer := tpl, key
	var chain []*x509.Certificate
	if issuer != nil {
		if issuerKey == nil {
			return nil, errors.New("tsa: issuer given without issuerKey")
		}
		parent, signer = issuer, issuerKey
		chain = []*x509.Certificate{issuer}
	}
	d, err := x509.CreateCertificate(rand.Reader, tpl, parent, key.Public(), signer)
	if err != nil {
		return nil, err
	}
	cert, err := x509.ParseCertificate(d)
	if err != nil {
		return nil, err
	}
	fixed := now
	return &Authority{
		Key: key, Cert: cert, Chain: chain,
		Now:                func() time.Time { return fixed },
		SerialBase:         1000,
		Policy:             defaultPolicy,
		IncludeCerts:       true,
		HashForSigning:     crypto.SHA256,
		AddSigningCertAttr: true,
	}, nil
}

// Clone returns an authority with the same identity and settings but fresh
// counters and an empty request log.
func (a *Authority) Clone() *Authority {
	return &Authority{Key: a.Key, Cert: a.Cert, Chain: a.Chain, Now: a.Now, SerialBase: a.SerialBase, Policy: a.Policy,
		IncludeCerts: a.IncludeCerts, HashForSigning: a.HashForSigning, AddSigningCertAttr: a.AddSigningCertAttr,
		UseESSCertIDv1: a.UseESSCertIDv1, Rand: a.Rand, HangDuration: a.HangDuration, MSBase64Columns: a.MSBase64Columns}
}

func (a *Authority) now() time.Time {
	if a.Now != nil {
		return a.Now().UTC().Truncate(time.Second)
	}
	return time.Unix(0, 0).UTC()
}

func (a *Authority) hash() crypto.Hash {
	if a.HashForSigning == 0 {
		return crypto.SHA256
	}
	return a.HashForSigning
}

func (a *Authority) nextSerial() *big.Int {
	a.mu.Lock()
	defer a.mu.Unlock()
	a.issued++
	return big.NewInt(a.SerialBase + a.issued)
}

func sum(h crypto.Hash, b []byte) []byte {
	w := h.New()
	w.Write(b)
	return w.Sum(nil)
}

// cmsSpec describes one SignedData to emit.
type cmsSpec struct {
	contentType  string
	content      []byte // value octets of the eContent OCTET STRING
	signingCert  bool   // add ESS signing-certificate attribute
	includeCerts bool
	flipSig      bool
	dupDigest    bool // message-digest attribute with the value twice
	// emitReversed writes the signed attributes in reverse DER order; the signature is
	// still made over the sorted encoding
	emitReversed bool
	// emitContent, if set, replaces the content after signing
	emitContent []byte
}

// signCMS emits ContentInfo{SignedData} with one SignerInfo
// (issuerAndSerialNumber, DER-sorted signed attributes: content-type,
// signing-time, message-digest and optionally signing-certificate[V2]).
func (a *Authority) signCMS(s cmsSpec) ([]byte, error) {
	h := a.hash()
	hoid, ok := der.OIDByHash(h)
	if !ok {
		return nil, fmt.Errorf("tsa: unsupported HashForSigning %v", h)
	}
	digestAlg := der.EncAlgID(hoid, der.EncNull())
	var sigAlg []byte
	switch a.Key.Public().(type) {
	case *rsa.PublicKey:
		sigAlg = der.EncAlgID(der.OIDRSAEncryption, der.EncNull())
	case *ecdsa.PublicKey:
		eoid := map[crypto.Hash]string{crypto.SHA1: der.OIDECDSAWithSHA1, crypto.SHA224: der.OIDECDSAWithSHA224,
			crypto.SHA256: der.OIDECDSAWithSHA256, crypto.SHA384: der.OIDECDSAWithSHA384, crypto.SHA512: der.OIDECDSAWithSHA512}[h]
		if eoid == "" {
			return nil, fmt.Errorf("tsa: no ECDSA signature OID for %v", h)
		}
		sigAlg = der.EncAlgID(eoid, nil)
	default:
		return nil, errUnsupportedKeyType
	}
	attrs := [][]byte{
		der.EncAttribute(der.OIDAttrContentType, der.EncOID(s.contentType)),
		der.EncAttribute(der.OIDAttrSigningTime, der.EncUTCTime(a.now())),
		der.EncAttribute(der.OIDAttrMessageDigest, der.EncOctets(sum(h, s.content))),
	}
	if s.dupDigest {
		attrs[2] = der.EncAttribute(der.OIDAttrMessageDigest, der.EncOctets(sum(h, s.content)), der.EncOctets(sum(h, s.content)))
	}
	if s.signingCert {
		issuerSerial := der.EncSeq(der.EncSeq(der.EncExplicit(4, a.Cert.RawIssuer)), der.EncInt(a.Cert.SerialNumber))
		if a.UseESSCertIDv1 || h == crypto.SHA1 {
			ch := sha1.Sum(a.Cert.Raw)
			attrs = append(attrs, der.EncAttribute(der.OIDAttrSigningCert,
				der.EncSeq(der.EncSeq(der.EncSeq(der.EncOctets(ch[:]), issuerSerial)))))
		} else {
			// hashAlgorithm DEFAULT sha256 is omitted as DER demands.
			ch := sha256.Sum256(a.Cert.Raw)
			attrs = append(attrs, der.EncAttribute(der.OIDAttrSigningCertV2,
				der.EncSeq(der.EncSeq(der.EncSeq(der.EncOctets(ch[:]), issuerSerial)))))
		}
	}
	signedAttrs := der.EncContext(0, true, der.Cat(der.SortDER(attrs)...))
	tbs := append([]byte{0x31}, signedAttrs[1:]...)
	if s.emitReversed {
		sorted := der.SortDER(attrs)
		rev := make([][]byte, len(sorted))
		for i := range sorted {
			rev[len(sorted)-1-i] = sorted[i]
		}
		signedAttrs = der.EncContext(0, true, der.Cat(rev...))
	}
	rnd := a.Rand
	if rnd == nil {
		rnd = rand.Reader
	}
	sig, err := a.Key.Sign(rnd, sum(h, tbs), h)
	if err != nil {
		return nil, fmt.Errorf("tsa: signing: %w", err)
	}
	if s.flipSig {
		sig = append([]byte(nil), sig...)
		sig[len(sig)-1] ^= 0x01
	}
	si := der.EncSeq(
		der.EncInt64(1),
		der.EncSeq(a.Cert.RawIssuer, der.EncInt(a.Cert.SerialNumber)),
		digestAlg, signedAttrs, sigAlg, der.EncOctets(sig))
	var certs []byte
	if s.includeCerts {
		all := a.Cert.Raw
		for _, c := range a.Chain {
			all = der.Cat(all, c.Raw)
		}
		certs = der.EncContext(0, true, all)
	}
	version := int64(3) // eContentType other than id-data => version 3 (RFC 5652 §5.1)
	if s.contentType == der.OIDData {
		version = 1
	}
	content := s.content
	if s.emitContent != nil {
		content = s.emitContent
	}
	sd := der.EncSeq(
		der.EncInt64(version),
		der.EncSet(digestAlg),
		der.EncSeq(der.EncOID(s.contentType), der.EncExplicit(0, der.EncOctets(content))),
		certs,
		der.EncSet(si))
	return der.EncSeq(der.EncOID(der.OIDSignedData), der.EncExplicit(0, sd)), nil
}

func statusInfo(status int, text string, failBit int) []byte {
	parts := [][]byte{der.EncInt64(int64(status))}
	if text != "" {
		parts = append(parts, der.EncSeq(der.EncUTF8(text)))
	}
	if failBit >= 0 {
		// BIT STRING with the named bit set and minimal length (DER).
		n := failBit/8 + 1
		b := make([]byte, n)
		b[failBit/8] = 0x80 >> uint(failBit%8)
		parts = append(parts, der.EncBitString(b, 7-failBit%8))
	}
	return der.EncSeq(parts...)
}

func wrongAlg(oid asn1.ObjectIdentifier) string {
	if oid.String() == der.OIDSHA256 {
		return der.OIDSHA384
	}
	return der.OIDSHA256
}

// tstInfo builds the TSTInfo for req under behaviour b.
func (a *Authority) tstInfo(req *Request, b Behaviour, serial *big.Int) []byte {
	algID := req.AlgRaw
	imprint := req.Imprint
	nonce := req.Nonce
	switch b {
	case WrongNonce:
		if nonce == nil {
			nonce = big.NewInt(0x5eed)
		} else {
			nonce = new(big.Int).Add(nonce, big.NewInt(1))
		}
	case OmitNonce:
		nonce = nil
	case WrongImprint:
		imprint = append([]byte(nil), imprint...)
		if len(imprint) == 0 {
			imprint = []byte{0}
		}
		imprint[0] ^= 0xff
	case WrongImprintAlg:
		algID = der.EncAlgID(wrongAlg(req.ImprintAlg), der.EncNull())
	}
	policy := a.Policy
	if len(req.Policy) != 0 {
		policy = req.Policy
	}
	if len(policy) == 0 {
		policy = defaultPolicy
	}
	parts := [][]byte{
		der.EncInt64(1),
		der.EncOID(policy.String()),
		der.EncSeq(algID, der.EncOctets(imprint)),
		der.EncInt(serial),
		der.EncGeneralizedTime(a.now()),
		der.EncSeq(der.EncInt64(1)), // accuracy: 1 second
	}
	if nonce != nil {
		parts = append(parts, der.EncInt(nonce))
	}
	return der.EncSeq(parts...)
}

// Token issues a valid TimeStampToken (ContentInfo) directly, bypassing the
// request/response framing.
func (a *Authority) Token(hash crypto.Hash, imprint []byte, nonce *big.Int, certReq bool) ([]byte, error) {
	reqDER, err := MarshalRequest(hash, imprint, nonce, certReq)
	if err != nil {
		return nil, err
	}
	req, err := ParseRequest(reqDER)
	if err != nil {
		return nil, err
	}
	tok, _, err := a.token(req, Valid)
	return tok, err
}

func (a *Authority) token(req *Request, b Behaviour) ([]byte, *big.Int, error) {
	serial := a.nextSerial()
	spec := cmsSpec{
		contentType:  der.OIDTSTInfo,
		content:      a.tstInfo(req, b, serial),
		signingCert:  a.AddSigningCertAttr,
		includeCerts: a.IncludeCerts && req.CertReq,
		flipSig:      b == BadTokenSignature,
		dupDigest:    b == DuplicateDigestAttr,
		emitReversed: b == AttrsSignedSorted,
	}
	if b == ContentSwapped {
		spec.emitContent = a.tstInfo(req, b, new(big.Int).Add(serial, big.NewInt(1000)))
	}
	tok, err := a.signCMS(spec)
	return tok, serial, err
}

// garbage is deliberately not a TLV: tag 0xff 0xff... never terminates.
var garbage = []byte("\xff\xff\xff\xff this is not DER \xff\xff\xff\xff")

type outcome struct {
	status      int
	contentType string
	body        []byte
	serial      *big.Int
	req         *Request
	parseErr    error
}

// Respond answers one DER TimeStampReq according to b. It returns the HTTP
// status, media type and body the handler would send. Hang answers like
// Valid (only the HTTP handler blocks); legacy behaviours are mapped to
// their RFC 3161 counterpart (MSValid→Valid, MSWrongContent→WrongImprint,
// MSBadSignature→BadTokenSignature, MSGarbage→Garbage, MSHTTP500→HTTP500).
// An unparsable request is answered with PKIStatus rejection/badDataFormat
// unless b dictates an answer that does not depend on the request.
func (a *Authority) Respond(reqDER []byte, b Behaviour) (status int, contentType string, body []byte) {
	o := a.respond(reqDER, b)
	return o.status, o.contentType, o.body
}

func toRFC(b Behaviour) Behaviour {
	switch b {
	case MSValid, Hang:
		return Valid
	case MSWrongContent:
		return WrongImprint
	case MSBadSignature:
		return BadTokenSignature
	case MSGarbage:
		return Garbage
	case MSHTTP500:
		return HTTP500
	}
	return b
}

func (a *Authority) respond(reqDER []byte, b Behaviour) outcome {
	b = toRFC(b)
	o := outcome{status: http.StatusOK, contentType: ContentTypeReply}
	o.req, o.parseErr = ParseRequest(reqDER)
	switch b {
	case HTTP500:
		return outcome{status: http.StatusInternalServerError, contentType: "text/plain; charset=utf-8",
			body: []byte("internal timestamping error\n"), req: o.req, parseErr: o.parseErr}
	case Garbage:
		o.body = garbage
		return o
	case StatusRejection:
		o.body = der.EncSeq(statusInfo(2, "request rejected by script", 0))
		return o
	case StatusWaiting:
		o.body = der.EncSeq(statusInfo(3, "", -1))
		return o
	case GrantedNoToken:
		o.body = der.EncSeq(statusInfo(0, "", -1))
		return o
	}
	if o.parseErr != nil {
		o.body = der.EncSeq(statusInfo(2, o.parseErr.Error(), 5)) // badDataFormat
		return o
	}
	if _, ok := der.HashByOID(o.req.ImprintAlg.String()); !ok {
		o.body = der.EncSeq(statusInfo(2, "unsupported hash algorithm", 0)) // badAlg
		o.parseErr = fmt.Errorf("tsa: unsupported imprint algorithm %v", o.req.ImprintAlg)
		return o
	}
	tok, serial, err := a.token(o.req, b)
	if err != nil {
		return outcome{status: http.StatusInternalServerError, contentType: "text/plain; charset=utf-8",
			body: []byte(err.Error()), req: o.req, parseErr: err}
	}
	o.serial = serial
	st := 0
	if b == GrantedWithMods {
		st = 1
	}
	o.body = der.EncSeq(statusInfo(st, "", -1), tok)
	if b == RejectionWithToken {
		o.body = der.EncSeq(statusInfo(2, "request rejected by script (token attached nevertheless)", 0), tok)
	}
	switch b {
	case Truncated:
		o.body = o.body[:len(o.body)/2]
	case WrongContentType:
		o.contentType = "text/plain"
	}
	return o
}

// --- legacy Microsoft protocol ----------------------------------------------

// ParseMSRequest decodes a legacy Authenticode TimeStampRequest. The protocol
// specifies a base64 body; raw DER is accepted too and reported through
// wasBase64=false.
func ParseMSRequest(body []byte) (content []byte, wasBase64 bool, err error) {
	trimmed := strings.TrimRight(strings.TrimSpace(string(body)), "\x00")
	if raw, derr := base64.StdEncoding.DecodeString(trimmed); derr == nil && len(raw) > 0 {
		if content, err = parseMSRequestDER(raw); err == nil {
			return content, true, nil
		}
	}
	content, err = parseMSRequestDER(body)
	return content, false, err
}

func parseMSRequestDER(b []byte) ([]byte, error) {
	top, err := der.ParseAll(b)
	if err != nil {
		return nil, fmt.Errorf("tsa: legacy request: %w", err)
	}
	k, err := top.Children()
	if err != nil || !top.IsUniversal(der.TagSequence) || len(k) < 2 {
		return nil, errors.New("tsa: legacy request is not SEQUENCE { OID, ..., ContentInfo }")
	}
	oid, err := k[0].OID()
	if err != nil || oid != der.OIDSpcTimeStampRequest {
		return nil, fmt.Errorf("tsa: legacy request type %q, want %s", oid, der.OIDSpcTimeStampRequest)
	}
	ci, err := k[len(k)-1].Children()
	if err != nil || len(ci) != 2 {
		return nil, errors.New("tsa: legacy request content is not ContentInfo")
	}
	if ct, err := ci[0].OID(); err != nil || ct != der.OIDData {
		return nil, fmt.Errorf("tsa: legacy request content type %q is not id-data", ct)
	}
	in, err := ci[1].Children()
	if err != nil || !ci[1].IsContext(0) || len(in) != 1 {
		return nil, errors.New("tsa: legacy request content lacks [0] EXPLICIT OCTET STRING")
	}
	return in[0].OctetString()
}

// MarshalMSRequest builds the base64 legacy request for signature.
func MarshalMSRequest(signature []byte) []byte {
	raw := der.EncSeq(der.EncOID(der.OIDSpcTimeStampRequest),
		der.EncSeq(der.EncOID(der.OIDData), der.EncExplicit(0, der.EncOctets(signature))))
	return []byte(base64.StdEncoding.EncodeToString(raw))
}

func toMS(b Behaviour) Behaviour {
	switch b {
	case Valid, Hang, GrantedWithMods:
		return MSValid
	case WrongImprint, WrongImprintAlg, WrongNonce, OmitNonce:
		return MSWrongContent
	case BadTokenSignature:
		return MSBadSignature
	case Garbage, Truncated, GrantedNoToken:
		return MSGarbage
	case HTTP500, StatusRejection, StatusWaiting:
		return MSHTTP500
	}
	return b
}

// RespondMS answers one legacy request body. RFC 3161 behaviours are mapped
// to the closest legacy one (Valid/Hang/GrantedWithMods→MSValid, imprint and
// nonce faults→MSWrongContent, BadTokenSignature→MSBadSignature,
// Garbage/Truncated/GrantedNoToken→MSGarbage, the rest→MSHTTP500).
func (a *Authority) RespondMS(reqBody []byte, b Behaviour) (status int, contentType string, body []byte) {
	o, _, _ := a.respondMS(reqBody, b)
	return o.status, o.contentType, o.body
}

func (a *Authority) respondMS(reqBody []byte, b Behaviour) (o outcome, content []byte, wasB64 bool) {
	b = toMS(b)
	fail := func(code int, msg string) outcome {
		return outcome{status: code, contentType: "text/plain; charset=utf-8", body: []byte(msg + "\n")}
	}
	content, wasB64, err := ParseMSRequest(reqBody)
	switch b {
	case MSHTTP500:
		o = fail(http.StatusInternalServerError, "internal timestamping error")
		o.parseErr = err
		return o, content, wasB64
	case MSGarbage:
		return outcome{status: 200, contentType: ContentTypeMS, parseErr: err,
			body: []byte(base64.StdEncoding.EncodeToString(garbage))}, content, wasB64
	}
	if err != nil {
		o = fail(http.StatusBadRequest, err.Error())
		o.parseErr = err
		return o, content, wasB64
	}
	signed := content
	if b == MSWrongContent {
		signed = append([]byte(nil), content...)
		if len(signed) == 0 {
			signed = []byte{0}
		}
		signed[0] ^= 0xff
	}
	p7, err := a.signCMS(cmsSpec{contentType: der.OIDData, content: signed, includeCerts: true, flipSig: b == MSBadSignature})
	if err != nil {
		o = fail(http.StatusInternalServerError, err.Error())
		o.parseErr = err
		return o, content, wasB64
	}
	enc := base64.StdEncoding.EncodeToString(p7)
	if a.MSBase64Columns > 0 {
		var sb strings.Builder
		for len(enc) > a.MSBase64Columns {
			sb.WriteString(enc[:a.MSBase64Columns] + "\r\n")
			enc = enc[a.MSBase64Columns:]
		}
		sb.WriteString(enc + "\r\n")
		enc = sb.String()
	}
	return outcome{status: 200, contentType: ContentTypeMS, body: []byte(enc)}, content, wasB64
}

// --- HTTP --------------------------------------------------------------------

// Requests returns a copy of the request log of both handlers.
func (a *Authority) Requests() []Recorded {
	a.mu.Lock()
	defer a.mu.Unlock()
	return append([]Recorded(nil), a.reqs...)
}

// ResetRequests clears the log and the request counter (not the serials).
func (a *Authority) ResetRequests() {
	a.mu.Lock()
	defer a.mu.Unlock()
	a.reqs, a.count = nil, 0
}

// ReleaseHangs unblocks every request currently (or in future) stuck in the
// Hang behaviour; they are then answered as Valid.
func (a *Authority) ReleaseHangs() {
	a.mu.Lock()
	defer a.mu.Unlock()
	if a.release == nil {
		a.release = make(chan struct{})
	}
	select {
	case <-a.release:
	default:
		close(a.release)
	}
}

func (a *Authority) begin() (n int, release <-chan struct{}) {
	a.mu.Lock()
	defer a.mu.Unlock()
	if a.release == nil {
		a.release = make(chan struct{})
	}
	n = a.count
	a.count++
	return n, a.release
}

func (a *Authority) record(r Recorded) {
	a.mu.Lock()
	defer a.mu.Unlock()
	a.reqs = append(a.reqs, r)
}

// hang blocks as the Hang behaviour prescribes; it reports false when the
// client went away and nothing should be written.
func (a *Authority) hang(r *http.Request, release <-chan struct{}) bool {
	var timer <-chan time.Time
	if a.HangDuration > 0 {
		t := time.NewTimer(a.HangDuration)
		defer t.Stop()
		timer = t.C
	}
	select {
	case <-r.Context().Done():
		return false
	case <-timer:
		return true
	case <-release:
		return true
	}
}

// Handler serves RFC 3161 over HTTP (RFC 3161 §3.4). script chooses the
// behaviour for the n-th request (0-based, counted per authority across
// Handler and MSHandler); a nil script means always Valid.
func (a *Authority) Handler(script func(n int, path string) Behaviour) http.Handler {
	return a.handler(script, false)
}

// MSHandler serves the legacy Authenticode timestamp protocol; a nil script
// means always MSValid.
func (a *Authority) MSHandler(script func(n int, path string) Behaviour) http.Handler {
	return a.handler(script, true)
}

func (a *Authority) handler(script func(n int, path string) Behaviour, legacy bool) http.Handler {
	return http.HandlerFunc(func(w http.ResponseWriter, r *http.Request) {
		n, release := a.begin()
		body, _ := io.ReadAll(io.LimitReader(r.Body, 1<<20))
		b := Valid
		if legacy {
			b = MSValid
		}
		if script != nil {
			b = script(n, r.URL.Path)
		}
		rec := Recorded{N: n, Path: r.URL.Path, Method: r.Method, ContentType: r.Header.Get("Content-Type"),
			Behaviour: b, Legacy: legacy, Body: body}
		var o outcome
		if legacy {
			o, rec.MSContent, rec.MSBase64 = a.respondMS(body, b)
		} else {
			o = a.respond(body, b)
			if o.req != nil {
				rec.Nonce, rec.ImprintAlg, rec.Imprint = o.req.Nonce, o.req.ImprintAlg.String(), o.req.Imprint
				rec.CertReq, rec.Serial = o.req.CertReq, o.serial
				if len(o.req.Policy) != 0 {
					rec.ReqPolicy = o.req.Policy.String()
				}
			}
		}
		if o.parseErr != nil {
			rec.ParseError = o.parseErr.Error()
		}
		if b == Hang && !a.hang(r, release) {
			a.record(rec)
			// Client is gone; drop the connection without an answer.
			panic(http.ErrAbortHandler)
		}
		rec.Status, rec.ResponseBody = o.status, o.body
		a.record(rec)
		w.Header().Set("Content-Type", o.contentType)
		w.Header().Set("Content-Length", fmt.Sprint(len(o.body)))
		w.WriteHeader(o.status)
		w.Write(o.body)
	})
}

// ExtractToken pulls the timeStampToken out of a DER TimeStampResp and
// returns the PKIStatus; token is nil when absent.
func ExtractToken(resp []byte) (status int, token []byte, err error) {
	top, err := der.ParseAll(resp)
	if err != nil {
		return 0, nil, err
	}
	k, err := top.Children()
	if err != nil || len(k) < 1 || len(k) > 2 {
		return 0, nil, errors.New("tsa: TimeStampResp is not SEQUENCE { status, token OPTIONAL }")
	}
	sk, err := k[0].Children()
	if err != nil || len(sk) < 1 {
		return 0, nil, errors.New("tsa: malformed PKIStatusInfo")
	}
	if status, err = sk[0].SmallInt(); err != nil {
		return 0, nil, err
	}
	if len(k) == 2 {
		token = bytes.Clone(k[1].Raw)
	}
	return status, token, nil
}
