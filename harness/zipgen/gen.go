package zipgen

import (
	"bytes"
	"encoding/binary"
	"fmt"
	"strconv"
	"strings"
	"unicode/utf8"

	"pgregory.net/rapid"
)

// uniform draws an (almost exactly) uniformly distributed int in [0,n),
// n <= 256, from eight unbiased bits. rapid's integer generators are heavily
// biased towards small values and bounds, which is unsuitable for class
// switches with advertised probabilities. The minimal (shrunk) draw is 0.
func uniform(t *rapid.T, n int, label string) int {
	v := 0
	for i := 7; i >= 0; i-- {
		if rapid.Bool().Draw(t, label) {
			v |= 1 << i
		}
	}
	return v * n / 256
}

// chance draws a boolean that is true with probability pct/100. The minimal
// (shrunk) draw is false.
func chance(t *rapid.T, pct int, label string) bool {
	return uniform(t, 100, label) >= 100-pct
}

// pick selects a slice element uniformly.
func pick[E any](t *rapid.T, s []E, label string) E {
	return s[uniform(t, len(s), label)]
}

// scramble turns a (typically small, because rapid is biased) seed into a
// well mixed non-zero xorshift state.
func scramble(seed uint32) uint32 {
	x := (seed+1)*0x9E3779B1 ^ 0x85EBCA6B
	x ^= x >> 15
	x *= 0x2C1B3C6D
	x ^= x >> 12
	if x == 0 {
		x = 1
	}
	return x
}

// fill produces n deterministic bytes of the given kind from seed (a private
// xorshift generator: no math/rand).
//
//	0 zeros, 1 repeating text (very compressible), 2 pseudo-random
//	(incompressible: deflate emits stored blocks), 3 random with long runs
func fill(kind int, seed uint32, n int) []byte {
	out := make([]byte, n)
	x := scramble(seed)
	next := func() uint32 {
		x ^= x << 13
		x ^= x >> 17
		x ^= x << 5
		return x
	}
	switch kind {
	case 0:
	case 1:
		const text = "Manifest-Version: 1.0\r\nCreated-By: zipgen\r\nName: com/example/Foo.class\r\nSHA-256-Digest: "
		o := int(seed % uint32(len(text)))
		for i := range out {
			out[i] = text[(o+i)%len(text)]
		}
	case 2:
		for i := range out {
			out[i] = byte(next() >> 11)
		}
	default:
		for i := 0; i < n; {
			v := next()
			run := 1 + int(v>>8)%37
			if v&1 == 0 {
				run = 1
			}
			for j := 0; j < run && i < n; j++ {
				out[i] = byte(v >> 16)
				i++
			}
		}
	}
	return out
}

const segAlphabet = "abcdefghijklmnopqrstuvwxyzABCDEFGHIJKLMNOPQRSTUVWXYZ0123456789._-+$ ()"

var wellKnownNames = []string{
	"META-INF/MANIFEST.MF", "META-INF/CERT.SF", "META-INF/CERT.RSA",
	"AndroidManifest.xml", "classes.dex", "resources.arsc",
	"[Content_Types].xml", "AppxManifest.xml", "AppxBlockMap.xml",
	"extension.vsixmanifest", "AppManifest.xaml", "mimetype",
}

var utf8Runes = []rune("aZ09._éüßñЖжΩλ日本語한글😀🎉 -")

func genSegment(t *rapid.T, minLen, maxLen int) string {
	n := rapid.IntRange(minLen, maxLen).Draw(t, "seglen")
	rnd := fill(2, rapid.Uint32().Draw(t, "segseed"), n)
	var sb strings.Builder
	for i := 0; i < n; i++ {
		sb.WriteByte(segAlphabet[int(rnd[i])%len(segAlphabet)])
	}
	s := sb.String()
	if s == "." || s == ".." {
		s = "d" + s
	}
	return s
}

func genPath(t *rapid.T, minSegs, maxSegs int) string {
	n := rapid.IntRange(minSegs, maxSegs).Draw(t, "nsegs")
	segs := make([]string, n)
	for i := range segs {
		segs[i] = genSegment(t, 1, 12)
	}
	return strings.Join(segs, "/")
}

type genState struct {
	used     map[string]struct{} // membership tests only, never iterated
	bigLeft  int                 // remaining members allowed to be ~64 KiB
	hugeName bool                // a 65535-byte name was already produced
}

// genName returns a fresh name (without the trailing "/" of directories) and
// whether bit 11 should be set.
func genName(t *rapid.T, st *genState, idx int, isDir bool) (string, bool) {
	var name string
	utf := false
	c := uniform(t, 100, "nameclass")
	switch {
	case c < 47:
		name = genSegment(t, 1, 12)
	case c < 75:
		name = genPath(t, 2, 5)
	case c < 81:
		if isDir {
			name = "META-INF"
		} else {
			name = pick(t, wellKnownNames, "wellknown")
		}
	case c < 91: // UTF-8 with bit 11
		n := rapid.IntRange(1, 12).Draw(t, "nrunes")
		var sb strings.Builder
		if chance(t, 30, "utf8dir") {
			sb.WriteString("dir/")
		}
		for i := 0; i < n; i++ {
			sb.WriteRune(pick(t, utf8Runes, "rune"))
		}
		name = sb.String()
		utf = true
	case c < 93: // high bytes without bit 11 (readers assume cp437)
		n := rapid.IntRange(1, 8).Draw(t, "nhigh")
		b := []byte("hi_")
		for i := 0; i < n; i++ {
			b = append(b, byte(0x80+uniform(t, 0x80, "highbyte")))
		}
		name = string(b)
	case c < 97: // long: 256..296 bytes (room for a uniqueness suffix within 300)
		n := rapid.IntRange(256, 296).Draw(t, "longlen")
		p := genPath(t, 1, 3)
		name = p + "/" + strings.Repeat("L", n)
		name = name[:n]
	case c < 98 && !st.hugeName: // 65535 bytes, at most once per archive
		st.hugeName = true
		n := 0xFFFF
		if isDir {
			n--
		}
		var sb strings.Builder
		for i := 0; sb.Len() < n; i++ {
			sb.WriteString("seg")
			sb.WriteString(strconv.Itoa(i))
			sb.WriteByte('/')
		}
		name = sb.String()[:n-1] + "x"
	default:
		name = genSegment(t, 1, 1)
	}
	// bit 11 on a pure ASCII name is legal and some writers always set it
	if !utf && c < 81 && chance(t, 5, "asciiutf8") {
		utf = true
	}
	key := func(n string) string {
		if isDir {
			return n + "/"
		}
		return n
	}
	if _, dup := st.used[key(name)]; dup {
		name = name + "~" + strconv.Itoa(idx)
		for _, dup := st.used[key(name)]; dup; _, dup = st.used[key(name)] {
			name += "_"
		}
	}
	st.used[key(name)] = struct{}{}
	return name, utf
}

func genText(t *rapid.T, minLen, maxLen int, label string) string {
	const words = "signed by relic; build 42 / release-candidate (c) Example Corp. ~!@#%^&*=|<>?"
	n := rapid.IntRange(minLen, maxLen).Draw(t, label)
	o := rapid.IntRange(0, len(words)-1).Draw(t, label+"off")
	var sb strings.Builder
	for i := 0; i < n; i++ {
		sb.WriteByte(words[(o+i)%len(words)])
	}
	return sb.String()
}

// genExtra produces 1..3 well-formed extra records suitable for either header.
func genExtra(t *rapid.T, local bool) []byte {
	var out []byte
	n := rapid.IntRange(1, 3).Draw(t, "nextra")
	for i := 0; i < n; i++ {
		switch uniform(t, 6, "extrakind") {
		case 0: // JAR magic
			out = append(out, ExtraRecord(0xCAFE, nil)...)
		case 1: // extended timestamp: flags(mtime) + mtime
			d := make([]byte, 5)
			d[0] = 1
			binary.LittleEndian.PutUint32(d[1:], rapid.Uint32Range(0, 0x7FFFFFFF).Draw(t, "mtime"))
			out = append(out, ExtraRecord(0x5455, d)...)
		case 2: // zipalign-style padding record: alignment + zero padding
			pad := rapid.IntRange(0, 9).Draw(t, "alignpad")
			d := make([]byte, 2+pad)
			d[0] = 4
			out = append(out, ExtraRecord(0xD935, d)...)
		case 3: // Info-ZIP new unix: version, uid size, uid, gid size, gid
			if local {
				out = append(out, ExtraRecord(0x7875, []byte{1, 4, 0xe8, 3, 0, 0, 4, 0xe8, 3, 0, 0})...)
			} else {
				out = append(out, ExtraRecord(0x7875, nil)...)
			}
		default: // unknown id, arbitrary payload
			id := uint16(rapid.IntRange(0x8000, 0xFFFE).Draw(t, "extraid"))
			ln := rapid.IntRange(0, 24).Draw(t, "extralen")
			out = append(out, ExtraRecord(id, fill(2, rapid.Uint32().Draw(t, "extraseed"), ln))...)
		}
	}
	return out
}

func genGap(t *rapid.T) []byte {
	n := rapid.IntRange(1, 64).Draw(t, "gaplen")
	kind := pick(t, []int{0, 2, 2, 3}, "gapkind")
	return fill(kind, rapid.Uint32().Draw(t, "gapseed"), n)
}

func genMember(t *rapid.T, st *genState, idx int) Member {
	var m Member
	m.IsDir = chance(t, 8, "isdir")
	name, utf := genName(t, st, idx, m.IsDir)
	m.UTF8 = utf
	if m.IsDir {
		m.Name = name + "/"
		// the Java jar tool is known to deflate directory entries
		if chance(t, 10, "dirdeflate") {
			m.Method = MethodDeflate
			m.DeflateLevel = -1
		}
	} else {
		m.Name = name
		size := 0
		c := uniform(t, 100, "sizeclass")
		switch {
		case c < 15:
			size = 0
		case c < 28:
			size = 1
		case c < 70:
			size = rapid.IntRange(2, 100).Draw(t, "size")
		case c < 88:
			size = rapid.IntRange(101, 5000).Draw(t, "size")
		case c < 94:
			if st.bigLeft > 0 {
				st.bigLeft--
				size = pick(t, []int{65535, 65536, 65537}, "bigsize")
			} else {
				size = 100
			}
		default:
			size = rapid.IntRange(5001, 20000).Draw(t, "size")
		}
		m.Data = fill(uniform(t, 4, "datakind"), rapid.Uint32().Draw(t, "dataseed"), size)
		if chance(t, 55, "deflate") {
			m.Method = MethodDeflate
			m.DeflateLevel = pick(t, []int{-1, 9, 6, 1, 0, -2}, "level")
			if chance(t, 10, "deflateflags") {
				m.Flags = uint16(pick(t, []int{2, 4, 6}, "flagbits"))
			}
		}
	}
	if chance(t, 40, "desc") {
		m.Descriptor = pick(t, []DescKind{Desc32Sig, Desc32NoSig, Desc64Sig, Desc64NoSig}, "desckind")
	}

	m.VersionNeeded = 10
	if m.Method == MethodDeflate || m.IsDir {
		m.VersionNeeded = 20
	}
	if m.Descriptor == Desc64Sig || m.Descriptor == Desc64NoSig {
		m.VersionNeeded = 45
	}
	unix := chance(t, 50, "unix")
	if unix {
		m.VersionMadeBy = 3<<8 | uint16(pick(t, []int{20, 30, 45, 63}, "madeby"))
		mode := uint32(0100644)
		if m.IsDir {
			mode = 040755
		}
		m.ExternalAttrs = mode << 16
		if m.IsDir {
			m.ExternalAttrs |= 0x10
		}
	} else {
		m.VersionMadeBy = uint16(pick(t, []int{10, 20, 45}, "madeby"))
		if m.IsDir {
			m.ExternalAttrs = 0x10
		} else if chance(t, 50, "archivebit") {
			m.ExternalAttrs = 0x20
		}
	}
	if chance(t, 20, "textattr") {
		m.InternalAttrs = 1
	}
	if chance(t, 70, "realtime") {
		y := rapid.IntRange(0, 127).Draw(t, "year")
		mo := rapid.IntRange(1, 12).Draw(t, "month")
		d := rapid.IntRange(1, 28).Draw(t, "day")
		m.ModDate = uint16(y<<9 | mo<<5 | d)
		h := rapid.IntRange(0, 23).Draw(t, "hour")
		mi := rapid.IntRange(0, 59).Draw(t, "min")
		s := rapid.IntRange(0, 29).Draw(t, "sec2")
		m.ModTime = uint16(h<<11 | mi<<5 | s)
	} else {
		m.ModDate = 1<<5 | 1 // 1980-01-01
	}
	if chance(t, 25, "extras") {
		switch uniform(t, 4, "extrawhere") {
		case 0:
			m.ExtraLocal = genExtra(t, true)
		case 1:
			m.ExtraCentral = genExtra(t, false)
		case 2:
			m.ExtraLocal = genExtra(t, true)
			m.ExtraCentral = genExtra(t, false)
		default:
			m.ExtraLocal = genExtra(t, false)
			m.ExtraCentral = m.ExtraLocal
		}
	}
	if chance(t, 12, "mcomment") {
		m.Comment = genText(t, 1, 40, "mcommentlen")
	}
	return m
}

// Gen draws an archive specification. Everything it produces satisfies
// Standard(): Go's archive/zip and CPython's zipfile list and extract it
// exactly as laid out.
func Gen(t *rapid.T) *Spec {
	s := &Spec{}
	n := 0
	c := uniform(t, 100, "countclass")
	switch {
	case c < 5:
		n = 0
	case c < 80:
		n = 1 + uniform(t, 6, "count")
	default:
		n = rapid.IntRange(7, 20).Draw(t, "count")
	}
	st := &genState{used: make(map[string]struct{}), bigLeft: 2}
	for i := 0; i < n; i++ {
		s.Members = append(s.Members, genMember(t, st, i))
	}

	// Archive-wide feature switches. A switched-on per-member feature hits
	// each member with probability 1/2 and at least one member.
	spread := func(pct int, label string, apply func(m *Member)) {
		if n == 0 || !chance(t, pct, label) {
			return
		}
		hit := false
		for i := range s.Members {
			if chance(t, 50, label+"member") {
				apply(&s.Members[i])
				hit = true
			}
		}
		if !hit {
			apply(&s.Members[rapid.IntRange(0, n-1).Draw(t, label+"pick")])
		}
	}
	spread(10, "zip64local", func(m *Member) {
		m.Zip64Local = true
		m.VersionNeeded = 45
	})
	spread(10, "zip64central", func(m *Member) {
		m.Zip64Central = true
		m.VersionNeeded = 45
	})
	for i := range s.Members {
		m := &s.Members[i]
		if (m.Zip64Local || m.Zip64Central) && chance(t, 30, "zip64extralast") {
			m.Zip64ExtraLast = true
		}
	}
	// one member whose local header (30 + name + extra) ends around 64 KiB: the length
	// fields are 16 bits wide each, their sum is not
	if n > 0 && chance(t, 5, "hugeextra") {
		m := &s.Members[rapid.IntRange(0, n-1).Draw(t, "hugeextrapick")]
		forced := 0
		if m.Zip64Local {
			forced = 20
		}
		target := pick(t, []int{65535, 65536, 65537, 65600, 30 + len(m.Name) + 65535}, "hugeextratarget")
		el := target - 30 - len(m.Name) - forced
		if el+forced > 65535 {
			el = 65535 - forced
		}
		if el >= 4 {
			m.ExtraLocal = ExtraRecord(0x9901, fill(2, rapid.Uint32().Draw(t, "hugeextraseed"), el-4))
		}
	}
	if chance(t, 10, "gaps") {
		hit := false
		for i := range s.Members {
			if chance(t, 40, "gapmember") {
				s.Members[i].GapBefore = genGap(t)
				hit = true
			}
		}
		if !hit || chance(t, 50, "gapcd") {
			s.GapBeforeCD = genGap(t)
		}
	}
	if chance(t, 10, "prefix") {
		if chance(t, 50, "prefixscript") {
			s.Prefix = []byte("#!/bin/sh\nexec java -jar \"$0\" \"$@\"\n")
		} else {
			ln := rapid.IntRange(64, 600).Draw(t, "prefixlen")
			s.Prefix = append([]byte("MZ"), fill(3, rapid.Uint32().Draw(t, "prefixseed"), ln)...)
		}
	}
	if chance(t, 10, "zip64eocd") {
		s.Zip64EOCD = true
		s.Zip64Saturate = chance(t, 50, "zip64saturate")
	}
	if chance(t, 10, "acomment") {
		if chance(t, 15, "acommentlong") {
			// longer than the 1 KiB tail some readers scan first
			s.ArchiveComment = genText(t, 1100, 3000, "acommentlen")
		} else {
			s.ArchiveComment = genText(t, 1, 60, "acommentlen")
		}
	}
	if n >= 2 && chance(t, 5, "cdperm") {
		ids := make([]int, n)
		for i := range ids {
			ids[i] = i
		}
		s.CDOrder = rapid.Permutation(ids).Draw(t, "cdorder")
	}
	return s
}

// LongNameMin is the name length from which Classes reports "longname".
const LongNameMin = 256

// AllClasses lists every label Classes can return.
var AllClasses = []string{
	"empty", "desc32sig", "desc32nosig", "desc64sig", "desc64nosig",
	"zip64local", "zip64central", "zip64eocd", "extra", "mcomment",
	"acomment", "prefix", "gap", "cdperm", "dir", "deflate", "stored",
	"zerolen", "utf8", "longname", "hugeextra",
}

// Classes returns the shape labels that apply to the spec, in AllClasses order.
func (s *Spec) Classes() []string {
	set := make(map[string]bool)
	if len(s.Members) == 0 {
		set["empty"] = true
	}
	for i := range s.Members {
		m := &s.Members[i]
		if m.Descriptor != DescNone {
			set[m.Descriptor.String()] = true
		}
		set["zip64local"] = set["zip64local"] || m.Zip64Local
		set["zip64central"] = set["zip64central"] || m.Zip64Central
		set["extra"] = set["extra"] || len(m.ExtraLocal) > 0 || len(m.ExtraCentral) > 0
		set["mcomment"] = set["mcomment"] || m.Comment != ""
		set["gap"] = set["gap"] || len(m.GapBefore) > 0
		set["dir"] = set["dir"] || m.IsDir
		set["deflate"] = set["deflate"] || m.Method == MethodDeflate
		set["stored"] = set["stored"] || m.Method == MethodStore
		set["zerolen"] = set["zerolen"] || (!m.IsDir && len(m.Data) == 0)
		set["utf8"] = set["utf8"] || m.UTF8
		set["longname"] = set["longname"] || len(m.Name) >= LongNameMin
		set["hugeextra"] = set["hugeextra"] || len(m.ExtraLocal) >= 60000
	}
	set["zip64eocd"] = s.Zip64EOCD
	set["acomment"] = s.ArchiveComment != ""
	set["prefix"] = len(s.Prefix) > 0
	set["gap"] = set["gap"] || len(s.GapBeforeCD) > 0
	for k, idx := range s.CDOrder {
		if k != idx {
			set["cdperm"] = true
		}
	}
	var out []string
	for _, c := range AllClasses {
		if set[c] {
			out = append(out, c)
		}
	}
	return out
}

// extraWellFormed reports whether b is a sequence of complete (id,len,data)
// records and whether one of them has the ZIP64 id.
func extraWellFormed(b []byte) (ok, hasZip64 bool) {
	for len(b) > 0 {
		if len(b) < 4 {
			return false, hasZip64
		}
		id := binary.LittleEndian.Uint16(b)
		ln := int(binary.LittleEndian.Uint16(b[2:]))
		if 4+ln > len(b) {
			return false, hasZip64
		}
		if id == Zip64ExtraID {
			hasZip64 = true
		}
		b = b[4+ln:]
	}
	return true, hasZip64
}

// Notes explains how the archive relates to what Go's archive/zip (1.23) and
// CPython's zipfile (3.11) accept. Each note starts with one of
//
//	"reject-go: "  zip.NewReader or File.Open fails / disagrees with Layout
//	"reject-py: "  zipfile.ZipFile, ZipFile.open or the listing fails / disagrees
//	"info: "       legal or tolerated deviation that both readers cope with
//
// Verified by TestNotesAreAccurate. Findings about what is accepted:
//
//   - All four descriptor kinds are accepted by both, in any combination with
//     Zip64Local/Zip64Central: Python never reads descriptors (it trusts the
//     central directory); Go reads only [optional signature] + crc32 and
//     compares the crc with the central directory, ignoring the size fields
//     and therefore their width.
//   - Neither reader looks at crc/sizes/extra of the local header (Go reads
//     only the signature and the two length fields; Python additionally
//     compares the local name with the central name), so Zip64Local is
//     invisible to them.
//   - Prefix with absolute offsets: both accept (Go computes baseOffset 0,
//     Python "concat" 0). GapBefore/GapBeforeCD likewise.
//   - Zip64EOCD without Zip64Saturate: Python uses the ZIP64 record whenever
//     the locator is present; Go ignores it unless a classic field is
//     saturated, then finds 76 unexplained bytes, derives baseOffset 76, but
//     falls back to 0 because a central header is found at the stated
//     offset. For an archive with no members that probe fails, Go keeps
//     baseOffset 76 and still lists zero files. Both therefore agree.
//   - CDOrder permutations: accepted by both (Python 3.11.7 has no overlap
//     check; later versions only reject overlapping members).
//
// Other readers, observed once on Gen output (not enforced by tests):
// Info-ZIP unzip 6.0 -t accepts everything except an archive without members
// that has a Prefix/GapBeforeCD ("start of central directory not found"); it
// only warns about names longer than PATH_MAX and, in a non-UTF-8 locale,
// about bit-11 names. OpenJDK 17 java.util.zip.ZipFile ("jar tf") rejects
// names that are not valid UTF-8 even when bit 11 is clear ("invalid CEN
// header (bad entry name)"); Gen produces such cp437 names for about 2% of
// members and Notes flags them with an "info: " note.
func (s *Spec) Notes() []string {
	var notes []string
	add := func(format string, args ...any) { notes = append(notes, fmt.Sprintf(format, args...)) }
	names := make(map[string]bool)
	for i := range s.Members {
		m := &s.Members[i]
		if m.Method != MethodStore && m.Method != MethodDeflate {
			add("reject-go: member %d: method %d unsupported (Build fails as well)", i, m.Method)
			add("reject-py: member %d: method %d unsupported (Build fails as well)", i, m.Method)
		}
		if m.VersionNeeded > 63 {
			add("reject-py: member %d: version needed %d > 63 raises NotImplementedError", i, m.VersionNeeded)
		}
		if m.UTF8 && !utf8.ValidString(m.Name) {
			add("reject-py: member %d: bit 11 set but name is not valid UTF-8 (UnicodeDecodeError)", i)
		}
		if !m.UTF8 && !utf8.ValidString(m.Name) {
			add("info: member %d: non-UTF-8 name bytes without bit 11 (cp437 per APPNOTE; Go keeps the bytes, Python decodes cp437, java.util.zip.ZipFile rejects the archive)", i)
		}
		if strings.IndexByte(m.Name, 0) >= 0 {
			add("info: member %d: name contains NUL; Python's ZipInfo.filename is truncated there (orig_filename, which zipref.py reports, is intact)", i)
		}
		if strings.HasSuffix(m.Name, "/") && len(m.Data) > 0 {
			add("reject-go: member %d: name ends in \"/\" but has data; File.Open yields ErrFormat", i)
		}
		if m.Flags&0x0001 != 0 {
			add("reject-py: member %d: encryption bit set (RuntimeError: password required); Go ignores bit 0 and reads the plaintext", i)
		}
		if m.Flags&0x0060 != 0 {
			add("reject-py: member %d: flag bit 5/6 set (NotImplementedError on open)", i)
		}
		if m.Flags&(FlagDescriptor|FlagUTF8) != 0 {
			add("info: member %d: Flags sets bit 3/11 directly, bypassing Descriptor/UTF8", i)
		}
		if m.Flags&FlagDescriptor != 0 && m.Descriptor == DescNone {
			add("reject-go: member %d: bit 3 set via Flags without a descriptor; Go reads the following bytes as descriptor and reports ErrChecksum", i)
		}
		for _, e := range []struct {
			which string
			b     []byte
		}{{"local", m.ExtraLocal}, {"central", m.ExtraCentral}} {
			ok, z64 := extraWellFormed(e.b)
			if !ok && e.which == "central" {
				add("reject-py: member %d: malformed central extra (BadZipFile: Corrupt extra field); Go stops parsing silently", i)
			}
			if !ok && e.which == "local" {
				add("info: member %d: malformed local extra (neither reader parses local extras)", i)
			}
			if z64 && e.which == "central" {
				add("reject-go: member %d: user supplied ZIP64 record in central extra may be misparsed", i)
				add("reject-py: member %d: user supplied ZIP64 record in central extra may be misparsed", i)
			}
		}
		if names[m.Name] {
			add("info: member %d: duplicate name; both readers list both entries, but Python's name based lookups (getinfo, testzip, open(str)) see only the last one (zipref.py opens by ZipInfo)", i)
		}
		names[m.Name] = true
		if m.Descriptor == Desc32NoSig || m.Descriptor == Desc64NoSig {
			add("info: member %d: descriptor without signature (APPNOTE 4.3.9.3 allows it; both readers cope)", i)
		}
		if (m.Descriptor == Desc64Sig || m.Descriptor == Desc64NoSig) && !m.Zip64Local {
			add("info: member %d: 8-byte descriptor sizes without ZIP64 record in the local header (APPNOTE 4.3.9.2 ties the width to ZIP64 format; both readers ignore descriptor sizes)", i)
		}
		if (m.Descriptor == Desc32Sig || m.Descriptor == Desc32NoSig) && m.Zip64Local {
			add("info: member %d: 4-byte descriptor sizes although the local header has a ZIP64 record", i)
		}
		if m.Descriptor != DescNone && m.Method == MethodStore {
			add("info: member %d: stored member with descriptor (not streamable, but readers use the central directory)", i)
		}
		if m.Zip64Local != m.Zip64Central {
			add("info: member %d: ZIP64 record present in only one of local/central header", i)
		}
	}
	if strings.Contains(s.ArchiveComment, "PK\x05\x06") {
		add("reject-go: archive comment contains an EOCD signature; backward scans may lock onto it")
		add("reject-py: archive comment contains an EOCD signature; rfind locks onto it")
	}
	if s.Zip64EOCD && !s.Zip64Saturate {
		add("info: ZIP64 EOCD present but classic EOCD not saturated: Python uses the ZIP64 record, Go ignores it; values are identical")
	}
	if s.Zip64Saturate && !s.Zip64EOCD {
		add("info: Zip64Saturate without Zip64EOCD has no effect")
	}
	return notes
}

// Standard reports whether both Go's archive/zip and CPython's zipfile are
// expected to accept the archive and to list/extract it exactly as described
// by Archive.Layout, i.e. whether Notes contains no "reject-" entry.
func (s *Spec) Standard() bool {
	for _, n := range s.Notes() {
		if strings.HasPrefix(n, "reject-") {
			return false
		}
	}
	return true
}

// CentralExtra returns the complete extra field of member i's central
// directory entry as written (forced ZIP64 record included).
func (a *Archive) CentralExtra(i int) []byte {
	l := &a.Layout[i]
	e := a.Data[l.CDEntryOffset : l.CDEntryOffset+int64(l.CDEntryLen)]
	nl := int(binary.LittleEndian.Uint16(e[28:]))
	el := int(binary.LittleEndian.Uint16(e[30:]))
	return bytes.Clone(e[CentralHeaderLen+nl : CentralHeaderLen+nl+el])
}

// LocalExtra returns the complete extra field of member i's local header as
// written (forced ZIP64 record included).
func (a *Archive) LocalExtra(i int) []byte {
	l := &a.Layout[i]
	h := a.Data[l.LocalHeaderOffset:l.DataOffset]
	nl := int(binary.LittleEndian.Uint16(h[26:]))
	return bytes.Clone(h[LocalHeaderLen+nl:])
}
