package zipgen

import (
	"bufio"
	"encoding/json"
	"errors"
	"fmt"
	"io"
	"os"
	"os/exec"
	"strings"
	"sync"
)

// PyMember is one central directory entry as seen by CPython's zipfile.
type PyMember struct {
	Name           string  `json:"name"`     // orig_filename as decoded by Python
	Filename       string  `json:"filename"` // ZipInfo.filename (NUL-truncated)
	NameHex        string  `json:"name_hex"` // raw name bytes, hex
	HeaderOffset   int64   `json:"header_offset"`
	CompressSize   uint64  `json:"compress_size"`
	FileSize       uint64  `json:"file_size"`
	CRC            uint32  `json:"crc"`
	Method         uint16  `json:"method"`
	FlagBits       uint16  `json:"flag_bits"`
	SHA256         *string `json:"sha256"`     // nil for directories and on read errors
	ReadError      string  `json:"read_error"` // "" if the member was read completely
	CommentHex     string  `json:"comment_hex"`
	ExtraHex       string  `json:"extra_hex"`
	CreateVersion  uint16  `json:"create_version"`
	CreateSystem   uint16  `json:"create_system"`
	ExtractVersion uint16  `json:"extract_version"`
	InternalAttr   uint16  `json:"internal_attr"`
	ExternalAttr   uint32  `json:"external_attr"`
	DosTime        uint16  `json:"dos_time"`
	DosDate        uint16  `json:"dos_date"`
}

// PyListing is the answer of zipref.py for one archive.
type PyListing struct {
	OK         bool       `json:"ok"`
	Error      string     `json:"error"` // "<ExceptionClass>: msg" when !OK
	Members    []PyMember `json:"members"`
	CommentHex string     `json:"comment_hex"`
	TestZip    *string    `json:"testzip"` // first member whose read failed, or nil
}

// PyRef is a running zipref.py batch server. It is safe for concurrent use
// (requests are serialised).
type PyRef struct {
	mu    sync.Mutex
	cmd   *exec.Cmd
	stdin io.WriteCloser
	out   *bufio.Reader
}

// StartPyRef launches "python3 scriptPath".
func StartPyRef(scriptPath string) (*PyRef, error) {
	if _, err := os.Stat(scriptPath); err != nil {
		return nil, err
	}
	cmd := exec.Command("python3", scriptPath)
	cmd.Stderr = os.Stderr
	stdin, err := cmd.StdinPipe()
	if err != nil {
		return nil, err
	}
	stdout, err := cmd.StdoutPipe()
	if err != nil {
		return nil, err
	}
	if err := cmd.Start(); err != nil {
		return nil, err
	}
	return &PyRef{cmd: cmd, stdin: stdin, out: bufio.NewReaderSize(stdout, 1<<16)}, nil
}

// List asks Python to list and fully read the archive at path. A Python-side
// exception is reported in the listing (OK == false), not as a Go error; the
// error return is for protocol/process failures.
func (p *PyRef) List(path string) (*PyListing, error) {
	if strings.ContainsAny(path, "\r\n") {
		return nil, errors.New("zipgen: path contains a line break")
	}
	p.mu.Lock()
	defer p.mu.Unlock()
	if p.stdin == nil {
		return nil, errors.New("zipgen: PyRef is closed")
	}
	if _, err := io.WriteString(p.stdin, path+"\n"); err != nil {
		return nil, fmt.Errorf("zipgen: writing to zipref.py: %w", err)
	}
	line, err := p.out.ReadBytes('\n')
	if err != nil {
		return nil, fmt.Errorf("zipgen: reading from zipref.py: %w", err)
	}
	var l PyListing
	if err := json.Unmarshal(line, &l); err != nil {
		return nil, fmt.Errorf("zipgen: bad answer from zipref.py: %w", err)
	}
	return &l, nil
}

// Close shuts the server down and waits for it.
func (p *PyRef) Close() error {
	p.mu.Lock()
	defer p.mu.Unlock()
	if p.stdin == nil {
		return nil
	}
	err := p.stdin.Close()
	p.stdin = nil
	if werr := p.cmd.Wait(); err == nil {
		err = werr
	}
	return err
}
