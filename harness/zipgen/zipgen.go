// Package zipgen is a byte-exact ZIP archive writer with a precise layout
// model. It is written from the PKWARE APPNOTE and deliberately does not share
// any code with the implementation under test, so that it can serve as an
// independent oracle: every byte of the produced archive is accounted for in
// Archive/MemberLayout.
//
// Physical layout produced by Build:
//
//	Prefix
//	for each member i, in Spec.Members order:
//	    GapBefore[i]
//	    local file header (30 bytes) | name | local extra
//	    (possibly compressed) data
//	    data descriptor (0, 12, 16, 20 or 24 bytes)
//	GapBeforeCD
//	central directory entries, in CDOrder
//	[ZIP64 end of central directory record (56) | ZIP64 locator (20)]
//	end of central directory record (22) | archive comment
//
// All offsets stored in the archive are absolute file offsets (i.e. they
// include len(Prefix)), the way Info-ZIP "zip -A" adjusts a self-extracting
// archive.
package zipgen

import (
	"bytes"
	"compress/flate"
	"encoding/binary"
	"errors"
	"fmt"
	"hash/crc32"
)

// Record signatures and fixed sizes.
const (
	SigLocal     = 0x04034b50
	SigCentral   = 0x02014b50
	SigEOCD      = 0x06054b50
	SigZip64EOCD = 0x06064b50
	SigZip64Loc  = 0x07064b50
	SigDesc      = 0x08074b50

	LocalHeaderLen   = 30
	CentralHeaderLen = 46
	EOCDLen          = 22
	Zip64EOCDLen     = 56
	Zip64LocLen      = 20

	FlagDescriptor = 1 << 3
	FlagUTF8       = 1 << 11

	MethodStore   = 0
	MethodDeflate = 8

	Zip64ExtraID = 0x0001
)

// DescKind selects the data descriptor variant that follows a member's data.
type DescKind int

const (
	DescNone    DescKind = iota // no descriptor, bit 3 clear
	Desc32Sig                   // PK\x07\x08 crc32 csize32 usize32   (16 bytes)
	Desc32NoSig                 //            crc32 csize32 usize32   (12 bytes)
	Desc64Sig                   // PK\x07\x08 crc32 csize64 usize64   (24 bytes)
	Desc64NoSig                 //            crc32 csize64 usize64   (20 bytes)
)

// Len returns the number of bytes the descriptor occupies.
func (d DescKind) Len() int {
	switch d {
	case Desc32Sig:
		return 16
	case Desc32NoSig:
		return 12
	case Desc64Sig:
		return 24
	case Desc64NoSig:
		return 20
	}
	return 0
}

func (d DescKind) String() string {
	switch d {
	case DescNone:
		return "none"
	case Desc32Sig:
		return "desc32sig"
	case Desc32NoSig:
		return "desc32nosig"
	case Desc64Sig:
		return "desc64sig"
	case Desc64NoSig:
		return "desc64nosig"
	}
	return fmt.Sprintf("DescKind(%d)", int(d))
}

// Member describes one archive member. All header fields are written verbatim;
// nothing is defaulted (a zero VersionNeeded is written as 0).
type Member struct {
	Name string
	Data []byte // uncompressed content
	// Method is 0 (stored) or 8 (deflate).
	Method uint16
	// DeflateLevel is passed verbatim to compress/flate: -2 HuffmanOnly,
	// -1 default, 0 NoCompression (a valid deflate stream made of stored
	// blocks), 1..9. Ignored for Method 0.
	DeflateLevel int
	// IsDir marks a directory entry. It is informational (Gen gives such
	// members a name ending in "/" and no data); Build treats the member
	// like any other.
	IsDir bool
	// Descriptor != DescNone sets general purpose bit 3 and zeroes crc and
	// sizes in the local header; the real values go into the descriptor
	// and the central directory.
	Descriptor DescKind
	// Zip64Local forces a ZIP64 extended information record (id 0x0001,
	// 16 bytes: usize, csize) into the local extra field and writes
	// 0xFFFFFFFF into both 32-bit size fields of the local header. Combined
	// with a descriptor the ZIP64 record carries zeros (what CPython's
	// zipfile writes for streamed ZIP64 members) and crc stays zero.
	Zip64Local bool
	// Zip64Central forces a ZIP64 record (24 bytes: usize, csize, local
	// header offset) into the central extra field and writes 0xFFFFFFFF
	// into the csize, usize and header offset fields of the central header.
	Zip64Central bool
	// Zip64ExtraLast places the forced ZIP64 records after ExtraLocal /
	// ExtraCentral instead of in front of them.
	Zip64ExtraLast bool
	// ExtraLocal/ExtraCentral are written verbatim. They should be a
	// sequence of well-formed (id, len, data) records; see ExtraRecord.
	ExtraLocal, ExtraCentral []byte
	Comment                  string
	ModTime, ModDate         uint16
	ExternalAttrs            uint32
	InternalAttrs            uint16
	VersionMadeBy            uint16
	VersionNeeded            uint16
	// UTF8 sets general purpose bit 11 (in both headers).
	UTF8 bool
	// Flags is OR-ed into the general purpose flags of both headers (e.g.
	// deflate option bits 1-2). Bits 3 and 11 are controlled by Descriptor
	// and UTF8.
	Flags uint16
	// GapBefore is placed immediately before this member's local header.
	GapBefore []byte
}

// Spec describes a complete archive.
type Spec struct {
	Members []Member
	// Prefix is placed before everything else (SFX stub, launcher script).
	Prefix []byte
	// GapBeforeCD is placed between the last member and the central directory.
	GapBeforeCD []byte
	// Zip64EOCD forces a ZIP64 end of central directory record and locator.
	Zip64EOCD bool
	// Zip64Saturate (only meaningful with Zip64EOCD) writes 0xFFFF /
	// 0xFFFFFFFF into the entry counts, size and offset of the classic
	// EOCD; otherwise the classic EOCD carries the real values too.
	Zip64Saturate  bool
	ArchiveComment string
	// CDOrder, if non-nil, must be a permutation of 0..len(Members)-1:
	// CDOrder[k] is the index (into Members) of the k-th central entry.
	CDOrder []int
}

// MemberLayout gives the exact position of every piece of a member. The i-th
// element of Archive.Layout describes Spec.Members[i].
type MemberLayout struct {
	Name              string
	LocalHeaderOffset int64 // offset of PK\x03\x04
	LocalHeaderLen    int   // 30 + len(name) + len(local extra incl. forced ZIP64 record)
	DataOffset        int64 // == LocalHeaderOffset + LocalHeaderLen
	CompressedSize    uint64
	UncompressedSize  uint64
	CRC32             uint32
	DescriptorOffset  int64 // -1 if none
	DescriptorLen     int
	EndOffset         int64 // first byte after data and descriptor
	CDIndex           int   // position of this member's entry in the central directory
	CDEntryOffset     int64 // offset of PK\x01\x02
	CDEntryLen        int   // 46 + name + central extra (incl. forced ZIP64 record) + comment
	Method            uint16
	Flags             uint16 // general purpose flags as written (both headers)
}

// Archive is the result of Build.
type Archive struct {
	Data   []byte
	Layout []MemberLayout // indexed like Spec.Members
	// CDOrder is the resolved central directory order (never nil):
	// CDOrder[k] indexes Layout/Spec.Members.
	CDOrder []int

	CDOffset   int64 // offset of the first central entry (== offset of the end records if there are no members)
	CDSize     int64 // total length of all central entries
	EOCDOffset int64 // offset of PK\x05\x06
	// Offsets of the ZIP64 EOCD record and locator, or -1.
	Zip64EOCDOffset    int64
	Zip64LocatorOffset int64
}

// ExtraRecord returns a well-formed extra field record.
func ExtraRecord(id uint16, data []byte) []byte {
	b := make([]byte, 4, 4+len(data))
	binary.LittleEndian.PutUint16(b, id)
	binary.LittleEndian.PutUint16(b[2:], uint16(len(data)))
	return append(b, data...)
}

type wbuf struct{ b []byte }

func (w *wbuf) u16(v uint16)   { w.b = binary.LittleEndian.AppendUint16(w.b, v) }
func (w *wbuf) u32(v uint32)   { w.b = binary.LittleEndian.AppendUint32(w.b, v) }
func (w *wbuf) u64(v uint64)   { w.b = binary.LittleEndian.AppendUint64(w.b, v) }
func (w *wbuf) bytes(v []byte) { w.b = append(w.b, v...) }
func (w *wbuf) str(v string)   { w.b = append(w.b, v...) }
func (w *wbuf) pos() int64     { return int64(len(w.b)) }

func compress(m *Member) ([]byte, error) {
	switch m.Method {
	case MethodStore:
		return m.Data, nil
	case MethodDeflate:
		var fb bytes.Buffer
		fw, err := flate.NewWriter(&fb, m.DeflateLevel)
		if err != nil {
			return nil, err
		}
		if _, err := fw.Write(m.Data); err != nil {
			return nil, err
		}
		if err := fw.Close(); err != nil {
			return nil, err
		}
		return fb.Bytes(), nil
	}
	return nil, fmt.Errorf("zipgen: unsupported method %d", m.Method)
}

func joinExtra(forced, user []byte, last bool) []byte {
	if len(forced) == 0 {
		return user
	}
	out := make([]byte, 0, len(forced)+len(user))
	if last {
		out = append(out, user...)
		return append(out, forced...)
	}
	out = append(out, forced...)
	return append(out, user...)
}

func resolveOrder(s *Spec) ([]int, error) {
	n := len(s.Members)
	order := make([]int, n)
	if s.CDOrder == nil {
		for i := range order {
			order[i] = i
		}
		return order, nil
	}
	if len(s.CDOrder) != n {
		return nil, fmt.Errorf("zipgen: CDOrder has %d elements for %d members", len(s.CDOrder), n)
	}
	seen := make([]bool, n)
	for k, idx := range s.CDOrder {
		if idx < 0 || idx >= n || seen[idx] {
			return nil, fmt.Errorf("zipgen: CDOrder is not a permutation (element %d = %d)", k, idx)
		}
		seen[idx] = true
		order[k] = idx
	}
	return order, nil
}

// Build serialises the Spec. It fails only if a length does not fit its
// 16-bit field, a method/level is unsupported, CDOrder is not a permutation,
// or the archive would really need ZIP64 (>= 4 GiB, not supported).
func Build(s *Spec) (*Archive, error) {
	order, err := resolveOrder(s)
	if err != nil {
		return nil, err
	}
	if len(s.ArchiveComment) > 0xFFFF {
		return nil, errors.New("zipgen: archive comment longer than 65535 bytes")
	}
	a := &Archive{
		Layout:             make([]MemberLayout, len(s.Members)),
		CDOrder:            order,
		Zip64EOCDOffset:    -1,
		Zip64LocatorOffset: -1,
	}
	w := &wbuf{}
	w.bytes(s.Prefix)

	for i := range s.Members {
		m := &s.Members[i]
		l := &a.Layout[i]
		if len(m.Name) > 0xFFFF {
			return nil, fmt.Errorf("zipgen: member %d: name longer than 65535 bytes", i)
		}
		if len(m.Comment) > 0xFFFF {
			return nil, fmt.Errorf("zipgen: member %d: comment longer than 65535 bytes", i)
		}
		if m.Descriptor < DescNone || m.Descriptor > Desc64NoSig {
			return nil, fmt.Errorf("zipgen: member %d: bad descriptor kind %d", i, int(m.Descriptor))
		}
		comp, err := compress(m)
		if err != nil {
			return nil, fmt.Errorf("zipgen: member %d: %w", i, err)
		}
		if uint64(len(comp)) >= 0xFFFFFFFF || uint64(len(m.Data)) >= 0xFFFFFFFF {
			return nil, fmt.Errorf("zipgen: member %d: real ZIP64 sizes not supported", i)
		}
		crc := crc32.ChecksumIEEE(m.Data)
		flags := m.Flags
		if m.Descriptor != DescNone {
			flags |= FlagDescriptor
		}
		if m.UTF8 {
			flags |= FlagUTF8
		}

		hcrc, hcsize, husize := crc, uint32(len(comp)), uint32(len(m.Data))
		if m.Descriptor != DescNone {
			hcrc, hcsize, husize = 0, 0, 0
		}
		var forced []byte
		if m.Zip64Local {
			z := &wbuf{}
			z.u16(Zip64ExtraID)
			z.u16(16)
			z.u64(uint64(husize))
			z.u64(uint64(hcsize))
			forced = z.b
			hcsize, husize = 0xFFFFFFFF, 0xFFFFFFFF
		}
		lextra := joinExtra(forced, m.ExtraLocal, m.Zip64ExtraLast)
		if len(lextra) > 0xFFFF {
			return nil, fmt.Errorf("zipgen: member %d: local extra longer than 65535 bytes", i)
		}

		w.bytes(m.GapBefore)
		l.Name = m.Name
		l.LocalHeaderOffset = w.pos()
		w.u32(SigLocal)
		w.u16(m.VersionNeeded)
		w.u16(flags)
		w.u16(m.Method)
		w.u16(m.ModTime)
		w.u16(m.ModDate)
		w.u32(hcrc)
		w.u32(hcsize)
		w.u32(husize)
		w.u16(uint16(len(m.Name)))
		w.u16(uint16(len(lextra)))
		w.str(m.Name)
		w.bytes(lextra)
		l.DataOffset = w.pos()
		l.LocalHeaderLen = int(l.DataOffset - l.LocalHeaderOffset)
		w.bytes(comp)
		l.CompressedSize = uint64(len(comp))
		l.UncompressedSize = uint64(len(m.Data))
		l.CRC32 = crc
		l.Method = m.Method
		l.Flags = flags
		l.DescriptorOffset = -1
		if m.Descriptor != DescNone {
			l.DescriptorOffset = w.pos()
			if m.Descriptor == Desc32Sig || m.Descriptor == Desc64Sig {
				w.u32(SigDesc)
			}
			w.u32(crc)
			if m.Descriptor == Desc64Sig || m.Descriptor == Desc64NoSig {
				w.u64(l.CompressedSize)
				w.u64(l.UncompressedSize)
			} else {
				w.u32(uint32(l.CompressedSize))
				w.u32(uint32(l.UncompressedSize))
			}
			l.DescriptorLen = int(w.pos() - l.DescriptorOffset)
		}
		l.EndOffset = w.pos()
		if l.EndOffset >= 0xFFFFFFFF {
			return nil, errors.New("zipgen: archive of 4 GiB or more not supported")
		}
	}

	w.bytes(s.GapBeforeCD)
	a.CDOffset = w.pos()
	for k, idx := range order {
		m := &s.Members[idx]
		l := &a.Layout[idx]
		csize, usize, off := uint32(l.CompressedSize), uint32(l.UncompressedSize), uint32(l.LocalHeaderOffset)
		var forced []byte
		if m.Zip64Central {
			z := &wbuf{}
			z.u16(Zip64ExtraID)
			z.u16(24)
			z.u64(l.UncompressedSize)
			z.u64(l.CompressedSize)
			z.u64(uint64(l.LocalHeaderOffset))
			forced = z.b
			csize, usize, off = 0xFFFFFFFF, 0xFFFFFFFF, 0xFFFFFFFF
		}
		cextra := joinExtra(forced, m.ExtraCentral, m.Zip64ExtraLast)
		if len(cextra) > 0xFFFF {
			return nil, fmt.Errorf("zipgen: member %d: central extra longer than 65535 bytes", idx)
		}
		l.CDIndex = k
		l.CDEntryOffset = w.pos()
		w.u32(SigCentral)
		w.u16(m.VersionMadeBy)
		w.u16(m.VersionNeeded)
		w.u16(l.Flags)
		w.u16(m.Method)
		w.u16(m.ModTime)
		w.u16(m.ModDate)
		w.u32(l.CRC32)
		w.u32(csize)
		w.u32(usize)
		w.u16(uint16(len(m.Name)))
		w.u16(uint16(len(cextra)))
		w.u16(uint16(len(m.Comment)))
		w.u16(0) // disk number start
		w.u16(m.InternalAttrs)
		w.u32(m.ExternalAttrs)
		w.u32(off)
		w.str(m.Name)
		w.bytes(cextra)
		w.str(m.Comment)
		l.CDEntryLen = int(w.pos() - l.CDEntryOffset)
	}
	a.CDSize = w.pos() - a.CDOffset
	n := uint64(len(order))
	if a.CDOffset >= 0xFFFFFFFF || a.CDSize >= 0xFFFFFFFF {
		return nil, errors.New("zipgen: archive really needs ZIP64 (not supported)")
	}
	// exactly 65535 entries still fit the classic end record (CPython writes it that
	// way); more need the ZIP64 records with a saturated classic count
	if n > 0xFFFF && !(s.Zip64EOCD && s.Zip64Saturate) {
		return nil, errors.New("zipgen: more than 65535 members need Zip64EOCD with Zip64Saturate")
	}

	if s.Zip64EOCD {
		a.Zip64EOCDOffset = w.pos()
		w.u32(SigZip64EOCD)
		w.u64(Zip64EOCDLen - 12) // size of the remainder of this record
		w.u16(45)                // version made by
		w.u16(45)                // version needed
		w.u32(0)                 // this disk
		w.u32(0)                 // disk with CD start
		w.u64(n)                 // entries on this disk
		w.u64(n)                 // entries total
		w.u64(uint64(a.CDSize))
		w.u64(uint64(a.CDOffset))
		a.Zip64LocatorOffset = w.pos()
		w.u32(SigZip64Loc)
		w.u32(0) // disk with the ZIP64 EOCD
		w.u64(uint64(a.Zip64EOCDOffset))
		w.u32(1) // total disks
	}

	a.EOCDOffset = w.pos()
	cnt, size, off := uint16(n), uint32(a.CDSize), uint32(a.CDOffset)
	if s.Zip64EOCD && s.Zip64Saturate {
		cnt, size, off = 0xFFFF, 0xFFFFFFFF, 0xFFFFFFFF
	}
	w.u32(SigEOCD)
	w.u16(0) // this disk
	w.u16(0) // disk with CD start
	w.u16(cnt)
	w.u16(cnt)
	w.u32(size)
	w.u32(off)
	w.u16(uint16(len(s.ArchiveComment)))
	w.str(s.ArchiveComment)

	a.Data = w.b
	return a, nil
}
