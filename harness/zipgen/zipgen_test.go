package zipgen

import (
	"archive/zip"
	"bytes"
	"compress/flate"
	"crypto/sha256"
	"encoding/binary"
	"encoding/hex"
	"fmt"
	"hash/crc32"
	"io"
	"os"
	"path/filepath"
	"sort"
	"strings"
	"testing"

	"pgregory.net/rapid"
)

func scriptPath() string {
	if p := os.Getenv("ZIPREF_PY"); p != "" {
		return p
	}
	return filepath.Join("..", "..", "ref", "zipref.py")
}

type fataler interface {
	Helper()
	Fatalf(format string, args ...any)
}

func le16(b []byte) uint16 { return binary.LittleEndian.Uint16(b) }
func le32(b []byte) uint32 { return binary.LittleEndian.Uint32(b) }
func le64(b []byte) uint64 { return binary.LittleEndian.Uint64(b) }

// checkTiling re-parses the archive by walking the Layout and verifies that
// the described regions tile Data exactly and that every field holds the
// value the Spec asks for. It is an independent reading of the format, not a
// reuse of the writer.
func checkTiling(t fataler, s *Spec, a *Archive) {
	t.Helper()
	d := a.Data
	pos := int64(0)
	expect := func(what string, b []byte) {
		t.Helper()
		if pos+int64(len(b)) > int64(len(d)) || !bytes.Equal(d[pos:pos+int64(len(b))], b) {
			t.Fatalf("%s: bytes at %d differ", what, pos)
		}
		pos += int64(len(b))
	}
	expect("prefix", s.Prefix)
	if len(a.Layout) != len(s.Members) {
		t.Fatalf("layout has %d entries for %d members", len(a.Layout), len(s.Members))
	}
	for i := range s.Members {
		m, l := &s.Members[i], &a.Layout[i]
		expect(fmt.Sprintf("gap %d", i), m.GapBefore)
		if l.LocalHeaderOffset != pos {
			t.Fatalf("member %d: LocalHeaderOffset %d, want %d", i, l.LocalHeaderOffset, pos)
		}
		h := d[pos:]
		wantFlags := m.Flags
		if m.Descriptor != DescNone {
			wantFlags |= 8
		}
		if m.UTF8 {
			wantFlags |= 0x800
		}
		if le32(h) != 0x04034b50 || le16(h[4:]) != m.VersionNeeded || le16(h[6:]) != wantFlags ||
			le16(h[8:]) != m.Method || le16(h[10:]) != m.ModTime || le16(h[12:]) != m.ModDate {
			t.Fatalf("member %d: bad local header fixed fields", i)
		}
		if l.Flags != wantFlags || l.Method != m.Method || l.Name != m.Name {
			t.Fatalf("member %d: layout flags/method/name wrong", i)
		}
		crc := crc32.ChecksumIEEE(m.Data)
		if l.CRC32 != crc || l.UncompressedSize != uint64(len(m.Data)) {
			t.Fatalf("member %d: layout crc/usize wrong", i)
		}
		wcrc, wcs, wus := crc, uint32(l.CompressedSize), uint32(len(m.Data))
		if m.Descriptor != DescNone {
			wcrc, wcs, wus = 0, 0, 0
		}
		var z64 []byte
		if m.Zip64Local {
			z64 = make([]byte, 20)
			binary.LittleEndian.PutUint16(z64, 1)
			binary.LittleEndian.PutUint16(z64[2:], 16)
			binary.LittleEndian.PutUint64(z64[4:], uint64(wus))
			binary.LittleEndian.PutUint64(z64[12:], uint64(wcs))
			wcs, wus = 0xFFFFFFFF, 0xFFFFFFFF
		}
		if le32(h[14:]) != wcrc || le32(h[18:]) != wcs || le32(h[22:]) != wus {
			t.Fatalf("member %d: local crc/sizes %x/%x/%x, want %x/%x/%x", i, le32(h[14:]), le32(h[18:]), le32(h[22:]), wcrc, wcs, wus)
		}
		wextra := append(append([]byte{}, z64...), m.ExtraLocal...)
		if m.Zip64ExtraLast {
			wextra = append(append([]byte{}, m.ExtraLocal...), z64...)
		}
		if int(le16(h[26:])) != len(m.Name) || int(le16(h[28:])) != len(wextra) {
			t.Fatalf("member %d: local name/extra lengths wrong", i)
		}
		pos += 30
		expect("local name", []byte(m.Name))
		expect("local extra", wextra)
		if !bytes.Equal(a.LocalExtra(i), wextra) {
			t.Fatalf("member %d: LocalExtra() wrong", i)
		}
		if l.DataOffset != pos || l.LocalHeaderLen != int(pos-l.LocalHeaderOffset) {
			t.Fatalf("member %d: DataOffset/LocalHeaderLen wrong", i)
		}
		raw := d[pos : pos+int64(l.CompressedSize)]
		var plain []byte
		if m.Method == 0 {
			plain = raw
		} else {
			fr := flate.NewReader(bytes.NewReader(raw))
			var err error
			plain, err = io.ReadAll(fr)
			if err != nil {
				t.Fatalf("member %d: inflate: %v", i, err)
			}
			// the deflate stream must end exactly at CompressedSize
			br := bytes.NewReader(raw)
			fr = flate.NewReader(br)
			_, _ = io.Copy(io.Discard, fr)
			if br.Len() != 0 {
				t.Fatalf("member %d: %d trailing bytes after deflate stream", i, br.Len())
			}
		}
		if !bytes.Equal(plain, m.Data) {
			t.Fatalf("member %d: data does not round-trip", i)
		}
		pos += int64(l.CompressedSize)
		if m.Descriptor == DescNone {
			if l.DescriptorOffset != -1 || l.DescriptorLen != 0 {
				t.Fatalf("member %d: descriptor reported but none requested", i)
			}
		} else {
			if l.DescriptorOffset != pos || l.DescriptorLen != m.Descriptor.Len() {
				t.Fatalf("member %d: descriptor offset/len wrong", i)
			}
			dd := d[pos : pos+int64(l.DescriptorLen)]
			if m.Descriptor == Desc32Sig || m.Descriptor == Desc64Sig {
				if le32(dd) != 0x08074b50 {
					t.Fatalf("member %d: descriptor signature missing", i)
				}
				dd = dd[4:]
			}
			if le32(dd) != crc {
				t.Fatalf("member %d: descriptor crc wrong", i)
			}
			dd = dd[4:]
			switch m.Descriptor {
			case Desc32Sig, Desc32NoSig:
				if len(dd) != 8 || uint64(le32(dd)) != l.CompressedSize || uint64(le32(dd[4:])) != l.UncompressedSize {
					t.Fatalf("member %d: descriptor32 sizes wrong", i)
				}
			default:
				if len(dd) != 16 || le64(dd) != l.CompressedSize || le64(dd[8:]) != l.UncompressedSize {
					t.Fatalf("member %d: descriptor64 sizes wrong", i)
				}
			}
			pos += int64(l.DescriptorLen)
		}
		if l.EndOffset != pos {
			t.Fatalf("member %d: EndOffset wrong", i)
		}
	}
	expect("gap before CD", s.GapBeforeCD)
	if a.CDOffset != pos {
		t.Fatalf("CDOffset %d, want %d", a.CDOffset, pos)
	}
	if len(a.CDOrder) != len(s.Members) {
		t.Fatalf("CDOrder length wrong")
	}
	for k, idx := range a.CDOrder {
		if s.CDOrder != nil && s.CDOrder[k] != idx {
			t.Fatalf("CDOrder[%d] wrong", k)
		}
		m, l := &s.Members[idx], &a.Layout[idx]
		if l.CDIndex != k || l.CDEntryOffset != pos {
			t.Fatalf("member %d: CDIndex/CDEntryOffset wrong", idx)
		}
		e := d[pos:]
		wcs, wus, woff := uint32(l.CompressedSize), uint32(l.UncompressedSize), uint32(l.LocalHeaderOffset)
		var z64 []byte
		if m.Zip64Central {
			z64 = make([]byte, 28)
			binary.LittleEndian.PutUint16(z64, 1)
			binary.LittleEndian.PutUint16(z64[2:], 24)
			binary.LittleEndian.PutUint64(z64[4:], l.UncompressedSize)
			binary.LittleEndian.PutUint64(z64[12:], l.CompressedSize)
			binary.LittleEndian.PutUint64(z64[20:], uint64(l.LocalHeaderOffset))
			wcs, wus, woff = 0xFFFFFFFF, 0xFFFFFFFF, 0xFFFFFFFF
		}
		wextra := append(append([]byte{}, z64...), m.ExtraCentral...)
		if m.Zip64ExtraLast {
			wextra = append(append([]byte{}, m.ExtraCentral...), z64...)
		}
		ok := le32(e) == 0x02014b50 && le16(e[4:]) == m.VersionMadeBy && le16(e[6:]) == m.VersionNeeded &&
			le16(e[8:]) == l.Flags && le16(e[10:]) == m.Method && le16(e[12:]) == m.ModTime &&
			le16(e[14:]) == m.ModDate && le32(e[16:]) == l.CRC32 && le32(e[20:]) == wcs &&
			le32(e[24:]) == wus && int(le16(e[28:])) == len(m.Name) && int(le16(e[30:])) == len(wextra) &&
			int(le16(e[32:])) == len(m.Comment) && le16(e[34:]) == 0 && le16(e[36:]) == m.InternalAttrs &&
			le32(e[38:]) == m.ExternalAttrs && le32(e[42:]) == woff
		if !ok {
			t.Fatalf("member %d: bad central header fixed fields", idx)
		}
		pos += 46
		expect("central name", []byte(m.Name))
		expect("central extra", wextra)
		expect("central comment", []byte(m.Comment))
		if !bytes.Equal(a.CentralExtra(idx), wextra) {
			t.Fatalf("member %d: CentralExtra() wrong", idx)
		}
		if l.CDEntryLen != int(pos-l.CDEntryOffset) {
			t.Fatalf("member %d: CDEntryLen wrong", idx)
		}
	}
	if a.CDSize != pos-a.CDOffset {
		t.Fatalf("CDSize wrong")
	}
	n := uint64(len(s.Members))
	if s.Zip64EOCD {
		if a.Zip64EOCDOffset != pos || a.Zip64LocatorOffset != pos+56 {
			t.Fatalf("zip64 offsets wrong")
		}
		r := d[pos:]
		ok := le32(r) == 0x06064b50 && le64(r[4:]) == 44 && le16(r[12:]) == 45 && le16(r[14:]) == 45 &&
			le32(r[16:]) == 0 && le32(r[20:]) == 0 && le64(r[24:]) == n && le64(r[32:]) == n &&
			le64(r[40:]) == uint64(a.CDSize) && le64(r[48:]) == uint64(a.CDOffset)
		if !ok {
			t.Fatalf("bad zip64 EOCD record")
		}
		r = r[56:]
		if le32(r) != 0x07064b50 || le32(r[4:]) != 0 || le64(r[8:]) != uint64(a.Zip64EOCDOffset) || le32(r[16:]) != 1 {
			t.Fatalf("bad zip64 locator")
		}
		pos += 76
	} else if a.Zip64EOCDOffset != -1 || a.Zip64LocatorOffset != -1 {
		t.Fatalf("zip64 offsets set without Zip64EOCD")
	}
	if a.EOCDOffset != pos {
		t.Fatalf("EOCDOffset wrong")
	}
	r := d[pos:]
	wc, wsz, woff := uint16(n), uint32(a.CDSize), uint32(a.CDOffset)
	if s.Zip64EOCD && s.Zip64Saturate {
		wc, wsz, woff = 0xFFFF, 0xFFFFFFFF, 0xFFFFFFFF
	}
	ok := le32(r) == 0x06054b50 && le16(r[4:]) == 0 && le16(r[6:]) == 0 && le16(r[8:]) == wc && le16(r[10:]) == wc &&
		le32(r[12:]) == wsz && le32(r[16:]) == woff && int(le16(r[20:])) == len(s.ArchiveComment)
	if !ok {
		t.Fatalf("bad EOCD")
	}
	pos += 22
	expect("archive comment", []byte(s.ArchiveComment))
	if pos != int64(len(d)) {
		t.Fatalf("%d trailing bytes", int64(len(d))-pos)
	}
}

// checkGoZip compares Go's archive/zip view of the archive with the Layout.
func checkGoZip(t fataler, s *Spec, a *Archive) {
	t.Helper()
	zr, err := zip.NewReader(bytes.NewReader(a.Data), int64(len(a.Data)))
	if err != nil {
		t.Fatalf("zip.NewReader: %v", err)
	}
	if zr.Comment != s.ArchiveComment {
		t.Fatalf("archive comment differs")
	}
	if len(zr.File) != len(s.Members) {
		t.Fatalf("archive/zip lists %d files, want %d", len(zr.File), len(s.Members))
	}
	for k, f := range zr.File {
		idx := a.CDOrder[k]
		m, l := &s.Members[idx], &a.Layout[idx]
		if f.Name != m.Name {
			t.Fatalf("entry %d: name %q, want %q", k, f.Name, m.Name)
		}
		if f.CompressedSize64 != l.CompressedSize || f.UncompressedSize64 != l.UncompressedSize || f.CRC32 != l.CRC32 {
			t.Fatalf("entry %d (%q): sizes/crc %d/%d/%08x, want %d/%d/%08x", k, f.Name,
				f.CompressedSize64, f.UncompressedSize64, f.CRC32, l.CompressedSize, l.UncompressedSize, l.CRC32)
		}
		if f.Method != l.Method || f.Flags != l.Flags || f.Comment != m.Comment ||
			f.CreatorVersion != m.VersionMadeBy || f.ReaderVersion != m.VersionNeeded ||
			f.ModifiedTime != m.ModTime || f.ModifiedDate != m.ModDate || f.ExternalAttrs != m.ExternalAttrs {
			t.Fatalf("entry %d (%q): header fields differ", k, f.Name)
		}
		if !bytes.Equal(f.Extra, a.CentralExtra(idx)) {
			t.Fatalf("entry %d (%q): extra differs", k, f.Name)
		}
		off, err := f.DataOffset()
		if err != nil || off != l.DataOffset {
			t.Fatalf("entry %d (%q): DataOffset %d (%v), want %d", k, f.Name, off, err, l.DataOffset)
		}
		rc, err := f.Open()
		if err != nil {
			t.Fatalf("entry %d (%q): Open: %v", k, f.Name, err)
		}
		got, err := io.ReadAll(rc)
		rc.Close()
		if err != nil {
			t.Fatalf("entry %d (%q): read: %v", k, f.Name, err)
		}
		if !bytes.Equal(got, m.Data) {
			t.Fatalf("entry %d (%q): content differs", k, f.Name)
		}
		rr, err := f.OpenRaw()
		if err != nil {
			t.Fatalf("entry %d (%q): OpenRaw: %v", k, f.Name, err)
		}
		raw, _ := io.ReadAll(rr)
		if !bytes.Equal(raw, a.Data[l.DataOffset:l.DataOffset+int64(l.CompressedSize)]) {
			t.Fatalf("entry %d (%q): raw content differs", k, f.Name)
		}
	}
}

// checkPython compares CPython's view with the Layout.
func checkPython(t fataler, s *Spec, a *Archive, p *PyListing) {
	t.Helper()
	if !p.OK {
		t.Fatalf("python rejected the archive: %s", p.Error)
	}
	if p.CommentHex != hex.EncodeToString([]byte(s.ArchiveComment)) {
		t.Fatalf("python: archive comment differs")
	}
	if p.TestZip != nil {
		t.Fatalf("python: testzip reports %q", *p.TestZip)
	}
	if len(p.Members) != len(s.Members) {
		t.Fatalf("python lists %d members, want %d", len(p.Members), len(s.Members))
	}
	for k := range p.Members {
		pm := &p.Members[k]
		idx := a.CDOrder[k]
		m, l := &s.Members[idx], &a.Layout[idx]
		if pm.ReadError != "" {
			t.Fatalf("python entry %d: read error %s", k, pm.ReadError)
		}
		if pm.NameHex != hex.EncodeToString([]byte(m.Name)) {
			t.Fatalf("python entry %d: name bytes %s, want %x", k, pm.NameHex, m.Name)
		}
		if m.UTF8 && pm.Name != m.Name {
			t.Fatalf("python entry %d: decoded name %q, want %q", k, pm.Name, m.Name)
		}
		if pm.HeaderOffset != l.LocalHeaderOffset || pm.CompressSize != l.CompressedSize ||
			pm.FileSize != l.UncompressedSize || pm.CRC != l.CRC32 || pm.Method != l.Method || pm.FlagBits != l.Flags {
			t.Fatalf("python entry %d (%q): offset/sizes/crc/method/flags differ: %+v vs %+v", k, m.Name, *pm, *l)
		}
		if pm.CommentHex != hex.EncodeToString([]byte(m.Comment)) || pm.ExtraHex != hex.EncodeToString(a.CentralExtra(idx)) {
			t.Fatalf("python entry %d (%q): comment/extra differ", k, m.Name)
		}
		if pm.CreateVersion != m.VersionMadeBy&0xFF || pm.CreateSystem != m.VersionMadeBy>>8 ||
			pm.ExtractVersion != m.VersionNeeded || pm.InternalAttr != m.InternalAttrs ||
			pm.ExternalAttr != m.ExternalAttrs || pm.DosTime != m.ModTime || pm.DosDate != m.ModDate {
			t.Fatalf("python entry %d (%q): versions/attrs/time differ", k, m.Name)
		}
		if strings.HasSuffix(m.Name, "/") {
			if pm.SHA256 != nil {
				t.Fatalf("python entry %d (%q): sha256 for a directory", k, m.Name)
			}
		} else {
			sum := sha256.Sum256(m.Data)
			if pm.SHA256 == nil || *pm.SHA256 != hex.EncodeToString(sum[:]) {
				t.Fatalf("python entry %d (%q): sha256 differs", k, m.Name)
			}
		}
	}
}

func mustBuild(t fataler, s *Spec) *Archive {
	t.Helper()
	a, err := Build(s)
	if err != nil {
		t.Fatalf("Build: %v", err)
	}
	return a
}

// Property: every generated spec is Standard, has unique names, builds, tiles
// exactly, and archive/zip sees precisely what the Layout says.
func TestBuildVsGoZip(t *testing.T) {
	rapid.Check(t, func(t *rapid.T) {
		s := Gen(t)
		if !s.Standard() {
			t.Fatalf("Gen produced a non-standard spec: %v", s.Notes())
		}
		seen := map[string]bool{}
		for _, m := range s.Members {
			if seen[m.Name] {
				t.Fatalf("duplicate name %q", m.Name)
			}
			seen[m.Name] = true
		}
		a := mustBuild(t, s)
		b := mustBuild(t, s)
		if !bytes.Equal(a.Data, b.Data) {
			t.Fatalf("Build is not deterministic")
		}
		checkTiling(t, s, a)
		checkGoZip(t, s, a)
	})
}

// Property: CPython's zipfile (via ref/zipref.py) agrees with the Layout.
func TestBuildVsPython(t *testing.T) {
	py, err := StartPyRef(scriptPath())
	if err != nil {
		t.Fatalf("StartPyRef: %v", err)
	}
	defer py.Close()
	dir := t.TempDir()
	n := 0
	rapid.Check(t, func(t *rapid.T) {
		s := Gen(t)
		a := mustBuild(t, s)
		n++
		path := filepath.Join(dir, fmt.Sprintf("a%04d.zip", n))
		if err := os.WriteFile(path, a.Data, 0o644); err != nil {
			t.Fatalf("write: %v", err)
		}
		defer os.Remove(path)
		l, err := py.List(path)
		if err != nil {
			t.Fatalf("List: %v", err)
		}
		checkPython(t, s, a, l)
	})
	if err := py.Close(); err != nil {
		t.Fatalf("Close: %v", err)
	}
	if _, err := py.List("x"); err == nil {
		t.Fatalf("List after Close succeeded")
	}
}

// The generator must reach every shape class at roughly the advertised rate.
func TestClassCoverage(t *testing.T) {
	const samples = 600
	counts := map[string]int{}
	members, maxMembers := 0, 0
	g := rapid.Custom(Gen)
	var first *Spec
	for seed := 0; seed < samples; seed++ {
		s := g.Example(seed)
		if seed == 0 {
			first = s
		}
		members += len(s.Members)
		if len(s.Members) > maxMembers {
			maxMembers = len(s.Members)
		}
		for _, c := range s.Classes() {
			counts[c]++
		}
	}
	var lines []string
	for _, c := range AllClasses {
		lines = append(lines, fmt.Sprintf("%s=%.1f%%", c, 100*float64(counts[c])/samples))
		if counts[c] == 0 {
			t.Errorf("class %q never generated in %d samples", c, samples)
		}
	}
	t.Logf("avg members %.1f, max %d; %s", float64(members)/samples, maxMembers, strings.Join(lines, " "))
	for _, c := range []string{"zip64local", "zip64central", "zip64eocd", "acomment", "prefix", "gap"} {
		if pct := 100 * counts[c] / samples; pct < 5 || pct > 16 {
			t.Errorf("class %q at %d%%, want about 10%%", c, pct)
		}
	}
	if pct := 100 * counts["cdperm"] / samples; pct < 2 || pct > 9 {
		t.Errorf("class cdperm at %d%%, want about 5%%", pct)
	}
	// same seed, same spec
	again := g.Example(0)
	a, b := mustBuild(t, first), mustBuild(t, again)
	if !bytes.Equal(a.Data, b.Data) {
		t.Errorf("Gen is not deterministic for a fixed seed")
	}
	keys := make([]string, 0, len(counts))
	for k := range counts {
		keys = append(keys, k)
	}
	sort.Strings(keys)
	want := append([]string{}, AllClasses...)
	sort.Strings(want)
	if strings.Join(keys, ",") != strings.Join(want, ",") {
		t.Errorf("Classes returned labels outside AllClasses: %v", keys)
	}
}

// A hand-assembled archive, byte for byte.
func TestGolden(t *testing.T) {
	s := &Spec{
		Members: []Member{{
			Name: "a", Data: []byte("hi"), Method: 0, Descriptor: Desc32Sig,
			ModTime: 0x6000, ModDate: 0x0021, VersionMadeBy: 0x031e, VersionNeeded: 20,
			ExternalAttrs: 0x81a40000, Comment: "c", ExtraCentral: ExtraRecord(0xCAFE, nil),
		}},
		ArchiveComment: "Z",
	}
	a := mustBuild(t, s)
	want := "" +
		"504b0304" + "1400" + "0800" + "0000" + "0060" + "2100" + "00000000" + "00000000" + "00000000" + "0100" + "0000" + "61" +
		"6869" +
		"504b0708" + "ac2a93d8" + "02000000" + "02000000" +
		"504b0102" + "1e03" + "1400" + "0800" + "0000" + "0060" + "2100" + "ac2a93d8" + "02000000" + "02000000" +
		"0100" + "0400" + "0100" + "0000" + "0000" + "0000a481" + "00000000" + "61" + "feca0000" + "63" +
		"504b0506" + "0000" + "0000" + "0100" + "0100" + "34000000" + "31000000" + "0100" + "5a"
	if got := hex.EncodeToString(a.Data); got != want {
		t.Fatalf("golden mismatch:\n got %s\nwant %s", got, want)
	}
	if crc32.ChecksumIEEE([]byte("hi")) != 0xd8932aac {
		t.Fatalf("crc of golden data")
	}
	l := a.Layout[0]
	if l.LocalHeaderOffset != 0 || l.DataOffset != 31 || l.DescriptorOffset != 33 || l.DescriptorLen != 16 ||
		l.EndOffset != 49 || a.CDOffset != 49 || l.CDEntryLen != 52 || a.CDSize != 52 || a.EOCDOffset != 101 {
		t.Fatalf("golden layout wrong: %+v %+v", l, a)
	}
	checkTiling(t, s, a)
	checkGoZip(t, s, a)
}

func small(name, data string) Member {
	return Member{Name: name, Data: []byte(data), VersionNeeded: 20, VersionMadeBy: 20, ModDate: 0x21}
}

// Hand-picked combinations, checked against both readers, including the
// Prefix cases the generator reaches only occasionally.
func TestCombinations(t *testing.T) {
	py, err := StartPyRef(scriptPath())
	if err != nil {
		t.Fatalf("StartPyRef: %v", err)
	}
	defer py.Close()
	dir := t.TempDir()

	all := func() []Member {
		var ms []Member
		for d := DescNone; d <= Desc64NoSig; d++ {
			for zl := 0; zl < 2; zl++ {
				for zc := 0; zc < 2; zc++ {
					for meth := 0; meth < 2; meth++ {
						m := small(fmt.Sprintf("d%d/l%d/c%d/m%d.txt", d, zl, zc, meth), strings.Repeat("payload ", 7+int(d)))
						m.Descriptor, m.Zip64Local, m.Zip64Central = d, zl == 1, zc == 1
						m.Method = uint16(meth * 8)
						m.DeflateLevel = -1
						m.Zip64ExtraLast = (int(d)+zl+zc)%2 == 1
						m.ExtraLocal = ExtraRecord(0xD935, []byte{4, 0, 0})
						m.ExtraCentral = ExtraRecord(0x5455, []byte{1, 1, 2, 3, 4})
						ms = append(ms, m)
					}
				}
			}
		}
		return ms
	}
	prefix := append([]byte("MZ\x90\x00 stub PK\x03\x04 not really PK\x01\x02 "), bytes.Repeat([]byte{0xAA}, 100)...)
	rev := func(n int) []int {
		o := make([]int, n)
		for i := range o {
			o[i] = n - 1 - i
		}
		return o
	}
	cases := map[string]*Spec{
		"all-member-combos":         {Members: all()},
		"all+prefix":                {Members: all(), Prefix: prefix},
		"all+prefix+z64":            {Members: all(), Prefix: prefix, Zip64EOCD: true},
		"all+prefix+z64sat":         {Members: all(), Prefix: prefix, Zip64EOCD: true, Zip64Saturate: true},
		"all+prefix+gap+perm":       {Members: all(), Prefix: prefix, GapBeforeCD: []byte("PK\x05\x06gap"), CDOrder: rev(len(all())), ArchiveComment: "hello"},
		"all+z64sat+longcomment":    {Members: all(), Zip64EOCD: true, Zip64Saturate: true, ArchiveComment: strings.Repeat("c", 65535)},
		"empty":                     {},
		"empty+prefix":              {Prefix: prefix},
		"empty+z64":                 {Zip64EOCD: true},
		"empty+z64sat":              {Zip64EOCD: true, Zip64Saturate: true},
		"empty+prefix+z64":          {Prefix: prefix, Zip64EOCD: true},
		"empty+prefix+z64sat+cmt":   {Prefix: prefix, Zip64EOCD: true, Zip64Saturate: true, ArchiveComment: "x"},
		"empty+gap":                 {GapBeforeCD: []byte("garbage")},
		"dir-deflated-with-desc":    {Members: []Member{{Name: "d/", IsDir: true, Method: 8, DeflateLevel: -1, Descriptor: Desc64NoSig, VersionNeeded: 20}}},
		"one-empty-name":            {Members: []Member{small("", "x")}},
		"member-gaps":               {Members: []Member{{Name: "a", Data: []byte("1"), GapBefore: []byte("PK\x03\x04PK\x01\x02")}, {Name: "b", Data: []byte("2"), GapBefore: []byte{0}}}},
		"max-name-extra-comment":    {Members: []Member{{Name: strings.Repeat("n", 65535), ExtraLocal: ExtraRecord(0xFFFE, make([]byte, 65531)), ExtraCentral: ExtraRecord(0xFFFE, make([]byte, 65531)), Comment: strings.Repeat("k", 65535), Data: []byte("x")}}},
		"cdsize-65535-go-quirk":     cdSize65535(),
		"version-zero-time-zero":    {Members: []Member{{Name: "z", Data: []byte("zz")}}},
		"deflate-stored-blocks-64k": {Members: []Member{{Name: "big", Data: fill(2, 7, 65537), Method: 8, DeflateLevel: 0, Descriptor: Desc32NoSig}}},
	}
	names := make([]string, 0, len(cases))
	for k := range cases {
		names = append(names, k)
	}
	sort.Strings(names)
	for i, name := range names {
		s := cases[name]
		t.Run(name, func(t *testing.T) {
			if !s.Standard() {
				t.Fatalf("not standard: %v", s.Notes())
			}
			a := mustBuild(t, s)
			checkTiling(t, s, a)
			checkGoZip(t, s, a)
			path := filepath.Join(dir, fmt.Sprintf("c%02d.zip", i))
			if err := os.WriteFile(path, a.Data, 0o644); err != nil {
				t.Fatal(err)
			}
			l, err := py.List(path)
			if err != nil {
				t.Fatal(err)
			}
			checkPython(t, s, a, l)
		})
	}
}

// cdSize65535 builds a non-ZIP64 archive whose central directory is exactly
// 0xFFFF bytes long: Go 1.23 then probes for a ZIP64 locator (it compares the
// 32-bit size with 0xffff), finds none and carries on.
func cdSize65535() *Spec {
	m := small("q", "q")
	m.Comment = strings.Repeat("c", 0xFFFF-46-1)
	return &Spec{Members: []Member{m}}
}

// Each "reject-" note must correspond to an observable rejection (or
// disagreement) by the named reader, and the other reader must behave as the
// absence of a note implies.
func TestNotesAreAccurate(t *testing.T) {
	py, err := StartPyRef(scriptPath())
	if err != nil {
		t.Fatalf("StartPyRef: %v", err)
	}
	defer py.Close()
	dir := t.TempDir()

	goAccepts := func(s *Spec, a *Archive) (ok bool) {
		r := &recorder{}
		func() {
			defer func() {
				if v := recover(); v != nil && v != r {
					panic(v)
				}
			}()
			checkGoZip(r, s, a)
		}()
		return !r.failed
	}
	pyAccepts := func(t *testing.T, s *Spec, a *Archive, name string) (bool, string) {
		path := filepath.Join(dir, name+".zip")
		if err := os.WriteFile(path, a.Data, 0o644); err != nil {
			t.Fatal(err)
		}
		l, err := py.List(path)
		if err != nil {
			t.Fatal(err)
		}
		r := &recorder{}
		func() {
			defer func() {
				if v := recover(); v != nil && v != r {
					panic(v)
				}
			}()
			checkPython(r, s, a, l)
		}()
		return !r.failed, r.msg
	}

	with := func(f func(m *Member)) *Spec {
		m := small("file.txt", "some data some data")
		f(&m)
		return &Spec{Members: []Member{small("first", "1"), m}}
	}
	cases := []struct {
		name       string
		s          *Spec
		goOK, pyOK bool
	}{
		{"version-needed-64", with(func(m *Member) { m.VersionNeeded = 64 }), true, false},
		{"version-needed-63", with(func(m *Member) { m.VersionNeeded = 63 }), true, true},
		{"bad-utf8", with(func(m *Member) { m.Name = "bad\xff\xfe"; m.UTF8 = true }), true, false},
		{"high-bytes-cp437", with(func(m *Member) { m.Name = "ok\xff\xfe" }), true, true},
		{"nul-in-name", with(func(m *Member) { m.Name = "a\x00b" }), true, true},
		{"dir-with-data", with(func(m *Member) { m.Name = "dir/" }), false, true},
		{"encrypted-bit", with(func(m *Member) { m.Flags = 1 }), true, false},
		{"flag-bit-5", with(func(m *Member) { m.Flags = 0x20 }), true, false},
		{"flag-bit-6", with(func(m *Member) { m.Flags = 0x40 }), true, false},
		{"bit3-without-descriptor", with(func(m *Member) { m.Flags = 8 }), false, true},
		{"malformed-central-extra", with(func(m *Member) { m.ExtraCentral = []byte{0xFE, 0xCA, 9, 0, 1} }), true, false},
		{"malformed-local-extra", with(func(m *Member) { m.ExtraLocal = []byte{0xFE, 0xCA, 9, 0, 1} }), true, true},
		{"duplicate-name", with(func(m *Member) { m.Name = "first" }), true, true},
		{"comment-with-eocd-sig", &Spec{Members: []Member{small("a", "b")}, ArchiveComment: "xxPK\x05\x06" + strings.Repeat("\x00", 18)}, false, false},
	}
	for _, c := range cases {
		t.Run(c.name, func(t *testing.T) {
			a := mustBuild(t, c.s)
			checkTiling(t, c.s, a)
			notes := c.s.Notes()
			noteGo, notePy := true, true
			for _, n := range notes {
				if strings.HasPrefix(n, "reject-go: ") {
					noteGo = false
				}
				if strings.HasPrefix(n, "reject-py: ") {
					notePy = false
				}
			}
			gotGo := goAccepts(c.s, a)
			gotPy, pyMsg := pyAccepts(t, c.s, a, c.name)
			t.Logf("go accepts=%v python accepts=%v (%s); notes=%q", gotGo, gotPy, pyMsg, notes)
			if gotGo != c.goOK || gotPy != c.pyOK {
				t.Errorf("observed go=%v py=%v, table says go=%v py=%v", gotGo, gotPy, c.goOK, c.pyOK)
			}
			if noteGo != gotGo || notePy != gotPy {
				t.Errorf("Notes() predicts go=%v py=%v, observed go=%v py=%v", noteGo, notePy, gotGo, gotPy)
			}
			if c.s.Standard() != (gotGo && gotPy) {
				t.Errorf("Standard()=%v but go=%v py=%v", c.s.Standard(), gotGo, gotPy)
			}
		})
	}
}

type recorder struct {
	failed bool
	msg    string
}

func (r *recorder) Helper() {}
func (r *recorder) Fatalf(format string, args ...any) {
	r.failed = true
	r.msg = fmt.Sprintf(format, args...)
	panic(r)
}

func TestBuildErrors(t *testing.T) {
	bad := []*Spec{
		{Members: []Member{{Name: strings.Repeat("n", 65536)}}},
		{Members: []Member{{Name: "a", Comment: strings.Repeat("n", 65536)}}},
		{Members: []Member{{Name: "a", ExtraLocal: make([]byte, 65530), Zip64Local: true}}},
		{Members: []Member{{Name: "a", ExtraCentral: make([]byte, 65530), Zip64Central: true}}},
		{Members: []Member{{Name: "a", Method: 12}}},
		{Members: []Member{{Name: "a", Method: 8, DeflateLevel: 10}}},
		{Members: []Member{{Name: "a", Descriptor: 9}}},
		{Members: []Member{{Name: "a"}}, CDOrder: []int{0, 1}},
		{Members: []Member{{Name: "a"}, {Name: "b"}}, CDOrder: []int{1, 1}},
		{ArchiveComment: strings.Repeat("n", 65536)},
	}
	for i, s := range bad {
		if _, err := Build(s); err == nil {
			t.Errorf("case %d: Build succeeded", i)
		}
	}
}
