package pegen

import (
	"bytes"
	"crypto"
	"crypto/sha256"
	"debug/pe"
	"encoding/binary"
	"encoding/hex"
	"os"
	"path/filepath"
	"sort"
	"strings"
	"testing"

	"pgregory.net/rapid"
)

func mustBuild(t interface{ Fatalf(string, ...any) }, s *Spec) ([]byte, *Layout) {
	l, err := s.Layout()
	if err != nil {
		t.Fatalf("Layout: %v", err)
	}
	b, err := Build(s)
	if err != nil {
		t.Fatalf("Build: %v", err)
	}
	return b, l
}

// debugPE runs debug/pe over the image. debug/pe refuses IA64 outright
// ("unrecognized PE machine"), so for IA64 that refusal is asserted and the
// structural check is done on a copy with the machine patched to AMD64.
func debugPE(t interface{ Fatalf(string, ...any) }, img []byte, in *Info) *pe.File {
	f, err := pe.NewFile(bytes.NewReader(img))
	if in.Machine == MachineIA64 {
		if err == nil || !strings.Contains(err.Error(), "unrecognized PE machine") {
			t.Fatalf("expected debug/pe to refuse IA64, got %v", err)
		}
		cp := append([]byte(nil), img...)
		binary.LittleEndian.PutUint16(cp[in.PEOff+4:], MachineAMD64)
		f, err = pe.NewFile(bytes.NewReader(cp))
	}
	if err != nil {
		t.Fatalf("debug/pe rejects image: %v", err)
	}
	return f
}

func TestBuildAcceptedAndParseAgrees(t *testing.T) {
	rapid.Check(t, func(t *rapid.T) {
		s := Gen(t)
		img, l := mustBuild(t, s)
		if len(img) != l.FileSize {
			t.Fatalf("file size %d != layout %d", len(img), l.FileSize)
		}
		in, err := Parse(img)
		if err != nil {
			t.Fatalf("Parse: %v", err)
		}
		if err := in.CheckLayout(); err != nil {
			t.Fatalf("CheckLayout: %v", err)
		}

		// Parse vs Spec/Layout.
		if in.PE32Plus != s.PE32Plus || in.Machine != s.Machine || in.PEOff != s.DosStubLen ||
			in.FileAlignment != s.FileAlignment || in.SectionAlignment != s.SectionAlignment ||
			in.NumberOfRvaAndSizes != s.NumberOfRvaAndSizes || in.Subsystem != s.Subsystem ||
			in.DllCharacteristics != s.DllCharacteristics || in.FileCharacteristics != s.Characteristics {
			t.Fatalf("Parse header mismatch: %+v vs spec %+v", in, s)
		}
		if in.ChecksumOff != l.ChecksumOff || in.CertDirOff != l.CertDirOff || in.SectionTableOff != l.SectionTableOff ||
			in.SectionTableEnd != l.SectionTableEnd || in.SizeOfHeaders != l.SizeOfHeaders ||
			in.SizeOfImage != l.SizeOfImage || in.EndOfSections != l.EndOfSections ||
			in.SizeOfOptionalHeader != l.OptSize || in.DataDirOff != l.DataDirOff {
			t.Fatalf("Parse offsets mismatch: %+v vs layout %+v", in, l)
		}
		if int(in.CertTableOff) != l.CertTableOff || int(in.CertTableSize) != l.CertTableSize {
			t.Fatalf("cert dir %#x+%#x vs layout %#x+%#x", in.CertTableOff, in.CertTableSize, l.CertTableOff, l.CertTableSize)
		}
		if in.ContentEnd() != l.ContentEnd+l.CertPad {
			t.Fatalf("ContentEnd %d vs %d", in.ContentEnd(), l.ContentEnd+l.CertPad)
		}
		if s.ExistingCertTable != nil {
			tbl, err := CertTable(img)
			if err != nil || !bytes.Equal(tbl, s.ExistingCertTable) {
				t.Fatalf("CertTable mismatch (%v)", err)
			}
			ents, err := ParseCertTable(tbl)
			if err != nil || len(ents) == 0 {
				t.Fatalf("ParseCertTable: %v", err)
			}
			for _, e := range ents {
				if e.Revision != 0x0200 || e.CertificateType != 0x0002 || e.Off%8 != 0 {
					t.Fatalf("bad cert entry %+v", e)
				}
			}
			if l.CertTableOff%8 != 0 || !bytes.Equal(img[l.ContentEnd:l.CertTableOff], make([]byte, l.CertPad)) {
				t.Fatalf("cert table alignment/padding wrong")
			}
		}

		// Structural invariants.
		if in.SizeOfHeaders%s.FileAlignment != 0 || int(in.SizeOfHeaders) < l.SectionTableEnd+s.HeaderGap {
			t.Fatalf("SizeOfHeaders %#x", in.SizeOfHeaders)
		}
		if len(in.Sections) != len(s.Sections) {
			t.Fatalf("section count")
		}
		next := in.SizeOfHeaders
		for i, si := range in.Sections {
			sp, sl := s.Sections[i], l.Sections[i]
			if si.Name != sp.Name || si.VirtualSize != sp.VirtualSize || si.Characteristics != sp.Characteristics ||
				si.PointerToRawData != sl.PointerToRawData || si.SizeOfRawData != sl.SizeOfRawData || si.VirtualAddress != sl.VirtualAddress {
				t.Fatalf("section %d: parsed %+v spec %+v layout %+v", i, si, sp.Name, sl)
			}
			if si.VirtualAddress%s.SectionAlignment != 0 {
				t.Fatalf("section %d VA %#x unaligned", i, si.VirtualAddress)
			}
			if len(sp.Data) == 0 {
				if si.PointerToRawData != 0 || si.SizeOfRawData != 0 {
					t.Fatalf("empty section %d has raw data", i)
				}
				continue
			}
			if si.PointerToRawData != next || si.PointerToRawData%s.FileAlignment != 0 {
				t.Fatalf("section %d ptr %#x, want %#x aligned", i, si.PointerToRawData, next)
			}
			if sp.UnalignedRawSize {
				if int(si.SizeOfRawData) != len(sp.Data) || si.SizeOfRawData%s.FileAlignment == 0 {
					t.Fatalf("section %d unaligned raw size %#x", i, si.SizeOfRawData)
				}
			} else if si.SizeOfRawData%s.FileAlignment != 0 || int(si.SizeOfRawData) < len(sp.Data) {
				t.Fatalf("section %d raw size %#x", i, si.SizeOfRawData)
			}
			raw := img[si.PointerToRawData : si.PointerToRawData+si.SizeOfRawData]
			if !bytes.Equal(raw[:len(sp.Data)], sp.Data) || !bytes.Equal(raw[len(sp.Data):], make([]byte, len(raw)-len(sp.Data))) {
				t.Fatalf("section %d data mismatch", i)
			}
			next += si.SizeOfRawData
		}
		if !bytes.Equal(img[l.OverlayOff:l.ContentEnd], s.Overlay) {
			t.Fatalf("overlay mismatch")
		}

		// debug/pe agreement.
		f := debugPE(t, img, in)
		if len(f.Sections) != len(s.Sections) {
			t.Fatalf("debug/pe sections %d", len(f.Sections))
		}
		for i, ps := range f.Sections {
			si := in.Sections[i]
			if ps.Name != si.Name || ps.Size != si.SizeOfRawData || ps.Offset != si.PointerToRawData ||
				ps.VirtualAddress != si.VirtualAddress || ps.VirtualSize != si.VirtualSize || ps.Characteristics != si.Characteristics {
				t.Fatalf("debug/pe section %d %+v vs %+v", i, ps.SectionHeader, si)
			}
			if ps.Size > 0 {
				d, err := ps.Data()
				if err != nil || !bytes.Equal(d[:len(s.Sections[i].Data)], s.Sections[i].Data) {
					t.Fatalf("debug/pe section %d data: %v", i, err)
				}
			}
		}
		var dd []pe.DataDirectory
		var ck, soh, soi, nrva uint32
		switch oh := f.OptionalHeader.(type) {
		case *pe.OptionalHeader32:
			if s.PE32Plus {
				t.Fatalf("debug/pe says PE32")
			}
			dd, ck, soh, soi, nrva = oh.DataDirectory[:], oh.CheckSum, oh.SizeOfHeaders, oh.SizeOfImage, oh.NumberOfRvaAndSizes
		case *pe.OptionalHeader64:
			if !s.PE32Plus {
				t.Fatalf("debug/pe says PE32+")
			}
			dd, ck, soh, soi, nrva = oh.DataDirectory[:], oh.CheckSum, oh.SizeOfHeaders, oh.SizeOfImage, oh.NumberOfRvaAndSizes
		default:
			t.Fatalf("debug/pe: no optional header")
		}
		if ck != in.StoredChecksum || soh != in.SizeOfHeaders || soi != in.SizeOfImage || nrva != in.NumberOfRvaAndSizes ||
			dd[4].VirtualAddress != in.CertTableOff || dd[4].Size != in.CertTableSize {
			t.Fatalf("debug/pe optional header disagrees with Parse")
		}

		// Checksum.
		if s.CorrectChecksum {
			if got := Checksum(img); got != in.StoredChecksum {
				t.Fatalf("Checksum %#x != stored %#x", got, in.StoredChecksum)
			}
		} else if in.StoredChecksum != s.StoredChecksum {
			t.Fatalf("stored checksum %#x != spec %#x", in.StoredChecksum, s.StoredChecksum)
		}
		// Checksum must not depend on the stored field.
		cp := append([]byte(nil), img...)
		binary.LittleEndian.PutUint32(cp[in.ChecksumOff:], 0x12345678)
		if Checksum(cp) != Checksum(img) {
			t.Fatalf("Checksum depends on stored field")
		}
		if Checksum(img) != naiveChecksum(img, in.ChecksumOff) {
			t.Fatalf("Checksum disagrees with stepwise-fold implementation")
		}
	})
}

// naiveChecksum: second formulation (word-at-a-time with immediate carry
// fold, on a zeroed copy).
func naiveChecksum(img []byte, ckoff int) uint32 {
	cp := append([]byte(nil), img...)
	copy(cp[ckoff:ckoff+4], []byte{0, 0, 0, 0})
	if len(cp)%2 == 1 {
		cp = append(cp, 0)
	}
	var sum uint32
	for i := 0; i < len(cp); i += 2 {
		sum += uint32(binary.LittleEndian.Uint16(cp[i:]))
		sum = sum&0xffff + sum>>16
	}
	sum = sum&0xffff + sum>>16
	return sum + uint32(len(img))
}

func TestReferenceProperties(t *testing.T) {
	rapid.Check(t, func(t *rapid.T) {
		s := Gen(t)
		img, l := mustBuild(t, s)
		in, _ := Parse(img)
		h := rapid.SampledFrom([]crypto.Hash{crypto.SHA1, crypto.SHA256, crypto.SHA384}).Draw(t, "hash")

		dg, err := AuthenticodeDigest(img, h)
		if err != nil {
			t.Fatalf("AuthenticodeDigest: %v", err)
		}
		// Second formulation, valid in the contiguous domain: the hash of the
		// file with CheckSum, directory entry 4 and the cert table cut out.
		flat := append([]byte(nil), img[:in.ChecksumOff]...)
		flat = append(flat, img[in.ChecksumOff+4:in.CertDirOff]...)
		flat = append(flat, img[in.CertDirOff+8:in.ContentEnd()]...)
		hw := h.New()
		hw.Write(flat)
		if !bytes.Equal(dg, hw.Sum(nil)) {
			t.Fatalf("digest != hash of flattened content")
		}
		dgp, err := AuthenticodeDigestPadded(img, h)
		if err != nil {
			t.Fatal(err)
		}
		if (in.ContentEnd()%8 == 0) != bytes.Equal(dg, dgp) {
			t.Fatalf("padded/unpadded relation wrong (content %d)", in.ContentEnd())
		}

		// Digest, page hashes and payload ignore checksum / cert dir / table.
		ph, err := PageHashes(img, h)
		if err != nil {
			t.Fatalf("PageHashes: %v", err)
		}
		rec := 4 + h.Size()
		pages := 0
		for _, sl := range l.Sections {
			pages += (int(sl.SizeOfRawData) + PageSize - 1) / PageSize
		}
		if len(ph) != (pages+2)*rec {
			t.Fatalf("page hash length %d, want %d records", len(ph), pages+2)
		}
		if binary.LittleEndian.Uint32(ph) != 0 {
			t.Fatalf("first page hash offset not 0")
		}
		lastRec := ph[len(ph)-rec:]
		wantLast := uint32(l.EndOfSections)
		if pages == 0 {
			wantLast = 0
		}
		if binary.LittleEndian.Uint32(lastRec) != wantLast || !bytes.Equal(lastRec[4:], make([]byte, h.Size())) {
			t.Fatalf("bad terminator record")
		}
		prev := int64(-1)
		for i := 0; i < len(ph); i += rec {
			off := int64(binary.LittleEndian.Uint32(ph[i:]))
			if off <= prev && !(pages == 0 && i == rec) {
				t.Fatalf("page offsets not increasing at record %d", i/rec)
			}
			prev = off
		}

		// Simulated signing: same spec without / with a certificate table.
		un := *s
		un.ExistingCertTable = nil
		unsigned, _ := mustBuild(t, &un)
		sg := un
		sg.ExistingCertTable = MakeCertTable(rapid.Bool().Draw(t, "round"), fill(rapid.IntRange(1, 64).Draw(t, "siglen"), 7, fillRandom))
		sg.CorrectChecksum = true
		signed, _ := mustBuild(t, &sg)
		a, _ := AuthenticodeDigestPadded(unsigned, h)
		b, _ := AuthenticodeDigest(signed, h)
		if !bytes.Equal(a, b) {
			t.Fatalf("Padded(unsigned) != Digest(signed)")
		}
		if err := SamePayload(unsigned, signed); err != nil {
			t.Fatalf("SamePayload: %v", err)
		}
		if err := SamePayload(img, signed); err != nil {
			t.Fatalf("SamePayload(presigned?, signed): %v", err)
		}
		pu, _ := PayloadPadded(unsigned)
		ps, _ := Payload(signed)
		if !bytes.Equal(pu, ps) {
			t.Fatalf("PayloadPadded(unsigned) != Payload(signed)")
		}
		pa, _ := PageHashes(unsigned, h)
		pb, _ := PageHashes(signed, h)
		if !bytes.Equal(pa, pb) || !bytes.Equal(pa, ph) {
			t.Fatalf("page hashes depend on signature/checksum")
		}
		// SamePayload must notice a flipped content byte.
		if len(signed) > 0 {
			pos := rapid.IntRange(0, l.ContentEnd-1).Draw(t, "flip")
			if !(pos >= in.ChecksumOff && pos < in.ChecksumOff+4) && !(pos >= in.CertDirOff && pos < in.CertDirOff+8) {
				cp := append([]byte(nil), signed...)
				cp[pos] ^= 0x40
				if SamePayload(unsigned, cp) == nil {
					t.Fatalf("SamePayload missed flip at %#x", pos)
				}
				if pos2, _ := AuthenticodeDigest(cp, h); bytes.Equal(pos2, b) {
					// a flip inside headers could in principle change the
					// layout and make the oracle abstain (nil digest), which
					// also differs from b.
					t.Fatalf("digest missed flip at %#x", pos)
				}
			}
		}
	})
}

func TestChecksumKnownAnswers(t *testing.T) {
	for _, c := range []struct {
		in   []byte
		want uint32
	}{
		{nil, 0},
		{[]byte{1, 0, 2, 0}, 3 + 4},
		{[]byte{1, 0, 2}, 3 + 3},
		{[]byte{0xff, 0xff, 0xff, 0xff}, 0xffff + 4},
		{[]byte{0xff, 0xff, 0x02, 0x00}, 0x0002 + 4}, // 0x10001 -> end-around carry
		{[]byte{0x34, 0x12, 0x78}, 0x1234 + 0x78 + 3},
	} {
		if got := Checksum(c.in); got != c.want {
			t.Errorf("Checksum(% x) = %#x, want %#x", c.in, got, c.want)
		}
	}
}

func TestMinimalHandBuilt(t *testing.T) {
	// A fixed spec with hand-checked offsets.
	s := &Spec{
		Machine: MachineI386, FileAlignment: 512, SectionAlignment: 4096, DosStubLen: 128,
		NumberOfRvaAndSizes: 16, CorrectChecksum: true,
		Sections: []Section{
			{Name: ".text", VirtualSize: 5, Data: []byte{1, 2, 3, 4, 5}, Characteristics: 0x60000020},
			{Name: ".bss", VirtualSize: 100, Characteristics: 0xC0000080},
			{Name: ".data", VirtualSize: 700, Data: bytes.Repeat([]byte{9}, 513), Characteristics: 0xC0000040},
		},
		Overlay:           []byte{0xAA, 0xBB, 0xCC},
		ExistingCertTable: MakeCertTable(false, []byte{1, 2, 3}),
	}
	img, err := Build(s)
	if err != nil {
		t.Fatal(err)
	}
	in, err := Parse(img)
	if err != nil {
		t.Fatal(err)
	}
	// 128 + 4 + 20 = 152 optional header; +64 = 216 checksum; +96+32 = 280 cert dir;
	// 152+224 = 376 section table; 3*40 -> 496; headers 512.
	if in.OptOff != 152 || in.ChecksumOff != 216 || in.CertDirOff != 280 || in.SectionTableOff != 376 ||
		in.SectionTableEnd != 496 || in.SizeOfHeaders != 512 {
		t.Fatalf("offsets: %+v", in)
	}
	// .text 512..1024, .data 1024..2048, overlay 2048..2051, pad 5, table at 2056, 16 bytes.
	if in.Sections[0].PointerToRawData != 512 || in.Sections[2].PointerToRawData != 1024 || in.Sections[2].SizeOfRawData != 1024 ||
		in.EndOfSections != 2048 || in.CertTableOff != 2056 || in.CertTableSize != 16 || len(img) != 2072 {
		t.Fatalf("layout: %+v len %d", in, len(img))
	}
	if in.Sections[0].VirtualAddress != 0x1000 || in.Sections[1].VirtualAddress != 0x2000 || in.Sections[2].VirtualAddress != 0x3000 || in.SizeOfImage != 0x4000 {
		t.Fatalf("VAs: %+v", in.Sections)
	}
	if binary.LittleEndian.Uint32(img[2056:]) != 11 {
		t.Fatalf("dwLength")
	}
	p, _ := Payload(img)
	if len(p) != 2056 {
		t.Fatalf("payload len %d", len(p))
	}
	ph, _ := PageHashes(img, crypto.SHA256)
	if len(ph) != 4*36 { // headers, .text page, .data page, terminator
		t.Fatalf("page hashes %d", len(ph))
	}
	if binary.LittleEndian.Uint32(ph[36:]) != 512 || binary.LittleEndian.Uint32(ph[72:]) != 1024 || binary.LittleEndian.Uint32(ph[108:]) != 2048 {
		t.Fatalf("page offsets")
	}
}

func TestOracleAbstains(t *testing.T) {
	s := &Spec{Machine: MachineAMD64, PE32Plus: true, FileAlignment: 512, SectionAlignment: 4096, DosStubLen: 64, NumberOfRvaAndSizes: 16,
		Sections: []Section{{Name: ".a", VirtualSize: 600, Data: make([]byte, 600)}, {Name: ".b", VirtualSize: 10, Data: make([]byte, 10)}}}
	img, _ := Build(s)
	in, _ := Parse(img)
	// gap between sections
	cp := append([]byte(nil), img...)
	binary.LittleEndian.PutUint32(cp[in.Sections[0].HeaderOff+16:], 512)
	if _, err := AuthenticodeDigest(cp, crypto.SHA256); err == nil {
		t.Errorf("expected abstention on gap")
	}
	// truncated
	if _, err := AuthenticodeDigest(img[:len(img)-1], crypto.SHA256); err == nil {
		t.Errorf("expected abstention on truncated section")
	}
	// cert table not at end
	cp = append([]byte(nil), img...)
	cp = append(cp, MakeCertTable(false, []byte{1})...)
	cp = append(cp, 0)
	binary.LittleEndian.PutUint32(cp[in.CertDirOff:], uint32(len(img)))
	binary.LittleEndian.PutUint32(cp[in.CertDirOff+4:], 16)
	if _, err := AuthenticodeDigest(cp, crypto.SHA256); err == nil {
		t.Errorf("expected abstention on trailing garbage after cert table")
	}
	if _, err := AuthenticodeDigest(cp[:len(cp)-1], crypto.SHA256); err != nil {
		t.Errorf("well-formed appended table rejected: %v", err)
	}
	// fewer than 5 directories
	s.NumberOfRvaAndSizes = 5
	img, _ = Build(s)
	in, _ = Parse(img)
	cp = append([]byte(nil), img...)
	binary.LittleEndian.PutUint32(cp[in.DataDirOff-4:], 4)
	if _, err := Parse(cp); err != ErrNoCertDir {
		t.Errorf("want ErrNoCertDir, got %v", err)
	}
}

// TestGenCoverage checks, over a fixed set of seeds, that Gen reaches every
// shape class the harness cares about.
func TestGenCoverage(t *testing.T) {
	g := Specs()
	counts := map[string]int{}
	const n = 400
	for seed := 0; seed < n; seed++ {
		s := g.Example(seed)
		if _, err := Build(s); err != nil {
			t.Fatalf("seed %d: %v", seed, err)
		}
		for _, c := range s.Classes() {
			counts[c]++
		}
	}
	want := []string{"pe32", "pe32+", "ia64", "machine-0x014c", "machine-0x8664", "machine-0xaa64", "align512", "align4096",
		"lowalign", "nosections", "nodata", "emptysection", "maxsections", "bigsection", "vsize<raw", "vsize>raw", "vsize0",
		"unaligned-raw", "hdrgap", "hdrgap-nonzero", "lfanew-not8", "fewdirs", "overlay", "overlay-unaligned", "presigned",
		"presigned-multi", "presigned-padded", "content-unaligned", "oddsize", "cksum-correct", "cksum-wrong"}
	for _, w := range want {
		if counts[w] == 0 {
			t.Errorf("class %q never generated in %d examples", w, n)
		}
	}
	keys := make([]string, 0, len(counts))
	for k := range counts {
		keys = append(keys, k)
	}
	sort.Strings(keys)
	var sb strings.Builder
	for _, k := range keys {
		sb.WriteString(k)
		sb.WriteString("=")
		sb.WriteString(itoa(counts[k]))
		sb.WriteString(" ")
	}
	t.Logf("class counts over %d examples: %s", n, sb.String())
}

func itoa(n int) string {
	if n == 0 {
		return "0"
	}
	var b []byte
	for n > 0 {
		b = append([]byte{byte('0' + n%10)}, b...)
		n /= 10
	}
	return string(b)
}

func TestBuildDeterministic(t *testing.T) {
	g := Specs()
	for seed := 0; seed < 20; seed++ {
		a, _ := Build(g.Example(seed))
		b, _ := Build(g.Example(seed))
		if !bytes.Equal(a, b) || a == nil {
			t.Fatalf("seed %d not deterministic", seed)
		}
	}
}

// Repository fixtures: they must parse and be inside the oracle's domain.
// Stored vs computed checksum is printed, not asserted. There is no
// osslsigncode in this sandbox, so for these unsigned files the digest has no
// external cross-check (see TestExternalSignedFiles for the one we do have).
func TestRepoFixtures(t *testing.T) {
	for _, name := range []string{"ClassLibrary1.dll", "WindowsFormsApplication1.exe"} {
		path := filepath.Join("/repo/functest/packages", name)
		data, err := os.ReadFile(path)
		if err != nil {
			t.Skipf("fixture missing: %v", err)
		}
		in, err := Parse(data)
		if err != nil {
			t.Errorf("%s: Parse: %v", name, err)
			continue
		}
		if _, err := pe.NewFile(bytes.NewReader(data)); err != nil {
			t.Errorf("%s: debug/pe: %v", name, err)
		}
		t.Logf("%s: size=%d pe32+=%v machine=%#x lfanew=%#x hdrs=%#x nsec=%d endOfSections=%#x certdir@%#x=(%#x,%#x) nrva=%d filealign=%#x",
			name, len(data), in.PE32Plus, in.Machine, in.PEOff, in.SizeOfHeaders, in.NumberOfSections, in.EndOfSections,
			in.CertDirOff, in.CertTableOff, in.CertTableSize, in.NumberOfRvaAndSizes, in.FileAlignment)
		for _, s := range in.Sections {
			t.Logf("   %-8q ptr=%#x raw=%#x va=%#x vsize=%#x", s.Name, s.PointerToRawData, s.SizeOfRawData, s.VirtualAddress, s.VirtualSize)
		}
		t.Logf("   checksum stored=%#x computed=%#x match=%v", in.StoredChecksum, Checksum(data), in.StoredChecksum == Checksum(data))
		if err := in.CheckLayout(); err != nil {
			t.Errorf("%s: CheckLayout: %v", name, err)
			continue
		}
		for _, h := range []crypto.Hash{crypto.SHA1, crypto.SHA256} {
			d, err := AuthenticodeDigest(data, h)
			if err != nil {
				t.Errorf("%s: digest: %v", name, err)
				continue
			}
			dp, _ := AuthenticodeDigestPadded(data, h)
			ph, err := PageHashes(data, h)
			if err != nil {
				t.Errorf("%s: page hashes: %v", name, err)
			}
			t.Logf("   %v digest=%x padded=%x pagehash-records=%d", h, d, dp, len(ph)/(4+h.Size()))
		}
		p, err := Payload(data)
		if err != nil || len(p) != in.ContentEnd() {
			t.Errorf("%s: Payload: len %d err %v", name, len(p), err)
		}
	}
}

// digestInfo patterns: SEQUENCE { AlgorithmIdentifier{oid, NULL}, OCTET STRING }
var digestInfoPrefixes = []struct {
	h      crypto.Hash
	prefix string
}{
	{crypto.SHA256, "3031300d060960864801650304020105000420"},
	{crypto.SHA1, "3021300906052b0e03021a05000414"},
	{crypto.SHA384, "3041300d060960864801650304020205000430"},
	{crypto.SHA512, "3051300d060960864801650304020305000440"},
}

// spcDigest pulls the image digest out of a PKCS#7 Authenticode blob without
// an ASN.1 parser: the first DigestInfo in the DER is the one of
// SpcIndirectDataContent (content precedes certificates and signerInfos).
func spcDigest(der []byte) (crypto.Hash, []byte) {
	best, bestPos := crypto.Hash(0), -1
	for _, p := range digestInfoPrefixes {
		pre, _ := hex.DecodeString(p.prefix)
		if i := bytes.Index(der, pre); i >= 0 && (bestPos < 0 || i < bestPos) && i+len(pre)+p.h.Size() <= len(der) {
			best, bestPos = p.h, i+len(pre)
		}
	}
	if bestPos < 0 {
		return 0, nil
	}
	return best, der[bestPos : bestPos+best.Size()]
}

// spcPageHashes finds an SpcPeImagePageHashes attribute (v1 1.3.6.1.4.1.311.2.3.1
// or v2 ...3.2): OID, SET { OCTET STRING hashes }.
func spcPageHashes(der []byte) (crypto.Hash, []byte) {
	for _, c := range []struct {
		h   crypto.Hash
		oid string
	}{{crypto.SHA256, "060a2b060104018237020302"}, {crypto.SHA1, "060a2b060104018237020301"}} {
		oid, _ := hex.DecodeString(c.oid)
		i := bytes.Index(der, oid)
		if i < 0 {
			continue
		}
		rest := der[i+len(oid):]
		readLen := func(b []byte) (int, []byte) {
			if len(b) == 0 {
				return -1, nil
			}
			if b[0] < 0x80 {
				return int(b[0]), b[1:]
			}
			n := int(b[0] & 0x7f)
			if n > 4 || len(b) < 1+n {
				return -1, nil
			}
			v := 0
			for _, x := range b[1 : 1+n] {
				v = v<<8 | int(x)
			}
			return v, b[1+n:]
		}
		if len(rest) < 2 || rest[0] != 0x31 {
			continue
		}
		_, rest = readLen(rest[1:])
		if len(rest) < 2 || rest[0] != 0x04 {
			continue
		}
		n, rest := readLen(rest[1:])
		if n < 0 || n > len(rest) {
			continue
		}
		return c.h, rest[:n]
	}
	return 0, nil
}

// TestExternalSignedFiles: real-world signed PE files that happen to be in
// the sandbox (Go module cache / pip). For each one that carries a
// certificate table, the digest embedded by the real signer must equal
// AuthenticodeDigest over the file. This is the only external cross-check
// available (osslsigncode is not installed). Skips when none is found.
func TestExternalSignedFiles(t *testing.T) {
	var paths []string
	for _, g := range []string{
		"/repo/functest/packages/*.exe",
		"/repo/functest/packages/*.dll",
		"/root/go/pkg/mod/golang.org/x/sys@*/windows/testdata/*.exe",
		"/root/.pyenv/versions/*/lib/python*/site-packages/pip/_vendor/distlib/*.exe",
		"/root/.pyenv/versions/*/lib/python*/site-packages/setuptools/*.exe",
	} {
		m, _ := filepath.Glob(g)
		paths = append(paths, m...)
	}
	sort.Strings(paths)
	checked := 0
	seen := map[string]bool{}
	for _, p := range paths {
		data, err := os.ReadFile(p)
		if err != nil {
			continue
		}
		in, err := Parse(data)
		if err != nil || !in.HasCertTable() {
			continue
		}
		sum := sha256.Sum256(data)
		key := hex.EncodeToString(sum[:])
		if seen[key] {
			continue
		}
		seen[key] = true
		tbl, err := CertTable(data)
		if err != nil {
			t.Errorf("%s: %v", p, err)
			continue
		}
		ents, err := ParseCertTable(tbl)
		if err != nil {
			t.Errorf("%s: %v", p, err)
			continue
		}
		for i, e := range ents {
			h, want := spcDigest(e.Data)
			if want == nil {
				t.Logf("%s: entry %d: no DigestInfo found", p, i)
				continue
			}
			got, err := AuthenticodeDigest(data, h)
			if err != nil {
				t.Errorf("%s: AuthenticodeDigest: %v", p, err)
				continue
			}
			ok := bytes.Equal(got, want)
			t.Logf("%s: entry %d dwLength=%d(%%8=%d) %v signer=%x oracle=%x match=%v stored-cksum-ok=%v content%%8=%d",
				p, i, e.Length, e.Length%8, h, want, got, ok, Checksum(data) == in.StoredChecksum, in.ContentEnd()%8)
			if !ok {
				t.Errorf("%s: digest mismatch with real signer", p)
			}
			checked++
			if ph, want := spcPageHashes(e.Data); want != nil {
				got, err := PageHashes(data, ph)
				okp := err == nil && bytes.Equal(got, want)
				t.Logf("%s: entry %d page hashes (%v, %d bytes) match=%v err=%v", p, i, ph, len(want), okp, err)
				if !okp {
					t.Errorf("%s: page hash mismatch with real signer", p)
				}
			}
		}
	}
	if checked == 0 {
		t.Skip("no externally signed PE file available; digest has no external cross-check")
	}
	t.Logf("cross-checked %d real signatures", checked)
}
